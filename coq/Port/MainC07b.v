(** C07, the Announce class: in every reachable state the master a slave port
    follows is acceptable to that port and is not the port itself; hence an
    Announce bearing the port's own identity, or from a master outside the
    acceptable master list, is a stuttering step as well - and with it EVERY
    event the oracle's [ignorable] accepts. *)
From SV Require Export Port.MainC07.

(** * the foreign master list only changes on Announce reception and in BMCA *)
Definition keeps_fml (p : port) (r : hres) : Prop :=
  forall p' d' o, r = Ok (p', d', o) -> p_fml p' = p_fml p.

Lemma draw_fml x z y : draw x = (z, y) -> p_fml y = p_fml x.
Proof. unfold draw. destruct (p_rng x); intros E; inversion E; reflexivity. Qed.

Lemma extract_measurement_fml p p' om o : extract_measurement p = Ok (p', om, o) -> p_fml p' = p_fml p.
Proof.
  unfold extract_measurement, set_forced. intros H. crunch H;
    repeat match goal with E : (if ?c then _ else _) = (_, _) |- _ => destruct c; inversion E; subst; clear E end;
    reflexivity.
Qed.

Lemma handle_time_measurement_fml p d : keeps_fml p (handle_time_measurement p d).
Proof.
  unfold keeps_fml, handle_time_measurement. intros p' d' o H.
  destruct (extract_measurement p) as [[[p1 om] o1]|?] eqn:E; cbn [obind] in H; [|discriminate].
  pose proof (extract_measurement_fml _ _ _ _ E) as H1.
  destruct om as [m|]; [destruct (filter_mean_delay m)|]; unfold ret in H; inversion H; subst; exact H1.
Qed.

Ltac fm_tac H :=
  crunch H; try reflexivity;
  try (match goal with Hx : handle_time_measurement ?q ?dd = Ok _ |- _ =>
         rewrite (handle_time_measurement_fml q dd _ _ _ Hx); reflexivity end);
  try (match goal with Hx : go_faulty ?q ?dd = Ok _ |- _ =>
         unfold go_faulty, set_forced, ret in Hx; inversion Hx; reflexivity end).

Lemma handle_sync_fml p d h w t : keeps_fml p (handle_sync p d h w t).
Proof. unfold keeps_fml, handle_sync. intros p' d' o H. fm_tac H. Qed.
Lemma handle_follow_up_fml p d h w : keeps_fml p (handle_follow_up p d h w).
Proof. unfold keeps_fml, handle_follow_up. intros p' d' o H. fm_tac H. Qed.
Lemma handle_delay_resp_fml p d h w r : keeps_fml p (handle_delay_resp p d h w r).
Proof. unfold keeps_fml, handle_delay_resp. intros p' d' o H. fm_tac H. Qed.
Lemma handle_delay_timestamp_fml p d id t : keeps_fml p (handle_delay_timestamp p d id t).
Proof. unfold keeps_fml, handle_delay_timestamp. intros p' d' o H. fm_tac H. Qed.
Lemma handle_pdelay_timestamp_fml p d id t : keeps_fml p (handle_pdelay_timestamp p d id t).
Proof. unfold keeps_fml, handle_pdelay_timestamp. intros p' d' o H. fm_tac H. Qed.
Lemma handle_peer_delay_response_fml p d h w r t : keeps_fml p (handle_peer_delay_response p d h w r t).
Proof. unfold keeps_fml, handle_peer_delay_response. intros p' d' o H. fm_tac H. Qed.
Lemma handle_peer_delay_follow_up_fml p d h w r : keeps_fml p (handle_peer_delay_follow_up p d h w r).
Proof. unfold keeps_fml, handle_peer_delay_follow_up. cbv zeta. intros p' d' o H. fm_tac H. Qed.
Lemma send_sync_fml p d : keeps_fml p (send_sync p d).
Proof. unfold keeps_fml, send_sync. intros p' d' o H. fm_tac H. Qed.
Lemma handle_sync_timestamp_fml p d id ts : keeps_fml p (handle_sync_timestamp p d id ts).
Proof. unfold keeps_fml, handle_sync_timestamp. intros p' d' o H. fm_tac H. Qed.
Lemma handle_delay_req_fml p d h ts : keeps_fml p (handle_delay_req p d h ts).
Proof. unfold keeps_fml, handle_delay_req. intros p' d' o H. fm_tac H. Qed.
Lemma handle_pdelay_req_fml p d h ts : keeps_fml p (handle_pdelay_req p d h ts).
Proof. unfold keeps_fml, handle_pdelay_req. intros p' d' o H. fm_tac H. Qed.
Lemma handle_pdelay_response_timestamp_fml p d id rq ts : keeps_fml p (handle_pdelay_response_timestamp p d id rq ts).
Proof. unfold keeps_fml, handle_pdelay_response_timestamp. intros p' d' o H. fm_tac H. Qed.
Lemma send_announce_fml p d q : keeps_fml p (send_announce p d q).
Proof.
  unfold keeps_fml, send_announce. intros p' d' o H. destruct (is_master (p_state p)); [|unfold ret in H; inversion H; reflexivity].
  match type of H with context [let '(a, b) := ?X in _] => destruct X as [pb m1] end.
  destruct (announce_tlv_loop _ _ _ _ _ _ _) as [[sfx locks]|?]; cbn [obind] in H; [|discriminate].
  destruct (serialize_packet _); cbn [obind] in H; [|discriminate]. unfold ret in H. inversion H; reflexivity.
Qed.
Lemma send_delay_request_fml p d : keeps_fml p (send_delay_request p d).
Proof.
  unfold keeps_fml, send_delay_request. intros p' d' o H.
  repeat match type of H with context [draw ?x] =>
    let E := fresh "Ed" in destruct (draw x) as [? ?] eqn:E; apply draw_fml in E end.
  crunch H; repeat match goal with E : draw _ = (_, _) |- _ => apply draw_fml in E end;
    repeat match goal with E : p_fml _ = _ |- _ => rewrite E end; reflexivity.
Qed.
Lemma receipt_timer_fml p d : keeps_fml p (handle_announce_receipt_timer p d).
Proof.
  unfold keeps_fml, handle_announce_receipt_timer, set_forced. intros p' d' o H.
  repeat match type of H with
  | context [draw ?x] => let E := fresh "Ed" in destruct (draw x) as [? ?] eqn:E; apply draw_fml in E
  | context [if ?c then _ else _] => destruct c
  end; unfold ret in H; inversion H; subst; try reflexivity;
  repeat match goal with E : p_fml _ = _ |- _ => rewrite E end; reflexivity.
Qed.

(** * a predicate on the headers of all stored Announces *)
Section FmlAll.
  Variable P : header -> Prop.
  Definition fml_all (l : list foreign_master) : Prop :=
    Forall (fun fm => Forall (fun m => P (fm_header m)) (fmr_msgs fm)) l.

  Lemma fml_register_all own ti l h a age : fml_all l -> P h -> fml_all (fml_register own ti l h a age).
  Proof.
    intros Hl Ha. unfold fml_register.
    destruct (negb (fml_qualified own l h a)); [exact Hl|].
    destruct (fml_find (h_source h) l) as [fm0|].
    - unfold fml_all in *. clear fm0. induction l as [|x l IH]; cbn [fml_update]; [constructor|].
      inversion Hl; subst. destruct (pi_eqb (fmr_identity x) (h_source h)).
      + constructor; [|assumption]. unfold fm_register. cbn [fmr_msgs].
        destruct (length (purge_old ti (fmr_msgs x)) <? MAX_ANNOUNCE_MESSAGES)%nat;
          apply Forall_app; split; try (constructor; [exact Ha|constructor]).
        * apply Forall_filter. assumption.
        * apply Forall_tl. apply Forall_filter. assumption.
      + constructor; [assumption|]. apply IH. assumption.
    - destruct (length l <? MAX_FOREIGN_MASTERS)%nat; [|exact Hl].
      unfold fml_all. apply Forall_app. split; [exact Hl|].
      constructor; [|constructor]. cbn. constructor; [exact Ha|constructor].
  Qed.

  Lemma fml_step_age_all ti step l : fml_all l -> fml_all (fml_step_age ti step l).
  Proof.
    unfold fml_all, fml_step_age. intros Hl. apply Forall_filter.
    rewrite Forall_forall in *. intros fm' Hin. apply in_map_iff in Hin. destruct Hin as [fm [Heq Hin]].
    subst fm'. specialize (Hl fm Hin). unfold fm_step_age. cbn [fmr_msgs].
    apply Forall_filter. rewrite Forall_forall in *. intros m' Hm'.
    apply in_map_iff in Hm'. destruct Hm' as [m [Heq Hm]]. subst m'. exact (Hl m Hm).
  Qed.

  Lemma fml_take_qualified_all l : fml_all l -> fml_all (fst (fml_take_qualified l)).
  Proof.
    unfold fml_all, fml_take_qualified. cbn [fst]. intros Hl.
    rewrite map_map. rewrite Forall_forall in *. intros fm' Hin.
    apply in_map_iff in Hin. destruct Hin as [fm [Heq Hin]]. subst fm'. specialize (Hl fm Hin).
    unfold fm_take. destruct (FOREIGN_MASTER_THRESHOLD <=? length (fmr_msgs fm))%nat; cbn [fst]; [|exact Hl].
    cbn. apply removelast_Forall. exact Hl.
  Qed.

  Lemma erbest_all own acc ti l l' b :
    fml_all l -> bmca_take_best own acc ti l = Ok (l', Some b) -> P (b_header b).
  Proof.
    intros Hl H. destruct (erbest_needs_two _ _ _ _ _ _ H) as (fm & m & Hfm & _ & Hm & Hh & _).
    unfold fml_all in Hl. rewrite Forall_forall in Hl. specialize (Hl fm Hfm).
    rewrite Forall_forall in Hl. rewrite Hh. apply Hl. exact Hm.
  Qed.

  Lemma bmca_take_best_all own acc ti l l' ob :
    fml_all l -> bmca_take_best own acc ti l = Ok (l', ob) -> fml_all l'.
  Proof.
    intros Hl H. pose proof H as H0. unfold bmca_take_best in H.
    destruct (fml_take_qualified l) as [l1 taken] eqn:Et.
    assert (H1 : fml_all l1).
    { pose proof (fml_take_qualified_all l Hl) as Hx. rewrite Et in Hx. exact Hx. }
    destruct (find_best _) as [[b|]|s]; cbn [obind] in H; inversion H; subst; [|exact H1].
    unfold bmca_reregister. destruct (_ && _); [|exact H1].
    apply fml_register_all; [exact H1|]. eapply erbest_all; [exact Hl|exact H0].
  Qed.
End FmlAll.

Lemma header_eqb_source a b : header_eqb a b = true -> h_source a = h_source b.
Proof.
  unfold header_eqb. intros H.
  repeat match type of H with (_ && _) = true => let H2 := fresh "Hx" in apply andb_true_iff in H as [H H2] end.
  repeat match goal with Hx : pi_eqb _ _ = true |- _ => apply pi_eqb_eq in Hx; try exact Hx end.
Qed.

(** * The acceptability invariant *)
Definition hdr_acc (acc : option (list Z)) (own : port_identity) (h : header) : Prop :=
  acceptable acc (pi_clock (h_source h)) = true /\ pi_clock (h_source h) <> pi_clock own.

Definition port_acc (p : port) : Prop :=
  fml_all (hdr_acc (pc_acceptable (p_config p)) (p_identity p)) (p_fml p) /\
  (forall st, p_state p = PSlave st ->
     acceptable (pc_acceptable (p_config p)) (pi_clock (ss_remote st)) = true /\
     pi_clock (ss_remote st) <> pi_clock (p_identity p)).

(** a handler that keeps identity, configuration, the list and the remote keeps the invariant *)
Lemma port_acc_keep p p' :
  port_acc p -> p_identity p' = p_identity p -> p_config p' = p_config p -> p_fml p' = p_fml p ->
  (remote_of (p_state p') = remote_of (p_state p) \/ remote_of (p_state p') = None) -> port_acc p'.
Proof.
  intros [Hf Hr] Hid Hcf Hfm Hrem. split; [rewrite Hid, Hcf, Hfm; exact Hf|].
  intros st Hst. rewrite Hid, Hcf. rewrite Hst in Hrem. cbn [remote_of] in Hrem. destruct Hrem as [Hs|Hn]; [|discriminate].
  destruct (p_state p) as [| | | |st0] eqn:E0; cbn [remote_of] in Hs; try discriminate. inversion Hs as [Heq]. rewrite Heq.
  apply Hr. reflexivity.
Qed.

Lemma handle_announce_acc p d ti m a p' d' o :
  port_acc p -> p_identity p' = p_identity p -> p_config p' = p_config p ->
  handle_announce p d ti m a = Ok (p', d', o) -> port_acc p'.
Proof.
  intros Hacc Hid Hcf H. pose proof (handle_announce_remote p d ti m a _ _ _ H) as Hrem.
  assert (Hfml : p_fml p' = p_fml p \/
                 (p_fml p' = fml_register (p_identity p) ti (p_fml p) (m_header m) a 0 /\
                  acceptable (pc_acceptable (p_config p)) (pi_clock (h_source (m_header m))) = true)).
  { unfold handle_announce in H. cbv zeta in H.
    match type of H with obind ?X _ = _ => destruct X as [[[d1 lp] locks]|?] end; cbn [obind] in H; [|discriminate].
    destruct lp; [unfold ret in H; inversion H; auto|].
    unfold bmca_register in H.
    destruct (negb (pi_eqb (h_source (m_header m)) (p_identity p)) && acceptable (pc_acceptable (p_config p)) (pi_clock (h_source (m_header m)))) eqn:Eg;
      [|unfold ret in H; inversion H; auto].
    apply andb_true_iff in Eg as [_ Ea]. right. split; [|exact Ea].
    unfold set_forced in H.
    match type of H with context [if ?c then _ else _] => destruct c end;
      match type of H with context [draw ?x] => let E := fresh "Ed" in destruct (draw x) as [k p3] eqn:E; apply draw_fml in E end;
      unfold ret in H; inversion H; subst; rewrite Ed; reflexivity. }
  destruct Hfml as [Hsame|[Hreg Ha]].
  - apply (port_acc_keep p p' Hacc Hid Hcf Hsame Hrem).
  - destruct Hacc as [Hf Hr]. split.
    + rewrite Hid, Hcf, Hreg.
      destruct (fml_qualified (p_identity p) (p_fml p) (m_header m) a) eqn:Eq.
      * apply fml_register_all; [exact Hf|]. split; [exact Ha|].
        unfold fml_qualified in Eq. destruct (pi_clock (h_source (m_header m)) =? pi_clock (p_identity p)) eqn:Ec; [discriminate|].
        apply Z.eqb_neq in Ec. exact Ec.
      * unfold fml_register. rewrite Eq. exact Hf.
    + intros st Hst. rewrite Hid, Hcf. rewrite Hst in Hrem. cbn [remote_of] in Hrem. destruct Hrem as [Hs|Hn]; [|discriminate].
      destruct (p_state p) as [| | | |st0] eqn:E0; cbn [remote_of] in Hs; try discriminate. inversion Hs as [Heq]. rewrite Heq.
      apply Hr. reflexivity.
Qed.

Lemma handle_general_internal_acc p d ti m p' d' o :
  port_acc p -> p_identity p' = p_identity p -> p_config p' = p_config p ->
  handle_general_internal p d ti m = Ok (p', d', o) -> port_acc p'.
Proof.
  intros Hacc Hid Hcf H. pose proof (handle_general_internal_remote p d ti m _ _ _ H) as Hrem.
  unfold handle_general_internal in H. destruct (m_body m);
    try (unfold ret in H; inversion H; subst; exact Hacc).
  - apply (port_acc_keep p p' Hacc Hid Hcf (handle_follow_up_fml _ _ _ _ _ _ _ H) Hrem).
  - apply (port_acc_keep p p' Hacc Hid Hcf (handle_delay_resp_fml _ _ _ _ _ _ _ _ H) Hrem).
  - apply (port_acc_keep p p' Hacc Hid Hcf (handle_peer_delay_follow_up_fml _ _ _ _ _ _ _ _ H) Hrem).
  - eapply handle_announce_acc; eauto.
Qed.

Lemma handle_general_receive_acc p d ti frame p' d' o :
  port_acc p -> p_identity p' = p_identity p -> p_config p' = p_config p ->
  handle_general_receive p d ti frame = Ok (p', d', o) -> port_acc p'.
Proof.
  intros Hacc Hid Hcf H. unfold handle_general_receive in H. destruct (parse_and_filter d frame) as [[m|] o1].
  - unfold prepend in H. destruct (handle_general_internal p d ti m) as [[[p1 d1] o2]|?] eqn:E; cbn [obind] in H; [|discriminate].
    inversion H; subst. eapply handle_general_internal_acc; eauto.
  - unfold ret in H. inversion H; subst. exact Hacc.
Qed.

Lemma handle_event_receive_acc p d ti frame ts p' d' o :
  port_acc p -> p_identity p' = p_identity p -> p_config p' = p_config p ->
  handle_event_receive p d ti frame ts = Ok (p', d', o) -> port_acc p'.
Proof.
  intros Hacc Hid Hcf H. pose proof (handle_event_receive_remote p d ti frame ts _ _ _ H) as Hrem.
  unfold handle_event_receive in H. destruct (parse_and_filter d frame) as [[m|] o1].
  - unfold prepend in H.
    match type of H with obind ?X _ = _ => destruct X as [[[p1 d1] o2]|?] eqn:E end; cbn [obind] in H; [|discriminate].
    inversion H; subst. destruct (m_body m); try (eapply handle_general_internal_acc; eauto; fail).
    + apply (port_acc_keep p p' Hacc Hid Hcf (handle_sync_fml _ _ _ _ _ _ _ _ E) Hrem).
    + apply (port_acc_keep p p' Hacc Hid Hcf (handle_delay_req_fml _ _ _ _ _ _ _ E) Hrem).
    + apply (port_acc_keep p p' Hacc Hid Hcf (handle_pdelay_req_fml _ _ _ _ _ _ _ E) Hrem).
    + apply (port_acc_keep p p' Hacc Hid Hcf (handle_peer_delay_response_fml _ _ _ _ _ _ _ _ _ E) Hrem).
  - unfold ret in H. inversion H; subst. exact Hacc.
Qed.

Lemma handle_send_timestamp_acc p d c ts p' d' o :
  port_acc p -> p_identity p' = p_identity p -> p_config p' = p_config p ->
  handle_send_timestamp p d c ts = Ok (p', d', o) -> port_acc p'.
Proof.
  intros Hacc Hid Hcf H. pose proof (handle_send_timestamp_remote p d c ts _ _ _ H) as Hrem.
  unfold handle_send_timestamp in H. destruct c.
  - apply (port_acc_keep p p' Hacc Hid Hcf (handle_sync_timestamp_fml _ _ _ _ _ _ _ H) Hrem).
  - apply (port_acc_keep p p' Hacc Hid Hcf (handle_delay_timestamp_fml _ _ _ _ _ _ _ H) Hrem).
  - apply (port_acc_keep p p' Hacc Hid Hcf (handle_pdelay_timestamp_fml _ _ _ _ _ _ _ H) Hrem).
  - apply (port_acc_keep p p' Hacc Hid Hcf (handle_pdelay_response_timestamp_fml _ _ _ _ _ _ _ _ H) Hrem).
Qed.

(** * BMCA keeps the invariant *)
Definition bacc (b : bport) : Prop :=
  port_acc (bp_port b) /\
  (forall m, bp_best b = Some m ->
     hdr_acc (pc_acceptable (p_config (bp_port b))) (p_identity (bp_port b)) (b_header m)).

Lemma calc_local_best_acc p b : port_acc p -> calc_local_best p = Ok b -> bacc b.
Proof.
  intros [Hf Hr] H. unfold calc_local_best in H.
  destruct (bmca_take_best _ _ _ _) as [[l' ob]|?] eqn:E; cbn [obind] in H; [|discriminate].
  inversion H; subst. cbn [fst snd]. split.
  - split; cbn [bp_port port_with_fml p_config p_identity p_fml p_state].
    + eapply bmca_take_best_all; [exact Hf|exact E].
    + exact Hr.
  - cbn [bp_best bp_port port_with_fml p_config p_identity]. intros m ->. eapply erbest_all; [exact Hf|exact E].
Qed.

Lemma draw_same x z y : draw x = (z, y) ->
  p_fml y = p_fml x /\ p_identity y = p_identity x /\ p_config y = p_config x.
Proof. unfold draw. destruct (p_rng x); intros E; inversion E; repeat split; reflexivity. Qed.

Lemma srpt_same b rs dd b1 : set_recommended_port_state b rs dd = Ok b1 ->
  p_fml (bp_port b1) = p_fml (bp_port b) /\ p_identity (bp_port b1) = p_identity (bp_port b) /\
  p_config (bp_port b1) = p_config (bp_port b) /\ bp_best b1 = bp_best b.
Proof.
  intros H. unfold set_recommended_port_state, set_forced in H.
  destruct rs as [d0|d0|h a|h a|h a|h a];
    repeat match type of H with context [draw ?x] =>
      let E := fresh "Ed" in destruct (draw x) as [? ?] eqn:E; apply draw_same in E; destruct E as (? & ? & ?) end;
    crunch H; cbn [bp_port bp_best port_with_state p_fml p_identity p_config] in *;
    repeat split; try reflexivity; try congruence.
Qed.

Lemma srs_same b rs d b' d' : set_recommended_state b rs d = Ok (b', d') ->
  p_fml (bp_port b') = p_fml (bp_port b) /\ p_identity (bp_port b') = p_identity (bp_port b) /\
  p_config (bp_port b') = p_config (bp_port b) /\ bp_best b' = bp_best b.
Proof.
  unfold set_recommended_state. intros H.
  destruct (set_recommended_port_state b rs (ds_default d)) as [b1|?] eqn:E1; cbn [obind] in H; [|discriminate].
  pose proof (srpt_same _ _ _ _ E1) as H1. destruct rs; crunch H; cbn [bp_port bp_best]; exact H1.
Qed.

Lemma srs_acc b rs d b' d' :
  bacc b ->
  (forall h a, rs = RS1 h a ->
     hdr_acc (pc_acceptable (p_config (bp_port b))) (p_identity (bp_port b)) h) ->
  set_recommended_state b rs d = Ok (b', d') -> bacc b'.
Proof.
  intros [[Hf Hr] Hb] Hrs H. destruct (srs_same _ _ _ _ _ H) as (Hfm & Hid & Hcf & Hbest).
  split; [split|].
  - rewrite Hid, Hcf, Hfm. exact Hf.
  - intros st Hst. rewrite Hid, Hcf. destruct rs as [d0|d0|h a|h a|h a|h a];
      try (exfalso; assert (Hn : is_slave (p_state (bp_port b')) = false) by (eapply srs_not_slave; [|exact H]; reflexivity); rewrite Hst in Hn; discriminate).
    destruct (srs_rs1_parent _ _ _ _ _ _ H) as [_ Hrem]. rewrite (Hrem st Hst). apply (Hrs h a eq_refl).
  - rewrite Hid, Hcf, Hbest. exact Hb.
Qed.

Lemma step_announce_age_acc step p p' : port_acc p -> step_announce_age step p = Ok p' -> port_acc p'.
Proof.
  intros [Hf Hr] H. unfold step_announce_age in H. destruct (dur_from_log_interval _); cbn [obind] in H; [|discriminate].
  inversion H; subst. clear H. split.
  - destruct (p_multiport_disable p); cbn [port_with_fml port_with_multiport p_config p_identity p_fml];
      apply fml_step_age_all; exact Hf.
  - destruct (p_multiport_disable p); cbn [port_with_fml port_with_multiport p_config p_identity p_state]; exact Hr.
Qed.

Lemma decide_acc ebest : forall todo done d done' d',
  Forall bacc todo -> Forall bacc done ->
  bmca_decide ebest d todo done = Ok (done', d') -> Forall bacc done'.
Proof.
  induction todo as [|b todo IH]; intros done d done' d' Ht Hd H; cbn [bmca_decide] in H.
  - inversion H; subst. exact Hd.
  - inversion Ht as [|? ? Hb Ht']; subst.
    destruct (recommended_state _ _ _ _) as [r|?] eqn:Er; cbn [obind] in H; [|discriminate].
    destruct r as [rs|].
    + destruct (set_recommended_state b rs d) as [[b' d1]|?] eqn:E; cbn [obind fst snd] in H; [|discriminate].
      eapply IH; [exact Ht'| |exact H]. apply Forall_app. split; [exact Hd|]. constructor; [|constructor].
      eapply srs_acc; [exact Hb| |exact E].
      intros h a ->. destruct (recommended_RS1 _ _ _ _ _ _ Er) as (g & pb & _ & Hpb & Heq & _ & Hh).
      subst h. unfold best_eqb in Heq. apply andb_true_iff in Heq as [Heq _]. apply andb_true_iff in Heq as [Heq _].
      apply andb_true_iff in Heq as [Heq _]. apply header_eqb_source in Heq.
      destruct Hb as [_ Hbb]. destruct (Hbb pb Hpb) as [Ha Hc]. unfold hdr_acc. rewrite Heq. split; assumption.
    + eapply IH; [exact Ht'| |exact H]. apply Forall_app. split; [exact Hd|]. constructor; [exact Hb|constructor].
Qed.

Definition inst_acc (i : instance) : Prop := Forall port_acc (i_ports i).

Lemma bmca_acc i i' o : inst_acc i -> bmca i = Ok (i', o) -> inst_acc i'.
Proof.
  unfold bmca, inst_acc. intros Hacc H.
  destruct (bmca_interval_dur _) as [step|?]; cbn [obind] in H; [|discriminate].
  destruct (negb _); [discriminate|].
  destruct (omap_list calc_local_best (i_ports i)) as [bps|?] eqn:E1; cbn [obind] in H; [|discriminate].
  destruct (find_best _) as [ebest|?]; cbn [obind] in H; [|discriminate].
  destruct (bmca_decide ebest (i_ds i) bps []) as [[bps1 d1]|?] eqn:E2; cbn [obind] in H; [|discriminate].
  destruct (omap_list _ bps1) as [ports|?] eqn:E3; cbn [obind] in H; [|discriminate].
  inversion H; subst. cbn [i_ports].
  assert (H1 : Forall bacc bps).
  { clear - Hacc E1. revert bps E1. induction (i_ports i) as [|p l IH]; intros bps E1; cbn [omap_list] in E1.
    - inversion E1; constructor.
    - inversion Hacc; subst. destruct (calc_local_best p) as [b|?] eqn:Eb; cbn [obind] in E1; [|discriminate].
      destruct (omap_list calc_local_best l) as [bs|?] eqn:El; cbn [obind] in E1; [|discriminate].
      inversion E1; subst. constructor; [eapply calc_local_best_acc; eauto|apply IH; [assumption|reflexivity]]. }
  pose proof (decide_acc _ _ _ _ _ _ H1 (Forall_nil _) E2) as H2.
  clear - H2 E3. revert ports E3. induction bps1 as [|b l IH]; intros ports E3; cbn [omap_list] in E3.
  - inversion E3; constructor.
  - inversion H2; subst. destruct (step_announce_age step (bp_port b)) as [p'|?] eqn:Ep; cbn [obind] in E3; [|discriminate].
    destruct (omap_list _ l) as [ps|?] eqn:El; cbn [obind] in E3; [|discriminate].
    inversion E3; subst. constructor; [eapply step_announce_age_acc; [|exact Ep]; apply H1|apply IH; [assumption|reflexivity]].
Qed.

Lemma on_port_acc i n f i' o :
  inst_inv i -> inst_acc i -> on_port i n f = Ok (i', o) ->
  (forall p d, port_inv p -> ds_inv d -> good_w p d (f p d)) ->
  (forall p p' d' oo, port_acc p -> p_identity p' = p_identity p -> p_config p' = p_config p ->
                      f p (i_ds i) = Ok (p', d', oo) -> port_acc p') ->
  inst_acc i'.
Proof.
  unfold on_port, inst_acc. intros Hi Hacc H Hg Hf. destruct (nth_error (i_ports i) n) as [p|] eqn:En.
  - destruct (f p (i_ds i)) as [[[p' d'] oo]|?] eqn:E; cbn [obind] in H; [|discriminate].
    inversion H; subst. cbn [i_ports].
    assert (Hp : port_inv p /\ ds_inv (i_ds i)).
    { destruct Hi as (Hports & Hds & _). split; [|exact Hds]. rewrite Forall_forall in Hports. apply Hports. eapply nth_error_In; eauto. }
    destruct (Hg p (i_ds i) (proj1 Hp) (proj2 Hp)) as (p2 & d2 & o2 & Heq & _ & (Hid & Hcf & _) & _).
    rewrite E in Heq. inversion Heq; subst p2 d2 o2.
    apply update_nth_Forall; [exact Hacc|]. eapply Hf; eauto.
    rewrite Forall_forall in Hacc. apply Hacc. eapply nth_error_In; eauto.
  - inversion H; subst. exact Hacc.
Qed.

Lemma step_acc i e i' o :
  inst_inv i -> event_valid e -> inst_acc i -> step i e = Ok (i', o) -> inst_acc i'.
Proof.
  intros Hi He Hacc Hs. destruct e; cbn [step event_valid] in *.
  - destruct He as [Hf Hts]. eapply on_port_acc; [exact Hi|exact Hacc|exact Hs| |].
    + intros. apply good_weaken. apply handle_event_receive_ok; assumption.
    + intros pp pp' dd' oo Ha Hid Hcf Hh. cbv beta in Hh. eapply handle_event_receive_acc; eauto.
  - eapply on_port_acc; [exact Hi|exact Hacc|exact Hs| |].
    + intros. apply good_weaken. apply handle_general_receive_ok; assumption.
    + intros pp pp' dd' oo Ha Hid Hcf Hh. cbv beta in Hh. eapply handle_general_receive_acc; eauto.
  - eapply on_port_acc; [exact Hi|exact Hacc|exact Hs| |].
    + intros. apply good_weaken. apply handle_send_timestamp_ok; try assumption. apply He.
    + intros pp pp' dd' oo Ha Hid Hcf Hh. cbv beta in Hh. eapply handle_send_timestamp_acc; eauto.
  - eapply on_port_acc; [exact Hi|exact Hacc|exact Hs| |].
    + intros. apply good_weaken. apply send_announce_ok; assumption.
    + intros pp pp' dd' oo Ha Hid Hcf Hh. cbv beta in Hh.
      apply (port_acc_keep pp pp' Ha Hid Hcf (send_announce_fml _ _ _ _ _ _ Hh) (send_announce_remote _ _ _ _ _ _ Hh)).
  - eapply on_port_acc; [exact Hi|exact Hacc|exact Hs| |].
    + intros. apply good_weaken. apply send_sync_ok; assumption.
    + intros pp pp' dd' oo Ha Hid Hcf Hh. cbv beta in Hh.
      apply (port_acc_keep pp pp' Ha Hid Hcf (send_sync_fml _ _ _ _ _ Hh) (send_sync_remote _ _ _ _ _ Hh)).
  - eapply on_port_acc; [exact Hi|exact Hacc|exact Hs| |].
    + intros. apply good_weaken. apply send_delay_request_ok; assumption.
    + intros pp pp' dd' oo Ha Hid Hcf Hh. cbv beta in Hh.
      apply (port_acc_keep pp pp' Ha Hid Hcf (send_delay_request_fml _ _ _ _ _ Hh) (send_delay_request_remote _ _ _ _ _ Hh)).
  - eapply on_port_acc; [exact Hi|exact Hacc|exact Hs| |].
    + intros. apply handle_announce_receipt_timer_ok; assumption.
    + intros pp pp' dd' oo Ha Hid Hcf Hh. cbv beta in Hh.
      apply (port_acc_keep pp pp' Ha Hid Hcf (receipt_timer_fml _ _ _ _ _ Hh) (receipt_timer_remote _ _ _ _ _ Hh)).
  - eapply on_port_acc; [exact Hi|exact Hacc|exact Hs| |].
    + intros. apply good_weaken. apply handle_filter_update_timer_ok; assumption.
    + intros pp pp' dd' oo Ha Hid Hcf Hh. cbv beta in Hh. unfold handle_filter_update_timer, ret in Hh. inversion Hh; subst. exact Ha.
  - eapply bmca_acc; eauto.
  - inversion Hs; subst. exact Hacc.
  - inversion Hs; subst. exact Hacc.
  - inversion Hs; subst. exact Hacc.
Qed.

(** * every ignorable event stutters *)
Theorem ignorable_stutters c i e :
  inst_inv i -> clk_inv c i -> slave_parent i -> inst_acc i ->
  cfgs_of i = map fst (su_ports (pc_setup c)) ->
  ignorable c (snapshot_of i) e = true -> stutters i e.
Proof.
  intros Hi Hclk Hsp Hacc Hcf Hig.
  destruct (ignorable_na c (snapshot_of i) e) eqn:Ena; [eapply ignorable_na_stutters; eauto|].
  (* the remaining class: Announce with own identity or from an unacceptable master *)
  assert (Hid : forall n p, nth_error (i_ports i) n = Some p -> p_identity p = port_id c n).
  { intros n p Hn. destruct Hi as (_ & _ & Hids & _). rewrite (Hids n p Hn). unfold port_id. rewrite <- Hclk. reflexivity. }
  assert (Hcfg : forall n p, nth_error (i_ports i) n = Some p -> port_cfg c n = Some (p_config p)).
  { intros n p Hn. unfold port_cfg.
    assert (Hx : nth_error (cfgs_of i) n = Some (p_config p)) by (unfold cfgs_of; rewrite nth_error_map, Hn; reflexivity).
    rewrite Hcf, nth_error_map in Hx. destruct (nth_error (su_ports (pc_setup c)) n) as [[pc r]|]; [|discriminate].
    cbn in Hx. inversion Hx. reflexivity. }
  assert (Hcall : forall n frame (ev : bool) ts p,
            nth_error (i_ports i) n = Some p ->
            ignorable c (snapshot_of i) (if ev then EvRecvEvent n frame ts else EvRecvGeneral n frame) = true ->
            ignorable_na c (snapshot_of i) (if ev then EvRecvEvent n frame ts else EvRecvGeneral n frame) = false ->
            exists oo, (if ev then handle_event_receive p (i_ds i) (port_ti p) frame ts
                        else handle_general_receive p (i_ds i) (port_ti p) frame) = Ok (p, i_ds i, oo) /\ only_locks oo).
  { intros n frame ev ts p Hn Hj Hjn.
    assert (Hj' : (if negb (is_compatible frame) then true else
                   match decoded frame with
                   | None => true
                   | Some m =>
                     if negb ((h_domain (m_header m) =? dd_domain (ds_default (i_ds i)))
                              && (h_sdo_id (m_header m) =? dd_sdo_id (ds_default (i_ds i)))) then true
                     else match m_body m with
                          | BAnnounce _ =>
                              pi_eqb (h_source (m_header m)) (port_id c n)
                              || negb (acceptable (match port_cfg c n with Some pc => pc_acceptable pc | None => None end)
                                                  (pi_clock (h_source (m_header m))))
                          | BSync _ | BFollowUp _ => negb (pi_eqb (h_source (m_header m)) (parent_id (i_ds i)))
                          | BDelayResp _ rq => negb (pi_eqb (h_source (m_header m)) (parent_id (i_ds i)))
                                               || negb (pi_eqb rq (port_id c n))
                          | _ => false
                          end
                   end) = true) by (destruct ev; exact Hj).
    assert (Hjn' : (if negb (is_compatible frame) then true else
                   match decoded frame with
                   | None => true
                   | Some m =>
                     if negb ((h_domain (m_header m) =? dd_domain (ds_default (i_ds i)))
                              && (h_sdo_id (m_header m) =? dd_sdo_id (ds_default (i_ds i)))) then true
                     else match m_body m with
                          | BSync _ | BFollowUp _ => negb (pi_eqb (h_source (m_header m)) (parent_id (i_ds i)))
                          | BDelayResp _ rq => negb (pi_eqb (h_source (m_header m)) (parent_id (i_ds i)))
                                               || negb (pi_eqb rq (port_id c n))
                          | _ => false
                          end
                   end) = false) by (destruct ev; exact Hjn).
    clear Hj Hjn.
    destruct (negb (is_compatible frame)) eqn:Ecomp; [discriminate Hjn'|]. apply negb_false_iff in Ecomp.
    unfold decoded in *. destruct (decode frame) as [m|?] eqn:Ed; [|discriminate Hjn'].
    destruct (negb ((h_domain (m_header m) =? dd_domain (ds_default (i_ds i))) && (h_sdo_id (m_header m) =? dd_sdo_id (ds_default (i_ds i))))) eqn:Edom;
      [discriminate Hjn'|]. apply negb_false_iff in Edom.
    destruct (m_body m) eqn:Eb; try discriminate Hj'; try (rewrite Hj' in Hjn'; discriminate Hjn').
    cbv iota in Hj'. rewrite (Hcfg n p Hn) in Hj'. rewrite <- (Hid n p Hn) in Hj'.
    assert (Hpf : parse_and_filter (i_ds i) frame = (Some m, [rd_lock])).
    { unfold parse_and_filter. rewrite Ecomp, Ed. cbn [negb].
      apply andb_true_iff in Edom as [A B]. rewrite B, A. reflexivity. }
    pose proof (nth_error_In _ _ Hn) as Hin.
    (* a slave port's parent is acceptable and not the port itself *)
    assert (Hns : is_slave (p_state p) = false \/ pi_eqb (h_source (m_header m)) (pd_parent (ds_parent (i_ds i))) = false).
    { destruct (p_state p) as [| | | |st] eqn:Est; try (left; reflexivity). right.
      destruct (pi_eqb (h_source (m_header m)) (pd_parent (ds_parent (i_ds i)))) eqn:Ep; [|reflexivity]. exfalso.
      apply pi_eqb_eq in Ep. unfold inst_acc in Hacc. rewrite Forall_forall in Hacc.
      destruct (Hacc p Hin) as [_ Hr]. destruct (Hr st Est) as [Ha Hc].
      pose proof (Hsp p st Hin Est) as Hrem. unfold parent_id in Hrem. rewrite <- Ep in Hrem. rewrite Hrem in Ha, Hc.
      apply orb_true_iff in Hj' as [H1|H2].
      - apply pi_eqb_eq in H1. apply Hc. rewrite H1. reflexivity.
      - rewrite Ha in H2. discriminate. }
    assert (Hrej : pi_eqb (h_source (m_header m)) (p_identity p) = true
                   \/ acceptable (pc_acceptable (p_config p)) (pi_clock (h_source (m_header m))) = false).
    { apply orb_true_iff in Hj' as [H1|H2]; [left; exact H1|right; apply negb_true_iff in H2; exact H2]. }
    destruct (announce_rejected_stutters p (i_ds i) (port_ti p) m a Hns Hrej) as (o2 & Ho2 & Hl2).
    destruct ev.
    - unfold handle_event_receive. rewrite Hpf, Eb. unfold prepend, handle_general_internal. rewrite Eb, Ho2. cbn [obind].
      eexists. split; [reflexivity|]. apply locks_cons. exact Hl2.
    - unfold handle_general_receive. rewrite Hpf. unfold prepend, handle_general_internal. rewrite Eb, Ho2. cbn [obind].
      eexists. split; [reflexivity|]. apply locks_cons. exact Hl2. }
  unfold stutters. destruct e; try discriminate Hig; cbn [step].
  - destruct (nth_error (i_ports i) p) as [pp|] eqn:En; [|apply on_port_missing; exact En].
    destruct (Hcall p frame true ts pp En Hig Ena) as (oo & Hh & Hl). eapply on_port_stutter; [exact En|exact Hh|exact Hl].
  - destruct (nth_error (i_ports i) p) as [pp|] eqn:En; [|apply on_port_missing; exact En].
    destruct (Hcall p frame false 0 pp En Hig Ena) as (oo & Hh & Hl). eapply on_port_stutter; [exact En|exact Hh|exact Hl].
Qed.

(** * reflexivity of the trace comparison *)
Lemma ctx_eqb_refl x : ctx_eqb x x = true.
Proof. destruct x; cbn; rewrite ?Z.eqb_refl, ?pi_eqb_refl; reflexivity. Qed.
Lemma tlv_eqb_refl t : tlv_eqb t t = true.
Proof. unfold tlv_eqb. rewrite Z.eqb_refl, bytes_eqb_refl. reflexivity. Qed.
Lemma meas_eqb_refl m : meas_eqb m m = true.
Proof. unfold meas_eqb. rewrite Z.eqb_refl, !opt_z_eqb_refl. reflexivity. Qed.
Lemma ns_close_refl x : ns_close x x = true.
Proof. unfold ns_close. rewrite Z.sub_diag. reflexivity. Qed.
Lemma obs_eqb_refl x : obs_eqb x x = true.
Proof.
  destruct x; cbn [obs_eqb]; rewrite ?ctx_eqb_refl, ?bytes_eqb_refl, ?bool_eqb_refl, ?ns_close_refl, ?tlv_eqb_refl,
    ?pi_eqb_refl, ?meas_eqb_refl, ?tp_eqb_refl, ?Z.eqb_refl; reflexivity.
Qed.
Lemma tobs_eqb_refl x : tobs_eqb x x = true.
Proof. unfold tobs_eqb. rewrite Z.eqb_refl, obs_eqb_refl. reflexivity. Qed.
Lemma snap_eqb_refl s : snap_eqb s s = true.
Proof.
  unfold snap_eqb. rewrite (list_eqb_refl Z.eqb) by apply Z.eqb_refl. rewrite ds_eqb_refl.
  rewrite (list_eqb_refl opt_z_eqb) by apply opt_z_eqb_refl.
  rewrite list_eqb_refl; [reflexivity|]. intros [a b]. cbn. rewrite !bool_eqb_refl. reflexivity.
Qed.
Lemma sr_eqb_refl r : sr_eqb r r = true.
Proof. destruct r; cbn [sr_eqb]; [|reflexivity]. rewrite (list_eqb_refl tobs_eqb) by apply tobs_eqb_refl. rewrite snap_eqb_refl. reflexivity. Qed.

(** * reachable states *)
Lemma add_ports_acc ps : forall i acc i' o,
  inst_acc i -> add_ports i ps acc = Ok (i', o) -> inst_acc i'.
Proof.
  induction ps as [|[c r] ps IH]; intros i acc i' o Hn H; cbn [add_ports] in H.
  - inversion H; subst. exact Hn.
  - destruct (add_port i c r) as [[i1 o1]|?] eqn:E; cbn [obind fst snd] in H; [|discriminate].
    eapply IH; [|exact H]. unfold add_port in E. destruct (chk_u _ _ _); cbn [obind] in E; [|discriminate].
    match type of E with context [draw ?x] => destruct (draw x) as [k p1] eqn:Ed end.
    destruct (announce_interval_ti _); cbn [obind] in E; [|discriminate]. inversion E; subst. cbn [i_ports].
    unfold inst_acc in *. apply Forall_app. split; [exact Hn|]. constructor; [|constructor].
    unfold draw in Ed. cbn [p_rng] in Ed. destruct r; inversion Ed; subst; (split; [constructor|intros st Hst; discriminate Hst]).
Qed.

Record reach_inv (c : pcase) (i : instance) : Prop := mkReach {
  ri_inv : inst_inv i;
  ri_clk : clk_inv c i;
  ri_par : slave_parent i;
  ri_acc : inst_acc i;
  ri_cfg : cfgs_of i = map fst (su_ports (pc_setup c))
}.

Lemma reach_step c i e i' o : reach_inv c i -> event_valid e -> step i e = Ok (i', o) -> reach_inv c i'.
Proof.
  intros [Hi Hclk Hsp Hacc Hcf] He Hs.
  destruct (step_ok i e Hi He) as (i1 & o1 & Hs1 & Hi1 & Hcf1 & _). rewrite Hs in Hs1. injection Hs1 as <- <-.
  constructor.
  - exact Hi1.
  - unfold clk_inv in *. rewrite (step_clock_identity i e i' o Hi He Hs). exact Hclk.
  - eapply step_parent; eauto.
  - exact (step_acc i e i' o Hi He Hacc Hs).
  - rewrite Hcf1. exact Hcf.
Qed.

Lemma reach_init s es rel tr i o : setup_valid s -> init s = Ok (i, o) -> reach_inv (mkCase s es rel (Some o) tr) i.
Proof.
  intros Hs Hi.
  destruct (init_ok s Hs) as (i0 & o0 & Hi0 & Hinv & _). rewrite Hi in Hi0. inversion Hi0; subst i0 o0.
  constructor.
  - exact Hinv.
  - unfold clk_inv, own_clock. cbn [pc_setup]. unfold init in Hi. rewrite (add_ports_clock _ _ _ _ _ Hi). reflexivity.
  - eapply (slave_follows_parent s [] i o i); [exact Hi|reflexivity].
  - unfold init in Hi. eapply add_ports_acc; [|exact Hi]. constructor.
  - cbn [pc_setup]. unfold init in Hi. rewrite (add_ports_cfgs _ _ _ _ _ Hi). reflexivity.
Qed.

Lemma reach_run c es : forall i i', reach_inv c i -> Forall event_valid es -> run_state i es = Some i' -> reach_inv c i'.
Proof.
  induction es as [|e es IH]; intros i i' Hr Hes H; cbn [run_state] in H.
  - inversion H; subst. exact Hr.
  - inversion Hes as [|? ? He Hes']; subst.
    destruct (step i e) as [[i1 o1]|?] eqn:Hs; [|discriminate].
    eapply IH; [eapply reach_step; eauto|exact Hes'|exact H].
Qed.

(** in every reachable state every ignorable frame -- every class of the
    property's list, Announce included -- stutters *)
Theorem ignorable_stutters_reachable s es rel tr i o i' e :
  setup_valid s -> Forall event_valid es -> init s = Ok (i, o) -> run_state i es = Some i' ->
  ignorable (mkCase s es rel (Some o) tr) (snapshot_of i') e = true -> stutters i' e.
Proof.
  intros Hs Hes Hi Hr Hig.
  destruct (reach_run _ es i i' (reach_init s es rel tr i o Hs Hi) Hes Hr) as [H1 H2 H3 H4 H5].
  eapply ignorable_stutters; eauto.
Qed.

(** * the complete C07 oracle accepts the model's own pair of runs *)
(** the base history: the events whose index is not an insertion position *)
Fixpoint drop_at (k : nat) (pos : list nat) (es : list event) : list event :=
  match es with
  | [] => []
  | e :: es' => if existsb (Nat.eqb k) pos then drop_at (S k) pos es' else e :: drop_at (S k) pos es'
  end.

Lemma ignorable_setup c c' sn e : pc_setup c = pc_setup c' -> ignorable c sn e = ignorable c' sn e.
Proof.
  intros H. unfold ignorable, port_id, port_cfg, own_clock. rewrite H. reflexivity.
Qed.

Lemma check07_model c pos es : forall k i,
  reach_inv c i -> Forall event_valid es ->
  check07 c k pos (snapshot_of i) es (run i es) (run i (drop_at k pos es)) = true.
Proof.
  induction es as [|e es IH]; intros k i Hr Hes.
  - reflexivity.
  - inversion Hes as [|? ? He Hes']; subst.
    destruct (step_ok i e (ri_inv _ _ Hr) He) as (i1 & o1 & Hs & _).
    cbn [run drop_at check07]. rewrite Hs. cbn [check07].
    destruct (existsb (Nat.eqb k) pos) eqn:Ep.
    + destruct (ignorable c (snapshot_of i) e) eqn:Eig; [|reflexivity].
      destruct Hr as [H1 H2 H3 H4 H5].
      destruct (ignorable_stutters c i e H1 H2 H3 H4 H5 Eig) as (o' & Hst & Hl).
      rewrite Hs in Hst. injection Hst as -> ->.
      rewrite snap_eqb_refl, andb_true_r. apply andb_true_iff. split.
      * apply forallb_forall. intros x Hx. destruct (Hl x Hx) as (w & d & Hw). unfold is_lock. rewrite Hw. reflexivity.
      * apply IH; [constructor; assumption|exact Hes'].
    + cbn [run]. rewrite Hs. rewrite sr_eqb_refl. cbn [andb].
      apply IH; [eapply reach_step; eauto|exact Hes'].
Qed.

Theorem ok_C07_model s es pos rel1 rel2 i o :
  setup_valid s -> Forall event_valid es -> init s = Ok (i, o) ->
  ok_C07 (mkC07 (mkCase s (drop_at 0 pos es) rel1 (Some o) (run i (drop_at 0 pos es)))
                (mkCase s es rel2 (Some o) (run i es)) pos) = true.
Proof.
  intros Hs Hes Hi. unfold ok_C07. cbn [c7_ins c7_base c7_pos pc_events pc_trace].
  unfold init_snap. cbn [pc_setup]. rewrite Hi.
  apply check07_model; [apply reach_init; assumption|exact Hes].
Qed.
