(** C08 — Ports act only within their role; at most one port steers the clock. *)
From SV Require Export Port.OracleBase.

Definition master_role_type (t : msg_type) : bool :=
  match t with MTAnnounce | MTSync | MTFollowUp | MTDelayResp => true | _ => false end.

(** [so_enforced]: slave-only has been in force at the last BMCA run (or from the start) *)
Definition step_C08 (c : pcase) (so_enforced : bool) (prev : snapshot) (e : event) (o : list tobs) (sn : snapshot)
  : option bool :=
  let so_prev := dd_slave_only (ds_default (sn_ds prev)) in
  let so_now := dd_slave_only (ds_default (sn_ds sn)) in
  let enforced' :=
    match e with
    | EvBmca => so_prev
    | EvSetSlaveOnly false => false
    | _ => so_enforced
    end && so_now in
  (* at most one slave port *)
  let one_slave := Nat.leb (count (fun s => Z.eqb s 9) (sn_states sn)) 1 in
  (* master-only ports are never slave *)
  let mo_ok := forallb (fun p => match port_cfg c p with
                                 | Some pc => negb (pc_master_only pc && (state_of sn p =? 9))
                                 | None => true
                                 end) (all_ports c) in
  (* slave-only: no master port once enforced *)
  let so_ok := if enforced' then forallb (fun s => negb (s =? 6)) (sn_states sn) else true in
  (* emissions and steering by role (state before the call) *)
  let role_ok :=
    forallb (fun p =>
      let op := obs_of_port o p in
      forallb (fun x => match decoded (snd x) with
                        | Some m =>
                            let t := body_type (m_body m) in
                            (if master_role_type t then state_of prev p =? 6 else true)
                            && (match t with MTDelayReq => state_of prev p =? 9 | _ => true end)
                        | None => false
                        end) (sent_frames op)
      && forallb (fun x => match x with
                           | OFilterMeas m =>
                               match me_raw_sync m, me_raw_delay m with
                               | None, None => true
                               | _, _ => state_of prev p =? 9
                               end
                           | OClockSetProps _ => state_of sn p =? 9
                           | _ => true
                           end) op) (all_ports c) in
  (* the role predicates the daemon acts on agree with the port state:
     Port::is_steering() (which clock main.rs lets the port steer) iff slave,
     Port::is_master() iff master *)
  let flags_ok :=
    (length (sn_roles sn) =? length (sn_states sn))%nat
    && forallb (fun sr => bool_eqb (fst (snd sr)) (fst sr =? 9) && bool_eqb (snd (snd sr)) (fst sr =? 6))
               (combine (sn_states sn) (sn_roles sn)) in
  if one_slave && mo_ok && so_ok && role_ok && flags_ok then Some enforced' else None.

Definition ok_C08 (c : pcase) : bool :=
  walk (step_C08 c) (ic_slave_only (su_config (pc_setup c))) (init_snap c) (pc_events c) (pc_trace c).

Definition kf_C08 (c : pcase) : Z := 0.
Definition case := pcase.
Definition run_cases := run_cases_gen agree_port ok_C08 kf_C08.
