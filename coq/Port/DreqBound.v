(** C12: the delay request timer is re-armed with a duration in (0, 2 * interval]
    for every Open01 draw (a 52-bit integer k stands for u = (2k+1)/2^53). *)
From SV Require Export Port.PortModel.
From Coq Require Import Lia ZArith.
Local Open Scope Z_scope.

Lemma dreq_duration_bound log k : -7 <= log <= 7 -> 0 <= k < 2 ^ 52 ->
  0 <= delay_req_duration_ns log k <= 2 * interval_ns log.
Proof.
  intros Hl Hk. unfold delay_req_duration_ns, interval_ns, pow2_scale.
  assert (H53 : 2 ^ 53 = 9007199254740992) by reflexivity. assert (H52 : 2 ^ 52 = 4503599627370496) by reflexivity. rewrite H52 in Hk.
  assert (Hcases : log = -7 \/ log = -6 \/ log = -5 \/ log = -4 \/ log = -3 \/ log = -2 \/ log = -1 \/ log = 0 \/
                   log = 1 \/ log = 2 \/ log = 3 \/ log = 4 \/ log = 5 \/ log = 6 \/ log = 7) by lia.
  repeat (destruct Hcases as [-> | Hcases]); try subst log;
    repeat match goal with |- context [0 <=? ?n] => let b := eval vm_compute in (0 <=? n) in change (0 <=? n) with b end; cbv iota;
    repeat match goal with |- context [- ?n] => let v := eval vm_compute in (- n) in change (- n) with v end;
    repeat match goal with |- context [2 ^ ?n] => let v := eval vm_compute in (2 ^ n) in change (2 ^ n) with v end;
    Z.div_mod_to_equations; lia.
Qed.
