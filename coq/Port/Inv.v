(** Global invariant of the port state machine: bounded stored times and
    durations, well-formed foreign master lists, port identities = (clock,
    index+1).  Under it no handler panics (C03) — this file: definitions and the
    arithmetic facts; InvHandlers.v / InvBmca.v / InvStep.v build on it. *)
From SV Require Export Time.TimeCases Time.TimeLemmas Wire.WireBytes Wire.WireLemmas Port.Instance Port.LemmasC06
     Port.OracleC10 Port.LemmasC10 Port.OracleC15 Port.LemmasC15 Port.LemmasC03.

(** * Ranges *)
Definition TB : Z := 2 ^ 111.          (* stored times *)
Definition DB : Z := 2 ^ 116.          (* stored durations *)
Definition t_ok (t : Z) : Prop := 0 <= t < TB.
Definition d_ok (d : Z) : Prop := - DB <= d <= DB.
Definition ot_ok (o : option Z) : Prop := match o with Some t => t_ok t | None => True end.
Definition od_ok (o : option Z) : Prop := match o with Some d => d_ok d | None => True end.
Definition ts_valid (t : Z) : Prop := 0 <= t < 2 ^ 63 * FRAC.     (* host timestamps: [0, 2^63 ns) *)

Lemma TBv : TB = 2596148429267413814265248164610048. Proof. reflexivity. Qed.
Lemma DBv : DB = 83076749736557242056487941267521536. Proof. reflexivity. Qed.

Ltac bnd := unfold t_ok, d_ok, ts_valid, FRAC, NS_PER_S in *; rewrite ?TBv, ?DBv in *; pv.

(** * Configuration domain *)
Definition cfg_ok (c : port_config) : Prop :=
  -7 <= pc_log_announce c <= 7 /\ -7 <= pc_log_sync c <= 7 /\ -7 <= dm_interval (pc_delay c) <= 7 /\
  0 <= pc_receipt_timeout c < 256 /\ - 2 ^ 95 <= pc_asymmetry c <= 2 ^ 95 /\ 0 <= pc_minor c < 16.

(** * Port invariant *)
Definition meas_ok (m : meas_state) : Prop :=
  match m with MEmpty => True | MMeasuring _ s r => ot_ok s /\ ot_ok r end.
Definition pstate_ok (s : port_state) : Prop :=
  match s with
  | PSlave st => meas_ok (ss_sync st) /\ meas_ok (ss_delay st) /\ od_ok (ss_last_raw_sync st)
  | _ => True
  end.
Definition peer_ok (x : peer_state) : Prop :=
  match x with
  | PDMeasuring _ _ a b c d => ot_ok a /\ ot_ok b /\ ot_ok c /\ ot_ok d
  | _ => True
  end.

(** stored Announces are well-formed wire values (they were decoded from octets) *)
Definition stored_wf (m : foreign_msg) : Prop := wf_header (fm_header m) /\ wf_ann (fm_ann m).
Definition fml_nn (l : list foreign_master) : Prop :=
  Forall (fun fm => Forall stored_wf (fmr_msgs fm)) l.
Definition fml_ok (own : port_identity) (l : list foreign_master) : Prop := fml_wf own l /\ fml_nn l.

(** identity and sequence counters are wire values (boolean, so that the state
    updaters preserve it by conversion) *)
Definition u_ok (bits x : Z) : bool := (0 <=? x) && (x <? 2 ^ bits).
Definition port_wfb (p : port) : bool :=
  u_ok 64 (pi_clock (p_identity p)) && (1 <=? pi_port (p_identity p)) && (pi_port (p_identity p) <? 65536)
  && u_ok 16 (p_seq_announce p) && u_ok 16 (p_seq_sync p) && u_ok 16 (p_seq_delay p) && u_ok 16 (p_seq_pdelay p).

Definition port_inv (p : port) : Prop :=
  cfg_ok (p_config p) /\ pstate_ok (p_state p) /\ peer_ok (p_peer p) /\ od_ok (p_mean_delay p)
  /\ fml_ok (p_identity p) (p_fml p)
  /\ (pc_master_only (p_config p) = true -> is_slave (p_state p) = false)
  /\ port_wfb p = true.

(** the instance data sets hold wire values *)
Definition cq_wfb (q : clock_quality) : bool :=
  u_ok 8 (cq_class q) && u_ok 8 (cq_accuracy q) && (canon_accuracy (cq_accuracy q) =? cq_accuracy q)
  && u_ok 16 (cq_variance q).
Definition tp_wfb (t : time_props) : bool :=
  match tp_utc_offset t with Some v => (-32768 <=? v) && (v <? 32768) | None => true end
  && (0 <=? tp_leap t) && (tp_leap t <=? 2) && u_ok 8 (tp_time_source t).
Definition dd_wfb (d : default_ds) : bool :=
  u_ok 64 (dd_clock_identity d) && cq_wfb (dd_quality d) && u_ok 8 (dd_prio1 d) && u_ok 8 (dd_prio2 d)
  && u_ok 8 (dd_domain d) && u_ok 12 (dd_sdo_id d).
Definition pd_wfb (p : parent_ds) : bool :=
  u_ok 64 (pi_clock (pd_parent p)) && u_ok 16 (pi_port (pd_parent p)) && u_ok 64 (pd_gm_identity p)
  && cq_wfb (pd_gm_quality p) && u_ok 8 (pd_gm_prio1 p) && u_ok 8 (pd_gm_prio2 p).
Definition ds_wfb (d : inst_ds) : bool :=
  dd_wfb (ds_default d) && u_ok 16 (ds_steps_removed d) && pd_wfb (ds_parent d)
  && forallb (u_ok 64) (ds_path d) && tp_wfb (ds_tp d).

(** * Time arithmetic inside the ranges *)
Lemma time_diff_ok a b : t_ok a -> t_ok b -> time_diff a b = Ok (a - b) /\ - TB <= a - b <= TB.
Proof.
  intros Ha Hb. split.
  - unfold time_diff, dur_from_time, dur_sub, dur_neg, dur_add.
    repeat (rewrite (chk_i_ok _ 128) by (bnd; lia); cbn [obind]). f_equal; lia.
  - bnd. lia.
Qed.

Lemma dur_sub_ok a b : - 2 ^ 120 <= a <= 2 ^ 120 -> - 2 ^ 120 <= b <= 2 ^ 120 -> dur_sub a b = Ok (a - b).
Proof.
  intros Ha Hb. change (2 ^ 120) with 1329227995784915872903807060280344576 in *.
  unfold dur_sub, dur_neg, dur_add.
  repeat (rewrite (chk_i_ok _ 128) by (pv; lia); cbn [obind]). f_equal; lia.
Qed.

Lemma quot2_ok d : - 2 ^ 120 <= d <= 2 ^ 120 ->
  chk_i site_dur_div 128 (Z.quot d 2) = Ok (Z.quot d 2) /\ Z.abs (Z.quot d 2) <= Z.abs d.
Proof.
  intros H. change (2 ^ 120) with 1329227995784915872903807060280344576 in *.
  pose proof (Z.quot_rem' d 2). pose proof (Z.rem_bound_abs d 2 ltac:(lia)).
  split; [apply chk_i_ok; pv; lia | lia].
Qed.

(** corrections from the wire: |c| <= 2^63 units of 2^-16 ns *)
Definition corr_ok (c : Z) : Prop := - 9223372036854775808 <= c < 9223372036854775808.

Lemma time_sub_corr_ok t c : 0 <= t < 2 ^ 110 -> corr_ok c ->
  exists r, time_sub_dur t (ti_to_dur c) = Ok r /\ t_ok r.
Proof.
  intros Ht Hc. unfold corr_ok in Hc. change (2 ^ 110) with 1298074214633706907132624082305024 in *.
  unfold time_sub_dur, dur_neg, ti_to_dur.
  rewrite (chk_i_ok _ 128) by (pv; lia). cbn [obind]. unfold time_add_dur, TIME_MAX.
  destruct (- (c * 2 ^ 16) <? 0); eexists; (split; [reflexivity|]); bnd; lia.
Qed.

Lemma time_add_corr_ok t c : 0 <= t < 2 ^ 110 -> corr_ok c ->
  exists r, time_add_dur t (ti_to_dur c) = Ok r /\ t_ok r.
Proof.
  intros Ht Hc. unfold corr_ok in Hc. change (2 ^ 110) with 1298074214633706907132624082305024 in *.
  unfold time_add_dur, TIME_MAX, ti_to_dur.
  destruct (c * 2 ^ 16 <? 0); eexists; (split; [reflexivity|]); bnd; lia.
Qed.

Lemma time_of_wire_ok w : wf_ts w -> exists t, time_of_wire w = Ok t /\ 0 <= t < 2 ^ 110.
Proof.
  intros [Hs Hn]. unfold time_of_wire, time_from_wire, time_from_i128_nanos.
  change (2 ^ 110) with 1298074214633706907132624082305024.
  rewrite (chk_u_ok _ 128) by (unfold NS_PER_S, FRAC; pv; lia).
  eexists. split; [reflexivity|]. unfold NS_PER_S, FRAC. pv. lia.
Qed.

Lemma ts_valid_small t : ts_valid t -> 0 <= t < 2 ^ 110.
Proof. unfold ts_valid, FRAC. change (2 ^ 110) with 1298074214633706907132624082305024. pv. lia. Qed.

Lemma ts_valid_in_range t : ts_valid t -> in_range_ts t = true.
Proof. unfold ts_valid, in_range_ts. lia. Qed.

(** * Non-negativity of stored stepsRemoved is preserved by every list operation *)
Lemma fml_register_nn own ti l h a age :
  fml_nn l -> wf_header h /\ wf_ann a -> fml_nn (fml_register own ti l h a age).
Proof.
  intros Hl Ha. unfold fml_register.
  destruct (negb (fml_qualified own l h a)); [exact Hl|].
  destruct (fml_find (h_source h) l) as [fm0|].
  - unfold fml_nn in *. clear fm0. induction l as [|x l IH]; cbn [fml_update]; [constructor|].
    inversion Hl; subst. destruct (pi_eqb (fmr_identity x) (h_source h)).
    + constructor; [|assumption]. unfold fm_register. cbn [fmr_msgs].
      destruct (length (purge_old ti (fmr_msgs x)) <? MAX_ANNOUNCE_MESSAGES)%nat;
        apply Forall_app; split; try (constructor; [exact Ha|constructor]).
      * apply Forall_filter. assumption.
      * apply Forall_tl. apply Forall_filter. assumption.
    + constructor; [assumption|]. apply IH. assumption.
  - destruct (length l <? MAX_FOREIGN_MASTERS)%nat; [|exact Hl].
    unfold fml_nn. apply Forall_app. split; [exact Hl|].
    constructor; [|constructor]. cbn. constructor; [exact Ha|constructor].
Qed.

Lemma fml_step_age_nn ti step l : fml_nn l -> fml_nn (fml_step_age ti step l).
Proof.
  unfold fml_nn, fml_step_age. intros Hl. apply Forall_filter.
  rewrite Forall_forall in *. intros fm' Hin. apply in_map_iff in Hin. destruct Hin as [fm [Heq Hin]].
  subst fm'. specialize (Hl fm Hin). unfold fm_step_age. cbn [fmr_msgs].
  apply Forall_filter. rewrite Forall_forall in *. intros m' Hm'.
  apply in_map_iff in Hm'. destruct Hm' as [m [Heq Hm]]. subst m'. exact (Hl m Hm).
Qed.

Lemma fml_take_qualified_nn l : fml_nn l -> fml_nn (fst (fml_take_qualified l)).
Proof.
  unfold fml_nn, fml_take_qualified. cbn [fst]. intros Hl.
  rewrite map_map. rewrite Forall_forall in *. intros fm' Hin.
  apply in_map_iff in Hin. destruct Hin as [fm [Heq Hin]]. subst fm'. specialize (Hl fm Hin).
  unfold fm_take. destruct (FOREIGN_MASTER_THRESHOLD <=? length (fmr_msgs fm))%nat; cbn [fst]; [|exact Hl].
  cbn. apply removelast_Forall. exact Hl.
Qed.

Lemma erbest_nn own acc ti l l' b :
  fml_nn l -> bmca_take_best own acc ti l = Ok (l', Some b) -> wf_header (b_header b) /\ wf_ann (b_ann b).
Proof.
  intros Hl H. destruct (erbest_needs_two _ _ _ _ _ _ H) as (fm & m & Hfm & _ & Hm & Hh & Ha & _).
  unfold fml_nn in Hl. rewrite Forall_forall in Hl. specialize (Hl fm Hfm).
  rewrite Forall_forall in Hl. rewrite Hh, Ha. apply Hl. exact Hm.
Qed.

Lemma bmca_take_best_nn own acc ti l l' ob :
  fml_nn l -> bmca_take_best own acc ti l = Ok (l', ob) -> fml_nn l'.
Proof.
  intros Hl H. pose proof H as H0. unfold bmca_take_best in H.
  destruct (fml_take_qualified l) as [l1 taken] eqn:Et.
  assert (H1 : fml_nn l1).
  { pose proof (fml_take_qualified_nn l Hl) as Hx. rewrite Et in Hx. exact Hx. }
  destruct (find_best _) as [[b|]|s]; cbn [obind] in H; inversion H; subst; [|exact H1].
  unfold bmca_reregister. destruct (_ && _); [|exact H1].
  apply fml_register_nn; [exact H1|]. eapply erbest_nn; [exact Hl|exact H0].
Qed.

Lemma bmca_take_best_ok own acc ti l l' ob :
  fml_ok own l -> bmca_take_best own acc ti l = Ok (l', ob) -> fml_ok own l'.
Proof.
  intros [A B] H. split; [eapply bmca_take_best_wf; eauto|eapply bmca_take_best_nn; eauto].
Qed.

(** * Wire-value facts used to maintain [ds_wfb] *)
Lemma u_ok_iff bits x : u_ok bits x = true <-> 0 <= x < 2 ^ bits.
Proof. unfold u_ok. rewrite andb_true_iff, Z.leb_le, Z.ltb_lt. tauto. Qed.

Lemma cq_wfb_of q : wf_cq q -> cq_wfb q = true.
Proof.
  intros (A & B & C & D). unfold cq_wfb. rewrite !(proj2 (u_ok_iff _ _)) by (change (2 ^ 8) with 256; change (2 ^ 16) with 65536; lia).
  rewrite C, Z.eqb_refl. reflexivity.
Qed.

Lemma ann_tp_wfb h a : wf_ann a -> tp_wfb (ann_time_props h a) = true.
Proof.
  intros (_ & Hu & _ & _ & _ & _ & _ & Hs). unfold tp_wfb, ann_time_props. cbn [tp_utc_offset tp_leap tp_time_source].
  rewrite (proj2 (u_ok_iff 8 _)) by (change (2 ^ 8) with 256; lia).
  destruct (h_utc_valid h); destruct (h_leap59 h); destruct (h_leap61 h); cbn; lia.
Qed.

Lemma ann_pd_wfb h a :
  wf_header h -> wf_ann a ->
  pd_wfb (mkPD (h_source h) (an_gm_identity a) (an_quality a) (an_prio1 a) (an_prio2 a)) = true.
Proof.
  intros (_ & _ & _ & _ & _ & [Hc Hp] & _) (_ & _ & H1 & Hq & H2 & Hg & _). unfold pd_wfb.
  cbn [pd_parent pd_gm_identity pd_gm_quality pd_gm_prio1 pd_gm_prio2].
  rewrite (cq_wfb_of _ Hq).
  rewrite !(proj2 (u_ok_iff _ _)) by (change (2 ^ 8) with 256; change (2 ^ 16) with 65536; change (2 ^ 64) with 18446744073709551616; lia).
  reflexivity.
Qed.

Lemma chunks8_wfb fuel : forall b, bok b -> forallb (u_ok 64) (chunks8 fuel b) = true.
Proof.
  induction fuel as [|fuel IH]; intros b Hb; cbn [chunks8]; [reflexivity|].
  destruct (8 <=? length b)%nat; [|reflexivity]. cbn [forallb].
  rewrite IH by (apply bok_skipn; exact Hb).
  pose proof (be_decode_bound_le (firstn 8 b) 8 (bok_firstn 8 b Hb) (firstn_le_length 8 b)) as H.
  rewrite P8 in H. rewrite (proj2 (u_ok_iff 64 _)) by (change (2 ^ 64) with 18446744073709551616; lia). reflexivity.
Qed.

Lemma tlvset_iter_bok fuel : forall b, bok b -> Forall (fun t => bok (tlv_value t)) (tlvset_iter fuel b).
Proof.
  induction fuel as [|fuel IH]; intros b Hb; cbn [tlvset_iter]; [constructor|].
  destruct (blen b <? 4); [constructor|]. constructor.
  - cbn [tlv_value]. apply bok_slice. exact Hb.
  - apply IH. apply bok_skipn. exact Hb.
Qed.

Lemma find_tlv_in t l x : find_tlv t l = Some x -> In x l.
Proof.
  induction l as [|y l IH]; cbn [find_tlv]; [discriminate|].
  destruct (tlv_type y =? t); [intros H; inversion H; subst; left; reflexivity|intros H; right; apply IH; exact H].
Qed.
