(** Instance invariant and its preservation by every host call on a port. *)
From SV Require Export Port.InvHandlers.

Definition nslaves (l : list port) : nat := count (fun p => is_slave (p_state p)) l.
Definition ids_ok (clock : Z) (l : list port) : Prop :=
  forall n p, nth_error l n = Some p -> p_identity p = mkPI clock (Z.of_nat n + 1).

Definition inst_inv (i : instance) : Prop :=
  Forall port_inv (i_ports i) /\ ds_inv (i_ds i)
  /\ ids_ok (dd_clock_identity (ds_default (i_ds i))) (i_ports i)
  /\ dd_number_ports (ds_default (i_ds i)) = Z.of_nat (length (i_ports i))
  /\ (1 <= length (i_ports i))%nat /\ -7 <= i_log_bmca i <= 7
  /\ (nslaves (i_ports i) <= 1)%nat.

(** * List facts *)
Lemma update_nth_length {A} n (x : A) l : length (update_nth n x l) = length l.
Proof. revert n; induction l as [|y l IH]; intros [|n]; cbn; auto. Qed.

Lemma update_nth_Forall {A} (P : A -> Prop) n x l : Forall P l -> P x -> Forall P (update_nth n x l).
Proof.
  revert n; induction l as [|y l IH]; intros [|n] Hl Hx; cbn; auto; inversion Hl; subst; constructor; auto.
Qed.

Lemma nth_error_update_nth {A} n m (x : A) l :
  nth_error (update_nth n x l) m =
  if Nat.eqb n m then match nth_error l n with Some _ => Some x | None => None end else nth_error l m.
Proof.
  revert n m; induction l as [|y l IH]; intros [|n] [|m]; cbn; auto;
    try (destruct (Nat.eqb n m); reflexivity).
Qed.

Lemma count_update_nth {A} (f : A -> bool) n x y l :
  nth_error l n = Some y -> (f y = false -> f x = false) ->
  (count f (update_nth n x l) <= count f l)%nat.
Proof.
  unfold count. revert n; induction l as [|z l IH]; intros [|n] Hn Hf; cbn in *; try discriminate.
  - inversion Hn; subst. destruct (f y) eqn:Ey; destruct (f x) eqn:Ex; cbn; try lia;
      specialize (Hf eq_refl); discriminate.
  - specialize (IH n Hn Hf). destruct (f z); cbn; lia.
Qed.


(** slave-only instances have no master port; [so_step]: a call that neither
    creates a master on a slave-only instance nor touches defaultDS *)
Definition no_master (l : list port) : Prop := Forall (fun p => is_master (p_state p) = false) l.
Definition so_inv (i : instance) : Prop :=
  dd_slave_only (ds_default (i_ds i)) = true -> no_master (i_ports i).
Definition cfgs_of (i : instance) : list port_config := map p_config (i_ports i).
Lemma update_nth_map {A B} (g : A -> B) n x l y :
  nth_error l n = Some y -> g x = g y -> map g (update_nth n x l) = map g l.
Proof.
  revert n; induction l as [|z l IH]; intros [|n] Hn Hg; cbn in *; try discriminate.
  - inversion Hn; subst. rewrite Hg. reflexivity.
  - f_equal. apply IH; assumption.
Qed.

Definition so_step (i i' : instance) : Prop :=
  cfgs_of i' = cfgs_of i /\
  ds_default (i_ds i') = ds_default (i_ds i) /\
  (dd_slave_only (ds_default (i_ds i)) = true -> no_master (i_ports i) -> no_master (i_ports i')).

(** * A host call on one port *)
Lemma on_port_ok i n f :
  inst_inv i ->
  (forall p d, port_inv p -> ds_inv d -> good_w p d (f p d)) ->
  exists i' o, on_port i n f = Ok (i', o) /\ inst_inv i' /\ so_step i i'.
Proof.
  intros (Hports & Hds & Hids & Hnum & Hlen & Hlog & Hsl) Hf. unfold on_port.
  destruct (nth_error (i_ports i) n) as [p|] eqn:En.
  - assert (Hp : port_inv p).
    { rewrite Forall_forall in Hports. apply Hports. eapply nth_error_In; eauto. }
    destruct (Hf p (i_ds i) Hp Hds) as (p' & d' & o & -> & Hp' & (Hid & Hcfg & Hns) & (Hd' & Hdef) & Hma).
    cbn [obind]. eexists; eexists; split; [reflexivity|].
    split; [|split; [unfold cfgs_of; cbn [i_ports]; eapply update_nth_map; [exact En|exact Hcfg]|split; [exact Hdef|]]].
    2: { intros Hso Hnm. cbn [i_ports]. apply update_nth_Forall; [exact Hnm|]. apply Hma; [exact Hso|].
         unfold no_master in Hnm. rewrite Forall_forall in Hnm. apply Hnm. eapply nth_error_In; eauto. }
    unfold inst_inv. cbn [i_ports i_ds i_log_bmca].
    rewrite update_nth_length, Hdef.
    split; [apply update_nth_Forall; [exact Hports|exact Hp']|].
    split; [exact Hd'|].
    split.
    { intros m q Hq. rewrite nth_error_update_nth in Hq.
      destruct (Nat.eqb n m) eqn:Enm.
      - apply Nat.eqb_eq in Enm; subst m. rewrite En in Hq. inversion Hq; subst. rewrite Hid. apply Hids. exact En.
      - apply Hids. exact Hq. }
    split; [exact Hnum|]. split; [exact Hlen|]. split; [exact Hlog|].
    unfold nslaves in *. eapply Nat.le_trans; [|exact Hsl].
    eapply count_update_nth; [exact En|exact Hns].
  - eexists; eexists; split; [reflexivity|]. split; [unfold inst_inv; tauto|]. split; [reflexivity|]. split; [reflexivity|auto].
Qed.
