(** In every reachable state the slave port's selected master (SlaveState::
    remote_master) is the parent port identity of parentDS: the source filter of
    Sync / Follow_Up / Delay_Resp and the data sets never disagree about who the
    parent is (used by C07 and C09). *)
From SV Require Export Port.MainC11b.

Definition remote_of (s : port_state) : option port_identity :=
  match s with PSlave st => Some (ss_remote st) | _ => None end.

(** a call on a port never changes whom a slave port follows *)
Definition keeps_remote (p : port) (r : hres) : Prop :=
  forall p' d' o, r = Ok (p', d', o) ->
    remote_of (p_state p') = remote_of (p_state p) \/ remote_of (p_state p') = None.

Lemma draw_remote x z y : draw x = (z, y) -> p_state y = p_state x.
Proof. apply draw_state_eq. Qed.

Lemma extract_measurement_remote p p' om o : extract_measurement p = Ok (p', om, o) ->
  remote_of (p_state p') = remote_of (p_state p) \/ remote_of (p_state p') = None.
Proof.
  unfold extract_measurement, set_forced. intros H. crunch H;
    repeat match goal with E : (if ?c then _ else _) = (_, _) |- _ => destruct c; inversion E; subst; clear E end;
    cbn [port_with_state port_with_peer p_state remote_of];
    repeat match goal with E : p_state _ = _ |- _ => rewrite E end; cbn [remote_of ss_remote]; auto.
Qed.

Lemma handle_time_measurement_remote p d : keeps_remote p (handle_time_measurement p d).
Proof.
  unfold keeps_remote, handle_time_measurement. intros p' d' o H.
  destruct (extract_measurement p) as [[[p1 om] o1]|?] eqn:E; cbn [obind] in H; [|discriminate].
  pose proof (extract_measurement_remote _ _ _ _ E) as H1.
  destruct om as [m|]; [destruct (filter_mean_delay m)|]; unfold ret in H; inversion H; subst; exact H1.
Qed.

Ltac rm_tac H :=
  crunch H; cbn [set_slave port_with_state port_with_peer port_with_seqs p_state remote_of ss_remote];
  repeat match goal with E : p_state _ = _ |- _ => rewrite E end; cbn [remote_of ss_remote]; auto;
  try (match goal with Hx : handle_time_measurement ?q ?dd = Ok _ |- _ =>
         let Hr := fresh "Hr" in
         pose proof (handle_time_measurement_remote q dd _ _ _ Hx) as Hr;
         cbn [set_slave port_with_state port_with_peer p_state remote_of ss_remote] in Hr;
         repeat match goal with E : p_state _ = _ |- _ => rewrite E in Hr end; cbn [remote_of ss_remote] in Hr; exact Hr end);
  try (match goal with Hx : go_faulty ?q ?dd = Ok _ |- _ =>
         unfold go_faulty, set_forced, ret in Hx; inversion Hx; subst; right; reflexivity end).

Lemma handle_sync_remote p d h w t : keeps_remote p (handle_sync p d h w t).
Proof. unfold keeps_remote, handle_sync. intros p' d' o H. rm_tac H. Qed.
Lemma handle_follow_up_remote p d h w : keeps_remote p (handle_follow_up p d h w).
Proof. unfold keeps_remote, handle_follow_up. intros p' d' o H. rm_tac H. Qed.
Lemma handle_delay_resp_remote p d h w r : keeps_remote p (handle_delay_resp p d h w r).
Proof. unfold keeps_remote, handle_delay_resp. intros p' d' o H. rm_tac H. Qed.
Lemma handle_delay_timestamp_remote p d id t : keeps_remote p (handle_delay_timestamp p d id t).
Proof. unfold keeps_remote, handle_delay_timestamp. intros p' d' o H. rm_tac H. Qed.
Lemma handle_pdelay_timestamp_remote p d id t : keeps_remote p (handle_pdelay_timestamp p d id t).
Proof. unfold keeps_remote, handle_pdelay_timestamp. intros p' d' o H. rm_tac H. Qed.
Lemma handle_peer_delay_response_remote p d h w r t : keeps_remote p (handle_peer_delay_response p d h w r t).
Proof. unfold keeps_remote, handle_peer_delay_response. intros p' d' o H. rm_tac H. Qed.
Lemma handle_peer_delay_follow_up_remote p d h w r : keeps_remote p (handle_peer_delay_follow_up p d h w r).
Proof. unfold keeps_remote, handle_peer_delay_follow_up. cbv zeta. intros p' d' o H. rm_tac H. Qed.

Lemma send_sync_remote p d : keeps_remote p (send_sync p d).
Proof. unfold keeps_remote, send_sync. intros p' d' o H. rm_tac H. Qed.
Lemma handle_sync_timestamp_remote p d id ts : keeps_remote p (handle_sync_timestamp p d id ts).
Proof. unfold keeps_remote, handle_sync_timestamp. intros p' d' o H. rm_tac H. Qed.
Lemma handle_delay_req_remote p d h ts : keeps_remote p (handle_delay_req p d h ts).
Proof. unfold keeps_remote, handle_delay_req. intros p' d' o H. rm_tac H. Qed.
Lemma handle_pdelay_req_remote p d h ts : keeps_remote p (handle_pdelay_req p d h ts).
Proof. unfold keeps_remote, handle_pdelay_req. intros p' d' o H. rm_tac H. Qed.
Lemma handle_pdelay_response_timestamp_remote p d id rq ts : keeps_remote p (handle_pdelay_response_timestamp p d id rq ts).
Proof. unfold keeps_remote, handle_pdelay_response_timestamp. intros p' d' o H. rm_tac H. Qed.
Lemma send_announce_remote p d q : keeps_remote p (send_announce p d q).
Proof.
  unfold keeps_remote, send_announce. intros p' d' o H. destruct (is_master (p_state p)); [|unfold ret in H; inversion H; auto].
  match type of H with context [let '(a, b) := ?X in _] => destruct X as [pb m1] end.
  destruct (announce_tlv_loop _ _ _ _ _ _ _) as [[sfx locks]|?]; cbn [obind] in H; [|discriminate].
  destruct (serialize_packet _); cbn [obind] in H; [|discriminate]. unfold ret in H. inversion H; auto.
Qed.
Lemma send_delay_request_remote p d : keeps_remote p (send_delay_request p d).
Proof.
  unfold keeps_remote, send_delay_request. intros p' d' o H.
  repeat match type of H with context [draw ?x] =>
    let E := fresh "Ed" in destruct (draw x) as [? ?] eqn:E; apply draw_remote in E end.
  crunch H; repeat match goal with E : draw _ = (_, _) |- _ => apply draw_remote in E end;
    repeat match goal with E : p_state _ = _ |- _ => rewrite E end;
    cbn [set_slave port_with_state port_with_peer port_with_seqs p_state remote_of ss_remote];
    repeat match goal with E : p_state _ = _ |- _ => rewrite E end; cbn [remote_of ss_remote]; auto.
Qed.
Lemma receipt_timer_remote p d : keeps_remote p (handle_announce_receipt_timer p d).
Proof.
  unfold keeps_remote, handle_announce_receipt_timer, set_forced. intros p' d' o H.
  repeat match type of H with
  | context [draw ?x] => let E := fresh "Ed" in destruct (draw x) as [? ?] eqn:E; apply draw_remote in E
  | context [if ?c then _ else _] => let E := fresh "Ec" in destruct c eqn:E
  end; unfold ret in H; inversion H; subst;
  repeat match goal with E : p_state _ = _ |- _ => rewrite E end; cbn [port_with_state p_state remote_of]; auto.
Qed.
Lemma handle_announce_remote p d ti m a : keeps_remote p (handle_announce p d ti m a).
Proof.
  unfold keeps_remote, handle_announce. cbv zeta. intros p' d' o H.
  match type of H with obind ?X _ = _ => destruct X as [[[d1 lp] locks]|?] end; cbn [obind] in H; [|discriminate].
  destruct lp; [unfold ret in H; inversion H; auto|].
  destruct (bmca_register _ _ _ _ _ _) as [acc fml]. destruct acc; [|unfold ret in H; inversion H; auto].
  unfold set_forced in H.
  match type of H with context [if ?c then _ else _] => destruct c end;
    match type of H with context [draw ?x] => let E := fresh "Ed" in destruct (draw x) as [k p3] eqn:E; apply draw_remote in E end;
    unfold ret in H; inversion H; subst; rewrite Ed; cbn [port_with_state port_with_fml port_with_multiport p_state remote_of]; auto.
Qed.

Lemma handle_general_internal_remote p d ti m : keeps_remote p (handle_general_internal p d ti m).
Proof.
  unfold keeps_remote, handle_general_internal. intros p' d' o H. destruct (m_body m);
    try (unfold ret in H; inversion H; auto).
  - eapply handle_follow_up_remote; eauto.
  - eapply handle_delay_resp_remote; eauto.
  - eapply handle_peer_delay_follow_up_remote; eauto.
  - eapply handle_announce_remote; eauto.
Qed.

Lemma handle_general_receive_remote p d ti frame : keeps_remote p (handle_general_receive p d ti frame).
Proof.
  unfold keeps_remote, handle_general_receive. intros p' d' o H. destruct (parse_and_filter d frame) as [[m|] o1].
  - unfold prepend in H. destruct (handle_general_internal p d ti m) as [[[p1 d1] o2]|?] eqn:E; cbn [obind] in H; [|discriminate].
    inversion H; subst. eapply handle_general_internal_remote; eauto.
  - unfold ret in H. inversion H; auto.
Qed.

Lemma handle_event_receive_remote p d ti frame ts : keeps_remote p (handle_event_receive p d ti frame ts).
Proof.
  unfold keeps_remote, handle_event_receive. intros p' d' o H. destruct (parse_and_filter d frame) as [[m|] o1].
  - unfold prepend in H.
    match type of H with obind ?X _ = _ => destruct X as [[[p1 d1] o2]|?] eqn:E end; cbn [obind] in H; [|discriminate].
    inversion H; subst. destruct (m_body m); try (eapply handle_general_internal_remote; exact E).
    + eapply handle_sync_remote; eauto.
    + eapply handle_delay_req_remote; eauto.
    + eapply handle_pdelay_req_remote; eauto.
    + eapply handle_peer_delay_response_remote; eauto.
  - unfold ret in H. inversion H; auto.
Qed.

Lemma handle_send_timestamp_remote p d c ts : keeps_remote p (handle_send_timestamp p d c ts).
Proof.
  unfold keeps_remote, handle_send_timestamp. intros p' d' o H. destruct c.
  - eapply handle_sync_timestamp_remote; eauto.
  - eapply handle_delay_timestamp_remote; eauto.
  - eapply handle_pdelay_timestamp_remote; eauto.
  - eapply handle_pdelay_response_timestamp_remote; eauto.
Qed.

(** * parentDS.parentPortIdentity only changes in a BMCA run *)
Definition parent_id (d : inst_ds) : port_identity := pd_parent (ds_parent d).

Lemma handle_announce_parent p d ti m a p' d' o :
  handle_announce p d ti m a = Ok (p', d', o) -> parent_id d' = parent_id d.
Proof.
  unfold handle_announce. cbv zeta. intros H.
  match type of H with obind ?X _ = _ => destruct X as [[[d1 lp] locks]|?] eqn:Er end; cbn [obind] in H; [|discriminate].
  assert (Hd' : d' = d1).
  { destruct lp; [unfold ret in H; inversion H; reflexivity|].
    destruct (bmca_register _ _ _ _ _ _) as [acc fml]. destruct acc; [|unfold ret in H; inversion H; reflexivity].
    match type of H with context [if ?c then set_forced ?x ?y else ?z] => destruct c end;
      [destruct (set_forced _ _) as [p2 o2]|];
      match type of H with context [draw ?x] => destruct (draw x) as [k p3] end;
      unfold ret in H; inversion H; reflexivity. }
  subst d1. clear H.
  destruct (is_slave (p_state p) && (an_steps_removed a <? 255)); [|inversion Er; reflexivity].
  destruct (pi_eqb (h_source (m_header m)) (pd_parent (ds_parent d))) eqn:Ep; [|inversion Er; reflexivity].
  apply pi_eqb_eq in Ep.
  destruct (chk_u _ _ _); cbn [obind] in Er; [|discriminate].
  destruct (if ds_path_enable d then find_tlv 8 (tlvs_of (m_suffix m)) else None) as [t|].
  - destruct (_ <? _)%nat; [inversion Er; reflexivity|]. destruct (existsb _ _); inversion Er; subst; [reflexivity|].
    unfold parent_id. cbn. exact Ep.
  - inversion Er; subst. unfold parent_id. cbn. exact Ep.
Qed.

Definition slave_parent (i : instance) : Prop :=
  forall p st, In p (i_ports i) -> p_state p = PSlave st -> ss_remote st = parent_id (i_ds i).

Lemma In_update_nth {A} n (x : A) l y : In y (update_nth n x l) -> y = x \/ In y l.
Proof.
  revert n; induction l as [|z l IH]; intros [|n] H; cbn in *; auto.
  - destruct H as [<-|H]; auto.
  - destruct H as [<-|H]; auto. destruct (IH n H); auto.
Qed.

Lemma on_port_parent i n f i' o :
  slave_parent i -> on_port i n f = Ok (i', o) ->
  (forall p, keeps_remote p (f p (i_ds i))) ->
  (forall p p' d' oo, f p (i_ds i) = Ok (p', d', oo) -> parent_id d' = parent_id (i_ds i)) ->
  slave_parent i'.
Proof.
  unfold on_port. intros Hsp H Hr Hp. destruct (nth_error (i_ports i) n) as [p|] eqn:En.
  - destruct (f p (i_ds i)) as [[[p' d'] oo]|?] eqn:E; cbn [obind] in H; [|discriminate].
    inversion H; subst. intros q st Hq Hst. cbn [i_ports i_ds] in *.
    rewrite (Hp _ _ _ _ E). apply In_update_nth in Hq. destruct Hq as [->|Hq].
    + destruct (Hr p _ _ _ E) as [Hsame|Hnone]; rewrite Hst in *; cbn [remote_of] in *; [|discriminate].
      destruct (p_state p) as [| | | |st0] eqn:Est0; cbn [remote_of] in Hsame; try discriminate.
      inversion Hsame as [Heq]. rewrite Heq. eapply Hsp; [eapply nth_error_In; exact En|exact Est0].
    + eapply Hsp; eauto.
  - inversion H; subst. exact Hsp.
Qed.

(** * BMCA *)
Lemma srpt_not_slave b rs dd b1 :
  is_RS1 rs = false -> set_recommended_port_state b rs dd = Ok b1 -> is_slave (p_state (bp_port b1)) = false.
Proof.
  intros Hrs H. unfold set_recommended_port_state, set_forced in H.
  destruct rs as [d0|d0|h a|h a|h a|h a]; try discriminate Hrs;
    repeat match type of H with context [draw ?x] =>
      let E := fresh "Ed" in destruct (draw x) as [? ?] eqn:E; apply draw_state_eq in E end;
    crunch H; cbn [bp_port]; repeat match goal with E : p_state _ = _ |- _ => rewrite E end;
    cbn [port_with_state p_state is_slave]; try reflexivity;
    match goal with E : is_passive ?s || is_faulty ?s = true |- is_slave ?s = false => destruct s; try discriminate E; reflexivity end.
Qed.

Lemma srs_not_slave b rs d b' d' :
  is_RS1 rs = false -> set_recommended_state b rs d = Ok (b', d') -> is_slave (p_state (bp_port b')) = false.
Proof.
  intros Hrs H. unfold set_recommended_state in H.
  destruct (set_recommended_port_state b rs (ds_default d)) as [b1|?] eqn:E1; cbn [obind] in H; [|discriminate].
  pose proof (srpt_not_slave _ _ _ _ Hrs E1) as H1.
  destruct rs; try discriminate Hrs; crunch H; exact H1.
Qed.

Lemma srs_keeps_ds b rs d b' d' :
  is_RS1 rs = false -> is_RM rs = false -> set_recommended_state b rs d = Ok (b', d') -> d' = d.
Proof.
  intros H1 H2 H. unfold set_recommended_state in H.
  destruct (set_recommended_port_state b rs (ds_default d)) as [b1|?]; cbn [obind] in H; [|discriminate].
  destruct rs; try discriminate H1; try discriminate H2; inversion H; reflexivity.
Qed.

Lemma srs_rs1_parent b h a d b' d' :
  set_recommended_state b (RS1 h a) d = Ok (b', d') ->
  parent_id d' = h_source h /\
  (forall st, p_state (bp_port b') = PSlave st -> ss_remote st = h_source h).
Proof.
  intros H. unfold set_recommended_state in H.
  destruct (set_recommended_port_state b (RS1 h a) (ds_default d)) as [b1|?] eqn:E1; cbn [obind] in H; [|discriminate].
  assert (Hr : forall st, p_state (bp_port b1) = PSlave st -> ss_remote st = h_source h).
  { unfold set_recommended_port_state, set_forced in E1.
    destruct (pc_master_only (p_config (bp_port b))); [discriminate|].
    destruct (p_state (bp_port b)) eqn:Est;
      try (match type of E1 with context [draw ?x] => let Ed := fresh "Ed" in destruct (draw x) as [k p2] eqn:Ed;
             apply draw_state_eq in Ed end; inversion E1; subst; cbn [bp_port]; rewrite Ed;
           cbn [port_with_state p_state]; intros st Hst; inversion Hst; reflexivity).
    - inversion E1; subst. rewrite Est. discriminate.
    - destruct (negb (pi_eqb (ss_remote s) (h_source h))) eqn:En.
      + match type of E1 with context [draw ?x] => let Ed := fresh "Ed" in destruct (draw x) as [k p2] eqn:Ed;
          apply draw_state_eq in Ed end. inversion E1; subst. cbn [bp_port]. rewrite Ed.
        cbn [port_with_state p_state]. intros st Hst. inversion Hst; reflexivity.
      + inversion E1; subst. rewrite Est. intros st Hst. inversion Hst; subst.
        apply negb_false_iff in En. apply pi_eqb_eq in En. exact En. }
  destruct (pc_master_only (p_config (bp_port b1))); [discriminate|].
  destruct (chk_u _ _ _); cbn [obind] in H; [|discriminate]. inversion H; subst. split; [reflexivity|exact Hr].
Qed.

Lemma rec_slave_mode own g erbest st r :
  gm_mode own (Some g) = false -> recommended_state own (Some g) erbest st = Ok r ->
  r = None \/ (exists rs, r = Some rs /\ is_RS1 rs = false /\ is_RM rs = false) \/
  r = Some (RS1 (b_header g) (b_ann g)).
Proof.
  unfold gm_mode, recommended_state. intros Hg H. apply orb_false_iff in Hg as [Hc Hm].
  assert (Hmain : (if (1 <=? cq_class (dd_quality own)) && (cq_class (dd_quality own) <=? 127)
     then let! c := compare_d0_best (cmp_from_own own) erbest in
          Ok (Some match c with MCWorse p => RP1 (b_header p) (b_ann p) | _ => RM1 own end)
     else let! c := compare_d0_best (cmp_from_own own) (Some g) in
          match c with
          | MCWorse g0 => match erbest with
                          | Some p => let! r := compare_global_and_port g0 p in Ok (Some r)
                          | None => Ok (Some (RM3 (b_header g0) (b_ann g0)))
                          end
          | _ => Ok (Some (RM2 own))
          end) = Ok r ->
     r = None \/ (exists rs, r = Some rs /\ is_RS1 rs = false /\ is_RM rs = false) \/
     r = Some (RS1 (b_header g) (b_ann g))).
  { rewrite Hc. unfold compare_d0_best in *. rewrite compare_refines_spec in *. cbn [obind] in *.
    destruct (as_ordering (ord_of_spec (fig34 (cmp_from_own own) (best_cmp_ds g)))); try discriminate Hm.
    destruct erbest as [pb|]; [|intros Hx; inversion Hx; right; left; eexists; repeat split].
    unfold compare_global_and_port. destruct (best_eqb g pb); cbn [obind]; [intros Hx; inversion Hx; auto|].
    rewrite compare_refines_spec. cbn [obind].
    destruct (ord_of_spec _); intros Hx; inversion Hx; right; left; eexists; repeat split. }
  destruct erbest as [pb|]; destruct st; try (apply Hmain; exact H); inversion H; auto.
Qed.

(** grandmaster mode: nobody is slave afterwards *)
Lemma decide_no_slave ebest d0 : forall todo done d done' d',
  gm_mode (ds_default d0) ebest = true -> ds_default d = ds_default d0 ->
  bmca_decide ebest d todo done = Ok (done', d') ->
  exists tail, done' = done ++ tail /\ Forall (fun b' => is_slave (p_state (bp_port b')) = false) tail.
Proof.
  induction todo as [|b todo IH]; intros done d done' d' Hg Hdef H; cbn [bmca_decide] in H.
  - inversion H; subst. exists []. rewrite app_nil_r. split; [reflexivity|constructor].
  - destruct (recommended_state (ds_default d) ebest (bp_best b) (p_state (bp_port b))) as [r|?] eqn:Er; cbn [obind] in H; [|discriminate].
    pose proof Er as Er'. rewrite Hdef in Er'.
    destruct (rec_gm_mode _ _ _ _ _ Hg Er') as [->|[->|[->|(h & a & ->)]]].
    + apply recommended_None in Er.
      destruct (IH _ _ _ _ Hg Hdef H) as (tail & -> & Ht). exists (b :: tail). rewrite <- app_assoc. split; [reflexivity|].
      constructor; [rewrite Er; reflexivity|exact Ht].
    + destruct (set_recommended_state b _ d) as [[b1 d1]|?] eqn:Es; cbn [obind fst snd] in H; [|discriminate].
      destruct (IH _ _ _ _ Hg ltac:(rewrite (srs_default _ _ _ _ _ Es); exact Hdef) H) as (tail & -> & Ht).
      exists (b1 :: tail). rewrite <- app_assoc. split; [reflexivity|]. constructor; [eapply srs_not_slave; [|exact Es]; reflexivity|exact Ht].
    + destruct (set_recommended_state b _ d) as [[b1 d1]|?] eqn:Es; cbn [obind fst snd] in H; [|discriminate].
      destruct (IH _ _ _ _ Hg ltac:(rewrite (srs_default _ _ _ _ _ Es); exact Hdef) H) as (tail & -> & Ht).
      exists (b1 :: tail). rewrite <- app_assoc. split; [reflexivity|]. constructor; [eapply srs_not_slave; [|exact Es]; reflexivity|exact Ht].
    + destruct (set_recommended_state b _ d) as [[b1 d1]|?] eqn:Es; cbn [obind fst snd] in H; [|discriminate].
      destruct (IH _ _ _ _ Hg ltac:(rewrite (srs_default _ _ _ _ _ Es); exact Hdef) H) as (tail & -> & Ht).
      exists (b1 :: tail). rewrite <- app_assoc. split; [reflexivity|]. constructor; [eapply srs_not_slave; [|exact Es]; reflexivity|exact Ht].
Qed.

(** slave mode: every slave afterwards follows the sender of Ebest, and so does parentDS *)
Lemma decide_parent_slave g : forall todo done d done' d',
  gm_mode (ds_default d) (Some g) = false ->
  bmca_decide (Some g) d todo done = Ok (done', d') ->
  exists tail, done' = done ++ tail /\
    Forall (fun b' => forall st, p_state (bp_port b') = PSlave st -> ss_remote st = h_source (b_header g)) tail /\
    (parent_id d = h_source (b_header g) -> parent_id d' = h_source (b_header g)) /\
    (parent_id d' = h_source (b_header g) \/ Forall (fun b' => is_slave (p_state (bp_port b')) = false) tail).
Proof.
  induction todo as [|b todo IH]; intros done d done' d' Hg H; cbn [bmca_decide] in H.
  - inversion H; subst. exists []. rewrite app_nil_r. split; [reflexivity|]. split; [constructor|]. split; [auto|right; constructor].
  - destruct (recommended_state (ds_default d) (Some g) (bp_best b) (p_state (bp_port b))) as [r|?] eqn:Er; cbn [obind] in H; [|discriminate].
    destruct (rec_slave_mode _ _ _ _ _ Hg Er) as [->|[(rs & -> & Hn1 & Hn2)| ->]].
    + apply recommended_None in Er.
      destruct (IH _ _ _ _ Hg H) as (tail & -> & Ht & Hp & Hor). exists (b :: tail). rewrite <- app_assoc. split; [reflexivity|].
      split; [constructor; [rewrite Er; discriminate|exact Ht]|]. split; [exact Hp|].
      destruct Hor as [Hl|Hr]; [left; exact Hl|right; constructor; [rewrite Er; reflexivity|exact Hr]].
    + destruct (set_recommended_state b rs d) as [[b1 d1]|?] eqn:Es; cbn [obind fst snd] in H; [|discriminate].
      pose proof (srs_keeps_ds _ _ _ _ _ Hn1 Hn2 Es) as ->. pose proof (srs_not_slave _ _ _ _ _ Hn1 Es) as Hns.
      destruct (IH _ _ _ _ Hg H) as (tail & -> & Ht & Hp & Hor). exists (b1 :: tail). rewrite <- app_assoc. split; [reflexivity|].
      split; [constructor; [intros st Hst; rewrite Hst in Hns; discriminate|exact Ht]|]. split; [exact Hp|].
      destruct Hor as [Hl|Hr]; [left; exact Hl|right; constructor; [exact Hns|exact Hr]].
    + destruct (set_recommended_state b _ d) as [[b1 d1]|?] eqn:Es; cbn [obind fst snd] in H; [|discriminate].
      destruct (srs_rs1_parent _ _ _ _ _ _ Es) as [Hpar Hrem].
      destruct (IH _ _ _ _ ltac:(rewrite (srs_default _ _ _ _ _ Es); exact Hg) H) as (tail & -> & Ht & Hp & _).
      exists (b1 :: tail). rewrite <- app_assoc. split; [reflexivity|].
      split; [constructor; [exact Hrem|exact Ht]|]. split; [intros _; apply Hp; exact Hpar|left; apply Hp; exact Hpar].
Qed.

Lemma bmca_parent i i' o : bmca i = Ok (i', o) -> slave_parent i'.
Proof.
  unfold bmca. intros H.
  destruct (bmca_interval_dur _) as [step|?]; cbn [obind] in H; [|discriminate].
  destruct (negb _); [discriminate|].
  destruct (omap_list calc_local_best (i_ports i)) as [bps|?] eqn:E1; cbn [obind] in H; [|discriminate].
  destruct (find_best _) as [ebest|?] eqn:Eb; cbn [obind] in H; [|discriminate].
  destruct (bmca_decide ebest (i_ds i) bps []) as [[bps1 d1]|?] eqn:E2; cbn [obind] in H; [|discriminate].
  destruct (omap_list _ bps1) as [ports|?] eqn:E3; cbn [obind] in H; [|discriminate].
  inversion H; subst. clear H.
  pose proof (omap_list_rel _ (fun b p' => p_state p' = p_state (bp_port b))
                (fun b p' Hx => step_announce_age_state _ _ _ Hx) _ _ E3) as R3.
  intros p' st Hp' Hst. cbn [i_ports i_ds] in *.
  destruct (Forall2_in_r _ _ _ _ R3 Hp') as (b' & Hb' & Hsb). rewrite Hst in Hsb.
  destruct (gm_mode (ds_default (i_ds i)) ebest) eqn:Eg.
  - exfalso. destruct (decide_no_slave ebest (i_ds i) bps [] (i_ds i) _ _ Eg eq_refl E2) as (tail & Ht & Hall).
    cbn [app] in Ht. subst tail. rewrite Forall_forall in Hall. specialize (Hall b' Hb'). rewrite <- Hsb in Hall. discriminate.
  - destruct (gm_mode_false_some _ _ Eg) as (g & ->).
    destruct (decide_parent_slave g bps [] (i_ds i) _ _ Eg E2) as (tail & Ht & Hrem & _ & Hor).
    cbn [app] in Ht. subst tail. rewrite Forall_forall in Hrem. rewrite (Hrem b' Hb' st (eq_sym Hsb)).
    destruct Hor as [Hl|Hr]; [symmetry; exact Hl|].
    exfalso. rewrite Forall_forall in Hr. specialize (Hr b' Hb'). rewrite <- Hsb in Hr. discriminate.
Qed.

(** * every step, every run *)
Lemma keeps_parent d r p' d' o : keeps d r -> r = Ok (p', d', o) -> parent_id d' = parent_id d.
Proof. intros Hk Hr. destruct (Hk _ _ _ Hr) as [-> _]. reflexivity. Qed.

Lemma handle_general_internal_parent p d ti m p' d' o :
  handle_general_internal p d ti m = Ok (p', d', o) -> parent_id d' = parent_id d.
Proof.
  unfold handle_general_internal. intros H. destruct (m_body m); try (unfold ret in H; inversion H; reflexivity).
  - eapply keeps_parent; [apply handle_follow_up_keeps|exact H].
  - eapply keeps_parent; [apply handle_delay_resp_keeps|exact H].
  - eapply keeps_parent; [apply handle_peer_delay_follow_up_keeps|exact H].
  - eapply handle_announce_parent; exact H.
Qed.

Lemma handle_general_receive_parent p d ti frame p' d' o :
  handle_general_receive p d ti frame = Ok (p', d', o) -> parent_id d' = parent_id d.
Proof.
  unfold handle_general_receive. intros H. destruct (parse_and_filter d frame) as [[m|] o1].
  - unfold prepend in H. destruct (handle_general_internal p d ti m) as [[[p1 d1] o2]|?] eqn:E; cbn [obind] in H; [|discriminate].
    inversion H; subst. eapply handle_general_internal_parent; eauto.
  - unfold ret in H. inversion H; reflexivity.
Qed.

Lemma handle_event_receive_parent p d ti frame ts p' d' o :
  handle_event_receive p d ti frame ts = Ok (p', d', o) -> parent_id d' = parent_id d.
Proof.
  unfold handle_event_receive. intros H. destruct (parse_and_filter d frame) as [[m|] o1].
  - unfold prepend in H.
    match type of H with obind ?X _ = _ => destruct X as [[[p1 d1] o2]|?] eqn:E end; cbn [obind] in H; [|discriminate].
    inversion H; subst. destruct (m_body m); try (eapply handle_general_internal_parent; exact E).
    + eapply keeps_parent; [apply handle_sync_keeps|exact E].
    + eapply keeps_parent; [apply handle_delay_req_keeps|exact E].
    + eapply keeps_parent; [apply handle_pdelay_req_keeps|exact E].
    + eapply keeps_parent; [apply handle_peer_delay_response_keeps|exact E].
  - unfold ret in H. inversion H; reflexivity.
Qed.

Lemma handle_send_timestamp_parent p d c ts p' d' o :
  handle_send_timestamp p d c ts = Ok (p', d', o) -> parent_id d' = parent_id d.
Proof.
  unfold handle_send_timestamp. intros H. destruct c.
  - eapply keeps_parent; [apply handle_sync_timestamp_keeps|exact H].
  - eapply keeps_parent; [apply handle_delay_timestamp_keeps|exact H].
  - eapply keeps_parent; [apply handle_pdelay_timestamp_keeps|exact H].
  - eapply keeps_parent; [apply handle_pdelay_response_timestamp_keeps|exact H].
Qed.

Lemma step_parent i e i' o : slave_parent i -> step i e = Ok (i', o) -> slave_parent i'.
Proof.
  intros Hsp Hs. destruct e; cbn [step] in Hs.
  - eapply on_port_parent; [exact Hsp|exact Hs|intros pp; apply handle_event_receive_remote|].
    intros pp pp' dd' oo Hh. eapply handle_event_receive_parent; exact Hh.
  - eapply on_port_parent; [exact Hsp|exact Hs|intros pp; apply handle_general_receive_remote|].
    intros pp pp' dd' oo Hh. eapply handle_general_receive_parent; exact Hh.
  - eapply on_port_parent; [exact Hsp|exact Hs|intros pp; apply handle_send_timestamp_remote|].
    intros pp pp' dd' oo Hh. eapply handle_send_timestamp_parent; exact Hh.
  - eapply on_port_parent; [exact Hsp|exact Hs|intros pp; apply send_announce_remote|].
    intros pp pp' dd' oo Hh. eapply keeps_parent; [apply send_announce_keeps|exact Hh].
  - eapply on_port_parent; [exact Hsp|exact Hs|intros pp; apply send_sync_remote|].
    intros pp pp' dd' oo Hh. eapply keeps_parent; [apply send_sync_keeps|exact Hh].
  - eapply on_port_parent; [exact Hsp|exact Hs|intros pp; apply send_delay_request_remote|].
    intros pp pp' dd' oo Hh. eapply keeps_parent; [apply send_delay_request_keeps|exact Hh].
  - eapply on_port_parent; [exact Hsp|exact Hs|intros pp; apply receipt_timer_remote|].
    intros pp pp' dd' oo Hh. eapply keeps_parent; [apply receipt_timer_keeps|exact Hh].
  - eapply on_port_parent; [exact Hsp|exact Hs| |].
    + intros pp pp' dd' oo Hh. unfold handle_filter_update_timer, ret in Hh. inversion Hh; auto.
    + intros pp pp' dd' oo Hh. unfold handle_filter_update_timer, ret in Hh. inversion Hh; reflexivity.
  - eapply bmca_parent; exact Hs.
  - inversion Hs; subst. exact Hsp.
  - inversion Hs; subst. exact Hsp.
  - inversion Hs; subst. exact Hsp.
Qed.

Theorem run_parent es : forall i i', slave_parent i -> run_state i es = Some i' -> slave_parent i'.
Proof.
  induction es as [|e es IH]; intros i i' Hsp Hr; cbn [run_state] in Hr.
  - inversion Hr; subst. exact Hsp.
  - destruct (step i e) as [[i1 o]|?] eqn:Hs; [|discriminate]. eapply IH; [eapply step_parent; eauto|exact Hr].
Qed.

Lemma add_ports_no_slave ps : forall i acc i' o,
  Forall (fun p => is_slave (p_state p) = false) (i_ports i) ->
  add_ports i ps acc = Ok (i', o) -> Forall (fun p => is_slave (p_state p) = false) (i_ports i').
Proof.
  induction ps as [|[c r] ps IH]; intros i acc i' o Hn H; cbn [add_ports] in H.
  - inversion H; subst. exact Hn.
  - destruct (add_port i c r) as [[i1 o1]|?] eqn:E; cbn [obind fst snd] in H; [|discriminate].
    eapply IH; [|exact H]. unfold add_port in E. destruct (chk_u _ _ _); cbn [obind] in E; [|discriminate].
    match type of E with context [draw ?x] => let Ed := fresh "Ed" in destruct (draw x) as [k p1] eqn:Ed; apply draw_state_eq in Ed end.
    destruct (announce_interval_ti _); cbn [obind] in E; [|discriminate]. inversion E; subst. cbn [i_ports].
    apply Forall_app. split; [exact Hn|]. constructor; [rewrite Ed; reflexivity|constructor].
Qed.

(** from any set-up, after any event list (no hypothesis on the events) *)
Theorem slave_follows_parent s es i o i' :
  init s = Ok (i, o) -> run_state i es = Some i' -> slave_parent i'.
Proof.
  intros Hi Hr. eapply run_parent; [|exact Hr].
  intros p st Hp Hst. exfalso. unfold init in Hi.
  assert (H0 : Forall (fun p => is_slave (p_state p) = false) (i_ports (new_instance (su_config s) (su_tp s)))) by constructor.
  pose proof (add_ports_no_slave _ _ _ _ _ H0 Hi) as Hn. rewrite Forall_forall in Hn.
  specialize (Hn p Hp). rewrite Hst in Hn. discriminate.
Qed.

(** Consequence for C07 / C09: in every reachable state, a Sync, Follow_Up or
    Delay_Resp whose sender is not the parent shown by parentDS changes nothing
    and reaches neither the filter nor the clock. *)
From SV Require Import Port.LemmasC07.
Theorem not_from_parent_ignored s es i o i' p h :
  init s = Ok (i, o) -> run_state i es = Some i' -> In p (i_ports i') ->
  pi_eqb (h_source h) (parent_id (i_ds i')) = false ->
  (forall origin ts, handle_sync p (i_ds i') h origin ts = Ok (p, i_ds i', [])) /\
  (forall precise, handle_follow_up p (i_ds i') h precise = Ok (p, i_ds i', [])) /\
  (forall recv requester, handle_delay_resp p (i_ds i') h recv requester = Ok (p, i_ds i', [])).
Proof.
  intros Hi Hr Hp Hne.
  assert (Hnm : not_from_master p (h_source h)).
  { unfold not_from_master. destruct (p_state p) as [| | | |st] eqn:Est; try exact I.
    rewrite (slave_follows_parent s es i o i' Hi Hr p st Hp Est).
    rewrite pi_eqb_sym. exact Hne. }
  repeat split; intros.
  - apply sync_not_master_stutters. exact Hnm.
  - apply follow_up_not_master_stutters. exact Hnm.
  - apply delay_resp_not_ours_stutters. left. exact Hnm.
Qed.
