(** The BMCA pass preserves the instance invariant and never panics. *)
From SV Require Export Port.InvStep Port.BmcaSpec Port.LemmasC05 Port.BmcaObs.

Definition same_id (p p' : port) : Prop := p_identity p' = p_identity p /\ p_config p' = p_config p.
Lemma same_id_refl p : same_id p p. Proof. split; reflexivity. Qed.
Lemma same_id_trans a b c : same_id a b -> same_id b c -> same_id a c.
Proof. intros [A1 A2] [B1 B2]. split; congruence. Qed.
Lemma pres_same_id p p' : pres p p' -> same_id p p'.
Proof. intros (A & B & _). split; assumption. Qed.

(** * omap_list *)
Lemma omap_list_ok {A B} (f : A -> outcome B) (P : A -> Prop) (Q : A -> B -> Prop) l :
  (forall x, P x -> exists y, f x = Ok y /\ Q x y) -> Forall P l ->
  exists ys, omap_list f l = Ok ys /\ Forall2 Q l ys.
Proof.
  intros Hf. induction 1 as [|x l Hx Hl IH]; cbn [omap_list].
  - exists []. split; [reflexivity|constructor].
  - destruct (Hf x Hx) as (y & -> & Hq). destruct IH as (ys & -> & Hqs). cbn [obind].
    exists (y :: ys). split; [reflexivity|constructor; assumption].
Qed.

Lemma Forall2_comp {A B C} (R : A -> B -> Prop) (S : B -> C -> Prop) (T : A -> C -> Prop) la lb lc :
  (forall a b c, R a b -> S b c -> T a c) -> Forall2 R la lb -> Forall2 S lb lc -> Forall2 T la lc.
Proof.
  intros H H1. revert lc. induction H1 as [|a b la lb Hab _ IH]; intros lc H2; inversion H2; subst; constructor; eauto.
Qed.

Lemma Forall2_nth {A B} (R : A -> B -> Prop) la lb n b :
  Forall2 R la lb -> nth_error lb n = Some b -> exists a, nth_error la n = Some a /\ R a b.
Proof.
  intros H. revert n. induction H as [|x y la lb Hxy _ IH]; intros [|n] Hn; cbn in *; try discriminate.
  - inversion Hn; subst. eauto.
  - apply IH. exact Hn.
Qed.

Lemma Forall2_len {A B} (R : A -> B -> Prop) la lb : Forall2 R la lb -> length la = length lb.
Proof. induction 1; cbn; congruence. Qed.

Lemma Forall2_Forall_r {A B} (R : A -> B -> Prop) (P : B -> Prop) la lb :
  Forall2 R la lb -> (forall a b, R a b -> P b) -> Forall P lb.
Proof. induction 1; intros; constructor; eauto. Qed.

(** * Interval *)
Lemma bmca_interval_ok log : -7 <= log <= 7 -> exists s, bmca_interval_dur log = Ok s.
Proof.
  intros H. unfold bmca_interval_dur.
  destruct (log <? -32) eqn:E; [eauto|].
  assert (H1 : 0 < 2 ^ (log + 32) <= 2 ^ 39).
  { split; [apply Z.pow_pos_nonneg; lia|apply Z.pow_le_mono_r; lia]. }
  change (2 ^ 39) with 549755813888 in H1.
  rewrite (chk_i_ok _ 128) by (pv; lia). cbn [obind].
  rewrite (chk_i_ok _ 128) by (pv; nia). eauto.
Qed.

(** * Per-port candidate *)
(** a candidate is a well-formed wire value with stepsRemoved < 255 *)
Definition best_wf (m : best_msg) : Prop :=
  wf_header (b_header m) /\ wf_ann (b_ann m) /\ an_steps_removed (b_ann m) < 255.

Definition bport_ok (b : bport) : Prop :=
  port_inv (bp_port b) /\
  forall m, bp_best b = Some m ->
    b_identity m = p_identity (bp_port b) /\ best_wf m.

Lemma find_best_identity l own b :
  Forall (fun m => b_identity m = own) l -> find_best l = Ok (Some b) -> b_identity b = own.
Proof. intros Hl H. apply find_best_in in H. rewrite Forall_forall in Hl. apply Hl. exact H. Qed.

Lemma take_best_identity own acc ti l l' b :
  bmca_take_best own acc ti l = Ok (l', Some b) -> b_identity b = own.
Proof.
  unfold bmca_take_best. destruct (fml_take_qualified l) as [l1 taken].
  destruct (find_best _) as [[best|]|s] eqn:Ef; cbn [obind]; try discriminate.
  intros H. inversion H; subst. eapply find_best_identity; [|exact Ef].
  apply Forall_forall. intros x Hx. apply in_map_iff in Hx. destruct Hx as [m [<- _]]. reflexivity.
Qed.

Lemma take_best_total own acc ti l : exists r, bmca_take_best own acc ti l = Ok r.
Proof.
  unfold bmca_take_best. destruct (fml_take_qualified l) as [l1 taken].
  destruct (find_best_total (map (fun m => mkBest (fm_header m) (fm_ann m) (fm_age m) own) taken)) as [[b|] ->];
    cbn [obind]; eauto.
Qed.

Lemma calc_local_best_ok p :
  port_inv p -> exists b, calc_local_best p = Ok b /\ bport_ok b /\ pres p (bp_port b) /\
                          bp_side b = [] /\ p_state (bp_port b) = p_state p /\ bp_pending b = [].
Proof.
  intros Hp. unfold calc_local_best.
  destruct (take_best_total (p_identity p) (pc_acceptable (p_config p)) (port_ti p) (p_fml p)) as [[l' ob] E].
  rewrite E. cbn [obind fst snd]. eexists. split; [reflexivity|].
  assert (Hfml : fml_ok (p_identity p) l').
  { eapply bmca_take_best_ok; [|exact E]. apply Hp. }
  split; [|split; [repeat split; auto|split; [reflexivity|split; reflexivity]]].
  split; cbn [bp_port bp_best].
  - apply fml_register_inv; assumption.
  - intros m ->. split; [eapply take_best_identity; exact E|].
    destruct Hp as (_ & _ & _ & _ & [Hw Hn] & _).
    destruct (erbest_nn _ _ _ _ _ _ Hn E) as [H1 H2]. split; [exact H1|split; [exact H2|]].
    eapply erbest_qualified; [exact Hw|exact E].
Qed.

(** * The state decision *)
Lemma recommended_total own ebest erbest st : exists r, recommended_state own ebest erbest st = Ok r.
Proof. destruct (decision_refines_fig33 own ebest erbest st) as (r & H & _). eauto. Qed.

Lemma compare_d0_total d0 ob : exists c, compare_d0_best d0 ob = Ok c.
Proof. unfold compare_d0_best. destruct ob; [rewrite compare_refines_spec; cbn [obind]|]; eauto. Qed.

(** S1 is recommended only to the port whose own Erbest is the global Ebest *)
Lemma recommended_RS1 own ebest erbest st h a :
  recommended_state own ebest erbest st = Ok (Some (RS1 h a)) ->
  exists g pb, ebest = Some g /\ erbest = Some pb /\ best_eqb g pb = true /\ a = b_ann g /\ h = b_header g.
Proof.
  unfold recommended_state.
  assert (Hmain :
    (if (1 <=? cq_class (dd_quality own)) && (cq_class (dd_quality own) <=? 127)
     then let! c := compare_d0_best (cmp_from_own own) erbest in
          Ok (Some match c with MCWorse p => RP1 (b_header p) (b_ann p) | _ => RM1 own end)
     else let! c := compare_d0_best (cmp_from_own own) ebest in
          match c with
          | MCWorse g => match erbest with
                         | Some p => let! r := compare_global_and_port g p in Ok (Some r)
                         | None => Ok (Some (RM3 (b_header g) (b_ann g)))
                         end
          | _ => Ok (Some (RM2 own))
          end) = Ok (Some (RS1 h a)) ->
    exists g pb, ebest = Some g /\ erbest = Some pb /\ best_eqb g pb = true /\ a = b_ann g /\ h = b_header g).
  { destruct (_ && _).
    - destruct (compare_d0_total (cmp_from_own own) erbest) as [c ->]. cbn [obind].
      destruct c; intros H; discriminate.
    - unfold compare_d0_best. destruct ebest as [g|]; cbn [obind]; [|intros H; discriminate].
      rewrite compare_refines_spec. cbn [obind].
      destruct (as_ordering _); try (intros H; discriminate).
      destruct erbest as [pb|]; [|intros H; discriminate].
      unfold compare_global_and_port. destruct (best_eqb g pb) eqn:Eb; cbn [obind].
      + intros H. inversion H; subst. exists g, pb. repeat split; auto.
      + rewrite compare_refines_spec. cbn [obind]. destruct (ord_of_spec _); intros H; discriminate. }
  destruct erbest as [pb|]; destruct st; try exact Hmain; intros H; discriminate.
Qed.

(** M1 / M2 are recommended with the instance's own defaultDS *)
Lemma recommended_RM own ebest erbest st d0 :
  (recommended_state own ebest erbest st = Ok (Some (RM1 d0)) \/
   recommended_state own ebest erbest st = Ok (Some (RM2 d0))) -> d0 = own.
Proof.
  unfold recommended_state.
  assert (Hmain : forall X : outcome (option recommended),
    X = (if (1 <=? cq_class (dd_quality own)) && (cq_class (dd_quality own) <=? 127)
     then let! c := compare_d0_best (cmp_from_own own) erbest in
          Ok (Some match c with MCWorse p => RP1 (b_header p) (b_ann p) | _ => RM1 own end)
     else let! c := compare_d0_best (cmp_from_own own) ebest in
          match c with
          | MCWorse g => match erbest with
                         | Some p => let! r := compare_global_and_port g p in Ok (Some r)
                         | None => Ok (Some (RM3 (b_header g) (b_ann g)))
                         end
          | _ => Ok (Some (RM2 own))
          end) -> (X = Ok (Some (RM1 d0)) \/ X = Ok (Some (RM2 d0))) -> d0 = own).
  { intros X ->. destruct (_ && _).
    - destruct (compare_d0_best _ erbest) as [c|]; cbn [obind]; [|intros [H|H]; discriminate].
      destruct c; intros [H|H]; inversion H; reflexivity.
    - destruct (compare_d0_best _ ebest) as [c|]; cbn [obind]; [|intros [H|H]; discriminate].
      destruct c; try (intros [H|H]; inversion H; reflexivity).
      destruct erbest as [pb|]; [|intros [H|H]; discriminate].
      unfold compare_global_and_port. destruct (best_eqb b pb); cbn [obind]; [intros [H|H]; discriminate|].
      destruct (ds_compare _ _) as [o|]; cbn [obind]; [|intros [H|H]; discriminate].
      destruct o; intros [H|H]; discriminate. }
  destruct erbest as [pb|]; destruct st; intros H; try (eapply Hmain; [reflexivity|exact H]);
    destruct H as [H|H]; discriminate.
Qed.

Lemma best_eqb_identity g pb : best_eqb g pb = true -> b_identity g = b_identity pb.
Proof.
  unfold best_eqb. intros H. apply andb_true_iff in H as [_ H]. apply pi_eqb_eq. exact H.
Qed.

(** * Applying a recommendation to one port *)
Definition rs_ok (b : bport) (rs : recommended) : Prop :=
  match rs with
  | RS1 h a => pc_master_only (p_config (bp_port b)) = false /\ wf_header h /\ wf_ann a /\ an_steps_removed a < 255
  | RM1 d0 | RM2 d0 => dd_wfb d0 = true
  | _ => True
  end.

Lemma bport_ok_with b p' side pend :
  bport_ok b -> port_inv p' -> p_identity p' = p_identity (bp_port b) -> bport_ok (mkBP p' (bp_best b) pend side).
Proof.
  intros [Hp Hb] Hp' Hid. split; cbn [bp_port bp_best]; [exact Hp'|]. intros m Hm. rewrite Hid. apply Hb. exact Hm.
Qed.

Definition port_res (b : bport) (rs : recommended) (dd : default_ds) (b' : bport) : Prop :=
  bport_ok b' /\ same_id (bp_port b) (bp_port b') /\
  (is_slave (p_state (bp_port b')) = true -> is_RS1 rs = true) /\
  (dd_slave_only dd = true -> is_master (p_state (bp_port b')) = false).

Section PortState.
  Variable b : bport.
  Hypothesis Hb : bport_ok b.

  Lemma force_ok s pend side :
    pstate_ok s -> (pc_master_only (p_config (bp_port b)) = true -> is_slave s = false) ->
    bport_ok (mkBP (port_with_state (bp_port b) s) (bp_best b) pend side).
  Proof.
    intros Hs Hm. apply bport_ok_with; [exact Hb| |reflexivity]. apply port_inv_state; [apply Hb|assumption..].
  Qed.

  Lemma force_draw_ok s pend side :
    pstate_ok s -> (pc_master_only (p_config (bp_port b)) = true -> is_slave s = false) ->
    bport_ok (mkBP (snd (draw (port_with_state (bp_port b) s))) (bp_best b) pend side).
  Proof.
    intros Hs Hm. apply bport_ok_with; [exact Hb| |].
    - apply port_inv_draw. apply port_inv_state; [apply Hb|assumption..].
    - destruct (pres_draw (port_with_state (bp_port b) s)) as (A & _). rewrite A. reflexivity.
  Qed.

  Lemma draw_same_id s : same_id (bp_port b) (snd (draw (port_with_state (bp_port b) s))).
  Proof. destruct (pres_draw (port_with_state (bp_port b) s)) as (A & B & _). split; [rewrite A|rewrite B]; reflexivity. Qed.

  Lemma draw_state (p : port) : p_state (snd (draw p)) = p_state p.
  Proof. unfold draw. destruct (p_rng p); reflexivity. Qed.

  Lemma keep_ok rs dd :
    (is_slave (p_state (bp_port b)) = true -> is_RS1 rs = true) ->
    (dd_slave_only dd = true -> is_master (p_state (bp_port b)) = false) ->
    exists b', Ok b = Ok b' /\ port_res b rs dd b'.
  Proof. intros H1 H2. exists b. split; [reflexivity|]. split; [exact Hb|]. split; [apply same_id_refl|]. split; assumption. Qed.

  Lemma rm_ok rs dd d0 : is_RS1 rs = false ->
    exists b', set_recommended_port_state b (RM1 d0) dd = Ok b' /\ port_res b rs dd b'.
  Proof.
    intros Hrs. unfold set_recommended_port_state.
    destruct (dd_slave_only dd) eqn:Eso.
    - destruct (p_state (bp_port b)) eqn:Est.
      1,2: apply keep_ok; rewrite Est; [discriminate|reflexivity].
      all: unfold set_forced; cbn [fst snd];
        match goal with |- context [draw ?x] =>
          pose proof (force_draw_ok PListening) as HF; pose proof (draw_same_id PListening) as HS;
          pose proof (draw_state x) as HT; destruct (draw x) as [k p2] end;
        cbn [snd] in *; eexists; (split; [reflexivity|]); (split; [apply HF; [exact I|reflexivity]|]);
        (split; [exact HS|]); cbn [bp_port]; rewrite HT; split; [discriminate|reflexivity].
    - destruct (p_multiport_disable (bp_port b)).
      + destruct (is_passive (p_state (bp_port b)) || is_faulty (p_state (bp_port b))) eqn:Epas.
        * apply keep_ok; [destruct (p_state (bp_port b)); discriminate|congruence].
        * unfold set_forced; cbn [fst snd]. eexists. split; [reflexivity|]. split; [apply force_ok; [exact I|reflexivity]|].
          split; [split; reflexivity|]. cbn. split; [discriminate|congruence].
      + destruct (p_state (bp_port b)) eqn:Est.
        1,3: apply keep_ok; rewrite Est; [discriminate|congruence].
        all: unfold set_forced; cbn [fst snd]; eexists; (split; [reflexivity|]); (split; [apply force_ok; [exact I|reflexivity]|]);
          (split; [split; reflexivity|]); cbn; split; [discriminate|congruence].
  Qed.

  Lemma rp_ok rs dd h a : is_RS1 rs = false ->
    exists b', set_recommended_port_state b (RP1 h a) dd = Ok b' /\ port_res b rs dd b'.
  Proof.
    intros Hrs. unfold set_recommended_port_state.
    destruct (p_state (bp_port b)) eqn:Est.
    1,4: apply keep_ok; rewrite Est; [discriminate|reflexivity].
    all: unfold set_forced; cbn [fst snd]; eexists; (split; [reflexivity|]); (split; [apply force_ok; [exact I|reflexivity]|]);
      (split; [split; reflexivity|]); cbn; split; [discriminate|reflexivity].
  Qed.

  Lemma rs_ok_port dd h a :
    pc_master_only (p_config (bp_port b)) = false ->
    exists b', set_recommended_port_state b (RS1 h a) dd = Ok b' /\ port_res b (RS1 h a) dd b'.
  Proof.
    intros Hmo. unfold set_recommended_port_state. rewrite Hmo.
    assert (Hupd : exists b', (let '(p1, o) := set_forced (bp_port b) (PSlave (mkSS (h_source h) MEmpty MEmpty None)) in
                   let '(k, p2) := draw p1 in
                   Ok (mkBP p2 (bp_best b)
                         [AResetAnnounceReceiptTimer (announce_duration_ns (p_config (bp_port b)) k); AResetDelayRequestTimer 0]
                         (bp_side b ++ o))) = Ok b' /\ port_res b (RS1 h a) dd b').
    { unfold set_forced; cbn [fst snd].
      set (s := PSlave (mkSS (h_source h) MEmpty MEmpty None)).
      pose proof (force_draw_ok s) as HF; pose proof (draw_same_id s) as HS.
      pose proof (draw_state (port_with_state (bp_port b) s)) as HT.
      destruct (draw (port_with_state (bp_port b) s)) as [k p2]. cbn [snd] in *.
      eexists; split; [reflexivity|]. split; [apply HF; [cbn; repeat split; exact I|intros H; congruence]|].
      split; [exact HS|]. split; [reflexivity|]. intros _. cbn [bp_port]. rewrite HT. reflexivity. }
    destruct (p_state (bp_port b)) as [| | | |st] eqn:Est; try exact Hupd.
    - apply keep_ok; rewrite Est; [discriminate|reflexivity].
    - destruct (negb (pi_eqb (ss_remote st) (h_source h))); [exact Hupd|].
      apply keep_ok; rewrite Est; reflexivity.
  Qed.
End PortState.

Lemma set_recommended_port_state_ok b rs dd :
  bport_ok b -> rs_ok b rs ->
  exists b', set_recommended_port_state b rs dd = Ok b' /\ port_res b rs dd b'.
Proof.
  intros Hb Hrs. destruct rs as [d0|d0|h a|h a|h a|h a].
  - exact (rm_ok b Hb (RM1 d0) dd d0 eq_refl).
  - exact (rm_ok b Hb (RM2 d0) dd d0 eq_refl).
  - exact (rm_ok b Hb (RM3 h a) dd dd eq_refl).
  - exact (rp_ok b Hb (RP1 h a) dd h a eq_refl).
  - exact (rp_ok b Hb (RP2 h a) dd h a eq_refl).
  - apply rs_ok_port; [exact Hb|apply Hrs].
Qed.

(** * Port state, then data sets *)
Lemma own_pd_wfb dd : dd_wfb dd = true ->
  pd_wfb (mkPD (mkPI (dd_clock_identity dd) 0) (dd_clock_identity dd) (dd_quality dd) (dd_prio1 dd) (dd_prio2 dd)) = true.
Proof.
  unfold dd_wfb, pd_wfb. cbn [pd_parent pd_gm_identity pd_gm_quality pd_gm_prio1 pd_gm_prio2 pi_clock pi_port].
  intros H. apply andb_true_iff in H as [H _]. apply andb_true_iff in H as [H _].
  apply andb_true_iff in H as [H H2]. apply andb_true_iff in H as [H H1]. apply andb_true_iff in H as [H Hq].
  rewrite H, Hq, H1, H2. reflexivity.
Qed.

Lemma set_recommended_state_ok b rs d :
  bport_ok b -> rs_ok b rs -> ds_inv d ->
  exists b' d', set_recommended_state b rs d = Ok (b', d') /\ bport_ok b' /\ same_id (bp_port b) (bp_port b') /\
    (is_slave (p_state (bp_port b')) = true -> is_RS1 rs = true) /\ ds_good d d' /\
    (dd_slave_only (ds_default d) = true -> is_master (p_state (bp_port b')) = false).
Proof.
  intros Hb Hrs Hd. unfold set_recommended_state.
  destruct (set_recommended_port_state_ok b rs (ds_default d) Hb Hrs) as (b1 & -> & Hb1 & Hid & Hsl & Hma).
  cbn [obind].
  assert (Hm : forall d0, dd_wfb d0 = true ->
     ds_good d (ds_with d 0 (mkPD (mkPI (dd_clock_identity d0) 0) (dd_clock_identity d0) (dd_quality d0)
                                  (dd_prio1 d0) (dd_prio2 d0)) [] (mkTP None 0 false false true 160))).
  { intros d0 H0. split; [|reflexivity]. apply ds_with_inv; try reflexivity; [exact Hd|apply own_pd_wfb; exact H0|cbn; lia]. }
  destruct rs as [d0|d0|h a|h a|h a|h a]; cbn [is_RS1 rs_ok] in *.
  1,2: destruct (dd_slave_only (ds_default d)) eqn:Eso; cbn [andb];
       try rewrite (Hma eq_refl); eexists; eexists; (split; [reflexivity|]);
       (split; [exact Hb1|]); (split; [exact Hid|]); (split; [exact Hsl|]); (split; [apply Hm; exact Hrs|exact Hma]).
  1-3: eexists; eexists; (split; [reflexivity|]); (split; [exact Hb1|]); (split; [exact Hid|]); (split; [exact Hsl|]);
       (split; [apply ds_good_refl; exact Hd|exact Hma]).
  destruct Hrs as (Hmo & Hwh & Hwa & Hsteps). destruct Hid as [Hid Hcfg]. rewrite Hcfg, Hmo.
  assert (H0 : 0 <= an_steps_removed a) by apply Hwa.
  rewrite chk_u_ok by (change (2 ^ 16) with 65536; lia). cbn [obind].
  eexists; eexists. split; [reflexivity|]. split; [|split; [split; assumption|split; [reflexivity|split; [|exact Hma]]]].
  - destruct Hb1 as [A B]. split; assumption.
  - split; [|reflexivity]. destruct Hd as [Hl Hw]. apply ds_with_inv.
    + split; assumption.
    + apply u_ok_iff. change (2 ^ 16) with 65536. lia.
    + apply ann_pd_wfb; assumption.
    + exact Hl.
    + unfold ds_wfb in Hw. apply andb_true_iff in Hw as [Hw _]. apply andb_true_iff in Hw as [_ Hw]. exact Hw.
    + apply ann_tp_wfb. exact Hwa.
Qed.

Lemma ds_good_trans a b c : ds_good a b -> ds_good b c -> ds_good a c.
Proof. intros [A1 A2] [B1 B2]. split; [exact B1|congruence]. Qed.

Lemma recommended_None own ebest erbest st :
  recommended_state own ebest erbest st = Ok None -> st = PListening.
Proof.
  unfold recommended_state.
  assert (Hmain : forall X : outcome (option recommended),
    X = (if (1 <=? cq_class (dd_quality own)) && (cq_class (dd_quality own) <=? 127)
     then let! c := compare_d0_best (cmp_from_own own) erbest in
          Ok (Some match c with MCWorse p => RP1 (b_header p) (b_ann p) | _ => RM1 own end)
     else let! c := compare_d0_best (cmp_from_own own) ebest in
          match c with
          | MCWorse g => match erbest with
                         | Some p => let! r := compare_global_and_port g p in Ok (Some r)
                         | None => Ok (Some (RM3 (b_header g) (b_ann g)))
                         end
          | _ => Ok (Some (RM2 own))
          end) -> X <> Ok None).
  { intros X ->. destruct (_ && _).
    - destruct (compare_d0_best _ erbest); cbn [obind]; discriminate.
    - destruct (compare_d0_best _ ebest) as [c|]; cbn [obind]; [|discriminate].
      destruct c; try discriminate. destruct erbest; [|discriminate].
      destruct (compare_global_and_port _ _); cbn [obind]; discriminate. }
  destruct erbest as [pb|]; destruct st; intros H; try reflexivity; exfalso; eapply Hmain; try exact H; reflexivity.
Qed.

Section Decide.
  Variable ebest : option best_msg.
  Variable so : bool.
  Hypothesis Heb : forall g, ebest = Some g -> best_wf g.

  Definition todo_ok (b : bport) : Prop :=
    bport_ok b /\
    (forall g, ebest = Some g -> b_identity g = p_identity (bp_port b) ->
               pc_master_only (p_config (bp_port b)) = false) /\
    (forall g, ebest = Some g -> b_identity g = p_identity (bp_port b) ->
               is_faulty (p_state (bp_port b)) = false) /\
    bp_side b = [] /\ bp_pending b = [].

  Definition decided (b b' : bport) : Prop :=
    bport_ok b' /\ same_id (bp_port b) (bp_port b') /\
    (is_slave (p_state (bp_port b')) = true ->
     exists g, ebest = Some g /\ b_identity g = p_identity (bp_port b)) /\
    (so = true -> is_master (p_state (bp_port b')) = false) /\
    bquiet b'.

  Lemma bmca_decide_ok : forall todo done d,
    Forall todo_ok todo -> ds_inv d -> dd_slave_only (ds_default d) = so ->
    exists done' d', bmca_decide ebest d todo done = Ok (done ++ done', d')
                     /\ Forall2 decided todo done' /\ ds_good d d'.
  Proof.
    induction todo as [|b todo IH]; intros done d Htodo Hd Hso; cbn [bmca_decide].
    - exists [], d. rewrite app_nil_r. split; [reflexivity|]. split; [constructor|apply ds_good_refl; exact Hd].
    - inversion Htodo as [|? ? (Hb & Hmo & Hnf & Hside & Hpend) Hrest]; subst.
      destruct (recommended_total (ds_default d) ebest (bp_best b) (p_state (bp_port b))) as [r Er].
      rewrite Er. cbn [obind]. destruct r as [rs|].
      + assert (Hrs : rs_ok b rs /\ (is_RS1 rs = true -> exists g, ebest = Some g /\ b_identity g = p_identity (bp_port b))).
        { assert (Hdd : dd_wfb (ds_default d) = true).
          { destruct Hd as [_ Hw]. unfold ds_wfb in Hw. do 4 (apply andb_true_iff in Hw as [Hw _]). exact Hw. }
          destruct rs as [d0|d0|h a|h a|h a|h a]; cbn [rs_ok is_RS1]; try (split; [exact I|discriminate]).
          - rewrite (recommended_RM _ _ _ _ d0 (or_introl Er)). split; [exact Hdd|discriminate].
          - rewrite (recommended_RM _ _ _ _ d0 (or_intror Er)). split; [exact Hdd|discriminate].
          - destruct (recommended_RS1 _ _ _ _ _ _ Er) as (g & pb & Hg & Hpb & Heq & Ha & Hh).
            assert (Hidg : b_identity g = p_identity (bp_port b)).
            { rewrite (best_eqb_identity _ _ Heq). apply Hb. exact Hpb. }
            split; [|intros _; eauto]. split; [eapply Hmo; eauto|]. subst a h. apply Heb. exact Hg. }
        destruct Hrs as [Hrs HS1].
        destruct (set_recommended_state_ok b rs d Hb Hrs Hd) as (b' & d' & Hset & Hb' & Hid & Hsl & Hdd & Hma).
        rewrite Hset.
        cbn [obind fst snd].
        destruct (IH (done ++ [b']) d' Hrest (proj1 Hdd)) as (done' & d'' & -> & Hdone & Hdd').
        { rewrite (proj2 Hdd). exact Hso. }
        exists (b' :: done'), d''. rewrite <- app_assoc. split; [reflexivity|].
        split; [|eapply ds_good_trans; eauto].
        constructor; [|exact Hdone]. split; [exact Hb'|]. split; [exact Hid|]. split; [|split].
        * intros H. apply HS1. apply Hsl. exact H.
        * intros H. apply Hma. rewrite Hso. exact H.
        * eapply set_recommended_state_quiet; [exact Hside|exact Hpend| |exact Hset].
          intros H. destruct (HS1 H) as (g & Hg & Hgid). eapply Hnf; eauto.
      + apply recommended_None in Er.
        destruct (IH (done ++ [b]) d Hrest Hd Hso) as (done' & d'' & -> & Hdone & Hdd').
        exists (b :: done'), d''. rewrite <- app_assoc. split; [reflexivity|]. split; [|exact Hdd'].
        constructor; [|exact Hdone]. split; [exact Hb|]. split; [apply same_id_refl|]. rewrite Er. split; [discriminate|]. split; [reflexivity|].
        unfold bquiet. rewrite Hside, Hpend. split; reflexivity.
  Qed.
End Decide.

(** * Ageing *)
Lemma step_announce_age_ok step p :
  port_inv p -> exists p', step_announce_age step p = Ok p' /\ port_inv p' /\ same_id p p' /\ p_state p' = p_state p.
Proof.
  intros Hp. unfold step_announce_age.
  assert (Hiv : exists iv, dur_from_log_interval (pc_log_announce (p_config p)) = Ok iv).
  { destruct Hp as ((H & _) & _). unfold dur_from_log_interval.
    assert (E : 0 <=? pc_log_announce (p_config p) + 41 = true) by lia. rewrite E.
    assert (H1 : 0 < 2 ^ (pc_log_announce (p_config p) + 41) <= 2 ^ 48).
    { split; [apply Z.pow_pos_nonneg; lia|apply Z.pow_le_mono_r; lia]. }
    change (2 ^ 48) with 281474976710656 in H1.
    rewrite (chk_i_ok _ 128) by (pv; lia). eauto. }
  destruct Hiv as [iv Hiv]. rewrite Hiv. cbn [obind]. eexists. split; [reflexivity|].
  set (p1 := match p_multiport_disable p with Some age => _ | None => p end).
  assert (Hp1 : port_inv p1 /\ same_id p p1 /\ p_state p1 = p_state p /\ p_fml p1 = p_fml p).
  { unfold p1. destruct (p_multiport_disable p).
    - split; [apply port_inv_multiport; exact Hp|]. split; [split; reflexivity|split; reflexivity].
    - split; [exact Hp|]. split; [split; reflexivity|split; reflexivity]. }
  destruct Hp1 as (A & B & C & D). split; [|split; [exact B|exact C]].
  apply fml_register_inv; [exact A|]. destruct A as (_ & _ & _ & _ & [Hw Hn] & _).
  split; [apply fml_step_age_wf; exact Hw|apply fml_step_age_nn; exact Hn].
Qed.

(** * The whole pass *)
Lemma ids_distinct clock l n m p q :
  ids_ok clock l -> nth_error l n = Some p -> nth_error l m = Some q -> p_identity p = p_identity q -> n = m.
Proof.
  intros H Hn Hm Heq. rewrite (H n p Hn), (H m q Hm) in Heq. injection Heq as Heq. lia.
Qed.

Lemma count_zero {A} (f : A -> bool) l : (forall y, In y l -> f y = false) -> count f l = 0%nat.
Proof.
  unfold count. induction l as [|x l IH]; intros H; cbn; [reflexivity|].
  rewrite (H x (or_introl eq_refl)). apply IH. intros y Hy. apply H. right. exact Hy.
Qed.

Lemma count_le_1 {A} (f : A -> bool) l :
  (forall n m x y, nth_error l n = Some x -> nth_error l m = Some y -> f x = true -> f y = true -> n = m) ->
  (count f l <= 1)%nat.
Proof.
  induction l as [|x l IH]; intros H; [unfold count; cbn; lia|].
  unfold count in *. cbn [filter]. destruct (f x) eqn:Ex.
  - cbn [length]. fold (count f l). rewrite count_zero; [lia|].
    intros y Hy. destruct (f y) eqn:Ey; [|reflexivity].
    apply In_nth_error in Hy. destruct Hy as [k Hk].
    specialize (H 0%nat (S k) x y eq_refl Hk Ex Ey). discriminate.
  - apply IH. intros n m a b Hn Hm Ha Hb. specialize (H (S n) (S m) a b Hn Hm Ha Hb). lia.
Qed.

Theorem bmca_ok i : inst_inv i ->
  exists i' o, bmca i = Ok (i', o) /\ inst_inv i' /\ ds_default (i_ds i') = ds_default (i_ds i) /\
               (dd_slave_only (ds_default (i_ds i)) = true -> no_master (i_ports i')) /\
               cfgs_of i' = cfgs_of i /\
               exists bps1, o = [(-1, wr_lock)] ++ tag_ports 0 bps1 bp_side ++ tag_ports 0 bps1 bp_pending /\
                            Forall2 (fun b p' => bquiet b /\ p_state p' = p_state (bp_port b)) bps1 (i_ports i').
Proof.
  intros (Hports & Hds & Hids & Hnum & Hlen & Hlog & Hsl). unfold bmca.
  destruct (bmca_interval_ok _ Hlog) as [step ->]. cbn [obind].
  rewrite Hnum, Z.eqb_refl. cbn [negb].
  (* local bests *)
  destruct (omap_list_ok calc_local_best port_inv
              (fun p b => bport_ok b /\ pres p (bp_port b) /\ bp_side b = [] /\ bp_pending b = [] /\
                          p_state (bp_port b) = p_state p) (i_ports i)) as (bps & -> & Hbps); [|exact Hports|].
  { intros p Hp. destruct (calc_local_best_ok p Hp) as (b & E & A & B & C & D & F). eauto 10. }
  cbn [obind].
  set (cands := flat_map (fun b => opt_list (best_for_bmca b)) bps).
  destruct (find_best_total cands) as [ebest Eb]. rewrite Eb. cbn [obind].
  (* where Ebest comes from *)
  assert (Hsrc : forall g, ebest = Some g ->
            exists m b0, nth_error bps m = Some b0 /\ bp_best b0 = Some g /\
                         pc_master_only (p_config (bp_port b0)) = false /\
                         is_faulty (p_state (bp_port b0)) = false).
  { intros g ->. apply find_best_in in Eb. unfold cands in Eb. apply in_flat_map in Eb.
    destruct Eb as (b0 & Hin & Hg). unfold best_for_bmca in Hg.
    destruct (pc_master_only (p_config (bp_port b0))) eqn:Emo; cbn [orb] in Hg; [destruct Hg|].
    destruct (is_faulty _) eqn:Efa; [destruct Hg|]. destruct (bp_best b0) as [g'|] eqn:Eg; [|destruct Hg].
    destruct Hg as [<-|[]]. apply In_nth_error in Hin. destruct Hin as [m Hm]. eauto 10. }
  assert (Hbid : forall n b, nth_error bps n = Some b ->
            bport_ok b /\ p_identity (bp_port b) = mkPI (dd_clock_identity (ds_default (i_ds i))) (Z.of_nat n + 1)).
  { intros n b Hn. destruct (Forall2_nth _ _ _ _ _ Hbps Hn) as (p & Hp & Hb & [Hid _] & _).
    split; [exact Hb|]. rewrite Hid. apply Hids. exact Hp. }
  assert (Heb : forall g, ebest = Some g -> best_wf g).
  { intros g Hg. destruct (Hsrc g Hg) as (m & b0 & Hm & Hbest & _ & _).
    destruct (Hbid m b0 Hm) as [[_ Hb0] _]. apply Hb0. exact Hbest. }
  assert (Htodo : Forall (todo_ok ebest) bps).
  { apply Forall_forall. intros b Hin. apply In_nth_error in Hin. destruct Hin as [n Hn].
    destruct (Hbid n b Hn) as [Hb Hidn].
    assert (Hsame : forall g, ebest = Some g -> b_identity g = p_identity (bp_port b) ->
              pc_master_only (p_config (bp_port b)) = false /\ is_faulty (p_state (bp_port b)) = false).
    { intros g Hg Hidg. destruct (Hsrc g Hg) as (m & b0 & Hm & Hbest & Hmo & Hfa).
      destruct (Hbid m b0 Hm) as [[_ Hb0] Hidm]. destruct (Hb0 g Hbest) as [Hgid _].
      assert (n = m).
      { rewrite Hidg, Hidn in Hgid. rewrite Hidm in Hgid. injection Hgid as Hgid. lia. }
      subst m. rewrite Hm in Hn. inversion Hn; subst. split; assumption. }
    destruct (Forall2_nth _ _ _ _ _ Hbps Hn) as (p0 & _ & _ & _ & Hsd & Hpn & _).
    split; [exact Hb|]. split; [intros g Hg Hi; apply (Hsame g Hg Hi)|]. split; [intros g Hg Hi; apply (Hsame g Hg Hi)|].
    split; assumption. }
  destruct (bmca_decide_ok ebest _ Heb bps [] (i_ds i) Htodo Hds eq_refl) as (bps1 & d1 & -> & Hdec & Hdd).
  cbn [obind app].
  destruct (omap_list_ok (fun b => step_announce_age step (bp_port b)) bport_ok
              (fun b p' => port_inv p' /\ same_id (bp_port b) p' /\ p_state p' = p_state (bp_port b)) bps1)
    as (ports & -> & Hage).
  { intros b Hb. apply step_announce_age_ok. apply Hb. }
  { eapply Forall2_Forall_r; [exact Hdec|]. intros a b (H & _). exact H. }
  cbn [obind]. eexists; eexists. split; [reflexivity|].
  cut (inst_inv (mkInst d1 (i_log_bmca i) ports) /\
       (dd_slave_only (ds_default (i_ds i)) = true -> no_master ports) /\
       map p_config ports = map p_config (i_ports i)).
  { intros (H1 & H2 & H3). split; [exact H1|]. split; [apply Hdd|]. split; [exact H2|]. split; [exact H3|].
    exists bps1. split; [reflexivity|]. cbn [i_ports].
    clear - Hdec Hage. revert ports Hage. induction Hdec as [|a b la lb (_ & _ & _ & _ & Hq) _ IH]; intros ports Hage;
      inversion Hage as [|? p' ? lp (_ & _ & Hst) Hrest]; subst; constructor; [split; assumption|apply IH; exact Hrest]. }
  (* the composite relation between old and new ports *)
  assert (HT : Forall2 (fun p p' => port_inv p' /\ same_id p p' /\
                          (is_slave (p_state p') = true ->
                           exists g, ebest = Some g /\ b_identity g = p_identity p) /\
                          (dd_slave_only (ds_default (i_ds i)) = true -> is_master (p_state p') = false))
                       (i_ports i) ports).
  { assert (Hmid : Forall2 (fun b p' => port_inv p' /\ same_id (bp_port b) p' /\
                          (is_slave (p_state p') = true ->
                           exists g, ebest = Some g /\ b_identity g = p_identity (bp_port b)) /\
                          (dd_slave_only (ds_default (i_ds i)) = true -> is_master (p_state p') = false)) bps ports).
    { eapply Forall2_comp; [|exact Hdec|exact Hage].
      intros a b c (Hb1 & Hid1 & Hsl1 & Hma1 & _) (Hp' & Hid2 & Hst).
      split; [exact Hp'|]. split; [eapply same_id_trans; eauto|]. split.
      - intros H. rewrite Hst in H. exact (Hsl1 H).
      - intros H. rewrite Hst. exact (Hma1 H). }
    eapply Forall2_comp; [|exact Hbps|exact Hmid].
    intros p b p' (Hb & Hpres & _) (Hp' & Hid2 & Hsl2 & Hma2).
    pose proof (pres_same_id _ _ Hpres) as Hid.
    split; [exact Hp'|]. split; [eapply same_id_trans; eauto|]. split; [|exact Hma2]. intros H.
    destruct (Hsl2 H) as (g & Hg & Hgid). exists g. split; [exact Hg|]. destruct Hid as [Hid _]. congruence. }
  split; [|split].
  2: { intros Hso. eapply Forall2_Forall_r; [exact HT|]. intros a b (_ & _ & _ & H). exact (H Hso). }
  2: { clear - HT. induction HT as [|a b la lb (_ & [_ Hc] & _) _ IH]; cbn; [reflexivity|]. rewrite Hc, IH. reflexivity. }
  unfold inst_inv. cbn [i_ports i_ds i_log_bmca].
  destruct Hdd as [Hd1 Hdef]. rewrite Hdef.
  assert (Hlen' : length ports = length (i_ports i)) by (symmetry; eapply Forall2_len; exact HT).
  split; [eapply Forall2_Forall_r; [exact HT|]; intros a b (H & _); exact H|].
  split; [exact Hd1|].
  split.
  { intros n p' Hn. destruct (Forall2_nth _ _ _ _ _ HT Hn) as (p & Hp & _ & [Hid _] & _). rewrite Hid. apply Hids. exact Hp. }
  split; [rewrite Hlen'; exact Hnum|]. split; [rewrite Hlen'; exact Hlen|]. split; [exact Hlog|].
  unfold nslaves. apply count_le_1. intros n m x y Hn Hm Hx Hy.
  destruct (Forall2_nth _ _ _ _ _ HT Hn) as (p & Hp & _ & _ & Hsx & _).
  destruct (Forall2_nth _ _ _ _ _ HT Hm) as (q & Hq & _ & _ & Hsy & _).
  destruct (Hsx Hx) as (g & Hg & Hgp). destruct (Hsy Hy) as (g' & Hg' & Hgq).
  rewrite Hg in Hg'. injection Hg' as <-.
  eapply ids_distinct; [exact Hids|exact Hp|exact Hq|congruence].
Qed.
