(** C10 on the model, whole histories (frame part of ok_C10): every frame the
    model emits, in every history, decodes under the modelled parser, carries
    the emitting port's identity and the instance's domain / sdoId, has exactly
    its declared size within the packet buffer and goes out on the channel
    (event / general) of its message type. *)
From SV Require Export Port.MainC08Role Port.OracleC10.

(** the frame conjunct of step_C10, for all ports of one call *)
Definition frames_C10 (c : pcase) (prev : snapshot) (o : list tobs) : bool :=
  forallb (fun p => forallb (frame_ok c (sn_ds prev) p) (sent_frames (obs_of_port o p))) (all_ports c).

Fixpoint walk_frames (c : pcase) (prev : snapshot) (rs : list step_result) : bool :=
  match rs with
  | SROk o sn :: rs' => frames_C10 c prev o && walk_frames c sn rs'
  | _ => true
  end.
Definition ok_C10_frames (c : pcase) : bool := walk_frames c (init_snap c) (pc_trace c).

Lemma frame_ok_of c p d q x :
  frame_role p d x -> p_identity p = port_id c q -> frame_ok c d q x = true.
Proof.
  intros (m & Hd & _ & _ & Henc & Hsrc & Hdom & Hsdo & Hsz & Hch & _) Hid. unfold frame_ok, decoded. rewrite Hd.
  rewrite Hsrc, Hid, Hdom, Hsdo. unfold pi_eqb. rewrite !Z.eqb_refl. cbn [andb].
  assert (Hlen : blen (snd x) = wire_size m).
  { rewrite Henc. apply encode_raw_length. }
  rewrite Hlen, Z.eqb_refl. assert (Hle : (wire_size m <=? MAX_DATA_LEN) = true) by lia. rewrite Hle.
  rewrite Hch. destruct (is_event_frame_type _); reflexivity.
Qed.

(** every frame of a model step comes with its facts *)
Definition frames_known (i : instance) (o : list tobs) : Prop :=
  forall q x, In x (sent_frames (obs_of_port o q)) ->
    exists p, nth_error (i_ports i) q = Some p /\ frame_role p (i_ds i) x.

Lemma on_port_frames i n f i' o :
  on_port i n f = Ok (i', o) ->
  (forall p p' d' oo, nth_error (i_ports i) n = Some p -> f p (i_ds i) = Ok (p', d', oo) -> acts_in_role p (i_ds i) oo) ->
  frames_known i o.
Proof.
  unfold on_port, frames_known. intros H Hf q x Hx. destruct (nth_error (i_ports i) n) as [p|] eqn:En in H.
  - destruct (f p (i_ds i)) as [[[p' d'] oo]|?] eqn:E; cbn [obind] in H; [|discriminate].
    inversion H; subst. destruct (Nat.eq_dec q n) as [->|Hne].
    + rewrite obs_of_port_tag_same, sent_frames_filter in Hx. exists p. split; [first [reflexivity|exact En]|].
      destruct (Hf _ _ _ _ En E) as [Hfr _]. unfold frames_role in Hfr. rewrite Forall_forall in Hfr. apply Hfr. exact Hx.
    + rewrite obs_of_port_tag_other in Hx by exact Hne. destruct Hx.
  - inversion H; subst. destruct Hx.
Qed.

Lemma bmca_no_frames i i' o : inst_inv i -> bmca i = Ok (i', o) -> forall q, sent_frames (obs_of_port o q) = [].
Proof.
  intros Hi Hb q.
  destruct (bmca_ok i Hi) as (i2 & o2 & Hb2 & _ & _ & _ & _ & bps1 & Ho & Hq).
  rewrite Hb in Hb2. injection Hb2 as E1 E2. subst i2 o2. rewrite Ho.
  rewrite !obs_of_port_app.
  assert (Hw : obs_of_port [(-1, wr_lock)] q = []).
  { unfold obs_of_port. cbn [filter fst]. destruct (-1 =? Z.of_nat q) eqn:E; [lia|reflexivity]. }
  rewrite Hw. cbn [app]. rewrite !obs_of_port_tag_ports. rewrite Nat.sub_0_r. cbn [Nat.leb].
  destruct (nth_error bps1 q) as [b|] eqn:Eb; [|reflexivity].
  assert (Hbq : bquiet b).
  { clear - Hq Eb. revert q Eb. induction Hq as [|y z ly lz Hyz _ IH]; intros [|q] Eb; cbn in *; try discriminate.
    - inversion Eb; subst. apply Hyz.
    - eapply IH; eauto. }
  destruct Hbq as [Q1 Q2].
  assert (Hns : forall l sl, forallb (bobs_ok sl) l = true -> sent_frames (filter (fun y => negb (is_lock y)) l) = []).
  { intros l sl Hl. rewrite sent_frames_filter. unfold sent_frames. induction l as [|y l IH]; cbn [flat_map]; [reflexivity|].
    cbn [forallb] in Hl. apply andb_true_iff in Hl as [Hy Hl]. rewrite (IH Hl). destruct y; try reflexivity; discriminate. }
  unfold sent_frames. rewrite flat_map_app. fold (sent_frames (filter (fun y => negb (is_lock y)) (bp_side b))).
  fold (sent_frames (filter (fun y => negb (is_lock y)) (bp_pending b))).
  rewrite (Hns _ _ Q1), (Hns _ _ Q2). reflexivity.
Qed.

Lemma bmca_frames i i' o : inst_inv i -> bmca i = Ok (i', o) -> frames_known i o.
Proof. intros Hi Hb q x Hx. rewrite (bmca_no_frames i i' o Hi Hb q) in Hx. destruct Hx. Qed.

Lemma step_frames i e i' o :
  inst_inv i -> event_valid e -> step i e = Ok (i', o) -> frames_known i o.
Proof.
  intros Hi He Hs.
  assert (Hpd : forall n p, nth_error (i_ports i) n = Some p -> port_inv p /\ ds_inv (i_ds i)).
  { intros n p Hn. destruct Hi as (Hports & Hds & _). split; [|exact Hds].
    rewrite Forall_forall in Hports. apply Hports. eapply nth_error_In; eauto. }
  destruct e; cbn [step event_valid] in *.
  - destruct He as [Hf Hts]. eapply on_port_frames; [exact Hs|]. intros pp pp' dd' oo Hn Hh. cbv beta in Hh.
    destruct (Hpd _ _ Hn). eapply event_receive_in_role; eauto.
  - eapply on_port_frames; [exact Hs|]. intros pp pp' dd' oo Hn Hh. cbv beta in Hh. apply calm_in_role. eapply handle_general_receive_calm; eauto.
  - destruct He as [Hts Hc]. eapply on_port_frames; [exact Hs|]. intros pp pp' dd' oo Hn Hh. cbv beta in Hh.
    destruct (Hpd _ _ Hn). eapply send_timestamp_in_role; eauto.
  - eapply on_port_frames; [exact Hs|]. intros pp pp' dd' oo Hn Hh. cbv beta in Hh. destruct (Hpd _ _ Hn). eapply announce_timer_in_role; eauto.
  - eapply on_port_frames; [exact Hs|]. intros pp pp' dd' oo Hn Hh. cbv beta in Hh. destruct (Hpd _ _ Hn). eapply sync_timer_in_role; eauto.
  - eapply on_port_frames; [exact Hs|]. intros pp pp' dd' oo Hn Hh. cbv beta in Hh. destruct (Hpd _ _ Hn). eapply delay_timer_in_role; eauto.
  - eapply on_port_frames; [exact Hs|]. intros pp pp' dd' oo Hn Hh. cbv beta in Hh. apply calm_in_role. eapply receipt_timer_calm; eauto.
  - eapply on_port_frames; [exact Hs|]. intros pp pp' dd' oo Hn Hh. cbv beta in Hh. apply calm_in_role.
    unfold handle_filter_update_timer, ret in Hh. inversion Hh; subst. reflexivity.
  - apply (bmca_frames i i' o); assumption.
  - inversion Hs; subst. intros k x Hx. unfold obs_of_port in Hx. cbn [filter fst] in Hx.
    destruct (-1 =? Z.of_nat k) eqn:E; [lia|destruct Hx].
  - inversion Hs; subst. intros k x Hx. unfold obs_of_port in Hx. cbn [filter fst] in Hx.
    destruct (-1 =? Z.of_nat k) eqn:E; [lia|destruct Hx].
  - inversion Hs; subst. intros k x Hx. destruct Hx.
Qed.


(** the clock identity of defaultDS never changes *)
Lemma step_clock_identity i e i' o :
  inst_inv i -> event_valid e -> step i e = Ok (i', o) ->
  dd_clock_identity (ds_default (i_ds i')) = dd_clock_identity (ds_default (i_ds i)).
Proof.
  intros Hi He Hs.
  assert (Hport : forall n f, (forall p d, port_inv p -> ds_inv d -> good_w p d (f p d)) ->
            on_port i n f = Ok (i', o) -> ds_default (i_ds i') = ds_default (i_ds i)).
  { intros n f Hf Hop. destruct (on_port_ok i n f Hi Hf) as (i2 & o2 & Hs2 & _ & _ & Hdef & _).
    rewrite Hop in Hs2. injection Hs2 as <- <-. exact Hdef. }
  destruct e; cbn [step event_valid] in *;
    try (match type of Hs with on_port _ ?n ?f = _ =>
           rewrite (Hport n f); [reflexivity| |exact Hs]; intros pp dd Hpp Hdd; cbv beta end).
  - destruct He as [Hf Hts]. apply good_weaken; apply handle_event_receive_ok; assumption.
  - apply good_weaken; apply handle_general_receive_ok; assumption.
  - apply good_weaken; apply handle_send_timestamp_ok; try assumption; apply He.
  - apply good_weaken; apply send_announce_ok; assumption.
  - apply good_weaken; apply send_sync_ok; assumption.
  - apply good_weaken; apply send_delay_request_ok; assumption.
  - apply handle_announce_receipt_timer_ok; assumption.
  - apply good_weaken; apply handle_filter_update_timer_ok; assumption.
  - destruct (bmca_ok i Hi) as (i2 & o2 & Hs2 & _ & Hdef & _). rewrite Hs in Hs2. injection Hs2 as <- <-. rewrite Hdef. reflexivity.
  - inversion Hs; subst. reflexivity.
  - inversion Hs; subst. reflexivity.
  - inversion Hs; subst. reflexivity.
Qed.

Definition clk_inv (c : pcase) (i : instance) : Prop :=
  dd_clock_identity (ds_default (i_ds i)) = own_clock c.

Lemma frames_C10_model c i e i' o :
  inst_inv i -> clk_inv c i -> length (i_ports i) = nports c -> event_valid e -> step i e = Ok (i', o) ->
  frames_C10 c (snapshot_of i) o = true.
Proof.
  intros Hi Hclk Hlen He Hs. unfold frames_C10. apply forallb_forall. intros q _.
  apply forallb_forall. intros x Hx.
  destruct (step_frames i e i' o Hi He Hs q x Hx) as (p & Hp & Hfr).
  eapply frame_ok_of; [exact Hfr|].
  destruct Hi as (_ & _ & Hids & _). rewrite (Hids q p Hp). unfold port_id. rewrite <- Hclk. reflexivity.
Qed.

Lemma walk_frames_model c : forall es i,
  inst_inv i -> clk_inv c i -> length (i_ports i) = nports c -> Forall event_valid es ->
  walk_frames c (snapshot_of i) (run i es) = true.
Proof.
  induction es as [|e es IH]; intros i Hi Hclk Hlen Hes; cbn [run walk_frames]; [reflexivity|].
  inversion Hes as [|? ? He Hes']; subst.
  destruct (step_ok i e Hi He) as (i' & o & Hs & Hi' & Hcf & _). rewrite Hs. cbn [walk_frames].
  rewrite (frames_C10_model c i e i' o Hi Hclk Hlen He Hs). cbn [andb].
  apply IH; [exact Hi'| | |exact Hes'].
  - unfold clk_inv in *. rewrite (step_clock_identity i e i' o Hi He Hs). exact Hclk.
  - unfold cfgs_of in Hcf. apply (f_equal (@length _)) in Hcf. rewrite !map_length in Hcf. congruence.
Qed.

Lemma add_port_clock i c r i' o : add_port i c r = Ok (i', o) ->
  dd_clock_identity (ds_default (i_ds i')) = dd_clock_identity (ds_default (i_ds i)).
Proof.
  unfold add_port. destruct (chk_u _ _ _); cbn [obind]; [|discriminate].
  destruct (draw _) as [k p1]. destruct (announce_interval_ti _); cbn [obind]; [|discriminate].
  intros H. inversion H; subst. reflexivity.
Qed.
Lemma add_ports_clock ps : forall i acc i' o, add_ports i ps acc = Ok (i', o) ->
  dd_clock_identity (ds_default (i_ds i')) = dd_clock_identity (ds_default (i_ds i)).
Proof.
  induction ps as [|[c r] ps IH]; intros i acc i' o H; cbn [add_ports] in H.
  - inversion H; subst. reflexivity.
  - destruct (add_port i c r) as [[i1 o1]|?] eqn:E; cbn [obind fst snd] in H; [|discriminate].
    rewrite (IH _ _ _ _ H). eapply add_port_clock. exact E.
Qed.

Theorem ok_C10_frames_model s es rel :
  setup_valid s -> Forall event_valid es ->
  exists i o, init s = Ok (i, o) /\ ok_C10_frames (mkCase s es rel (Some o) (run i es)) = true.
Proof.
  intros Hs Hes. destruct (init_ok s Hs) as (i & o & Hi & Hinv & _). exists i, o. split; [exact Hi|].
  unfold ok_C10_frames, init_snap. cbn [pc_setup pc_trace]. rewrite Hi.
  apply walk_frames_model; [exact Hinv| | |exact Hes].
  - unfold clk_inv, own_clock. cbn [pc_setup]. unfold init in Hi. rewrite (add_ports_clock _ _ _ _ _ Hi). reflexivity.
  - unfold nports. cbn [pc_setup]. unfold init in Hi. pose proof (add_ports_cfgs _ _ _ _ _ Hi) as Hc.
    unfold cfgs_of in Hc. apply (f_equal (@length _)) in Hc. rewrite app_length, !map_length in Hc. cbn in Hc. lia.
Qed.

(** the frame conjunct is implied by the full oracle *)
Lemma step_C10_frames c sm prev e o sn sm' :
  step_C10 c sm prev e o sn = Some sm' -> frames_C10 c prev o = true.
Proof.
  unfold step_C10, frames_C10. generalize (all_ports c). intros l. revert sm.
  induction l as [|p l IH]; intros sm H; cbn [fold_left forallb] in *; [reflexivity|].
  destruct (negb (forallb (frame_ok c (sn_ds prev) p) (sent_frames (obs_of_port o p)))) eqn:E1.
  - exfalso. clear - H. induction l as [|q l IHl]; cbn [fold_left] in H; [discriminate|]. apply IHl. exact H.
  - apply negb_false_iff in E1. rewrite E1. cbn [andb].
    match type of H with fold_left _ _ ?X = _ => destruct X as [sm1|] eqn:E2 end.
    + eapply IH. exact H.
    + exfalso. clear - H. induction l as [|q l IHl]; cbn [fold_left] in H; [discriminate|]. apply IHl. exact H.
Qed.

Lemma walk_C10_frames c : forall es rs sm prev,
  walk (step_C10 c) sm prev es rs = true -> walk_frames c prev rs = true.
Proof.
  induction es as [|e es IH]; intros rs sm prev H; destruct rs as [|[o sn|] rs]; cbn [walk walk_frames] in *;
    try reflexivity; try discriminate.
  destruct (step_C10 c sm prev e o sn) as [sm'|] eqn:E; [|discriminate].
  rewrite (step_C10_frames _ _ _ _ _ _ _ E). cbn [andb]. eapply IH. exact H.
Qed.

Theorem ok_C10_implies_frames c : ok_C10 c = true -> ok_C10_frames c = true.
Proof. apply walk_C10_frames. Qed.
