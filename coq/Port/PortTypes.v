(** State of a PTP instance and its ports (model of ptp_instance.rs,
    port/mod.rs, port/state.rs, datastructures/datasets/*.rs) and the
    vocabulary of host events and observations. *)
From SV Require Export Wire.WireImpl Time.TimeModel.

(** * Instance data sets *)
Record default_ds := mkDD {
  dd_clock_identity : Z;
  dd_number_ports : Z;
  dd_quality : clock_quality;
  dd_prio1 : Z;
  dd_prio2 : Z;
  dd_domain : Z;
  dd_slave_only : bool;
  dd_sdo_id : Z
}.

Record parent_ds := mkPD {
  pd_parent : port_identity;
  pd_gm_identity : Z;
  pd_gm_quality : clock_quality;
  pd_gm_prio1 : Z;
  pd_gm_prio2 : Z
}.

(** leap indicator: 0 = NoLeap, 1 = Leap61, 2 = Leap59 *)
Record time_props := mkTP {
  tp_utc_offset : option Z;
  tp_leap : Z;
  tp_time_traceable : bool;
  tp_freq_traceable : bool;
  tp_ptp_timescale : bool;
  tp_time_source : Z
}.

Record inst_ds := mkDS {
  ds_default : default_ds;
  ds_steps_removed : Z;
  ds_parent : parent_ds;
  ds_path : list Z;             (* path trace list of clock identities *)
  ds_path_enable : bool;
  ds_tp : time_props
}.

(** * Port configuration and state *)
Inductive delay_mech := E2E (log_interval : Z) | P2P (log_interval : Z).
Definition dm_interval (d : delay_mech) : Z := match d with E2E i | P2P i => i end.

Record port_config := mkPC {
  pc_acceptable : option (list Z);    (* None = accept any master *)
  pc_delay : delay_mech;
  pc_log_announce : Z;
  pc_receipt_timeout : Z;
  pc_log_sync : Z;
  pc_master_only : bool;
  pc_asymmetry : Z;                   (* Duration bits *)
  pc_minor : Z
}.

Inductive meas_state :=
| MEmpty
| MMeasuring (id : Z) (send recv : option Z).

Record slave_state := mkSS {
  ss_remote : port_identity;
  ss_sync : meas_state;
  ss_delay : meas_state;
  ss_last_raw_sync : option Z
}.

Inductive port_state := PFaulty | PListening | PMaster | PPassive | PSlave (s : slave_state).

(** observable port state code (observability::port::PortState discriminants) *)
Definition port_state_code (s : port_state) : Z :=
  match s with PFaulty => 2 | PListening => 4 | PMaster => 6 | PPassive => 7 | PSlave _ => 9 end.

Inductive peer_state :=
| PDEmpty
| PDMeasuring (id : Z) (responder : option port_identity)
              (req_send req_recv resp_send resp_recv : option Z)
| PDPost (id : Z) (responder : port_identity).

Record foreign_msg := mkFMsg { fm_header : header; fm_ann : announce_body; fm_age : Z }.
Record foreign_master := mkFM { fmr_identity : port_identity; fmr_msgs : list foreign_msg }.

Record best_msg := mkBest {
  b_header : header; b_ann : announce_body; b_age : Z; b_identity : port_identity
}.

(** * Host-visible vocabulary *)
Inductive ts_context :=
| CtxSync (id : Z) | CtxDelayReq (id : Z) | CtxPDelayReq (id : Z)
| CtxPDelayResp (id : Z) (requestor : port_identity).

Record measurement := mkMeas {
  me_event_time : Z;
  me_offset : option Z;
  me_delay : option Z;
  me_peer_delay : option Z;
  me_raw_sync : option Z;
  me_raw_delay : option Z
}.

(** What the host / an observer can see of one call.  Timer durations are in
    nanoseconds (exact rational value, floored; see PortModel.announce_duration). *)
Inductive obs :=
| ASendEvent (ctx : ts_context) (frame : bytes) (link_local : bool)
| ASendGeneral (frame : bytes) (link_local : bool)
| AResetAnnounceTimer (ns : Z)
| AResetSyncTimer (ns : Z)
| AResetDelayRequestTimer (ns : Z)
| AResetAnnounceReceiptTimer (ns : Z)
| AResetFilterUpdateTimer (ns : Z)
| AForwardTLV (t : tlv) (sender : port_identity)
| OFilterMeas (m : measurement)          (* Filter::measurement on the recording filter *)
| OFilterDemobilize                      (* old filter demobilised, new one created *)
| OFilterUpdate                          (* Filter::update *)
| OClockSetProps (t : time_props)        (* Clock::set_properties *)
| OLock (write : bool) (depth : Z).      (* instance-state lock taken; depth before taking *)

(** A forwarded TLV offered by the TLV provider (type, value, sender). *)
Record fwd_tlv := mkFwd { fw_tlv : tlv; fw_sender : port_identity }.

Inductive event :=
| EvRecvEvent (p : nat) (frame : bytes) (ts : Z)
| EvRecvGeneral (p : nat) (frame : bytes)
| EvSendTimestamp (p : nat) (ctx : ts_context) (ts : Z)
| EvAnnounceTimer (p : nat) (queue : list fwd_tlv)
| EvSyncTimer (p : nat)
| EvDelayReqTimer (p : nat)
| EvAnnounceReceiptTimer (p : nat)
| EvFilterUpdateTimer (p : nat)
| EvBmca
| EvSetClockQuality (q : clock_quality)
| EvSetSlaveOnly (b : bool)
| EvTick (ns : Z).                (* host-side passage of time: no call into the library *)

Record port := mkPort {
  p_config : port_config;
  p_identity : port_identity;
  p_state : port_state;
  p_fml : list foreign_master;
  p_multiport_disable : option Z;
  p_seq_announce : Z;
  p_seq_sync : Z;
  p_seq_delay : Z;
  p_seq_pdelay : Z;
  p_mean_delay : option Z;
  p_peer : peer_state;
  p_rng : list Z                  (* remaining scripted Open01 draws (52-bit k) *)
}.

Record instance := mkInst {
  i_ds : inst_ds;
  i_log_bmca : Z;                 (* log_bmca_interval, i8::MAX before any port *)
  i_ports : list port
}.

(** Snapshot of what the public getters show. *)
Record snapshot := mkSnap {
  sn_states : list Z;             (* port_state_code per port *)
  sn_ds : inst_ds;
  sn_mean_delays : list (option Z);
  sn_roles : list (bool * bool)   (* (Port::is_steering(), Port::is_master()) per port *)
}.

(** Field updaters *)
Definition port_with_state (p : port) (s : port_state) : port :=
  mkPort (p_config p) (p_identity p) s (p_fml p) (p_multiport_disable p)
         (p_seq_announce p) (p_seq_sync p) (p_seq_delay p) (p_seq_pdelay p)
         (p_mean_delay p) (p_peer p) (p_rng p).
Definition port_with_fml (p : port) (l : list foreign_master) : port :=
  mkPort (p_config p) (p_identity p) (p_state p) l (p_multiport_disable p)
         (p_seq_announce p) (p_seq_sync p) (p_seq_delay p) (p_seq_pdelay p)
         (p_mean_delay p) (p_peer p) (p_rng p).
Definition port_with_multiport (p : port) (m : option Z) : port :=
  mkPort (p_config p) (p_identity p) (p_state p) (p_fml p) m
         (p_seq_announce p) (p_seq_sync p) (p_seq_delay p) (p_seq_pdelay p)
         (p_mean_delay p) (p_peer p) (p_rng p).
Definition port_with_seqs (p : port) (a s d pd : Z) : port :=
  mkPort (p_config p) (p_identity p) (p_state p) (p_fml p) (p_multiport_disable p)
         a s d pd (p_mean_delay p) (p_peer p) (p_rng p).
Definition port_with_mean_delay (p : port) (m : option Z) : port :=
  mkPort (p_config p) (p_identity p) (p_state p) (p_fml p) (p_multiport_disable p)
         (p_seq_announce p) (p_seq_sync p) (p_seq_delay p) (p_seq_pdelay p)
         m (p_peer p) (p_rng p).
Definition port_with_peer (p : port) (x : peer_state) : port :=
  mkPort (p_config p) (p_identity p) (p_state p) (p_fml p) (p_multiport_disable p)
         (p_seq_announce p) (p_seq_sync p) (p_seq_delay p) (p_seq_pdelay p)
         (p_mean_delay p) x (p_rng p).
Definition port_with_rng (p : port) (r : list Z) : port :=
  mkPort (p_config p) (p_identity p) (p_state p) (p_fml p) (p_multiport_disable p)
         (p_seq_announce p) (p_seq_sync p) (p_seq_delay p) (p_seq_pdelay p)
         (p_mean_delay p) (p_peer p) r.

Definition ds_with (d : inst_ds) (steps : Z) (par : parent_ds) (path : list Z) (tp : time_props) : inst_ds :=
  mkDS (ds_default d) steps par path (ds_path_enable d) tp.
Definition ds_with_default (d : inst_ds) (dd : default_ds) : inst_ds :=
  mkDS dd (ds_steps_removed d) (ds_parent d) (ds_path d) (ds_path_enable d) (ds_tp d).

Definition is_slave (s : port_state) : bool := match s with PSlave _ => true | _ => false end.
Definition is_master (s : port_state) : bool := match s with PMaster => true | _ => false end.
Definition is_faulty (s : port_state) : bool := match s with PFaulty => true | _ => false end.
Definition is_listening (s : port_state) : bool := match s with PListening => true | _ => false end.
Definition is_passive (s : port_state) : bool := match s with PPassive => true | _ => false end.
