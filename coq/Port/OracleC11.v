(** C11 — Announces advertise the instance's current view of the hierarchy. *)
From SV Require Export Port.OracleBase.

(** (a) an emitted Announce carries exactly the data sets held at emission *)
Definition announce_reflects (ds : inst_ds) (m : message) : bool :=
  match m_body m with
  | BAnnounce a =>
      let tp := ds_tp ds in
      let par := ds_parent ds in
      let h := m_header m in
      (an_gm_identity a =? pd_gm_identity par) && cq_eqb (an_quality a) (pd_gm_quality par)
      && (an_prio1 a =? pd_gm_prio1 par) && (an_prio2 a =? pd_gm_prio2 par)
      && (an_steps_removed a =? ds_steps_removed ds)
      && (an_utc_offset a =? match tp_utc_offset tp with Some v => v | None => 0 end)
      && bool_eqb (h_utc_valid h) (match tp_utc_offset tp with Some _ => true | None => false end)
      && (an_time_source a =? tp_time_source tp)
      && bool_eqb (h_leap61 h) (tp_leap tp =? 1) && bool_eqb (h_leap59 h) (tp_leap tp =? 2)
      && bool_eqb (h_ptp_timescale h) (tp_ptp_timescale tp)
      && bool_eqb (h_time_traceable h) (tp_time_traceable tp)
      && bool_eqb (h_freq_traceable h) (tp_freq_traceable tp)
  | _ => true
  end.

(** time properties announced by a message (flags <-> data set bijection;
    leap59 takes precedence if both flags are set) *)
Definition tp_of_announce (h : header) (a : announce_body) : time_props :=
  mkTP (if h_utc_valid h then Some (an_utc_offset a) else None)
       (if h_leap59 h then 2 else if h_leap61 h then 1 else 0)
       (h_time_traceable h) (h_freq_traceable h) (h_ptp_timescale h) (an_time_source a).

Definition own_parent (dd : default_ds) : parent_ds :=
  mkPD (mkPI (dd_clock_identity dd) 0) (dd_clock_identity dd) (dd_quality dd) (dd_prio1 dd) (dd_prio2 dd).

Fixpoint find_tlv11 (t : Z) (l : list tlv) : option tlv :=
  match l with [] => None | x :: l' => if tlv_type x =? t then Some x else find_tlv11 t l' end.

Definition step_C11 (c : pcase) (_ : unit) (prev : snapshot) (e : event) (o : list tobs) (sn : snapshot) : option unit :=
  (* (a) *)
  let a_ok :=
    forallb (fun p =>
      forallb (fun x => match decoded (snd x) with
                        | Some m => announce_reflects (sn_ds prev) m
                        | None => true
                        end) (sent_frames (obs_of_port o p))) (all_ports c) in
  (* (b) Announce from the parent received on the slave port *)
  let b_ok :=
    match e with
    | EvRecvGeneral p frame | EvRecvEvent p frame _ =>
        match (if is_compatible frame then decoded frame else None) with
        | Some m =>
            match m_body m with
            | BAnnounce a =>
                let ds := sn_ds prev in
                if (h_domain (m_header m) =? dd_domain (ds_default ds))
                   && (h_sdo_id (m_header m) =? dd_sdo_id (ds_default ds))
                   && (state_of prev p =? 9)
                   && pi_eqb (h_source (m_header m)) (pd_parent (ds_parent ds))
                   && (an_steps_removed a <? 255) then
                  let path_tlv := if ds_path_enable ds then find_tlv11 8 (tlvs_of (m_suffix m)) else None in
                  let discarded :=
                    match path_tlv with
                    | Some t => (128 <? blen (tlv_value t) / 8)
                                || existsb (fun ci => ci =? dd_clock_identity (ds_default ds))
                                           (path_of_value (tlv_value t))
                    | None => false
                    end in
                  if discarded then ds_eqb (sn_ds sn) ds
                  else
                    let d' := sn_ds sn in
                    (ds_steps_removed d' =? an_steps_removed a + 1)
                    && pd_eqb (ds_parent d')
                              (mkPD (h_source (m_header m)) (an_gm_identity a) (an_quality a)
                                    (an_prio1 a) (an_prio2 a))
                    && tp_eqb (ds_tp d') (tp_of_announce (m_header m) a)
                else true
            | _ => true
            end
        | None => true
        end
    | _ => true
    end in
  (* (c) grandmaster view after a BMCA run *)
  let c_ok :=
    match e with
    | EvBmca =>
        let no_slave := forallb (fun s => negb (s =? 9)) (sn_states sn) in
        let some_master := existsb (fun s => s =? 6) (sn_states sn) in
        if no_slave && some_master then
          (ds_steps_removed (sn_ds sn) =? 0)
          && pd_eqb (ds_parent (sn_ds sn)) (own_parent (ds_default (sn_ds sn)))
          (* grandmaster take-over: the former parent's time properties (leap, UTC
             offset, traceability, time source) are not the instance's own; a
             free-running grandmaster advertises the defaults of IEEE 1588-2019
             9.3.5 / table 30 (M1, M2) *)
          && (if existsb (fun s => s =? 9) (sn_states prev)
              then tp_eqb (ds_tp (sn_ds sn)) (mkTP None 0 false false true 160)
              else true)
        else true
    | _ => true
    end in
  if a_ok && b_ok && c_ok then Some tt else None.

Definition ok_C11 (c : pcase) : bool :=
  walk (step_C11 c) tt (init_snap c) (pc_events c) (pc_trace c).

(** (d) "the attributes LAST announced by its parent": a BMCA run that leaves the
    slave port slave of the same parent does not change stepsRemoved, parentDS or
    timePropertiesDS (it re-applies the newest stored Announce of the parent, which
    has to be the one applied on receipt).  Judged only while the sequence ids of
    that master on that port have moved forward by less than 2^15 in total (an id
    that does not move forward is not stored by the library while its contents
    are applied on receipt: observation F27, DESIGN 14.3, outside the quantifier
    of C11). *)
Record seen11 := mkSeen { sn_port : nat; sn_src : port_identity; sn_seq : Z; sn_travel : Z; sn_ok : bool }.

(** [sn_travel]: how far the sequence id of this master on this port has moved in
    total; the library compares an id with the newest record it still holds, which
    may be an older one, so the two views agree while the total stays below 2^15 *)
Fixpoint note11 (p : nat) (src : port_identity) (seq : Z) (l : list seen11) : list seen11 :=
  match l with
  | [] => [mkSeen p src seq 0 true]
  | x :: l' =>
      if Nat.eqb (sn_port x) p && pi_eqb (sn_src x) src then
        let t := sn_travel x + (seq - sn_seq x) mod 65536 in
        mkSeen p src seq t (sn_ok x && (t <? 32767)) :: l'
      else x :: note11 p src seq l'
  end.

Definition entry11 (p : nat) (src : port_identity) (l : list seen11) : option seen11 :=
  find (fun x => Nat.eqb (sn_port x) p && pi_eqb (sn_src x) src) l.
Definition steady11 (p : nat) (src : port_identity) (l : list seen11) : bool :=
  match entry11 p src l with Some x => sn_ok x | None => false end.

Definition step_C11d (c : pcase) (l : list seen11) (prev : snapshot) (e : event) (o : list tobs) (sn : snapshot)
  : option (list seen11) :=
  match e with
  | EvRecvGeneral p frame | EvRecvEvent p frame _ =>
      match (if is_compatible frame then decoded frame else None) with
      | Some m => match m_body m with
                  | BAnnounce _ => Some (note11 p (h_source (m_header m)) (h_seq (m_header m)) l)
                  | _ => Some l
                  end
      | None => Some l
      end
  | EvBmca =>
      let parent := pd_parent (ds_parent (sn_ds prev)) in
      let kept := existsb (fun p => (state_of prev p =? 9) && (state_of sn p =? 9) && steady11 p parent l) (all_ports c)
                  && pi_eqb (pd_parent (ds_parent (sn_ds sn))) parent in
      if kept then
        if (ds_steps_removed (sn_ds sn) =? ds_steps_removed (sn_ds prev))
           && pd_eqb (ds_parent (sn_ds sn)) (ds_parent (sn_ds prev))
           && tp_eqb (ds_tp (sn_ds sn)) (ds_tp (sn_ds prev))
        then Some l else None
      else Some l
  | _ => Some l
  end.

Definition ok_C11d (c : pcase) : bool :=
  walk (step_C11d c) [] (init_snap c) (pc_events c) (pc_trace c).

Definition ok_C11_full (c : pcase) : bool := ok_C11 c && ok_C11d c.

Definition kf_C11 (c : pcase) : Z := 0.
Definition case := pcase.
Definition run_cases := run_cases_gen agree_port ok_C11_full kf_C11.
