(** C17 on the model, whole histories: the complete oracle ok_C17 (lock
    discipline: never nested, at most one write section per call, data sets
    change only inside a write section, reads before the write; the whole BMCA
    run is one write section) accepts the model's own trace for every valid
    set-up and every valid event list. *)
From SV Require Export Port.MainC11 Port.OracleC17 Port.LemmasC17 Port.LemmasC11.

(** [reads_only o]: the only lock events in [o] are un-nested read sections *)
Definition lk_read (x : obs) : bool :=
  match x with OLock w d => negb w && (d =? 0) | _ => true end.
Definition reads_only (o : list obs) : bool := forallb lk_read o.
Lemma reads_only_app a b : reads_only (a ++ b) = reads_only a && reads_only b.
Proof. unfold reads_only. apply forallb_app. Qed.

Definition keeps (d : inst_ds) (r : hres) : Prop :=
  forall p' d' o, r = Ok (p', d', o) -> d' = d /\ reads_only o = true.

Lemma set_forced_reads p s : reads_only (snd (set_forced p s)) = true.
Proof. unfold set_forced. cbn [snd]. destruct (_ || _); reflexivity. Qed.

Lemma extract_measurement_reads p p' om o : extract_measurement p = Ok (p', om, o) -> reads_only o = true.
Proof.
  unfold extract_measurement, set_forced. intros H. crunch H;
    repeat match goal with E : (if ?c then _ else _) = (_, _) |- _ => destruct c; inversion E; subst; clear E end;
    try reflexivity.
  all: match goal with |- context [if ?c then _ else _] => destruct c end; reflexivity.
Qed.

Lemma handle_time_measurement_keeps p d : keeps d (handle_time_measurement p d).
Proof.
  unfold keeps, handle_time_measurement. intros p' d' o H.
  destruct (extract_measurement p) as [[[p1 om] o1]|?] eqn:E; cbn [obind] in H; [|discriminate].
  pose proof (extract_measurement_reads _ _ _ _ E) as H1.
  destruct om; unfold ret in H; inversion H; subst; (split; [reflexivity|]); [|exact H1].
  rewrite reads_only_app, H1. reflexivity.
Qed.

Lemma go_faulty_keeps p d : keeps d (go_faulty p d).
Proof.
  unfold keeps, go_faulty, ret. intros p' d' o. pose proof (set_forced_reads p PFaulty) as Hs.
  destruct (set_forced p PFaulty) as [p1 o1]. intros H. inversion H; subst. split; [reflexivity|exact Hs].
Qed.

Ltac kp H :=
  crunch H; try (split; reflexivity);
  try (match goal with Hx : handle_time_measurement ?q ?dd = Ok _ |- _ => exact (handle_time_measurement_keeps q dd _ _ _ Hx) end);
  try (match goal with Hx : go_faulty ?q ?dd = Ok _ |- _ => exact (go_faulty_keeps q dd _ _ _ Hx) end).

Lemma handle_sync_keeps p d h w t : keeps d (handle_sync p d h w t).
Proof. unfold keeps, handle_sync. intros p' d' o H. kp H. Qed.
Lemma handle_follow_up_keeps p d h w : keeps d (handle_follow_up p d h w).
Proof. unfold keeps, handle_follow_up. intros p' d' o H. kp H. Qed.
Lemma handle_delay_resp_keeps p d h w r : keeps d (handle_delay_resp p d h w r).
Proof. unfold keeps, handle_delay_resp. intros p' d' o H. kp H. Qed.
Lemma handle_delay_timestamp_keeps p d id t : keeps d (handle_delay_timestamp p d id t).
Proof. unfold keeps, handle_delay_timestamp. intros p' d' o H. kp H. Qed.
Lemma handle_pdelay_timestamp_keeps p d id t : keeps d (handle_pdelay_timestamp p d id t).
Proof. unfold keeps, handle_pdelay_timestamp. intros p' d' o H. kp H. Qed.
Lemma handle_peer_delay_response_keeps p d h w r t : keeps d (handle_peer_delay_response p d h w r t).
Proof. unfold keeps, handle_peer_delay_response. intros p' d' o H. kp H. Qed.
Lemma handle_peer_delay_follow_up_keeps p d h w r : keeps d (handle_peer_delay_follow_up p d h w r).
Proof. unfold keeps, handle_peer_delay_follow_up. cbv zeta. intros p' d' o H. kp H. Qed.
Lemma send_sync_keeps p d : keeps d (send_sync p d).
Proof. unfold keeps, send_sync. intros p' d' o H. kp H. Qed.
Lemma handle_sync_timestamp_keeps p d id ts : keeps d (handle_sync_timestamp p d id ts).
Proof. unfold keeps, handle_sync_timestamp. intros p' d' o H. kp H. Qed.
Lemma handle_delay_req_keeps p d h ts : keeps d (handle_delay_req p d h ts).
Proof. unfold keeps, handle_delay_req. intros p' d' o H. kp H. Qed.
Lemma handle_pdelay_req_keeps p d h ts : keeps d (handle_pdelay_req p d h ts).
Proof. unfold keeps, handle_pdelay_req. intros p' d' o H. kp H. Qed.
Lemma handle_pdelay_response_timestamp_keeps p d id rq ts : keeps d (handle_pdelay_response_timestamp p d id rq ts).
Proof. unfold keeps, handle_pdelay_response_timestamp. intros p' d' o H. kp H. Qed.
Lemma send_delay_request_keeps p d : keeps d (send_delay_request p d).
Proof.
  unfold keeps, send_delay_request. intros p' d' o H.
  repeat match type of H with context [draw ?x] => destruct (draw x) as [? ?] end. kp H.
Qed.
Lemma receipt_timer_keeps p d : keeps d (handle_announce_receipt_timer p d).
Proof.
  unfold keeps, handle_announce_receipt_timer, set_forced. intros p' d' o H.
  repeat match type of H with
  | context [draw ?x] => destruct (draw x) as [? ?]
  | context [if ?c then _ else _] => destruct c
  end; unfold ret in H; inversion H; subst; (split; [reflexivity|]); try reflexivity;
  repeat match goal with |- context [if ?c then _ else _] => destruct c end; reflexivity.
Qed.

Lemma send_announce_keeps p d q : keeps d (send_announce p d q).
Proof.
  unfold keeps. intros p' d' o H. pose proof (send_announce_locks _ _ _ _ _ _ H) as Hl. split.
  - unfold send_announce in H. destruct (is_master (p_state p)); [|unfold ret in H; inversion H; reflexivity].
    match type of H with context [let '(a, b) := ?X in _] => destruct X as [pb m1] end.
    destruct (announce_tlv_loop _ _ _ _ _ _ _) as [[sfx locks]|?]; cbn [obind] in H; [|discriminate].
    destruct (serialize_packet _); cbn [obind] in H; [|discriminate]. unfold ret in H. inversion H; reflexivity.
  - unfold reads_only. apply forallb_forall. intros x Hx. rewrite Forall_forall in Hl.
    destruct (Hl x Hx) as [Hr|Hf]; [rewrite Hr; reflexivity|destruct x; try reflexivity; destruct Hf].
Qed.

(** * Shape of the lock events of one call *)
Definition locks_of (o : list obs) : list (bool * Z) :=
  flat_map (fun x => match x with OLock w d => [(w, d)] | _ => [] end) o.
Lemma locks_of_app a b : locks_of (a ++ b) = locks_of a ++ locks_of b.
Proof. unfold locks_of. apply flat_map_app. Qed.

Definition call_shape (d d' : inst_ds) (o : list obs) : Prop :=
  exists n w, locks_of o = repeat (false, 0) n ++ (if w : bool then [(true, 0)] else []) /\ (d' <> d -> w = true).

Lemma reads_only_locks o : reads_only o = true -> exists n, locks_of o = repeat (false, 0) n.
Proof.
  unfold reads_only. induction o as [|x o IH]; cbn [forallb locks_of flat_map]; intros H; [exists 0%nat; reflexivity|].
  apply andb_true_iff in H as [Hx Ho]. destruct (IH Ho) as [n Hn]. fold (locks_of o). rewrite Hn.
  destruct x as [? ? ?|? ?|?|?|?|?|?|? ?|?| | |?|wr dp]; try (exists n; reflexivity). cbn in Hx. apply andb_true_iff in Hx as [Hw Hd].
  destruct wr; [discriminate|]. apply Z.eqb_eq in Hd. subst dp. exists (S n). reflexivity.
Qed.

Lemma keeps_shape d r p' d' o : keeps d r -> r = Ok (p', d', o) -> call_shape d d' o.
Proof.
  intros Hk Hr. destruct (Hk _ _ _ Hr) as [-> Hro]. destruct (reads_only_locks _ Hro) as [n Hn].
  exists n, false. rewrite Hn, app_nil_r. split; [reflexivity|congruence].
Qed.

Lemma lock_free_locks rest : Forall lock_free rest -> locks_of rest = [].
Proof.
  induction 1 as [|x l Hx _ IH]; [reflexivity|]. cbn [locks_of flat_map]. fold (locks_of l). rewrite IH.
  destruct x; try reflexivity. destruct Hx.
Qed.

Lemma handle_announce_shape p d ti m a p' d' o :
  handle_announce p d ti m a = Ok (p', d', o) -> call_shape d d' o.
Proof.
  intros H. destruct (handle_announce_locks _ _ _ _ _ _ _ _ H) as (locks & rest & -> & Hrest & Hcases & Hch).
  unfold call_shape. rewrite locks_of_app, (lock_free_locks _ Hrest), app_nil_r.
  destruct Hcases as [->|[->| ->]].
  - exists 0%nat, false. split; [reflexivity|]. intros Hne. specialize (Hch Hne). discriminate.
  - exists 1%nat, false. split; [reflexivity|]. intros Hne. specialize (Hch Hne). discriminate.
  - exists 1%nat, true. split; [reflexivity|]. reflexivity.
Qed.

Lemma shape_prepend d d' o1 o2 : reads_only o1 = true -> call_shape d d' o2 -> call_shape d d' (o1 ++ o2).
Proof.
  intros H1 (n & w & Hl & Hw). destruct (reads_only_locks _ H1) as [k Hk].
  exists (k + n)%nat, w. rewrite locks_of_app, Hk, Hl, repeat_app, app_assoc. split; [reflexivity|exact Hw].
Qed.

Lemma handle_general_internal_shape p d ti m p' d' o :
  handle_general_internal p d ti m = Ok (p', d', o) -> call_shape d d' o.
Proof.
  unfold handle_general_internal. intros H. destruct (m_body m);
    try (eapply keeps_shape; [|exact H]; unfold keeps, ret; intros ? ? ? Hx; inversion Hx; split; reflexivity).
  - eapply keeps_shape; [apply handle_follow_up_keeps|exact H].
  - eapply keeps_shape; [apply handle_delay_resp_keeps|exact H].
  - eapply keeps_shape; [apply handle_peer_delay_follow_up_keeps|exact H].
  - eapply handle_announce_shape; exact H.
Qed.

Lemma parse_reads d frame : reads_only (snd (parse_and_filter d frame)) = true.
Proof.
  unfold parse_and_filter. destruct (negb _); [reflexivity|]. destruct (decode frame); [|reflexivity].
  destruct (_ && _); reflexivity.
Qed.

Lemma handle_general_receive_shape p d ti frame p' d' o :
  handle_general_receive p d ti frame = Ok (p', d', o) -> call_shape d d' o.
Proof.
  unfold handle_general_receive. pose proof (parse_reads d frame) as Hp.
  destruct (parse_and_filter d frame) as [[m|] o1]; cbn [snd] in Hp; intros H.
  - unfold prepend in H. destruct (handle_general_internal p d ti m) as [[[p1 d1] o2]|?] eqn:E; cbn [obind] in H; [|discriminate].
    inversion H; subst. apply shape_prepend; [exact Hp|]. eapply handle_general_internal_shape; eauto.
  - eapply keeps_shape; [|exact H]. unfold keeps, ret. intros ? ? ? Hx. inversion Hx; subst. split; [reflexivity|exact Hp].
Qed.

Lemma handle_event_receive_shape p d ti frame ts p' d' o :
  handle_event_receive p d ti frame ts = Ok (p', d', o) -> call_shape d d' o.
Proof.
  unfold handle_event_receive. pose proof (parse_reads d frame) as Hp.
  destruct (parse_and_filter d frame) as [[m|] o1]; cbn [snd] in Hp; intros H.
  - unfold prepend in H.
    match type of H with obind ?X _ = _ => destruct X as [[[p1 d1] o2]|?] eqn:E end; cbn [obind] in H; [|discriminate].
    inversion H; subst. apply shape_prepend; [exact Hp|].
    destruct (m_body m); try (eapply handle_general_internal_shape; exact E).
    + eapply keeps_shape; [apply handle_sync_keeps|exact E].
    + eapply keeps_shape; [apply handle_delay_req_keeps|exact E].
    + eapply keeps_shape; [apply handle_pdelay_req_keeps|exact E].
    + eapply keeps_shape; [apply handle_peer_delay_response_keeps|exact E].
  - eapply keeps_shape; [|exact H]. unfold keeps, ret. intros ? ? ? Hx. inversion Hx; subst. split; [reflexivity|exact Hp].
Qed.

Lemma handle_send_timestamp_shape p d c ts p' d' o :
  handle_send_timestamp p d c ts = Ok (p', d', o) -> call_shape d d' o.
Proof.
  unfold handle_send_timestamp. intros H. destruct c.
  - eapply keeps_shape; [apply handle_sync_timestamp_keeps|exact H].
  - eapply keeps_shape; [apply handle_delay_timestamp_keeps|exact H].
  - eapply keeps_shape; [apply handle_pdelay_timestamp_keeps|exact H].
  - eapply keeps_shape; [apply handle_pdelay_response_timestamp_keeps|exact H].
Qed.

(** * From the shape to the oracle's verdict *)
Lemma list_eqb_refl {A} (eqb : A -> A -> bool) l : (forall x, eqb x x = true) -> list_eqb eqb l l = true.
Proof. intros H. induction l as [|x l IH]; cbn [list_eqb]; [reflexivity|]. rewrite H, IH. reflexivity. Qed.
Lemma dd_eqb_refl d : dd_eqb d d = true.
Proof. unfold dd_eqb. rewrite !Z.eqb_refl, cq_eqb_refl, bool_eqb_refl. reflexivity. Qed.
Lemma ds_eqb_refl d : ds_eqb d d = true.
Proof.
  unfold ds_eqb. rewrite dd_eqb_refl, Z.eqb_refl, pd_eqb_refl, tp_eqb_refl, bool_eqb_refl.
  rewrite (list_eqb_refl Z.eqb) by apply Z.eqb_refl. reflexivity.
Qed.

Fixpoint reads_before_write (l : list (bool * Z)) (seen_write : bool) : bool :=
  match l with
  | [] => true
  | (true, _) :: l' => reads_before_write l' true
  | (false, _) :: l' => negb seen_write && reads_before_write l' seen_write
  end.

Lemma shape_facts n (w : bool) :
  let ls := repeat (false, 0) n ++ (if w then [(true, 0)] else []) in
  forallb (fun x : bool * Z => snd x =? 0) ls = true /\
  count (fun x : bool * Z => fst x) ls = (if w then 1 else 0)%nat /\
  reads_before_write ls false = true.
Proof.
  cbv zeta. induction n as [|n IH]; cbn [repeat app].
  - destruct w; repeat split; reflexivity.
  - destruct IH as (A & B & C). cbn [forallb snd Z.eqb reads_before_write negb andb]. rewrite A, C.
    unfold count in *. cbn [filter fst]. rewrite B. repeat split; reflexivity.
Qed.

Lemma step_C17_shape c prev e o sn n (w : bool) :
  lock_events o = repeat (false, 0) n ++ (if w then [(true, 0)] else []) ->
  (ds_eqb (sn_ds prev) (sn_ds sn) = false -> w = true) ->
  e <> EvBmca -> step_C17 c tt prev e o sn = Some tt.
Proof.
  intros Hl Hch Hne. unfold step_C17. cbv zeta. rewrite Hl.
  destruct (shape_facts n w) as (A & B & C). cbv zeta in A, B, C. rewrite A, B.
  assert (Hw1 : ((if w then 1 else 0) <=? 1)%nat = true) by (destruct w; reflexivity). rewrite Hw1.
  assert (Hw2 : (if negb (ds_eqb (sn_ds prev) (sn_ds sn)) then (1 <=? (if w then 1 else 0))%nat else true) = true).
  { destruct (ds_eqb (sn_ds prev) (sn_ds sn)) eqn:E; [reflexivity|]. rewrite (Hch eq_refl). reflexivity. }
  rewrite Hw2. cbn [andb].
  assert (Ho : match e with
               | EvBmca => forallb (fun x : bool * Z => fst x) (repeat (false, 0) n ++ (if w then [(true, 0)] else []))
               | _ => reads_before_write (repeat (false, 0) n ++ (if w then [(true, 0)] else [])) false
               end = true).
  { destruct e; try exact C. contradiction. }
  unfold reads_before_write in Ho. rewrite Ho. reflexivity.
Qed.

Lemma lock_events_tag n oo : lock_events (tag n oo) = locks_of oo.
Proof.
  unfold lock_events, tag, locks_of. induction oo as [|x oo IH]; cbn [map flat_map]; [reflexivity|].
  rewrite IH. destruct x; reflexivity.
Qed.

Lemma on_port_C17 c i n f e i' o :
  on_port i n f = Ok (i', o) -> e <> EvBmca ->
  (forall p p' d' oo, nth_error (i_ports i) n = Some p -> f p (i_ds i) = Ok (p', d', oo) -> call_shape (i_ds i) d' oo) ->
  step_C17 c tt (snapshot_of i) e o (snapshot_of i') = Some tt.
Proof.
  unfold on_port. intros H Hne Hf. destruct (nth_error (i_ports i) n) as [p|] eqn:En in H.
  - destruct (f p (i_ds i)) as [[[p' d'] oo]|?] eqn:E; cbn [obind] in H; [|discriminate].
    inversion H; subst. destruct (Hf _ _ _ _ En E) as (k & w & Hl & Hw).
    apply (step_C17_shape c _ e _ _ k w); [rewrite lock_events_tag; exact Hl| |exact Hne].
    unfold snapshot_of. cbn [sn_ds i_ds]. intros Hneq. apply Hw. intros Heq. rewrite Heq, ds_eqb_refl in Hneq. discriminate.
  - inversion H; subst. apply (step_C17_shape c _ e _ _ 0%nat false); [reflexivity| |exact Hne].
    rewrite ds_eqb_refl. discriminate.
Qed.

(** * BMCA: the whole run is one write section *)
Lemma omap_list_rel {A B} (f : A -> outcome B) (R : A -> B -> Prop) :
  (forall x y, f x = Ok y -> R x y) -> forall l l', omap_list f l = Ok l' -> Forall2 R l l'.
Proof.
  intros Hf. induction l as [|x l IH]; intros l' H; cbn [omap_list] in H.
  - inversion H; constructor.
  - destruct (f x) as [y|?] eqn:E; cbn [obind] in H; [|discriminate].
    destruct (omap_list f l) as [ys|?] eqn:E2; cbn [obind] in H; [|discriminate].
    inversion H; subst. constructor; [apply Hf; exact E|apply IH; reflexivity].
Qed.


Definition nolocks (b : bport) : Prop := locks_of (bp_side b) = [] /\ locks_of (bp_pending b) = [].

Lemma calc_local_best_nolocks p b : calc_local_best p = Ok b -> nolocks b.
Proof.
  unfold calc_local_best. destruct (bmca_take_best _ _ _ _) as [r|?]; cbn [obind]; [|discriminate].
  intros H. inversion H; subst. split; reflexivity.
Qed.

Lemma set_recommended_port_state_nolocks b rs dd b1 :
  nolocks b -> set_recommended_port_state b rs dd = Ok b1 -> nolocks b1.
Proof.
  intros [Hs Hp] H. unfold set_recommended_port_state, set_forced in H.
  destruct rs as [d0|d0|h a|h a|h a|h a];
    repeat match type of H with context [draw ?x] => destruct (draw x) as [? ?] end;
    crunch H; unfold nolocks; cbn [bp_side bp_pending]; rewrite ?locks_of_app, ?Hs, ?Hp;
    try (split; reflexivity);
    try (split; repeat match goal with |- context [if ?c then _ else _] => destruct c end; reflexivity).
Qed.

Lemma set_recommended_state_nolocks b rs d b' d' :
  nolocks b -> set_recommended_state b rs d = Ok (b', d') -> nolocks b'.
Proof.
  unfold set_recommended_state. intros Hn H.
  destruct (set_recommended_port_state b rs (ds_default d)) as [b1|?] eqn:E1; cbn [obind] in H; [|discriminate].
  pose proof (set_recommended_port_state_nolocks _ _ _ _ Hn E1) as [H1 H2].
  destruct rs; crunch H; unfold nolocks; cbn [bp_side bp_pending]; rewrite ?locks_of_app, ?H1, ?H2; split; reflexivity.
Qed.

Lemma bmca_decide_nolocks ebest : forall todo done d done' d',
  Forall nolocks todo -> Forall nolocks done ->
  bmca_decide ebest d todo done = Ok (done', d') -> Forall nolocks done'.
Proof.
  induction todo as [|b todo IH]; intros done d done' d' Ht Hd H; cbn [bmca_decide] in H.
  - inversion H; subst. exact Hd.
  - inversion Ht; subst.
    destruct (recommended_state _ _ _ _) as [r|?]; cbn [obind] in H; [|discriminate].
    destruct r as [rs|].
    + destruct (set_recommended_state b rs d) as [[b' d1]|?] eqn:E; cbn [obind fst snd] in H; [|discriminate].
      eapply IH; [assumption| |exact H]. apply Forall_app. split; [exact Hd|].
      constructor; [eapply set_recommended_state_nolocks; eauto|constructor].
    + eapply IH; [assumption| |exact H]. apply Forall_app. split; [exact Hd|]. constructor; [assumption|constructor].
Qed.

Lemma lock_events_app a b : lock_events (a ++ b) = lock_events a ++ lock_events b.
Proof. unfold lock_events. apply flat_map_app. Qed.

Lemma lock_events_tag_ports f : forall bs k,
  Forall (fun b => locks_of (f b) = []) bs -> lock_events (tag_ports k bs f) = [].
Proof.
  induction bs as [|b bs IH]; intros k H; cbn [tag_ports]; [reflexivity|].
  inversion H; subst. rewrite lock_events_app, lock_events_tag, IH by assumption.
  match goal with Hx : locks_of (f b) = [] |- _ => rewrite Hx end. reflexivity.
Qed.

Lemma bmca_locks i i' o : bmca i = Ok (i', o) -> lock_events o = [(true, 0)].
Proof.
  unfold bmca. intros H.
  destruct (bmca_interval_dur _) as [step|?]; cbn [obind] in H; [|discriminate].
  destruct (negb _); [discriminate|].
  destruct (omap_list calc_local_best (i_ports i)) as [bps|?] eqn:E1; cbn [obind] in H; [|discriminate].
  destruct (find_best _) as [ebest|?]; cbn [obind] in H; [|discriminate].
  destruct (bmca_decide ebest (i_ds i) bps []) as [[bps1 d1]|?] eqn:E2; cbn [obind] in H; [|discriminate].
  destruct (omap_list _ bps1) as [ports|?] eqn:E3; cbn [obind] in H; [|discriminate].
  inversion H; subst.
  assert (H1 : Forall nolocks bps).
  { pose proof (omap_list_rel _ (fun p b => nolocks b) calc_local_best_nolocks _ _ E1) as R1.
    clear - R1. induction R1; constructor; assumption. }
  pose proof (bmca_decide_nolocks _ _ _ _ _ _ H1 (Forall_nil _) E2) as H2.
  change ((-1, wr_lock) :: tag_ports 0 bps1 bp_side ++ tag_ports 0 bps1 bp_pending)
    with ([(-1, wr_lock)] ++ (tag_ports 0 bps1 bp_side ++ tag_ports 0 bps1 bp_pending)).
  rewrite (lock_events_app [(-1, wr_lock)]), lock_events_app.
  rewrite (lock_events_tag_ports bp_side), (lock_events_tag_ports bp_pending).
  - reflexivity.
  - eapply Forall_impl; [|exact H2]. intros b [_ Hb]. exact Hb.
  - eapply Forall_impl; [|exact H2]. intros b [Hb _]. exact Hb.
Qed.

Lemma step_C17_bmca c prev o sn : lock_events o = [(true, 0)] -> step_C17 c tt prev EvBmca o sn = Some tt.
Proof.
  intros Hl. unfold step_C17. cbv zeta. rewrite Hl. cbn [forallb snd Z.eqb andb].
  unfold count. cbn [filter fst length Nat.leb].
  destruct (negb (ds_eqb (sn_ds prev) (sn_ds sn))); reflexivity.
Qed.

Lemma step_C17_model c i e i' o :
  step i e = Ok (i', o) -> step_C17 c tt (snapshot_of i) e o (snapshot_of i') = Some tt.
Proof.
  intros Hs. destruct e; cbn [step] in Hs.
  - eapply on_port_C17; [exact Hs|discriminate|]. intros pp pp' dd' oo Hn Hh. cbv beta in Hh. eapply handle_event_receive_shape; eauto.
  - eapply on_port_C17; [exact Hs|discriminate|]. intros pp pp' dd' oo Hn Hh. cbv beta in Hh. eapply handle_general_receive_shape; eauto.
  - eapply on_port_C17; [exact Hs|discriminate|]. intros pp pp' dd' oo Hn Hh. cbv beta in Hh. eapply handle_send_timestamp_shape; eauto.
  - eapply on_port_C17; [exact Hs|discriminate|]. intros pp pp' dd' oo Hn Hh. cbv beta in Hh. eapply keeps_shape; [apply send_announce_keeps|exact Hh].
  - eapply on_port_C17; [exact Hs|discriminate|]. intros pp pp' dd' oo Hn Hh. eapply keeps_shape; [apply send_sync_keeps|exact Hh].
  - eapply on_port_C17; [exact Hs|discriminate|]. intros pp pp' dd' oo Hn Hh. eapply keeps_shape; [apply send_delay_request_keeps|exact Hh].
  - eapply on_port_C17; [exact Hs|discriminate|]. intros pp pp' dd' oo Hn Hh. eapply keeps_shape; [apply receipt_timer_keeps|exact Hh].
  - eapply on_port_C17; [exact Hs|discriminate|]. intros pp pp' dd' oo Hn Hh. eapply keeps_shape; [|exact Hh].
    unfold keeps, handle_filter_update_timer, ret. intros ? ? ? Hx. inversion Hx. split; reflexivity.
  - apply step_C17_bmca. eapply bmca_locks. exact Hs.
  - inversion Hs; subst. apply (step_C17_shape c _ _ _ _ 0%nat true); [reflexivity|reflexivity|discriminate].
  - inversion Hs; subst. apply (step_C17_shape c _ _ _ _ 0%nat true); [reflexivity|reflexivity|discriminate].
  - inversion Hs; subst. apply (step_C17_shape c _ _ _ _ 0%nat false); [reflexivity| |discriminate].
    rewrite ds_eqb_refl. discriminate.
Qed.

(** C17_main: no hypothesis on the events is needed (a panic ends the walk) *)
Lemma walk_C17_model c : forall es i, walk (step_C17 c) tt (snapshot_of i) es (run i es) = true.
Proof.
  induction es as [|e es IH]; intros i; cbn [run walk]; [reflexivity|].
  destruct (step i e) as [[i' o]|?] eqn:Hs; [|reflexivity]. cbn [walk].
  rewrite (step_C17_model c i e i' o Hs). apply IH.
Qed.

Theorem ok_C17_model s es rel i o :
  init s = Ok (i, o) -> ok_C17 (mkCase s es rel (Some o) (run i es)) = true.
Proof.
  intros Hi. unfold ok_C17, init_snap. cbn [pc_setup pc_events pc_trace]. rewrite Hi. apply walk_C17_model.
Qed.
