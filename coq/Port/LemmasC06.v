(** Lemmas for C06 (foreign master qualification and expiry). *)
From SV Require Import Port.OracleC06.

(** * The selected Erbest is one of the candidates *)
Lemma max_by_aux_in l : forall acc b, max_by_aux acc l = Ok b -> b = acc \/ In b l.
Proof.
  induction l as [|x l IH]; intros acc b H; cbn [max_by_aux] in H.
  - inversion H; auto.
  - destruct (best_compare acc x) as [c|s]; cbn [obind] in H; [|discriminate].
    apply IH in H. destruct c; destruct H as [H|H]; subst; cbn; auto.
Qed.

Lemma find_best_in l b : find_best l = Ok (Some b) -> In b l.
Proof.
  destruct l as [|x l]; cbn [find_best]; [discriminate|].
  destruct (max_by_aux x l) as [r|s] eqn:E; cbn [obind]; [|discriminate].
  intros H; inversion H; subst. apply max_by_aux_in in E. destruct E; subst; cbn; auto.
Qed.

(** * Only masters with at least THRESHOLD (= 2) stored Announces are candidates *)
Lemma fm_take_spec fm m :
  snd (fm_take fm) = Some m -> (2 <= length (fmr_msgs fm))%nat /\ In m (fmr_msgs fm).
Proof.
  unfold fm_take, FOREIGN_MASTER_THRESHOLD.
  destruct (Nat.leb_spec 2 (length (fmr_msgs fm))) as [Hle|Hlt]; cbn [snd]; [|discriminate].
  intros H. split; [exact Hle|].
  destruct (fmr_msgs fm) as [|a l] eqn:El using rev_ind; [cbn in Hle; lia|].
  clear IHl. rewrite map_app in H. cbn [map] in H. rewrite last_last in H.
  inversion H; subst. apply in_or_app. right. left. reflexivity.
Qed.

Lemma take_fold_in (taken : list (foreign_master * option foreign_msg)) :
  forall acc m,
    In m (fold_left (fun acc x => match snd x with Some y => y :: acc | None => acc end) taken acc) ->
    In m acc \/ exists x, In x taken /\ snd x = Some m.
Proof.
  induction taken as [|x t IH]; intros acc m H; cbn [fold_left] in H; [auto|].
  apply IH in H. destruct H as [H|[y [Hy Hs]]].
  - destruct (snd x) as [z|] eqn:E; [|auto].
    destruct H as [H|H]; [subst; right; exists x; split; [left; reflexivity|exact E]|auto].
  - right. exists y. split; [right; exact Hy|exact Hs].
Qed.

Lemma take_qualified_in l m :
  In m (snd (fml_take_qualified l)) ->
  exists fm, In fm l /\ (2 <= length (fmr_msgs fm))%nat /\ In m (fmr_msgs fm).
Proof.
  unfold fml_take_qualified. cbn [snd]. intros H.
  apply take_fold_in in H. destruct H as [[]|[x [Hx Hs]]].
  apply in_map_iff in Hx. destruct Hx as [fm [Hfm Hin]]. subst x.
  exists fm. split; [exact Hin|]. apply fm_take_spec. exact Hs.
Qed.

(** Erbest never rests on a single stored Announce: whenever a BMCA run selects
    an Erbest on a port, the port's foreign master list holds a master with at
    least two stored Announces, one of which is the selected message. *)
Lemma erbest_needs_two own acc ti l l' b :
  bmca_take_best own acc ti l = Ok (l', Some b) ->
  exists fm m, In fm l /\ (2 <= length (fmr_msgs fm))%nat /\ In m (fmr_msgs fm) /\
               b_header b = fm_header m /\ b_ann b = fm_ann m /\ b_age b = fm_age m.
Proof.
  unfold bmca_take_best. destruct (fml_take_qualified l) as [l1 taken] eqn:Et.
  destruct (find_best _) as [[best|]|s] eqn:Ef; cbn [obind]; try discriminate.
  intros H; inversion H; subst; clear H.
  apply find_best_in in Ef. apply in_map_iff in Ef. destruct Ef as [m [Hm Hin]].
  assert (Hin' : In m (snd (fml_take_qualified l))) by (rewrite Et; exact Hin).
  apply take_qualified_in in Hin'. destruct Hin' as [fm [H1 [H2 H3]]].
  exists fm, m. subst b. cbn. repeat split; assumption.
Qed.

(** * Stored Announces are qualified: never own clock identity, never
      stepsRemoved >= 255, always from the master they are filed under *)
Definition msg_wf (own : port_identity) (id : port_identity) (m : foreign_msg) : Prop :=
  h_source (fm_header m) = id /\ pi_clock id <> pi_clock own /\ an_steps_removed (fm_ann m) < 255.
Definition fm_wf (own : port_identity) (fm : foreign_master) : Prop :=
  Forall (msg_wf own (fmr_identity fm)) (fmr_msgs fm).
Definition fml_wf (own : port_identity) (l : list foreign_master) : Prop := Forall (fm_wf own) l.

Lemma pi_eqb_eq a b : pi_eqb a b = true -> a = b.
Proof.
  unfold pi_eqb. destruct a, b; cbn. intros H.
  apply andb_true_iff in H as [H1 H2]. apply Z.eqb_eq in H1, H2. subst. reflexivity.
Qed.

Lemma fml_find_in id l fm : fml_find id l = Some fm -> In fm l /\ fmr_identity fm = id.
Proof.
  induction l as [|x l IH]; cbn [fml_find]; [discriminate|].
  destruct (pi_eqb (fmr_identity x) id) eqn:E.
  - intros H; inversion H; subst. split; [left; reflexivity|apply pi_eqb_eq; exact E].
  - intros H. apply IH in H. destruct H; split; [right|]; assumption.
Qed.

Lemma Forall_filter {A} (P : A -> Prop) f l : Forall P l -> Forall P (filter f l).
Proof.
  induction 1; cbn; [constructor|]. destruct (f x); [constructor|]; assumption.
Qed.

Lemma Forall_tl {A} (P : A -> Prop) l : Forall P l -> Forall P (tl l).
Proof. destruct 1; cbn; [constructor|assumption]. Qed.

Lemma fm_register_wf own ti fm h a age :
  fm_wf own fm -> msg_wf own (fmr_identity fm) (mkFMsg h a age) -> fm_wf own (fm_register ti fm h a age).
Proof.
  unfold fm_wf, fm_register. intros Hfm Hm. cbn [fmr_identity fmr_msgs].
  destruct (length (purge_old ti (fmr_msgs fm)) <? MAX_ANNOUNCE_MESSAGES)%nat;
    apply Forall_app; split; try (constructor; [exact Hm|constructor]).
  - apply Forall_filter. exact Hfm.
  - apply Forall_tl. apply Forall_filter. exact Hfm.
Qed.

Lemma fml_update_wf own id f l :
  fml_wf own l -> (forall fm, In fm l -> fmr_identity fm = id -> fm_wf own (f fm)) ->
  fml_wf own (fml_update id f l).
Proof.
  unfold fml_wf. induction l as [|x l IH]; intros Hl Hf; cbn [fml_update]; [constructor|].
  inversion Hl; subst.
  destruct (pi_eqb (fmr_identity x) id) eqn:E.
  - constructor; [|assumption]. apply Hf; [left; reflexivity|apply pi_eqb_eq; exact E].
  - constructor; [assumption|]. apply IH; [assumption|]. intros fm Hin. apply Hf. right. exact Hin.
Qed.

Lemma fml_register_wf own ti l h a age :
  fml_wf own l -> fml_wf own (fml_register own ti l h a age).
Proof.
  intros Hl. unfold fml_register.
  destruct (fml_qualified own l h a) eqn:Eq; cbn [negb]; [|exact Hl].
  assert (Hq : pi_clock (h_source h) <> pi_clock own /\ an_steps_removed a < 255).
  { unfold fml_qualified in Eq.
    destruct (pi_clock (h_source h) =? pi_clock own) eqn:E1; [discriminate|].
    match type of Eq with (if negb ?c then _ else _) = _ => destruct c end; cbn [negb] in Eq; [|discriminate].
    destruct (255 <=? an_steps_removed a) eqn:E3; [discriminate|]. lia. }
  destruct (fml_find (h_source h) l) as [fm0|] eqn:Ef.
  - apply fml_update_wf; [exact Hl|]. intros fm Hin Hid.
    apply fm_register_wf.
    + unfold fml_wf in Hl. rewrite Forall_forall in Hl. apply Hl. exact Hin.
    + unfold msg_wf. cbn. rewrite Hid. tauto.
  - destruct (length l <? MAX_FOREIGN_MASTERS)%nat; [|exact Hl].
    unfold fml_wf. apply Forall_app. split; [exact Hl|].
    constructor; [|constructor]. unfold fm_wf. cbn. constructor; [|constructor].
    unfold msg_wf. cbn. tauto.
Qed.

Lemma fml_step_age_wf own ti step l : fml_wf own l -> fml_wf own (fml_step_age ti step l).
Proof.
  unfold fml_wf, fml_step_age. intros Hl. apply Forall_filter.
  rewrite Forall_forall in *. intros fm' Hin. apply in_map_iff in Hin. destruct Hin as [fm [Heq Hin]].
  subst fm'. specialize (Hl fm Hin). unfold fm_wf, fm_step_age in *. cbn [fmr_identity fmr_msgs].
  apply Forall_filter. rewrite Forall_forall in *. intros m' Hm'.
  apply in_map_iff in Hm'. destruct Hm' as [m [Heq Hm]]. subst m'. specialize (Hl m Hm).
  unfold msg_wf in *. cbn. exact Hl.
Qed.

Lemma removelast_Forall {A} (P : A -> Prop) l : Forall P l -> Forall P (removelast l).
Proof.
  induction 1 as [|x l Hx Hl IH]; cbn; [constructor|]. destruct l; [constructor|].
  constructor; assumption.
Qed.

Lemma fml_take_qualified_wf own l : fml_wf own l -> fml_wf own (fst (fml_take_qualified l)).
Proof.
  unfold fml_wf, fml_take_qualified. cbn [fst]. intros Hl.
  rewrite map_map. rewrite Forall_forall in *. intros fm' Hin.
  apply in_map_iff in Hin. destruct Hin as [fm [Heq Hin]]. subst fm'. specialize (Hl fm Hin).
  unfold fm_take. destruct (FOREIGN_MASTER_THRESHOLD <=? length (fmr_msgs fm))%nat; cbn [fst]; [|exact Hl].
  unfold fm_wf in *. cbn. apply removelast_Forall. exact Hl.
Qed.

(** The invariant is preserved by a whole BMCA pass over the port's list *)
Lemma bmca_take_best_wf own acc ti l l' ob :
  fml_wf own l -> bmca_take_best own acc ti l = Ok (l', ob) -> fml_wf own l'.
Proof.
  intros Hl. unfold bmca_take_best.
  destruct (fml_take_qualified l) as [l1 taken] eqn:Et.
  assert (H1 : fml_wf own l1).
  { pose proof (fml_take_qualified_wf own l Hl) as H. rewrite Et in H. exact H. }
  destruct (find_best _) as [[b|]|s]; cbn [obind]; intros H; inversion H; subst; [|exact H1].
  unfold bmca_reregister. destruct (_ && _); [apply fml_register_wf|]; exact H1.
Qed.

(** Consequently the selected Erbest never carries the own clock identity nor
    stepsRemoved >= 255. *)
Lemma erbest_qualified own acc ti l l' b :
  fml_wf own l -> bmca_take_best own acc ti l = Ok (l', Some b) ->
  pi_clock (h_source (b_header b)) <> pi_clock own /\ an_steps_removed (b_ann b) < 255.
Proof.
  intros Hl H. destruct (erbest_needs_two _ _ _ _ _ _ H) as (fm & m & Hfm & _ & Hm & Hh & Ha & _).
  unfold fml_wf in Hl. rewrite Forall_forall in Hl. specialize (Hl fm Hfm).
  unfold fm_wf in Hl. rewrite Forall_forall in Hl. specialize (Hl m Hm).
  destruct Hl as (Hs & Hc & Hst). rewrite Hh, Ha, Hs. split; assumption.
Qed.

(** * Expiry: a silent master is forgotten after WINDOW announce intervals *)
Lemma fm_step_age_lower ti step fm a0 :
  Forall (fun m => a0 <= fm_age m) (fmr_msgs fm) ->
  Forall (fun m => a0 + step <= fm_age m < cutoff_age ti) (fmr_msgs (fm_step_age ti step fm)).
Proof.
  intros H. unfold fm_step_age, purge_old. cbn [fmr_msgs].
  rewrite Forall_forall in *. intros m Hm. apply filter_In in Hm. destruct Hm as [Hm Hlt].
  apply in_map_iff in Hm. destruct Hm as [m0 [Heq Hm0]]. subst m. cbn in *. specialize (H m0 Hm0). lia.
Qed.

Fixpoint iter_step (n : nat) (ti step : Z) (fm : foreign_master) : foreign_master :=
  match n with O => fm | S n' => fm_step_age ti step (iter_step n' ti step fm) end.

Lemma iter_step_ages n ti step fm :
  0 <= step -> Forall (fun m => 0 <= fm_age m) (fmr_msgs fm) ->
  Forall (fun m => Z.of_nat n * step <= fm_age m) (fmr_msgs (iter_step n ti step fm)).
Proof.
  intros Hs H0. induction n as [|n IH]; cbn [iter_step].
  - rewrite Forall_forall in *. intros m Hm. specialize (H0 m Hm). lia.
  - pose proof (fm_step_age_lower ti step _ _ IH) as H.
    rewrite Forall_forall in *. intros m Hm. specialize (H m Hm). lia.
Qed.

(** after n silent BMCA runs with n * bmca_interval >= WINDOW * announce_interval
    no Announce of the master is left, so it cannot be selected any more *)
Lemma silent_master_expires n ti step fm :
  0 < step -> Forall (fun m => 0 <= fm_age m) (fmr_msgs fm) ->
  (1 <= n)%nat -> cutoff_age ti <= Z.of_nat n * step ->
  fmr_msgs (iter_step n ti step fm) = [].
Proof.
  intros Hs H0 Hn Hc. destruct n as [|n]; [lia|]. cbn [iter_step].
  pose proof (iter_step_ages n ti step fm ltac:(lia) H0) as Hlow.
  pose proof (fm_step_age_lower ti step _ _ Hlow) as H.
  destruct (fmr_msgs (fm_step_age ti step (iter_step n ti step fm))) as [|m l]; [reflexivity|].
  inversion H; subst. lia.
Qed.
