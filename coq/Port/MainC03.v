(** C03_main: for every valid set-up and every valid event list, the oracle
    ok_C03 accepts the model's own trace (whole-history statement tying the
    executable oracle to the invariant proof). *)
From SV Require Export Port.InvRun Port.OracleC03.

Lemma run_length i : forall es, ~ In SRPanic (run i es) -> length (run i es) = length es.
Proof.
  intros es. revert i. induction es as [|e es IH]; intros i H; cbn [run] in *; [reflexivity|].
  destruct (step i e) as [[i' o]|s].
  - cbn [length]. f_equal. apply IH. intros Hin. apply H. right. exact Hin.
  - exfalso. apply H. left. reflexivity.
Qed.

Lemma no_panic_iff rs : ~ In SRPanic rs -> no_panic rs = true.
Proof.
  intros H. unfold no_panic. apply forallb_forall. intros r Hr. destruct r; [reflexivity|].
  exfalso. apply H. exact Hr.
Qed.

Theorem ok_C03_model s es rel :
  setup_valid s -> Forall event_valid es ->
  exists i o, init s = Ok (i, o) /\ ok_C03 (mkCase s es rel (Some o) (run i es)) = true.
Proof.
  intros Hs Hes. destruct (no_panic_ever s es Hs Hes) as (i & o & Hi & Hnp).
  exists i, o. split; [exact Hi|].
  unfold ok_C03, model_init, model_trace. cbn [pc_init pc_trace pc_events pc_setup]. rewrite Hi.
  rewrite (no_panic_iff _ Hnp), (run_length _ _ Hnp), Nat.eqb_refl. reflexivity.
Qed.
