(** Sequence counters: which calls advance which counter (groundwork for the
    whole-history sequence-id theorem of C10). *)
From SV Require Export Port.LockMain.

Definition seqs_of (p : port) : Z * Z * Z * Z := (p_seq_announce p, p_seq_sync p, p_seq_delay p, p_seq_pdelay p).

Definition keeps_seqs (p : port) (r : hres) : Prop :=
  forall p' d' o, r = Ok (p', d', o) -> seqs_of p' = seqs_of p.

Lemma draw_seqs x z y : draw x = (z, y) -> seqs_of y = seqs_of x.
Proof. unfold draw. destruct (p_rng x); intros E; inversion E; reflexivity. Qed.

Lemma extract_measurement_seqs p p' om o : extract_measurement p = Ok (p', om, o) -> seqs_of p' = seqs_of p.
Proof.
  unfold extract_measurement, set_forced. intros H. crunch H;
    repeat match goal with E : (if ?c then _ else _) = (_, _) |- _ => destruct c; inversion E; subst; clear E end;
    reflexivity.
Qed.

Lemma handle_time_measurement_seqs p d : keeps_seqs p (handle_time_measurement p d).
Proof.
  unfold keeps_seqs, handle_time_measurement. intros p' d' o H.
  destruct (extract_measurement p) as [[[p1 om] o1]|?] eqn:E; cbn [obind] in H; [|discriminate].
  pose proof (extract_measurement_seqs _ _ _ _ E) as H1.
  destruct om as [m|]; [destruct (filter_mean_delay m)|]; unfold ret in H; inversion H; subst; exact H1.
Qed.

Lemma go_faulty_seqs p d : keeps_seqs p (go_faulty p d).
Proof. unfold keeps_seqs, go_faulty, set_forced, ret. intros p' d' o H. inversion H; reflexivity. Qed.

Ltac sq H :=
  crunch H; try reflexivity;
  try (match goal with Hx : handle_time_measurement ?q ?dd = Ok _ |- _ =>
         rewrite (handle_time_measurement_seqs q dd _ _ _ Hx); reflexivity end);
  try (match goal with Hx : go_faulty ?q ?dd = Ok _ |- _ =>
         rewrite (go_faulty_seqs q dd _ _ _ Hx); reflexivity end).

Lemma handle_sync_seqs p d h w t : keeps_seqs p (handle_sync p d h w t).
Proof. unfold keeps_seqs, handle_sync. intros p' d' o H. sq H. Qed.
Lemma handle_follow_up_seqs p d h w : keeps_seqs p (handle_follow_up p d h w).
Proof. unfold keeps_seqs, handle_follow_up. intros p' d' o H. sq H. Qed.
Lemma handle_delay_resp_seqs p d h w r : keeps_seqs p (handle_delay_resp p d h w r).
Proof. unfold keeps_seqs, handle_delay_resp. intros p' d' o H. sq H. Qed.
Lemma handle_delay_timestamp_seqs p d id t : keeps_seqs p (handle_delay_timestamp p d id t).
Proof. unfold keeps_seqs, handle_delay_timestamp. intros p' d' o H. sq H. Qed.
Lemma handle_pdelay_timestamp_seqs p d id t : keeps_seqs p (handle_pdelay_timestamp p d id t).
Proof. unfold keeps_seqs, handle_pdelay_timestamp. intros p' d' o H. sq H. Qed.
Lemma handle_peer_delay_response_seqs p d h w r t : keeps_seqs p (handle_peer_delay_response p d h w r t).
Proof. unfold keeps_seqs, handle_peer_delay_response. intros p' d' o H. sq H. Qed.
Lemma handle_peer_delay_follow_up_seqs p d h w r : keeps_seqs p (handle_peer_delay_follow_up p d h w r).
Proof. unfold keeps_seqs, handle_peer_delay_follow_up. cbv zeta. intros p' d' o H. sq H. Qed.
Lemma handle_sync_timestamp_seqs p d id ts : keeps_seqs p (handle_sync_timestamp p d id ts).
Proof. unfold keeps_seqs, handle_sync_timestamp. intros p' d' o H. sq H. Qed.
Lemma handle_delay_req_seqs p d h ts : keeps_seqs p (handle_delay_req p d h ts).
Proof. unfold keeps_seqs, handle_delay_req. intros p' d' o H. sq H. Qed.
Lemma handle_pdelay_req_seqs p d h ts : keeps_seqs p (handle_pdelay_req p d h ts).
Proof. unfold keeps_seqs, handle_pdelay_req. intros p' d' o H. sq H. Qed.
Lemma handle_pdelay_response_timestamp_seqs p d id rq ts : keeps_seqs p (handle_pdelay_response_timestamp p d id rq ts).
Proof. unfold keeps_seqs, handle_pdelay_response_timestamp. intros p' d' o H. sq H. Qed.
Lemma receipt_timer_seqs p d : keeps_seqs p (handle_announce_receipt_timer p d).
Proof.
  unfold keeps_seqs, handle_announce_receipt_timer, set_forced. intros p' d' o H.
  repeat match type of H with
  | context [draw ?x] => let E := fresh "Ed" in destruct (draw x) as [? ?] eqn:E; apply draw_seqs in E
  | context [if ?c then _ else _] => destruct c
  end; unfold ret in H; inversion H; subst; try reflexivity;
  repeat match goal with E : seqs_of _ = _ |- _ => rewrite E; clear E end; reflexivity.
Qed.
Lemma handle_announce_seqs p d ti m a : keeps_seqs p (handle_announce p d ti m a).
Proof.
  unfold keeps_seqs, handle_announce. cbv zeta. intros p' d' o H.
  match type of H with obind ?X _ = _ => destruct X as [[[d1 lp] locks]|?] end; cbn [obind] in H; [|discriminate].
  destruct lp; [unfold ret in H; inversion H; reflexivity|].
  destruct (bmca_register _ _ _ _ _ _) as [acc fml]. destruct acc; [|unfold ret in H; inversion H; reflexivity].
  unfold set_forced in H.
  match type of H with context [if ?c then _ else _] => destruct c end;
    match type of H with context [draw ?x] => let E := fresh "Ed" in destruct (draw x) as [k p3] eqn:E; apply draw_seqs in E end;
    unfold ret in H; inversion H; subst; rewrite Ed; reflexivity.
Qed.

(** * BMCA leaves every counter alone *)
Lemma calc_local_best_seqs p b : calc_local_best p = Ok b -> seqs_of (bp_port b) = seqs_of p.
Proof.
  unfold calc_local_best. destruct (bmca_take_best _ _ _ _) as [r|?]; cbn [obind]; [|discriminate].
  intros H. inversion H; reflexivity.
Qed.

Lemma set_recommended_port_state_seqs b rs dd b1 :
  set_recommended_port_state b rs dd = Ok b1 -> seqs_of (bp_port b1) = seqs_of (bp_port b).
Proof.
  intros H. unfold set_recommended_port_state, set_forced in H.
  destruct rs as [d0|d0|h a|h a|h a|h a];
    repeat match type of H with context [draw ?x] =>
      let E := fresh "Ed" in destruct (draw x) as [? ?] eqn:E; apply draw_seqs in E end;
    crunch H; cbn [bp_port]; try reflexivity;
    repeat match goal with E : seqs_of _ = _ |- _ => rewrite E; clear E end; reflexivity.
Qed.

Lemma set_recommended_state_seqs b rs d b' d' :
  set_recommended_state b rs d = Ok (b', d') -> seqs_of (bp_port b') = seqs_of (bp_port b).
Proof.
  unfold set_recommended_state. intros H.
  destruct (set_recommended_port_state b rs (ds_default d)) as [b1|?] eqn:E1; cbn [obind] in H; [|discriminate].
  pose proof (set_recommended_port_state_seqs _ _ _ _ E1) as H1.
  destruct rs; crunch H; cbn [bp_port]; exact H1.
Qed.

Lemma bmca_decide_seqs ebest : forall todo done d done' d',
  bmca_decide ebest d todo done = Ok (done', d') ->
  exists tail, done' = done ++ tail /\ Forall2 (fun b b' => seqs_of (bp_port b') = seqs_of (bp_port b)) todo tail.
Proof.
  induction todo as [|b todo IH]; intros done d done' d' H; cbn [bmca_decide] in H.
  - inversion H; subst. exists []. rewrite app_nil_r. split; [reflexivity|constructor].
  - destruct (recommended_state _ _ _ _) as [r|?]; cbn [obind] in H; [|discriminate].
    destruct r as [rs|].
    + destruct (set_recommended_state b rs d) as [[b' d1]|?] eqn:E; cbn [obind fst snd] in H; [|discriminate].
      destruct (IH _ _ _ _ H) as (tail & -> & Ht). exists (b' :: tail). rewrite <- app_assoc. split; [reflexivity|].
      constructor; [eapply set_recommended_state_seqs; exact E|exact Ht].
    + destruct (IH _ _ _ _ H) as (tail & -> & Ht). exists (b :: tail). rewrite <- app_assoc. split; [reflexivity|].
      constructor; [reflexivity|exact Ht].
Qed.

Lemma step_announce_age_seqs step p p' : step_announce_age step p = Ok p' -> seqs_of p' = seqs_of p.
Proof.
  unfold step_announce_age. destruct (dur_from_log_interval _); cbn [obind]; [|discriminate].
  intros H. inversion H; subst. destruct (p_multiport_disable p); reflexivity.
Qed.

Lemma bmca_seqs i i' o : bmca i = Ok (i', o) -> map seqs_of (i_ports i') = map seqs_of (i_ports i).
Proof.
  unfold bmca. intros H.
  destruct (bmca_interval_dur _) as [step|?]; cbn [obind] in H; [|discriminate].
  destruct (negb _); [discriminate|].
  destruct (omap_list calc_local_best (i_ports i)) as [bps|?] eqn:E1; cbn [obind] in H; [|discriminate].
  destruct (find_best _) as [ebest|?]; cbn [obind] in H; [|discriminate].
  destruct (bmca_decide ebest (i_ds i) bps []) as [[bps1 d1]|?] eqn:E2; cbn [obind] in H; [|discriminate].
  destruct (omap_list _ bps1) as [ports|?] eqn:E3; cbn [obind] in H; [|discriminate].
  inversion H; subst. cbn [i_ports].
  pose proof (omap_list_rel _ (fun p b => seqs_of (bp_port b) = seqs_of p) calc_local_best_seqs _ _ E1) as R1.
  destruct (bmca_decide_seqs _ _ _ _ _ _ E2) as (tail & Ht & R2). cbn [app] in Ht. subst tail.
  pose proof (omap_list_rel _ (fun b p' => seqs_of p' = seqs_of (bp_port b))
                (fun b p' Hx => step_announce_age_seqs _ _ _ Hx) _ _ E3) as R3.
  clear - R1 R2 R3. revert bps1 ports R2 R3. induction R1 as [|p b lp lb Hpb _ IH]; intros bps1 ports R2 R3.
  - inversion R2; subst. inversion R3; subst. reflexivity.
  - inversion R2 as [|? b1 ? lb1 Hb1 R2']; subst. inversion R3 as [|? p' ? lp' Hp' R3']; subst.
    cbn [map]. rewrite Hp', Hb1, Hpb. f_equal. eapply IH; eassumption.
Qed.

(** * The emitters advance exactly their own counter, and only when they emit *)
Lemma send_sync_seqs p d p' d' o : send_sync p d = Ok (p', d', o) ->
  seqs_of p' = if is_master (p_state p)
               then (p_seq_announce p, gen16 (p_seq_sync p), p_seq_delay p, p_seq_pdelay p) else seqs_of p.
Proof. unfold send_sync. intros H. destruct (is_master (p_state p)); crunch H; reflexivity. Qed.

Lemma send_announce_seqs p d q p' d' o : send_announce p d q = Ok (p', d', o) ->
  seqs_of p' = if is_master (p_state p)
               then (gen16 (p_seq_announce p), p_seq_sync p, p_seq_delay p, p_seq_pdelay p) else seqs_of p.
Proof.
  unfold send_announce. destruct (is_master (p_state p)); [|intros H; unfold ret in H; inversion H; reflexivity].
  match goal with |- context [let '(a, b) := ?X in _] => destruct X as [pb m1] end.
  destruct (announce_tlv_loop _ _ _ _ _ _ _) as [[sfx locks]|?]; cbn [obind]; [|discriminate].
  destruct (serialize_packet _); cbn [obind]; [|discriminate]. intros H. unfold ret in H. inversion H; reflexivity.
Qed.

Lemma send_delay_request_seqs p d p' d' o : send_delay_request p d = Ok (p', d', o) ->
  seqs_of p' = match pc_delay (p_config p) with
               | P2P _ => (p_seq_announce p, p_seq_sync p, p_seq_delay p, gen16 (p_seq_pdelay p))
               | E2E _ => if is_slave (p_state p)
                          then (p_seq_announce p, p_seq_sync p, gen16 (p_seq_delay p), p_seq_pdelay p) else seqs_of p
               end.
Proof.
  unfold send_delay_request. intros H. destruct (pc_delay (p_config p)).
  - destruct (p_state p) eqn:Est; cbn [is_slave]; try (unfold ret in H; inversion H; reflexivity).
    destruct (serialize_packet _); cbn [obind] in H; [|discriminate].
    match type of H with context [draw ?x] => let E := fresh "Ed" in destruct (draw x) as [k p3] eqn:E; apply draw_seqs in E end.
    unfold ret in H. inversion H; subst. rewrite Ed. reflexivity.
  - destruct (serialize_packet _); cbn [obind] in H; [|discriminate].
    match type of H with context [draw ?x] => let E := fresh "Ed" in destruct (draw x) as [k p3] eqn:E; apply draw_seqs in E end.
    unfold ret in H. inversion H; subst. rewrite Ed. reflexivity.
Qed.

(** * One call on a port: at most one frame, and the counters move accordingly *)
Definition counter (t : msg_type) (p : port) : Z :=
  match t with
  | MTSync => p_seq_sync p | MTDelayReq => p_seq_delay p
  | MTPDelayReq => p_seq_pdelay p | MTAnnounce => p_seq_announce p
  | _ => 0
  end.

Definition msg_type_eqb' (a b : msg_type) : bool := msg_type_code a =? msg_type_code b.

(** after a call that emitted [fr] (none, or one frame decoding to m) *)
Definition seq_call (p p' : port) (oo : list obs) : Prop :=
  (sent_frames oo = [] /\ seqs_of p' = seqs_of p) \/
  (exists x m, sent_frames oo = [x] /\ decode (snd x) = ROk m /\ seq_fact p m /\
     forall t, counted_type t = true ->
       counter t p' = if msg_type_eqb' t (body_type (m_body m)) then gen16 (counter t p) else counter t p).

Lemma seq_call_quiet p p' oo : no_send oo = true -> seqs_of p' = seqs_of p -> seq_call p p' oo.
Proof. intros H1 H2. left. split; [apply no_send_frames; exact H1|exact H2]. Qed.

Lemma counter_of_seqs t p p' : seqs_of p' = seqs_of p -> counter t p' = counter t p.
Proof. unfold seqs_of. intros H. inversion H. destruct t; cbn [counter]; congruence. Qed.

(** the message type can be read off the first octet *)
Lemma encode_raw_type m1 m2 :
  encode_raw m1 = encode_raw m2 -> body_type (m_body m1) = body_type (m_body m2).
Proof.
  unfold encode_raw, encode_header. intros H.
  cbn [app] in H. injection H as H0 _.
  assert (Hc : msg_type_code (body_type (m_body m1)) = msg_type_code (body_type (m_body m2))).
  { set (a := h_sdo_id (m_header m1) / 256) in *. set (b := h_sdo_id (m_header m2) / 256) in *.
    assert (Ha : (a * 16) mod 256 = 16 * (a mod 16)) by (rewrite Z.mul_comm; change 256 with (16 * 16); rewrite Zmult_mod_distr_l; reflexivity).
    assert (Hb : (b * 16) mod 256 = 16 * (b mod 16)) by (rewrite Z.mul_comm; change 256 with (16 * 16); rewrite Zmult_mod_distr_l; reflexivity).
    rewrite Ha, Hb in H0.
    assert (C1 : 0 <= msg_type_code (body_type (m_body m1)) < 16) by (destruct (body_type (m_body m1)); cbn; lia).
    assert (C2 : 0 <= msg_type_code (body_type (m_body m2)) < 16) by (destruct (body_type (m_body m2)); cbn; lia).
    lia. }
  destruct (body_type (m_body m1)), (body_type (m_body m2)); try reflexivity; discriminate Hc.
Qed.

(** explicit frames of the three counted emitters that can fire on a timer *)
Lemma send_sync_frame p d p' d' o : send_sync p d = Ok (p', d', o) ->
  if is_master (p_state p)
  then sent_frames o = [(true, encode_raw (msg_sync (ds_default d) (p_identity p) (p_seq_sync p) (pc_minor (p_config p))))]
  else sent_frames o = [].
Proof.
  unfold send_sync. destruct (is_master (p_state p)); [|intros H; unfold ret in H; inversion H; reflexivity].
  destruct (serialize_packet _) as [f|?] eqn:Ef; cbn [obind]; [|discriminate]. intros H. unfold ret in H. inversion H; subst.
  apply serialize_inv in Ef. subst f. reflexivity.
Qed.

Lemma seq_call_single p p' d oo x m0 t0 :
  frames_role p d oo -> sent_frames oo = [x] -> snd x = encode_raw m0 -> body_type (m_body m0) = t0 ->
  (forall t, counted_type t = true ->
     counter t p' = if msg_type_eqb' t t0 then gen16 (counter t p) else counter t p) ->
  seq_call p p' oo.
Proof.
  intros Hf Hs Hx Ht Hc. right. unfold frames_role in Hf. rewrite Hs in Hf. inversion Hf as [|? ? Hfx _]; subst.
  destruct Hfx as (m' & Hd & _ & _ & Henc & _ & _ & _ & _ & _ & _ & Hsq).
  exists x, m'. split; [exact Hs|]. split; [exact Hd|]. split; [exact Hsq|].
  rewrite Hx in Henc. rewrite <- (encode_raw_type _ _ Henc). exact Hc.
Qed.

(** frame of each emitter: none, or one frame of a known type *)
Definition one_frame (o : list obs) (t0 : msg_type) : Prop :=
  exists ev m0, sent_frames o = [(ev, encode_raw m0)] /\ body_type (m_body m0) = t0.

Ltac one_frame_tac Ef :=
  apply serialize_inv in Ef; subst; eexists; eexists; split; [reflexivity|reflexivity].

Lemma send_sync_one p d p' d' o : send_sync p d = Ok (p', d', o) ->
  if is_master (p_state p) then one_frame o MTSync else sent_frames o = [].
Proof.
  unfold send_sync. destruct (is_master (p_state p)); [|intros H; unfold ret in H; inversion H; reflexivity].
  destruct (serialize_packet _) as [f|?] eqn:Ef; cbn [obind]; [|discriminate]. intros H. unfold ret in H. inversion H; subst.
  one_frame_tac Ef.
Qed.

Lemma handle_sync_timestamp_one p d id ts p' d' o : handle_sync_timestamp p d id ts = Ok (p', d', o) ->
  if is_master (p_state p) then one_frame o MTFollowUp else sent_frames o = [].
Proof.
  unfold handle_sync_timestamp, msg_follow_up. destruct (is_master (p_state p)); [|intros H; unfold ret in H; inversion H; reflexivity].
  destruct (wire_of_time ts); cbn [obind]; [|discriminate].
  destruct (serialize_packet _) as [f|?] eqn:Ef; cbn [obind]; [|discriminate]. intros H. unfold ret in H. inversion H; subst.
  one_frame_tac Ef.
Qed.

Lemma handle_delay_req_one p d h ts p' d' o : handle_delay_req p d h ts = Ok (p', d', o) ->
  if is_master (p_state p) then one_frame o MTDelayResp else sent_frames o = [].
Proof.
  unfold handle_delay_req, msg_delay_resp. destruct (is_master (p_state p)); [|intros H; unfold ret in H; inversion H; reflexivity].
  destruct (wire_of_time ts); cbn [obind]; [|discriminate].
  destruct (serialize_packet _) as [f|?] eqn:Ef; cbn [obind]; [|discriminate]. intros H. unfold ret in H. inversion H; subst.
  one_frame_tac Ef.
Qed.

Lemma handle_pdelay_req_one p d h ts p' d' o : handle_pdelay_req p d h ts = Ok (p', d', o) -> one_frame o MTPDelayResp.
Proof.
  unfold handle_pdelay_req, msg_pdelay_resp. destruct (wire_of_time ts); cbn [obind]; [|discriminate].
  destruct (serialize_packet _) as [f|?] eqn:Ef; cbn [obind]; [|discriminate]. intros H. unfold ret in H. inversion H; subst.
  one_frame_tac Ef.
Qed.

Lemma handle_pdelay_response_timestamp_one p d id rq ts p' d' o :
  handle_pdelay_response_timestamp p d id rq ts = Ok (p', d', o) -> one_frame o MTPDelayRespFollowUp.
Proof.
  unfold handle_pdelay_response_timestamp, msg_pdelay_resp_follow_up. destruct (wire_of_time ts); cbn [obind]; [|discriminate].
  destruct (serialize_packet _) as [f|?] eqn:Ef; cbn [obind]; [|discriminate]. intros H. unfold ret in H. inversion H; subst.
  one_frame_tac Ef.
Qed.

Lemma send_delay_request_one p d p' d' o : send_delay_request p d = Ok (p', d', o) ->
  match pc_delay (p_config p) with
  | P2P _ => one_frame o MTPDelayReq
  | E2E _ => if is_slave (p_state p) then one_frame o MTDelayReq else sent_frames o = []
  end.
Proof.
  unfold send_delay_request. destruct (pc_delay (p_config p)).
  - destruct (p_state p); cbn [is_slave]; try (intros H; unfold ret in H; inversion H; reflexivity).
    destruct (serialize_packet _) as [f|?] eqn:Ef; cbn [obind]; [|discriminate].
    match goal with |- context [draw ?x] => destruct (draw x) as [k p3] end.
    intros H. unfold ret in H. inversion H; subst. one_frame_tac Ef.
  - destruct (serialize_packet _) as [f|?] eqn:Ef; cbn [obind]; [|discriminate].
    match goal with |- context [draw ?x] => destruct (draw x) as [k p3] end.
    intros H. unfold ret in H. inversion H; subst. one_frame_tac Ef.
Qed.

Lemma send_announce_one p d q p' d' o : send_announce p d q = Ok (p', d', o) ->
  if is_master (p_state p) then one_frame o MTAnnounce else sent_frames o = [].
Proof.
  unfold send_announce. destruct (is_master (p_state p)); [|intros H; unfold ret in H; inversion H; reflexivity].
  match goal with |- context [let '(a, b) := ?X in _] => destruct X as [pb m1] end.
  destruct (announce_tlv_loop _ _ _ _ _ _ _) as [[sfx locks]|?] eqn:El; cbn [obind]; [|discriminate].
  destruct (serialize_packet _) as [f|?] eqn:Ef; cbn [obind]; [|discriminate].
  intros H. unfold ret in H. inversion H; subst. apply serialize_inv in Ef. subst f.
  pose proof (tlv_loop_locks _ _ _ _ _ _ _ _ _ El (Forall_nil _)) as Hl.
  assert (Hns : sent_frames locks = []).
  { apply no_send_frames. unfold no_send. apply forallb_forall. intros x Hx. rewrite Forall_forall in Hl. rewrite (Hl x Hx). reflexivity. }
  eexists; eexists. split.
  - match goal with |- sent_frames (rd_lock :: rd_lock :: locks ++ ?l) = _ =>
      change (rd_lock :: rd_lock :: locks ++ l) with ([rd_lock; rd_lock] ++ locks ++ l) end.
    unfold sent_frames in *. rewrite !flat_map_app, Hns. reflexivity.
  - reflexivity.
Qed.

Lemma uncounted_same t t0 : counted_type t = true -> counted_type t0 = false -> msg_type_eqb' t t0 = false.
Proof. destruct t, t0; cbn; intros; try reflexivity; discriminate. Qed.

Lemma seq_call_uncounted p p' d oo t0 :
  frames_role p d oo -> one_frame oo t0 -> counted_type t0 = false -> seqs_of p' = seqs_of p -> seq_call p p' oo.
Proof.
  intros Hf (ev & m0 & Hs & Ht) Hu Hq. eapply seq_call_single; [exact Hf|exact Hs|reflexivity|exact Ht|].
  intros t Hc. rewrite (uncounted_same _ _ Hc Hu). apply counter_of_seqs. exact Hq.
Qed.

Lemma seq_call_prepend p p' o1 o2 : no_send o1 = true -> seq_call p p' o2 -> seq_call p p' (o1 ++ o2).
Proof.
  intros H1 Hc. assert (Hs : sent_frames (o1 ++ o2) = sent_frames o2).
  { unfold sent_frames. rewrite flat_map_app. fold (sent_frames o1). rewrite (no_send_frames _ H1). reflexivity. }
  destruct Hc as [[A B]|(x & m & A & B)]; [left|right].
  - rewrite Hs. split; assumption.
  - exists x, m. rewrite Hs. split; assumption.
Qed.

Lemma handle_general_internal_seqs p d ti m : keeps_seqs p (handle_general_internal p d ti m).
Proof.
  unfold keeps_seqs, handle_general_internal. intros p' d' o H. destruct (m_body m);
    try (unfold ret in H; inversion H; reflexivity).
  - eapply handle_follow_up_seqs; eauto.
  - eapply handle_delay_resp_seqs; eauto.
  - eapply handle_peer_delay_follow_up_seqs; eauto.
  - eapply handle_announce_seqs; eauto.
Qed.

Lemma general_receive_seq_call p d ti frame p' d' o :
  handle_general_receive p d ti frame = Ok (p', d', o) -> seq_call p p' o.
Proof.
  intros H. apply seq_call_quiet; [eapply handle_general_receive_no_send; eauto|].
  unfold handle_general_receive in H. destruct (parse_and_filter d frame) as [[m|] o1].
  - unfold prepend in H. destruct (handle_general_internal p d ti m) as [[[p1 d1] o2]|?] eqn:E; cbn [obind] in H; [|discriminate].
    inversion H; subst. eapply handle_general_internal_seqs; eauto.
  - unfold ret in H. inversion H; reflexivity.
Qed.

Lemma event_receive_seq_call p d ti frame ts p' d' o :
  port_inv p -> ds_inv d -> bok frame -> ts_valid ts ->
  handle_event_receive p d ti frame ts = Ok (p', d', o) -> seq_call p p' o.
Proof.
  intros Hp Hd Hf Hts H. pose proof (event_receive_in_role _ _ _ _ _ _ _ _ Hp Hd Hf Hts H) as [Hfr _].
  unfold handle_event_receive in H. pose proof (parse_calm true d frame) as Hpc.
  unfold parse_and_filter in *. destruct (negb (is_compatible frame)).
  { unfold ret in H. inversion H; subst. left. split; reflexivity. }
  destruct (decode frame) as [m|e] eqn:Ed; [|unfold ret in H; inversion H; subst; left; split; reflexivity].
  destruct (decoded_wf frame m Hf Ed) as (Hh & Hb & Hsuf).
  destruct (_ && _) eqn:Edom; [|unfold ret in H; inversion H; subst; left; split; reflexivity].
  apply andb_true_iff in Edom as [Esdo Edom]. apply Z.eqb_eq in Esdo, Edom.
  unfold prepend in H.
  match type of H with obind ?X _ = _ => destruct X as [[[p1 d1] o2]|?] eqn:E end; cbn [obind] in H; [|discriminate].
  inversion H; subst. apply (seq_call_prepend p p' [rd_lock] o2); [reflexivity|].
  destruct (m_body m) eqn:Eb; cbn in Hb.
  - apply seq_call_quiet; [eapply calm_no_send; eapply handle_sync_calm; eauto|eapply handle_sync_seqs; eauto].
  - pose proof (handle_delay_req_one _ _ _ _ _ _ _ E) as Ho. pose proof (handle_delay_req_seqs _ _ _ _ _ _ _ E) as Hq.
    destruct (is_master (p_state p)).
    + eapply seq_call_uncounted; [eapply handle_delay_req_role; eauto|exact Ho|reflexivity|exact Hq].
    + left. split; assumption.
  - eapply seq_call_uncounted; [eapply handle_pdelay_req_role; eauto|eapply handle_pdelay_req_one; eauto|reflexivity|eapply handle_pdelay_req_seqs; eauto].
  - destruct Hb. apply seq_call_quiet; [eapply calm_no_send; eapply handle_peer_delay_response_calm; eauto|eapply handle_peer_delay_response_seqs; eauto].
  - apply seq_call_quiet; [eapply calm_no_send; eapply handle_general_internal_calm; eauto|eapply handle_general_internal_seqs; eauto].
  - apply seq_call_quiet; [eapply calm_no_send; eapply handle_general_internal_calm; eauto|eapply handle_general_internal_seqs; eauto].
  - apply seq_call_quiet; [eapply calm_no_send; eapply handle_general_internal_calm; eauto|eapply handle_general_internal_seqs; eauto].
  - apply seq_call_quiet; [eapply calm_no_send; eapply handle_general_internal_calm; eauto|eapply handle_general_internal_seqs; eauto].
  - apply seq_call_quiet; [eapply calm_no_send; eapply handle_general_internal_calm; eauto|eapply handle_general_internal_seqs; eauto].
  - apply seq_call_quiet; [eapply calm_no_send; eapply handle_general_internal_calm; eauto|eapply handle_general_internal_seqs; eauto].
Qed.

Ltac ctr_tac :=
  unfold msg_type_eqb'; cbn [msg_type_code counter];
  repeat match goal with |- context [?a =? ?b] =>
    let v := eval vm_compute in (a =? b) in change (a =? b) with v end;
  cbv iota; congruence.

Lemma send_timestamp_seq_call p d c ts p' d' o :
  port_inv p -> ds_inv d -> ts_valid ts -> ctx_valid c ->
  handle_send_timestamp p d c ts = Ok (p', d', o) -> seq_call p p' o.
Proof.
  intros Hp Hd Hts Hc H. unfold handle_send_timestamp in H. destruct c; cbn [ctx_valid] in Hc.
  - pose proof (handle_sync_timestamp_one _ _ _ _ _ _ _ H) as Ho. pose proof (handle_sync_timestamp_seqs _ _ _ _ _ _ _ H) as Hq.
    destruct (is_master (p_state p)).
    + eapply seq_call_uncounted; [eapply handle_sync_timestamp_role; eauto|exact Ho|reflexivity|exact Hq].
    + left. split; assumption.
  - apply seq_call_quiet; [eapply calm_no_send; eapply handle_delay_timestamp_calm; eauto|eapply handle_delay_timestamp_seqs; eauto].
  - apply seq_call_quiet; [eapply calm_no_send; eapply handle_pdelay_timestamp_calm; eauto|eapply handle_pdelay_timestamp_seqs; eauto].
  - destruct Hc. eapply seq_call_uncounted; [eapply handle_pdelay_response_timestamp_role; eauto
      |eapply handle_pdelay_response_timestamp_one; eauto|reflexivity|eapply handle_pdelay_response_timestamp_seqs; eauto].
Qed.

Lemma sync_timer_seq_call p d p' d' o :
  port_inv p -> ds_inv d -> send_sync p d = Ok (p', d', o) -> seq_call p p' o.
Proof.
  intros Hp Hd H. pose proof (send_sync_one _ _ _ _ _ H) as Ho. pose proof (send_sync_seqs _ _ _ _ _ H) as Hq.
  destruct (is_master (p_state p)).
  - destruct Ho as (ev & m0 & Hs & Ht). eapply seq_call_single; [eapply send_sync_role; eauto|exact Hs|reflexivity|exact Ht|].
    unfold seqs_of in Hq. inversion Hq. intros t Hc. destruct t; try discriminate Hc; ctr_tac.
  - left. split; assumption.
Qed.

Lemma announce_timer_seq_call p d q p' d' o :
  port_inv p -> ds_inv d -> Forall (fun f => tlv_wf (fw_tlv f)) q ->
  send_announce p d q = Ok (p', d', o) -> seq_call p p' o.
Proof.
  intros Hp Hd Hqv H. pose proof (send_announce_one _ _ _ _ _ _ H) as Ho. pose proof (send_announce_seqs _ _ _ _ _ _ H) as Hq.
  destruct (is_master (p_state p)).
  - destruct Ho as (ev & m0 & Hs & Ht). eapply seq_call_single; [eapply send_announce_role; eauto|exact Hs|reflexivity|exact Ht|].
    unfold seqs_of in Hq. inversion Hq. intros t Hc. destruct t; try discriminate Hc; ctr_tac.
  - left. split; assumption.
Qed.

Lemma delay_timer_seq_call p d p' d' o :
  port_inv p -> ds_inv d -> send_delay_request p d = Ok (p', d', o) -> seq_call p p' o.
Proof.
  intros Hp Hd H. pose proof (send_delay_request_one _ _ _ _ _ H) as Ho. pose proof (send_delay_request_seqs _ _ _ _ _ H) as Hq.
  destruct (pc_delay (p_config p)).
  - destruct (is_slave (p_state p)).
    + destruct Ho as (ev & m0 & Hs & Ht). eapply seq_call_single; [eapply send_delay_request_role; eauto|exact Hs|reflexivity|exact Ht|].
      unfold seqs_of in Hq. inversion Hq. intros t Hc. destruct t; try discriminate Hc; ctr_tac.
    + left. split; assumption.
  - destruct Ho as (ev & m0 & Hs & Ht). eapply seq_call_single; [eapply send_delay_request_role; eauto|exact Hs|reflexivity|exact Ht|].
    unfold seqs_of in Hq. inversion Hq. intros t Hc. destruct t; try discriminate Hc; ctr_tac.
Qed.

(** * The sequence conjunct of ok_C10 over a whole history *)
Definition seq_ports (c : pcase) (sm : seqmap) (o : list tobs) : option seqmap :=
  fold_left (fun acc q => match acc with
                          | None => None
                          | Some sm => seq_check sm (Z.of_nat q) (sent_frames (obs_of_port o q))
                          end) (all_ports c) (Some sm).
Fixpoint walk_seq (c : pcase) (sm : seqmap) (rs : list step_result) : bool :=
  match rs with
  | SROk o _ :: rs' => match seq_ports c sm o with Some sm' => walk_seq c sm' rs' | None => false end
  | _ => true
  end.
Definition ok_C10_seq (c : pcase) : bool := walk_seq c [] (pc_trace c).

Definition sm_inv (sm : seqmap) (i : instance) : Prop :=
  forall q p t s, nth_error (i_ports i) q = Some p -> counted_type t = true ->
    sm_get sm (Z.of_nat q) (msg_type_code t) = Some s -> counter t p = (s + 1) mod 65536.

Lemma fold_none (l : list nat) (g : nat -> list (bool * bytes)) :
  fold_left (fun acc q => match acc with None => None | Some sm => seq_check sm (Z.of_nat q) (g q) end) l None = None.
Proof. induction l; cbn [fold_left]; auto. Qed.

Lemma fold_single (g : nat -> list (bool * bytes)) n : forall l sm,
  NoDup l -> (forall q, In q l -> q <> n -> g q = []) ->
  fold_left (fun acc q => match acc with None => None | Some sm => seq_check sm (Z.of_nat q) (g q) end) l (Some sm)
  = if in_dec Nat.eq_dec n l then seq_check sm (Z.of_nat n) (g n) else Some sm.
Proof.
  induction l as [|a l IH]; intros sm Hnd Hg; cbn [fold_left]; [reflexivity|].
  inversion Hnd as [|? ? Hna Hnd']; subst.
  destruct (Nat.eq_dec a n) as [->|Hne].
  - destruct (in_dec Nat.eq_dec n (n :: l)) as [_|Hn]; [|exfalso; apply Hn; left; reflexivity].
    destruct (seq_check sm (Z.of_nat n) (g n)) as [sm1|]; [|apply fold_none].
    rewrite IH; [|exact Hnd'|intros q Hq Hqn; apply Hg; [right; exact Hq|exact Hqn]].
    destruct (in_dec Nat.eq_dec n l) as [Hin|_]; [contradiction|reflexivity].
  - rewrite (Hg a (or_introl eq_refl) Hne). cbn [seq_check].
    rewrite IH; [|exact Hnd'|intros q Hq Hqn; apply Hg; [right; exact Hq|exact Hqn]].
    destruct (in_dec Nat.eq_dec n l) as [Hin|Hnin]; destruct (in_dec Nat.eq_dec n (a :: l)) as [Hin2|Hnin2]; try reflexivity.
    + exfalso. apply Hnin2. right. exact Hin.
    + exfalso. destruct Hin2 as [Heq|Hin2]; [apply Hne; exact Heq|contradiction].
Qed.

Lemma code_inj t t' : counted_type t = true -> counted_type t' = true ->
  msg_type_code t = msg_type_code t' -> t = t'.
Proof. destruct t, t'; cbn; intros; try reflexivity; discriminate. Qed.

(** one frame through seq_check *)
Lemma seq_check_call sm q p p' oo :
  seq_call p p' oo ->
  (forall t s, counted_type t = true -> sm_get sm q (msg_type_code t) = Some s -> counter t p = (s + 1) mod 65536) ->
  exists sm', seq_check sm q (sent_frames oo) = Some sm' /\
    (forall t s, counted_type t = true -> sm_get sm' q (msg_type_code t) = Some s -> counter t p' = (s + 1) mod 65536) /\
    (forall q' c0, q' <> q -> sm_get sm' q' c0 = sm_get sm q' c0).
Proof.
  intros [[Hs Hq]|(x & m & Hs & Hd & Hsf & Hc)] Hinv; rewrite Hs; cbn [seq_check].
  - exists sm. split; [reflexivity|]. split; [|reflexivity].
    intros t s Ht Hg. rewrite (counter_of_seqs t _ _ Hq). apply Hinv; assumption.
  - unfold decoded. rewrite Hd.
    destruct (counted_type (body_type (m_body m))) eqn:Ect.
    + set (t0 := body_type (m_body m)) in *.
      assert (Hseq : h_seq (m_header m) = counter t0 p).
      { unfold seq_fact in Hsf. fold t0 in Hsf. destruct t0; try discriminate Ect; exact Hsf. }
      assert (Hnew : forall t s, counted_type t = true ->
                sm_get (sm_set sm q (msg_type_code t0) (h_seq (m_header m))) q (msg_type_code t) = Some s ->
                counter t p' = (s + 1) mod 65536).
      { intros t s Ht Hg. unfold sm_set in Hg. cbn [sm_get] in Hg. rewrite Z.eqb_refl in Hg. cbn [andb] in Hg.
        rewrite (Hc t Ht). unfold msg_type_eqb'.
        destruct (msg_type_code t =? msg_type_code t0) eqn:E.
        - inversion Hg; subst s. rewrite Hseq. apply Z.eqb_eq in E. rewrite (code_inj _ _ Ht Ect E). reflexivity.
        - apply Hinv; assumption. }
      assert (Hoth : forall q' c0, q' <> q ->
                sm_get (sm_set sm q (msg_type_code t0) (h_seq (m_header m))) q' c0 = sm_get sm q' c0).
      { intros q' c0 Hne. unfold sm_set. cbn [sm_get]. destruct (q' =? q) eqn:E; [apply Z.eqb_eq in E; contradiction|]. reflexivity. }
      destruct (sm_get sm q (msg_type_code t0)) as [prev|] eqn:Eg.
      * assert (E : (h_seq (m_header m) =? (prev + 1) mod 65536) = true)
          by (rewrite Hseq, (Hinv t0 prev Ect Eg); apply Z.eqb_refl).
        rewrite E. eexists. split; [reflexivity|]. split; [exact Hnew|exact Hoth].
      * eexists. split; [reflexivity|]. split; [exact Hnew|exact Hoth].
    + exists sm. split; [reflexivity|]. split; [|reflexivity].
      intros t s Ht Hg. rewrite (Hc t Ht).
      assert (Hf : msg_type_eqb' t (body_type (m_body m)) = false) by (apply uncounted_same; assumption).
      rewrite Hf. apply Hinv; assumption.
Qed.

Lemma sm_inv_port sm i n p :
  sm_inv sm i -> nth_error (i_ports i) n = Some p ->
  forall t s, counted_type t = true -> sm_get sm (Z.of_nat n) (msg_type_code t) = Some s -> counter t p = (s + 1) mod 65536.
Proof. intros H Hn t s Ht Hg. eapply H; eauto. Qed.

Lemma on_port_seq c i n f i' o sm :
  on_port i n f = Ok (i', o) -> length (i_ports i) = nports c -> sm_inv sm i ->
  (forall p p' d' oo, nth_error (i_ports i) n = Some p -> f p (i_ds i) = Ok (p', d', oo) -> seq_call p p' oo) ->
  exists sm', seq_ports c sm o = Some sm' /\ sm_inv sm' i'.
Proof.
  unfold on_port. intros H Hlen Hinv Hf. destruct (nth_error (i_ports i) n) as [p|] eqn:En in H.
  - destruct (f p (i_ds i)) as [[[p' d'] oo]|?] eqn:E; cbn [obind] in H; [|discriminate].
    inversion H; subst. clear H.
    unfold seq_ports.
    rewrite (fold_single (fun q => sent_frames (obs_of_port (tag n oo) q)) n).
    2: { unfold all_ports. apply seq_NoDup. }
    2: { intros q _ Hne. rewrite obs_of_port_tag_other by exact Hne. reflexivity. }
    assert (Hin : In n (all_ports c)).
    { unfold all_ports. apply in_seq. split; [lia|]. cbn. rewrite <- Hlen. apply nth_error_Some. rewrite En. discriminate. }
    destruct (in_dec Nat.eq_dec n (all_ports c)) as [_|Hn]; [|contradiction].
    rewrite obs_of_port_tag_same, sent_frames_filter.
    destruct (seq_check_call sm (Z.of_nat n) p p' oo (Hf _ _ _ _ En E) (sm_inv_port sm i n p Hinv En)) as (sm' & Hsc & Hn' & Hoth).
    exists sm'. split; [exact Hsc|].
    intros q pq t s Hq Ht Hg. cbn [i_ports] in Hq. rewrite nth_error_update_nth in Hq.
    destruct (Nat.eqb n q) eqn:Enq.
    + apply Nat.eqb_eq in Enq. subst q. rewrite En in Hq. inversion Hq; subst pq. eapply Hn'; eauto.
    + apply Nat.eqb_neq in Enq. rewrite Hoth in Hg by lia. eapply Hinv; eauto.
  - inversion H; subst. exists sm. split; [|exact Hinv].
    unfold seq_ports. rewrite (fold_single (fun q => sent_frames (obs_of_port [] q)) 0).
    + destruct (in_dec Nat.eq_dec 0%nat (all_ports c)); reflexivity.
    + unfold all_ports. apply seq_NoDup.
    + intros q _ _. reflexivity.
Qed.

Lemma seq_ports_quiet c sm o :
  (forall q, sent_frames (obs_of_port o q) = []) -> seq_ports c sm o = Some sm.
Proof.
  intros H. unfold seq_ports. rewrite (fold_single (fun q => sent_frames (obs_of_port o q)) 0).
  - destruct (in_dec Nat.eq_dec 0%nat (all_ports c)); [rewrite H|]; reflexivity.
  - unfold all_ports. apply seq_NoDup.
  - intros q _ _. apply H.
Qed.

Lemma sm_inv_same_seqs sm i i' :
  sm_inv sm i -> map seqs_of (i_ports i') = map seqs_of (i_ports i) -> sm_inv sm i'.
Proof.
  intros Hinv Hm q p' t s Hq Ht Hg.
  assert (Hq' : nth_error (map seqs_of (i_ports i')) q = Some (seqs_of p')) by (rewrite nth_error_map, Hq; reflexivity).
  rewrite Hm, nth_error_map in Hq'. destruct (nth_error (i_ports i) q) as [p|] eqn:Ep; [|discriminate].
  cbn in Hq'. injection Hq' as Hs1 Hs2 Hs3 Hs4.
  assert (Hsq : seqs_of p' = seqs_of p) by (unfold seqs_of; congruence).
  rewrite (counter_of_seqs t p p' Hsq). eapply Hinv; eauto.
Qed.

Lemma step_seq c i e i' o sm :
  inst_inv i -> event_valid e -> length (i_ports i) = nports c -> step i e = Ok (i', o) -> sm_inv sm i ->
  exists sm', seq_ports c sm o = Some sm' /\ sm_inv sm' i'.
Proof.
  intros Hi He Hlen Hs Hinv.
  assert (Hpd : forall n p, nth_error (i_ports i) n = Some p -> port_inv p /\ ds_inv (i_ds i)).
  { intros n p Hn. destruct Hi as (Hports & Hds & _). split; [|exact Hds].
    rewrite Forall_forall in Hports. apply Hports. eapply nth_error_In; eauto. }
  destruct e; cbn [step event_valid] in *.
  - destruct He as [Hf Hts]. eapply on_port_seq; eauto. intros pp pp' dd' oo Hn Hh. cbv beta in Hh.
    destruct (Hpd _ _ Hn). eapply event_receive_seq_call; eauto.
  - eapply on_port_seq; eauto. intros pp pp' dd' oo Hn Hh. cbv beta in Hh. eapply general_receive_seq_call; eauto.
  - destruct He as [Hts Hc]. eapply on_port_seq; eauto. intros pp pp' dd' oo Hn Hh. cbv beta in Hh.
    destruct (Hpd _ _ Hn). eapply send_timestamp_seq_call; eauto.
  - eapply on_port_seq; eauto. intros pp pp' dd' oo Hn Hh. cbv beta in Hh. destruct (Hpd _ _ Hn). eapply announce_timer_seq_call; eauto.
  - eapply on_port_seq; eauto. intros pp pp' dd' oo Hn Hh. destruct (Hpd _ _ Hn). eapply sync_timer_seq_call; eauto.
  - eapply on_port_seq; eauto. intros pp pp' dd' oo Hn Hh. destruct (Hpd _ _ Hn). eapply delay_timer_seq_call; eauto.
  - eapply on_port_seq; eauto. intros pp pp' dd' oo Hn Hh.
    apply seq_call_quiet; [eapply receipt_timer_no_send; eauto|eapply receipt_timer_seqs; eauto].
  - eapply on_port_seq; eauto. intros pp pp' dd' oo Hn Hh.
    unfold handle_filter_update_timer, ret in Hh. inversion Hh; subst. left. split; reflexivity.
  - exists sm. split.
    + apply seq_ports_quiet. apply (bmca_no_frames i i' o Hi Hs).
    + eapply sm_inv_same_seqs; [exact Hinv|eapply bmca_seqs; exact Hs].
  - inversion Hs; subst. exists sm. split; [|exact Hinv]. apply seq_ports_quiet. intros k.
    unfold obs_of_port. cbn [filter fst]. destruct (-1 =? Z.of_nat k) eqn:E; [lia|reflexivity].
  - inversion Hs; subst. exists sm. split; [|exact Hinv]. apply seq_ports_quiet. intros k.
    unfold obs_of_port. cbn [filter fst]. destruct (-1 =? Z.of_nat k) eqn:E; [lia|reflexivity].
  - inversion Hs; subst. exists sm. split; [|exact Hinv]. apply seq_ports_quiet. intros k. reflexivity.
Qed.

Lemma walk_seq_model c : forall es i sm,
  inst_inv i -> length (i_ports i) = nports c -> sm_inv sm i -> Forall event_valid es ->
  walk_seq c sm (run i es) = true.
Proof.
  induction es as [|e es IH]; intros i sm Hi Hlen Hinv Hes; cbn [run walk_seq]; [reflexivity|].
  inversion Hes as [|? ? He Hes']; subst.
  destruct (step_ok i e Hi He) as (i' & o & Hs & Hi' & Hcf & _). rewrite Hs. cbn [walk_seq].
  destruct (step_seq c i e i' o sm Hi He Hlen Hs Hinv) as (sm' & Hsp & Hinv'). rewrite Hsp.
  apply IH; [exact Hi'| |exact Hinv'|exact Hes'].
  unfold cfgs_of in Hcf. apply (f_equal (@length _)) in Hcf. rewrite !map_length in Hcf. congruence.
Qed.

Theorem ok_C10_seq_model s es rel :
  setup_valid s -> Forall event_valid es ->
  exists i o, init s = Ok (i, o) /\ ok_C10_seq (mkCase s es rel (Some o) (run i es)) = true.
Proof.
  intros Hs Hes. destruct (init_ok s Hs) as (i & o & Hi & Hinv & _). exists i, o. split; [exact Hi|].
  unfold ok_C10_seq. cbn [pc_trace]. apply walk_seq_model; [exact Hinv| | |exact Hes].
  - unfold nports. cbn [pc_setup]. unfold init in Hi. pose proof (add_ports_cfgs _ _ _ _ _ Hi) as Hc.
    unfold cfgs_of in Hc. apply (f_equal (@length _)) in Hc. rewrite app_length, !map_length in Hc. cbn in Hc. lia.
  - intros q p t s0 _ _ Hg. cbn in Hg. discriminate.
Qed.

(** the sequence conjunct is implied by the full oracle *)
Lemma step_C10_seq c sm prev e o sn sm' : step_C10 c sm prev e o sn = Some sm' -> seq_ports c sm o = Some sm'.
Proof.
  unfold step_C10, seq_ports. generalize (all_ports c). intros l. revert sm.
  induction l as [|p l IH]; intros sm H; cbn [fold_left] in *; [exact H|].
  destruct (negb (forallb (frame_ok c (sn_ds prev) p) (sent_frames (obs_of_port o p)))).
  { exfalso. clear - H. induction l as [|q l IHl]; cbn [fold_left] in H; [discriminate|]. apply IHl. exact H. }
  destruct (negb (count is_send_event (obs_of_port o p) <=? 1)%nat).
  { exfalso. clear - H. induction l as [|q l IHl]; cbn [fold_left] in H; [discriminate|]. apply IHl. exact H. }
  match type of H with context [if negb ?r then None else _] => destruct (negb r) end.
  { exfalso. clear - H. induction l as [|q l IHl]; cbn [fold_left] in H; [discriminate|]. apply IHl. exact H. }
  destruct (seq_check sm (Z.of_nat p) (sent_frames (obs_of_port o p))) as [sm1|].
  - apply IH. exact H.
  - exfalso. clear - H. induction l as [|q l IHl]; cbn [fold_left] in H; [discriminate|]. apply IHl. exact H.
Qed.

Lemma walk_C10_seq c : forall es rs sm prev,
  walk (step_C10 c) sm prev es rs = true -> walk_seq c sm rs = true.
Proof.
  induction es as [|e es IH]; intros rs sm prev H; destruct rs as [|[o sn|] rs]; cbn [walk walk_seq] in *;
    try reflexivity; try discriminate.
  destruct (step_C10 c sm prev e o sn) as [sm'|] eqn:E; [|discriminate].
  rewrite (step_C10_seq _ _ _ _ _ _ _ E). eapply IH. exact H.
Qed.

Theorem ok_C10_implies_seq c : ok_C10 c = true -> ok_C10_seq c = true.
Proof. apply walk_C10_seq. Qed.
