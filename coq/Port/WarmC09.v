(** warm-up cases judged for C09 *)
From SV Require Export Port.WarmCases.
Definition case := wcase.
Definition run_cases := run_cases_gen agree_warm ok_warm_C09 kf_warm.
