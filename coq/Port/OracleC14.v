(** C14 — Peer-delay measurement is exact and guarded against multiple responders. *)
From SV Require Export Port.OracleBase.

Record presp := mkPR { pr_src : port_identity; pr_two : bool; pr_t4c : Z; pr_t2 : Z }.
Record pfup := mkPF { pf_src : port_identity; pf_t3c : Z }.

Record pstate14 := mkP14 {
  cur_id : option Z;              (* sequence id of the last Pdelay_Req emitted *)
  t1s : list Z;                   (* transmit timestamps reported for it *)
  resps : list presp;
  pfups : list pfup;
  responder : option port_identity;  (* first identity that answered the current request *)
  contested : bool                   (* a second identity answered the current request *)
}.
Definition p14_empty := mkP14 None [] [] [] None false.

Definition wts (w : wire_ts) : Z := (ts_secs w * NS_PER_S + ts_nanos w) * FRAC.

Definition accept14 (prev : snapshot) (frame : bytes) : option message :=
  if is_compatible frame then
    match decoded frame with
    | Some m => if (h_domain (m_header m) =? dd_domain (ds_default (sn_ds prev)))
                   && (h_sdo_id (m_header m) =? dd_sdo_id (ds_default (sn_ds prev)))
                then Some m else None
    | None => None
    end
  else None.

(** a response/follow-up addressed to us that belongs to the current request *)
Definition relevant (c : pcase) (p : nat) (s : pstate14) (m : message) : option (port_identity * bool) :=
  match m_body m with
  | BPDelayResp _ r | BPDelayRespFollowUp _ r =>
      if pi_eqb r (port_id c p) && opt_z_eqb (Some (h_seq (m_header m))) (cur_id s)
      then Some (h_source (m_header m), match m_body m with BPDelayResp _ _ => true | _ => false end)
      else None
  | _ => None
  end.

Definition candidates14 (s : pstate14) : list (Z * Z) :=
  flat_map (fun t1 =>
    flat_map (fun r =>
      if pr_two r then
        flat_map (fun f =>
          if pi_eqb (pf_src f) (pr_src r)
          then [(pr_t4c r, Z.quot ((pr_t4c r - t1) - (pf_t3c f - pr_t2 r)) 2)] else []) (pfups s)
      else [(pr_t4c r, Z.quot ((pr_t4c r - t1) - (pr_t2 r - pr_t2 r)) 2)]) (resps s)) (t1s s).

Definition nonneg14 (s : pstate14) : bool :=
  forallb (fun r => 0 <=? pr_t4c r) (resps s) && forallb (fun f => 0 <=? pf_t3c f) (pfups s).

Definition master_type (t : msg_type) : bool :=
  match t with MTAnnounce | MTSync | MTFollowUp | MTDelayResp => true | _ => false end.

Definition step_port14 (c : pcase) (prev : snapshot) (e : event) (p : nat) (o : list obs) (sn : snapshot)
           (s : pstate14) : option pstate14 :=
  (* 1. bookkeeping of the inputs *)
  let s1 :=
    match e with
    | EvSendTimestamp q (CtxPDelayReq id) ts =>
        if Nat.eqb p q && opt_z_eqb (Some id) (cur_id s)
        then mkP14 (cur_id s) (ts :: t1s s) (resps s) (pfups s) (responder s) (contested s) else s
    | _ => s
    end in
  let incoming : option message :=
    match e with
    | EvRecvEvent q frame _ | EvRecvGeneral q frame => if Nat.eqb p q then accept14 prev frame else None
    | _ => None
    end in
  let is_event_channel := match e with EvRecvEvent _ _ _ => true | _ => false end in
  let rel := match incoming with
             | Some m => match relevant c p s1 m with
                         | Some (src, is_resp) =>
                             (* a Pdelay_Resp is only processed on the event interface; a
                                follow-up is processed on either interface *)
                             if negb is_resp || is_event_channel then Some (m, src) else None
                         | None => None
                         end
             | None => None
             end in
  let conflict := match rel, responder s1 with
                  | Some (_, src), Some r => negb (pi_eqb src r)
                  | _, _ => false
                  end in
  let s2 :=
    match rel with
    | Some (m, src) =>
        if conflict then mkP14 (cur_id s1) (t1s s1) (resps s1) (pfups s1) (responder s1) true else
        match m_body m, e with
        | BPDelayResp t2 _, EvRecvEvent _ _ ts =>
            mkP14 (cur_id s1) (t1s s1)
                  (mkPR src (h_two_step (m_header m)) (ts - h_correction (m_header m) * 2 ^ 16) (wts t2) :: resps s1)
                  (pfups s1) (Some src) (contested s1)
        | BPDelayRespFollowUp t3 _, _ =>
            mkP14 (cur_id s1) (t1s s1) (resps s1)
                  (mkPF src (wts t3 + h_correction (m_header m) * 2 ^ 16) :: pfups s1) (Some src) (contested s1)
        | _, _ => s1
        end
    | None => s1
    end in
  let ms := flat_map (fun x => match x with OFilterMeas m => [m] | _ => [] end) o in
  let peer_ms := filter (fun m => match me_peer_delay m with Some _ => true | None => false end) ms in
  (* 2. exactness of every peer delay measurement *)
  let exact :=
    forallb (fun m =>
      negb (nonneg14 s2) ||
      match me_peer_delay m with
      | Some v => existsb (fun cnd => (fst cnd =? me_event_time m) && (snd cnd =? v)) (candidates14 s2)
                  && opt_z_eqb (me_offset m) None && opt_z_eqb (me_delay m) None
                  && opt_z_eqb (me_raw_sync m) None && opt_z_eqb (me_raw_delay m) None
      | None => true
      end) peer_ms in
  (* 3. a second responder makes the port faulty and its message is not used;
        an exchange that was answered by two responders never yields a
        measurement afterwards (so the faulty state cannot be left through it) *)
  let multi := (if conflict then (state_of sn p =? 2) && (length peer_ms =? 0)%nat else true)
               && (if contested s2 then (length peer_ms =? 0)%nat else true) in
  (* 4. while faulty: no master-role frames, no sync/delay measurements *)
  let inert :=
    if state_of prev p =? 2 then
      forallb (fun x => match decoded (snd x) with
                        | Some m => negb (master_type (body_type (m_body m)))
                        | None => false
                        end) (sent_frames o)
      && forallb (fun m => match me_raw_sync m, me_raw_delay m with None, None => true | _, _ => false end) ms
    else true in
  (* 5. the faulty state is left only through a clean exchange, into Listening *)
  let leave :=
    if (state_of prev p =? 2) && negb (state_of sn p =? 2)
    then (state_of sn p =? 4) && negb (length peer_ms =? 0)%nat && negb conflict
    else true in
  (* 6. a port becomes faulty only through a conflicting response *)
  let enter := if negb (state_of prev p =? 2) && (state_of sn p =? 2) then conflict else true in
  if exact && multi && inert && leave && enter then
    (* a new Pdelay_Req starts a new exchange *)
    let new_req := flat_map (fun x => match x with ASendEvent (CtxPDelayReq id) _ _ => [id] | _ => [] end) o in
    Some (match new_req with
          | id :: _ => mkP14 (Some id) [] [] [] None false
          | [] => s2
          end)
  else None.

Definition step_C14 (c : pcase) (st : list pstate14) (prev : snapshot) (e : event) (o : list tobs) (sn : snapshot)
  : option (list pstate14) :=
  fold_left (fun acc p =>
    match acc with
    | None => None
    | Some done =>
        match step_port14 c prev e p (obs_of_port o p) sn (nth p st p14_empty) with
        | Some s' => Some (done ++ [s'])
        | None => None
        end
    end) (all_ports c) (Some []).

Definition ok_C14 (c : pcase) : bool :=
  walk (step_C14 c) (map (fun _ => p14_empty) (all_ports c)) (init_snap c) (pc_events c) (pc_trace c).

Definition kf_C14 (c : pcase) : Z := 0.
Definition case := pcase.
Definition run_cases := run_cases_gen agree_port ok_C14 kf_C14.
