(** Lemmas for C09: the measurement handed to the filter is the IEEE formula
    on the stored exchange, exactly (no rounding), for all operand values. *)
From SV Require Import Time.TimeCases Time.TimeLemmas Port.OracleC09.

Definition small_time (t : Z) : Prop := 0 <= t < 2 ^ 100.
Definition small_dur (d : Z) : Prop := - 2 ^ 100 <= d <= 2 ^ 100.

Lemma P100 : 2 ^ 100 = 1267650600228229401496703205376. Proof. reflexivity. Qed.

Lemma time_diff_small a b : small_time a -> small_time b -> time_diff a b = Ok (a - b).
Proof.
  unfold small_time; rewrite P100; intros Ha Hb.
  unfold time_diff, dur_from_time, dur_sub, dur_neg, dur_add.
  repeat (rewrite (chk_i_ok _ 128) by (pv; lia); cbn [obind]). f_equal; lia.
Qed.

Lemma dur_sub_small a b : - 2 ^ 102 <= a <= 2 ^ 102 -> small_dur b -> dur_sub a b = Ok (a - b).
Proof.
  unfold small_dur; rewrite P100. change (2 ^ 102) with 5070602400912917605986812821504. intros Ha Hb.
  unfold dur_sub, dur_neg, dur_add.
  repeat (rewrite (chk_i_ok _ 128) by (pv; lia); cbn [obind]). f_equal; lia.
Qed.

Definition peer_incomplete (x : peer_state) : Prop :=
  match x with
  | PDMeasuring _ (Some _) (Some _) (Some _) (Some _) (Some _) => False
  | _ => True
  end.

(** Sync branch: raw offset = recv - send - asymmetry, offset = raw - mean delay. *)
Lemma extract_sync_exact p st id send recv :
  peer_incomplete (p_peer p) ->
  p_state p = PSlave st -> ss_sync st = MMeasuring id (Some send) (Some recv) ->
  small_time send -> small_time recv -> small_dur (pc_asymmetry (p_config p)) ->
  (forall md, p_mean_delay p = Some md -> small_dur md) ->
  exists p' m,
    extract_measurement p = Ok (p', Some m, []) /\
    me_event_time m = recv /\
    me_raw_sync m = Some (recv - send - pc_asymmetry (p_config p)) /\
    me_offset m = match p_mean_delay p with
                  | Some md => Some (recv - send - pc_asymmetry (p_config p) - md)
                  | None => None
                  end /\
    me_delay m = None /\ me_peer_delay m = None /\ me_raw_delay m = None /\
    p_state p' = PSlave (mkSS (ss_remote st) MEmpty (ss_delay st)
                              (Some (recv - send - pc_asymmetry (p_config p)))).
Proof.
  intros Hpeer Hst Hsync Hs Hr Ha Hmd.
  unfold extract_measurement.
  assert (Hraw : - 2 ^ 102 <= recv - send <= 2 ^ 102).
  { unfold small_time in *. rewrite P100 in *. change (2 ^ 102) with 5070602400912917605986812821504. lia. }
  assert (Hraw2 : - 2 ^ 102 <= recv - send - pc_asymmetry (p_config p) <= 2 ^ 102).
  { unfold small_time, small_dur in *. rewrite P100 in *. change (2 ^ 102) with 5070602400912917605986812821504. lia. }
  destruct (p_peer p) as [|pid [r|] [a|] [b|] [c|] [d|]|]; cbn in Hpeer; try contradiction;
    rewrite Hst, Hsync; rewrite (time_diff_small recv send Hr Hs); cbn [obind];
    rewrite (dur_sub_small _ _ Hraw Ha); cbn [obind];
    (destruct (p_mean_delay p) as [md|] eqn:Emd;
     [ rewrite (dur_sub_small _ md Hraw2 (Hmd md eq_refl)); cbn [obind] | cbn [obind] ];
     eexists; eexists; repeat split; reflexivity).
Qed.

(** Delay branch: raw = send - recv - asymmetry, delay = (last raw sync - raw) / 2 (truncating). *)
Lemma extract_delay_exact p st id send recv :
  peer_incomplete (p_peer p) ->
  p_state p = PSlave st ->
  (forall i s r, ss_sync st = MMeasuring i (Some s) (Some r) -> False) ->
  ss_delay st = MMeasuring id (Some send) (Some recv) ->
  small_time send -> small_time recv -> small_dur (pc_asymmetry (p_config p)) ->
  (forall rs, ss_last_raw_sync st = Some rs -> small_dur rs) ->
  exists p' m,
    extract_measurement p = Ok (p', Some m, []) /\
    me_event_time m = send /\
    me_raw_delay m = Some (send - recv - pc_asymmetry (p_config p)) /\
    me_delay m = match ss_last_raw_sync st with
                 | Some rs => Some (Z.quot (rs - (send - recv - pc_asymmetry (p_config p))) 2)
                 | None => None
                 end /\
    me_offset m = None /\ me_peer_delay m = None /\ me_raw_sync m = None.
Proof.
  intros Hpeer Hst Hnosync Hdelay Hs Hr Ha Hrs.
  unfold extract_measurement.
  assert (Hraw : - 2 ^ 102 <= send - recv <= 2 ^ 102).
  { unfold small_time in *. rewrite P100 in *. change (2 ^ 102) with 5070602400912917605986812821504. lia. }
  assert (Hsync : match ss_sync st with MMeasuring _ (Some _) (Some _) => False | _ => True end).
  { destruct (ss_sync st) as [|i [s|] [r|]]; try exact I. exact (Hnosync i s r eq_refl). }
  assert (Hquot : forall rs, small_dur rs ->
            - 2 ^ (128 - 1) <= Z.quot (rs - (send - recv - pc_asymmetry (p_config p))) 2 < 2 ^ (128 - 1)).
  { intros rs Hrs'. unfold small_time, small_dur in *. rewrite P100 in *. pv.
    pose proof (Z.quot_rem' (rs - (send - recv - pc_asymmetry (p_config p))) 2).
    pose proof (Z.rem_bound_abs (rs - (send - recv - pc_asymmetry (p_config p))) 2 ltac:(lia)).
    lia. }
  assert (Hx : forall rs, small_dur rs ->
            dur_sub rs (send - recv - pc_asymmetry (p_config p))
            = Ok (rs - (send - recv - pc_asymmetry (p_config p)))).
  { intros rs Hrs'. unfold small_time, small_dur in *. rewrite P100 in *.
    unfold dur_sub, dur_neg, dur_add.
    repeat (rewrite (chk_i_ok _ 128) by (pv; lia); cbn [obind]). f_equal; lia. }
  destruct (p_peer p) as [|pid [r|] [a|] [b|] [c|] [d|]|]; cbn in Hpeer; try contradiction;
    rewrite Hst;
    (destruct (ss_sync st) as [|i [s|] [r'|]]; try contradiction; rewrite Hdelay;
     rewrite (time_diff_small send recv Hs Hr); cbn [obind];
     rewrite (dur_sub_small _ _ Hraw Ha); cbn [obind];
     (destruct (ss_last_raw_sync st) as [rs|] eqn:Ers;
      [ rewrite (Hx rs (Hrs rs eq_refl)); cbn [obind];
        rewrite (chk_i_ok _ 128 _ (Hquot rs (Hrs rs eq_refl))); cbn [obind]
      | cbn [obind] ];
      eexists; eexists; repeat split; reflexivity)).
Qed.
