(** Model of statime/src/bmc: dataset_comparison.rs, foreign_master.rs,
    acceptable_master.rs and bmca.rs (executable definitions only). *)
From SV Require Export Port.PortTypes.

(** * Data set comparison (IEEE 1588-2019 9.3.4, figures 34 and 35) *)
Record cmp_ds := mkCmp {
  c_prio1 : Z; c_gm_identity : Z; c_quality : clock_quality; c_prio2 : Z;
  c_steps : Z; c_sender : Z; c_receiver : port_identity
}.

Inductive ds_ord := Better | BetterByTopology | Error1 | Error2 | WorseByTopology | Worse.

Definition cmp_from_announce (h : header) (a : announce_body) (receiver : port_identity) : cmp_ds :=
  mkCmp (an_prio1 a) (an_gm_identity a) (an_quality a) (an_prio2 a)
        (an_steps_removed a) (pi_clock (h_source h)) receiver.

Definition cmp_from_own (d : default_ds) : cmp_ds :=
  mkCmp (dd_prio1 d) (dd_clock_identity d) (dd_quality d) (dd_prio2 d) 0
        (dd_clock_identity d) (mkPI (dd_clock_identity d) 0).

(** Ordering.then_with chain; [Lt]/[Gt] of the first component that differs *)
Fixpoint lex_compare (l : list (Z * Z)) : comparison :=
  match l with
  | [] => Eq
  | (a, b) :: l' => match Z.compare a b with Eq => lex_compare l' | c => c end
  end.

Definition site_unreachable_cmp : nat := 301.

Definition compare_different_identity (a b : cmp_ds) : outcome ds_ord :=
  match lex_compare
          [ (c_prio1 a, c_prio1 b);
            (cq_class (c_quality a), cq_class (c_quality b));
            (cq_accuracy (c_quality a), cq_accuracy (c_quality b));
            (cq_variance (c_quality a), cq_variance (c_quality b));
            (c_prio2 a, c_prio2 b);
            (c_gm_identity a, c_gm_identity b) ] with
  | Eq => Panic site_unreachable_cmp
  | Gt => Ok Worse
  | Lt => Ok Better
  end.

Definition compare_same_identity (a b : cmp_ds) : ds_ord :=
  let diff := c_steps a - c_steps b in
  if 2 <=? diff then Worse
  else if diff <=? -2 then Better
  else if diff =? 1 then
    match Z.compare (pi_clock (c_receiver a)) (c_sender a) with
    | Lt => Worse | Eq => Error1 | Gt => WorseByTopology
    end
  else if diff =? -1 then
    match Z.compare (pi_clock (c_receiver b)) (c_sender b) with
    | Lt => Better | Eq => Error1 | Gt => BetterByTopology
    end
  else
    match lex_compare [ (c_sender a, c_sender b);
                        (pi_port (c_receiver a), pi_port (c_receiver b)) ] with
    | Lt => BetterByTopology | Eq => Error2 | Gt => WorseByTopology
    end.

Definition ds_compare (a b : cmp_ds) : outcome ds_ord :=
  if c_gm_identity a =? c_gm_identity b then Ok (compare_same_identity a b)
  else compare_different_identity a b.

(** as_ordering: Greater = self is better *)
Definition as_ordering (o : ds_ord) : comparison :=
  match o with
  | Better | BetterByTopology => Gt
  | Error1 | Error2 => Eq
  | WorseByTopology | Worse => Lt
  end.

(** * Best announce messages *)
Definition best_cmp_ds (m : best_msg) : cmp_ds := cmp_from_announce (b_header m) (b_ann m) (b_identity m).

Definition best_compare (a b : best_msg) : outcome comparison :=
  let! o := ds_compare (best_cmp_ds a) (best_cmp_ds b) in
  Ok (match as_ordering o with
      | Eq => Z.compare (b_age b) (b_age a)      (* prefer newer (smaller age) *)
      | c => c
      end).

(** Iterator::max_by: the LAST maximal element *)
Fixpoint max_by_aux (acc : best_msg) (l : list best_msg) : outcome best_msg :=
  match l with
  | [] => Ok acc
  | x :: l' =>
      let! c := best_compare acc x in
      max_by_aux (match c with Gt => acc | _ => x end) l'
  end.
Definition find_best (l : list best_msg) : outcome (option best_msg) :=
  match l with
  | [] => Ok None
  | x :: l' => let! b := max_by_aux x l' in Ok (Some b)
  end.

Definition best_eqb (a b : best_msg) : bool :=
  header_eqb (b_header a) (b_header b) && ann_eqb (b_ann a) (b_ann b)
  && (b_age a =? b_age b) && pi_eqb (b_identity a) (b_identity b).

(** * Foreign master list *)
Definition FOREIGN_MASTER_TIME_WINDOW : Z := 4.
Definition FOREIGN_MASTER_THRESHOLD : nat := 2.
Definition MAX_ANNOUNCE_MESSAGES : nat := 8.
Definition MAX_FOREIGN_MASTERS : nat := 8.

(** own_port_announce_interval: TimeInterval bits derived from the config *)
Definition announce_interval_ti (log_announce : Z) : outcome Z :=
  let! d := dur_from_log_interval log_announce in Ok (dur_to_ti d).
Definition cutoff_age (ti : Z) : Z := ti_to_dur ti * FOREIGN_MASTER_TIME_WINDOW.

Definition purge_old (ti : Z) (msgs : list foreign_msg) : list foreign_msg :=
  filter (fun m => fm_age m <? cutoff_age ti) msgs.

Definition fm_register (ti : Z) (fm : foreign_master) (h : header) (a : announce_body) (age : Z)
  : foreign_master :=
  let msgs := purge_old ti (fmr_msgs fm) in
  let new := mkFMsg h a age in
  let msgs' := if (length msgs <? MAX_ANNOUNCE_MESSAGES)%nat then msgs ++ [new]
               else tl msgs ++ [new] in
  mkFM (fmr_identity fm) msgs'.

Definition fm_step_age (ti step : Z) (fm : foreign_master) : foreign_master :=
  mkFM (fmr_identity fm)
       (purge_old ti (map (fun m => mkFMsg (fm_header m) (fm_ann m) (fm_age m + step)) (fmr_msgs fm))).

Definition fml_step_age (ti step : Z) (l : list foreign_master) : list foreign_master :=
  filter (fun fm => negb (Nat.eqb (length (fmr_msgs fm)) 0)) (map (fm_step_age ti step) l).

Fixpoint fml_find (id : port_identity) (l : list foreign_master) : option foreign_master :=
  match l with
  | [] => None
  | fm :: l' => if pi_eqb (fmr_identity fm) id then Some fm else fml_find id l'
  end.

Definition wrapping_sub16 (a b : Z) : Z := (a - b) mod 65536.

Definition fml_qualified (own : port_identity) (l : list foreign_master) (h : header) (a : announce_body) : bool :=
  let src := h_source h in
  if pi_clock src =? pi_clock own then false else
  let seq_ok :=
    match fml_find src l with
    | Some fm => match last (map Some (fmr_msgs fm)) None with
                 | Some lastm => negb (32767 <=? wrapping_sub16 (h_seq h) (h_seq (fm_header lastm)))
                 | None => true
                 end
    | None => true
    end in
  if negb seq_ok then false else
  if 255 <=? an_steps_removed a then false else true.

Fixpoint fml_update (id : port_identity) (f : foreign_master -> foreign_master) (l : list foreign_master)
  : list foreign_master :=
  match l with
  | [] => []
  | fm :: l' => if pi_eqb (fmr_identity fm) id then f fm :: l' else fm :: fml_update id f l'
  end.

Definition fml_register (own : port_identity) (ti : Z) (l : list foreign_master)
           (h : header) (a : announce_body) (age : Z) : list foreign_master :=
  if negb (fml_qualified own l h a) then l else
  match fml_find (h_source h) l with
  | Some _ => fml_update (h_source h) (fun fm => fm_register ti fm h a age) l
  | None =>
      if (length l <? MAX_FOREIGN_MASTERS)%nat
      then l ++ [mkFM (h_source h) [mkFMsg h a 0]]      (* ForeignMaster::new ignores [age] *)
      else l
  end.

(** take_qualified_announce_messages: masters visited from the last index down;
    returns the remaining list and the taken messages in visiting order *)
Definition fm_take (fm : foreign_master) : foreign_master * option foreign_msg :=
  if (FOREIGN_MASTER_THRESHOLD <=? length (fmr_msgs fm))%nat then
    (mkFM (fmr_identity fm) (removelast (fmr_msgs fm)), last (map Some (fmr_msgs fm)) None)
  else (fm, None).

Definition fml_take_qualified (l : list foreign_master) : list foreign_master * list foreign_msg :=
  let taken := map fm_take l in
  (map fst taken,
   fold_left (fun acc x => match snd x with Some m => m :: acc | None => acc end) taken []).

(** * Bmca (per port) *)
Definition acceptable (acc : option (list Z)) (id : Z) : bool :=
  match acc with
  | None => true
  | Some l => existsb (fun x => x =? id) l
  end.

(** Bmca::register_announce_message : returns (accepted?, new list) *)
Definition bmca_register (own : port_identity) (acc : option (list Z)) (ti : Z)
           (l : list foreign_master) (h : header) (a : announce_body) : bool * list foreign_master :=
  if negb (pi_eqb (h_source h) own) && acceptable acc (pi_clock (h_source h))
  then (true, fml_register own ti l h a 0)
  else (false, l).

Definition bmca_reregister (own : port_identity) (acc : option (list Z)) (ti : Z)
           (l : list foreign_master) (h : header) (a : announce_body) (age : Z) : list foreign_master :=
  if negb (pi_eqb (h_source h) own) && acceptable acc (pi_clock (h_source h))
  then fml_register own ti l h a age
  else l.

(** take_best_port_announce_message *)
Definition bmca_take_best (own : port_identity) (acc : option (list Z)) (ti : Z)
           (l : list foreign_master) : outcome (list foreign_master * option best_msg) :=
  let '(l1, taken) := fml_take_qualified l in
  let cands := map (fun m => mkBest (fm_header m) (fm_ann m) (fm_age m) own) taken in
  let! best := find_best cands in
  match best with
  | None => Ok (l1, None)
  | Some b => Ok (bmca_reregister own acc ti l1 (b_header b) (b_ann b) (b_age b), Some b)
  end.

(** * State decision *)
Inductive recommended :=
| RM1 (d : default_ds) | RM2 (d : default_ds)
| RM3 (h : header) (a : announce_body)
| RP1 (h : header) (a : announce_body)
| RP2 (h : header) (a : announce_body)
| RS1 (h : header) (a : announce_body).

Inductive msg_cmp := MCBetter | MCSame | MCWorse (b : best_msg).

Definition compare_d0_best (d0 : cmp_ds) (ob : option best_msg) : outcome msg_cmp :=
  match ob with
  | None => Ok MCBetter
  | Some b =>
      let! o := ds_compare d0 (best_cmp_ds b) in
      Ok (match as_ordering o with Lt => MCWorse b | Eq => MCSame | Gt => MCBetter end)
  end.

Definition compare_global_and_port (g p : best_msg) : outcome recommended :=
  if best_eqb g p then Ok (RS1 (b_header g) (b_ann g))
  else
    let! o := ds_compare (best_cmp_ds g) (best_cmp_ds p) in
    Ok (match o with
        | BetterByTopology => RP2 (b_header p) (b_ann p)
        | _ => RM3 (b_header g) (b_ann g)
        end).

Definition recommended_state (own : default_ds) (ebest erbest : option best_msg) (st : port_state)
  : outcome (option recommended) :=
  match erbest, st with
  | None, PListening => Ok None
  | _, _ =>
      let d0 := cmp_from_own own in
      let class := cq_class (dd_quality own) in
      if (1 <=? class) && (class <=? 127) then
        let! c := compare_d0_best d0 erbest in
        Ok (Some (match c with
                  | MCBetter | MCSame => RM1 own
                  | MCWorse p => RP1 (b_header p) (b_ann p)
                  end))
      else
        let! c := compare_d0_best d0 ebest in
        match c with
        | MCBetter | MCSame => Ok (Some (RM2 own))
        | MCWorse g =>
            match erbest with
            | None => Ok (Some (RM3 (b_header g) (b_ann g)))
            | Some p => let! r := compare_global_and_port g p in Ok (Some r)
            end
        end
  end.
