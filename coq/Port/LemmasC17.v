(** Lemmas for C17 (lock discipline of the model). *)
From SV Require Import Port.OracleC17.

Definition is_rd (x : obs) : Prop := x = rd_lock.
Definition lock_free (x : obs) : Prop := match x with OLock _ _ => False | _ => True end.

(** the announce TLV loop only ever takes read sections, one per provided TLV,
    each released before the next is requested (depth 0) *)
Lemma tlv_loop_locks fuel : forall q margin parent pe acc lk r lk',
  announce_tlv_loop fuel q margin parent pe acc lk = Ok (r, lk') ->
  Forall is_rd lk -> Forall is_rd lk'.
Proof.
  induction fuel as [|fuel IH]; intros q margin parent pe acc lk r lk' H Hall; cbn [announce_tlv_loop] in H.
  - inversion H; subst. exact Hall.
  - destruct q as [|f q']; [inversion H; subst; exact Hall|].
    destruct (fwd_size f <=? margin); [|inversion H; subst; exact Hall].
    assert (Hall' : Forall is_rd (lk ++ [rd_lock])).
    { apply Forall_app. split; [exact Hall|]. constructor; [reflexivity|constructor]. }
    destruct (negb (pi_eqb parent (fw_sender f))); [eapply IH; eauto|].
    destruct (pe && (tlv_type (fw_tlv f) =? 8)); eapply IH; eauto.
Qed.

(** send_announce: reads only, never a write section, never nested *)
Lemma send_announce_locks p d q p' d' o :
  send_announce p d q = Ok (p', d', o) ->
  Forall (fun x => is_rd x \/ lock_free x) o.
Proof.
  unfold send_announce. destruct (is_master (p_state p)); [|intros H; inversion H; constructor].
  match goal with |- context [let '(a, b) := ?X in _] => destruct X as [pb m1] end.
  destruct (announce_tlv_loop _ _ _ _ _ _ _) as [[sfx locks]|?] eqn:El; cbn [obind]; [|discriminate].
  destruct (serialize_packet _) as [f|?]; cbn [obind]; [|discriminate].
  intros H. inversion H; subst.
  pose proof (tlv_loop_locks _ _ _ _ _ _ _ _ _ El (Forall_nil _)) as Hl.
  constructor; [left; reflexivity|]. constructor; [left; reflexivity|].
  apply Forall_app. split.
  - eapply Forall_impl; [|exact Hl]. intros x Hx. left. exact Hx.
  - constructor; [right; exact I|]. constructor; [right; exact I|constructor].
Qed.

(** handle_announce: at most the read of the parent identity followed by ONE
    write section containing the whole S1 update (all data sets together) *)
Lemma set_forced_lock_free p s : Forall lock_free (snd (set_forced p s)).
Proof.
  unfold set_forced. cbn [snd]. destruct (is_slave (p_state p) || is_faulty (p_state p) || is_faulty s);
    [constructor; [exact I|constructor]|constructor].
Qed.

Lemma forward_obs_lock_free sfx src : Forall lock_free (forward_obs sfx src).
Proof.
  unfold forward_obs. apply Forall_forall. intros x Hx. apply in_map_iff in Hx.
  destruct Hx as [t [<- _]]. exact I.
Qed.

Lemma handle_announce_locks p d ti m a p' d' o :
  handle_announce p d ti m a = Ok (p', d', o) ->
  exists locks rest, o = locks ++ rest /\ Forall lock_free rest /\
    (locks = [] \/ locks = [rd_lock] \/ locks = [rd_lock; wr_lock]) /\
    (d' <> d -> locks = [rd_lock; wr_lock]).
Proof.
  unfold handle_announce.
  match goal with |- obind ?X _ = _ -> _ => destruct X as [[[d1 lp] locks]|?] eqn:Er end; cbn [obind]; [|discriminate].
  assert (Hlocks : (locks = [] \/ locks = [rd_lock] \/ locks = [rd_lock; wr_lock]) /\ (d1 <> d -> locks = [rd_lock; wr_lock])).
  { destruct (is_slave (p_state p) && (an_steps_removed a <? 255)); [|inversion Er; subst; split; [auto|congruence]].
    destruct (pi_eqb (h_source (m_header m)) (pd_parent (ds_parent d))); [|inversion Er; subst; split; [auto|congruence]].
    destruct (chk_u site_steps_add 16 (an_steps_removed a + 1)); cbn [obind] in Er; [|discriminate].
    destruct (if ds_path_enable d then find_tlv 8 (tlvs_of (m_suffix m)) else None).
    - destruct (PATH_CAPACITY <? length (path_of_value (tlv_value t)))%nat; [inversion Er; subst; split; auto|].
      destruct (existsb _ _); inversion Er; subst; split; auto.
    - inversion Er; subst; split; auto. }
  destruct Hlocks as [Hl Hd].
  destruct lp.
  - intros H. unfold ret in H. injection H as <- <- <-. exists locks, []. rewrite app_nil_r. repeat split; auto.
  - destruct (bmca_register _ _ _ _ _ _) as [acc fml]. destruct acc.
    + match goal with |- context [if ?c then set_forced ?x ?y else ?z] => 
        pose proof (set_forced_lock_free x y) as Hsf; destruct c end;
      [ destruct (set_forced _ _) as [p2 o2]; cbn [snd] in Hsf
      | ];
      (match goal with |- context [draw ?x] => destruct (draw x) as [k p3] end);
      intros H; unfold ret in H; injection H as <- <- <-; eexists locks, _; (split; [reflexivity|]); repeat split; auto.
      * apply Forall_app. split; [exact Hsf|]. constructor; [exact I|apply forward_obs_lock_free].
      * constructor; [exact I|apply forward_obs_lock_free].
    + intros H. unfold ret in H. injection H as <- <- <-. exists locks, []. rewrite app_nil_r. repeat split; auto.
Qed.
