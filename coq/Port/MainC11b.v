(** C11 on the model, whole histories, remaining conjuncts of ok_C11:
    (b) an Announce from the parent received on the slave port replaces the data
        sets by its contents (stepsRemoved + 1), unless the path-trace rule
        discards it, in which case nothing changes;
    (c) after a BMCA run that leaves no slave but some master port the instance
        shows the grandmaster view. *)
From SV Require Export Port.SeqMain.

(** * (b) *)
Lemma chunks8_length fuel : forall v, (length v <= fuel)%nat -> Z.of_nat (length (chunks8 fuel v)) = blen v / 8.
Proof.
  induction fuel as [|fuel IH]; intros v Hf; cbn [chunks8].
  - assert (length v = 0%nat) by lia. unfold blen. rewrite H. reflexivity.
  - destruct (Nat.leb_spec 8 (length v)) as [Hle|Hlt].
    + cbn [length]. rewrite Nat2Z.inj_succ, IH by (rewrite skipn_length; lia).
      unfold blen. rewrite skipn_length. rewrite Nat2Z.inj_sub by lia.
      replace (Z.of_nat (length v)) with ((Z.of_nat (length v) - 8) + 1 * 8) by lia.
      rewrite Z.div_add by lia. change (Z.of_nat 8) with 8. replace (Z.of_nat (length v) - 8 + 1 * 8 - 8) with (Z.of_nat (length v) - 8) by lia. lia.
    + cbn [length]. unfold blen. symmetry. apply Z.div_small. lia.
Qed.

Lemma path_len v : Z.of_nat (length (path_of_value v)) = blen v / 8.
Proof. unfold path_of_value. apply chunks8_length. lia. Qed.

Lemma find_tlv11_eq t l : find_tlv11 t l = find_tlv t l.
Proof. induction l as [|x l IH]; cbn; [reflexivity|]. rewrite IH. reflexivity. Qed.

Lemma tp_of_announce_eq h a : tp_of_announce h a = ann_time_props h a.
Proof. reflexivity. Qed.

Lemma handle_announce_b p d ti m a p' d' o :
  handle_announce p d ti m a = Ok (p', d', o) ->
  is_slave (p_state p) = true ->
  pi_eqb (h_source (m_header m)) (pd_parent (ds_parent d)) = true ->
  (an_steps_removed a <? 255) = true ->
  let path_tlv := if ds_path_enable d then find_tlv11 8 (tlvs_of (m_suffix m)) else None in
  let discarded :=
    match path_tlv with
    | Some t => (128 <? blen (tlv_value t) / 8)
                || existsb (fun ci => ci =? dd_clock_identity (ds_default d)) (path_of_value (tlv_value t))
    | None => false
    end in
  (if discarded then ds_eqb d' d
   else (ds_steps_removed d' =? an_steps_removed a + 1)
        && pd_eqb (ds_parent d')
                  (mkPD (h_source (m_header m)) (an_gm_identity a) (an_quality a) (an_prio1 a) (an_prio2 a))
        && tp_eqb (ds_tp d') (tp_of_announce (m_header m) a)) = true.
Proof.
  intros H Hsl Hpar Hlt. cbv zeta. unfold handle_announce in H. cbv zeta in H.
  rewrite Hsl, Hlt, Hpar in H. cbn [andb] in H.
  assert (Hd1 : forall d1, d' = d1 ->
     forall (lp : bool) (locks : list obs) X,
       X = Ok (d1, lp, locks) -> True) by (intros; exact I). clear Hd1.
  (* the data set after the S1 block is what the rest of the handler returns *)
  match type of H with obind ?X ?k = _ => destruct X as [[[d1 lp] locks]|?] eqn:Er; cbn [obind] in H; [|discriminate H] end.
  assert (Hd' : d' = d1).
  { destruct lp; [unfold ret in H; inversion H; reflexivity|].
    destruct (bmca_register _ _ _ _ _ _) as [acc fml]. destruct acc; [|unfold ret in H; inversion H; reflexivity].
    match type of H with context [if ?c then set_forced ?x ?y else ?z] => destruct c end;
      [destruct (set_forced _ _) as [p2 o2]|];
      match type of H with context [draw ?x] => destruct (draw x) as [k p3] end;
      unfold ret in H; inversion H; reflexivity. }
  subst d1. clear H.
  destruct (chk_u site_steps_add 16 (an_steps_removed a + 1)) as [steps|?] eqn:Ec; cbn [obind] in Er; [|discriminate].
  assert (Hsteps : steps = an_steps_removed a + 1).
  { unfold chk_u in Ec. destruct (in_u 16 _); inversion Ec; reflexivity. }
  rewrite !find_tlv11_eq.
  destruct (ds_path_enable d).
  - destruct (find_tlv 8 (tlvs_of (m_suffix m))) as [t|].
    + destruct (PATH_CAPACITY <? length (path_of_value (tlv_value t)))%nat eqn:Ecap.
      * inversion Er; subst.
        assert (Hz : (128 <? blen (tlv_value t) / 8) = true).
        { rewrite <- path_len. apply Nat.ltb_lt in Ecap. unfold PATH_CAPACITY in Ecap. lia. }
        rewrite Hz. cbn [orb]. apply ds_eqb_refl.
      * assert (Hz : (128 <? blen (tlv_value t) / 8) = false).
        { rewrite <- path_len. apply Nat.ltb_ge in Ecap. unfold PATH_CAPACITY in Ecap. lia. }
        rewrite Hz. cbn [orb].
        destruct (existsb _ _); inversion Er; subst; [apply ds_eqb_refl|].
        cbn [ds_with ds_steps_removed ds_parent ds_tp]. rewrite Z.eqb_refl, pd_eqb_refl. cbn [andb]. apply tp_eqb_refl.
    + inversion Er; subst. cbn [ds_with ds_steps_removed ds_parent ds_tp].
      rewrite Z.eqb_refl, pd_eqb_refl. cbn [andb]. apply tp_eqb_refl.
  - inversion Er; subst. cbn [ds_with ds_steps_removed ds_parent ds_tp].
    rewrite Z.eqb_refl, pd_eqb_refl. cbn [andb]. apply tp_eqb_refl.
Qed.

(** conjunct (b) of step_C11 *)
Definition b_C11 (prev : snapshot) (e : event) (sn : snapshot) : bool :=
  match e with
  | EvRecvGeneral p frame | EvRecvEvent p frame _ =>
      match (if is_compatible frame then decoded frame else None) with
      | Some m =>
          match m_body m with
          | BAnnounce a =>
              let ds := sn_ds prev in
              if (h_domain (m_header m) =? dd_domain (ds_default ds))
                 && (h_sdo_id (m_header m) =? dd_sdo_id (ds_default ds))
                 && (state_of prev p =? 9)
                 && pi_eqb (h_source (m_header m)) (pd_parent (ds_parent ds))
                 && (an_steps_removed a <? 255) then
                let path_tlv := if ds_path_enable ds then find_tlv11 8 (tlvs_of (m_suffix m)) else None in
                let discarded :=
                  match path_tlv with
                  | Some t => (128 <? blen (tlv_value t) / 8)
                              || existsb (fun ci => ci =? dd_clock_identity (ds_default ds))
                                         (path_of_value (tlv_value t))
                  | None => false
                  end in
                if discarded then ds_eqb (sn_ds sn) ds
                else
                  let d' := sn_ds sn in
                  (ds_steps_removed d' =? an_steps_removed a + 1)
                  && pd_eqb (ds_parent d')
                            (mkPD (h_source (m_header m)) (an_gm_identity a) (an_quality a)
                                  (an_prio1 a) (an_prio2 a))
                  && tp_eqb (ds_tp d') (tp_of_announce (m_header m) a)
              else true
          | _ => true
          end
      | None => true
      end
  | _ => true
  end.

Lemma state_9_slave i n : state_of (snapshot_of i) n = 9 ->
  exists p, nth_error (i_ports i) n = Some p /\ is_slave (p_state p) = true.
Proof.
  intros H. destruct (nth_error (i_ports i) n) as [p|] eqn:En.
  - exists p. split; [reflexivity|]. rewrite (state_of_snapshot _ _ _ En) in H. destruct (p_state p); try discriminate; reflexivity.
  - exfalso. unfold state_of, snapshot_of in H. cbn [sn_states] in H.
    rewrite nth_overflow in H; [discriminate|]. rewrite map_length. apply nth_error_None. exact En.
Qed.

Lemma announce_receive_b i n frame i' o (ev : bool) ts :
  (if ev then on_port i n (fun p d => handle_event_receive p d (port_ti p) frame ts)
   else on_port i n (fun p d => handle_general_receive p d (port_ti p) frame)) = Ok (i', o) ->
  b_C11 (snapshot_of i) (if ev then EvRecvEvent n frame ts else EvRecvGeneral n frame) (snapshot_of i') = true.
Proof.
  intros H.
  assert (Hgoal : match (if is_compatible frame then decoded frame else None) with
          | Some m => match m_body m with
              | BAnnounce a =>
                let ds := sn_ds (snapshot_of i) in
                if (h_domain (m_header m) =? dd_domain (ds_default ds)) && (h_sdo_id (m_header m) =? dd_sdo_id (ds_default ds))
                   && (state_of (snapshot_of i) n =? 9) && pi_eqb (h_source (m_header m)) (pd_parent (ds_parent ds))
                   && (an_steps_removed a <? 255) then
                  let path_tlv := if ds_path_enable ds then find_tlv11 8 (tlvs_of (m_suffix m)) else None in
                  let discarded := match path_tlv with
                    | Some t => (128 <? blen (tlv_value t) / 8)
                                || existsb (fun ci => ci =? dd_clock_identity (ds_default ds)) (path_of_value (tlv_value t))
                    | None => false end in
                  if discarded then ds_eqb (sn_ds (snapshot_of i')) ds
                  else (ds_steps_removed (sn_ds (snapshot_of i')) =? an_steps_removed a + 1)
                       && pd_eqb (ds_parent (sn_ds (snapshot_of i')))
                            (mkPD (h_source (m_header m)) (an_gm_identity a) (an_quality a) (an_prio1 a) (an_prio2 a))
                       && tp_eqb (ds_tp (sn_ds (snapshot_of i'))) (tp_of_announce (m_header m) a)
                else true
              | _ => true end
          | None => true end = true).
  2: { destruct ev; exact Hgoal. }
  destruct (is_compatible frame) eqn:Ecomp; [|reflexivity].
  unfold decoded. destruct (decode frame) as [m|?] eqn:Ed; [|reflexivity].
  destruct (m_body m) as [| | | | | | |a| |] eqn:Eb; try reflexivity.
  cbv zeta. cbn [sn_ds snapshot_of].
  destruct ((h_domain (m_header m) =? dd_domain (ds_default (i_ds i))) && (h_sdo_id (m_header m) =? dd_sdo_id (ds_default (i_ds i)))
            && (state_of (snapshot_of i) n =? 9) && pi_eqb (h_source (m_header m)) (pd_parent (ds_parent (i_ds i)))
            && (an_steps_removed a <? 255)) eqn:Econd; [|reflexivity].
  apply andb_true_iff in Econd as [Econd Hlt]. apply andb_true_iff in Econd as [Econd Hpar].
  apply andb_true_iff in Econd as [Econd H9]. apply andb_true_iff in Econd as [Hdom Hsdo].
  apply Z.eqb_eq in H9. destruct (state_9_slave i n H9) as (p & Hp & Hsl).
  (* the call reaches handle_announce on that port *)
  assert (Hcall : exists p' d' oo, handle_announce p (i_ds i) (port_ti p) m a = Ok (p', d', oo) /\ i_ds i' = d').
  { assert (Hpf : parse_and_filter (i_ds i) frame = (Some m, [rd_lock])).
    { unfold parse_and_filter. rewrite Ecomp, Ed. cbn [negb]. rewrite Hsdo, Hdom. reflexivity. }
    destruct ev; unfold on_port in H; rewrite Hp in H; cbv beta in H.
    - unfold handle_event_receive in H. rewrite Hpf, Eb in H. unfold prepend, handle_general_internal in H. rewrite Eb in H.
      destruct (handle_announce p (i_ds i) (port_ti p) m a) as [[[p' d'] oo]|?]; cbn [obind] in H; [|discriminate].
      inversion H; subst. eauto.
    - unfold handle_general_receive in H. rewrite Hpf in H. unfold prepend, handle_general_internal in H. rewrite Eb in H.
      destruct (handle_announce p (i_ds i) (port_ti p) m a) as [[[p' d'] oo]|?]; cbn [obind] in H; [|discriminate].
      inversion H; subst. eauto. }
  destruct Hcall as (p' & d' & oo & Hha & ->).
  exact (handle_announce_b _ _ _ _ _ _ _ _ Hha Hsl Hpar Hlt).
Qed.

(** * (c) the grandmaster view after a BMCA run *)
Definition gm_mode (own : default_ds) (ebest : option best_msg) : bool :=
  ((1 <=? cq_class (dd_quality own)) && (cq_class (dd_quality own) <=? 127))
  || match compare_d0_best (cmp_from_own own) ebest with Ok (MCWorse _) => false | _ => true end.

Definition gm_view (d : inst_ds) : inst_ds :=
  let dd := ds_default d in
  ds_with d 0 (mkPD (mkPI (dd_clock_identity dd) 0) (dd_clock_identity dd) (dd_quality dd) (dd_prio1 dd) (dd_prio2 dd))
          [] (mkTP None 0 false false true 160).

Definition is_RM (rs : recommended) : bool := match rs with RM1 _ | RM2 _ => true | _ => false end.

Lemma rec_gm_mode own ebest erbest st r :
  gm_mode own ebest = true -> recommended_state own ebest erbest st = Ok r ->
  r = None \/ r = Some (RM1 own) \/ r = Some (RM2 own) \/ exists h a, r = Some (RP1 h a).
Proof.
  unfold gm_mode, recommended_state. intros Hg H.
  assert (Hmain : (if (1 <=? cq_class (dd_quality own)) && (cq_class (dd_quality own) <=? 127)
     then let! c := compare_d0_best (cmp_from_own own) erbest in
          Ok (Some match c with MCWorse p => RP1 (b_header p) (b_ann p) | _ => RM1 own end)
     else let! c := compare_d0_best (cmp_from_own own) ebest in
          match c with
          | MCWorse g => match erbest with
                         | Some p => let! r := compare_global_and_port g p in Ok (Some r)
                         | None => Ok (Some (RM3 (b_header g) (b_ann g)))
                         end
          | _ => Ok (Some (RM2 own))
          end) = Ok r ->
     r = None \/ r = Some (RM1 own) \/ r = Some (RM2 own) \/ exists h a, r = Some (RP1 h a)).
  { destruct ((1 <=? cq_class (dd_quality own)) && (cq_class (dd_quality own) <=? 127)); cbn [orb] in Hg.
    - destruct (compare_d0_best (cmp_from_own own) erbest) as [c|?]; cbn [obind]; [|discriminate].
      destruct c; intros Hx; inversion Hx; eauto 6.
    - destruct (compare_d0_best (cmp_from_own own) ebest) as [c|?]; cbn [obind]; [|discriminate].
      destruct c; try discriminate Hg; intros Hx; inversion Hx; eauto. }
  destruct erbest as [pb|]; destruct st; try (apply Hmain; exact H); inversion H; auto.
Qed.

Lemma gm_view_of d d0 : (d = d0 \/ d = gm_view d0) -> gm_view d = gm_view d0.
Proof. intros [->| ->]; reflexivity. Qed.
Lemma gm_view_default d : ds_default (gm_view d) = ds_default d.
Proof. reflexivity. Qed.

Lemma srs_rm b d b' d' (two : bool) :
  set_recommended_state b (if two then RM2 (ds_default d) else RM1 (ds_default d)) d = Ok (b', d') -> d' = gm_view d.
Proof.
  unfold set_recommended_state. intros H.
  destruct two;
    (destruct (set_recommended_port_state b _ (ds_default d)) as [b1|?]; cbn [obind] in H; [|discriminate];
     destruct (dd_slave_only (ds_default d) && is_master (p_state (bp_port b1))); [discriminate|];
     inversion H; reflexivity).
Qed.

Lemma srs_rp1 b h a d b' d' :
  set_recommended_state b (RP1 h a) d = Ok (b', d') -> d' = d /\ is_master (p_state (bp_port b')) = false.
Proof.
  unfold set_recommended_state, set_recommended_port_state, set_forced. intros H.
  destruct (p_state (bp_port b)) eqn:Est; cbn [obind] in H; inversion H; subst; cbn [bp_port port_with_state p_state];
    rewrite ?Est; split; reflexivity.
Qed.

Lemma decide_gm ebest d0 : forall todo done d done' d',
  gm_mode (ds_default d0) ebest = true -> (d = d0 \/ d = gm_view d0) ->
  bmca_decide ebest d todo done = Ok (done', d') ->
  exists tail, done' = done ++ tail /\ (d' = d \/ d' = gm_view d0) /\
    ((exists b', In b' tail /\ is_master (p_state (bp_port b')) = true) -> d' = gm_view d0).
Proof.
  induction todo as [|b todo IH]; intros done d done' d' Hg Hd H; cbn [bmca_decide] in H.
  - inversion H; subst. exists []. rewrite app_nil_r. split; [reflexivity|]. split; [left; reflexivity|].
    intros (b' & [] & _).
  - assert (Hdef : ds_default d = ds_default d0) by (destruct Hd as [->| ->]; reflexivity).
    destruct (recommended_state (ds_default d) ebest (bp_best b) (p_state (bp_port b))) as [r|?] eqn:Er; cbn [obind] in H; [|discriminate].
    pose proof Er as Er'. rewrite Hdef in Er'. destruct (rec_gm_mode _ _ _ _ _ Hg Er') as [->|[->|[->|(h & a & ->)]]].
    + (* no recommendation: the port is Listening and stays *)
      apply recommended_None in Er.
      destruct (IH _ _ _ _ Hg Hd H) as (tail & -> & Hd' & Hm). exists (b :: tail). rewrite <- app_assoc. split; [reflexivity|].
      split; [exact Hd'|]. intros (b' & [<-|Hin] & Hb'); [rewrite Er in Hb'; discriminate|]. apply Hm. eauto.
    + destruct (set_recommended_state b (RM1 (ds_default d0)) d) as [[b1 d1]|?] eqn:Es; cbn [obind fst snd] in H; [|discriminate].
      rewrite <- Hdef in Es. pose proof (srs_rm b d b1 d1 false Es) as Hd1. rewrite (gm_view_of d d0 Hd) in Hd1. subst d1.
      destruct (IH _ _ _ _ Hg (or_intror eq_refl) H) as (tail & -> & Hd' & _). exists (b1 :: tail). rewrite <- app_assoc.
      split; [reflexivity|]. assert (d' = gm_view d0) by (destruct Hd' as [->| ->]; reflexivity). split; [right; assumption|intros _; assumption].
    + destruct (set_recommended_state b (RM2 (ds_default d0)) d) as [[b1 d1]|?] eqn:Es; cbn [obind fst snd] in H; [|discriminate].
      rewrite <- Hdef in Es. pose proof (srs_rm b d b1 d1 true Es) as Hd1. rewrite (gm_view_of d d0 Hd) in Hd1. subst d1.
      destruct (IH _ _ _ _ Hg (or_intror eq_refl) H) as (tail & -> & Hd' & _). exists (b1 :: tail). rewrite <- app_assoc.
      split; [reflexivity|]. assert (d' = gm_view d0) by (destruct Hd' as [->| ->]; reflexivity). split; [right; assumption|intros _; assumption].
    + destruct (set_recommended_state b (RP1 h a) d) as [[b1 d1]|?] eqn:Es; cbn [obind fst snd] in H; [|discriminate].
      destruct (srs_rp1 _ _ _ _ _ _ Es) as [-> Hnm].
      destruct (IH _ _ _ _ Hg Hd H) as (tail & -> & Hd' & Hm). exists (b1 :: tail). rewrite <- app_assoc. split; [reflexivity|].
      split; [exact Hd'|]. intros (b' & [<-|Hin] & Hb'); [rewrite Hnm in Hb'; discriminate|]. apply Hm. eauto.
Qed.

Lemma ann_eqb_refl a : ann_eqb a a = true.
Proof. pose proof (body_eqb_refl (BAnnounce a)) as H. exact H. Qed.
Lemma best_eqb_refl g : best_eqb g g = true.
Proof. unfold best_eqb. rewrite header_eqb_refl, ann_eqb_refl, Z.eqb_refl, pi_eqb_refl. reflexivity. Qed.

(** in slave mode the port whose Erbest is Ebest is recommended S1 *)
Lemma rec_slave_self own g st :
  gm_mode own (Some g) = false ->
  recommended_state own (Some g) (Some g) st = Ok (Some (RS1 (b_header g) (b_ann g))).
Proof.
  unfold gm_mode, recommended_state. intros Hg. apply orb_false_iff in Hg as [Hc Hm]. rewrite Hc.
  unfold compare_d0_best in *. rewrite compare_refines_spec in *. cbn [obind] in *.
  destruct (as_ordering (ord_of_spec (fig34 (cmp_from_own own) (best_cmp_ds g)))); try discriminate Hm.
  cbn [obind]. unfold compare_global_and_port. rewrite best_eqb_refl. reflexivity.
Qed.

Lemma gm_mode_false_some own ebest : gm_mode own ebest = false -> exists g, ebest = Some g.
Proof.
  unfold gm_mode. intros H. apply orb_false_iff in H as [_ H]. destruct ebest as [g|]; [eauto|]. cbn in H. discriminate.
Qed.

(** S1 on a non-faulty port leaves it slave *)
Lemma srs_rs1_slave b h a d b' d' :
  is_faulty (p_state (bp_port b)) = false ->
  set_recommended_state b (RS1 h a) d = Ok (b', d') -> is_slave (p_state (bp_port b')) = true.
Proof.
  intros Hnf H. unfold set_recommended_state in H.
  destruct (set_recommended_port_state b (RS1 h a) (ds_default d)) as [b1|?] eqn:E1; cbn [obind] in H; [|discriminate].
  assert (Hs1 : is_slave (p_state (bp_port b1)) = true).
  { unfold set_recommended_port_state, set_forced in E1.
    destruct (pc_master_only (p_config (bp_port b))); [discriminate|].
    destruct (p_state (bp_port b)) eqn:Est; cbn [is_faulty] in Hnf; try discriminate Hnf;
      try (match type of E1 with context [draw ?x] => let Ed := fresh "Ed" in destruct (draw x) as [k p2] eqn:Ed;
             apply draw_state_eq in Ed end; inversion E1; subst; cbn [bp_port]; rewrite Ed; reflexivity).
    destruct (negb (pi_eqb (ss_remote s) (h_source h))).
    - match type of E1 with context [draw ?x] => let Ed := fresh "Ed" in destruct (draw x) as [k p2] eqn:Ed;
        apply draw_state_eq in Ed end. inversion E1; subst. cbn [bp_port]. rewrite Ed. reflexivity.
    - inversion E1; subst. rewrite Est. reflexivity. }
  destruct (pc_master_only (p_config (bp_port b1))); [discriminate|].
  destruct (chk_u _ _ _); cbn [obind] in H; [|discriminate]. inversion H; subst. exact Hs1.
Qed.

Lemma srs_default b rs d b' d' : set_recommended_state b rs d = Ok (b', d') -> ds_default d' = ds_default d.
Proof.
  unfold set_recommended_state. intros H.
  destruct (set_recommended_port_state b rs (ds_default d)) as [b1|?]; cbn [obind] in H; [|discriminate].
  destruct rs; crunch H; reflexivity.
Qed.

Lemma decide_tail ebest : forall todo done d done' d',
  bmca_decide ebest d todo done = Ok (done', d') -> exists tail, done' = done ++ tail.
Proof.
  intros todo done d done' d' H. destruct (bmca_decide_seqs _ _ _ _ _ _ H) as (tail & -> & _). eauto.
Qed.

Lemma decide_slave g : forall todo done d done' d',
  gm_mode (ds_default d) (Some g) = false ->
  (exists b0, In b0 todo /\ bp_best b0 = Some g /\ is_faulty (p_state (bp_port b0)) = false) ->
  bmca_decide (Some g) d todo done = Ok (done', d') ->
  exists b', In b' done' /\ is_slave (p_state (bp_port b')) = true.
Proof.
  induction todo as [|b todo IH]; intros done d done' d' Hg (b0 & Hin & Hb0 & Hnf) H; [destruct Hin|].
  cbn [bmca_decide] in H. destruct Hin as [<-|Hin].
  - rewrite Hb0, (rec_slave_self _ _ _ Hg) in H. cbn [obind] in H.
    destruct (set_recommended_state b _ d) as [[b1 d1]|?] eqn:Es; cbn [obind fst snd] in H; [|discriminate].
    pose proof (srs_rs1_slave _ _ _ _ _ _ Hnf Es) as Hsl.
    destruct (decide_tail _ _ _ _ _ _ H) as (tail & ->). exists b1. split; [|exact Hsl].
    apply in_or_app. left. apply in_or_app. right. left. reflexivity.
  - destruct (recommended_state _ _ _ _) as [r|?]; cbn [obind] in H; [|discriminate].
    destruct r as [rs|].
    + destruct (set_recommended_state b rs d) as [[b1 d1]|?] eqn:Es; cbn [obind fst snd] in H; [|discriminate].
      eapply IH; [|exists b0; eauto|exact H]. rewrite (srs_default _ _ _ _ _ Es). exact Hg.
    + eapply IH; [exact Hg|exists b0; eauto|exact H].
Qed.

Lemma step_announce_age_state step p p' : step_announce_age step p = Ok p' -> p_state p' = p_state p.
Proof.
  unfold step_announce_age. destruct (dur_from_log_interval _); cbn [obind]; [|discriminate].
  intros H. inversion H; subst. destruct (p_multiport_disable p); reflexivity.
Qed.

Lemma calc_local_best_state p b : calc_local_best p = Ok b -> p_state (bp_port b) = p_state p.
Proof.
  unfold calc_local_best. destruct (bmca_take_best _ _ _ _) as [r|?]; cbn [obind]; [|discriminate].
  intros H. inversion H; reflexivity.
Qed.

Lemma Forall2_in_r {A B} (R : A -> B -> Prop) la lb b : Forall2 R la lb -> In b lb -> exists a, In a la /\ R a b.
Proof.
  induction 1 as [|x y la lb Hxy _ IH]; intros Hin; [destruct Hin|].
  destruct Hin as [<-|Hin]; [exists x; split; [left; reflexivity|exact Hxy]|].
  destruct (IH Hin) as (a & Ha & Hr). exists a. split; [right; exact Ha|exact Hr].
Qed.
Lemma Forall2_in_l {A B} (R : A -> B -> Prop) la lb a : Forall2 R la lb -> In a la -> exists b, In b lb /\ R a b.
Proof.
  induction 1 as [|x y la lb Hxy _ IH]; intros Hin; [destruct Hin|].
  destruct Hin as [<-|Hin]; [exists y; split; [left; reflexivity|exact Hxy]|].
  destruct (IH Hin) as (b & Hb & Hr). exists b. split; [right; exact Hb|exact Hr].
Qed.

Lemma bmca_gm_view i i' o :
  bmca i = Ok (i', o) ->
  forallb (fun s => negb (s =? 9)) (sn_states (snapshot_of i')) = true ->
  existsb (fun s => s =? 6) (sn_states (snapshot_of i')) = true ->
  i_ds i' = gm_view (i_ds i).
Proof.
  unfold bmca. intros H Hns Hsm.
  destruct (bmca_interval_dur _) as [step|?]; cbn [obind] in H; [|discriminate].
  destruct (negb _); [discriminate|].
  destruct (omap_list calc_local_best (i_ports i)) as [bps|?] eqn:E1; cbn [obind] in H; [|discriminate].
  destruct (find_best _) as [ebest|?] eqn:Eb; cbn [obind] in H; [|discriminate].
  destruct (bmca_decide ebest (i_ds i) bps []) as [[bps1 d1]|?] eqn:E2; cbn [obind] in H; [|discriminate].
  destruct (omap_list _ bps1) as [ports|?] eqn:E3; cbn [obind] in H; [|discriminate].
  inversion H; subst. clear H. cbn [i_ds]. unfold snapshot_of in Hns, Hsm. cbn [sn_states i_ports] in Hns, Hsm.
  pose proof (omap_list_rel _ (fun b p' => p_state p' = p_state (bp_port b))
                (fun b p' Hx => step_announce_age_state _ _ _ Hx) _ _ E3) as R3.
  destruct (gm_mode (ds_default (i_ds i)) ebest) eqn:Eg.
  - destruct (decide_gm ebest (i_ds i) bps [] (i_ds i) _ _ Eg (or_introl eq_refl) E2) as (tail & Ht & _ & Hm).
    cbn [app] in Ht. subst tail. apply Hm.
    apply existsb_exists in Hsm. destruct Hsm as (s & Hin & Hs6). apply in_map_iff in Hin. destruct Hin as (p' & <- & Hp').
    destruct (Forall2_in_r _ _ _ _ R3 Hp') as (b' & Hb' & Hst). exists b'. split; [exact Hb'|].
    rewrite <- Hst. destruct (p_state p'); try discriminate Hs6; reflexivity.
  - exfalso. destruct (gm_mode_false_some _ _ Eg) as (g & ->).
    (* Ebest is the Erbest of a non-faulty port *)
    apply find_best_in in Eb. apply in_flat_map in Eb. destruct Eb as (b0 & Hin0 & Hg0).
    unfold best_for_bmca in Hg0. destruct (pc_master_only (p_config (bp_port b0))); cbn [orb] in Hg0; [destruct Hg0|].
    destruct (is_faulty (p_state (bp_port b0))) eqn:Ef; [destruct Hg0|].
    destruct (bp_best b0) as [g'|] eqn:Eg'; [|destruct Hg0]. destruct Hg0 as [<-|[]].
    destruct (decide_slave g' bps [] (i_ds i) _ _ Eg ltac:(exists b0; eauto) E2) as (b' & Hb' & Hsl).
    destruct (Forall2_in_l _ _ _ _ R3 Hb') as (p' & Hp' & Hst).
    rewrite forallb_forall in Hns. specialize (Hns (port_state_code (p_state p')) (in_map _ _ _ Hp')).
    rewrite Hst in Hns. destruct (p_state (bp_port b')); try discriminate Hsl. discriminate Hns.
Qed.

(** * C11_main: the complete oracle on the model's own trace *)
Lemma step_C11_model c i e i' o :
  inst_inv i -> event_valid e -> step i e = Ok (i', o) ->
  step_C11 c tt (snapshot_of i) e o (snapshot_of i') = Some tt.
Proof.
  intros Hi He Hs. unfold step_C11. cbv zeta.
  pose proof (reflects_model c i e i' o Hi He Hs) as Ha. unfold reflects_C11 in Ha. rewrite Ha. cbn [andb].
  assert (Hb : b_C11 (snapshot_of i) e (snapshot_of i') = true).
  { destruct e; try reflexivity; cbn [step] in Hs.
    - exact (announce_receive_b i p frame i' o true ts Hs).
    - exact (announce_receive_b i p frame i' o false 0 Hs). }
  unfold b_C11 in Hb. rewrite Hb. cbn [andb].
  assert (Hc : match e with
               | EvBmca =>
                   let no_slave := forallb (fun s => negb (s =? 9)) (sn_states (snapshot_of i')) in
                   let some_master := existsb (fun s => s =? 6) (sn_states (snapshot_of i')) in
                   if no_slave && some_master then
                     (ds_steps_removed (sn_ds (snapshot_of i')) =? 0)
                     && pd_eqb (ds_parent (sn_ds (snapshot_of i'))) (own_parent (ds_default (sn_ds (snapshot_of i'))))
                     && (if existsb (fun s => s =? 9) (sn_states (snapshot_of i))
                         then tp_eqb (ds_tp (sn_ds (snapshot_of i'))) (mkTP None 0 false false true 160) else true)
                   else true
               | _ => true
               end = true).
  { destruct e; try reflexivity. cbv zeta. cbn [step] in Hs.
    destruct (forallb (fun s => negb (s =? 9)) (sn_states (snapshot_of i'))) eqn:Hns; [|reflexivity].
    destruct (existsb (fun s => s =? 6) (sn_states (snapshot_of i'))) eqn:Hsm; [|reflexivity].
    cbn [andb]. pose proof (bmca_gm_view i i' o Hs Hns Hsm) as Hd.
    assert (Hds : sn_ds (snapshot_of i') = gm_view (i_ds i)) by exact Hd.
    rewrite Hds. unfold gm_view, own_parent.
    cbn [ds_with ds_steps_removed ds_parent ds_default ds_tp]. rewrite pd_eqb_refl.
    destruct (existsb (fun s : Z => s =? 9) (sn_states (snapshot_of i))); vm_compute; reflexivity. }
  match goal with |- (if ?x then _ else _) = _ =>
    assert (Hx : x = true) by (cbv zeta in Hc; exact Hc); rewrite Hx; reflexivity end.
Qed.

Lemma walk_C11_model c : forall es i,
  inst_inv i -> Forall event_valid es -> walk (step_C11 c) tt (snapshot_of i) es (run i es) = true.
Proof.
  induction es as [|e es IH]; intros i Hi Hes; cbn [run walk]; [reflexivity|].
  inversion Hes as [|? ? He Hes']; subst.
  destruct (step_ok i e Hi He) as (i' & o & Hs & Hi' & _). rewrite Hs. cbn [walk].
  rewrite (step_C11_model c i e i' o Hi He Hs). apply IH; assumption.
Qed.

Theorem ok_C11_model s es rel :
  setup_valid s -> Forall event_valid es ->
  exists i o, init s = Ok (i, o) /\ ok_C11 (mkCase s es rel (Some o) (run i es)) = true.
Proof.
  intros Hs Hes. destruct (init_ok s Hs) as (i & o & Hi & Hinv & _). exists i, o. split; [exact Hi|].
  unfold ok_C11, init_snap. cbn [pc_setup pc_events pc_trace]. rewrite Hi. apply walk_C11_model; assumption.
Qed.
