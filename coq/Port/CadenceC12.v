(** C12, cadence in safety form: between two firings of the announce (sync)
    timer of a port that stays MASTER - with no announce receipt timeout of that
    port in between - nothing touches that timer: its deadline in the host's
    timer book stays "time of the firing + the configured interval".  An
    obedient host (one that fires a timer when it is due, to within the 2 ns the
    oracle allows) therefore emits consecutive Announces (Syncs) of a port that
    stays master one configured interval apart. *)
From SV Require Export Port.MainC12 Port.MainC05.
Local Open Scope Z_scope.

(** * the host's timer book *)
Definition deadline (tms : list timers) (p k : nat) : option Z := nth k (nth p tms no_timers) None.

Definition touches (p k : nat) (x : tobs) : bool :=
  Nat.eqb (Z.to_nat (fst x)) p && match reset_kind (snd x) with Some k' => Nat.eqb k' k | None => false end.

Lemma nth_update_nth_same {A} n (x d : A) l : (n < length l)%nat -> nth n (update_nth n x l) d = x.
Proof. revert n; induction l as [|y l IH]; intros [|n] H; cbn in *; try lia; [reflexivity|apply IH; lia]. Qed.
Lemma nth_update_nth_other {A} n m (x d : A) l : n <> m -> nth m (update_nth n x l) d = nth m l d.
Proof.
  revert n m; induction l as [|y l IH]; intros [|n] [|m] H; cbn; try reflexivity; try congruence. apply IH. congruence.
Qed.

Lemma reset_step_untouched now acc x p k : touches p k x = false -> deadline (reset_step now acc x) p k = deadline acc p k.
Proof.
  unfold touches, reset_step, deadline, set_timer. intros H.
  destruct (snd x) eqn:Es; cbn [reset_kind] in H; try reflexivity;
    (destruct (Nat.eqb_spec (Z.to_nat (fst x)) p) as [Ep|Ep]; cbn [andb] in H;
     [ destruct (Nat.lt_ge_cases p (length acc)) as [Hlt|Hge];
       [ rewrite Ep, nth_update_nth_same by exact Hlt; rewrite nth_update_nth_other by (intros E; subst k; discriminate H); reflexivity
       | rewrite Ep, update_nth_beyond by exact Hge; reflexivity ]
     | rewrite nth_update_nth_other by exact Ep; reflexivity ]).
Qed.

Lemma apply_resets_untouched now o p k : forall tms,
  forallb (fun x => negb (touches p k x)) o = true -> deadline (apply_resets now tms o) p k = deadline tms p k.
Proof.
  induction o as [|x o IH]; intros tms H; [reflexivity|].
  cbn [forallb] in H. apply andb_true_iff in H as [H1 H2]. apply negb_true_iff in H1.
  rewrite apply_resets_fold. cbn [fold_left]. rewrite <- apply_resets_fold. rewrite (IH _ H2). apply reset_step_untouched. exact H1.
Qed.

Definition reset_ns (x : obs) : Z :=
  match x with
  | AResetAnnounceTimer ns | AResetSyncTimer ns | AResetDelayRequestTimer ns
  | AResetAnnounceReceiptTimer ns | AResetFilterUpdateTimer ns => ns
  | _ => 0
  end.

Lemma reset_step_touched now acc x p k :
  book_wf acc -> (p < length acc)%nat -> (k < 5)%nat -> touches p k x = true ->
  deadline (reset_step now acc x) p k = Some (now + reset_ns (snd x)).
Proof.
  unfold touches, reset_step, deadline, set_timer. intros Hwf Hp Hk H. apply andb_true_iff in H as [Ep Ek]. apply Nat.eqb_eq in Ep.
  pose proof (nth_no_timers_len acc p Hwf) as Hlen.
  destruct (snd x) eqn:Es; cbn [reset_kind] in Ek; try discriminate Ek; apply Nat.eqb_eq in Ek; subst k; cbn [reset_ns];
    rewrite Ep, nth_update_nth_same by exact Hp; rewrite nth_update_nth_same by (rewrite Hlen; lia); reflexivity.
Qed.

Lemma apply_resets_touched now o1 x o2 p k tms :
  book_wf tms -> (p < length tms)%nat -> (k < 5)%nat -> touches p k x = true ->
  forallb (fun y => negb (touches p k y)) o2 = true ->
  deadline (apply_resets now tms (o1 ++ x :: o2)) p k = Some (now + reset_ns (snd x)).
Proof.
  intros Hwf Hp Hk Hx H2. rewrite apply_resets_fold, fold_left_app. cbn [fold_left].
  rewrite <- apply_resets_fold. rewrite (apply_resets_untouched now o2 p k _ H2).
  destruct (apply_resets_wf now o1 tms Hwf) as [W1 W2]. rewrite <- apply_resets_fold.
  apply reset_step_touched; [exact W1|rewrite W2; exact Hp|exact Hk|exact Hx].
Qed.

(** * which calls request the announce / sync timer *)
Definition is_reset01 (x : obs) : bool := match x with AResetAnnounceTimer _ | AResetSyncTimer _ => true | _ => false end.
Definition quiet01 (oo : list obs) : bool := forallb (fun x => negb (is_reset01 x)) oo.

Lemma quiet01_app a b : quiet01 (a ++ b) = quiet01 a && quiet01 b.
Proof. apply forallb_app. Qed.

Lemma extract_quiet p p' om o : extract_measurement p = Ok (p', om, o) -> quiet01 o = true.
Proof.
  unfold extract_measurement, set_forced. intros H. crunch H;
    repeat match goal with E : (if ?c then _ else _) = (_, _) |- _ => destruct c; inversion E; subst; clear E end;
    repeat match goal with |- context [if ?c then _ else _] => destruct c end; reflexivity.
Qed.
Lemma htm_quiet q d q' d' o : handle_time_measurement q d = Ok (q', d', o) -> quiet01 o = true.
Proof.
  unfold handle_time_measurement. intros H.
  destruct (extract_measurement q) as [[[p1 om] o1]|?] eqn:E; cbn [obind] in H; [|discriminate].
  apply extract_quiet in E. destruct om as [m|]; [destruct (filter_mean_delay m)|]; unfold ret in H; inversion H; subst;
    rewrite ?quiet01_app, ?E; reflexivity.
Qed.

Ltac q_tac H :=
  crunch H;
  first [ reflexivity
        | match goal with Hx : handle_time_measurement _ _ = Ok _ |- _ => exact (htm_quiet _ _ _ _ _ Hx) end
        | match goal with Hx : go_faulty _ _ = Ok _ |- _ =>
            unfold go_faulty, set_forced, ret in Hx; repeat match type of Hx with context [if ?c then _ else _] => destruct c end; inversion Hx; reflexivity end ].

Lemma handle_sync_quiet p d h w t p' d' o : handle_sync p d h w t = Ok (p', d', o) -> quiet01 o = true.
Proof. intros H. unfold handle_sync in H. q_tac H. Qed.
Lemma handle_follow_up_quiet p d h w p' d' o : handle_follow_up p d h w = Ok (p', d', o) -> quiet01 o = true.
Proof. intros H. unfold handle_follow_up in H. q_tac H. Qed.
Lemma handle_delay_resp_quiet p d h w r p' d' o : handle_delay_resp p d h w r = Ok (p', d', o) -> quiet01 o = true.
Proof. intros H. unfold handle_delay_resp in H. q_tac H. Qed.
Lemma handle_delay_timestamp_quiet p d id t p' d' o : handle_delay_timestamp p d id t = Ok (p', d', o) -> quiet01 o = true.
Proof. intros H. unfold handle_delay_timestamp in H. q_tac H. Qed.
Lemma handle_pdelay_timestamp_quiet p d id t p' d' o : handle_pdelay_timestamp p d id t = Ok (p', d', o) -> quiet01 o = true.
Proof. intros H. unfold handle_pdelay_timestamp in H. q_tac H. Qed.
Lemma handle_peer_delay_response_quiet p d h w r t p' d' o : handle_peer_delay_response p d h w r t = Ok (p', d', o) -> quiet01 o = true.
Proof. intros H. unfold handle_peer_delay_response in H. q_tac H. Qed.
Lemma handle_peer_delay_follow_up_quiet p d h w r p' d' o : handle_peer_delay_follow_up p d h w r = Ok (p', d', o) -> quiet01 o = true.
Proof. intros H. unfold handle_peer_delay_follow_up in H. cbv zeta in H. q_tac H. Qed.
Lemma handle_delay_req_quiet p d h ts p' d' o : handle_delay_req p d h ts = Ok (p', d', o) -> quiet01 o = true.
Proof. intros H. unfold handle_delay_req in H. q_tac H. Qed.
Lemma handle_pdelay_req_quiet p d h ts p' d' o : handle_pdelay_req p d h ts = Ok (p', d', o) -> quiet01 o = true.
Proof. intros H. unfold handle_pdelay_req in H. q_tac H. Qed.
Lemma handle_sync_timestamp_quiet p d id ts p' d' o : handle_sync_timestamp p d id ts = Ok (p', d', o) -> quiet01 o = true.
Proof. intros H. unfold handle_sync_timestamp in H. q_tac H. Qed.
Lemma handle_pdelay_response_timestamp_quiet p d id rq ts p' d' o :
  handle_pdelay_response_timestamp p d id rq ts = Ok (p', d', o) -> quiet01 o = true.
Proof. intros H. unfold handle_pdelay_response_timestamp in H. q_tac H. Qed.
Lemma send_delay_request_quiet p d p' d' o : send_delay_request p d = Ok (p', d', o) -> quiet01 o = true.
Proof.
  unfold send_delay_request. intros H.
  repeat match type of H with context [draw ?x] => destruct (draw x) as [k p3] end. q_tac H.
Qed.

Lemma forward_obs_quiet sfx src : quiet01 (forward_obs sfx src) = true.
Proof. unfold forward_obs, quiet01. rewrite forallb_forall. intros x Hx. apply in_map_iff in Hx as (t & <- & _). reflexivity. Qed.

Lemma handle_announce_quiet p d ti m a p' d' o : handle_announce p d ti m a = Ok (p', d', o) -> quiet01 o = true.
Proof.
  intros H. unfold handle_announce in H. cbv zeta in H.
  match type of H with obind ?X _ = _ => destruct X as [[[d1 lp] locks]|?] eqn:E end; cbn [obind] in H; [|discriminate].
  assert (Hl : quiet01 locks = true).
  { crunch E; reflexivity. }
  destruct lp; [unfold ret in H; inversion H; subst; exact Hl|].
  destruct (bmca_register _ _ _ _ _ _) as [acc fml]. destruct acc; [|unfold ret in H; inversion H; subst; exact Hl].
  unfold set_forced in H.
  match type of H with context [if ?c then _ else _] => destruct c end;
    match type of H with context [draw ?x] => destruct (draw x) as [k p3] end;
    unfold ret in H; inversion H; subst; rewrite !quiet01_app, Hl; cbn [andb].
  all: repeat match goal with |- context [if ?c then _ else _] => destruct c end.
  all: unfold quiet01; cbn [forallb app is_reset01 negb andb]; try apply forward_obs_quiet.

Qed.

Lemma general_internal_quiet p d ti m p' d' o : handle_general_internal p d ti m = Ok (p', d', o) -> quiet01 o = true.
Proof.
  unfold handle_general_internal. intros H. destruct (m_body m); try (unfold ret in H; inversion H; reflexivity).
  - eapply handle_follow_up_quiet; eauto.
  - eapply handle_delay_resp_quiet; eauto.
  - eapply handle_peer_delay_follow_up_quiet; eauto.
  - eapply handle_announce_quiet; eauto.
Qed.
Lemma parse_quiet d frame m o1 : parse_and_filter d frame = (m, o1) -> quiet01 o1 = true.
Proof.
  unfold parse_and_filter. destruct (negb _); [intros H; inversion H; reflexivity|]. destruct (decode frame); [|intros H; inversion H; reflexivity].
  destruct (_ && _); intros H; inversion H; reflexivity.
Qed.
Lemma general_receive_quiet p d ti frame p' d' o : handle_general_receive p d ti frame = Ok (p', d', o) -> quiet01 o = true.
Proof.
  unfold handle_general_receive. intros H. destruct (parse_and_filter d frame) as [[m|] o1] eqn:Ep; pose proof (parse_quiet _ _ _ _ Ep) as Hq;
    [|unfold ret in H; inversion H; subst; exact Hq].
  unfold prepend in H. destruct (handle_general_internal p d ti m) as [[[p1 d1] o2]|?] eqn:E; cbn [obind] in H; [|discriminate].
  inversion H; subst. rewrite quiet01_app, Hq. eapply general_internal_quiet; eauto.
Qed.
Lemma event_receive_quiet p d ti frame ts p' d' o : handle_event_receive p d ti frame ts = Ok (p', d', o) -> quiet01 o = true.
Proof.
  unfold handle_event_receive. intros H. destruct (parse_and_filter d frame) as [[m|] o1] eqn:Ep; pose proof (parse_quiet _ _ _ _ Ep) as Hq;
    [|unfold ret in H; inversion H; subst; exact Hq].
  unfold prepend in H. match type of H with obind ?X _ = _ => destruct X as [[[p1 d1] o2]|?] eqn:E end; cbn [obind] in H; [|discriminate].
  inversion H; subst. rewrite quiet01_app, Hq. cbn [andb]. destruct (m_body m); try (eapply general_internal_quiet; exact E).
  - eapply handle_sync_quiet; eauto.
  - eapply handle_delay_req_quiet; eauto.
  - eapply handle_pdelay_req_quiet; eauto.
  - eapply handle_peer_delay_response_quiet; eauto.
Qed.
Lemma send_timestamp_quiet p d c ts p' d' o : handle_send_timestamp p d c ts = Ok (p', d', o) -> quiet01 o = true.
Proof.
  unfold handle_send_timestamp. intros H. destruct c;
    [eapply handle_sync_timestamp_quiet|eapply handle_delay_timestamp_quiet|eapply handle_pdelay_timestamp_quiet|eapply handle_pdelay_response_timestamp_quiet]; eauto.
Qed.

(** the announce timer of a master port: exactly one request, with the configured interval, and no sync timer request *)
Definition kind_count (k : nat) (oo : list obs) : nat :=
  length (filter (fun x => match reset_kind x with Some k' => Nat.eqb k' k | None => false end) oo).

Lemma announce_loop_quiet : forall fuel queue margin parent path_on acc_b acc_l sfx locks,
  announce_tlv_loop fuel queue margin parent path_on acc_b acc_l = Ok (sfx, locks) ->
  quiet01 acc_l = true -> quiet01 locks = true.
Proof.
  induction fuel as [|fuel IH]; intros queue margin parent path_on acc_b acc_l sfx locks H Hq; cbn [announce_tlv_loop] in H.
  - crunch H; exact Hq.
  - crunch H; try exact Hq; eapply IH; try eassumption; rewrite ?quiet01_app, ?Hq; reflexivity.
Qed.

Lemma send_announce_shape p d q p' d' o : send_announce p d q = Ok (p', d', o) ->
  if is_master (p_state p)
  then exists pre frame, o = pre ++ [AResetAnnounceTimer (interval_ns (pc_log_announce (p_config p))); ASendGeneral frame false] /\ quiet01 pre = true
  else o = [].
Proof.
  unfold send_announce. intros H. destruct (is_master (p_state p)); [|unfold ret in H; inversion H; reflexivity].
  match type of H with context [let '(a, b) := ?X in _] => destruct X as [pb m1] end.
  match type of H with obind ?X _ = _ => destruct X as [[sfx locks]|?] eqn:El end; cbn [obind] in H; [|discriminate].
  destruct (serialize_packet _) as [frame|?]; cbn [obind] in H; [|discriminate].
  unfold ret in H. inversion H; subst. exists ([rd_lock; rd_lock] ++ locks), frame. split; [rewrite <- app_assoc; reflexivity|].
  rewrite quiet01_app. cbn [andb]. replace (quiet01 [rd_lock; rd_lock]) with true by reflexivity. cbn [andb].
  eapply announce_loop_quiet; [exact El|reflexivity].
Qed.

Lemma send_sync_shape p d p' d' o : send_sync p d = Ok (p', d', o) ->
  if is_master (p_state p)
  then exists ctx frame, o = [rd_lock; AResetSyncTimer (interval_ns (pc_log_sync (p_config p))); ASendEvent ctx frame false]
  else o = [].
Proof.
  unfold send_sync. intros H. destruct (is_master (p_state p)); [|unfold ret in H; inversion H; reflexivity].
  destruct (serialize_packet _) as [frame|?]; cbn [obind] in H; [|discriminate].
  unfold ret in H. inversion H; subst. eexists _, _. reflexivity.
Qed.

(** * tagged observations *)
Lemma tag_untouched n oo p k : (k = 0 \/ k = 1)%nat -> quiet01 oo = true -> forallb (fun x => negb (touches p k x)) (tag n oo) = true.
Proof.
  intros Hk Hq. unfold tag. rewrite forallb_forall. intros y Hy. apply in_map_iff in Hy as (x & <- & Hx).
  unfold quiet01 in Hq. rewrite forallb_forall in Hq. specialize (Hq x Hx). unfold touches.
  destruct x; cbn [fst snd reset_kind is_reset01 negb] in *; try (rewrite andb_false_r; reflexivity); try discriminate Hq;
    destruct Hk as [-> | ->]; cbn; rewrite andb_false_r; reflexivity.
Qed.

Lemma tag_other_port n oo p k : n <> p -> forallb (fun x => negb (touches p k x)) (tag n oo) = true.
Proof.
  intros Hne. unfold tag. rewrite forallb_forall. intros y Hy. apply in_map_iff in Hy as (x & <- & Hx). unfold touches.
  destruct x; cbn [fst snd reset_kind]; try (rewrite andb_false_r; reflexivity);
    rewrite Nat2Z.id; rewrite (proj2 (Nat.eqb_neq n p) Hne); reflexivity.
Qed.

Lemma tag_ports_untouched f p k : forall bs j,
  (forall q b, nth_error bs q = Some b -> (j + q)%nat = p -> forallb (fun x => negb (touches p k x)) (tag p (f b)) = true) ->
  forallb (fun x => negb (touches p k x)) (tag_ports j bs f) = true.
Proof.
  induction bs as [|b bs IH]; intros j H; [reflexivity|]. cbn [tag_ports]. rewrite forallb_app. apply andb_true_iff. split.
  - destruct (Nat.eq_dec j p) as [->|Hne]; [apply (H 0%nat b eq_refl); lia|apply tag_other_port; exact Hne].
  - apply IH. intros q b' Hq Hp. apply (H (S q) b' Hq). lia.
Qed.

(** * the oracle's book across one call *)
Lemma step_C12_tms c s prev e o sn s' : step_C12 c s prev e o sn = Some s' ->
  match e with
  | EvTick ns => tms s' = tms s /\ now12 s' = now12 s + ns
  | _ => now12 s' = now12 s /\
         tms s' = apply_resets (now12 s)
                    (match timer_event e with
                     | Some (p, k) => update_nth p (set_timer (nth p (tms s) no_timers) k None) (tms s)
                     | None => tms s
                     end) o
  end.
Proof.
  unfold step_C12. destruct e; try (intros H; inversion H; split; reflexivity);
    cbv zeta; intros H;
    repeat match type of H with (if ?c then _ else _) = _ => destruct c end; try discriminate H; inversion H; split; reflexivity.
Qed.

Lemma clear_deadline_other tm q kf p k : (p, k) <> (q, kf) ->
  deadline (update_nth q (set_timer (nth q tm no_timers) kf None) tm) p k = deadline tm p k.
Proof.
  intros Hne. unfold deadline, set_timer. destruct (Nat.eq_dec q p) as [->|Hqp].
  - destruct (Nat.lt_ge_cases p (length tm)) as [Hlt|Hge].
    + rewrite nth_update_nth_same by exact Hlt. rewrite nth_update_nth_other by (intros E; apply Hne; rewrite E; reflexivity). reflexivity.
    + rewrite update_nth_beyond by exact Hge. reflexivity.
  - rewrite nth_update_nth_other by exact Hqp. reflexivity.
Qed.

Lemma book_untouched c s prev e o sn s' p k :
  step_C12 c s prev e o sn = Some s' -> timer_event e <> Some (p, k) ->
  forallb (fun x => negb (touches p k x)) o = true -> deadline (tms s') p k = deadline (tms s) p k.
Proof.
  intros H Hne Hq. pose proof (step_C12_tms _ _ _ _ _ _ _ H) as Ht.
  destruct e; try (destruct Ht as [_ ->]; rewrite (apply_resets_untouched _ _ _ _ _ Hq); cbn [timer_event] in *;
                   first [reflexivity|apply clear_deadline_other; intros E; apply Hne; inversion E; reflexivity]).
  destruct Ht as [-> _]. reflexivity.
Qed.

Lemma clear_wf' tm q kf : book_wf tm -> book_wf (update_nth q (set_timer (nth q tm no_timers) kf None) tm).
Proof. apply clear_wf. Qed.

Lemma book_fired c s prev e o sn s' p k o1 x o2 :
  step_C12 c s prev e o sn = Some s' -> (match e with EvTick _ => False | _ => True end) ->
  book_wf (tms s) -> (p < length (tms s))%nat -> (k < 5)%nat ->
  o = o1 ++ x :: o2 -> touches p k x = true -> forallb (fun y => negb (touches p k y)) o2 = true ->
  deadline (tms s') p k = Some (now12 s + reset_ns (snd x)).
Proof.
  intros H Hnt Hwf Hp Hk -> Hx H2. pose proof (step_C12_tms _ _ _ _ _ _ _ H) as Ht.
  destruct e; try contradiction; destruct Ht as [_ ->]; cbn [timer_event];
    apply apply_resets_touched; try assumption; try (apply clear_wf'; exact Hwf); try (rewrite update_nth_length; exact Hp).
Qed.

(** * a BMCA run requests nothing from a port that stays master *)
Lemma srpt_master_keeps b rs dd b1 : set_recommended_port_state b rs dd = Ok b1 ->
  p_state (bp_port b) = PMaster -> p_state (bp_port b1) = PMaster -> b1 = b.
Proof.
  intros H Hm Hm1. unfold set_recommended_port_state, set_forced in H. rewrite Hm in H.
  destruct rs; crunch H; try reflexivity; cbn [bp_port] in Hm1;
    repeat match goal with E : draw _ = (_, _) |- _ => apply draw_state_eq in E; rewrite E in Hm1; clear E end;
    cbn [port_with_state p_state] in Hm1; try discriminate Hm1.
Qed.

Lemma srs_master_keeps b rs d b' d' : set_recommended_state b rs d = Ok (b', d') ->
  p_state (bp_port b) = PMaster -> p_state (bp_port b') = PMaster -> bp_pending b' = bp_pending b /\ bp_side b' = bp_side b.
Proof.
  intros H Hm Hm'. unfold set_recommended_state in H.
  destruct (set_recommended_port_state b rs (ds_default d)) as [b1|?] eqn:E1; cbn [obind] in H; [|discriminate].
  assert (Hb' : bp_port b' = bp_port b1) by (destruct rs; crunch H; reflexivity).
  rewrite Hb' in Hm'. pose proof (srpt_master_keeps _ _ _ _ E1 Hm Hm') as ->.
  destruct rs; crunch H; try (split; reflexivity).
  (* RS1 cannot leave a master port master *)
  exfalso. unfold set_recommended_port_state in E1. rewrite Hm in E1.
  match goal with E : pc_master_only _ = false |- _ => rewrite E in E1 end.
  unfold set_forced in E1. destruct (draw _) as [k p2] eqn:Ed. inversion E1 as [Eb]. apply draw_state_eq in Ed.
  rewrite <- Eb in Hm. cbn [bp_port] in Hm. rewrite Ed in Hm. cbn [port_with_state p_state] in Hm. discriminate Hm.
Qed.

Lemma decide_master_keeps ebest : forall todo done d done' d',
  bmca_decide ebest d todo done = Ok (done', d') ->
  exists tail, done' = done ++ tail /\
    Forall2 (fun b b' => p_state (bp_port b) = PMaster -> p_state (bp_port b') = PMaster ->
                         bp_pending b' = bp_pending b /\ bp_side b' = bp_side b) todo tail.
Proof.
  induction todo as [|b todo IH]; intros done d done' d' H; cbn [bmca_decide] in H.
  - inversion H; subst. exists []. rewrite app_nil_r. split; [reflexivity|constructor].
  - destruct (recommended_state _ _ _ _) as [r|?] eqn:Er; cbn [obind] in H; [|discriminate].
    destruct r as [rs|].
    + destruct (set_recommended_state b rs d) as [[b' d1]|?] eqn:E; cbn [obind fst snd] in H; [|discriminate].
      destruct (IH _ _ _ _ H) as (tail & -> & Ht). exists (b' :: tail). rewrite <- app_assoc. split; [reflexivity|].
      constructor; [intros A B; eapply srs_master_keeps; eauto|exact Ht].
    + destruct (IH _ _ _ _ H) as (tail & -> & Ht). exists (b :: tail). rewrite <- app_assoc. split; [reflexivity|].
      constructor; [intros _ _; split; reflexivity|exact Ht].
Qed.

Lemma bmca_untouched i i' o p k pp pp' :
  bmca i = Ok (i', o) -> (k = 0 \/ k = 1)%nat ->
  nth_error (i_ports i) p = Some pp -> nth_error (i_ports i') p = Some pp' ->
  p_state pp = PMaster -> p_state pp' = PMaster ->
  forallb (fun x => negb (touches p k x)) o = true.
Proof.
  intros Hb Hk Hn Hn' Hm Hm'.
  destruct (bmca_struct _ _ _ Hb) as (step & bps & eb & bps1 & d1 & ports & E0 & Ebps & Eeb & Edec & Eports & Hi').
  pose proof (omap_list_rel calc_local_best (fun pp b => calc_local_best pp = Ok b) (fun _ _ H => H) _ _ Ebps) as F1.
  destruct (decide_master_keeps _ _ _ _ _ _ Edec) as (tail & Ht & HF2). cbn [app] in Ht. subst tail.
  pose proof (omap_list_rel (fun b => step_announce_age step (bp_port b)) (fun b pp' => p_state pp' = p_state (bp_port b))
                (fun b pp' H => step_announce_age_state _ _ _ H) _ _ Eports) as HF3.
  destruct (MainC09.Forall2_nth _ _ _ F1 p pp Hn) as (b & Hbp & Hcb).
  destruct (MainC09.Forall2_nth _ _ _ HF2 p b Hbp) as (b1 & Hb1 & Hkeep).
  destruct (MainC09.Forall2_nth _ _ _ HF3 p b1 Hb1) as (pp2 & Hpp2 & Hst).
  rewrite Hi' in Hn'. cbn [i_ports] in Hn'. rewrite Hn' in Hpp2. inversion Hpp2; subst pp2.
  assert (Hb0 : bp_pending b = [] /\ bp_side b = [] /\ p_state (bp_port b) = p_state pp).
  { unfold calc_local_best in Hcb. destruct (bmca_take_best _ _ _ _) as [[l1 bb]|?]; cbn [obind] in Hcb; [|discriminate].
    inversion Hcb; subst b. cbn [bp_pending bp_side bp_port]. split; [reflexivity|]. split; [reflexivity|]. destruct pp; reflexivity. }
  destruct Hb0 as (P0 & S0 & St0).
  destruct (Hkeep ltac:(rewrite St0; exact Hm) ltac:(rewrite <- Hst; exact Hm')) as [P1 S1].
  (* the observations of the run *)
  assert (Ho : o = [(-1, wr_lock)] ++ tag_ports 0 bps1 bp_side ++ tag_ports 0 bps1 bp_pending).
  { unfold bmca in Hb. rewrite E0 in Hb. cbn [obind] in Hb. destruct (negb _); [discriminate|]. rewrite Ebps in Hb. cbn [obind] in Hb.
    rewrite Eeb in Hb. cbn [obind] in Hb. rewrite Edec in Hb. cbn [obind] in Hb. rewrite Eports in Hb. cbn [obind] in Hb. inversion Hb; reflexivity. }
  rewrite Ho, !forallb_app. apply andb_true_iff. split; [unfold touches, wr_lock; cbn [forallb fst snd reset_kind]; rewrite !andb_false_r; reflexivity|]. apply andb_true_iff. split.
  - apply tag_ports_untouched. intros q bq Hq Hqp. cbn in Hqp. subst q. rewrite Hb1 in Hq. inversion Hq; subst bq. rewrite S1, S0. reflexivity.
  - apply tag_ports_untouched. intros q bq Hq Hqp. cbn in Hqp. subst q. rewrite Hb1 in Hq. inversion Hq; subst bq. rewrite P1, P0. reflexivity.
Qed.

(** * one call of the model: who requests the announce (k = 0) / sync (k = 1) timer of port p *)
Definition own_timer (p k : nat) (e : event) : bool :=
  match e with
  | EvAnnounceTimer q _ => Nat.eqb q p && Nat.eqb k 0
  | EvSyncTimer q => Nat.eqb q p && Nat.eqb k 1
  | EvAnnounceReceiptTimer q => Nat.eqb q p
  | _ => false
  end.

Lemma step_untouched i e i' o p k pp pp' :
  step i e = Ok (i', o) -> (k = 0 \/ k = 1)%nat -> own_timer p k e = false ->
  nth_error (i_ports i) p = Some pp -> nth_error (i_ports i') p = Some pp' ->
  p_state pp = PMaster -> p_state pp' = PMaster ->
  forallb (fun x => negb (touches p k x)) o = true.
Proof.
  intros Hs Hk Hown Hn Hn' Hm Hm'.
  assert (Hport : forall n f, on_port i n f = Ok (i', o) ->
            (forall q d q' d' oo, f q d = Ok (q', d', oo) -> quiet01 oo = true) ->
            forallb (fun x => negb (touches p k x)) o = true).
  { intros n f Hop Hq. destruct (on_port_inv i n f i' o Hop) as [(_ & _ & ->)|(q & q' & d' & oo & _ & Hh & _ & ->)]; [reflexivity|].
    apply tag_untouched; [exact Hk|eapply Hq; eauto]. }
  destruct e; cbn [step own_timer] in *.
  - apply (Hport p0 _ Hs). intros. eapply event_receive_quiet; eauto.
  - apply (Hport p0 _ Hs). intros. eapply general_receive_quiet; eauto.
  - apply (Hport p0 _ Hs). intros. eapply send_timestamp_quiet; eauto.
  - (* announce timer of some port *)
    destruct (on_port_inv i p0 _ i' o Hs) as [(_ & _ & ->)|(q & q' & d' & oo & Hq & Hh & _ & ->)]; [reflexivity|].
    destruct (Nat.eq_dec p0 p) as [->|Hne]; [|apply tag_other_port; exact Hne].
    rewrite Nat.eqb_refl in Hown. cbn [andb] in Hown. destruct Hk as [-> | ->]; [discriminate Hown|].
    pose proof (send_announce_shape _ _ _ _ _ _ Hh) as Hsh. destruct (is_master (p_state q)); [|rewrite Hsh; reflexivity].
    destruct Hsh as (pre & frame & -> & Hpre). unfold tag. rewrite map_app, forallb_app. apply andb_true_iff. split.
    + apply (tag_untouched p pre p 1%nat (or_intror eq_refl) Hpre).
    + unfold touches. cbn [map forallb fst snd reset_kind]. rewrite !andb_false_r. reflexivity.
  - (* sync timer *)
    destruct (on_port_inv i p0 _ i' o Hs) as [(_ & _ & ->)|(q & q' & d' & oo & Hq & Hh & _ & ->)]; [reflexivity|].
    destruct (Nat.eq_dec p0 p) as [->|Hne]; [|apply tag_other_port; exact Hne].
    rewrite Nat.eqb_refl in Hown. cbn [andb] in Hown. destruct Hk as [-> | ->]; [|discriminate Hown].
    pose proof (send_sync_shape _ _ _ _ _ Hh) as Hsh. destruct (is_master (p_state q)); [|rewrite Hsh; reflexivity].
    destruct Hsh as (ctx & frame & ->). unfold tag, touches, rd_lock. cbn [map forallb fst snd reset_kind]. rewrite !andb_false_r. reflexivity.
  - apply (Hport p0 _ Hs). intros. eapply send_delay_request_quiet; eauto.
  - (* announce receipt timeout of another port *)
    destruct (on_port_inv i p0 _ i' o Hs) as [(_ & _ & ->)|(q & q' & d' & oo & Hq & Hh & _ & ->)]; [reflexivity|].
    apply tag_other_port. intros ->. rewrite Nat.eqb_refl in Hown. discriminate Hown.
  - apply (Hport p0 _ Hs). intros q d q' d' oo Hx. unfold handle_filter_update_timer, ret in Hx. inversion Hx; reflexivity.
  - eapply bmca_untouched; eauto.
  - inversion Hs; subst. unfold touches, wr_lock. cbn [forallb fst snd reset_kind]. rewrite !andb_false_r. reflexivity.
  - inversion Hs; subst. unfold touches, wr_lock. cbn [forallb fst snd reset_kind]. rewrite !andb_false_r. reflexivity.
  - inversion Hs; subst. reflexivity.
Qed.

(** * the firing itself *)
Lemma announce_fire i p q i1 o1 pp :
  step i (EvAnnounceTimer p q) = Ok (i1, o1) -> nth_error (i_ports i) p = Some pp -> p_state pp = PMaster ->
  exists oa x ob, o1 = oa ++ x :: ob /\ touches p 0 x = true /\
    reset_ns (snd x) = interval_ns (pc_log_announce (p_config pp)) /\
    forallb (fun y => negb (touches p 0 y)) ob = true.
Proof.
  cbn [step]. intros Hs Hn Hm.
  destruct (on_port_inv i p _ i1 o1 Hs) as [(Hnn & _)|(pp0 & pp0' & d' & oo & Hn0 & Hh & _ & ->)]; [rewrite Hn in Hnn; discriminate|].
  rewrite Hn in Hn0. inversion Hn0; subst pp0. pose proof (send_announce_shape _ _ _ _ _ _ Hh) as Hsh. rewrite Hm in Hsh. cbn [is_master] in Hsh.
  destruct Hsh as (pre & frame & -> & _). unfold tag. rewrite map_app. cbn [map].
  eexists _, _, _. split; [reflexivity|]. split; [unfold touches; cbn [fst snd reset_kind]; rewrite Nat2Z.id, Nat.eqb_refl; reflexivity|].
  split; [reflexivity|]. unfold touches. cbn [forallb fst snd reset_kind]. rewrite !andb_false_r. reflexivity.
Qed.

Lemma sync_fire i p i1 o1 pp :
  step i (EvSyncTimer p) = Ok (i1, o1) -> nth_error (i_ports i) p = Some pp -> p_state pp = PMaster ->
  exists oa x ob, o1 = oa ++ x :: ob /\ touches p 1 x = true /\
    reset_ns (snd x) = interval_ns (pc_log_sync (p_config pp)) /\
    forallb (fun y => negb (touches p 1 y)) ob = true.
Proof.
  cbn [step]. intros Hs Hn Hm.
  destruct (on_port_inv i p _ i1 o1 Hs) as [(Hnn & _)|(pp0 & pp0' & d' & oo & Hn0 & Hh & _ & ->)]; [rewrite Hn in Hnn; discriminate|].
  rewrite Hn in Hn0. inversion Hn0; subst pp0. pose proof (send_sync_shape _ _ _ _ _ Hh) as Hsh. rewrite Hm in Hsh. cbn [is_master] in Hsh.
  destruct Hsh as (ctx & frame & ->). unfold tag, rd_lock. cbn [map].
  exists [(-1, OLock false 0)], (Z.of_nat p, AResetSyncTimer (interval_ns (pc_log_sync (p_config pp)))), [(Z.of_nat p, ASendEvent ctx frame false)].
  split; [reflexivity|]. split; [unfold touches; cbn [fst snd reset_kind]; rewrite Nat2Z.id, Nat.eqb_refl; reflexivity|].
  split; [reflexivity|]. unfold touches. cbn [forallb fst snd reset_kind]. rewrite !andb_false_r. reflexivity.
Qed.

(** * along a history *)
Lemma code6_master st : port_state_code st = 6 -> st = PMaster.
Proof. destruct st; cbn; intros H; try discriminate H; reflexivity. Qed.

Definition stays_master (p : nat) (rs : list step_result) : bool :=
  forallb (fun r => match r with SROk _ sn => state_of sn p =? 6 | SRPanic => true end) rs.

Lemma own_timer_event p k e : (k = 0 \/ k = 1)%nat -> own_timer p k e = false -> timer_event e <> Some (p, k).
Proof.
  intros Hk H E. destruct e; cbn [timer_event own_timer] in *; try discriminate E; inversion E; subst.
  - rewrite Nat.eqb_refl in H. discriminate H.
  - rewrite Nat.eqb_refl in H. discriminate H.
  - destruct Hk; discriminate.
  - destruct Hk; discriminate.
  - destruct Hk; discriminate.
Qed.

Theorem deadline_kept c p k : (k = 0 \/ k = 1)%nat -> forall mid i s s2 sn2,
  inst_inv i -> Forall event_valid mid ->
  walk12 c s (snapshot_of i) mid (run i mid) = Some (s2, sn2) ->
  forallb (fun e => negb (own_timer p k e)) mid = true ->
  state_of (snapshot_of i) p = 6 -> stays_master p (run i mid) = true ->
  deadline (tms s2) p k = deadline (tms s) p k.
Proof.
  intros Hk. induction mid as [|e mid IH]; intros i s s2 sn2 Hi Hes Hw Hown Hm0 Hst; cbn [run walk12] in Hw.
  - inversion Hw; reflexivity.
  - inversion Hes as [|? ? He Hes']; subst. cbn [forallb] in Hown. apply andb_true_iff in Hown as [Ho1 Ho2]. apply negb_true_iff in Ho1.
    destruct (step_ok i e Hi He) as (i1 & o1 & Hs & Hi1 & _). cbn [run] in Hw, Hst. rewrite Hs in Hw, Hst. cbn [walk12] in Hw.
    destruct (step_C12 c s (snapshot_of i) e o1 (snapshot_of i1)) as [s'|] eqn:Est; [|discriminate Hw].
    cbn [stays_master forallb] in Hst. apply andb_true_iff in Hst as [Hm1 Hst']. apply Z.eqb_eq in Hm1.
    rewrite (IH i1 s' s2 sn2 Hi1 Hes' Hw Ho2 Hm1 Hst').
    (* the call itself *)
    destruct (nth_error (i_ports i) p) as [pp|] eqn:Hn.
    2:{ exfalso. unfold state_of, snapshot_of in Hm0. cbn [sn_states] in Hm0. rewrite nth_overflow in Hm0; [discriminate|]. rewrite map_length. apply nth_error_None. exact Hn. }
    destruct (nth_error (i_ports i1) p) as [pp1|] eqn:Hn1.
    2:{ exfalso. unfold state_of, snapshot_of in Hm1. cbn [sn_states] in Hm1. rewrite nth_overflow in Hm1; [discriminate|]. rewrite map_length. apply nth_error_None. exact Hn1. }
    rewrite (MainC09.state_of_snapshot i p pp Hn) in Hm0. rewrite (MainC09.state_of_snapshot i1 p pp1 Hn1) in Hm1.
    apply (book_untouched c s (snapshot_of i) e o1 (snapshot_of i1) s' p k Est (own_timer_event p k e Hk Ho1)).
    apply (step_untouched i e i1 o1 p k pp pp1 Hs Hk Ho1 Hn Hn1 (code6_master _ Hm0) (code6_master _ Hm1)).
Qed.

(** Cadence of Announce: after the announce timer of a MASTER port has fired at
    oracle time [now12 s], and for as long as the port stays MASTER and neither
    that timer nor the port's announce receipt timer fires, the deadline of that
    timer in the host's book is exactly "that time + the configured announce
    interval".  (An obedient host fires it within 2 ns of that deadline: the
    next Announce is one interval later.) *)
Theorem announce_cadence c i s p q mid i1 o1 s1 s2 sn2 pp :
  inst_inv i -> Forall event_valid (EvAnnounceTimer p q :: mid) ->
  book_wf (tms s) -> (p < length (tms s))%nat ->
  nth_error (i_ports i) p = Some pp -> p_state pp = PMaster ->
  step i (EvAnnounceTimer p q) = Ok (i1, o1) ->
  step_C12 c s (snapshot_of i) (EvAnnounceTimer p q) o1 (snapshot_of i1) = Some s1 ->
  state_of (snapshot_of i1) p = 6 ->
  walk12 c s1 (snapshot_of i1) mid (run i1 mid) = Some (s2, sn2) ->
  forallb (fun e => negb (own_timer p 0 e)) mid = true -> stays_master p (run i1 mid) = true ->
  deadline (tms s2) p 0 = Some (now12 s + interval_ns (pc_log_announce (p_config pp))).
Proof.
  intros Hi Hes Hwf Hp Hn Hm Hs Hst Hm1 Hw Hown Hstay.
  inversion Hes as [|? ? He Hes']; subst.
  destruct (step_ok i _ Hi He) as (i1' & o1' & Hs' & Hi1 & _). rewrite Hs in Hs'. inversion Hs'; subst i1' o1'.
  rewrite (deadline_kept c p 0 (or_introl eq_refl) mid i1 s1 s2 sn2 Hi1 Hes' Hw Hown Hm1 Hstay).
  destruct (announce_fire i p q i1 o1 pp Hs Hn Hm) as (oa & x & ob & Ho & Hx & Hns & Hob).
  rewrite <- Hns. apply (book_fired c s (snapshot_of i) (EvAnnounceTimer p q) o1 (snapshot_of i1) s1 p 0 oa x ob Hst I Hwf Hp ltac:(lia) Ho Hx Hob).
Qed.

Theorem sync_cadence c i s p mid i1 o1 s1 s2 sn2 pp :
  inst_inv i -> Forall event_valid (EvSyncTimer p :: mid) ->
  book_wf (tms s) -> (p < length (tms s))%nat ->
  nth_error (i_ports i) p = Some pp -> p_state pp = PMaster ->
  step i (EvSyncTimer p) = Ok (i1, o1) ->
  step_C12 c s (snapshot_of i) (EvSyncTimer p) o1 (snapshot_of i1) = Some s1 ->
  state_of (snapshot_of i1) p = 6 ->
  walk12 c s1 (snapshot_of i1) mid (run i1 mid) = Some (s2, sn2) ->
  forallb (fun e => negb (own_timer p 1 e)) mid = true -> stays_master p (run i1 mid) = true ->
  deadline (tms s2) p 1 = Some (now12 s + interval_ns (pc_log_sync (p_config pp))).
Proof.
  intros Hi Hes Hwf Hp Hn Hm Hs Hst Hm1 Hw Hown Hstay.
  inversion Hes as [|? ? He Hes']; subst.
  destruct (step_ok i _ Hi He) as (i1' & o1' & Hs' & Hi1 & _). rewrite Hs in Hs'. inversion Hs'; subst i1' o1'.
  rewrite (deadline_kept c p 1 (or_intror eq_refl) mid i1 s1 s2 sn2 Hi1 Hes' Hw Hown Hm1 Hstay).
  destruct (sync_fire i p i1 o1 pp Hs Hn Hm) as (oa & x & ob & Ho & Hx & Hns & Hob).
  rewrite <- Hns. apply (book_fired c s (snapshot_of i) (EvSyncTimer p) o1 (snapshot_of i1) s1 p 1 oa x ob Hst I Hwf Hp ltac:(lia) Ho Hx Hob).
Qed.

(** what the oracle calls an obedient firing of timer (p, k) in state s2 *)
Definition obedient_firing (s2 : st12) (p k : nat) : bool :=
  match deadline (tms s2) p k with Some d => Z.abs (d - now12 s2) <=? 2 | None => false end.

Corollary announce_gap c i s p q mid i1 o1 s1 s2 sn2 pp :
  inst_inv i -> Forall event_valid (EvAnnounceTimer p q :: mid) ->
  book_wf (tms s) -> (p < length (tms s))%nat ->
  nth_error (i_ports i) p = Some pp -> p_state pp = PMaster ->
  step i (EvAnnounceTimer p q) = Ok (i1, o1) ->
  step_C12 c s (snapshot_of i) (EvAnnounceTimer p q) o1 (snapshot_of i1) = Some s1 ->
  state_of (snapshot_of i1) p = 6 ->
  walk12 c s1 (snapshot_of i1) mid (run i1 mid) = Some (s2, sn2) ->
  forallb (fun e => negb (own_timer p 0 e)) mid = true -> stays_master p (run i1 mid) = true ->
  obedient_firing s2 p 0 = true ->
  Z.abs (now12 s2 - now12 s - interval_ns (pc_log_announce (p_config pp))) <= 2.
Proof.
  intros Hi Hes Hwf Hp Hn Hm Hs Hst Hm1 Hw Hown Hstay Hob. unfold obedient_firing in Hob.
  rewrite (announce_cadence c i s p q mid i1 o1 s1 s2 sn2 pp Hi Hes Hwf Hp Hn Hm Hs Hst Hm1 Hw Hown Hstay) in Hob. lia.
Qed.

Corollary sync_gap c i s p mid i1 o1 s1 s2 sn2 pp :
  inst_inv i -> Forall event_valid (EvSyncTimer p :: mid) ->
  book_wf (tms s) -> (p < length (tms s))%nat ->
  nth_error (i_ports i) p = Some pp -> p_state pp = PMaster ->
  step i (EvSyncTimer p) = Ok (i1, o1) ->
  step_C12 c s (snapshot_of i) (EvSyncTimer p) o1 (snapshot_of i1) = Some s1 ->
  state_of (snapshot_of i1) p = 6 ->
  walk12 c s1 (snapshot_of i1) mid (run i1 mid) = Some (s2, sn2) ->
  forallb (fun e => negb (own_timer p 1 e)) mid = true -> stays_master p (run i1 mid) = true ->
  obedient_firing s2 p 1 = true ->
  Z.abs (now12 s2 - now12 s - interval_ns (pc_log_sync (p_config pp))) <= 2.
Proof.
  intros Hi Hes Hwf Hp Hn Hm Hs Hst Hm1 Hw Hown Hstay Hob. unfold obedient_firing in Hob.
  rewrite (sync_cadence c i s p mid i1 o1 s1 s2 sn2 pp Hi Hes Hwf Hp Hn Hm Hs Hst Hm1 Hw Hown Hstay) in Hob. lia.
Qed.
