(** C06 — Foreign masters qualify only by sustained Announces and expire when silent.
    Time is counted in BMCA runs: the host calls PtpInstance::bmca once per
    bmca interval (2^min log announce interval), which ages the records. *)
From SV Require Export Port.OracleBase.

Record arrival := mkArr { ar_src : port_identity; ar_steps : Z; ar_run : Z; ar_seq : Z }.

(** accepted arrival: what the property calls "an Announce of a foreign master
    received on the port" (own identity, unacceptable, >= 255 steps excluded) *)
Definition arrival_of (c : pcase) (prev : snapshot) (p : nat) (frame : bytes) (run : Z) : option arrival :=
  if negb (is_compatible frame) then None else
  match decoded frame with
  | Some m =>
      match m_body m with
      | BAnnounce a =>
          let h := m_header m in
          let acc := match port_cfg c p with Some pc => pc_acceptable pc | None => None end in
          if (h_domain h =? dd_domain (ds_default (sn_ds prev)))
             && (h_sdo_id h =? dd_sdo_id (ds_default (sn_ds prev)))
             && negb (pi_clock (h_source h) =? own_clock c)
             && acceptable acc (pi_clock (h_source h))
             && (an_steps_removed a <? 255)
          then Some (mkArr (h_source h) (an_steps_removed a) run (h_seq h)) else None
      | _ => None
      end
  | None => None
  end.

(** Announce bearing our own clock identity from a lower-numbered port
    (the multiport rule, a different mechanism) *)
Definition own_arrival (c : pcase) (prev : snapshot) (p : nat) (frame : bytes) : bool :=
  if negb (is_compatible frame) then false else
  match decoded frame with
  | Some m =>
      match m_body m with
      | BAnnounce _ =>
          (pi_clock (h_source (m_header m)) =? own_clock c)
          && (pi_port (h_source (m_header m)) <? Z.of_nat p + 1)
      | _ => false
      end
  | None => false
  end.

Record st06 := mkS6 {
  run_no : Z;                        (* number of BMCA runs so far *)
  arrs : list (list arrival);        (* per port *)
  own_seen : list Z                  (* per port: run number of the last own-identity announce, -1000 = never *)
}.

Definition log_bmca (c : pcase) : Z :=
  fold_left Z.min (map (fun x => pc_log_announce (fst x)) (su_ports (pc_setup c))) 127.

(** window (in BMCA runs) of port p: 4 announce intervals / bmca interval *)
Definition window_runs (c : pcase) (p : nat) : Z :=
  match port_cfg c p with
  | Some pc => 4 * 2 ^ (pc_log_announce pc - log_bmca c)
  | None => 4
  end.
Definition interval_runs (c : pcase) (p : nat) : Z :=
  match port_cfg c p with
  | Some pc => 2 ^ (pc_log_announce pc - log_bmca c)
  | None => 1
  end.

(** arrivals from [src] on the port whose age at BMCA run number [now] is below the window.
    A record received after run k has age (now - k) bmca intervals at run [now]+1's decision;
    the decision of run number [now] (0-based) sees age (now - ar_run). *)
Definition recent_from (c : pcase) (p : nat) (l : list arrival) (src : port_identity) (now : Z) : nat :=
  count (fun a => pi_eqb (ar_src a) src && (now - ar_run a <? window_runs c p)) l.

Definition any_recent_pair (c : pcase) (p : nat) (l : list arrival) (now : Z) : bool :=
  existsb (fun a => (2 <=? recent_from c p l (ar_src a) now)%nat) l.

Definition step_C06 (c : pcase) (s : st06) (prev : snapshot) (e : event) (o : list tobs) (sn : snapshot) : option st06 :=
  match e with
  | EvRecvGeneral p frame | EvRecvEvent p frame _ =>
      let arrs' := match arrival_of c prev p frame (run_no s) with
                   | Some a => update_nth p (a :: nth p (arrs s) []) (arrs s)
                   | None => arrs s
                   end in
      let own' := if own_arrival c prev p frame then update_nth p (run_no s) (own_seen s) else own_seen s in
      (* outside BMCA no port becomes slave *)
      if existsb (fun q => negb (state_of prev q =? 9) && (state_of sn q =? 9)) (all_ports c) then None
      else Some (mkS6 (run_no s) arrs' own')
  | EvBmca =>
      let now := run_no s in
      let parent := pd_parent (ds_parent (sn_ds sn)) in
      let ok :=
        forallb (fun p =>
          let l := nth p (arrs s) [] in
          let became_slave := (state_of sn p =? 9)
                              && (negb (state_of prev p =? 9)
                                  || negb (pi_eqb (pd_parent (ds_parent (sn_ds prev))) parent)) in
          let is_slave_now := state_of sn p =? 9 in
          let became_passive := (state_of sn p =? 7) && negb (state_of prev p =? 7) in
          (* necessary condition for becoming (or staying) slave of [parent] on p *)
          (if is_slave_now then
             negb (pi_clock parent =? own_clock c) && (2 <=? recent_from c p l parent now)%nat
           else true)
          && (if became_slave then (2 <=? recent_from c p l parent now)%nat else true)
          (* passive by BMCA: some foreign master with two recent announces, or the multiport rule *)
          && (if became_passive then
                any_recent_pair c p l now || (now - nth p (own_seen s) (-1000) <=? interval_runs c p)
              else true)) (all_ports c) in
      if ok then Some (mkS6 (now + 1) (arrs s) (own_seen s)) else None
  | _ =>
      if existsb (fun q => negb (state_of prev q =? 9) && (state_of sn q =? 9)) (all_ports c) then None
      else Some s
  end.

(** Liveness half on steady histories: one port, one master S ranked better
    than the own clock by priority1, announcing once before every BMCA run with
    consecutive sequence ids (mod 2^16) and unchanged contents; nothing else
    happens.  From the run after the second Announce on, every BMCA run must
    leave the port slave of S (also across 65535 -> 0). *)
Fixpoint steady_scan (c : pcase) (prev : snapshot) (es : list event) (rs : list step_result)
         (src : option (port_identity * Z)) (since_bmca : Z) (total : Z) : bool :=
  match es, rs with
  | [], _ => true
  | EvBmca :: es', SROk _ sn :: rs' =>
      (1 <=? since_bmca) &&
      (if 2 <=? total then
         match src with
         | Some (s, _) => (state_of sn 0 =? 9) && pi_eqb (pd_parent (ds_parent (sn_ds sn))) s
         | None => true
         end
       else true) && steady_scan c sn es' rs' src 0 total
  | EvRecvGeneral O frame :: es', SROk _ sn :: rs' =>
      match arrival_of c prev 0 frame 0, decoded frame with
      | Some a, Some m =>
          match m_body m with
          | BAnnounce ab =>
              (an_prio1 ab <? dd_prio1 (ds_default (sn_ds prev)))
              && (128 <=? cq_class (dd_quality (ds_default (sn_ds prev))))
              && negb (an_gm_identity ab =? own_clock c)
              && (blen (m_suffix m) =? 0)
              && match src with
                 | Some (s, q) => pi_eqb s (ar_src a) && (ar_seq a =? (q + 1) mod 65536)
                 | None => true
                 end
              && steady_scan c sn es' rs' (Some (ar_src a, ar_seq a)) (since_bmca + 1) (total + 1)
          | _ => false
          end
      | _, _ => false
      end
  | _, _ => false
  end.

Definition is_steady_shape (c : pcase) : bool :=
  (nports c =? 1)%nat
  && negb (dd_slave_only (ds_default (sn_ds (init_snap c))))
  && match port_cfg c 0 with Some pc => negb (pc_master_only pc) | None => false end
  && forallb (fun e => match e with EvBmca | EvRecvGeneral O _ => true | _ => false end) (pc_events c).

(** true when the history is not of the steady shape, or is and passes *)
Definition steady_ok (c : pcase) : bool :=
  if is_steady_shape c then
    (* the shape test above is syntactic; the semantic preconditions are
       checked inside the scan, which returns false only for a dropped master
       or for a history that is not steady after all: distinguish the two *)
    let fix shape_sem (prev : snapshot) (es : list event) (rs : list step_result)
                      (src : option (port_identity * Z)) (since : Z) : bool :=
      match es, rs with
      | [], _ => true
      | EvBmca :: es', SROk _ sn :: rs' => (1 <=? since) && shape_sem sn es' rs' src 0
      | EvRecvGeneral O frame :: es', SROk _ sn :: rs' =>
          match arrival_of c prev 0 frame 0, decoded frame with
          | Some a, Some m =>
              match m_body m with
              | BAnnounce ab =>
                  (an_prio1 ab <? dd_prio1 (ds_default (sn_ds prev)))
                  && (128 <=? cq_class (dd_quality (ds_default (sn_ds prev))))
                  && negb (an_gm_identity ab =? own_clock c)
                  && (blen (m_suffix m) =? 0)
                  && match src with
                     | Some (s, q) => pi_eqb s (ar_src a) && (ar_seq a =? (q + 1) mod 65536)
                     | None => true
                     end
                  && shape_sem sn es' rs' (Some (ar_src a, ar_seq a)) (since + 1)
              | _ => false
              end
          | _, _ => false
          end
      | _, _ => false
      end in
    if shape_sem (init_snap c) (pc_events c) (pc_trace c) None 0
    then steady_scan c (init_snap c) (pc_events c) (pc_trace c) None 0 0
    else true
  else true.

Definition ok_C06 (c : pcase) : bool :=
  walk (step_C06 c) (mkS6 0 (map (fun _ => []) (all_ports c)) (map (fun _ => -1000) (all_ports c)))
       (init_snap c) (pc_events c) (pc_trace c)
  && steady_ok c.

Definition kf_C06 (c : pcase) : Z := 0.
Definition case := pcase.
Definition run_cases := run_cases_gen agree_port ok_C06 kf_C06.
