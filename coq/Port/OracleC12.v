(** C12 — No stuck states: ports keep progressing when the host obeys timer actions.
    The oracle keeps the host's timer book (one deadline per port and timer
    kind, set by the Reset*Timer actions, cleared when the timer fires) and a
    virtual clock advanced by the EvTick events of the timed host. *)
From SV Require Export Port.OracleBase.

(** timer kinds: 0 announce, 1 sync, 2 delay request, 3 announce receipt, 4 filter update *)
Definition timers := list (option Z).        (* 5 entries per port *)
Definition no_timers : timers := [None; None; None; None; None].

Record st12 := mkS12 {
  now12 : Z;
  tms : list timers;
  timed : bool;                (* an EvTick has been seen: from here on the host must obey *)
  last_frame : Z;              (* time of the last frame handed to any port *)
  ann_times : list (list Z);   (* emission times of Announces per port, newest first *)
  sync_times : list (list Z);
  dreq_times : list (list Z);
  recovered : list bool;       (* the port listens since it recovered from a fault that began without a receipt timer *)
  f22 : bool;                  (* the known stuck state (listening, recovered, no receipt timer) was seen *)
  uaf : list bool              (* the port is faulty and had no announce receipt timer armed when the fault began *)
}.

Definition set_timer (ts : timers) (k : nat) (v : option Z) : timers := update_nth k v ts.

Definition apply_resets (now : Z) (tms : list timers) (o : list tobs) : list timers :=
  fold_left (fun acc x =>
    let p := Z.to_nat (fst x) in
    let upd k ns := update_nth p (set_timer (nth p acc no_timers) k (Some (now + ns))) acc in
    match snd x with
    | AResetAnnounceTimer ns => upd 0%nat ns
    | AResetSyncTimer ns => upd 1%nat ns
    | AResetDelayRequestTimer ns => upd 2%nat ns
    | AResetAnnounceReceiptTimer ns => upd 3%nat ns
    | AResetFilterUpdateTimer ns => upd 4%nat ns
    | _ => acc
    end) o tms.

Definition timer_event (e : event) : option (nat * nat) :=
  match e with
  | EvAnnounceTimer p _ => Some (p, 0%nat)
  | EvSyncTimer p => Some (p, 1%nat)
  | EvDelayReqTimer p => Some (p, 2%nat)
  | EvAnnounceReceiptTimer p => Some (p, 3%nat)
  | EvFilterUpdateTimer p => Some (p, 4%nat)
  | _ => None
  end.

Definition armed (s : st12) (p k : nat) : bool :=
  match nth k (nth p (tms s) no_timers) None with Some _ => true | None => false end.

Definition emitted_types (o : list obs) (t : msg_type) : nat :=
  count (fun x => match decoded (snd x) with
                  | Some m => msg_type_eqb (body_type (m_body m)) t
                  | None => false
                  end) (sent_frames o).

Definition push_time (now : Z) (n : nat) (l : list Z) : list Z := if (0 <? n)%nat then now :: l else l.

Definition is_e2e (c : pcase) (p : nat) : bool :=
  match port_cfg c p with Some pc => match pc_delay pc with E2E _ => true | P2P _ => false end | None => false end.

(** safety after every call: the timers a state relies on are armed *)
Definition timers_sane (c : pcase) (s : st12) (sn : snapshot) : bool :=
  forallb (fun p =>
    let st := state_of sn p in
    if st =? 6 then armed s p 0 && armed s p 1
    else if st =? 9 then (if is_e2e c p then armed s p 2 else true)
    else if st =? 4 then armed s p 3
    else true) (all_ports c).

(** the same, excusing exactly the known stuck state F22: a LISTENING port that
    recovered from FAULTY and has no announce receipt timer *)
Definition timers_sane_but_f22 (c : pcase) (s : st12) (sn : snapshot) : bool :=
  forallb (fun p =>
    let st := state_of sn p in
    if st =? 6 then armed s p 0 && armed s p 1
    else if st =? 9 then (if is_e2e c p then armed s p 2 else true)
    else if st =? 4 then armed s p 3 || nth p (recovered s) false
    else true) (all_ports c).

Definition step_C12 (c : pcase) (s : st12) (prev : snapshot) (e : event) (o : list tobs) (sn : snapshot) : option st12 :=
  match e with
  | EvTick ns => Some (mkS12 (now12 s + ns) (tms s) true (last_frame s) (ann_times s) (sync_times s)
                             (dreq_times s) (recovered s) (f22 s) (uaf s))
  | _ =>
      (* obedience of the host once time runs: a timer fires only when armed and due *)
      let obey :=
        match timer_event e with
        | Some (p, k) =>
            if timed s then
              match nth k (nth p (tms s) no_timers) None with
              | Some d => Z.abs (d - now12 s) <=? 2
              | None => false
              end
            else true
        | None => true
        end in
      let tms1 := match timer_event e with
                  | Some (p, k) => update_nth p (set_timer (nth p (tms s) no_timers) k None) (tms s)
                  | None => tms s
                  end in
      let tms2 := apply_resets (now12 s) tms1 o in
      let lf := match e with EvRecvEvent _ _ _ | EvRecvGeneral _ _ => now12 s | _ => last_frame s end in
      let upd (ls : list (list Z)) (t : msg_type) :=
        map (fun p => push_time (now12 s) (emitted_types (obs_of_port o p) t) (nth p ls [])) (all_ports c) in
      (* F22 is the stuck state of a port whose fault began without a running receipt
         timer (it had been master): only that one is excused, and only while the port
         keeps listening *)
      let rec' := map (fun p => if state_of sn p =? 4
                                then (nth p (recovered s) false && (state_of prev p =? 4))
                                     || ((state_of prev p =? 2) && nth p (uaf s) false)
                                else false) (all_ports c) in
      let uaf' := map (fun p => if state_of sn p =? 2
                                then (if state_of prev p =? 2 then nth p (uaf s) false
                                      else match nth 3 (nth p tms2 no_timers) None with Some _ => false | None => true end)
                                else false) (all_ports c) in
      (* a timer that fires in the state that relies on it produces its message *)
      let fires_ok :=
        match e with
        | EvAnnounceTimer p _ => if state_of prev p =? 6 then (emitted_types (obs_of_port o p) MTAnnounce =? 1)%nat else true
        | EvSyncTimer p => if state_of prev p =? 6 then (emitted_types (obs_of_port o p) MTSync =? 1)%nat else true
        | EvDelayReqTimer p =>
            match port_cfg c p with
            | Some pc => match pc_delay pc with
                         | E2E _ => if state_of prev p =? 9 then (emitted_types (obs_of_port o p) MTDelayReq =? 1)%nat else true
                         | P2P _ => (emitted_types (obs_of_port o p) MTPDelayReq =? 1)%nat
                         end
            | None => true
            end
        | _ => true
        end in
      let mk f := mkS12 (now12 s) tms2 (timed s) lf (upd (ann_times s) MTAnnounce) (upd (sync_times s) MTSync)
                        (upd (dreq_times s) MTDelayReq) rec' f uaf' in
      let s' := mk (f22 s) in
      if negb fires_ok then None else
      if negb obey then Some s'     (* the host did not obey: premise of the property not met, not judged *)
      else if timers_sane c s' sn then Some s'
      else if timers_sane_but_f22 c s' sn then Some (mk true) else None
  end.

Definition ann_ns (c : pcase) (p : nat) : Z := match port_cfg c p with Some pc => interval_ns (pc_log_announce pc) | None => 0 end.
Definition sync_ns (c : pcase) (p : nat) : Z := match port_cfg c p with Some pc => interval_ns (pc_log_sync pc) | None => 0 end.
Definition dreq_ns (c : pcase) (p : nat) : Z := match port_cfg c p with Some pc => interval_ns (dm_interval (pc_delay pc)) | None => 0 end.
Definition bmca_ns (c : pcase) : Z :=
  interval_ns (fold_left Z.min (map (fun x => pc_log_announce (fst x)) (su_ports (pc_setup c))) 127).

(** bound after which a silent network must have every eligible port in MASTER *)
Definition silence_bound (c : pcase) : Z :=
  fold_left Z.max (map (fun p => match port_cfg c p with
                                 | Some pc => (2 * pc_receipt_timeout pc + 6) * ann_ns c p
                                 | None => 0
                                 end) (all_ports c)) 0 + 3 * bmca_ns c.

Fixpoint gaps_ok (l : list Z) (n : nat) (f : Z -> bool) : bool :=
  match n, l with
  | O, _ => true
  | S n', a :: ((b :: _) as l') => f (a - b) && gaps_ok l' n' f
  | _, _ => false
  end.

Fixpoint walk12 (c : pcase) (s : st12) (prev : snapshot) (es : list event) (rs : list step_result)
  : option (st12 * snapshot) :=
  match es, rs with
  | e :: es', SROk o sn :: rs' =>
      match step_C12 c s prev e o sn with
      | Some s' => walk12 c s' sn es' rs'
      | None => None
      end
  | _, SRPanic :: _ => Some (s, prev)
  | [], [] => Some (s, prev)
  | _, _ => None
  end.

Definition init12 (c : pcase) : st12 :=
  let tm0 := map (fun _ => no_timers) (all_ports c) in
  mkS12 0 (apply_resets 0 tm0 (match pc_init c with Some o => o | None => [] end))
        false 0 (map (fun _ => []) (all_ports c)) (map (fun _ => []) (all_ports c))
        (map (fun _ => []) (all_ports c)) (map (fun _ => false) (all_ports c)) false
        (map (fun _ => false) (all_ports c)).

(** liveness at the end of a silent tail *)
Definition final_ok (excuse : bool) (c : pcase) (s : st12) (sn : snapshot) : bool :=
  let silent := now12 s - last_frame s in
  if timed s && (silence_bound c + 4 * fold_left Z.max (map (ann_ns c) (all_ports c)) 0 <=? silent)
     && negb (dd_slave_only (ds_default (sn_ds sn))) then
    forallb (fun p =>
      if state_of sn p =? 2 then true else
      if excuse && (state_of sn p =? 4) && nth p (recovered s) false && negb (armed s p 3) then true else
      (state_of sn p =? 6)
      && gaps_ok (nth p (ann_times s) []) 2 (fun g => Z.abs (g - ann_ns c p) <=? 2)
      && gaps_ok (nth p (sync_times s) []) 2 (fun g => Z.abs (g - sync_ns c p) <=? 2)) (all_ports c)
  else true.

(** cadence of delay requests of an end-to-end slave port: consecutive requests
    are less than two intervals apart (the random factor is in (0,2)) *)
Definition dreq_cadence_ok (c : pcase) (s : st12) (sn : snapshot) : bool :=
  forallb (fun p =>
    if (state_of sn p =? 9) && is_e2e c p && timed s
    then match nth p (dreq_times s) [] with
         | a :: b :: _ => (a - b <=? 2 * dreq_ns c p + 2)
         | _ => true
         end
    else true) (all_ports c).

(** 0 = property holds on the trace, 1 = it fails only through the known
    finding F22, 2 = it fails otherwise *)
Definition code_C12 (c : pcase) : Z :=
  match walk12 c (init12 c) (init_snap c) (pc_events c) (pc_trace c) with
  | Some (s, sn) =>
      if negb (dreq_cadence_ok c s sn) then 2
      else if final_ok false c s sn && negb (f22 s) then 0
      else if final_ok true c s sn then 1 else 2
  | None => 2
  end.
Definition ok_C12 (c : pcase) : bool := code_C12 c =? 0.
Definition kf_C12 (c : pcase) : Z := if code_C12 c =? 1 then 1 else 0.

Definition case := pcase.
Definition run_cases := run_cases_gen agree_port ok_C12 kf_C12.
