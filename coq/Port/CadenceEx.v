(** C12 cadence: the premises of [announce_gap] are satisfiable (kernel-evaluated). *)
From SV Require Export Port.CadenceC12 Port.LemmasC12.
Local Open Scope Z_scope.

Definition cad_setup : setup :=
  mkSetup (mkIC 5 128 128 0 0 false false (mkCQ 248 254 65535))
          (mkTP None 0 false false false 160)
          [(mkPC None (E2E 0) 0 2 0 false 0 1, [1; 2; 3; 4; 5; 6; 7; 8])].
Definition cad_events : list event :=
  [EvAnnounceReceiptTimer 0; EvAnnounceTimer 0 []; EvBmca; EvTick 1000000000].
Definition cad_case : pcase := self_case cad_setup cad_events.

(** port 0 is MASTER after the receipt timeout; its announce timer fires at time 0;
    one BMCA run and one second later the book holds the deadline 0 + 10^9 ns for
    that timer and the host's clock reads 10^9: the next firing is obedient *)
Example cadence_example :
  match walk12 cad_case (init12 cad_case) (init_snap cad_case) (pc_events cad_case) (pc_trace cad_case) with
  | Some (s2, sn2) =>
      sn_states sn2 = [6] /\ deadline (tms s2) 0 0 = Some 1000000000 /\ now12 s2 = 1000000000 /\ obedient_firing s2 0 0 = true
  | None => False
  end.
Proof. vm_compute. repeat split. Qed.
