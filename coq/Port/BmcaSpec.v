(** IEEE 1588-2019 9.3: data set comparison (Figures 34, 35), state decision
    (Figure 33) and data set updates (Tables 30-33), written from the
    standard's figures, independently of the code's structure, with statime's
    documented deviations as explicit clauses. *)
From SV Require Export Port.Bmc.

Inductive spec_cmp := ABetter | ABetterTopo | BBetter | BBetterTopo | SErr1 | SErr2.

(** Figure 35: same grandmaster *)
Definition fig35 (a b : cmp_ds) : spec_cmp :=
  let sa := c_steps a in
  let sb := c_steps b in
  if sb + 1 <? sa then BBetter                       (* A > B + 1 *)
  else if sa + 1 <? sb then ABetter                  (* A + 1 < B *)
  else if sb <? sa then                              (* A = B + 1 *)
    let recv := pi_clock (c_receiver a) in
    let send := c_sender a in
    if recv <? send then BBetter
    else if send <? recv then BBetterTopo
    else SErr1
  else if sa <? sb then                              (* A + 1 = B *)
    let recv := pi_clock (c_receiver b) in
    let send := c_sender b in
    if recv <? send then ABetter
    else if send <? recv then ABetterTopo
    else SErr1
  else                                               (* A = B *)
    if c_sender b <? c_sender a then BBetterTopo
    else if c_sender a <? c_sender b then ABetterTopo
    else if pi_port (c_receiver b) <? pi_port (c_receiver a) then BBetterTopo
    else if pi_port (c_receiver a) <? pi_port (c_receiver b) then ABetterTopo
    else SErr2.

(** Figure 34: different grandmasters; lower values are better *)
Definition fig34 (a b : cmp_ds) : spec_cmp :=
  if c_gm_identity a =? c_gm_identity b then fig35 a b else
  if c_prio1 a <? c_prio1 b then ABetter else if c_prio1 b <? c_prio1 a then BBetter else
  let qa := c_quality a in
  let qb := c_quality b in
  if cq_class qa <? cq_class qb then ABetter else if cq_class qb <? cq_class qa then BBetter else
  if cq_accuracy qa <? cq_accuracy qb then ABetter else if cq_accuracy qb <? cq_accuracy qa then BBetter else
  if cq_variance qa <? cq_variance qb then ABetter else if cq_variance qb <? cq_variance qa then BBetter else
  if c_prio2 a <? c_prio2 b then ABetter else if c_prio2 b <? c_prio2 a then BBetter else
  if c_gm_identity a <? c_gm_identity b then ABetter else BBetter.

Definition a_better_or_topo (r : spec_cmp) : bool :=
  match r with ABetter | ABetterTopo => true | _ => false end.
Definition b_better_or_topo (r : spec_cmp) : bool :=
  match r with BBetter | BBetterTopo => true | _ => false end.

(** correspondence between the code's result type and the figures' outcomes *)
Definition ord_of_spec (r : spec_cmp) : ds_ord :=
  match r with
  | ABetter => Better | ABetterTopo => BetterByTopology
  | BBetter => Worse | BBetterTopo => WorseByTopology
  | SErr1 => Error1 | SErr2 => Error2
  end.

(** * Figure 33, for one port *)
Inductive decision := DM1 | DM2 | DM3 | DP1 | DP2 | DS1 | DNone.

(** [erbest_is_ebest]: Ebest was received on this port *)
Definition fig33 (class : Z) (d0 : cmp_ds) (ebest erbest : option cmp_ds) (erbest_is_ebest : bool)
           (listening : bool) : decision :=
  match erbest, listening with
  | None, true => DNone                      (* statime: stay LISTENING without a qualified Erbest *)
  | _, _ =>
      if (1 <=? class) && (class <=? 127) then
        match erbest with
        | None => DM1
        | Some e => if b_better_or_topo (fig34 d0 e) then DP1 else DM1
        end
      else
        match ebest with
        | None => DM2
        | Some g =>
            if b_better_or_topo (fig34 d0 g) then
              if erbest_is_ebest then DS1
              else match erbest with
                   | None => DM3
                   | Some e => match fig34 g e with ABetterTopo => DP2 | _ => DM3 end
                   end
            else DM2
        end
  end.

(** resulting port state code (observability codes), with the deviations:
    slave-only => LISTENING instead of MASTER; multiport-disabled => PASSIVE;
    FAULTY is never left by the BMCA *)
Definition decided_state (dec : decision) (prev : Z) (slave_only multiport_disabled : bool) : Z :=
  if prev =? 2 then 2 else
  match dec with
  | DNone => prev
  | DS1 => 9
  | DP1 | DP2 => 7
  | DM1 | DM2 | DM3 =>
      if slave_only then 4
      else if multiport_disabled then 7
      else 6
  end.
