(** Every host call preserves the instance invariant and returns normally:
    the unbounded statement behind C03 (no panic site is reachable) and C08
    (at most one slave, master-only never slave), for every event sequence. *)
From SV Require Export Port.InvBmca.

(** timestamp contexts and forwarded TLVs are opaque library values handed back
    by the host: their contents are wire values *)
Definition ctx_valid (c : ts_context) : Prop :=
  match c with
  | CtxSync id | CtxDelayReq id | CtxPDelayReq id => 0 <= id < 65536
  | CtxPDelayResp id r => 0 <= id < 65536 /\ wf_pi r
  end.
Definition event_valid (e : event) : Prop :=
  match e with
  | EvRecvEvent _ f ts => bok f /\ ts_valid ts
  | EvRecvGeneral _ f => bok f
  | EvSendTimestamp _ c ts => ts_valid ts /\ ctx_valid c
  | EvAnnounceTimer _ q => Forall (fun f => tlv_wf (fw_tlv f)) q
  | EvSetClockQuality q => wf_cq q
  | _ => True
  end.

Lemma set_ds_default_inv i dd' :
  inst_inv i ->
  dd_clock_identity dd' = dd_clock_identity (ds_default (i_ds i)) ->
  dd_number_ports dd' = dd_number_ports (ds_default (i_ds i)) ->
  dd_wfb dd' = true ->
  inst_inv (mkInst (ds_with_default (i_ds i) dd') (i_log_bmca i) (i_ports i)).
Proof.
  intros (A & [B1 B2] & C & D & E & F & G) Hc Hn Hw. unfold inst_inv. cbn [i_ports i_ds i_log_bmca].
  assert (Hdef : ds_default (ds_with_default (i_ds i) dd') = dd') by reflexivity.
  rewrite Hdef, Hc, Hn.
  split; [exact A|]. split.
  { split; [exact B1|]. unfold ds_wfb in *. cbn [ds_with_default ds_default ds_steps_removed ds_parent ds_path ds_tp].
    apply andb_true_iff in B2 as [B2 T]. apply andb_true_iff in B2 as [B2 P]. apply andb_true_iff in B2 as [B2 Q].
    apply andb_true_iff in B2 as [_ S]. rewrite Hw, S, Q, P, T. reflexivity. }
  repeat split; try assumption; apply F.
Qed.

Lemma dd_wfb_of i : inst_inv i -> dd_wfb (ds_default (i_ds i)) = true.
Proof.
  intros (_ & [_ B2] & _). unfold ds_wfb in B2. do 4 (apply andb_true_iff in B2 as [B2 _]). exact B2.
Qed.

Definition turns_on_slave_only (e : event) : Prop := e = EvSetSlaveOnly true.
Definition sets_slave_only (e : event) : Prop := exists b, e = EvSetSlaveOnly b.
Definition slave_only_of (i : instance) : bool := dd_slave_only (ds_default (i_ds i)).

(** what one host call guarantees *)
Definition step_post (i : instance) (e : event) (i' : instance) : Prop :=
  inst_inv i' /\ cfgs_of i' = cfgs_of i /\
  (~ turns_on_slave_only e -> so_inv i -> so_inv i') /\
  (~ sets_slave_only e -> slave_only_of i' = slave_only_of i) /\
  (e = EvBmca -> slave_only_of i = true -> no_master (i_ports i')).

Lemma on_port_post i n f e :
  inst_inv i -> (forall p d, port_inv p -> ds_inv d -> good_w p d (f p d)) ->
  e <> EvBmca -> ~ sets_slave_only e ->
  exists i' o, on_port i n f = Ok (i', o) /\ step_post i e i'.
Proof.
  intros Hi Hf Hne Hns. destruct (on_port_ok i n f Hi Hf) as (i' & o & Hs & Hinv & Hcf & Hdef & Hso).
  exists i', o. split; [exact Hs|]. split; [exact Hinv|]. split; [exact Hcf|]. split; [|split].
  - intros _ H Hso'. unfold slave_only_of, so_inv in *. rewrite Hdef in Hso'. apply Hso; [exact Hso'|]. apply H. exact Hso'.
  - intros _. unfold slave_only_of. rewrite Hdef. reflexivity.
  - intros He. contradiction.
Qed.

Theorem step_ok i e :
  inst_inv i -> event_valid e -> exists i' o, step i e = Ok (i', o) /\ step_post i e i'.
Proof.
  intros Hi He.
  assert (Hset : forall dd', dd_clock_identity dd' = dd_clock_identity (ds_default (i_ds i)) ->
                             dd_number_ports dd' = dd_number_ports (ds_default (i_ds i)) ->
                             dd_wfb dd' = true ->
                             inst_inv (mkInst (ds_with_default (i_ds i) dd') (i_log_bmca i) (i_ports i))).
  { intros. apply set_ds_default_inv; assumption. }
  pose proof (dd_wfb_of i Hi) as Hddw.
  destruct e; cbn [step event_valid] in *;
    try (apply on_port_post; [exact Hi| |discriminate|intros [b Hb]; discriminate]).
  - destruct He as [Hf Hts]. intros. apply good_weaken. apply handle_event_receive_ok; assumption.
  - intros. apply good_weaken. apply handle_general_receive_ok; assumption.
  - intros. apply good_weaken. apply handle_send_timestamp_ok; try assumption. apply He.
  - intros. apply good_weaken. apply send_announce_ok; assumption.
  - intros. apply good_weaken. apply send_sync_ok; assumption.
  - intros. apply good_weaken. apply send_delay_request_ok; assumption.
  - intros. apply handle_announce_receipt_timer_ok; assumption.
  - intros. apply good_weaken. apply handle_filter_update_timer_ok; assumption.
  - destruct (bmca_ok i Hi) as (i' & o & Hs & Hinv & Hdef & Hnm & Hcf & _). exists i', o. split; [exact Hs|].
    split; [exact Hinv|]. split; [exact Hcf|]. unfold slave_only_of, so_inv. rewrite Hdef. split; [|split].
    + intros _ _ Hso. apply Hnm. exact Hso.
    + intros _. reflexivity.
    + intros _ Hso. apply Hnm. exact Hso.
  - eexists; eexists. split; [reflexivity|]. unfold set_quality. split.
    { apply Hset; try reflexivity. unfold dd_wfb in *. cbn [dd_clock_identity dd_quality dd_prio1 dd_prio2 dd_domain dd_sdo_id].
      apply andb_true_iff in Hddw as [Hddw S]. apply andb_true_iff in Hddw as [Hddw Dm]. apply andb_true_iff in Hddw as [Hddw P2].
      apply andb_true_iff in Hddw as [Hddw P1]. apply andb_true_iff in Hddw as [Hddw _].
      rewrite Hddw, (cq_wfb_of _ He), P1, P2, Dm, S. reflexivity. }
    split; [reflexivity|]. split; [|split; [|discriminate]].
    + intros _ H. exact H.
    + intros _. reflexivity.
  - eexists; eexists. split; [reflexivity|]. unfold set_slave_only. split; [apply Hset; try reflexivity; exact Hddw|].
    split; [reflexivity|]. split; [|split; [|discriminate]].
    + intros Hn H. unfold so_inv. cbn. intros Hb. subst b. exfalso. apply Hn. reflexivity.
    + intros Hn. exfalso. apply Hn. exists b. reflexivity.
  - eexists; eexists. split; [reflexivity|]. split; [exact Hi|]. split; [reflexivity|]. split; [auto|]. split; [auto|discriminate].
Qed.

Theorem run_state_ok es : forall i,
  inst_inv i -> Forall event_valid es -> exists i', run_state i es = Some i' /\ inst_inv i'.
Proof.
  induction es as [|e es IH]; intros i Hi Hes; cbn [run_state]; [eauto|].
  inversion Hes; subst. destruct (step_ok i e Hi) as (i1 & o & -> & Hi1 & _); [assumption|]. apply IH; assumption.
Qed.

Theorem run_never_panics es : forall i,
  inst_inv i -> Forall event_valid es -> ~ In SRPanic (run i es).
Proof.
  induction es as [|e es IH]; intros i Hi Hes; cbn [run]; [intros []|].
  inversion Hes; subst. destruct (step_ok i e Hi) as (i1 & o & -> & Hi1 & _); [assumption|].
  intros [H|H]; [discriminate|]. eapply IH; eauto.
Qed.

(** C08 shapes, at every reachable state *)
Theorem reachable_roles i es i' :
  inst_inv i -> Forall event_valid es -> run_state i es = Some i' ->
  (nslaves (i_ports i') <= 1)%nat /\
  (forall p, In p (i_ports i') -> pc_master_only (p_config p) = true -> is_slave (p_state p) = false).
Proof.
  intros Hi Hes Hr. destruct (run_state_ok es i Hi Hes) as (i2 & Hr2 & Hinv). rewrite Hr in Hr2. inversion Hr2; subst i2.
  destruct Hinv as (Hp & _ & _ & _ & _ & _ & Hs). split; [exact Hs|].
  intros p Hin Hmo. rewrite Forall_forall in Hp. apply (Hp p Hin). exact Hmo.
Qed.

(** a slave-only instance without master ports stays that way for as long as
    slave-only is not switched on again (it may be switched off, after which
    the statement is void) *)
Theorem slave_only_never_master es : forall i i',
  inst_inv i -> so_inv i -> Forall event_valid es -> Forall (fun e => ~ turns_on_slave_only e) es ->
  run_state i es = Some i' -> so_inv i'.
Proof.
  induction es as [|e es IH]; intros i i' Hi Hso Hes Hoff Hr; cbn [run_state] in Hr.
  - inversion Hr; subst. exact Hso.
  - inversion Hes; subst. inversion Hoff; subst.
    destruct (step_ok i e Hi) as (i1 & o & Hs & Hi1 & _ & Hso1 & _); [assumption|]. rewrite Hs in Hr.
    eapply IH; eauto.
Qed.

(** ... and slave-only itself only changes through set_slave_only *)
Theorem slave_only_stable es : forall i i',
  inst_inv i -> Forall event_valid es -> Forall (fun e => ~ sets_slave_only e) es ->
  run_state i es = Some i' -> slave_only_of i' = slave_only_of i.
Proof.
  induction es as [|e es IH]; intros i i' Hi Hes Hoff Hr; cbn [run_state] in Hr.
  - inversion Hr; subst. reflexivity.
  - inversion Hes; subst. inversion Hoff; subst.
    destruct (step_ok i e Hi) as (i1 & o & Hs & Hi1 & _ & _ & Hkeep & _); [assumption|]. rewrite Hs in Hr.
    rewrite (IH i1 i' Hi1) by assumption. apply Hkeep. assumption.
Qed.

(** switching slave-only on at run time: once the next BMCA run has completed
    no port is master, and none becomes master afterwards *)
Theorem slave_only_switch_on i i1 o1 es i2 :
  inst_inv i -> slave_only_of i = true -> step i EvBmca = Ok (i1, o1) ->
  Forall event_valid es -> Forall (fun e => ~ turns_on_slave_only e) es ->
  run_state i1 es = Some i2 ->
  no_master (i_ports i1) /\ so_inv i2.
Proof.
  intros Hi Hso Hs Hes Hoff Hr.
  destruct (step_ok i EvBmca Hi I) as (i1' & o' & Hs' & Hi1 & _ & _ & _ & Hnm). rewrite Hs in Hs'. inversion Hs'; subst i1' o'.
  specialize (Hnm eq_refl Hso). split; [exact Hnm|].
  eapply slave_only_never_master; [exact Hi1| |exact Hes|exact Hoff|exact Hr]. intros _. exact Hnm.
Qed.

(** * The invariant holds after set-up *)
Definition inst_inv0 (i : instance) : Prop :=
  Forall port_inv (i_ports i) /\ ds_inv (i_ds i)
  /\ ids_ok (dd_clock_identity (ds_default (i_ds i))) (i_ports i)
  /\ dd_number_ports (ds_default (i_ds i)) = Z.of_nat (length (i_ports i))
  /\ (i_ports i <> [] -> -7 <= i_log_bmca i <= 7) /\ -7 <= i_log_bmca i
  /\ nslaves (i_ports i) = 0%nat /\ no_master (i_ports i).

Lemma announce_interval_ti_ok log : -7 <= log <= 7 -> exists t, announce_interval_ti log = Ok t.
Proof.
  intros H. unfold announce_interval_ti, dur_from_log_interval.
  assert (E : 0 <=? log + 41 = true) by lia. rewrite E.
  assert (H1 : 0 < 2 ^ (log + 41) <= 2 ^ 48).
  { split; [apply Z.pow_pos_nonneg; lia|apply Z.pow_le_mono_r; lia]. }
  change (2 ^ 48) with 281474976710656 in H1.
  rewrite (chk_i_ok _ 128) by (pv; lia). cbn [obind]. eauto.
Qed.

Lemma count_app {A} (f : A -> bool) l1 l2 : count f (l1 ++ l2) = (count f l1 + count f l2)%nat.
Proof. unfold count. rewrite filter_app, app_length. reflexivity. Qed.

Lemma add_port_ok i c rng :
  inst_inv0 i -> cfg_ok c -> Z.of_nat (length (i_ports i)) < 65535 ->
  exists i' o, add_port i c rng = Ok (i', o) /\ inst_inv0 i' /\ length (i_ports i') = S (length (i_ports i)).
Proof.
  intros (A & B & C & D & E & F & G & K) Hc Hn. unfold add_port.
  rewrite chk_u_ok by (change (2 ^ 16) with 65536; lia). cbn [obind].
  set (p0 := mkPort c _ PListening [] None 0 0 0 0 None PDEmpty rng).
  assert (Hddw : dd_wfb (ds_default (i_ds i)) = true).
  { destruct B as [_ B2]. unfold ds_wfb in B2. do 4 (apply andb_true_iff in B2 as [B2 _]). exact B2. }
  assert (Hp0 : port_inv p0).
  { unfold port_inv, p0. cbn [p_config p_state p_peer p_mean_delay p_identity p_fml].
    split; [exact Hc|]. split; [exact I|]. split; [exact I|]. split; [exact I|].
    split; [split; constructor|]. split; [reflexivity|].
    unfold port_wfb. cbn [p_identity pi_clock pi_port p_seq_announce p_seq_sync p_seq_delay p_seq_pdelay].
    unfold dd_wfb in Hddw. do 5 (apply andb_true_iff in Hddw as [Hddw _]). rewrite Hddw.
    assert (H1 : (1 <=? dd_number_ports (ds_default (i_ds i)) + 1) = true) by lia.
    assert (H2 : (dd_number_ports (ds_default (i_ds i)) + 1 <? 65536) = true) by lia.
    rewrite H1, H2. reflexivity. }
  pose proof (port_inv_draw _ Hp0) as Hp1. pose proof (pres_draw p0) as (Hid & Hcfg & Hns & Hnm).
  destruct (draw p0) as [k p1]. cbn [snd] in *.
  destruct (announce_interval_ti_ok (pc_log_announce c)) as [t ->]; [apply Hc|]. cbn [obind].
  eexists; eexists. split; [reflexivity|]. split; [|cbn [i_ports]; rewrite app_length; cbn [length]; apply Nat.add_1_r].
  unfold inst_inv0. cbn [i_ports i_ds i_log_bmca].
  assert (Hdef : forall dd', ds_default (ds_with_default (i_ds i) dd') = dd') by reflexivity.
  rewrite Hdef. cbn [dd_clock_identity dd_number_ports].
  split; [apply Forall_app; split; [exact A|constructor; [exact Hp1|constructor]]|].
  split.
  { destruct B as [B1 B2]. split; [exact B1|]. unfold ds_wfb in *.
    cbn [ds_with_default ds_default ds_steps_removed ds_parent ds_path ds_tp].
    apply andb_true_iff in B2 as [B2 T]. apply andb_true_iff in B2 as [B2 P]. apply andb_true_iff in B2 as [B2 Q].
    apply andb_true_iff in B2 as [_ S].
    assert (Hw' : dd_wfb (mkDD (dd_clock_identity (ds_default (i_ds i))) (dd_number_ports (ds_default (i_ds i)) + 1)
                               (dd_quality (ds_default (i_ds i))) (dd_prio1 (ds_default (i_ds i)))
                               (dd_prio2 (ds_default (i_ds i))) (dd_domain (ds_default (i_ds i)))
                               (dd_slave_only (ds_default (i_ds i))) (dd_sdo_id (ds_default (i_ds i)))) = true) by exact Hddw.
    rewrite Hw', S, Q, P, T. reflexivity. }
  split.
  { intros n q Hq. destruct (Nat.lt_ge_cases n (length (i_ports i))) as [Hlt|Hge].
    - rewrite nth_error_app1 in Hq by exact Hlt. apply C. exact Hq.
    - rewrite nth_error_app2 in Hq by exact Hge.
      destruct (n - length (i_ports i))%nat as [|k'] eqn:Ek; cbn in Hq; [|destruct k'; discriminate].
      inversion Hq; subst q. rewrite Hid. unfold p0. cbn [p_identity]. rewrite D. f_equal. lia. }
  split; [rewrite app_length, D; cbn; lia|].
  destruct Hc as (H1 & _).
  split; [intros _; lia|].
  split; [lia|].
  split.
  - unfold nslaves in *. rewrite count_app, G. unfold count. cbn [filter].
    rewrite (Hns eq_refl). reflexivity.
  - apply Forall_app. split; [exact K|]. constructor; [exact (Hnm eq_refl)|constructor].
Qed.

(** the instance configuration and the initial time properties are wire values *)
Definition config_wfb (c : instance_config) (tp : time_props) : bool :=
  u_ok 64 (ic_clock_identity c) && cq_wfb (ic_quality c) && u_ok 8 (ic_prio1 c) && u_ok 8 (ic_prio2 c)
  && u_ok 8 (ic_domain c) && u_ok 12 (ic_sdo_id c) && tp_wfb tp.

Definition setup_valid (s : setup) : Prop :=
  Forall (fun x => cfg_ok (fst x)) (su_ports s) /\ su_ports s <> [] /\ Z.of_nat (length (su_ports s)) < 65535
  /\ config_wfb (su_config s) (su_tp s) = true.

Lemma add_ports_ok ps : forall i acc,
  inst_inv0 i -> Forall (fun x => cfg_ok (fst x)) ps -> Z.of_nat (length (i_ports i) + length ps) < 65536 ->
  exists i' o, add_ports i ps acc = Ok (i', o) /\ inst_inv0 i' /\
               length (i_ports i') = (length (i_ports i) + length ps)%nat.
Proof.
  induction ps as [|[c r] ps IH]; intros i acc Hi Hps Hlen; cbn [add_ports].
  - eexists; eexists. split; [reflexivity|]. split; [exact Hi|cbn [length]; lia].
  - inversion Hps; subst. cbn [fst length] in *.
    destruct (add_port_ok i c r Hi) as (i1 & o1 & -> & Hi1 & Hl1); [assumption|lia|]. cbn [obind fst snd].
    destruct (IH i1 (acc ++ o1) Hi1) as (i2 & o2 & -> & Hi2 & Hl2); [assumption|lia|].
    eexists; eexists. split; [reflexivity|]. split; [exact Hi2|lia].
Qed.

Theorem init_ok s : setup_valid s -> exists i o, init s = Ok (i, o) /\ inst_inv i /\ no_master (i_ports i).
Proof.
  intros (Hc & Hne & Hlen & Hcw). unfold init.
  assert (H0 : inst_inv0 (new_instance (su_config s) (su_tp s))).
  { unfold inst_inv0, new_instance. cbn [i_ports i_ds i_log_bmca ds_default dd_clock_identity dd_number_ports].
    split; [constructor|]. split.
    { split; [cbn; lia|]. unfold config_wfb in Hcw.
      apply andb_true_iff in Hcw as [Hcw T]. apply andb_true_iff in Hcw as [Hcw S]. apply andb_true_iff in Hcw as [Hcw Dm].
      apply andb_true_iff in Hcw as [Hcw P2]. apply andb_true_iff in Hcw as [Hcw P1]. apply andb_true_iff in Hcw as [Hcw Q].
      unfold ds_wfb, dd_wfb, pd_wfb. cbn [ds_default ds_steps_removed ds_parent ds_path ds_tp dd_clock_identity dd_quality
        dd_prio1 dd_prio2 dd_domain dd_sdo_id pd_parent pd_gm_identity pd_gm_quality pd_gm_prio1 pd_gm_prio2 pi_clock pi_port forallb].
      rewrite Hcw, Q, P1, P2, Dm, S, T. reflexivity. }
    split; [intros n p Hn; destruct n; discriminate|].
    split; [reflexivity|]. split; [congruence|]. split; [lia|]. split; [reflexivity|constructor]. }
  destruct (add_ports_ok (su_ports s) _ [] H0 Hc) as (i & o & -> & (A & B & C & D & E & F & G & K) & Hl); [cbn; lia|].
  exists i, o. split; [reflexivity|]. cbn in Hl.
  assert (Hne' : i_ports i <> []).
  { intros Hnil. rewrite Hnil in Hl. cbn in Hl. destruct (su_ports s); [congruence|discriminate]. }
  split; [|exact K].
  unfold inst_inv. split; [exact A|]. split; [exact B|]. split; [exact C|]. split; [exact D|].
  split; [destruct (i_ports i); [congruence|cbn; lia]|]. split; [apply E; exact Hne'|]. rewrite G. lia.
Qed.

(** Whole-life statement: from any valid set-up, any valid event sequence *)
Theorem no_panic_ever s es :
  setup_valid s -> Forall event_valid es ->
  exists i o, init s = Ok (i, o) /\ ~ In SRPanic (run i es).
Proof.
  intros Hs Hes. destruct (init_ok s Hs) as (i & o & Hi & Hinv & _). exists i, o. split; [exact Hi|].
  apply run_never_panics; assumption.
Qed.

Theorem reachable_roles_from_init s es i o i' :
  setup_valid s -> Forall event_valid es -> init s = Ok (i, o) -> run_state i es = Some i' ->
  (nslaves (i_ports i') <= 1)%nat /\
  (forall p, In p (i_ports i') -> pc_master_only (p_config p) = true -> is_slave (p_state p) = false).
Proof.
  intros Hs Hes Hi Hr. destruct (init_ok s Hs) as (i0 & o0 & Hi0 & Hinv & _). rewrite Hi in Hi0. inversion Hi0; subst.
  eapply reachable_roles; eauto.
Qed.

(** Non-vacuity: a two-port set-up (one ordinary E2E port, one master-only P2P
    port) and a mixed event list meet the hypotheses. *)
Example setup_valid_example :
  setup_valid (mkSetup (mkIC 77 128 128 0 0 false true (mkCQ 248 254 65535))
                       (mkTP None 0 false false true 160)
                       [(mkPC None (E2E 0) 1 3 0 false 0 1, [5; 6]);
                        (mkPC (Some [9]) (P2P (-3)) (-2) 2 (-7) true 1000 1, [])])
  /\ Forall event_valid [EvRecvEvent 0 [0; 255; 18] 0; EvRecvGeneral 1 []; EvSendTimestamp 0 (CtxSync 3) 12345;
                         EvAnnounceTimer 0 []; EvBmca; EvSetSlaveOnly true; EvTick 5].
Proof.
  split.
  - unfold setup_valid. cbn [su_ports length]. split; [|split; [discriminate|split; [lia|vm_compute; reflexivity]]].
    repeat constructor; cbn; lia.
  - repeat constructor; cbn; try lia; unfold ts_valid, FRAC; lia.
Qed.

(** * Slave-only from the start *)
Lemma add_port_slave_only i c r i' o : add_port i c r = Ok (i', o) -> slave_only_of i' = slave_only_of i.
Proof.
  unfold add_port. destruct (chk_u _ _ _); cbn [obind]; [|discriminate].
  destruct (draw _) as [k p1]. destruct (announce_interval_ti _); cbn [obind]; [|discriminate].
  intros H. inversion H; subst. reflexivity.
Qed.

Lemma add_ports_slave_only ps : forall i acc i' o,
  add_ports i ps acc = Ok (i', o) -> slave_only_of i' = slave_only_of i.
Proof.
  induction ps as [|[c r] ps IH]; intros i acc i' o H; cbn [add_ports] in H.
  - inversion H; subst. reflexivity.
  - destruct (add_port i c r) as [[i1 o1]|?] eqn:E; cbn [obind fst snd] in H; [|discriminate].
    rewrite (IH _ _ _ _ H). eapply add_port_slave_only. exact E.
Qed.

Theorem slave_only_from_start s es i o i' :
  setup_valid s -> ic_slave_only (su_config s) = true ->
  Forall event_valid es -> Forall (fun e => ~ sets_slave_only e) es ->
  init s = Ok (i, o) -> run_state i es = Some i' ->
  slave_only_of i' = true /\ no_master (i_ports i').
Proof.
  intros Hs Hso Hes Hns Hi Hr.
  destruct (init_ok s Hs) as (i0 & o0 & Hi0 & Hinv & Hnm). rewrite Hi in Hi0. inversion Hi0; subst i0 o0.
  assert (Hso0 : slave_only_of i = true).
  { unfold init in Hi. rewrite (add_ports_slave_only _ _ _ _ _ Hi). exact Hso. }
  assert (Hso' : slave_only_of i' = true).
  { rewrite (slave_only_stable es i i' Hinv Hes Hns Hr). exact Hso0. }
  split; [exact Hso'|].
  assert (Hinv' : so_inv i').
  { eapply slave_only_never_master; [exact Hinv| |exact Hes| |exact Hr].
    - intros _. exact Hnm.
    - eapply Forall_impl; [|exact Hns]. intros e H Ht. apply H. exists true. exact Ht. }
  apply Hinv'. exact Hso'.
Qed.
