(** C05: the selection [find_best] returns the candidate that beats every other
    candidate in the pairwise comparison of Figures 34/35 whenever there is one -
    for candidate lists of any length and WITHOUT any transitivity or
    grandmaster-consistency assumption on the data sets (Iterator::max_by keeps
    such a candidate once it has met it, and replaces every earlier one by it). *)
From SV Require Export Port.BmcaSpec Port.LemmasC05.

Lemma best_msg_eq_dec (a b : best_msg) : {a = b} + {a <> b}.
Proof.
  repeat (decide equality; try apply Z.eq_dec; try apply Bool.bool_dec).
Qed.
Lemma best_msg_eq_dec_or (a b : best_msg) : a = b \/ a <> b.
Proof. destruct (best_msg_eq_dec a b); auto. Qed.

Definition beats (e x : best_msg) : Prop :=
  a_better_or_topo (fig34 (best_cmp_ds e) (best_cmp_ds x)) = true.

Lemma beats_compare e x : beats e x -> best_compare e x = Ok Gt /\ best_compare x e = Ok Lt.
Proof.
  unfold beats, best_compare. intros H. rewrite !compare_refines_spec. cbn [obind].
  rewrite (fig34_mirror (best_cmp_ds e) (best_cmp_ds x)).
  destruct (fig34 (best_cmp_ds e) (best_cmp_ds x)); try discriminate H; split; reflexivity.
Qed.

Lemma max_by_aux_winner e : forall l acc,
  (acc = e \/ In e l) -> (forall x, (x = acc \/ In x l) -> x <> e -> beats e x) ->
  max_by_aux acc l = Ok e.
Proof.
  induction l as [|y l IH]; intros acc Hin Hb; cbn [max_by_aux].
  - destruct Hin as [->|[]]. reflexivity.
  - destruct (best_compare acc y) as [c|?] eqn:Ec; cbn [obind].
    + apply IH.
      * destruct Hin as [->|[->|Hin]].
        -- (* acc = e *)
           destruct (best_msg_eq_dec_or y e) as [->|Hne].
           ++ destruct c; auto.
           ++ destruct (beats_compare e y (Hb y (or_intror (or_introl eq_refl)) Hne)) as [H1 _]. rewrite H1 in Ec. inversion Ec; subst. left. reflexivity.
        -- (* y = e *)
           destruct (best_msg_eq_dec_or acc e) as [->|Hne].
           ++ destruct c; auto.
           ++ destruct (beats_compare e acc (Hb acc (or_introl eq_refl) Hne)) as [_ H2]. rewrite H2 in Ec. inversion Ec; subst. left. reflexivity.
        -- right. exact Hin.
      * intros x Hx Hne. apply Hb; [|exact Hne]. destruct Hx as [->|Hx]; [|right; right; exact Hx].
        destruct c; [right; left; reflexivity|right; left; reflexivity|left; reflexivity].
    + exfalso. unfold best_compare in Ec. rewrite compare_refines_spec in Ec. cbn [obind] in Ec. discriminate Ec.
Qed.

Theorem find_best_condorcet l e :
  In e l -> (forall x, In x l -> x <> e -> beats e x) -> find_best l = Ok (Some e).
Proof.
  intros Hin Hb. destruct l as [|y l]; [destruct Hin|]. cbn [find_best].
  rewrite (max_by_aux_winner e l y); [reflexivity| |].
  - destruct Hin as [->|Hin]; auto.
  - intros x Hx Hne. apply Hb; [|exact Hne]. destruct Hx as [->|Hx]; [left; reflexivity|right; exact Hx].
Qed.
