(** C17 — Shared instance state is never locked re-entrantly or seen half-updated.
    The harness's PtpInstanceStateMutex records every acquisition with the
    nesting depth at which it happened. *)
From SV Require Export Port.OracleBase.

Definition lock_events (o : list tobs) : list (bool * Z) :=
  flat_map (fun x => match snd x with OLock w d => [(w, d)] | _ => [] end) o.

Definition step_C17 (c : pcase) (_ : unit) (prev : snapshot) (e : event) (o : list tobs) (sn : snapshot) : option unit :=
  let ls := lock_events o in
  (* never requested again while held *)
  let flat := forallb (fun x => snd x =? 0) ls in
  (* every logical update of the data sets is one write section *)
  let writes := count (fun x => fst x) ls in
  let one_write := (writes <=? 1)%nat in
  let changed := negb (ds_eqb (sn_ds prev) (sn_ds sn)) in
  let write_if_changed := if changed then (1 <=? writes)%nat else true in
  (* a write section is never interleaved with reads of the same call that could
     observe the old value after the update started: reads come before it *)
  let fix reads_before_write (l : list (bool * Z)) (seen_write : bool) : bool :=
    match l with
    | [] => true
    | (true, _) :: l' => reads_before_write l' true
    | (false, _) :: l' => negb seen_write && reads_before_write l' seen_write
    end in
  let order_ok := match e with
                  | EvBmca => forallb (fun x => fst x) ls   (* the whole BMCA is one write section *)
                  | _ => reads_before_write ls false
                  end in
  if flat && one_write && write_if_changed && order_ok then Some tt else None.

Definition ok_C17 (c : pcase) : bool :=
  walk (step_C17 c) tt (init_snap c) (pc_events c) (pc_trace c).

Definition kf_C17 (c : pcase) : Z := 0.
Definition case := pcase.
Definition run_cases := run_cases_gen agree_port ok_C17 kf_C17.
