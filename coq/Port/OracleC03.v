(** C03 — No input, timing or call order makes the library panic or overflow. *)
From SV Require Export Port.OracleBase.

Definition no_panic (rs : list step_result) : bool :=
  forallb (fun r => match r with SRPanic => false | SROk _ _ => true end) rs.

(** The implementation's calls all returned normally, AND the model predicts no
    arithmetic overflow or failed debug assertion either: in a build without
    debug checks an overflow wraps silently and is invisible in the observed
    trace, but it is still a violation. *)
Definition ok_C03 (c : pcase) : bool :=
  match pc_init c with
  | Some _ =>
      no_panic (pc_trace c)
      && (length (pc_trace c) =? length (pc_events c))%nat
      && match model_init c with Some _ => no_panic (model_trace c) | None => false end
  | None => false
  end.

Definition kf_C03 (c : pcase) : Z := 0.
Definition case := pcase.
Definition run_cases := run_cases_gen agree_port ok_C03 kf_C03.
