(** Lemmas for C11 (Announce contents). *)
From SV Require Import Port.OracleC11.

Lemma bool_eqb_refl b : bool_eqb b b = true. Proof. destruct b; reflexivity. Qed.
Lemma cq_eqb_refl q : cq_eqb q q = true.
Proof. unfold cq_eqb. rewrite !Z.eqb_refl. reflexivity. Qed.
Lemma pi_eqb_refl p : pi_eqb p p = true.
Proof. unfold pi_eqb. rewrite !Z.eqb_refl. reflexivity. Qed.
Lemma opt_z_eqb_refl o : opt_z_eqb o o = true.
Proof. destruct o; cbn; [apply Z.eqb_refl | reflexivity]. Qed.
Lemma tp_eqb_refl t : tp_eqb t t = true.
Proof. unfold tp_eqb. rewrite opt_z_eqb_refl, !Z.eqb_refl, !bool_eqb_refl. reflexivity. Qed.
Lemma pd_eqb_refl p : pd_eqb p p = true.
Proof. unfold pd_eqb. rewrite pi_eqb_refl, cq_eqb_refl, !Z.eqb_refl. reflexivity. Qed.

(** (a) every field of an Announce built by the port is the named function of
    the data sets at emission — for all data sets *)
Lemma announce_reflects_ds ds src seq minor :
  announce_reflects ds (msg_announce ds src seq minor) = true.
Proof.
  unfold announce_reflects, msg_announce. cbn [m_body m_header an_gm_identity an_quality an_prio1 an_prio2
    an_steps_removed an_utc_offset an_time_source h_utc_valid h_leap61 h_leap59 h_ptp_timescale
    h_time_traceable h_freq_traceable].
  rewrite !Z.eqb_refl, cq_eqb_refl, !bool_eqb_refl. reflexivity.
Qed.

(** (b) S1 update: an Announce from the parent (qualified, no path-trace
    discard) replaces the data sets by its contents, stepsRemoved + 1 *)
Lemma s1_update_exact p d ti m a st :
  p_state p = PSlave st -> m_body m = BAnnounce a ->
  pi_eqb (h_source (m_header m)) (pd_parent (ds_parent d)) = true ->
  0 <= an_steps_removed a < 255 ->
  ds_path_enable d = false ->
  exists p' o,
    handle_announce p d ti m a =
      Ok (p', ds_with d (an_steps_removed a + 1)
                     (mkPD (h_source (m_header m)) (an_gm_identity a) (an_quality a) (an_prio1 a) (an_prio2 a))
                     [] (ann_time_props (m_header m) a), o).
Proof.
  intros Hst Hb Hsrc Hsteps Hpath. unfold handle_announce.
  rewrite Hst. cbn [is_slave andb].
  assert (Hlt : an_steps_removed a <? 255 = true) by lia. rewrite Hlt, Hsrc, Hpath.
  unfold chk_u. assert (Hin : in_u 16 (an_steps_removed a + 1) = true).
  { unfold in_u. change (2 ^ 16) with 65536. lia. }
  rewrite Hin. cbn [obind].
  destruct (bmca_register _ _ _ _ _ _) as [acc fml]. destruct acc.
  - match goal with |- context [if ?c then set_forced ?x ?y else ?z] => destruct (if c then set_forced x y else z) as [p2 o2] end.
    destruct (draw p2) as [k p3]. eexists; eexists; reflexivity.
  - eexists; eexists; reflexivity.
Qed.

(** (c) grandmaster view: decision M1/M2 sets parent := own attributes, stepsRemoved := 0 *)
Lemma gm_view b d dd :
  dd_slave_only (ds_default d) = false ->
  forall r, (r = RM1 dd \/ r = RM2 dd) ->
  exists b', set_recommended_state b r d =
             Ok (b', ds_with d 0 (mkPD (mkPI (dd_clock_identity dd) 0) (dd_clock_identity dd)
                                        (dd_quality dd) (dd_prio1 dd) (dd_prio2 dd))
                             [] (mkTP None 0 false false true 160)).
Proof.
  intros Hso r Hr. unfold set_recommended_state.
  destruct (set_recommended_port_state b r (ds_default d)) as [b1|s] eqn:E.
  - cbn [obind]. destruct Hr as [-> | ->]; rewrite Hso; cbn [andb]; eexists; reflexivity.
  - exfalso. unfold set_recommended_port_state in E. rewrite Hso in E.
    destruct Hr as [-> | ->];
      (destruct (p_multiport_disable (bp_port b));
       [ destruct (is_passive (p_state (bp_port b)) || is_faulty (p_state (bp_port b))); [discriminate|];
         destruct (set_forced (bp_port b) PPassive); discriminate
       | destruct (p_state (bp_port b)); try discriminate;
         destruct (set_forced (bp_port b) PMaster); discriminate ]).
Qed.
