(** C14, whole histories: the complete oracle [ok_C14] accepts the model's own
    trace for every valid set-up and every valid event list.  The peer-delay
    exchange state of every port (PeerDelayState) is coupled with the oracle's
    record of the current Pdelay_Req: its transmit timestamps, the responses and
    follow-ups that answered it, the first responder and whether a second one
    contested it. *)
From SV Require Export Port.MainC09 Port.OracleC14 Port.LemmasC14.

(** * the oracle's step for one port, in named pieces *)
Definition s1_of (e : event) (p : nat) (s : pstate14) : pstate14 :=
  match e with
  | EvSendTimestamp q (CtxPDelayReq id) ts =>
      if Nat.eqb p q && opt_z_eqb (Some id) (cur_id s)
      then mkP14 (cur_id s) (ts :: t1s s) (resps s) (pfups s) (responder s) (contested s) else s
  | _ => s
  end.
Definition incoming_of (prev : snapshot) (e : event) (p : nat) : option message :=
  match e with
  | EvRecvEvent q frame _ | EvRecvGeneral q frame => if Nat.eqb p q then accept14 prev frame else None
  | _ => None
  end.
Definition is_ev (e : event) : bool := match e with EvRecvEvent _ _ _ => true | _ => false end.
Definition rel_of (c : pcase) (p : nat) (e : event) (s1 : pstate14) (incoming : option message)
  : option (message * port_identity) :=
  match incoming with
  | Some m => match relevant c p s1 m with
              | Some (src, is_resp) => if negb is_resp || is_ev e then Some (m, src) else None
              | None => None
              end
  | None => None
  end.
Definition conflict_of (rel : option (message * port_identity)) (s1 : pstate14) : bool :=
  match rel, responder s1 with
  | Some (_, src), Some r => negb (pi_eqb src r)
  | _, _ => false
  end.
Definition s2_of (rel : option (message * port_identity)) (conflict : bool) (e : event) (s1 : pstate14) : pstate14 :=
  match rel with
  | Some (m, src) =>
      if conflict then mkP14 (cur_id s1) (t1s s1) (resps s1) (pfups s1) (responder s1) true else
      match m_body m, e with
      | BPDelayResp t2 _, EvRecvEvent _ _ ts =>
          mkP14 (cur_id s1) (t1s s1)
                (mkPR src (h_two_step (m_header m)) (ts - h_correction (m_header m) * 2 ^ 16) (wts t2) :: resps s1)
                (pfups s1) (Some src) (contested s1)
      | BPDelayRespFollowUp t3 _, _ =>
          mkP14 (cur_id s1) (t1s s1) (resps s1)
                (mkPF src (wts t3 + h_correction (m_header m) * 2 ^ 16) :: pfups s1) (Some src) (contested s1)
      | _, _ => s1
      end
  | None => s1
  end.
Definition is_peer_meas (m : measurement) : bool := match me_peer_delay m with Some _ => true | None => false end.
Definition peer_ms_of (o : list obs) : list measurement := filter is_peer_meas (meas_of o).
Definition exact_of (s2 : pstate14) (peer_ms : list measurement) : bool :=
  forallb (fun m =>
    negb (nonneg14 s2) ||
    match me_peer_delay m with
    | Some v => existsb (fun cnd => (fst cnd =? me_event_time m) && (snd cnd =? v)) (candidates14 s2)
                && opt_z_eqb (me_offset m) None && opt_z_eqb (me_delay m) None
                && opt_z_eqb (me_raw_sync m) None && opt_z_eqb (me_raw_delay m) None
    | None => true
    end) peer_ms.
Definition multi_of (conflict : bool) (sn : snapshot) (p : nat) (s2 : pstate14) (peer_ms : list measurement) : bool :=
  (if conflict then (state_of sn p =? 2) && (length peer_ms =? 0)%nat else true)
  && (if contested s2 then (length peer_ms =? 0)%nat else true).
Definition inert_of (prev : snapshot) (p : nat) (o : list obs) : bool :=
  if state_of prev p =? 2 then
    forallb (fun x => match decoded (snd x) with
                      | Some m => negb (master_type (body_type (m_body m)))
                      | None => false
                      end) (sent_frames o)
    && forallb (fun m => match me_raw_sync m, me_raw_delay m with None, None => true | _, _ => false end) (meas_of o)
  else true.
Definition leave_of (prev sn : snapshot) (p : nat) (peer_ms : list measurement) (conflict : bool) : bool :=
  if (state_of prev p =? 2) && negb (state_of sn p =? 2)
  then (state_of sn p =? 4) && negb (length peer_ms =? 0)%nat && negb conflict
  else true.
Definition enter_of (prev sn : snapshot) (p : nat) (conflict : bool) : bool :=
  if negb (state_of prev p =? 2) && (state_of sn p =? 2) then conflict else true.
Definition new_req_of (o : list obs) : list Z :=
  flat_map (fun x => match x with ASendEvent (CtxPDelayReq id) _ _ => [id] | _ => [] end) o.
Definition final_of (o : list obs) (s2 : pstate14) : pstate14 :=
  match new_req_of o with
  | id :: _ => mkP14 (Some id) [] [] [] None false
  | [] => s2
  end.

Lemma step_port14_eq c prev e p o sn s :
  step_port14 c prev e p o sn s =
  let s1 := s1_of e p s in
  let rel := rel_of c p e s1 (incoming_of prev e p) in
  let conflict := conflict_of rel s1 in
  let s2 := s2_of rel conflict e s1 in
  let peer_ms := peer_ms_of o in
  if exact_of s2 peer_ms && multi_of conflict sn p s2 peer_ms && inert_of prev p o
     && leave_of prev sn p peer_ms conflict && enter_of prev sn p conflict
  then Some (final_of o s2) else None.
Proof. reflexivity. Qed.

(** the role theorem of C08 gives the "inert while faulty" clause *)
Lemma inert_from_role prev sn p o : role_port prev sn p o = true -> inert_of prev p o = true.
Proof.
  unfold role_port, inert_of. intros H. apply andb_true_iff in H as [H1 H2].
  destruct (state_of prev p =? 2) eqn:E; [|reflexivity]. apply Z.eqb_eq in E.
  apply andb_true_iff. split.
  - apply forallb_forall. intros x Hx. rewrite forallb_forall in H1. specialize (H1 x Hx).
    destruct (decoded (snd x)) as [m|]; [|discriminate H1]. apply andb_true_iff in H1 as [H1 _].
    unfold master_type. unfold master_role_type in H1. rewrite E in H1.
    destruct (body_type (m_body m)); try reflexivity; discriminate H1.
  - unfold meas_of. apply forallb_forall. intros m Hm. apply in_flat_map in Hm. destruct Hm as (x & Hx & Hm).
    rewrite forallb_forall in H2. specialize (H2 x Hx). destruct x; cbn in Hm; try contradiction. destruct Hm as [->|[]].
    rewrite E in H2. destruct (me_raw_sync m); [discriminate H2|]. destruct (me_raw_delay m); [discriminate H2|reflexivity].
Qed.

(** * the coupling between a port's PeerDelayState and the oracle's record *)
Definition fu_ok (resp : port_identity) (s : pstate14) (rsopt : option Z) : Prop :=
  forall rs, rsopt = Some rs -> exists f, In f (pfups s) /\ pf_src f = resp /\ exact_if (pf_t3c f) rs.

Definition resp_cpl (resp : port_identity) (s : pstate14) (b c e : option Z) : Prop :=
  (b = None /\ e = None /\ fu_ok resp s c) \/
  (exists r rr rv, b = Some rr /\ e = Some rv /\ In r (resps s) /\ pr_src r = resp /\ pr_t2 r = rr /\
     exact_if (pr_t4c r) rv /\
     ((pr_two r = true /\ fu_ok resp s c) \/ (pr_two r = false /\ c = Some rr))).

Definition meas_cpl (s : pstate14) (id : Z) (resp : option port_identity) (a b c e : option Z) : Prop :=
  cur_id s = Some id /\ responder s = resp /\ contested s = false /\
  (forall t, a = Some t -> In t (t1s s)) /\
  match resp with
  | Some r => resp_cpl r s b c e
  | None => b = None /\ c = None /\ e = None
  end.

Definition cp14 (p : port) (s : pstate14) : Prop :=
  match p_peer p with
  | PDEmpty => cur_id s = None \/ (is_faulty (p_state p) = true /\ contested s = true)
  | PDPost id r => cur_id s = Some id /\ responder s = Some r
  | PDMeasuring id resp a b c e => meas_cpl s id resp a b c e /\ peer_incomplete (p_peer p)
  end.

(** the record only grows *)
Definition ext14 (s s' : pstate14) : Prop :=
  cur_id s' = cur_id s /\ incl (t1s s) (t1s s') /\ incl (resps s) (resps s') /\ incl (pfups s) (pfups s').

Lemma fu_ok_ext r s s' c : ext14 s s' -> fu_ok r s c -> fu_ok r s' c.
Proof. intros (_ & _ & _ & H) Hf rs Hrs. destruct (Hf rs Hrs) as (f & Hin & Hx). exists f. split; [apply H; exact Hin|exact Hx]. Qed.

Lemma resp_cpl_ext r s s' b c e : ext14 s s' -> resp_cpl r s b c e -> resp_cpl r s' b c e.
Proof.
  intros He [(A & B & C)|(x & rr & rv & A & B & Hin & D & E & F & G)].
  - left. repeat split; auto. eapply fu_ok_ext; eauto.
  - right. exists x, rr, rv. split; [exact A|]. split; [exact B|].
    split; [destruct He as (_ & _ & H3 & _); apply H3; exact Hin|]. split; [exact D|]. split; [exact E|]. split; [exact F|].
    destruct G as [[G1 G2]|G]; [left; split; [exact G1|eapply fu_ok_ext; eauto]|right; exact G].
Qed.

Lemma meas_cpl_ext s s' id resp a b c e :
  ext14 s s' -> responder s' = responder s -> contested s' = contested s ->
  meas_cpl s id resp a b c e -> meas_cpl s' id resp a b c e.
Proof.
  intros He Hr Hc (A & B & C & D & E). unfold meas_cpl. destruct He as (E1 & E2 & E3 & E4).
  rewrite E1, Hr, Hc. split; [exact A|]. split; [exact B|]. split; [exact C|]. split.
  - intros t Ht. apply E2. exact (D t Ht).
  - destruct resp; [eapply resp_cpl_ext; [split; [exact E1|split; [exact E2|split; [exact E3|exact E4]]]|exact E]|exact E].
Qed.

(** * candidates *)
Lemma cand14_one s t1 r : In t1 (t1s s) -> In r (resps s) -> pr_two r = false ->
  In (pr_t4c r, Z.quot ((pr_t4c r - t1) - (pr_t2 r - pr_t2 r)) 2) (candidates14 s).
Proof.
  intros H1 H2 H3. unfold candidates14. apply in_flat_map. exists t1. split; [exact H1|].
  apply in_flat_map. exists r. split; [exact H2|]. rewrite H3. left. reflexivity.
Qed.
Lemma cand14_two s t1 r f : In t1 (t1s s) -> In r (resps s) -> pr_two r = true ->
  In f (pfups s) -> pf_src f = pr_src r ->
  In (pr_t4c r, Z.quot ((pr_t4c r - t1) - (pf_t3c f - pr_t2 r)) 2) (candidates14 s).
Proof.
  intros H1 H2 H3 H4 H5. unfold candidates14. apply in_flat_map. exists t1. split; [exact H1|].
  apply in_flat_map. exists r. split; [exact H2|]. rewrite H3.
  apply in_flat_map. exists f. split; [exact H4|]. rewrite H5, pi_eqb_refl. left. reflexivity.
Qed.
Lemma nonneg14_parts s : nonneg14 s = true ->
  (forall r, In r (resps s) -> 0 <= pr_t4c r) /\ (forall f, In f (pfups s) -> 0 <= pf_t3c f).
Proof.
  unfold nonneg14. intros H. apply andb_true_iff in H as [H1 H2]. rewrite forallb_forall in H1, H2.
  split; intros x Hx; [specialize (H1 x Hx)|specialize (H2 x Hx)]; lia.
Qed.

(** * handle_time_measurement seen from the peer-delay side *)
Definition neutral (q q' : port) (o : list obs) : Prop :=
  p_peer q' = p_peer q /\ is_faulty (p_state q') = is_faulty (p_state q) /\
  peer_ms_of o = [] /\ new_req_of o = [].

Lemma neutral_refl q : neutral q q [].
Proof. repeat split; auto. Qed.

Lemma extract_slave_neutral q q' om o : extract_slave q = Ok (q', om, o) ->
  o = [] /\ p_peer q' = p_peer q /\ (forall m, om = Some m -> me_peer_delay m = None) /\
  (p_state q' = p_state q \/ (is_slave (p_state q) = true /\ is_slave (p_state q') = true)).
Proof.
  unfold extract_slave. intros H. destruct (p_state q) as [| | | |st] eqn:Est;
    try (inversion H; subst; repeat split; auto; intros m Hm; discriminate Hm).
  destruct (ss_sync st) as [|id [a|] [b|]]; try destruct (ss_delay st) as [|id2 [a2|] [b2|]];
    crunch H; cbn [port_with_state p_peer p_state is_slave];
    (split; [reflexivity|]); (split; [reflexivity|]);
    (split; [intros m Hm; inversion Hm; reflexivity|]); rewrite ?Est; auto.
Qed.

Lemma htm_neutral q d q' d' o :
  peer_incomplete (p_peer q) -> handle_time_measurement q d = Ok (q', d', o) -> neutral q q' o.
Proof.
  intros Hp H. unfold handle_time_measurement in H. rewrite (extract_inc q Hp) in H.
  destruct (extract_slave q) as [[[p1 om] o1]|?] eqn:E; cbn [obind] in H; [|discriminate].
  destruct (extract_slave_neutral _ _ _ _ E) as (-> & Hpeer & Hm & Hst).
  assert (Hf : is_faulty (p_state p1) = is_faulty (p_state q)).
  { destruct Hst as [->|[H1 H2]]; [reflexivity|].
    destruct (p_state q); try discriminate H1. destruct (p_state p1); try discriminate H2. reflexivity. }
  destruct om as [m|].
  - pose proof (Hm m eq_refl) as Hpm.
    assert (Hms : peer_ms_of [OFilterMeas m] = []).
    { unfold peer_ms_of. cbn. unfold is_peer_meas. rewrite Hpm. reflexivity. }
    destruct (filter_mean_delay m); unfold ret in H; inversion H; subst; cbn [app];
      unfold neutral; cbn [port_with_mean_delay p_peer p_state]; rewrite Hms; repeat split; auto.
  - unfold ret in H. inversion H; subst. unfold neutral. repeat split; auto.
Qed.

Lemma htm_complete q d id r t1 rr x rv q' d' o :
  p_peer q = PDMeasuring id (Some r) (Some t1) (Some rr) (Some x) (Some rv) ->
  handle_time_measurement q d = Ok (q', d', o) ->
  p_peer q' = PDPost id r /\
  p_state q' = (if is_faulty (p_state q) then PListening else p_state q) /\
  new_req_of o = [] /\
  peer_ms_of o = [mkMeas rv None None (Some (Z.quot ((rv - t1) - (x - rr)) 2)) None None].
Proof.
  intros Ep H. unfold handle_time_measurement, extract_measurement in H. rewrite Ep in H.
  destruct (time_diff rv t1) as [x1|?] eqn:E1; cbn [obind] in H; [|discriminate]. apply time_diff_val in E1.
  destruct (time_diff x rr) as [x2|?] eqn:E2; cbn [obind] in H; [|discriminate]. apply time_diff_val in E2.
  destruct (dur_sub x1 x2) as [x3|?] eqn:E3; cbn [obind] in H; [|discriminate]. apply dur_sub_val in E3.
  destruct (chk_i _ _ _) as [half|?] eqn:E4; cbn [obind] in H; [|discriminate]. apply chk_i_val in E4.
  subst. cbn [port_with_peer p_state] in H.
  destruct (is_faulty (p_state q)) eqn:Ef; unfold set_forced in H;
    cbn [obind filter_mean_delay me_delay me_peer_delay] in H; unfold ret in H; inversion H; subst; clear H;
    cbn [port_with_mean_delay port_with_state port_with_peer p_peer p_state]; rewrite ?Ef.
  - repeat split; try reflexivity.
    + destruct (_ || _); reflexivity.
    + unfold peer_ms_of. rewrite meas_of_app. destruct (_ || _); reflexivity.
  - repeat split; reflexivity.
Qed.

(** * what one call must establish for the port it addresses *)
Definition closes (pp pp' : port) (oo : list obs) (conflict : bool) (s2 : pstate14) : Prop :=
  exact_of s2 (peer_ms_of oo) = true /\
  (conflict = true -> is_faulty (p_state pp') = true /\ peer_ms_of oo = []) /\
  (contested s2 = true -> peer_ms_of oo = []) /\
  (is_faulty (p_state pp) = true -> is_faulty (p_state pp') = false ->
     p_state pp' = PListening /\ peer_ms_of oo <> [] /\ conflict = false) /\
  (is_faulty (p_state pp) = false -> is_faulty (p_state pp') = true -> conflict = true) /\
  cp14 pp' (final_of oo s2).

Lemma cp14_same_peer p p' s : p_peer p' = p_peer p -> is_faulty (p_state p') = is_faulty (p_state p) ->
  cp14 p s -> cp14 p' s.
Proof. unfold cp14. intros -> ->. auto. Qed.

Lemma closes_neutral pp pp' oo s2 : neutral pp pp' oo -> cp14 pp s2 -> closes pp pp' oo false s2.
Proof.
  intros (Hp & Hf & Hms & Hnr) Hc. unfold closes. rewrite Hms. split; [reflexivity|].
  split; [discriminate|]. split; [reflexivity|]. rewrite Hf.
  split; [intros H1 H2; rewrite H1 in H2; discriminate|]. split; [intros H1 H2; rewrite H1 in H2; discriminate|].
  unfold final_of. rewrite Hnr. eapply cp14_same_peer; eauto.
Qed.

Lemma measuring_closes pp q d s2 q' d' o id resp a b c e :
  p_peer q = PDMeasuring id resp a b c e -> p_state q = p_state pp ->
  meas_cpl s2 id resp a b c e ->
  handle_time_measurement q d = Ok (q', d', o) -> closes pp q' o false s2.
Proof.
  intros Ep Est Hm H. destruct (peer_dec (p_peer q)) as [Hinc|(id' & r & t1 & rr & x & rv & Ec)].
  - pose proof (htm_neutral q d q' d' o Hinc H) as Hn.
    destruct Hn as (Hp & Hf & Hms & Hnr). unfold closes. rewrite Hms, Hf, Est. split; [reflexivity|].
    split; [discriminate|]. split; [reflexivity|].
    split; [intros H1 H2; rewrite H1 in H2; discriminate|]. split; [intros H1 H2; rewrite H1 in H2; discriminate|].
    unfold final_of. rewrite Hnr. unfold cp14. rewrite Hp, Ep. split; [exact Hm|]. rewrite <- Ep. exact Hinc.
  - rewrite Ep in Ec. inversion Ec; subst id' resp a b c e. clear Ec.
    destruct (htm_complete q d id r t1 rr x rv q' d' o Ep H) as (Hp & Hst & Hnr & Hms).
    destruct Hm as (Hcur & Hresp & Hcont & Ht1 & Hrc).
    unfold closes. rewrite Hms. split.
    + cbn [exact_of forallb me_peer_delay me_event_time me_offset me_delay me_raw_sync me_raw_delay opt_z_eqb].
      rewrite andb_true_r. destruct (nonneg14 s2) eqn:En; [|reflexivity]. cbn [negb orb].
      destruct (nonneg14_parts s2 En) as [N1 N2].
      destruct Hrc as [(Hb & _)|(r0 & rr0 & rv0 & Hb & He & Hin & Hsrc & Ht2 & Hex & Hs)]; [discriminate Hb|].
      injection Hb as Hb1. injection He as He1. rewrite <- Hb1 in Ht2, Hs. rewrite <- He1 in Hex. clear Hb1 He1 rr0 rv0.
      rewrite (Hex (N1 r0 Hin)).
      rewrite !andb_true_r. apply existsb_exists.
      destruct Hs as [[Htwo Hfu]|[Hone Hc]].
      * destruct (Hfu x eq_refl) as (f & Hf & Hfs & Hfe). rewrite (Hfe (N2 f Hf)).
        exists (pr_t4c r0, Z.quot ((pr_t4c r0 - t1) - (pf_t3c f - pr_t2 r0)) 2). split.
        -- apply cand14_two; auto. rewrite Hfs, Hsrc. reflexivity.
        -- cbn [fst snd]. rewrite Ht2, !Z.eqb_refl. reflexivity.
      * inversion Hc; subst x.
        exists (pr_t4c r0, Z.quot ((pr_t4c r0 - t1) - (pr_t2 r0 - pr_t2 r0)) 2). split.
        -- apply cand14_one; auto.
        -- cbn [fst snd]. rewrite Ht2, !Z.eqb_refl. reflexivity.
    + split; [discriminate|]. split; [rewrite Hcont; discriminate|].
      rewrite Hst, Est. split.
      * intros H1 _. rewrite H1. split; [reflexivity|]. split; [discriminate|reflexivity].
      * split; [intros H1 H2; rewrite H1 in H2; rewrite H1 in H2; discriminate|].
        unfold final_of. rewrite Hnr. unfold cp14. rewrite Hp. split; assumption.
Qed.

Lemma closes_ret pp conflict s2 :
  (conflict = true -> is_faulty (p_state pp) = true) -> cp14 pp s2 -> closes pp pp [] conflict s2.
Proof.
  intros Hf Hc. unfold closes. cbn [peer_ms_of meas_of flat_map filter exact_of forallb]. split; [reflexivity|].
  split; [intros H; split; [apply Hf; exact H|reflexivity]|]. split; [reflexivity|].
  split; [intros H1 H2; rewrite H1 in H2; discriminate|]. split; [intros H1 H2; rewrite H1 in H2; discriminate|].
  exact Hc.
Qed.

Lemma closes_go_faulty pp q d s2 pp' d' oo :
  go_faulty q d = Ok (pp', d', oo) -> cp14 (port_with_state q PFaulty) s2 -> closes pp pp' oo true s2.
Proof.
  intros H Hc. unfold go_faulty, set_forced, ret in H. inversion H; subst. clear H.
  assert (Hms : forall b : bool, peer_ms_of (if b then [OFilterDemobilize] else []) = []) by (intros []; reflexivity).
  assert (Hnr : forall b : bool, new_req_of (if b then [OFilterDemobilize] else []) = []) by (intros []; reflexivity).
  unfold closes. rewrite Hms. split; [reflexivity|]. split; [intros _; split; reflexivity|]. split; [reflexivity|].
  cbn [port_with_state p_state is_faulty]. split; [intros _ Hx; discriminate Hx|]. split; [reflexivity|].
  unfold final_of. rewrite Hnr. exact Hc.
Qed.

Lemma opt_seq_eqb seq id : opt_z_eqb (Some seq) (Some id) = (seq =? id).
Proof. reflexivity. Qed.

(** a Pdelay_Resp on the event interface *)
Ltac red14 Eb := repeat (progress (cbv beta iota; cbn [negb orb andb is_ev]; rewrite ?Eb)).

Lemma resp_closes c n pp d m t2 requester ts s pp' d' oo frame :
  m_body m = BPDelayResp t2 requester -> cp14 pp s -> p_identity pp = port_id c n ->
  ts_valid ts -> wf_header (m_header m) -> wf_ts t2 ->
  handle_peer_delay_response pp d (m_header m) t2 requester ts = Ok (pp', d', oo) ->
  closes pp pp' oo (conflict_of (rel_of c n (EvRecvEvent n frame ts) s (Some m)) s)
         (s2_of (rel_of c n (EvRecvEvent n frame ts) s (Some m))
                (conflict_of (rel_of c n (EvRecvEvent n frame ts) s (Some m)) s) (EvRecvEvent n frame ts) s).
Proof.
  intros Eb Hc Hid Hts Hwf Hw H.
  set (h := m_header m) in *. set (src := h_source h).
  unfold conflict_of, s2_of, rel_of, relevant. red14 Eb.
  unfold handle_peer_delay_response in H. rewrite Hid, (pi_eqb_sym (port_id c n) requester) in H.
  destruct (pi_eqb requester (port_id c n)) eqn:Er; cbn [negb andb] in *;
    [|unfold ret in H; inversion H; subst; apply closes_ret; [discriminate|exact Hc]].
  fold h. fold src.
  set (rec := mkPR src (h_two_step h) (ts - h_correction h * 2 ^ 16) (wts t2)).
  unfold cp14 in Hc. destruct (p_peer pp) as [|id resp a b cc e|id r] eqn:Ep.
  - (* PDEmpty *)
    unfold ret in H. inversion H; subst.
    destruct Hc as [Hc|[Hf Hct]].
    + rewrite Hc. cbn [opt_z_eqb]. apply closes_ret; [discriminate|]. unfold cp14. rewrite Ep. left. exact Hc.
    + destruct (opt_z_eqb (Some (h_seq h)) (cur_id s)); [|apply closes_ret; [discriminate|unfold cp14; rewrite Ep; right; split; assumption]].
      red14 Eb.
      destruct (responder s) as [r|]; red14 Eb; [destruct (negb (pi_eqb src r)); red14 Eb|];
        (apply closes_ret; [intros _; exact Hf|unfold cp14; rewrite Ep; right; split; [exact Hf|cbn [contested]; first [reflexivity|exact Hct]]]).
  - (* PDMeasuring *)
    destruct Hc as [Hm Hinc]. pose proof Hm as (Hcur & Hresp & Hcont & Ht1 & Hrc).
    replace (opt_z_eqb (Some (h_seq h)) (cur_id s)) with (id =? h_seq h) by (rewrite Hcur, opt_seq_eqb; apply Z.eqb_sym).
    destruct (id =? h_seq h) eqn:Eid; cbn [negb] in H;
      [|unfold ret in H; inversion H; subst; apply closes_ret; [discriminate|unfold cp14; rewrite Ep; split; assumption]].
    red14 Eb. rewrite Hresp. red14 Eb.
    assert (Hext : ext14 s (mkP14 (cur_id s) (t1s s) (rec :: resps s) (pfups s) (Some src) (contested s))).
    { unfold ext14. cbn. repeat split; try apply incl_refl. apply incl_tl, incl_refl. }
    assert (Hproceed : forall resp0, (match resp0 with Some r => r = src /\ resp_cpl r s b cc e | None => b = None /\ cc = None /\ e = None end) ->
              resp = resp0 ->
              match e with
              | Some _ => ret pp d []
              | None =>
                  let! rv := time_sub_dur ts (ti_to_dur (h_correction h)) in
                  let! rr := time_of_wire t2 in
                  let rs := if h_two_step h then cc else Some rr in
                  handle_time_measurement (port_with_peer pp (PDMeasuring id (Some (h_source h)) a (Some rr) rs (Some rv))) d
              end = Ok (pp', d', oo) ->
              closes pp pp' oo false (mkP14 (cur_id s) (t1s s) (rec :: resps s) (pfups s) (Some src) (contested s))).
    { intros resp0 Hr0 Er0 Hx. subst resp0. destruct e as [e0|].
      - unfold ret in Hx. injection Hx as <- <- <-. apply closes_ret; [discriminate|]. unfold cp14. rewrite Ep. split; [|exact Hinc].
        destruct resp as [r0|]; [|destruct Hr0 as (_ & _ & Hx0); discriminate Hx0].
        destruct Hr0 as [-> _]. eapply meas_cpl_ext; [exact Hext|cbn; symmetry; exact Hresp|reflexivity|exact Hm].
      - destruct (time_sub_dur ts (ti_to_dur (h_correction h))) as [rv|?] eqn:Erv; cbn [obind] in Hx; [|discriminate].
        destruct (time_of_wire t2) as [rr|?] eqn:Err; cbn [obind] in Hx; [|discriminate].
        apply time_of_wire_val in Err.
        assert (Hex : exact_if (pr_t4c rec) rv).
        { destruct (ts_room ts _ Hts (corr_bound h Hwf)) as [A B]. exact (time_sub_dur_exact _ _ _ A B Erv). }
        match type of Hx with handle_time_measurement ?q _ = _ => eapply (measuring_closes pp q) end; [reflexivity|reflexivity| |exact Hx].
        unfold meas_cpl. cbn [cur_id responder contested t1s]. split; [exact Hcur|]. split; [reflexivity|]. split; [exact Hcont|].
        split; [exact Ht1|]. right. exists rec, rr, rv. split; [reflexivity|]. split; [reflexivity|].
        split; [left; reflexivity|]. split; [reflexivity|]. split; [symmetry; exact Err|]. split; [exact Hex|].
        assert (Hfu : fu_ok src s cc).
        { destruct resp as [r0|].
          - destruct Hr0 as [-> [(_ & _ & Hfu)|(x & rr0 & rv0 & _ & He & _)]]; [exact Hfu|discriminate He].
          - destruct Hr0 as (_ & -> & _). intros rs Hrs. discriminate Hrs. }
        cbn [pr_two rec]. destruct (h_two_step h).
        + left. split; [reflexivity|]. eapply fu_ok_ext; [exact Hext|exact Hfu].
        + right. split; reflexivity. }
    subst src. destruct resp as [r|]; red14 Eb.
    + rewrite (pi_eqb_sym (h_source h) r).
      destruct (negb (pi_eqb r (h_source h))) eqn:En.
      * eapply closes_go_faulty; [exact H|]. unfold cp14. cbn [port_with_state port_with_peer p_peer p_state is_faulty].
        right. split; reflexivity.
      * apply negb_false_iff, pi_eqb_eq in En. apply (Hproceed (Some r)); [split; [exact En|exact Hrc]|reflexivity|exact H].
    + apply (Hproceed None); [exact Hrc|reflexivity|exact H].
  - (* PDPost *)
    destruct Hc as [Hcur Hresp]. replace (opt_z_eqb (Some (h_seq h)) (cur_id s)) with (id =? h_seq h) by (rewrite Hcur, opt_seq_eqb; apply Z.eqb_sym).
    destruct (id =? h_seq h) eqn:Eid; cbn [andb] in H;
      [|unfold ret in H; inversion H; subst; apply closes_ret; [discriminate|unfold cp14; rewrite Ep; split; assumption]].
    red14 Eb. rewrite Hresp. red14 Eb. subst src. rewrite (pi_eqb_sym (h_source h) r).
    destruct (negb (pi_eqb r (h_source h))) eqn:En.
    + eapply closes_go_faulty; [exact H|]. unfold cp14. cbn [port_with_state p_peer]. rewrite Ep. cbn [cur_id responder]. split; [exact Hcur|reflexivity].
    + unfold ret in H. inversion H; subst. apply closes_ret; [discriminate|]. unfold cp14. rewrite Ep. cbn.
      apply negb_false_iff, pi_eqb_eq in En. split; [exact Hcur|]. rewrite En. reflexivity.
Qed.

(** a Pdelay_Resp_Follow_Up, on either interface *)
Lemma fup_closes c n pp d m t3 requester ev s pp' d' oo :
  m_body m = BPDelayRespFollowUp t3 requester -> cp14 pp s -> p_identity pp = port_id c n ->
  wf_header (m_header m) -> wf_ts t3 ->
  handle_peer_delay_follow_up pp d (m_header m) t3 requester = Ok (pp', d', oo) ->
  closes pp pp' oo (conflict_of (rel_of c n ev s (Some m)) s)
         (s2_of (rel_of c n ev s (Some m)) (conflict_of (rel_of c n ev s (Some m)) s) ev s).
Proof.
  intros Eb Hc Hid Hwf Hw H.
  set (h := m_header m) in *.
  unfold conflict_of, s2_of, rel_of, relevant. red14 Eb.
  unfold handle_peer_delay_follow_up in H. cbv zeta in H. rewrite Hid, (pi_eqb_sym (port_id c n) requester) in H.
  destruct (pi_eqb requester (port_id c n)) eqn:Er; cbn [negb andb] in *;
    [|unfold ret in H; inversion H; subst; apply closes_ret; [discriminate|exact Hc]].
  fold h.
  set (rec := mkPF (h_source h) (wts t3 + h_correction h * 2 ^ 16)).
  unfold cp14 in Hc. destruct (p_peer pp) as [|id resp a b cc e|id r] eqn:Ep.
  - (* PDEmpty *)
    unfold ret in H. inversion H; subst.
    destruct Hc as [Hc|[Hf Hct]].
    + rewrite Hc. cbn [opt_z_eqb]. apply closes_ret; [discriminate|]. unfold cp14. rewrite Ep. left. exact Hc.
    + destruct (opt_z_eqb (Some (h_seq h)) (cur_id s)); [|apply closes_ret; [discriminate|unfold cp14; rewrite Ep; right; split; assumption]].
      red14 Eb.
      destruct (responder s) as [r|]; red14 Eb; [destruct (negb (pi_eqb (h_source h) r)); red14 Eb|];
        (apply closes_ret; [intros _; exact Hf|unfold cp14; rewrite Ep; right; split; [exact Hf|cbn [contested]; first [reflexivity|exact Hct]]]).
  - (* PDMeasuring *)
    destruct Hc as [Hm Hinc]. pose proof Hm as (Hcur & Hresp & Hcont & Ht1 & Hrc).
    replace (opt_z_eqb (Some (h_seq h)) (cur_id s)) with (id =? h_seq h) by (rewrite Hcur, opt_seq_eqb; apply Z.eqb_sym).
    destruct (id =? h_seq h) eqn:Eid; cbn [negb] in H;
      [|unfold ret in H; inversion H; subst; apply closes_ret; [discriminate|unfold cp14; rewrite Ep; split; assumption]].
    red14 Eb. rewrite Hresp. red14 Eb.
    assert (Hext : ext14 s (mkP14 (cur_id s) (t1s s) (resps s) (rec :: pfups s) (Some (h_source h)) (contested s))).
    { unfold ext14. cbn. repeat split; try apply incl_refl. apply incl_tl, incl_refl. }
    assert (Hproceed : (match resp with Some r => r = h_source h /\ resp_cpl r s b cc e | None => b = None /\ cc = None /\ e = None end) ->
              match cc with
              | Some _ => ret pp d []
              | None =>
                  let! t0 := time_of_wire t3 in
                  let! rs := time_add_dur t0 (ti_to_dur (h_correction h)) in
                  handle_time_measurement (port_with_peer pp (PDMeasuring id (Some (h_source h)) a b (Some rs) e)) d
              end = Ok (pp', d', oo) ->
              closes pp pp' oo false (mkP14 (cur_id s) (t1s s) (resps s) (rec :: pfups s) (Some (h_source h)) (contested s))).
    { intros Hr0 Hx. destruct cc as [c0|].
      - unfold ret in Hx. injection Hx as <- <- <-. apply closes_ret; [discriminate|]. unfold cp14. rewrite Ep. split; [|exact Hinc].
        destruct resp as [r0|]; [|destruct Hr0 as (_ & Hx0 & _); discriminate Hx0].
        destruct Hr0 as [-> _]. eapply meas_cpl_ext; [exact Hext|cbn; symmetry; exact Hresp|reflexivity|exact Hm].
      - destruct (time_of_wire t3) as [t0|?] eqn:Et0; cbn [obind] in Hx; [|discriminate].
        apply time_of_wire_val in Et0. subst t0.
        destruct (time_add_dur (OracleC09.wts t3) (ti_to_dur (h_correction h))) as [rs|?] eqn:Ers; cbn [obind] in Hx; [|discriminate].
        assert (Hex : exact_if (pf_t3c rec) rs).
        { destruct (wts_room t3 _ Hw (corr_bound h Hwf)) as [A B]. exact (time_add_dur_exact _ _ _ A B Ers). }
        assert (Hfu : fu_ok (h_source h) (mkP14 (cur_id s) (t1s s) (resps s) (rec :: pfups s) (Some (h_source h)) (contested s)) (Some rs)).
        { intros rs' Hrs'. inversion Hrs'; subst rs'. exists rec. split; [left; reflexivity|]. split; [reflexivity|exact Hex]. }
        match type of Hx with handle_time_measurement ?q _ = _ => eapply (measuring_closes pp q) end; [reflexivity|reflexivity| |exact Hx].
        unfold meas_cpl. cbn [cur_id responder contested t1s]. split; [exact Hcur|]. split; [reflexivity|]. split; [exact Hcont|].
        split; [exact Ht1|].
        destruct resp as [r0|].
        + destruct Hr0 as [-> [(Hb & He & _)|(x & rr0 & rv0 & Hb & He & Hin & Hsrc & Ht2 & Hx4 & Hs)]].
          * left. split; [exact Hb|]. split; [exact He|exact Hfu].
          * right. exists x, rr0, rv0. split; [exact Hb|]. split; [exact He|]. split; [exact Hin|]. split; [exact Hsrc|].
            split; [exact Ht2|]. split; [exact Hx4|]. left.
            destruct Hs as [[Htwo _]|[_ Hc0]]; [split; [exact Htwo|exact Hfu]|discriminate Hc0].
        + destruct Hr0 as (-> & _ & ->). left. split; [reflexivity|]. split; [reflexivity|exact Hfu]. }
    destruct resp as [r|]; red14 Eb.
    + rewrite (pi_eqb_sym (h_source h) r).
      destruct (negb (pi_eqb r (h_source h))) eqn:En.
      * eapply closes_go_faulty; [exact H|]. unfold cp14. cbn [port_with_state port_with_peer p_peer p_state is_faulty].
        right. split; reflexivity.
      * apply negb_false_iff, pi_eqb_eq in En. apply Hproceed; [split; [exact En|exact Hrc]|exact H].
    + apply Hproceed; [exact Hrc|exact H].
  - (* PDPost *)
    destruct Hc as [Hcur Hresp]. replace (opt_z_eqb (Some (h_seq h)) (cur_id s)) with (id =? h_seq h) by (rewrite Hcur, opt_seq_eqb; apply Z.eqb_sym).
    destruct (id =? h_seq h) eqn:Eid; cbn [andb] in H;
      [|unfold ret in H; inversion H; subst; apply closes_ret; [discriminate|unfold cp14; rewrite Ep; split; assumption]].
    red14 Eb. rewrite Hresp. red14 Eb. rewrite (pi_eqb_sym (h_source h) r).
    destruct (negb (pi_eqb r (h_source h))) eqn:En.
    + eapply closes_go_faulty; [exact H|]. unfold cp14. cbn [port_with_state p_peer]. rewrite Ep. cbn [cur_id responder]. split; [exact Hcur|reflexivity].
    + unfold ret in H. inversion H; subst. apply closes_ret; [discriminate|]. unfold cp14. rewrite Ep. cbn.
      apply negb_false_iff, pi_eqb_eq in En. split; [exact Hcur|]. rewrite En. reflexivity.
Qed.

Lemma cp14_ext p s s' : ext14 s s' -> responder s' = responder s -> contested s' = contested s ->
  cp14 p s -> cp14 p s'.
Proof.
  intros He Hr Hc. unfold cp14. destruct (p_peer p) as [|id resp a b cc e|id r].
  - destruct He as (E1 & _). rewrite E1, Hc. auto.
  - intros [Hm Hi]. split; [eapply meas_cpl_ext; eauto|exact Hi].
  - destruct He as (E1 & _). rewrite E1, Hr. auto.
Qed.

Lemma s1_ext e p s : ext14 s (s1_of e p s) /\ responder (s1_of e p s) = responder s /\ contested (s1_of e p s) = contested s.
Proof.
  assert (Hrefl : ext14 s s) by (unfold ext14; repeat split; apply incl_refl).
  unfold s1_of. destruct e; try (split; [exact Hrefl|split; reflexivity]).
  destruct ctx; try (split; [exact Hrefl|split; reflexivity]).
  destruct (_ && _); [|split; [exact Hrefl|split; reflexivity]].
  split; [|split; reflexivity]. unfold ext14. cbn. repeat split; try apply incl_refl. apply incl_tl, incl_refl.
Qed.

(** the transmit timestamp of a Pdelay_Req *)
Lemma pts_closes n pp d tid ts s pp' d' oo :
  cp14 pp s -> handle_pdelay_timestamp pp d tid ts = Ok (pp', d', oo) ->
  closes pp pp' oo false (s1_of (EvSendTimestamp n (CtxPDelayReq tid) ts) n s).
Proof.
  intros Hc H.
  destruct (s1_ext (EvSendTimestamp n (CtxPDelayReq tid) ts) n s) as (He & Hr & Hct).
  pose proof (cp14_ext pp s _ He Hr Hct Hc) as Hc1.
  unfold handle_pdelay_timestamp in H.
  destruct (p_peer pp) as [|id resp a b cc e|id r] eqn:Ep;
    try (unfold ret in H; inversion H; subst; apply closes_ret; [discriminate|exact Hc1]).
  destruct a as [a|]; [unfold ret in H; inversion H; subst; apply closes_ret; [discriminate|exact Hc1]|].
  destruct (id =? tid) eqn:Eid; [|unfold ret in H; inversion H; subst; apply closes_ret; [discriminate|exact Hc1]].
  apply Z.eqb_eq in Eid. subst tid.
  unfold cp14 in Hc. rewrite Ep in Hc. destruct Hc as [(Hcur & Hresp & Hcont & Ht1 & Hrc) Hinc].
  match type of H with handle_time_measurement ?q _ = _ => eapply (measuring_closes pp q) end; [reflexivity|reflexivity| |exact H].
  unfold s1_of. rewrite Nat.eqb_refl, Hcur, opt_seq_eqb, Z.eqb_refl. cbn [andb].
  unfold meas_cpl. cbn [cur_id responder contested t1s]. split; [reflexivity|]. split; [exact Hresp|]. split; [exact Hcont|].
  split; [intros t Ht; inversion Ht; left; reflexivity|].
  destruct resp as [r|]; [|exact Hrc].
  eapply resp_cpl_ext; [|exact Hrc]. unfold ext14. cbn [cur_id t1s resps pfups].
  split; [symmetry; exact Hcur|]. split; [apply incl_tl, incl_refl|split; apply incl_refl].
Qed.

(** * calls that leave the peer-delay exchange alone *)
Lemma cp14_inc p s : cp14 p s -> peer_incomplete (p_peer p).
Proof. unfold cp14. destruct (p_peer p); [intros _; exact I|intros [_ H]; exact H|intros _; exact I]. Qed.

Lemma neutral_set_slave p st st' : p_state p = PSlave st -> neutral p (set_slave p st') [].
Proof. intros E. unfold neutral. cbn. rewrite E. repeat split; auto. Qed.

Lemma neutral_slave_upd p st st' q' o : p_state p = PSlave st -> neutral (set_slave p st') q' o -> neutral p q' o.
Proof.
  intros E (A & B & D & F). unfold neutral. cbn in A, B. rewrite E. cbn. repeat split; auto.
Qed.

Ltac ntr_tac Hinc H :=
  crunch H;
  first [ apply neutral_refl
        | eapply neutral_set_slave; eassumption
        | match goal with Hx : handle_time_measurement (set_slave ?p ?st') ?dd = Ok _ |- _ =>
            eapply neutral_slave_upd; [eassumption|eapply htm_neutral; [exact Hinc|exact Hx]] end
        | (unfold neutral; cbn [port_with_seqs port_with_peer p_peer p_state]; repeat split; auto; fail) ].

Lemma handle_sync_neutral p d h w t p' d' o :
  peer_incomplete (p_peer p) -> handle_sync p d h w t = Ok (p', d', o) -> neutral p p' o.
Proof. intros Hinc H. unfold handle_sync in H. ntr_tac Hinc H. Qed.
Lemma handle_follow_up_neutral p d h w p' d' o :
  peer_incomplete (p_peer p) -> handle_follow_up p d h w = Ok (p', d', o) -> neutral p p' o.
Proof. intros Hinc H. unfold handle_follow_up in H. ntr_tac Hinc H. Qed.
Lemma handle_delay_resp_neutral p d h w r p' d' o :
  peer_incomplete (p_peer p) -> handle_delay_resp p d h w r = Ok (p', d', o) -> neutral p p' o.
Proof. intros Hinc H. unfold handle_delay_resp in H. ntr_tac Hinc H. Qed.
Lemma handle_delay_timestamp_neutral p d id t p' d' o :
  peer_incomplete (p_peer p) -> handle_delay_timestamp p d id t = Ok (p', d', o) -> neutral p p' o.
Proof. intros Hinc H. unfold handle_delay_timestamp in H. ntr_tac Hinc H. Qed.
Lemma handle_delay_req_neutral p d h ts p' d' o : handle_delay_req p d h ts = Ok (p', d', o) -> neutral p p' o.
Proof. intros H. unfold handle_delay_req in H. ntr_tac I H. Qed.
Lemma handle_pdelay_req_neutral p d h ts p' d' o : handle_pdelay_req p d h ts = Ok (p', d', o) -> neutral p p' o.
Proof. intros H. unfold handle_pdelay_req in H. ntr_tac I H. Qed.
Lemma handle_sync_timestamp_neutral p d id ts p' d' o : handle_sync_timestamp p d id ts = Ok (p', d', o) -> neutral p p' o.
Proof. intros H. unfold handle_sync_timestamp in H. ntr_tac I H. Qed.
Lemma handle_pdelay_response_timestamp_neutral p d id rq ts p' d' o :
  handle_pdelay_response_timestamp p d id rq ts = Ok (p', d', o) -> neutral p p' o.
Proof. intros H. unfold handle_pdelay_response_timestamp in H. ntr_tac I H. Qed.
Lemma send_sync_neutral p d p' d' o : send_sync p d = Ok (p', d', o) -> neutral p p' o.
Proof. intros H. unfold send_sync in H. ntr_tac I H. Qed.
Lemma filter_update_neutral p d p' d' o : handle_filter_update_timer p d = Ok (p', d', o) -> neutral p p' o.
Proof. intros H. unfold handle_filter_update_timer in H. ntr_tac I H. Qed.

From SV Require Import Port.LemmasC17.

Lemma peer_ms_app a b : peer_ms_of (a ++ b) = peer_ms_of a ++ peer_ms_of b.
Proof. unfold peer_ms_of. rewrite meas_of_app, filter_app. reflexivity. Qed.
Lemma new_req_app a b : new_req_of (a ++ b) = new_req_of a ++ new_req_of b.
Proof. unfold new_req_of. apply flat_map_app. Qed.
Lemma rd_quiet l : Forall is_rd l -> peer_ms_of l = [] /\ new_req_of l = [].
Proof.
  induction 1 as [|x l Hx _ [IH1 IH2]]; [split; reflexivity|]. unfold is_rd in Hx. subst x.
  split; [exact IH1|exact IH2].
Qed.

Lemma send_announce_neutral p d q p' d' o : send_announce p d q = Ok (p', d', o) -> neutral p p' o.
Proof.
  intros H. unfold send_announce in H.
  destruct (is_master (p_state p)); [|unfold ret in H; inversion H; subst; apply neutral_refl].
  match type of H with context [let '(a, b) := ?X in _] => destruct X as [pb m1] end.
  destruct (announce_tlv_loop _ _ _ _ _ _ _) as [[sfx locks]|?] eqn:El; cbn [obind] in H; [|discriminate].
  destruct (serialize_packet _); cbn [obind] in H; [|discriminate]. unfold ret in H. inversion H; subst.
  destruct (rd_quiet locks (tlv_loop_locks _ _ _ _ _ _ _ _ _ El (Forall_nil _))) as [Q1 Q2].
  unfold neutral. cbn [port_with_seqs p_peer p_state]. repeat split; auto.
  - change (peer_ms_of ([rd_lock; rd_lock] ++ locks ++ [AResetAnnounceTimer (interval_ns (pc_log_announce (p_config p))); ASendGeneral a false]) = []).
    rewrite !peer_ms_app, Q1. reflexivity.
  - change (new_req_of ([rd_lock; rd_lock] ++ locks ++ [AResetAnnounceTimer (interval_ns (pc_log_announce (p_config p))); ASendGeneral a false]) = []).
    rewrite !new_req_app, Q2. reflexivity.
Qed.

Lemma set_forced_quiet p st p1 o : set_forced p st = (p1, o) ->
  p1 = port_with_state p st /\ peer_ms_of o = [] /\ new_req_of o = [].
Proof. unfold set_forced. intros H. inversion H; subst. split; [reflexivity|]. destruct (_ || _); split; reflexivity. Qed.

Lemma peer_ms_lock l : peer_ms_of (rd_lock :: l) = peer_ms_of l.
Proof. reflexivity. Qed.
Lemma new_req_lock l : new_req_of (rd_lock :: l) = new_req_of l.
Proof. reflexivity. Qed.

Lemma receipt_timer_neutral p d p' d' o : handle_announce_receipt_timer p d = Ok (p', d', o) -> neutral p p' o.
Proof.
  intros H. unfold handle_announce_receipt_timer in H.
  crunch H;
    repeat match goal with E : (if ?c then _ else _) = (_, _) |- _ => destruct c eqn:?; [inversion E; subst; clear E|] end;
    repeat match goal with E : (if ?c then _ else _) = (_, _) |- _ => destruct c eqn:?; [|inversion E; subst; clear E] end;
    repeat match goal with E : draw _ = (_, _) |- _ => apply draw_fields in E; destruct E as (? & ? & ?) end;
    repeat match goal with E : set_forced _ _ = (_, _) |- _ => apply set_forced_quiet in E; destruct E as (-> & ? & ?) end;
    unfold neutral;
    repeat match goal with E : p_peer _ = _ |- _ => rewrite E end;
    repeat match goal with E : p_state _ = p_state _ |- _ => rewrite E end;
    cbn [port_with_state p_peer p_state is_faulty];
    repeat match goal with E : is_faulty _ = _ |- _ => rewrite E end;
    (split; [reflexivity|]); (split; [reflexivity|]);
    rewrite ?peer_ms_lock, ?new_req_lock, ?peer_ms_app, ?new_req_app;
    repeat match goal with E : peer_ms_of _ = [] |- _ => rewrite E end;
    repeat match goal with E : new_req_of _ = [] |- _ => rewrite E end; split; reflexivity.
Qed.

Lemma forward_obs_quiet sfx src : peer_ms_of (forward_obs sfx src) = [] /\ new_req_of (forward_obs sfx src) = [].
Proof.
  unfold peer_ms_of. rewrite (forward_obs_nomeas sfx src). split; [reflexivity|].
  unfold forward_obs. induction (filter _ _) as [|t l IH]; [reflexivity|exact IH].
Qed.

Lemma handle_announce_neutral p d ti m a p' d' o :
  handle_announce p d ti m a = Ok (p', d', o) -> neutral p p' o.
Proof.
  intros H. unfold handle_announce in H. cbv zeta in H.
  match type of H with obind ?X _ = _ => destruct X as [[[d1 lp] locks]|?] eqn:Er end; cbn [obind] in H; [|discriminate].
  assert (Hl : peer_ms_of locks = [] /\ new_req_of locks = []) by (crunch Er; split; reflexivity).
  destruct Hl as [L1 L2].
  destruct lp; [unfold ret in H; inversion H; subst; unfold neutral; repeat split; auto|].
  destruct (bmca_register _ _ _ _ _ _) as [acc fml]. destruct acc; [|unfold ret in H; inversion H; subst; unfold neutral; repeat split; auto].
  destruct (forward_obs_quiet (m_suffix m) (h_source (m_header m))) as [F1 F2].
  match type of H with context [if ?c then set_forced ?x ?y else ?z] => destruct c eqn:Ec end.
  - destruct (set_forced _ _) as [p2 o2] eqn:Es. apply set_forced_quiet in Es. destruct Es as (-> & O1 & O2).
    match type of H with context [draw ?x] => destruct (draw x) as [k p3] eqn:Ed end.
    apply draw_fields in Ed. destruct Ed as (E1 & E2 & E3).
    unfold ret in H. inversion H; subst. unfold neutral. rewrite E1, E2.
    apply andb_true_iff in Ec as [_ Ef]. apply negb_true_iff in Ef. cbn [port_with_fml p_state] in Ef.
    cbn [port_with_state port_with_multiport port_with_fml p_peer p_state is_faulty]. rewrite Ef.
    split; [reflexivity|]. split; [reflexivity|].
    change (AResetAnnounceReceiptTimer (announce_duration_ns (p_config p) k) :: forward_obs (m_suffix m) (h_source (m_header m)))
      with ([AResetAnnounceReceiptTimer (announce_duration_ns (p_config p) k)] ++ forward_obs (m_suffix m) (h_source (m_header m))).
    rewrite !peer_ms_app, !new_req_app, L1, L2, O1, O2, F1, F2. split; reflexivity.
  - match type of H with context [draw ?x] => destruct (draw x) as [k p3] eqn:Ed end.
    apply draw_fields in Ed. destruct Ed as (E1 & E2 & E3).
    unfold ret in H. inversion H; subst. unfold neutral. rewrite E1, E2.
    cbn [port_with_fml p_peer p_state]. split; [reflexivity|]. split; [reflexivity|].
    change (AResetAnnounceReceiptTimer (announce_duration_ns (p_config p) k) :: forward_obs (m_suffix m) (h_source (m_header m)))
      with ([AResetAnnounceReceiptTimer (announce_duration_ns (p_config p) k)] ++ forward_obs (m_suffix m) (h_source (m_header m))).
    rewrite !peer_ms_app, !new_req_app, L1, L2, F1, F2. split; reflexivity.
Qed.

Lemma send_delay_request_closes pp d s pp' d' oo :
  cp14 pp s -> send_delay_request pp d = Ok (pp', d', oo) -> closes pp pp' oo false s.
Proof.
  intros Hc H. unfold send_delay_request in H.
  crunch H; try (apply closes_ret; [discriminate|exact Hc]);
    repeat match goal with E : draw _ = (_, _) |- _ => apply draw_fields in E; destruct E as (? & ? & ?) end.
  - (* E2E, slave: a Delay_Req, not a Pdelay_Req *)
    apply closes_neutral; [|exact Hc]. unfold neutral.
    repeat match goal with E : p_peer _ = _ |- _ => rewrite E end;
    repeat match goal with E : p_state _ = p_state _ |- _ => rewrite E end.
    cbn [set_slave port_with_state port_with_seqs p_peer p_state is_faulty].
    match goal with E : p_state pp = PSlave _ |- _ => rewrite E end. repeat split; reflexivity.
  - (* P2P: a new exchange *)
    unfold closes. cbn [peer_ms_of meas_of flat_map filter exact_of forallb]. split; [reflexivity|].
    split; [discriminate|]. split; [reflexivity|].
    match goal with E : p_state _ = p_state _ |- _ => rewrite E end. cbn [port_with_peer port_with_seqs p_state].
    split; [intros Hx1 Hx2; rewrite Hx1 in Hx2; discriminate|]. split; [intros Hx1 Hx2; rewrite Hx1 in Hx2; discriminate|].
    unfold cp14. match goal with E : p_peer _ = _ |- _ => rewrite E end.
    cbn [port_with_peer p_peer final_of new_req_of flat_map app].
    split; [|exact I]. unfold meas_cpl. cbn. repeat split; auto. intros t Ht. discriminate Ht.
Qed.

(** * dispatch *)
Lemma closes_prepend pp pp' o cf s2 : closes pp pp' o cf s2 -> closes pp pp' ([rd_lock] ++ o) cf s2.
Proof. unfold closes. cbn [app]. rewrite peer_ms_lock. unfold final_of. rewrite new_req_lock. auto. Qed.

Lemma closes_quiet pp o s : cp14 pp s -> peer_ms_of o = [] -> new_req_of o = [] -> closes pp pp o false s.
Proof. intros Hc H1 H2. apply closes_neutral; [|exact Hc]. repeat split; auto. Qed.

Lemma accept14_parse prev d frame : sn_ds prev = d ->
  parse_and_filter d frame =
  match accept14 prev frame with
  | Some m => (Some m, [rd_lock])
  | None => (None, snd (parse_and_filter d frame))
  end /\ (accept14 prev frame = None -> fst (parse_and_filter d frame) = None).
Proof.
  intros <-. unfold parse_and_filter, accept14, decoded.
  destruct (is_compatible frame); cbn [negb]; [|split; [reflexivity|reflexivity]].
  destruct (decode frame) as [m|?]; [|split; reflexivity].
  rewrite (andb_comm (h_domain (m_header m) =? _)).
  destruct (_ && _); split; try reflexivity; intros Hx; discriminate Hx.
Qed.

Lemma general_closes c n pp d ti m ev s pp' d' oo :
  cp14 pp s -> p_identity pp = port_id c n -> wf_header (m_header m) -> wf_body (m_body m) ->
  (forall t r, m_body m = BPDelayResp t r -> is_ev ev = false) ->
  handle_general_internal pp d ti m = Ok (pp', d', oo) ->
  closes pp pp' oo (conflict_of (rel_of c n ev s (Some m)) s)
         (s2_of (rel_of c n ev s (Some m)) (conflict_of (rel_of c n ev s (Some m)) s) ev s).
Proof.
  intros Hc Hid Hh Hb Hev H. pose proof (cp14_inc pp s Hc) as Hinc.
  unfold handle_general_internal in H.
  destruct (m_body m) eqn:Eb; cbn [wf_body] in Hb;
    try (eapply fup_closes; eauto; apply Hb);
    try (assert (Hrel : rel_of c n ev s (Some m) = None) by (unfold rel_of, relevant; rewrite Eb; reflexivity);
         rewrite Hrel; cbn [conflict_of s2_of]; apply closes_neutral; [|exact Hc]).
  - unfold ret in H. inversion H; subst. apply neutral_refl.
  - unfold ret in H. inversion H; subst. apply neutral_refl.
  - unfold ret in H. inversion H; subst. apply neutral_refl.
  - (* a Pdelay_Resp on the general interface is not processed *)
    assert (Hrel : rel_of c n ev s (Some m) = None).
    { unfold rel_of, relevant. rewrite Eb. rewrite (Hev _ _ eq_refl). destruct (_ && _); reflexivity. }
    rewrite Hrel. cbn [conflict_of s2_of]. unfold ret in H. inversion H; subst. apply closes_ret; [discriminate|exact Hc].
  - eapply handle_follow_up_neutral; eauto.
  - eapply handle_delay_resp_neutral; eauto.
  - eapply handle_announce_neutral; eauto.
  - unfold ret in H. inversion H; subst. apply neutral_refl.
  - unfold ret in H. inversion H; subst. apply neutral_refl.
Qed.

Definition closes_ev (c : pcase) (prev : snapshot) (n : nat) (e : event) (s : pstate14) (pp pp' : port) (oo : list obs) : Prop :=
  closes pp pp' oo
    (conflict_of (rel_of c n e (s1_of e n s) (incoming_of prev e n)) (s1_of e n s))
    (s2_of (rel_of c n e (s1_of e n s) (incoming_of prev e n))
           (conflict_of (rel_of c n e (s1_of e n s) (incoming_of prev e n)) (s1_of e n s)) e (s1_of e n s)).

Lemma parse_quiet d frame : peer_ms_of (snd (parse_and_filter d frame)) = [] /\ new_req_of (snd (parse_and_filter d frame)) = [].
Proof.
  unfold parse_and_filter. destruct (negb _); [split; reflexivity|]. destruct (decode frame); [|split; reflexivity].
  destruct (_ && _); split; reflexivity.
Qed.

Lemma receive_general_closes c n pp d ti frame s prev pp' d' oo :
  cp14 pp s -> p_identity pp = port_id c n -> bok frame -> sn_ds prev = d ->
  handle_general_receive pp d ti frame = Ok (pp', d', oo) ->
  closes_ev c prev n (EvRecvGeneral n frame) s pp pp' oo.
Proof.
  intros Hc Hid Hbok Hprev H. unfold closes_ev. cbn [s1_of incoming_of]. rewrite Nat.eqb_refl.
  unfold handle_general_receive in H. destruct (accept14_parse prev d frame Hprev) as [Hp Hn].
  destruct (accept14 prev frame) as [m|] eqn:Ea.
  - rewrite Hp in H. unfold prepend in H.
    destruct (handle_general_internal pp d ti m) as [[[p1 d1] o2]|?] eqn:E; cbn [obind] in H; [|discriminate].
    inversion H; subst. apply closes_prepend.
    assert (Hd : decode frame = ROk m).
    { unfold accept14, decoded in Ea. destruct (is_compatible frame); [|discriminate]. destruct (decode frame) as [m0|?]; [|discriminate].
      destruct (_ && _); inversion Ea. reflexivity. }
    destruct (decoded_wf frame m Hbok Hd) as (Hh & Hb & _).
    eapply general_closes; eauto.
  - specialize (Hn eq_refl). destruct (parse_and_filter d frame) as [om o1] eqn:Epf. cbn [fst] in Hn. subst om.
    unfold ret in H. inversion H; subst. cbn [rel_of conflict_of s2_of].
    pose proof (parse_quiet (sn_ds prev) frame) as [Q1 Q2]. rewrite Epf in Q1, Q2. cbn [snd] in Q1, Q2.
    apply closes_quiet; assumption.
Qed.

Lemma receive_event_closes c n pp d ti frame ts s prev pp' d' oo :
  cp14 pp s -> p_identity pp = port_id c n -> bok frame -> ts_valid ts -> sn_ds prev = d ->
  handle_event_receive pp d ti frame ts = Ok (pp', d', oo) ->
  closes_ev c prev n (EvRecvEvent n frame ts) s pp pp' oo.
Proof.
  intros Hc Hid Hbok Hts Hprev H. unfold closes_ev. cbn [s1_of incoming_of]. rewrite Nat.eqb_refl.
  pose proof (cp14_inc pp s Hc) as Hinc.
  unfold handle_event_receive in H. destruct (accept14_parse prev d frame Hprev) as [Hp Hn].
  destruct (accept14 prev frame) as [m|] eqn:Ea.
  - rewrite Hp in H. unfold prepend in H.
    match type of H with obind ?X _ = _ => destruct X as [[[p1 d1] o2]|?] eqn:E end; cbn [obind] in H; [|discriminate].
    inversion H; subst. apply closes_prepend.
    assert (Hd : decode frame = ROk m).
    { unfold accept14, decoded in Ea. destruct (is_compatible frame); [|discriminate]. destruct (decode frame) as [m0|?]; [|discriminate].
      destruct (_ && _); inversion Ea. reflexivity. }
    destruct (decoded_wf frame m Hbok Hd) as (Hh & Hb & _).
    pose proof (fun Hev => general_closes c n pp (sn_ds prev) ti m (EvRecvEvent n frame ts) s pp' d' o2 Hc Hid Hh Hb Hev) as Hgen.
    destruct (m_body m) eqn:Eb;
      try (apply Hgen; [intros t0 r0 Hx; discriminate Hx|exact E]);
      try (assert (Hrel : rel_of c n (EvRecvEvent n frame ts) s (Some m) = None) by (unfold rel_of, relevant; rewrite Eb; reflexivity);
           rewrite Hrel; cbn [conflict_of s2_of]; apply closes_neutral; [|exact Hc]).
    + eapply handle_sync_neutral; eauto.
    + eapply handle_delay_req_neutral; eauto.
    + eapply handle_pdelay_req_neutral; eauto.
    + cbn [wf_body] in Hb. eapply resp_closes; eauto. apply Hb.
  - specialize (Hn eq_refl). destruct (parse_and_filter d frame) as [om o1] eqn:Epf. cbn [fst] in Hn. subst om.
    unfold ret in H. inversion H; subst. cbn [rel_of conflict_of s2_of].
    pose proof (parse_quiet (sn_ds prev) frame) as [Q1 Q2]. rewrite Epf in Q1, Q2. cbn [snd] in Q1, Q2.
    apply closes_quiet; assumption.
Qed.

Lemma send_timestamp_closes c n pp d ctx ts s prev pp' d' oo :
  cp14 pp s -> handle_send_timestamp pp d ctx ts = Ok (pp', d', oo) ->
  closes_ev c prev n (EvSendTimestamp n ctx ts) s pp pp' oo.
Proof.
  intros Hc H. unfold closes_ev. cbn [incoming_of rel_of conflict_of s2_of].
  pose proof (cp14_inc pp s Hc) as Hinc. unfold handle_send_timestamp in H.
  destruct ctx; try (cbn [s1_of]; apply closes_neutral; [|exact Hc]).
  - eapply handle_sync_timestamp_neutral; eauto.
  - eapply handle_delay_timestamp_neutral; eauto.
  - eapply pts_closes; eauto.
  - eapply handle_pdelay_response_timestamp_neutral; eauto.
Qed.

(** every call addressed to port [n] *)
Lemma port_call_closes c i n e pp s i' o :
  event_port e = Some n -> nth_error (i_ports i) n = Some pp ->
  cp14 pp s -> p_identity pp = port_id c n -> event_valid e -> step i e = Ok (i', o) ->
  exists pp' oo, i_ports i' = update_nth n pp' (i_ports i) /\ o = tag n oo /\
    closes_ev c (snapshot_of i) n e s pp pp' oo.
Proof.
  intros Hev Hn Hc Hid He Hs.
  assert (Hon : forall f, on_port i n f = Ok (i', o) ->
            exists pp' d' oo, f pp (i_ds i) = Ok (pp', d', oo) /\ i_ports i' = update_nth n pp' (i_ports i) /\ o = tag n oo).
  { intros f H. unfold on_port in H. rewrite Hn in H.
    destruct (f pp (i_ds i)) as [[[pp' d'] oo]|?]; cbn [obind] in H; [|discriminate].
    inversion H; subst. exists pp', d', oo. repeat split. }
  assert (Hnone : forall e0 pp' oo, incoming_of (snapshot_of i) e0 n = None -> s1_of e0 n s = s ->
            neutral pp pp' oo -> closes_ev c (snapshot_of i) n e0 s pp pp' oo).
  { intros e0 pp' oo Hin Hs1 Hne. unfold closes_ev. rewrite Hin, Hs1. cbn [rel_of conflict_of s2_of].
    apply closes_neutral; assumption. }
  destruct e; cbn [event_port] in Hev; try discriminate Hev; inversion Hev; subst; cbn [step event_valid] in *;
    destruct (Hon _ Hs) as (pp' & d' & oo & Hh & Hports & Ho); exists pp', oo; (split; [exact Hports|]); (split; [exact Ho|]).
  - destruct He as [Hb Ht]. eapply receive_event_closes; eauto.
  - eapply receive_general_closes; eauto.
  - eapply send_timestamp_closes; eauto.
  - apply Hnone; [reflexivity|reflexivity|]. eapply send_announce_neutral; eauto.
  - apply Hnone; [reflexivity|reflexivity|]. eapply send_sync_neutral; eauto.
  - unfold closes_ev. cbn [incoming_of s1_of rel_of conflict_of s2_of]. eapply send_delay_request_closes; eauto.
  - apply Hnone; [reflexivity|reflexivity|]. eapply receipt_timer_neutral; eauto.
  - apply Hnone; [reflexivity|reflexivity|]. eapply filter_update_neutral; eauto.
Qed.

(** * BMCA keeps the peer-delay exchange and the faulty state *)
Definition bmf (p p' : port) : Prop := p_peer p' = p_peer p /\ is_faulty (p_state p') = is_faulty (p_state p).

Lemma srpt_bmf b rs dd b1 : set_recommended_port_state b rs dd = Ok b1 -> bmf (bp_port b) (bp_port b1).
Proof.
  intros H. unfold set_recommended_port_state, set_forced in H.
  destruct rs as [d0|d0|h a|h a|h a|h a];
    crunch H; cbn [bp_port];
    repeat match goal with E : draw _ = (_, _) |- _ => apply draw_fields in E; destruct E as (? & ? & ?) end;
    unfold bmf;
    repeat match goal with E : p_peer _ = _ |- _ => rewrite E end;
    repeat match goal with E : p_state _ = p_state _ |- _ => rewrite E end;
    cbn [port_with_state p_peer p_state is_faulty];
    (split; [reflexivity|]); try reflexivity;
    repeat match goal with E : p_state _ = _ |- _ => rewrite E in * end; try reflexivity; try discriminate;
    try (match goal with E : _ || is_faulty ?s = false |- _ => apply orb_false_iff in E; destruct E as [_ E]; rewrite E; reflexivity end);
    try (destruct (p_state (bp_port b)); try reflexivity; discriminate).
Qed.

Lemma srs_bmf b rs d b' d' : set_recommended_state b rs d = Ok (b', d') -> bmf (bp_port b) (bp_port b').
Proof.
  unfold set_recommended_state. intros H.
  destruct (set_recommended_port_state b rs (ds_default d)) as [b1|?] eqn:E1; cbn [obind] in H; [|discriminate].
  pose proof (srpt_bmf _ _ _ _ E1) as H1.
  destruct rs; crunch H; cbn [bp_port]; exact H1.
Qed.

Lemma bmca_decide_bmf ebest : forall todo done d done' d',
  bmca_decide ebest d todo done = Ok (done', d') ->
  exists tail, done' = done ++ tail /\ Forall2 (fun b b' => bmf (bp_port b) (bp_port b')) todo tail.
Proof.
  induction todo as [|b todo IH]; intros done d done' d' H; cbn [bmca_decide] in H.
  - inversion H; subst. exists []. rewrite app_nil_r. split; [reflexivity|constructor].
  - destruct (recommended_state _ _ _ _) as [r|?]; cbn [obind] in H; [|discriminate].
    destruct r as [rs|].
    + destruct (set_recommended_state b rs d) as [[b' d1]|?] eqn:E; cbn [obind fst snd] in H; [|discriminate].
      destruct (IH _ _ _ _ H) as (tail & -> & Ht). exists (b' :: tail). rewrite <- app_assoc. split; [reflexivity|].
      constructor; [eapply srs_bmf; exact E|exact Ht].
    + destruct (IH _ _ _ _ H) as (tail & -> & Ht). exists (b :: tail). rewrite <- app_assoc. split; [reflexivity|].
      constructor; [split; reflexivity|exact Ht].
Qed.

Lemma bmca_bmf i i' o : bmca i = Ok (i', o) -> Forall2 bmf (i_ports i) (i_ports i').
Proof.
  unfold bmca. intros H.
  destruct (bmca_interval_dur _) as [step|?]; cbn [obind] in H; [|discriminate].
  destruct (negb _); [discriminate|].
  destruct (omap_list calc_local_best (i_ports i)) as [bps|?] eqn:E1; cbn [obind] in H; [|discriminate].
  destruct (find_best _) as [ebest|?]; cbn [obind] in H; [|discriminate].
  destruct (bmca_decide ebest (i_ds i) bps []) as [[bps1 d1]|?] eqn:E2; cbn [obind] in H; [|discriminate].
  destruct (omap_list _ bps1) as [ports|?] eqn:E3; cbn [obind] in H; [|discriminate].
  inversion H; subst. cbn [i_ports].
  pose proof (omap_list_rel _ (fun p b => same3 p (bp_port b)) calc_local_best_same3 _ _ E1) as R1.
  destruct (bmca_decide_bmf _ _ _ _ _ _ E2) as (tail & Ht & R2). cbn [app] in Ht. subst tail.
  pose proof (omap_list_rel _ (fun b p' => same3 (bp_port b) p')
                (fun b p' Hx => step_announce_age_same3 _ _ _ Hx) _ _ E3) as R3.
  clear - R1 R2 R3. revert bps1 ports R2 R3. induction R1 as [|p b lp lb Hpb _ IH]; intros bps1 ports R2 R3.
  - inversion R2; subst. inversion R3; subst. constructor.
  - inversion R2 as [|? b1 ? lb1 Hb1 R2']; subst. inversion R3 as [|? p' ? lp' Hp' R3']; subst.
    constructor; [|eapply IH; eassumption].
    destruct Hpb as (A1 & A2 & A3). destruct Hb1 as (B1 & B2). destruct Hp' as (C1 & C2 & C3).
    unfold bmf. rewrite C3, B1, A3, C1, B2, A1. split; reflexivity.
Qed.

(** * one step of the oracle *)
Lemma code_faulty s : (port_state_code s =? 2) = is_faulty s.
Proof. destruct s; reflexivity. Qed.
Lemma code_listening s : (port_state_code s =? 4) = is_listening s.
Proof. destruct s; reflexivity. Qed.

Lemma peer_ms_nolock l : peer_ms_of (filter (fun y => negb (MainC08Role.is_lock y)) l) = peer_ms_of l.
Proof. unfold peer_ms_of. rewrite meas_of_nolock. reflexivity. Qed.
Lemma new_req_nolock l : new_req_of (filter (fun y => negb (MainC08Role.is_lock y)) l) = new_req_of l.
Proof.
  unfold new_req_of. induction l as [|y l IH]; [reflexivity|]. cbn [filter flat_map].
  destruct y; cbn [MainC08Role.is_lock negb flat_map]; rewrite ?IH; reflexivity.
Qed.

Lemma closes_obs pp pp' o1 o2 cf s2 : peer_ms_of o2 = peer_ms_of o1 -> new_req_of o2 = new_req_of o1 ->
  closes pp pp' o1 cf s2 -> closes pp pp' o2 cf s2.
Proof. unfold closes, final_of. intros -> ->. auto. Qed.

Lemma closes_step c i i' e p pp pp' op s0 :
  nth_error (i_ports i) p = Some pp -> nth_error (i_ports i') p = Some pp' ->
  closes_ev c (snapshot_of i) p e s0 pp pp' op ->
  inert_of (snapshot_of i) p op = true ->
  exists s', step_port14 c (snapshot_of i) e p op (snapshot_of i') s0 = Some s' /\ cp14 pp' s'.
Proof.
  intros Hn Hn' Hcl Hin. rewrite step_port14_eq. cbv zeta. unfold closes_ev in Hcl.
  set (s1 := s1_of e p s0) in *.
  set (rel := rel_of c p e s1 (incoming_of (snapshot_of i) e p)) in *.
  set (cf := conflict_of rel s1) in *.
  set (s2 := s2_of rel cf e s1) in *.
  destruct Hcl as (H1 & H2 & H3 & H4 & H5 & H6).
  rewrite H1, Hin.
  assert (Hmulti : multi_of cf (snapshot_of i') p s2 (peer_ms_of op) = true).
  { unfold multi_of. rewrite (MainC09.state_of_snapshot i' p pp' Hn'), code_faulty. apply andb_true_iff. split.
    - destruct cf; [|reflexivity]. destruct (H2 eq_refl) as [A B]. rewrite A, B. reflexivity.
    - destruct (contested s2); [|reflexivity]. rewrite (H3 eq_refl). reflexivity. }
  assert (Hleave : leave_of (snapshot_of i) (snapshot_of i') p (peer_ms_of op) cf = true).
  { unfold leave_of. rewrite (MainC09.state_of_snapshot i p pp Hn), (MainC09.state_of_snapshot i' p pp' Hn'), !code_faulty, code_listening.
    destruct (is_faulty (p_state pp)) eqn:E1; [|reflexivity]. destruct (is_faulty (p_state pp')) eqn:E2; [reflexivity|].
    cbn [negb andb]. destruct (H4 eq_refl eq_refl) as (A & B & C). rewrite A, C. cbn [is_listening negb andb].
    destruct (peer_ms_of op); [contradiction B; reflexivity|reflexivity]. }
  assert (Henter : enter_of (snapshot_of i) (snapshot_of i') p cf = true).
  { unfold enter_of. rewrite (MainC09.state_of_snapshot i p pp Hn), (MainC09.state_of_snapshot i' p pp' Hn'), !code_faulty.
    destruct (is_faulty (p_state pp)) eqn:E1; [reflexivity|]. destruct (is_faulty (p_state pp')) eqn:E2; [|reflexivity].
    cbn [negb andb]. exact (H5 eq_refl eq_refl). }
  rewrite Hmulti, Hleave, Henter. cbn [andb]. eexists. split; [reflexivity|exact H6].
Qed.

Lemma closes_idle c prev n e s pp : cp14 pp s -> incoming_of prev e n = None -> s1_of e n s = s ->
  closes_ev c prev n e s pp pp [].
Proof.
  intros Hc Hin Hs1. unfold closes_ev. rewrite Hin, Hs1. cbn [rel_of conflict_of s2_of].
  apply closes_ret; [discriminate|exact Hc].
Qed.

Lemma idle_other e n p prev s : event_port e = Some n -> n <> p -> incoming_of prev e p = None /\ s1_of e p s = s.
Proof.
  intros He Hne. assert (Hb : Nat.eqb p n = false) by (apply Nat.eqb_neq; auto).
  destruct e; cbn [event_port] in He; inversion He; subst; cbn [incoming_of s1_of]; rewrite ?Hb; try (split; reflexivity).
  destruct ctx; rewrite ?Hb; split; reflexivity.
Qed.

Lemma no_frames_no_req l : sent_frames l = [] -> new_req_of l = [].
Proof.
  unfold sent_frames, new_req_of. induction l as [|y l IH]; [reflexivity|]. cbn [flat_map].
  destruct y; cbn [app]; intros H; try discriminate H; apply IH; exact H.
Qed.

Lemma port_C14 c i e i' o p pp s0 :
  reach_inv c i -> event_valid e -> step i e = Ok (i', o) ->
  nth_error (i_ports i) p = Some pp -> cp14 pp s0 ->
  exists pp' s', nth_error (i_ports i') p = Some pp' /\
    step_port14 c (snapshot_of i) e p (obs_of_port o p) (snapshot_of i') s0 = Some s' /\ cp14 pp' s'.
Proof.
  intros Hr He Hs Hn Hc.
  destruct Hr as [Hi Hclk Hsp Hacc Hcf].
  assert (Hlen : (p < length (i_ports i))%nat) by (apply nth_error_Some; rewrite Hn; discriminate).
  assert (Hid : p_identity pp = port_id c p).
  { destruct Hi as (_ & _ & Hids & _). rewrite (Hids p pp Hn). unfold port_id. rewrite <- Hclk. reflexivity. }
  pose proof (inert_from_role _ _ p _ (step_role i e i' o Hi He Hs p)) as Hinert.
  assert (Hfin : forall pp' op, nth_error (i_ports i') p = Some pp' ->
            peer_ms_of (obs_of_port o p) = peer_ms_of op -> new_req_of (obs_of_port o p) = new_req_of op ->
            closes_ev c (snapshot_of i) p e s0 pp pp' op ->
            exists pp'0 s', nth_error (i_ports i') p = Some pp'0 /\
              step_port14 c (snapshot_of i) e p (obs_of_port o p) (snapshot_of i') s0 = Some s' /\ cp14 pp'0 s').
  { intros pp' op Hn' Q1 Q2 Hcl. exists pp'.
    destruct (closes_step c i i' e p pp pp' (obs_of_port o p) s0 Hn Hn') as (s' & A & B).
    - unfold closes_ev in *. eapply closes_obs; [exact Q1|exact Q2|exact Hcl].
    - exact Hinert.
    - exists s'. split; [exact Hn'|split; assumption]. }
  destruct (event_port e) as [n|] eqn:Eev.
  - destruct (Nat.eq_dec n p) as [->|Hne].
    + destruct (port_call_closes c i p e pp s0 i' o Eev Hn Hc Hid He Hs) as (pp' & oo & Hports & Ho & Hcl).
      apply (Hfin pp' oo); [rewrite Hports; apply nth_error_update_same; exact Hlen| | |exact Hcl].
      * rewrite Ho, obs_of_port_tag_same. apply peer_ms_nolock.
      * rewrite Ho, obs_of_port_tag_same. apply new_req_nolock.
    + assert (Hon : forall f, on_port i n f = Ok (i', o) -> obs_of_port o p = [] /\ nth_error (i_ports i') p = Some pp).
      { intros f H. unfold on_port in H. destruct (nth_error (i_ports i) n) as [q|]; [|inversion H; subst; split; [reflexivity|exact Hn]].
        destruct (f q (i_ds i)) as [[[q' d'] oo]|?]; cbn [obind] in H; [|discriminate]. inversion H; subst. cbn [i_ports].
        split; [apply obs_of_port_tag_other; auto|]. rewrite nth_error_update_other; [exact Hn|exact Hne]. }
      assert (Hx : obs_of_port o p = [] /\ nth_error (i_ports i') p = Some pp).
      { destruct e; cbn [event_port] in Eev; try discriminate Eev; inversion Eev; subst; cbn [step] in Hs; eapply Hon; exact Hs. }
      destruct Hx as [H2 H3]. destruct (idle_other e n p (snapshot_of i) s0 Eev Hne) as [I1 I2].
      apply (Hfin pp []); [exact H3|rewrite H2; reflexivity|rewrite H2; reflexivity|apply closes_idle; assumption].
  - assert (Hidle : incoming_of (snapshot_of i) e p = None /\ s1_of e p s0 = s0).
    { destruct e; cbn [event_port] in Eev; try discriminate Eev; split; reflexivity. }
    destruct Hidle as [I1 I2].
    destruct e; cbn [event_port] in Eev; try discriminate Eev; cbn [step] in Hs.
    + (* BMCA *)
      destruct (Forall2_nth _ _ _ (bmca_bmf i i' o Hs) p pp Hn) as (pp' & Hn' & Hp & Hf).
      assert (Hq : peer_ms_of (obs_of_port o p) = [] /\ new_req_of (obs_of_port o p) = []).
      { split.
        - unfold peer_ms_of. rewrite (bmca_no_meas i i' o Hi Hs p). reflexivity.
        - apply no_frames_no_req. exact (bmca_no_frames i i' o Hi Hs p). }
      destruct Hq as [Q1 Q2].
      apply (Hfin pp' []); [exact Hn'|rewrite Q1; reflexivity|rewrite Q2; reflexivity|].
      unfold closes_ev. rewrite I1, I2. cbn [rel_of conflict_of s2_of].
      apply closes_neutral; [|exact Hc]. repeat split; auto.
    + inversion Hs; subst. apply (Hfin pp []); [exact Hn| | |apply closes_idle; assumption];
        unfold obs_of_port; cbn [filter fst]; destruct (-1 =? Z.of_nat p) eqn:E; try lia; reflexivity.
    + inversion Hs; subst. apply (Hfin pp []); [exact Hn| | |apply closes_idle; assumption];
        unfold obs_of_port; cbn [filter fst]; destruct (-1 =? Z.of_nat p) eqn:E; try lia; reflexivity.
    + inversion Hs; subst. apply (Hfin pp []); [exact Hn|reflexivity|reflexivity|apply closes_idle; assumption].
Qed.

(** * the fold over the ports and the walk over the history *)
Definition cp14_all (i : instance) (st : list pstate14) : Prop :=
  forall n pp, nth_error (i_ports i) n = Some pp -> cp14 pp (nth n st p14_empty).

Lemma step_C14_model c i st e i' o :
  reach_inv c i -> cp14_all i st -> event_valid e -> step i e = Ok (i', o) ->
  exists st', step_C14 c st (snapshot_of i) e o (snapshot_of i') = Some st' /\ cp14_all i' st'.
Proof.
  intros Hr Hall He Hs.
  pose proof (reach_step c i e i' o Hr He Hs) as Hr'.
  unfold step_C14.
  match goal with |- exists st', fold_left ?g _ _ = _ /\ _ =>
    destruct (fold_opt g (fun p x => forall pp', nth_error (i_ports i') p = Some pp' -> cp14 pp' x) (all_ports c) [])
      as (xs & Hf & HQ) end.
  - intros p Hp. unfold all_ports in Hp. apply in_seq in Hp. rewrite <- (ports_len c i Hr) in Hp.
    destruct (nth_error (i_ports i) p) as [pp|] eqn:Hn; [|apply nth_error_None in Hn; lia].
    destruct (port_C14 c i e i' o p pp (nth p st p14_empty) Hr He Hs Hn (Hall p pp Hn)) as (pp' & s' & Hn' & Hst & Hc).
    exists s'. split.
    + intros pp2 Hn2. rewrite Hn' in Hn2. inversion Hn2; subst. exact Hc.
    + intros dn. rewrite Hst. reflexivity.
  - cbn [app] in Hf. exists xs. split; [exact Hf|].
    intros n pp' Hn'.
    assert (Hlt : (n < nports c)%nat).
    { rewrite <- (ports_len c i' Hr'). apply nth_error_Some. rewrite Hn'. discriminate. }
    assert (Hseq : nth_error (all_ports c) n = Some n).
    { unfold all_ports. rewrite nth_error_nth' with (d := O) by (rewrite seq_length; exact Hlt). rewrite seq_nth by exact Hlt. reflexivity. }
    destruct (Forall2_nth _ _ _ HQ n n Hseq) as (y & Hy & Hq).
    rewrite (nth_error_nth _ _ _ Hy). apply Hq. exact Hn'.
Qed.

Lemma walk_C14_model c es : forall i st,
  reach_inv c i -> cp14_all i st -> Forall event_valid es ->
  walk (step_C14 c) st (snapshot_of i) es (run i es) = true.
Proof.
  induction es as [|e es IH]; intros i st Hr Hall Hes; cbn [run walk]; [reflexivity|].
  inversion Hes as [|? ? He Hes']; subst.
  destruct (step_ok i e (ri_inv _ _ Hr) He) as (i1 & o1 & Hs & _). rewrite Hs. cbn [walk].
  destruct (step_C14_model c i st e i1 o1 Hr Hall He Hs) as (st' & Hst & Hall'). rewrite Hst.
  apply IH; [eapply reach_step; eauto|exact Hall'|exact Hes'].
Qed.

Lemma add_ports_cp14 ps : forall i acc i' o,
  Forall (fun p => cp14 p p14_empty) (i_ports i) -> add_ports i ps acc = Ok (i', o) ->
  Forall (fun p => cp14 p p14_empty) (i_ports i').
Proof.
  induction ps as [|[c r] ps IH]; intros i acc i' o Hn H; cbn [add_ports] in H.
  - inversion H; subst. exact Hn.
  - destruct (add_port i c r) as [[i1 o1]|?] eqn:E; cbn [obind fst snd] in H; [|discriminate].
    eapply IH; [|exact H]. unfold add_port in E. destruct (chk_u _ _ _); cbn [obind] in E; [|discriminate].
    match type of E with context [draw ?x] => destruct (draw x) as [k p1] eqn:Ed end.
    destruct (announce_interval_ti _); cbn [obind] in E; [|discriminate]. inversion E; subst. cbn [i_ports].
    apply Forall_app. split; [exact Hn|]. constructor; [|constructor].
    apply draw_fields in Ed. destruct Ed as (E1 & E2 & E3). cbn [p_state p_peer p_mean_delay] in *.
    unfold cp14. rewrite E2. left. reflexivity.
Qed.

(** the complete C14 oracle accepts the model's own trace, for every valid
    set-up and every valid event list *)
Theorem ok_C14_model s es rel :
  setup_valid s -> Forall event_valid es ->
  exists i o, init s = Ok (i, o) /\ ok_C14 (mkCase s es rel (Some o) (run i es)) = true.
Proof.
  intros Hs Hes. destruct (init_ok s Hs) as (i & o & Hi & _). exists i, o. split; [exact Hi|].
  unfold ok_C14. cbn [pc_events pc_trace]. unfold init_snap. cbn [pc_setup]. rewrite Hi.
  apply walk_C14_model; [apply reach_init; assumption| |exact Hes].
  intros n pp Hn. rewrite nth_const.
  assert (Hall : Forall (fun p => cp14 p p14_empty) (i_ports i)).
  { unfold init in Hi. eapply add_ports_cp14; [|exact Hi]. constructor. }
  rewrite Forall_forall in Hall. apply Hall. eapply nth_error_In; exact Hn.
Qed.
