(** C08 on the model, whole histories: for every valid set-up and every valid
    event list the model's own trace satisfies the state part of the oracle
    ok_C08 (at most one slave, master-only never slave, slave-only enforcement,
    role predicates consistent).  The emission-by-role part of ok_C08 needs the
    codec round trip on every emitted frame and is judged on traces only. *)
From SV Require Export Port.InvRun Port.OracleC08.

(** ok_C08 without the emission-by-role conjunct *)
Definition step_C08_states (c : pcase) (so_enforced : bool) (prev : snapshot) (e : event) (o : list tobs) (sn : snapshot)
  : option bool :=
  let so_prev := dd_slave_only (ds_default (sn_ds prev)) in
  let so_now := dd_slave_only (ds_default (sn_ds sn)) in
  let enforced' :=
    match e with
    | EvBmca => so_prev
    | EvSetSlaveOnly false => false
    | _ => so_enforced
    end && so_now in
  let one_slave := Nat.leb (count (fun s => Z.eqb s 9) (sn_states sn)) 1 in
  let mo_ok := forallb (fun p => match port_cfg c p with
                                 | Some pc => negb (pc_master_only pc && (state_of sn p =? 9))
                                 | None => true
                                 end) (all_ports c) in
  let so_ok := if enforced' then forallb (fun s => negb (s =? 6)) (sn_states sn) else true in
  let flags_ok :=
    (length (sn_roles sn) =? length (sn_states sn))%nat
    && forallb (fun sr => bool_eqb (fst (snd sr)) (fst sr =? 9) && bool_eqb (snd (snd sr)) (fst sr =? 6))
               (combine (sn_states sn) (sn_roles sn)) in
  if one_slave && mo_ok && so_ok && flags_ok then Some enforced' else None.

Definition ok_C08_states (c : pcase) : bool :=
  walk (step_C08_states c) (ic_slave_only (su_config (pc_setup c))) (init_snap c) (pc_events c) (pc_trace c).

(** it is a weakening of the oracle *)
Lemma step_C08_weaken c enf prev e o sn x :
  step_C08 c enf prev e o sn = Some x -> step_C08_states c enf prev e o sn = Some x.
Proof.
  unfold step_C08, step_C08_states. cbv zeta.
  match goal with |- (if ?a && ?b && ?c0 && ?r && ?f then _ else _) = _ -> _ =>
    destruct a; destruct b; destruct c0; destruct r; destruct f; cbn [andb]; intros H; try discriminate; exact H end.
Qed.

Lemma walk_weaken c : forall es rs enf prev,
  walk (step_C08 c) enf prev es rs = true -> walk (step_C08_states c) enf prev es rs = true.
Proof.
  induction es as [|e es IH]; intros rs enf prev H; destruct rs as [|[o sn|] rs]; cbn [walk] in *; try exact H.
  destruct (step_C08 c enf prev e o sn) as [x|] eqn:E; [|discriminate].
  rewrite (step_C08_weaken _ _ _ _ _ _ _ E). apply IH. exact H.
Qed.

Theorem ok_C08_implies_states c : ok_C08 c = true -> ok_C08_states c = true.
Proof. apply walk_weaken. Qed.

(** * The model satisfies it *)
Lemma count_code_slave l :
  count (fun s => s =? 9) (map (fun p => port_state_code (p_state p)) l) = nslaves l.
Proof.
  unfold nslaves, count. induction l as [|p l IH]; cbn [map filter]; [reflexivity|].
  destruct (p_state p); cbn; rewrite <- ?IH; reflexivity.
Qed.

Lemma no_master_codes l :
  no_master l -> forallb (fun s => negb (s =? 6)) (map (fun p => port_state_code (p_state p)) l) = true.
Proof.
  intros H. apply forallb_forall. intros s Hs. apply in_map_iff in Hs. destruct Hs as [p [<- Hp]].
  unfold no_master in H. rewrite Forall_forall in H. specialize (H p Hp). destruct (p_state p); try reflexivity; discriminate.
Qed.

Lemma flags_consistent l :
  let st := map (fun p => port_state_code (p_state p)) l in
  let rl := map (fun p => (is_slave (p_state p), is_master (p_state p))) l in
  (length rl =? length st)%nat
  && forallb (fun sr => bool_eqb (fst (snd sr)) (fst sr =? 9) && bool_eqb (snd (snd sr)) (fst sr =? 6)) (combine st rl) = true.
Proof.
  cbv zeta. rewrite !map_length, Nat.eqb_refl. cbn [andb].
  induction l as [|p l IH]; cbn [map combine forallb]; [reflexivity|]. rewrite IH.
  destruct (p_state p); reflexivity.
Qed.

Lemma mo_ok_model c i :
  inst_inv i -> cfgs_of i = map fst (su_ports (pc_setup c)) ->
  forallb (fun p => match port_cfg c p with
                    | Some pc => negb (pc_master_only pc && (state_of (snapshot_of i) p =? 9))
                    | None => true
                    end) (all_ports c) = true.
Proof.
  intros (Hports & _) Hcf. apply forallb_forall. intros n _.
  unfold port_cfg. destruct (nth_error (su_ports (pc_setup c)) n) as [[pc rng]|] eqn:En; [|reflexivity].
  assert (Hn : nth_error (cfgs_of i) n = Some pc).
  { rewrite Hcf. rewrite nth_error_map, En. reflexivity. }
  unfold cfgs_of in Hn. rewrite nth_error_map in Hn.
  destruct (nth_error (i_ports i) n) as [q|] eqn:Eq; [|discriminate]. cbn in Hn. inversion Hn; subst pc.
  unfold state_of, snapshot_of. cbn [sn_states].
  rewrite (nth_indep _ 0 (port_state_code (p_state q))).
  2: { rewrite map_length. apply nth_error_Some. rewrite Eq. discriminate. }
  rewrite (map_nth (fun p => port_state_code (p_state p))).
  rewrite (nth_error_nth _ _ _ Eq).
  rewrite Forall_forall in Hports. specialize (Hports q (nth_error_In _ _ Eq)).
  destruct Hports as (_ & _ & _ & _ & _ & Hmo & _).
  destruct (pc_master_only (p_config q)) eqn:Em; [|reflexivity].
  specialize (Hmo eq_refl). destruct (p_state q); try reflexivity; discriminate.
Qed.

Definition enf_inv (enf : bool) (i : instance) : Prop :=
  enf = true -> slave_only_of i = true /\ no_master (i_ports i).

Lemma walk_states_model c : forall es i enf,
  inst_inv i -> cfgs_of i = map fst (su_ports (pc_setup c)) -> enf_inv enf i -> Forall event_valid es ->
  walk (step_C08_states c) enf (snapshot_of i) es (run i es) = true.
Proof.
  induction es as [|e es IH]; intros i enf Hi Hcf Henf Hes; cbn [run walk]; [reflexivity|].
  inversion Hes as [|? ? He Hes']; subst.
  destruct (step_ok i e Hi He) as (i' & o & Hs & Hi' & Hcf' & Hso & Hkeep & Hbm). rewrite Hs. cbn [walk].
  set (enf' := (match e with EvBmca => slave_only_of i | EvSetSlaveOnly false => false | _ => enf end)
               && slave_only_of i').
  assert (Henf' : enf_inv enf' i').
  { unfold enf_inv, enf'. intros H. apply andb_true_iff in H as [H1 H2]. split; [exact H2|].
    destruct e; try (destruct (Henf H1) as [Hs1 Hn1]; apply (Hso ltac:(intros X; discriminate X) ltac:(intros _; exact Hn1)); exact H2).
    - apply Hbm; [reflexivity|exact H1].
    - destruct b; [|discriminate]. destruct (Henf H1) as [_ Hn1]. cbn [step] in Hs. inversion Hs; subst. exact Hn1. }
  assert (Hstep : step_C08_states c enf (snapshot_of i) e o (snapshot_of i') = Some enf').
  { unfold step_C08_states. cbv zeta.
    change (dd_slave_only (ds_default (sn_ds (snapshot_of i)))) with (slave_only_of i).
    change (dd_slave_only (ds_default (sn_ds (snapshot_of i')))) with (slave_only_of i').
    fold enf'.
    assert (H1 : Nat.leb (count (fun s => s =? 9) (sn_states (snapshot_of i'))) 1 = true).
    { unfold snapshot_of. cbn [sn_states]. rewrite count_code_slave. apply Nat.leb_le. apply Hi'. }
    assert (H2 := mo_ok_model c i' Hi' ltac:(rewrite Hcf'; exact Hcf)).
    assert (H3 : (if enf' then forallb (fun s => negb (s =? 6)) (sn_states (snapshot_of i')) else true) = true).
    { destruct enf' eqn:E; [|reflexivity]. unfold snapshot_of. cbn [sn_states]. apply no_master_codes. apply Henf'. reflexivity. }
    assert (H4 : (length (sn_roles (snapshot_of i')) =? length (sn_states (snapshot_of i')))%nat
                 && forallb (fun sr => bool_eqb (fst (snd sr)) (fst sr =? 9) && bool_eqb (snd (snd sr)) (fst sr =? 6))
                            (combine (sn_states (snapshot_of i')) (sn_roles (snapshot_of i'))) = true)
      by exact (flags_consistent (i_ports i')).
    rewrite H1, H2, H3, H4. reflexivity. }
  rewrite Hstep. apply IH; [exact Hi'|rewrite Hcf'; exact Hcf|exact Henf'|exact Hes'].
Qed.

(** configurations after set-up *)
Lemma add_port_cfgs i c r i' o : add_port i c r = Ok (i', o) -> cfgs_of i' = cfgs_of i ++ [c].
Proof.
  unfold add_port. destruct (chk_u _ _ _); cbn [obind]; [|discriminate].
  match goal with |- context [draw ?x] => pose proof (pres_draw x) as (_ & Hc & _); destruct (draw x) as [k p1] end.
  cbn [snd] in Hc. destruct (announce_interval_ti _); cbn [obind]; [|discriminate].
  intros H. inversion H; subst. unfold cfgs_of. cbn [i_ports]. rewrite map_app. cbn [map]. rewrite Hc. reflexivity.
Qed.

Lemma add_ports_cfgs ps : forall i acc i' o,
  add_ports i ps acc = Ok (i', o) -> cfgs_of i' = cfgs_of i ++ map fst ps.
Proof.
  induction ps as [|[c r] ps IH]; intros i acc i' o H; cbn [add_ports] in H.
  - inversion H; subst. cbn. rewrite app_nil_r. reflexivity.
  - destruct (add_port i c r) as [[i1 o1]|?] eqn:E; cbn [obind fst snd] in H; [|discriminate].
    rewrite (IH _ _ _ _ H), (add_port_cfgs _ _ _ _ _ E), <- app_assoc. reflexivity.
Qed.

Theorem ok_C08_states_model s es rel :
  setup_valid s -> Forall event_valid es ->
  exists i o, init s = Ok (i, o) /\ ok_C08_states (mkCase s es rel (Some o) (run i es)) = true.
Proof.
  intros Hs Hes. destruct (init_ok s Hs) as (i & o & Hi & Hinv & Hnm). exists i, o. split; [exact Hi|].
  unfold ok_C08_states, init_snap. cbn [pc_setup pc_events pc_trace]. rewrite Hi.
  apply walk_states_model; [exact Hinv| |  |exact Hes].
  - cbn [pc_setup]. unfold init in Hi. rewrite (add_ports_cfgs _ _ _ _ _ Hi). reflexivity.
  - intros H. split; [|exact Hnm].
    unfold init in Hi. rewrite (add_ports_slave_only _ _ _ _ _ Hi). exact H.
Qed.
