(** Case format of every port-level correspondence run and the
    model-vs-implementation agreement check.  No proofs. *)
From SV Require Export Base.Cases Base.Lit Port.Instance.

(** tagged observation (literal helper for generated files) *)
Definition tg (i : Z) (o : obs) : Z * obs := (i, o).

Definition opt_z_eqb (a b : option Z) : bool := opt_eqb Z.eqb a b.

Definition tlv_eqb (a b : tlv) : bool := (tlv_type a =? tlv_type b) && bytes_eqb (tlv_value a) (tlv_value b).

Definition ctx_eqb (a b : ts_context) : bool :=
  match a, b with
  | CtxSync x, CtxSync y | CtxDelayReq x, CtxDelayReq y | CtxPDelayReq x, CtxPDelayReq y => x =? y
  | CtxPDelayResp x p, CtxPDelayResp y q => (x =? y) && pi_eqb p q
  | _, _ => false
  end.

Definition meas_eqb (a b : measurement) : bool :=
  (me_event_time a =? me_event_time b) && opt_z_eqb (me_offset a) (me_offset b)
  && opt_z_eqb (me_delay a) (me_delay b) && opt_z_eqb (me_peer_delay a) (me_peer_delay b)
  && opt_z_eqb (me_raw_sync a) (me_raw_sync b) && opt_z_eqb (me_raw_delay a) (me_raw_delay b).

Definition tp_eqb (a b : time_props) : bool :=
  opt_z_eqb (tp_utc_offset a) (tp_utc_offset b) && (tp_leap a =? tp_leap b)
  && bool_eqb (tp_time_traceable a) (tp_time_traceable b)
  && bool_eqb (tp_freq_traceable a) (tp_freq_traceable b)
  && bool_eqb (tp_ptp_timescale a) (tp_ptp_timescale b) && (tp_time_source a =? tp_time_source b).

(** timer durations: the implementation goes through f64 (mul_f64,
    from_secs_f64); the model uses the exact rational value: allow 2 ns *)
Definition ns_close (a b : Z) : bool := Z.abs (a - b) <=? 2.

Definition obs_eqb (a b : obs) : bool :=
  match a, b with
  | ASendEvent c f l, ASendEvent c' f' l' => ctx_eqb c c' && bytes_eqb f f' && bool_eqb l l'
  | ASendGeneral f l, ASendGeneral f' l' => bytes_eqb f f' && bool_eqb l l'
  | AResetAnnounceTimer x, AResetAnnounceTimer y
  | AResetSyncTimer x, AResetSyncTimer y
  | AResetDelayRequestTimer x, AResetDelayRequestTimer y
  | AResetAnnounceReceiptTimer x, AResetAnnounceReceiptTimer y
  | AResetFilterUpdateTimer x, AResetFilterUpdateTimer y => ns_close x y
  | AForwardTLV t s, AForwardTLV t' s' => tlv_eqb t t' && pi_eqb s s'
  | OFilterMeas m, OFilterMeas m' => meas_eqb m m'
  | OFilterDemobilize, OFilterDemobilize => true
  | OFilterUpdate, OFilterUpdate => true
  | OClockSetProps t, OClockSetProps t' => tp_eqb t t'
  | OLock w d, OLock w' d' => bool_eqb w w' && (d =? d')
  | _, _ => false
  end.

Fixpoint list_eqb {A} (eqb : A -> A -> bool) (a b : list A) : bool :=
  match a, b with
  | [], [] => true
  | x :: a', y :: b' => eqb x y && list_eqb eqb a' b'
  | _, _ => false
  end.

Definition tobs_eqb (a b : tobs) : bool := (fst a =? fst b) && obs_eqb (snd a) (snd b).

Definition dd_eqb (a b : default_ds) : bool :=
  (dd_clock_identity a =? dd_clock_identity b) && (dd_number_ports a =? dd_number_ports b)
  && cq_eqb (dd_quality a) (dd_quality b) && (dd_prio1 a =? dd_prio1 b) && (dd_prio2 a =? dd_prio2 b)
  && (dd_domain a =? dd_domain b) && bool_eqb (dd_slave_only a) (dd_slave_only b)
  && (dd_sdo_id a =? dd_sdo_id b).
Definition pd_eqb (a b : parent_ds) : bool :=
  pi_eqb (pd_parent a) (pd_parent b) && (pd_gm_identity a =? pd_gm_identity b)
  && cq_eqb (pd_gm_quality a) (pd_gm_quality b) && (pd_gm_prio1 a =? pd_gm_prio1 b)
  && (pd_gm_prio2 a =? pd_gm_prio2 b).
Definition ds_eqb (a b : inst_ds) : bool :=
  dd_eqb (ds_default a) (ds_default b) && (ds_steps_removed a =? ds_steps_removed b)
  && pd_eqb (ds_parent a) (ds_parent b) && list_eqb Z.eqb (ds_path a) (ds_path b)
  && bool_eqb (ds_path_enable a) (ds_path_enable b) && tp_eqb (ds_tp a) (ds_tp b).

Definition snap_eqb (a b : snapshot) : bool :=
  list_eqb Z.eqb (sn_states a) (sn_states b) && ds_eqb (sn_ds a) (sn_ds b)
  && list_eqb opt_z_eqb (sn_mean_delays a) (sn_mean_delays b)
  && list_eqb (fun x y => bool_eqb (fst x) (fst y) && bool_eqb (snd x) (snd y)) (sn_roles a) (sn_roles b).

Definition sr_eqb (a b : step_result) : bool :=
  match a, b with
  | SROk o s, SROk o' s' => list_eqb tobs_eqb o o' && snap_eqb s s'
  | SRPanic, SRPanic => true
  | _, _ => false
  end.

(** A port-level case: set-up, host events, and what the implementation
    showed: initial actions (None = set-up panicked) and the per-event results.
    [pc_release] tells whether the implementation was built without debug
    checks (overflow then wraps and debug_assert! is compiled out). *)
Record pcase := mkCase {
  pc_setup : setup;
  pc_events : list event;
  pc_release : bool;
  pc_init : option (list tobs);
  pc_trace : list step_result
}.

Definition model_init (c : pcase) : option (list tobs) :=
  match init (pc_setup c) with Ok (_, o) => Some o | Panic _ => None end.
Definition model_trace (c : pcase) : list step_result :=
  match init (pc_setup c) with Ok (i, _) => run i (pc_events c) | Panic _ => [] end.

(** Agreement.  In a release build the model's [Panic] may correspond to a
    silently wrapped overflow or a skipped debug assertion, after which the
    implementation's behaviour is not modelled: compare up to that point. *)
Fixpoint trace_agree (rel : bool) (m i : list step_result) : bool :=
  match m, i with
  | [], [] => true
  | SRPanic :: _, SRPanic :: _ => true
  | SRPanic :: _, _ => rel
  | x :: m', y :: i' => sr_eqb x y && trace_agree rel m' i'
  | _, _ => false
  end.

Definition agree_port (c : pcase) : bool :=
  match model_init c, pc_init c with
  | Some o, Some o' => list_eqb tobs_eqb o o' && trace_agree (pc_release c) (model_trace c) (pc_trace c)
  | None, None => true
  | None, Some _ => pc_release c
  | Some _, None => false
  end.

(** index of the first disagreeing event (for diagnostics) *)
Fixpoint first_diff (n : Z) (m i : list step_result) : Z :=
  match m, i with
  | x :: m', y :: i' => if sr_eqb x y then first_diff (n + 1) m' i' else n
  | [], [] => -1
  | _, _ => n
  end.
