(** C12, the logic of the liveness half, without the host's clock: what the
    model does on every history that contains no received frame and no change of
    configuration ("silent" events: timers, transmit timestamps, BMCA runs, ticks).

    - [expiry_run]: every stored Announce ages by one BMCA interval per BMCA run,
      whatever else happens in between; after enough runs every foreign-master
      list is empty and every multiport block has lapsed ([settled]).
    - [settled_step] / [settled_run]: a settled instance that is not slave-only
      stays settled under silent events; a MASTER port stays MASTER; a BMCA run
      makes every port MASTER that is neither FAULTY nor LISTENING; an announce
      receipt timeout makes every port MASTER that is not FAULTY; the only other
      changes are SLAVE -> SLAVE (exchange state) and FAULTY -> LISTENING (a late
      transmit timestamp completing a clean peer delay exchange, finding F22).
    Together with [C12_walk_main] (the timer a state relies on is armed, F22
    aside) and the per-timer theorems (a firing timer re-arms itself with the
    configured interval) this is the whole argument for "within a bounded
    number of announce intervals every port that may be master is master, and
    stays so", except the arithmetic of the host's schedule, which the oracle
    [final_ok] evaluates on traces. *)
From SV Require Export Port.MainC12 Port.MainC05.
Local Open Scope Z_scope.

Definition silent_event (e : event) : bool :=
  match e with
  | EvRecvEvent _ _ _ | EvRecvGeneral _ _ | EvSetClockQuality _ | EvSetSlaveOnly _ => false
  | _ => true
  end.

(** * port states under silent calls *)
Definition calm (st st' : port_state) : Prop :=
  st' = st \/ (is_slave st = true /\ is_slave st' = true) \/ (st = PFaulty /\ st' = PListening).

Lemma calm_refl st : calm st st.
Proof. left. reflexivity. Qed.
Definition calmp (p p' : port) : Prop := calm (p_state p) (p_state p').
Lemma calmp_refl p : calmp p p.
Proof. left. reflexivity. Qed.

Lemma extract_calm p p' om o : extract_measurement p = Ok (p', om, o) -> calmp p p'.
Proof.
  unfold extract_measurement, set_forced. intros H. crunch H;
    repeat match goal with E : (if ?c then _ else _) = (_, _) |- _ => destruct c eqn:?; inversion E; subst; clear E end;
    unfold calmp, calm; cbn [port_with_state port_with_peer p_state is_slave is_faulty] in *;
    repeat match goal with E : p_state _ = _ |- _ => rewrite E in * end; cbn [is_slave is_faulty] in *; auto 6.
  all: try match goal with E : is_faulty ?s = true |- _ => destruct s; try discriminate E; auto 6 end.
Qed.

Lemma htm_calm q d q' d' o : handle_time_measurement q d = Ok (q', d', o) -> calmp q q'.
Proof.
  unfold handle_time_measurement. intros H.
  destruct (extract_measurement q) as [[[p1 om] o1]|?] eqn:E; cbn [obind] in H; [|discriminate].
  apply extract_calm in E. destruct om as [m|]; [destruct (filter_mean_delay m)|]; unfold ret in H; inversion H; subst; exact E.
Qed.

Lemma calm_slave_upd p st st' q' : p_state p = PSlave st -> calmp (set_slave p st') q' -> calmp p q'.
Proof.
  intros E Hs. unfold calmp, calm in *. cbn [set_slave port_with_state p_state is_slave is_faulty] in Hs. rewrite E. cbn [is_slave].
  destruct Hs as [H|[[_ H2]|[H1 _]]]; [right; left; rewrite H; auto|right; left; auto|discriminate H1].
Qed.
Lemma calm_peer_upd p x q' : calmp (port_with_peer p x) q' -> calmp p q'.
Proof. unfold calmp. cbn [port_with_peer p_state]. auto. Qed.

Ltac calm_tac H :=
  crunch H;
  first [ apply calmp_refl
        | (unfold calmp, calm; cbn [set_slave port_with_state port_with_peer port_with_seqs p_state is_slave is_faulty];
           repeat match goal with E : p_state _ = _ |- _ => rewrite E end; cbn [is_slave is_faulty]; auto 6; fail)
        | match goal with Hx : handle_time_measurement (set_slave ?p ?st') ?dd = Ok _ |- _ =>
            eapply calm_slave_upd; [eassumption|exact (htm_calm _ _ _ _ _ Hx)] end
        | match goal with Hx : handle_time_measurement (port_with_peer ?p ?x) ?dd = Ok _ |- _ =>
            eapply calm_peer_upd; exact (htm_calm _ _ _ _ _ Hx) end ].

Lemma handle_delay_timestamp_calm p d id t p' d' o : handle_delay_timestamp p d id t = Ok (p', d', o) -> calmp p p'.
Proof. intros H. unfold handle_delay_timestamp in H. calm_tac H. Qed.
Lemma handle_pdelay_timestamp_calm p d id t p' d' o : handle_pdelay_timestamp p d id t = Ok (p', d', o) -> calmp p p'.
Proof. intros H. unfold handle_pdelay_timestamp in H. calm_tac H. Qed.
Lemma handle_sync_timestamp_calm p d id ts p' d' o : handle_sync_timestamp p d id ts = Ok (p', d', o) -> calmp p p'.
Proof. intros H. unfold handle_sync_timestamp in H. calm_tac H. Qed.
Lemma handle_pdelay_response_timestamp_calm p d id rq ts p' d' o :
  handle_pdelay_response_timestamp p d id rq ts = Ok (p', d', o) -> calmp p p'.
Proof. intros H. unfold handle_pdelay_response_timestamp in H. calm_tac H. Qed.
Lemma send_timestamp_calm p d c ts p' d' o : handle_send_timestamp p d c ts = Ok (p', d', o) -> calmp p p'.
Proof.
  unfold handle_send_timestamp. intros H. destruct c;
    [eapply handle_sync_timestamp_calm|eapply handle_delay_timestamp_calm|eapply handle_pdelay_timestamp_calm|eapply handle_pdelay_response_timestamp_calm]; eauto.
Qed.
Lemma send_sync_calm p d p' d' o : send_sync p d = Ok (p', d', o) -> calmp p p'.
Proof. intros H. unfold send_sync in H. calm_tac H. Qed.
Lemma send_announce_calm p d q p' d' o : send_announce p d q = Ok (p', d', o) -> calmp p p'.
Proof.
  unfold send_announce. intros H. destruct (is_master (p_state p)); [|unfold ret in H; inversion H; apply calmp_refl].
  match type of H with context [let '(a, b) := ?X in _] => destruct X as [pb m1] end.
  calm_tac H.
Qed.
Lemma send_delay_request_calm p d p' d' o : send_delay_request p d = Ok (p', d', o) -> calmp p p'.
Proof.
  unfold send_delay_request. intros H.
  repeat match type of H with context [draw ?x] => let E := fresh "Ed" in destruct (draw x) as [k p3] eqn:E; apply draw_state_eq in E end.
  crunch H; try apply calmp_refl; unfold calmp, calm; repeat match goal with E : p_state ?y = _ |- context [p_state ?y] => rewrite E end;
    cbn [set_slave port_with_state port_with_peer port_with_seqs p_state is_slave]; auto 6.
  all: repeat match goal with E : p_state _ = PSlave _ |- _ => rewrite E end; cbn [is_slave]; auto 6.
  all: repeat match goal with E : draw _ = (_, _) |- _ => apply draw_state_eq in E; rewrite E end; cbn [set_slave port_with_state p_state is_slave]; auto 6.
Qed.

(** * settled instances *)
Definition settled (i : instance) : Prop :=
  dd_slave_only (ds_default (i_ds i)) = false /\
  Forall (fun pp => p_fml pp = [] /\ p_multiport_disable pp = None) (i_ports i).

Lemma step_default_silent i e i' o :
  inst_inv i -> event_valid e -> silent_event e = true -> step i e = Ok (i', o) ->
  ds_default (i_ds i') = ds_default (i_ds i).
Proof.
  intros Hi He Hsil Hs.
  assert (Hport : forall n f, (forall p d, port_inv p -> ds_inv d -> good_w p d (f p d)) ->
            on_port i n f = Ok (i', o) -> ds_default (i_ds i') = ds_default (i_ds i)).
  { intros n f Hf Hop. destruct (on_port_ok i n f Hi Hf) as (i2 & o2 & Hs2 & _ & _ & Hdef & _).
    rewrite Hop in Hs2. injection Hs2 as <- <-. exact Hdef. }
  destruct e; cbn [step event_valid silent_event] in *; try discriminate Hsil;
    try (match type of Hs with on_port _ ?n ?f = _ =>
           rewrite (Hport n f); [reflexivity| |exact Hs]; intros pp dd Hpp Hdd; cbv beta end).
  - apply good_weaken; apply handle_send_timestamp_ok; try assumption; apply He.
  - apply good_weaken; apply send_announce_ok; assumption.
  - apply good_weaken; apply send_sync_ok; assumption.
  - apply good_weaken; apply send_delay_request_ok; assumption.
  - apply handle_announce_receipt_timer_ok; assumption.
  - apply good_weaken; apply handle_filter_update_timer_ok; assumption.
  - destruct (bmca_ok i Hi) as (i2 & o2 & Hs2 & _ & Hdef & _). rewrite Hs in Hs2. injection Hs2 as <- <-. rewrite Hdef. reflexivity.
  - inversion Hs; subst. reflexivity.
Qed.

Lemma code_is_master st : port_state_code st = 6 -> st = PMaster.
Proof. destruct st; cbn; intros H; try discriminate H; reflexivity. Qed.
Lemma code_is_listening st : port_state_code st = 4 -> st = PListening.
Proof. destruct st; cbn; intros H; try discriminate H; reflexivity. Qed.
Lemma code_is_faulty st : port_state_code st = 2 -> st = PFaulty.
Proof. destruct st; cbn; intros H; try discriminate H; reflexivity. Qed.

Lemma take_best_nil own acc ti : bmca_take_best own acc ti [] = Ok ([], None).
Proof. reflexivity. Qed.

Lemma flat_map_nil {A B} (f : A -> list B) l : (forall x, In x l -> f x = []) -> flat_map f l = [].
Proof. induction l as [|x l IH]; intros H; cbn; [reflexivity|]. rewrite (H x (or_introl eq_refl)), IH; [reflexivity|]. intros y Hy. apply H. right. exact Hy. Qed.

(** a BMCA run of a settled instance *)
Lemma settled_bmca i i' o :
  inst_inv i -> settled i -> bmca i = Ok (i', o) ->
  settled i' /\
  forall n pp pp', nth_error (i_ports i) n = Some pp -> nth_error (i_ports i') n = Some pp' ->
    p_state pp' = if is_faulty (p_state pp) || is_listening (p_state pp) then p_state pp else PMaster.
Proof.
  intros Hi [Hso Hall] Hb. rewrite Forall_forall in Hall.
  assert (Hdef : ds_default (i_ds i') = ds_default (i_ds i)) by (apply (step_default_silent i EvBmca i' o Hi I eq_refl Hb)).
  destruct (bmca_struct _ _ _ Hb) as (step & bps & eb & bps1 & d1 & ports & E0 & Ebps & Eeb & Edec & Eports & Hi').
  pose proof (omap_list_rel calc_local_best (fun pp b => calc_local_best pp = Ok b) (fun _ _ H => H) _ _ Ebps) as F1.
  assert (Hb0 : forall n pp, nth_error (i_ports i) n = Some pp -> nth_error bps n = Some (mkBP (port_with_fml pp []) None [] [])).
  { intros n pp Hn. destruct (MainC09.Forall2_nth _ _ _ F1 n pp Hn) as (b & Hbn & Hc).
    unfold calc_local_best in Hc. destruct (Hall pp (nth_error_In _ _ Hn)) as [Hf _]. rewrite Hf, take_best_nil in Hc. cbn [obind fst snd] in Hc.
    inversion Hc; subst b. exact Hbn. }
  assert (Hnone : forall b, In b bps -> bp_best b = None).
  { intros b Hb1. destruct (In_nth_error _ _ Hb1) as (n & Hn).
    destruct (nth_error (i_ports i) n) as [pp|] eqn:Hnn.
    - rewrite (Hb0 n pp Hnn) in Hn. inversion Hn; reflexivity.
    - exfalso. apply nth_error_None in Hnn. apply F2_len in F1. rewrite F1 in Hnn. apply nth_error_None in Hnn. rewrite Hnn in Hn. discriminate. }
  assert (Heb : eb = None).
  { rewrite flat_map_nil in Eeb; [cbn in Eeb; inversion Eeb; reflexivity|].
    intros b Hb1. unfold best_for_bmca. rewrite (Hnone b Hb1). destruct (_ || _); reflexivity. }
  subst eb.
  destruct (bmca_decide_spec _ _ _ _ _ _ Edec) as (tail & Ht & HF2 & _). cbn [app] in Ht. subst tail.
  pose proof (omap_list_rel (fun b => step_announce_age step (bp_port b)) (fun b pp' => p_state pp' = p_state (bp_port b))
                (fun b pp' H => step_announce_age_state _ _ _ H) _ _ Eports) as HF3.
  split.
  - split; [rewrite Hdef; exact Hso|]. apply Forall_forall. intros pp' Hin. destruct (In_nth_error _ _ Hin) as (n & Hn').
    assert (Hlt : (n < length (i_ports i))%nat).
    { apply F2_len in F1. apply F2_len in HF2. apply F2_len in HF3. rewrite F1, HF2, HF3. rewrite Hi' in Hn'. cbn [i_ports] in Hn'.
      apply nth_error_Some. rewrite Hn'. discriminate. }
    destruct (nth_error (i_ports i) n) as [pp|] eqn:Hn; [|apply nth_error_None in Hn; lia].
    destruct (bmca_port6 i i' o n pp Hb Hn) as (pp2 & stepd & fml1 & best & iv & Hn2 & _ & Htb & _ & Hf & _ & Hm & _).
    rewrite Hn' in Hn2. inversion Hn2; subst pp2. destruct (Hall pp (nth_error_In _ _ Hn)) as [Hf0 Hm0].
    rewrite Hf0, take_best_nil in Htb. inversion Htb; subst fml1 best. rewrite Hf, Hm, Hm0. split; reflexivity.
  - intros n pp pp' Hn Hn'. pose proof (Hb0 n pp Hn) as Hbn.
    destruct (MainC09.Forall2_nth _ _ _ HF2 n _ Hbn) as (b1 & Hb1 & r & Hrec & Happ).
    destruct (MainC09.Forall2_nth _ _ _ HF3 n b1 Hb1) as (pp2 & Hpp2 & Hst).
    rewrite Hi' in Hn'. cbn [i_ports] in Hn'. rewrite Hn' in Hpp2. inversion Hpp2; subst pp2.
    destruct Happ as (_ & _ & _ & _ & Hcode). cbn [bp_port] in Hcode.
    destruct (Hall pp (nth_error_In _ _ Hn)) as [_ Hm0].
    assert (Hmf : mp_flag (port_with_fml pp []) = false) by (unfold mp_flag; replace (p_multiport_disable (port_with_fml pp [])) with (p_multiport_disable pp) by (destruct pp; reflexivity); rewrite Hm0; reflexivity).
    replace (p_state (port_with_fml pp [])) with (p_state pp) in Hcode by (destruct pp; reflexivity).
    rewrite Hmf, Hso in Hcode.
    destruct (decision_refines_fig33 (ds_default (i_ds i)) None None (p_state pp)) as (r' & Hr1 & Hr2).
    unfold rec_of in Hrec. cbn [bp_best bp_port] in Hrec. replace (p_state (port_with_fml pp [])) with (p_state pp) in Hrec by (destruct pp; reflexivity).
    rewrite Hrec in Hr1. inversion Hr1; subst r'. cbn [option_map same_best] in Hr2. rewrite Hr2 in Hcode.
    rewrite Hst. unfold fig33, decided_state in Hcode.
    destruct (p_state pp) eqn:Est; cbn [is_listening is_faulty orb port_state_code] in *;
      destruct ((1 <=? cq_class (dd_quality (ds_default (i_ds i)))) && (cq_class (dd_quality (ds_default (i_ds i))) <=? 127));
      cbn in Hcode; first [apply code_is_master; exact Hcode|apply code_is_listening; exact Hcode|apply code_is_faulty; exact Hcode].
Qed.

(** * one silent event in a settled instance *)
Definition moves (e : event) (n : nat) (st st' : port_state) : Prop :=
  (calm st st' \/ st' = PMaster) /\
  (e = EvBmca -> st' = if is_faulty st || is_listening st then st else PMaster) /\
  (e = EvAnnounceReceiptTimer n -> is_faulty st = false -> st' = PMaster).

Lemma on_port_moves (R : port -> port -> Prop) i n f i' o :
  on_port i n f = Ok (i', o) ->
  (forall p, keeps_fml p (f p (i_ds i))) -> (forall p, keeps_mp p (f p (i_ds i))) ->
  (forall p p' d' oo, f p (i_ds i) = Ok (p', d', oo) -> R p p') ->
  Forall (fun pp => p_fml pp = [] /\ p_multiport_disable pp = None) (i_ports i) ->
  Forall (fun pp => p_fml pp = [] /\ p_multiport_disable pp = None) (i_ports i') /\
  length (i_ports i') = length (i_ports i) /\
  forall m pp pp', nth_error (i_ports i) m = Some pp -> nth_error (i_ports i') m = Some pp' ->
    (m = n /\ R pp pp') \/ (m <> n /\ pp' = pp).
Proof.
  intros Hop Hkf Hkm HR Hall.
  destruct (on_port_full i n f i' o Hop) as [(Hnn & ->)|(pp0 & pp0' & d' & oo & Hn & Hh & Hi')].
  - split; [exact Hall|]. split; [reflexivity|]. intros m pp pp' Hm Hm'. rewrite Hm in Hm'. inversion Hm'; subst pp'.
    right. split; [|reflexivity]. intros ->. rewrite Hnn in Hm. discriminate.
  - assert (Hnlt : (n < length (i_ports i))%nat) by (apply nth_error_Some; rewrite Hn; discriminate).
    subst i'. cbn [i_ports]. split; [|split; [apply update_nth_length|]].
    + apply InvStep.update_nth_Forall; [exact Hall|]. rewrite Forall_forall in Hall. destruct (Hall pp0 (nth_error_In _ _ Hn)) as [F1 F2].
      rewrite (Hkf pp0 _ _ _ Hh), (Hkm pp0 _ _ _ Hh). split; assumption.
    + intros m pp pp' Hm Hm'. destruct (Nat.eq_dec m n) as [->|Hne].
      * left. split; [reflexivity|]. rewrite nth_error_update_same in Hm' by exact Hnlt. inversion Hm'; subst pp'.
        rewrite Hn in Hm. inversion Hm; subst pp. eapply HR; eauto.
      * right. split; [exact Hne|]. rewrite nth_error_update_other in Hm' by (intros E; apply Hne; symmetry; exact E). rewrite Hm in Hm'. inversion Hm'; reflexivity.
Qed.

Lemma settled_step i e i' o :
  inst_inv i -> event_valid e -> silent_event e = true -> settled i -> step i e = Ok (i', o) ->
  settled i' /\ length (i_ports i') = length (i_ports i) /\
  forall n pp pp', nth_error (i_ports i) n = Some pp -> nth_error (i_ports i') n = Some pp' ->
    moves e n (p_state pp) (p_state pp').
Proof.
  intros Hi He Hsil Hset Hs.
  pose proof (step_default_silent i e i' o Hi He Hsil Hs) as Hdef.
  destruct Hset as [Hso Hall].
  assert (Hcalm : forall n f, on_port i n f = Ok (i', o) ->
            (forall p, keeps_fml p (f p (i_ds i))) -> (forall p, keeps_mp p (f p (i_ds i))) ->
            (forall p p' d' oo, f p (i_ds i) = Ok (p', d', oo) -> calmp p p') ->
            e <> EvBmca -> (forall m, e <> EvAnnounceReceiptTimer m) ->
            settled i' /\ length (i_ports i') = length (i_ports i) /\
            forall m pp pp', nth_error (i_ports i) m = Some pp -> nth_error (i_ports i') m = Some pp' -> moves e m (p_state pp) (p_state pp')).
  { intros n f Hop Hkf Hkm HR Hnb Hnr. destruct (on_port_moves calmp i n f i' o Hop Hkf Hkm HR Hall) as (A & B & C).
    split; [split; [rewrite Hdef; exact Hso|exact A]|]. split; [exact B|]. intros m pp pp' Hm Hm'.
    split; [|split; [intros E; contradiction|intros E; exfalso; exact (Hnr m E)]].
    destruct (C m pp pp' Hm Hm') as [[_ H]|[_ ->]]; left; [exact H|apply calm_refl]. }
  destruct e; cbn [step event_valid silent_event] in *; try discriminate Hsil.
  - apply (Hcalm p _ Hs); try discriminate; intros pp;
      [intros p' d' oo Hx; unfold handle_send_timestamp in Hx; destruct ctx;
        [eapply handle_sync_timestamp_fml|eapply handle_delay_timestamp_fml|eapply handle_pdelay_timestamp_fml|eapply handle_pdelay_response_timestamp_fml]; eauto
      |apply send_timestamp_mp|intros p' d' oo Hx; eapply send_timestamp_calm; eauto].
  - apply (Hcalm p _ Hs); try discriminate; intros pp; [apply send_announce_fml|apply send_announce_mp|intros p' d' oo Hx; eapply send_announce_calm; eauto].
  - apply (Hcalm p _ Hs); try discriminate; intros pp; [apply send_sync_fml|apply send_sync_mp|intros p' d' oo Hx; eapply send_sync_calm; eauto].
  - apply (Hcalm p _ Hs); try discriminate; intros pp; [apply send_delay_request_fml|apply send_delay_request_mp|intros p' d' oo Hx; eapply send_delay_request_calm; eauto].
  - (* announce receipt timeout *)
    destruct (on_port_moves (fun q q' => if is_faulty (p_state q) then p_state q' = PFaulty else p_state q' = PMaster) i p _ i' o Hs
               (fun pp => receipt_timer_fml pp (i_ds i)) (fun pp => receipt_timer_mp pp (i_ds i))) as (A & B & C); [|exact Hall|].
    + intros q q' d' oo Hx. destruct (receipt_timeout_arms q (i_ds i)) as (q2 & o2 & Hq & F1 & F2 & _). rewrite Hx in Hq. inversion Hq; subst q2 o2.
      destruct (is_faulty (p_state q)) eqn:Ef; [apply F1; reflexivity|apply F2; [reflexivity|exact Hso]].
    + split; [split; [rewrite Hdef; exact Hso|exact A]|]. split; [exact B|]. intros m pp pp' Hm Hm'.
      destruct (C m pp pp' Hm Hm') as [[-> H]|[Hne ->]].
      * destruct (is_faulty (p_state pp)) eqn:Ef.
        -- split; [left; left; destruct (p_state pp); try discriminate Ef; exact H|]. split; [discriminate|]. intros _ X. rewrite Ef in X. discriminate X.
        -- split; [right; exact H|]. split; [discriminate|]. intros _ _. exact H.
      * split; [left; apply calm_refl|]. split; [discriminate|]. intros E. inversion E; subst. contradiction.
  - apply (Hcalm p _ Hs); try discriminate; intros pp.
    + intros p' d' oo Hx. unfold handle_filter_update_timer, ret in Hx. inversion Hx; reflexivity.
    + intros p' d' oo Hx. unfold handle_filter_update_timer, ret in Hx. inversion Hx; reflexivity.
    + intros p' d' oo Hx. unfold handle_filter_update_timer, ret in Hx. inversion Hx; apply calmp_refl.
  - (* BMCA *)
    destruct (settled_bmca i i' o Hi (conj Hso Hall) Hs) as [Hset' Hst].
    split; [exact Hset'|]. split.
    + destruct (bmca_ok i Hi) as (i2 & o2 & Hs2 & Hinv2 & _). rewrite Hs in Hs2. inversion Hs2; subst i2 o2.
      destruct Hi as (_ & _ & _ & L1 & _). destruct Hinv2 as (_ & _ & _ & L2 & _). rewrite Hdef in L2. lia.
    + intros n pp pp' Hn Hn'. specialize (Hst n pp pp' Hn Hn'). split; [|split; [intros _; exact Hst|discriminate]].
      destruct (is_faulty (p_state pp) || is_listening (p_state pp)); [left; left; exact Hst|right; exact Hst].
  - inversion Hs; subst. split; [split; assumption|]. split; [reflexivity|]. intros n pp pp' Hn Hn'. rewrite Hn in Hn'. inversion Hn'; subst.
    split; [left; apply calm_refl|]. split; discriminate.
Qed.

(** * any silent continuation of a settled instance *)
Definition mlf (st : port_state) : Prop := st = PMaster \/ st = PListening \/ st = PFaulty.

Lemma moves_cases e n st st' : moves e n st st' ->
  st' = st \/ (is_slave st = true /\ is_slave st' = true) \/ (st = PFaulty /\ st' = PListening) \/ st' = PMaster.
Proof. intros H. destruct H as (H & _). destruct H as [H|H]; [destruct H as [H|H]; [auto|destruct H as [H|H]; auto]|auto]. Qed.
Lemma moves_master e n st st' : moves e n st st' -> st = PMaster -> st' = PMaster.
Proof. intros H E. apply moves_cases in H. subst st. destruct H as [H|H]; [exact H|]. destruct H as [H|H]; [destruct H as (H & _); discriminate H|]. destruct H as [H|H]; [destruct H as (H & _); discriminate H|exact H]. Qed.
Lemma moves_mlf e n st st' : moves e n st st' -> mlf st -> mlf st'.
Proof.
  intros H Hm. apply moves_cases in H. unfold mlf in *. destruct H as [H|H]; [rewrite H; exact Hm|].
  destruct H as [H|H]; [destruct H as (H & _); destruct Hm as [E|Hm]; [subst st; discriminate H|destruct Hm as [E|E]; subst st; discriminate H]|].
  destruct H as [H|H]; [destruct H as (_ & H); right; left; exact H|left; exact H].
Qed.
Lemma moves_no_new_fault e n st st' : moves e n st st' -> is_faulty st' = true -> is_faulty st = true.
Proof.
  intros H Hf. apply moves_cases in H. destruct H as [H|H]; [rewrite <- H; exact Hf|].
  destruct H as [H|H]; [destruct H as (_ & H); destruct st'; discriminate|].
  destruct H as [H|H]; [destruct H as (_ & H); rewrite H in Hf; discriminate Hf|rewrite H in Hf; discriminate Hf].
Qed.

Theorem settled_run es : forall i i',
  inst_inv i -> Forall event_valid es -> forallb silent_event es = true -> settled i -> run_state i es = Some i' ->
  settled i' /\ length (i_ports i') = length (i_ports i) /\
  forall n pp pp', nth_error (i_ports i) n = Some pp -> nth_error (i_ports i') n = Some pp' ->
    (p_state pp = PMaster -> p_state pp' = PMaster) /\
    (mlf (p_state pp) -> mlf (p_state pp')) /\
    (is_faulty (p_state pp') = true -> is_faulty (p_state pp) = true).
Proof.
  induction es as [|e es IH]; intros i i' Hi Hes Hsil Hset Hrun; cbn [run_state] in Hrun.
  - inversion Hrun; subst i'. split; [exact Hset|]. split; [reflexivity|]. intros n pp pp' Hn Hn'. rewrite Hn in Hn'. inversion Hn'; subst. auto.
  - inversion Hes as [|? ? He Hes']; subst. cbn [forallb] in Hsil. apply andb_true_iff in Hsil as [Hs1 Hs2].
    destruct (step_ok i e Hi He) as (i1 & o1 & Hs & Hi1 & _). rewrite Hs in Hrun.
    destruct (settled_step i e i1 o1 Hi He Hs1 Hset Hs) as (Hset1 & Hl1 & Hm1).
    destruct (IH i1 i' Hi1 Hes' Hs2 Hset1 Hrun) as (Hset' & Hl' & Hm').
    split; [exact Hset'|]. split; [congruence|]. intros n pp pp' Hn Hn'.
    destruct (nth_error (i_ports i1) n) as [p1|] eqn:Hn1;
      [|apply nth_error_None in Hn1; assert (n < length (i_ports i))%nat by (apply nth_error_Some; rewrite Hn; discriminate); lia].
    pose proof (Hm1 n pp p1 Hn Hn1) as M1. destruct (Hm' n p1 pp' Hn1 Hn') as (A & B & C).
    split; [intros E; apply A; eapply moves_master; eauto|]. split; [intros E; apply B; eapply moves_mlf; eauto|].
    intros E. eapply moves_no_new_fault; [exact M1|]. apply C. exact E.
Qed.

(** * ageing: every stored Announce is one BMCA interval older after every BMCA run *)
Definition ages_ge (a : Z) (fml : list foreign_master) : Prop :=
  forall fm, In fm fml -> forall m, In m (fmr_msgs fm) -> a <= fm_age m.
Definition aged (a : Z) (pp : port) : Prop :=
  ages_ge a (p_fml pp) /\ forall age, p_multiport_disable pp = Some age -> a <= age.
Definition tidy (pp : port) : Prop :=
  fml_lt (port_ti pp) (p_fml pp) /\ (forall fm, In fm (p_fml pp) -> fmr_msgs fm <> []) /\
  forall age iv, p_multiport_disable pp = Some age -> dur_from_log_interval (pc_log_announce (p_config pp)) = Ok iv -> age < iv.

Lemma ages_take a l : ages_ge a l -> ages_ge a (fst (fml_take_qualified l)).
Proof.
  intros H fm1 Hin m Hm. destruct (take_sub l fm1 Hin) as (fm & Hfm & _ & _).
  unfold fml_take_qualified in Hin. cbn [fst] in Hin. rewrite map_map in Hin. apply in_map_iff in Hin as (fm0 & <- & Hin0).
  apply (H fm0 Hin0). unfold fm_take in Hm. destruct (_ <=? _)%nat; cbn [fst fmr_msgs] in Hm; [|exact Hm].
  destruct (fmr_msgs fm0) as [|x l0] using rev_ind; [destruct Hm|]. rewrite removelast_last in Hm. apply in_or_app. left. exact Hm.
Qed.

Lemma ages_register_found a own ti l h an age :
  ages_ge a l -> a <= age -> (exists fm, fml_find (h_source h) l = Some fm) -> ages_ge a (fml_register own ti l h an age).
Proof.
  intros H Ha (fm0 & Ff). unfold fml_register. destruct (negb _); [exact H|]. rewrite Ff.
  intros fm' Hin m Hm. apply fml_update_in in Hin as [Hin|(y & Hy & _ & ->)]; [exact (H fm' Hin m Hm)|].
  unfold fm_register in Hm. cbn [fmr_msgs] in Hm.
  assert (Hcase : m = mkFMsg h an age \/ In m (fmr_msgs y)).
  { destruct (_ <? _)%nat; apply in_app_or in Hm as [Hm|[<-|[]]]; auto; right; [|apply in_tl in Hm]; eapply in_purge; eauto. }
  destruct Hcase as [->|Hm']; [exact Ha|exact (H y Hy m Hm')].
Qed.

Lemma ages_take_best a own acc ti fml fml1 best :
  bmca_take_best own acc ti fml = Ok (fml1, best) -> fml_wf own fml -> ages_ge a fml -> ages_ge a fml1.
Proof.
  intros H Hwf Hag. pose proof H as H0. unfold bmca_take_best in H.
  destruct (fml_take_qualified fml) as [l1 taken] eqn:Et.
  assert (Hl1 : l1 = fst (fml_take_qualified fml)) by (rewrite Et; reflexivity).
  destruct (find_best _) as [[b|]|?] eqn:Ef; cbn [obind] in H; [| |discriminate].
  - inversion H; subst fml1 best; clear H.
    destruct (erbest_needs_two _ _ _ _ _ _ H0) as (fm & m & Hfm & _ & Hm & Hh & Ha & Hage).
    unfold fml_wf in Hwf. rewrite Forall_forall in Hwf. pose proof (Hwf fm Hfm) as Hfw. unfold fm_wf in Hfw. rewrite Forall_forall in Hfw.
    destruct (Hfw m Hm) as (Hsrc & _).
    unfold bmca_reregister. destruct (_ && _); [|rewrite Hl1; apply ages_take; exact Hag].
    apply ages_register_found; [rewrite Hl1; apply ages_take; exact Hag|rewrite Hage; exact (Hag fm Hfm m Hm)|].
    apply (fml_find_some _ _ (fst (fm_take fm))).
    + rewrite Hl1. unfold fml_take_qualified. cbn [fst]. rewrite map_map. apply in_map_iff. exists fm. split; [reflexivity|exact Hfm].
    + rewrite Hh, Hsrc. unfold fm_take. destruct (_ <=? _)%nat; reflexivity.
  - inversion H; subst fml1 best. rewrite Hl1. apply ages_take. exact Hag.
Qed.

Lemma ages_step_age a ti s l : ages_ge a l -> ages_ge (a + s) (fml_step_age ti s l).
Proof.
  intros H fm1 Hin m Hm. unfold fml_step_age in Hin. apply filter_In in Hin as [Hin _]. apply in_map_iff in Hin as (fm & <- & Hfm).
  unfold fm_step_age in Hm. cbn [fmr_msgs] in Hm. apply in_purge in Hm. apply in_map_iff in Hm as (m0 & <- & Hm0). cbn [fm_age].
  specialize (H fm Hfm m0 Hm0). lia.
Qed.

Lemma expired a ti s l : cutoff_age ti <= a -> ages_ge a (fml_step_age ti s l) -> fml_step_age ti s l = [].
Proof.
  intros Hc H. pose proof (fml_step_age_lt ti s l) as Hlt.
  assert (Hne : forall fm, In fm (fml_step_age ti s l) -> fmr_msgs fm <> []).
  { intros fm Hin. unfold fml_step_age in Hin. apply filter_In in Hin as [_ Hne]. intros E. rewrite E in Hne. discriminate Hne. }
  remember (fml_step_age ti s l) as r eqn:E. destruct r as [|fm rest]; [reflexivity|exfalso].
  specialize (Hne fm (or_introl eq_refl)). destruct (fmr_msgs fm) as [|m ms] eqn:Em; [contradiction Hne; reflexivity|].
  pose proof (H fm (or_introl eq_refl) m ltac:(rewrite Em; left; reflexivity)) as H1.
  unfold fml_lt in Hlt. inversion Hlt as [|? ? Hfm _]; subst. unfold fm_lt in Hfm. rewrite Em in Hfm. inversion Hfm; subst. lia.
Qed.

Lemma bmca_ports_back i i' o n pp' : bmca i = Ok (i', o) -> nth_error (i_ports i') n = Some pp' ->
  exists pp, nth_error (i_ports i) n = Some pp.
Proof.
  intros Hb Hn'. destruct (bmca_struct _ _ _ Hb) as (step & bps & ebest & bps1 & d1 & ports & _ & E1 & _ & E3 & E4 & ->).
  cbn [i_ports] in Hn'. apply (omap_list_rel _ (fun _ _ => True)) in E1; [|auto]. apply (omap_list_rel _ (fun _ _ => True)) in E4; [|auto].
  destruct (bmca_decide_spec _ _ _ _ _ _ E3) as (tail & Ht & F2 & _). cbn [app] in Ht. subst tail.
  apply F2_len in E1, E4, F2.
  assert (Hlt : (n < length (i_ports i))%nat) by (rewrite E1, F2, E4; apply nth_error_Some; rewrite Hn'; discriminate).
  destruct (nth_error (i_ports i) n) as [pp|] eqn:Hn; [eauto|apply nth_error_None in Hn; lia].
Qed.

Definition all_ports_sat (P : port -> Prop) (i : instance) : Prop := forall n pp, nth_error (i_ports i) n = Some pp -> P pp.

Lemma aged_bmca i i' o a stepd :
  inst_inv i -> bmca i = Ok (i', o) -> bmca_interval_dur (i_log_bmca i) = Ok stepd ->
  all_ports_sat (aged a) i -> all_ports_sat (aged (a + stepd)) i' /\ all_ports_sat tidy i'.
Proof.
  intros Hi Hb Hst Hag.
  assert (Hboth : forall n pp', nth_error (i_ports i') n = Some pp' -> aged (a + stepd) pp' /\ tidy pp').
  { intros n pp' Hn'. destruct (bmca_ports_back i i' o n pp' Hb Hn') as (pp & Hn).
    destruct (bmca_port6 i i' o n pp Hb Hn) as (pp2 & stepd2 & fml1 & best & iv & Hn2 & Hst2 & Htb & Hiv & Hf & Hc & Hm & _).
    rewrite Hn' in Hn2. inversion Hn2; subst pp2. rewrite Hst in Hst2. inversion Hst2; subst stepd2.
    destruct (Hag n pp Hn) as [Ha1 Ha2].
    assert (Hpi : port_inv pp) by (destruct Hi as (Hports & _); rewrite Forall_forall in Hports; apply Hports; eapply nth_error_In; eauto).
    assert (Hwf : fml_wf (p_identity pp) (p_fml pp)) by (destruct Hpi as (_ & _ & _ & _ & (Hw & _) & _); exact Hw).
    assert (Hti : port_ti pp' = port_ti pp) by (unfold port_ti; rewrite Hc; reflexivity).
    split; [split|split; [|split]].
    - rewrite Hf. apply ages_step_age. eapply ages_take_best; eauto.
    - intros age Hage. rewrite Hm in Hage. destruct (p_multiport_disable pp) as [age0|]; [|discriminate].
      destruct (age0 + stepd <? iv); inversion Hage; subst. specialize (Ha2 age0 eq_refl). lia.
    - rewrite Hti, Hf. apply fml_step_age_lt.
    - rewrite Hf. intros fm Hin. unfold fml_step_age in Hin. apply filter_In in Hin as [_ Hne]. intros E. rewrite E in Hne. discriminate Hne.
    - intros age iv2 Hage Hiv2. rewrite Hc, Hiv in Hiv2. inversion Hiv2; subst iv2. rewrite Hm in Hage.
      destruct (p_multiport_disable pp) as [age0|]; [|discriminate]. destruct (age0 + stepd <? iv) eqn:E; inversion Hage; subst. lia. }
  split; intros n pp' Hn'; apply (Hboth n pp' Hn').
Qed.

Lemma keep_sat (P : port -> Prop) i n f i' o :
  on_port i n f = Ok (i', o) ->
  (forall pp pp' d' oo, f pp (i_ds i) = Ok (pp', d', oo) -> P pp -> P pp') ->
  all_ports_sat P i -> all_ports_sat P i'.
Proof.
  intros Hop HP Hall m pp' Hm'.
  destruct (on_port_full i n f i' o Hop) as [(_ & ->)|(pp0 & pp0' & d' & oo & Hn & Hh & ->)]; [exact (Hall m pp' Hm')|].
  cbn [i_ports] in Hm'. destruct (Nat.eq_dec m n) as [->|Hne].
  - rewrite nth_error_update_same in Hm' by (apply nth_error_Some; rewrite Hn; discriminate). inversion Hm'; subst pp'.
    eapply HP; [exact Hh|exact (Hall n pp0 Hn)].
  - rewrite nth_error_update_other in Hm' by (intros E; apply Hne; symmetry; exact E). exact (Hall m pp' Hm').
Qed.

Lemma aged_same a pp pp' : p_fml pp' = p_fml pp -> p_multiport_disable pp' = p_multiport_disable pp -> aged a pp -> aged a pp'.
Proof. intros Hf Hm [A B]. split; [rewrite Hf; exact A|rewrite Hm; exact B]. Qed.
Lemma tidy_same pp pp' : p_fml pp' = p_fml pp -> p_multiport_disable pp' = p_multiport_disable pp -> p_config pp' = p_config pp -> tidy pp -> tidy pp'.
Proof. intros Hf Hm Hc (A & B & C). unfold tidy, port_ti. rewrite Hf, Hm, Hc. split; [exact A|split; [exact B|exact C]]. Qed.

Definition count_bmca (es : list event) : nat := length (filter (fun e => match e with EvBmca => true | _ => false end) es).

(** one silent event: the stored Announces of every port are one BMCA interval
    older after a BMCA run, and exactly as old as before after anything else *)
Lemma ageing_step i e i' o a stepd :
  inst_inv i -> event_valid e -> silent_event e = true -> step i e = Ok (i', o) ->
  bmca_interval_dur (i_log_bmca i) = Ok stepd ->
  all_ports_sat (aged a) i ->
  i_log_bmca i' = i_log_bmca i /\
  all_ports_sat (aged (a + Z.of_nat (count_bmca [e]) * stepd)) i' /\
  (all_ports_sat tidy i \/ e = EvBmca -> all_ports_sat tidy i').
Proof.
  intros Hi He Hsil Hs Hst Hag.
  assert (Hport : forall n f, on_port i n f = Ok (i', o) ->
            (forall p, keeps_fml p (f p (i_ds i))) -> (forall p, keeps_mp p (f p (i_ds i))) -> e <> EvBmca -> count_bmca [e] = 0%nat ->
            i_log_bmca i' = i_log_bmca i /\ all_ports_sat (aged (a + Z.of_nat (count_bmca [e]) * stepd)) i' /\
            (all_ports_sat tidy i \/ e = EvBmca -> all_ports_sat tidy i')).
  { intros n f Hop Hkf Hkm Hnb Hc. rewrite Hc. replace (a + Z.of_nat 0 * stepd) with a by lia. split; [|split].
    - destruct (on_port_full i n f i' o Hop) as [(_ & ->)|(pp0 & pp0' & d' & oo & _ & _ & ->)]; reflexivity.
    - apply (keep_sat (aged a) i n f i' o Hop); [|exact Hag]. intros pp pp' d' oo Hx. apply aged_same; [eapply Hkf; eauto|eapply Hkm; eauto].
    - intros [Ht|E]; [|contradiction]. intros m pp' Hm'.
      destruct (on_port_full i n f i' o Hop) as [(_ & ->)|(pp0 & pp0' & d' & oo & Hn & Hh & Hi')]; [exact (Ht m pp' Hm')|].
      destruct (Nat.eq_dec m n) as [->|Hne].
      + assert (pp' = pp0') by (subst i'; cbn [i_ports] in Hm'; rewrite nth_error_update_same in Hm' by (apply nth_error_Some; rewrite Hn; discriminate); inversion Hm'; reflexivity).
        subst pp'. apply (tidy_same pp0); [eapply Hkf; eauto|eapply Hkm; eauto| |exact (Ht n pp0 Hn)].
        eapply (step_cfg i e i' o n pp0 pp0'); eauto.
      + subst i'. cbn [i_ports] in Hm'. rewrite nth_error_update_other in Hm' by (intros E; apply Hne; symmetry; exact E). exact (Ht m pp' Hm'). }
  destruct e; cbn [step event_valid silent_event] in *; try discriminate Hsil.
  - apply (Hport p _ Hs); try discriminate; try reflexivity; intros pp;
      [intros p' d' oo Hx; unfold handle_send_timestamp in Hx; destruct ctx;
        [eapply handle_sync_timestamp_fml|eapply handle_delay_timestamp_fml|eapply handle_pdelay_timestamp_fml|eapply handle_pdelay_response_timestamp_fml]; eauto
      |apply send_timestamp_mp].
  - apply (Hport p _ Hs); try discriminate; try reflexivity; intros pp; [apply send_announce_fml|apply send_announce_mp].
  - apply (Hport p _ Hs); try discriminate; try reflexivity; intros pp; [apply send_sync_fml|apply send_sync_mp].
  - apply (Hport p _ Hs); try discriminate; try reflexivity; intros pp; [apply send_delay_request_fml|apply send_delay_request_mp].
  - apply (Hport p _ Hs); try discriminate; try reflexivity; intros pp; [apply receipt_timer_fml|apply receipt_timer_mp].
  - apply (Hport p _ Hs); try discriminate; try reflexivity; intros pp.
    + intros p' d' oo Hx. unfold handle_filter_update_timer, ret in Hx. inversion Hx; reflexivity.
    + intros p' d' oo Hx. unfold handle_filter_update_timer, ret in Hx. inversion Hx; reflexivity.
  - destruct (aged_bmca i i' o a stepd Hi Hs Hst Hag) as [A B]. split; [apply (bmca_log i i' o Hs)|].
    replace (a + Z.of_nat (count_bmca [EvBmca]) * stepd) with (a + stepd) by (cbn; lia). split; [exact A|intros _; exact B].
  - inversion Hs; subst. split; [reflexivity|]. replace (a + Z.of_nat (count_bmca [EvTick ns]) * stepd) with a by (cbn; lia).
    split; [exact Hag|]. intros [Ht|E]; [exact Ht|discriminate E].
Qed.

Lemma count_bmca_cons e es : count_bmca (e :: es) = (count_bmca [e] + count_bmca es)%nat.
Proof. unfold count_bmca. cbn [filter]. destruct e; cbn [length]; reflexivity. Qed.

Theorem ageing_run es : forall i i' a stepd,
  inst_inv i -> Forall event_valid es -> forallb silent_event es = true -> run_state i es = Some i' ->
  bmca_interval_dur (i_log_bmca i) = Ok stepd -> all_ports_sat (aged a) i ->
  inst_inv i' /\ i_log_bmca i' = i_log_bmca i /\
  all_ports_sat (aged (a + Z.of_nat (count_bmca es) * stepd)) i' /\
  (all_ports_sat tidy i \/ (1 <= count_bmca es)%nat -> all_ports_sat tidy i').
Proof.
  induction es as [|e es IH]; intros i i' a stepd Hi Hes Hsil Hrun Hst Hag; cbn [run_state] in Hrun.
  - inversion Hrun; subst i'. split; [exact Hi|]. split; [reflexivity|]. replace (a + Z.of_nat (count_bmca []) * stepd) with a by (cbn; lia).
    split; [exact Hag|]. intros [H|H]; [exact H|cbn in H; lia].
  - inversion Hes as [|? ? He Hes']; subst. cbn [forallb] in Hsil. apply andb_true_iff in Hsil as [Hs1 Hs2].
    destruct (step_ok i e Hi He) as (i1 & o1 & Hs & Hi1 & _). rewrite Hs in Hrun.
    destruct (ageing_step i e i1 o1 a stepd Hi He Hs1 Hs Hst Hag) as (L1 & A1 & T1).
    rewrite <- L1 in Hst.
    destruct (IH i1 i' _ stepd Hi1 Hes' Hs2 Hrun Hst A1) as (Hi' & L' & A' & T').
    split; [exact Hi'|]. split; [congruence|]. rewrite count_bmca_cons. split.
    + replace (a + Z.of_nat (count_bmca [e] + count_bmca es) * stepd) with (a + Z.of_nat (count_bmca [e]) * stepd + Z.of_nat (count_bmca es) * stepd) by lia. exact A'.
    + intros [H|H].
      * apply T'. left. apply T1. left. exact H.
      * destruct (count_bmca [e]) eqn:Ec.
        -- apply T'. right. lia.
        -- apply T'. left. apply T1. right. destruct e; cbn in Ec; try discriminate Ec. reflexivity.
Qed.

(** enough BMCA runs: nothing is left *)
Lemma aged_out pp a :
  port_inv pp -> aged a pp -> tidy pp -> cutoff_age (port_ti pp) <= a ->
  p_fml pp = [] /\ p_multiport_disable pp = None.
Proof.
  intros Hpi [A1 A2] (T1 & T2 & T3) Hc.
  assert (Hla : -7 <= pc_log_announce (p_config pp) <= 7) by (destruct Hpi as ((Hx & _) & _); exact Hx).
  destruct (cutoff_pos pp Hla) as (_ & Hcut & Hpos). split.
  - destruct (p_fml pp) as [|fm rest] eqn:E; [reflexivity|exfalso].
    pose proof (T2 fm (or_introl eq_refl)) as Hne. destruct (fmr_msgs fm) as [|m ms] eqn:Em; [contradiction Hne; reflexivity|].
    pose proof (A1 fm (or_introl eq_refl) m ltac:(rewrite Em; left; reflexivity)) as H1.
    unfold fml_lt in T1. inversion T1 as [|? ? Hfm _]; subst. unfold fm_lt in Hfm. rewrite Em in Hfm. inversion Hfm; subst. lia.
  - destruct (p_multiport_disable pp) as [age|] eqn:E; [exfalso|reflexivity].
    destruct (interval_facts _ Hla) as (Hiv & _). pose proof (A2 age eq_refl) as H1.
    pose proof (T3 age _ eq_refl Hiv) as H2. rewrite Hcut in Hc. lia.
Qed.

(** * stored ages are never negative, in every reachable state *)
Lemma ages_register0 own ti l h an : ages_ge 0 l -> ages_ge 0 (fml_register own ti l h an 0).
Proof.
  intros H. unfold fml_register. destruct (negb _); [exact H|].
  destruct (fml_find (h_source h) l) as [fm0|].
  - intros fm' Hin m Hm. apply fml_update_in in Hin as [Hin|(y & Hy & _ & ->)]; [exact (H fm' Hin m Hm)|].
    unfold fm_register in Hm. cbn [fmr_msgs] in Hm.
    assert (Hcase : m = mkFMsg h an 0 \/ In m (fmr_msgs y)).
    { destruct (_ <? _)%nat; apply in_app_or in Hm as [Hm|[<-|[]]]; auto; right; [|apply in_tl in Hm]; eapply in_purge; eauto. }
    destruct Hcase as [->|Hm']; [cbn; lia|exact (H y Hy m Hm')].
  - destruct (_ <? _)%nat; [|exact H]. intros fm' Hin m Hm. apply in_app_or in Hin as [Hin|[<-|[]]]; [exact (H fm' Hin m Hm)|].
    cbn [fmr_msgs] in Hm. destruct Hm as [<-|[]]. cbn. lia.
Qed.

Lemma aged_weaken a b pp : b <= a -> aged a pp -> aged b pp.
Proof. intros Hle [A B]. split; [intros fm Hf m Hm; specialize (A fm Hf m Hm); lia|intros age E; specialize (B age E); lia]. Qed.

Lemma aged0_step i e i' o :
  inst_inv i -> event_valid e -> step i e = Ok (i', o) -> all_ports_sat (aged 0) i -> all_ports_sat (aged 0) i'.
Proof.
  intros Hi He Hs Hag.
  assert (Hlog : -7 <= i_log_bmca i <= 7) by (destruct Hi as (_ & _ & _ & _ & _ & Hx & _); exact Hx).
  destruct (interval_facts _ Hlog) as (_ & Hst & _ & _ & Hpos).
  assert (Hrecv : forall n frame f,
            (forall pp d, f pp d = handle_general_receive pp d (port_ti pp) frame \/
                          exists ts, f pp d = handle_event_receive pp d (port_ti pp) frame ts) ->
            on_port i n f = Ok (i', o) -> all_ports_sat (aged 0) i').
  { intros n frame f Hf Hop. apply (keep_sat (aged 0) i n f i' o Hop); [|exact Hag].
    intros pp pp' d' oo Hx [A B].
    destruct (recv_fm pp (i_ds i) (port_ti pp) frame pp' d' oo (f pp (i_ds i)) (Hf pp (i_ds i)) Hx) as [[F M]|(m & a & o2 & _ & _ & _ & _ & _ & Ha)].
    - apply (aged_same 0 pp); [exact F|exact M|split; assumption].
    - destruct (handle_announce_fm _ _ _ _ _ _ _ _ Ha) as [[F M]|(_ & F & M)].
      + apply (aged_same 0 pp); [exact F|exact M|split; assumption].
      + split; [rewrite F; apply ages_register0; exact A|].
        intros age E. destruct M as [M|(M & _)]; rewrite M in E; [exact (B age E)|inversion E; lia]. }
  destruct (silent_event e) eqn:Hsil.
  - destruct (ageing_step i e i' o 0 _ Hi He Hsil Hs Hst Hag) as (_ & A & _).
    intros n pp Hn. apply (aged_weaken (0 + Z.of_nat (count_bmca [e]) * dur_of_log (i_log_bmca i))); [lia|exact (A n pp Hn)].
  - destruct e; cbn [silent_event step] in *; try discriminate Hsil.
    + apply (Hrecv p frame _ (fun pp d => or_intror (ex_intro _ ts eq_refl))). exact Hs.
    + apply (Hrecv p frame _ (fun pp d => or_introl eq_refl)). exact Hs.
    + inversion Hs; subst. exact Hag.
    + inversion Hs; subst. exact Hag.
Qed.

Lemma aged0_run es : forall i i',
  inst_inv i -> Forall event_valid es -> run_state i es = Some i' -> all_ports_sat (aged 0) i ->
  inst_inv i' /\ all_ports_sat (aged 0) i' /\ i_log_bmca i' = i_log_bmca i.
Proof.
  induction es as [|e es IH]; intros i i' Hi Hes Hrun Hag; cbn [run_state] in Hrun.
  - inversion Hrun; subst. auto.
  - inversion Hes as [|? ? He Hes']; subst.
    destruct (step_ok i e Hi He) as (i1 & o1 & Hs & Hi1 & _). rewrite Hs in Hrun.
    destruct (IH i1 i' Hi1 Hes' Hrun (aged0_step i e i1 o1 Hi He Hs Hag)) as (A & B & C).
    split; [exact A|]. split; [exact B|]. rewrite C.
    destruct e; cbn [step] in Hs;
      try (match type of Hs with on_port _ ?n ?f = _ =>
             destruct (on_port_full i n f i1 o1 Hs) as [(_ & ->)|(pp0 & pp0' & d' & oo & _ & _ & ->)]; reflexivity end).
    + apply (bmca_log i i1 o1 Hs).
    + inversion Hs; subst. reflexivity.
    + inversion Hs; subst. reflexivity.
    + inversion Hs; subst. reflexivity.
Qed.

Lemma run_state_app es1 : forall es2 i i', run_state i (es1 ++ es2) = Some i' ->
  exists i1, run_state i es1 = Some i1 /\ run_state i1 es2 = Some i'.
Proof.
  induction es1 as [|e es1 IH]; intros es2 i i' H; cbn [app run_state] in *; [eauto|].
  destruct (step i e) as [[i1 o1]|?]; [|discriminate]. apply IH. exact H.
Qed.

(** Silence settles: from ANY reachable state, after silent events that contain
    enough BMCA runs for four announce intervals of every port, every
    foreign-master list is empty and every multiport block has lapsed; if the
    instance is not slave-only it is [settled], and [settled_step] /
    [settled_run] apply to everything that follows. *)
Theorem silence_settles s es0 es i0 o0 i' stepd :
  setup_valid s -> Forall event_valid es0 -> Forall event_valid es -> forallb silent_event es = true ->
  init s = Ok (i0, o0) -> run_state i0 (es0 ++ es) = Some i' ->
  bmca_interval_dur (i_log_bmca i0) = Ok stepd ->
  (1 <= count_bmca es)%nat ->
  (forall pp', In pp' (i_ports i') -> cutoff_age (port_ti pp') <= Z.of_nat (count_bmca es) * stepd) ->
  Forall (fun pp => p_fml pp = [] /\ p_multiport_disable pp = None) (i_ports i') /\
  (dd_slave_only (ds_default (i_ds i')) = false -> settled i').
Proof.
  intros Hs Hes0 Hes Hsil Hinit Hrun Hst Hk Hcut.
  destruct (init_ok s Hs) as (i0' & o0' & Hi0 & Hinv00 & _). rewrite Hinit in Hi0. inversion Hi0; subst i0' o0'.
  destruct (run_state_app es0 es i0 i' Hrun) as (i1 & Hr0 & Hr1).
  assert (Hf : Forall (fun p => p_fml p = [] /\ p_multiport_disable p = None) (i_ports i0)).
  { unfold init in Hinit. eapply add_ports_fresh; [|exact Hinit]. constructor. }
  assert (Hag0 : all_ports_sat (aged 0) i0).
  { intros n pp Hn. rewrite Forall_forall in Hf. destruct (Hf pp (nth_error_In _ _ Hn)) as [F1 F2].
    split; [rewrite F1; intros fm []|rewrite F2; intros age E; discriminate E]. }
  destruct (aged0_run es0 i0 i1 Hinv00 Hes0 Hr0 Hag0) as (Hi1 & Hag1 & Hl1).
  rewrite <- Hl1 in Hst.
  destruct (ageing_run es i1 i' 0 stepd Hi1 Hes Hsil Hr1 Hst Hag1) as (Hi' & _ & A & T).
  specialize (T (or_intror Hk)).
  assert (Hall : Forall (fun pp => p_fml pp = [] /\ p_multiport_disable pp = None) (i_ports i')).
  { apply Forall_forall. intros pp' Hin. destruct (In_nth_error _ _ Hin) as (n & Hn).
    apply (aged_out pp' (0 + Z.of_nat (count_bmca es) * stepd)); [|exact (A n pp' Hn)|exact (T n pp' Hn)|specialize (Hcut pp' Hin); lia].
    destruct Hi' as (Hports & _). rewrite Forall_forall in Hports. apply Hports. exact Hin. }
  split; [exact Hall|]. intros Hso. split; assumption.
Qed.

Lemma run_state_inv es : forall i i', inst_inv i -> Forall event_valid es -> run_state i es = Some i' -> inst_inv i'.
Proof.
  induction es as [|e es IH]; intros i i' Hi Hes Hrun; cbn [run_state] in Hrun; [inversion Hrun; subst; exact Hi|].
  inversion Hes as [|? ? He Hes']; subst. destruct (step_ok i e Hi He) as (i1 & o1 & Hs & Hi1 & _). rewrite Hs in Hrun.
  exact (IH i1 i' Hi1 Hes' Hrun).
Qed.

(** In a settled instance a port is MASTER for good once a BMCA run finds it
    neither LISTENING nor FAULTY, or its announce receipt timer fires while it is
    not FAULTY - whatever silent events come before and after. *)
Theorem settled_reach_master es1 e es2 i i' n :
  inst_inv i -> Forall event_valid (es1 ++ e :: es2) -> forallb silent_event (es1 ++ e :: es2) = true -> settled i ->
  run_state i (es1 ++ e :: es2) = Some i' ->
  (forall i1 pp1, run_state i es1 = Some i1 -> nth_error (i_ports i1) n = Some pp1 ->
     (e = EvBmca /\ is_faulty (p_state pp1) = false /\ is_listening (p_state pp1) = false) \/
     (e = EvAnnounceReceiptTimer n /\ is_faulty (p_state pp1) = false)) ->
  forall pp', nth_error (i_ports i') n = Some pp' -> p_state pp' = PMaster.
Proof.
  intros Hi Hes Hsil Hset Hrun Hcond pp' Hn'.
  apply Forall_app in Hes as [Hes1 Hes2]. inversion Hes2 as [|? ? He Hes2']; subst.
  rewrite forallb_app in Hsil. apply andb_true_iff in Hsil as [Hs1 Hs2]. cbn [forallb] in Hs2. apply andb_true_iff in Hs2 as [Hse Hs2].
  destruct (run_state_app es1 (e :: es2) i i' Hrun) as (i1 & Hr1 & Hr2).
  pose proof (run_state_inv es1 i i1 Hi Hes1 Hr1) as Hi1.
  destruct (settled_run es1 i i1 Hi Hes1 Hs1 Hset Hr1) as (Hset1 & Hl1 & _).
  cbn [run_state] in Hr2. destruct (step_ok i1 e Hi1 He) as (i2 & o2 & Hs & Hi2 & _). rewrite Hs in Hr2.
  destruct (settled_step i1 e i2 o2 Hi1 He Hse Hset1 Hs) as (Hset2 & Hl2 & Hm2).
  destruct (settled_run es2 i2 i' Hi2 Hes2' Hs2 Hset2 Hr2) as (_ & Hl' & Hm').
  destruct (nth_error (i_ports i2) n) as [pp2|] eqn:Hn2;
    [|apply nth_error_None in Hn2; assert (n < length (i_ports i'))%nat by (apply nth_error_Some; rewrite Hn'; discriminate); lia].
  destruct (nth_error (i_ports i1) n) as [pp1|] eqn:Hn1;
    [|apply nth_error_None in Hn1; assert (n < length (i_ports i2))%nat by (apply nth_error_Some; rewrite Hn2; discriminate); lia].
  destruct (Hm' n pp2 pp' Hn2 Hn') as (Hstay & _). apply Hstay.
  destruct (Hm2 n pp1 pp2 Hn1 Hn2) as (_ & Hb & Hrt).
  destruct (Hcond i1 pp1 Hr1 Hn1) as [(-> & Hf & Hl)|(-> & Hf)].
  - rewrite (Hb eq_refl), Hf, Hl. reflexivity.
  - exact (Hrt eq_refl Hf).
Qed.
