(** C11, clause (d) of the oracle for whole histories: [ok_C11d] accepts the
    trace the model produces, for every valid set-up and every valid event list.

    "The attributes LAST announced by its parent": a BMCA run that leaves the
    slave port slave of the same parent re-applies the newest stored Announce of
    that parent; the invariant [K] says that this is the Announce whose contents
    the data sets hold (it was applied on receipt AND stored), as long as the
    sequence ids of that master on that port have moved by less than 2^15 in
    total.  Needs: stored Announces are ordered by age (the newest is the
    youngest, so ageing never removes it before the older ones), ages are never
    negative, identities in a list are distinct (from the C06 invariant). *)
From SV Require Export Port.SilenceC12 Port.OracleC11.
From SV Require Import Port.MainC11b.
From Coq Require Import Sorting.Sorted.
Local Open Scope Z_scope.

(** * boolean equalities are equalities *)
Lemma bool_eqb_eq a b : bool_eqb a b = true -> a = b.
Proof. destruct a, b; cbn; intros H; congruence. Qed.

Lemma header_eqb_eq a b : header_eqb a b = true -> a = b.
Proof.
  unfold header_eqb. intros H.
  repeat match type of H with (_ && _) = true => let H2 := fresh "Hx" in apply andb_true_iff in H as [H H2] end.
  repeat match goal with Hx : (_ =? _) = true |- _ => apply Z.eqb_eq in Hx end.
  repeat match goal with Hx : bool_eqb _ _ = true |- _ => apply bool_eqb_eq in Hx end.
  match goal with Hx : pi_eqb _ _ = true |- _ => apply pi_eqb_eq in Hx end.
  destruct a, b; cbn in *; subst; reflexivity.
Qed.

Lemma ann_eqb_eq a b : ann_eqb a b = true -> a = b.
Proof.
  unfold ann_eqb, ts_eqb, cq_eqb. intros H.
  repeat match type of H with (_ && _) = true => let H2 := fresh "Hx" in apply andb_true_iff in H as [H H2] end.
  repeat match goal with Hx : (_ && _) = true |- _ => let H2 := fresh "Hy" in apply andb_true_iff in Hx as [Hx H2] end.
  repeat match goal with Hx : (_ =? _) = true |- _ => apply Z.eqb_eq in Hx end.
  destruct a as [o u p1 q p2 g s t], b as [o' u' p1' q' p2' g' s' t']; destruct o, o', q, q'; cbn in *; subst; reflexivity.
Qed.

(** * the oracle's list of masters heard *)
Lemma entry_note_same p src seq l :
  entry11 p src (note11 p src seq l) =
  Some (match entry11 p src l with
        | Some x => let t := sn_travel x + (seq - sn_seq x) mod 65536 in mkSeen p src seq t (sn_ok x && (t <? 32767))
        | None => mkSeen p src seq 0 true
        end).
Proof.
  unfold entry11. induction l as [|x l IH]; cbn [note11 find].
  - rewrite Nat.eqb_refl, pi_eqb_refl. reflexivity.
  - destruct (Nat.eqb (sn_port x) p && pi_eqb (sn_src x) src) eqn:E; cbn [find sn_port sn_src].
    + rewrite Nat.eqb_refl, pi_eqb_refl. reflexivity.
    + rewrite E. exact IH.
Qed.

Lemma entry_note_other p src seq l q s :
  (q <> p \/ s <> src) -> entry11 q s (note11 p src seq l) = entry11 q s l.
Proof.
  intros Hne. unfold entry11.
  assert (Hf : (Nat.eqb p q && pi_eqb src s) = false).
  { destruct Hne as [H|H].
    - assert (E : Nat.eqb p q = false) by (apply Nat.eqb_neq; intros E; apply H; symmetry; exact E). rewrite E. reflexivity.
    - rewrite (pi_eqb_false src s) by (intros E; apply H; symmetry; exact E). apply andb_false_r. }
  induction l as [|x l IH]; cbn [note11 find sn_port sn_src].
  - rewrite Hf; reflexivity.
  - destruct (Nat.eqb (sn_port x) p && pi_eqb (sn_src x) src) eqn:E; cbn [find sn_port sn_src].
    + apply andb_true_iff in E as [E1 E2]. apply Nat.eqb_eq in E1. apply pi_eqb_eq in E2.
      rewrite Hf. rewrite E1, E2, Hf. reflexivity.
    + destruct (Nat.eqb (sn_port x) q && pi_eqb (sn_src x) s); [reflexivity|exact IH].
Qed.

(** * stored Announces are ordered by age: later in the list = younger *)
Definition sorted_msgs (msgs : list foreign_msg) : Prop := StronglySorted (fun a b => fm_age b <= fm_age a) msgs.
Definition sorted_fml (l : list foreign_master) : Prop := forall fm, In fm l -> sorted_msgs (fmr_msgs fm).

Lemma sorted_app_one msgs m : sorted_msgs msgs -> (forall x, In x msgs -> fm_age m <= fm_age x) -> sorted_msgs (msgs ++ [m]).
Proof.
  unfold sorted_msgs. induction 1 as [|a l Hl IH Ha]; intros Hm; cbn [app].
  - constructor; constructor.
  - constructor; [apply IH; intros x Hx; apply Hm; right; exact Hx|].
    apply Forall_app. split; [exact Ha|]. constructor; [apply Hm; left; reflexivity|constructor].
Qed.
Lemma sorted_filter f msgs : sorted_msgs msgs -> sorted_msgs (filter f msgs).
Proof.
  unfold sorted_msgs. induction 1 as [|a l Hl IH Ha]; cbn [filter]; [constructor|].
  destruct (f a); [|exact IH]. constructor; [exact IH|]. rewrite Forall_forall in *. intros x Hx. apply filter_In in Hx as [Hx _]. apply Ha. exact Hx.
Qed.
Lemma sorted_map_age s msgs : sorted_msgs msgs ->
  sorted_msgs (map (fun m => mkFMsg (fm_header m) (fm_ann m) (fm_age m + s)) msgs).
Proof.
  unfold sorted_msgs. induction 1 as [|a l Hl IH Ha]; cbn [map]; [constructor|].
  constructor; [exact IH|]. rewrite Forall_forall in *. intros x Hx. apply in_map_iff in Hx as (y & <- & Hy). cbn [fm_age]. specialize (Ha y Hy). lia.
Qed.
Lemma sorted_tl msgs : sorted_msgs msgs -> sorted_msgs (tl msgs).
Proof. unfold sorted_msgs. intros H. destruct msgs; cbn; [constructor|]. inversion H; assumption. Qed.
Lemma sorted_removelast msgs : sorted_msgs msgs -> sorted_msgs (removelast msgs).
Proof.
  unfold sorted_msgs. induction 1 as [|a l Hl IH Ha]; cbn [removelast]; [constructor|].
  destruct l as [|b l']; [constructor|]. constructor; [exact IH|].
  rewrite Forall_forall in *. intros x Hx. apply Ha.
  assert (Hin : forall (l0 : list foreign_msg) y, In y (removelast l0) -> In y l0).
  { induction l0 as [|z l0 IH0]; cbn; [auto|]. destruct l0; [intros y []|]. intros y [->|Hy]; [left; reflexivity|right; apply IH0; exact Hy]. }
  apply Hin. exact Hx.
Qed.
Lemma sorted_last_min msgs m : sorted_msgs msgs -> last (map Some msgs) None = Some m ->
  forall x, In x msgs -> fm_age m <= fm_age x.
Proof.
  unfold sorted_msgs. induction 1 as [|a l Hl IH Ha]; cbn [map last]; [discriminate|].
  destruct l as [|b l'].
  - cbn. intros E x [<-|[]]. inversion E; subst. lia.
  - intros E x [<-|Hx].
    + rewrite Forall_forall in Ha. apply Ha.
      clear - E. revert b E. induction l' as [|c l' IH']; intros b E; cbn in E; [inversion E; left; reflexivity|].
      right. apply (IH' c). exact E.
    + apply IH; [exact E|exact Hx].
Qed.

Lemma last_app_one {A} (l : list A) x : last (map Some (l ++ [x])) None = Some x.
Proof. rewrite map_app. cbn [map]. apply last_last. Qed.

Lemma last_in {A} (l : list A) m : last (map Some l) None = Some m -> In m l.
Proof.
  induction l as [|a l IH]; cbn [map last]; [discriminate|]. destruct l as [|b l'].
  - cbn. intros E. inversion E. left. reflexivity.
  - intros E. right. apply IH. exact E.
Qed.

(** filtering by "younger than the cut-off" never removes the newest message
    while it keeps an older one *)
Lemma last_purge ti msgs m m' : sorted_msgs msgs -> last (map Some msgs) None = Some m ->
  last (map Some (purge_old ti msgs)) None = Some m' -> m' = m.
Proof.
  intros Hs Hl Hl'. pose proof (last_in _ _ Hl') as Hin. apply in_purge in Hin as Hin0.
  unfold purge_old in Hin. apply filter_In in Hin as [_ Hyoung].
  pose proof (sorted_last_min msgs m Hs Hl m' Hin0) as Hle.
  (* m survives as well, and it is the last element *)
  destruct msgs as [|a l] using rev_ind; [discriminate Hl|]. clear IHl.
  rewrite last_app_one in Hl. inversion Hl; subst a.
  unfold purge_old in Hl'. rewrite filter_app in Hl'. cbn [filter] in Hl'.
  assert (E : (fm_age m <? cutoff_age ti) = true) by lia. rewrite E in Hl'. rewrite last_app_one in Hl'. inversion Hl'; reflexivity.
Qed.

Lemma sorted_fm_register ti fm h a age :
  sorted_msgs (fmr_msgs fm) -> (forall x, In x (fmr_msgs fm) -> age <= fm_age x) ->
  sorted_msgs (fmr_msgs (fm_register ti fm h a age)).
Proof.
  intros Hs Hmin. unfold fm_register. cbn [fmr_msgs].
  assert (Hp : sorted_msgs (purge_old ti (fmr_msgs fm))) by (apply sorted_filter; exact Hs).
  assert (Hpm : forall x, In x (purge_old ti (fmr_msgs fm)) -> age <= fm_age x) by (intros x Hx; apply Hmin; eapply in_purge; eauto).
  destruct (_ <? _)%nat; apply sorted_app_one; auto.
  - apply sorted_tl. exact Hp.
  - intros x Hx. apply Hpm. apply in_tl. exact Hx.
Qed.

Lemma sorted_fml_register own ti l h a age :
  sorted_fml l -> (forall fm, In fm l -> fmr_identity fm = h_source h -> forall x, In x (fmr_msgs fm) -> age <= fm_age x) ->
  sorted_fml (fml_register own ti l h a age).
Proof.
  intros Hs Hmin. unfold fml_register. destruct (negb _); [exact Hs|].
  destruct (fml_find (h_source h) l) as [fm0|].
  - intros fm' Hin. apply fml_update_in in Hin as [Hin|(y & Hy & Hid & ->)]; [exact (Hs fm' Hin)|].
    apply sorted_fm_register; [exact (Hs y Hy)|exact (Hmin y Hy Hid)].
  - destruct (_ <? _)%nat; [|exact Hs]. intros fm' Hin. apply in_app_or in Hin as [Hin|[<-|[]]]; [exact (Hs fm' Hin)|].
    cbn [fmr_msgs]. constructor; constructor.
Qed.

Lemma sorted_take l : sorted_fml l -> sorted_fml (fst (fml_take_qualified l)).
Proof.
  intros Hs fm1 Hin. unfold fml_take_qualified in Hin. cbn [fst] in Hin. rewrite map_map in Hin. apply in_map_iff in Hin as (fm & <- & Hfm).
  unfold fm_take. destruct (_ <=? _)%nat; cbn [fst fmr_msgs]; [apply sorted_removelast|]; exact (Hs fm Hfm).
Qed.

Lemma sorted_step_age ti s l : sorted_fml l -> sorted_fml (fml_step_age ti s l).
Proof.
  intros Hs fm1 Hin. unfold fml_step_age in Hin. apply filter_In in Hin as [Hin _]. apply in_map_iff in Hin as (fm & <- & Hfm).
  unfold fm_step_age. cbn [fmr_msgs]. apply sorted_filter. apply sorted_map_age. exact (Hs fm Hfm).
Qed.

(** the best message of a port is the newest stored Announce of one of its
    masters, and it is put back as the newest one *)
Lemma take_best_shape own acc ti fml fml1 b :
  bmca_take_best own acc ti fml = Ok (fml1, Some b) ->
  exists fm m, In fm fml /\ snd (fm_take fm) = Some m /\
    b = mkBest (fm_header m) (fm_ann m) (fm_age m) own /\
    fml1 = bmca_reregister own acc ti (fst (fml_take_qualified fml)) (fm_header m) (fm_ann m) (fm_age m).
Proof.
  unfold bmca_take_best. destruct (fml_take_qualified fml) as [l1 taken] eqn:Et.
  destruct (find_best _) as [[best|]|s] eqn:Ef; cbn [obind]; try discriminate.
  intros H; inversion H; subst; clear H.
  apply find_best_in in Ef. apply in_map_iff in Ef as (m & <- & Hin).
  assert (Hin' : In m (snd (fml_take_qualified fml))) by (rewrite Et; exact Hin).
  apply taken_iff in Hin' as (fm & Hfm & Hs). exists fm, m. repeat split; auto.
Qed.

Lemma sorted_take_best own acc ti fml fml1 best :
  bmca_take_best own acc ti fml = Ok (fml1, best) -> sorted_fml fml -> fml_wf own fml -> ids_nodup fml -> sorted_fml fml1.
Proof.
  intros H Hs Hwf Hnd. destruct best as [b|].
  - destruct (take_best_shape _ _ _ _ _ _ H) as (fm & m & Hfm & Htk & _ & ->).
    unfold bmca_reregister. destruct (_ && _); [|apply sorted_take; exact Hs].
    apply sorted_fml_register; [apply sorted_take; exact Hs|].
    intros fm1 Hin1 Hid1 x Hx. unfold fml_take_qualified in Hin1. cbn [fst] in Hin1. rewrite map_map in Hin1. apply in_map_iff in Hin1 as (fm0 & <- & Hfm0).
    destruct (fm_take_last fm m Htk) as (_ & Hmsgs & _).
    unfold fml_wf in Hwf. rewrite Forall_forall in Hwf. pose proof (Hwf fm Hfm) as Hfw. unfold fm_wf in Hfw. rewrite Forall_forall in Hfw.
    assert (Hmin : In m (fmr_msgs fm)) by (rewrite Hmsgs; apply in_or_app; right; left; reflexivity).
    destruct (Hfw m Hmin) as (Hsrc & _).
    assert (Hid0 : fmr_identity fm0 = fmr_identity fm).
    { rewrite <- Hsrc, <- Hid1. unfold fm_take. destruct (_ <=? _)%nat; reflexivity. }
    assert (fm0 = fm) by (apply (id_unique fml); auto). subst fm0.
    (* x is one of the messages in front of m *)
    assert (Hx0 : In x (fmr_msgs fm)).
    { unfold fm_take in Hx. destruct (_ <=? _)%nat; cbn [fst fmr_msgs] in Hx; [|exact Hx].
      rewrite Hmsgs. apply in_or_app. left. exact Hx. }
    apply (sorted_last_min (fmr_msgs fm) m (Hs fm Hfm)); [|exact Hx0].
    rewrite Hmsgs. apply last_app_one.
  - unfold bmca_take_best in H. destruct (fml_take_qualified fml) as [l1 taken] eqn:Et.
    destruct (find_best _) as [[b|]|?]; cbn [obind] in H; try discriminate. inversion H; subst.
    replace fml1 with (fst (fml_take_qualified fml)) by (rewrite Et; reflexivity). apply sorted_take. exact Hs.
Qed.

(** * calls that leave the data sets alone *)
Definition keeps_d (d : inst_ds) (r : hres) : Prop := forall p' d' o, r = Ok (p', d', o) -> d' = d.

Lemma htm_d p d : keeps_d d (handle_time_measurement p d).
Proof.
  unfold keeps_d, handle_time_measurement. intros p' d' o H.
  destruct (extract_measurement p) as [[[p1 om] o1]|?]; cbn [obind] in H; [|discriminate].
  destruct om as [m|]; [destruct (filter_mean_delay m)|]; unfold ret in H; inversion H; reflexivity.
Qed.
Ltac d_tac H :=
  crunch H; first [reflexivity | match goal with Hx : handle_time_measurement _ ?dd = Ok _ |- _ => exact (htm_d _ _ _ _ _ Hx) end].
Lemma handle_delay_timestamp_d p d id t : keeps_d d (handle_delay_timestamp p d id t).
Proof. unfold keeps_d, handle_delay_timestamp. intros p' d' o H. d_tac H. Qed.
Lemma handle_pdelay_timestamp_d p d id t : keeps_d d (handle_pdelay_timestamp p d id t).
Proof. unfold keeps_d, handle_pdelay_timestamp. intros p' d' o H. d_tac H. Qed.
Lemma handle_sync_timestamp_d p d id t : keeps_d d (handle_sync_timestamp p d id t).
Proof. unfold keeps_d, handle_sync_timestamp. intros p' d' o H. d_tac H. Qed.
Lemma handle_pdelay_response_timestamp_d p d id rq t : keeps_d d (handle_pdelay_response_timestamp p d id rq t).
Proof. unfold keeps_d, handle_pdelay_response_timestamp. intros p' d' o H. d_tac H. Qed.
Lemma send_timestamp_d p d c ts : keeps_d d (handle_send_timestamp p d c ts).
Proof.
  unfold keeps_d, handle_send_timestamp. intros p' d' o H. destruct c;
    [eapply handle_sync_timestamp_d|eapply handle_delay_timestamp_d|eapply handle_pdelay_timestamp_d|eapply handle_pdelay_response_timestamp_d]; eauto.
Qed.
Lemma send_sync_d p d : keeps_d d (send_sync p d).
Proof. unfold keeps_d, send_sync. intros p' d' o H. d_tac H. Qed.
Lemma send_announce_d p d q : keeps_d d (send_announce p d q).
Proof.
  unfold keeps_d, send_announce. intros p' d' o H. destruct (is_master (p_state p)); [|unfold ret in H; inversion H; reflexivity].
  match type of H with context [let '(a, b) := ?X in _] => destruct X as [pb m1] end. d_tac H.
Qed.
Lemma send_delay_request_d p d : keeps_d d (send_delay_request p d).
Proof.
  unfold keeps_d, send_delay_request. intros p' d' o H.
  repeat match type of H with context [draw ?x] => destruct (draw x) as [k p3] end. d_tac H.
Qed.
Lemma receipt_timer_d p d : keeps_d d (handle_announce_receipt_timer p d).
Proof.
  intros p' d' o H. destruct (receipt_timeout_arms p d) as (p2 & o2 & Hq & _). rewrite H in Hq. inversion Hq; reflexivity.
Qed.

(** * the data sets after an Announce *)
Definition s1_ds (d : inst_ds) (h : header) (a : announce_body) (path : list Z) : inst_ds :=
  ds_with d (an_steps_removed a + 1)
          (mkPD (h_source h) (an_gm_identity a) (an_quality a) (an_prio1 a) (an_prio2 a)) path (ann_time_props h a).

Definition applies (p : port) (d : inst_ds) (m : message) (a : announce_body) : bool :=
  is_slave (p_state p) && (an_steps_removed a <? 255) && pi_eqb (h_source (m_header m)) (pd_parent (ds_parent d))
  && negb (loop_m p d m a).

Lemma announce_tail_d p d1 locks ti m a p' d' o : announce_tail p d1 locks ti m a = Ok (p', d', o) -> d' = d1.
Proof.
  unfold announce_tail, bmca_register. cbv zeta. destruct (_ && _); [|unfold ret; intros H; inversion H; reflexivity].
  unfold set_forced. intros H.
  match type of H with context [if ?c then _ else _] => destruct c end;
    match type of H with context [draw ?x] => destruct (draw x) as [k p3] end; unfold ret in H; inversion H; reflexivity.
Qed.

Lemma handle_announce_ds p d ti m a p' d' o :
  handle_announce p d ti m a = Ok (p', d', o) ->
  if loop_m p d m a then p' = p /\ d' = d
  else (if applies p d m a then exists path, d' = s1_ds d (m_header m) a path else d' = d) /\
       exists locks, announce_tail p d' locks ti m a = Ok (p', d', o).
Proof.
  unfold handle_announce, applies, loop_m. cbv zeta. fold (announce_tail p).
  destruct (is_slave (p_state p)); cbn [andb];
    [|intros H; cbn [obind] in H; pose proof (announce_tail_d _ _ _ _ _ _ _ _ _ H) as ->; split; [reflexivity|eexists; exact H]].
  destruct (an_steps_removed a <? 255); cbn [andb];
    [|intros H; cbn [obind] in H; pose proof (announce_tail_d _ _ _ _ _ _ _ _ _ H) as ->; split; [reflexivity|eexists; exact H]].
  destruct (pi_eqb (h_source (m_header m)) (pd_parent (ds_parent d))); cbn [andb];
    [|intros H; cbn [obind] in H; pose proof (announce_tail_d _ _ _ _ _ _ _ _ _ H) as ->; split; [reflexivity|eexists; exact H]].
  destruct (chk_u site_steps_add 16 (an_steps_removed a + 1)) as [steps|?] eqn:Ec; cbn [obind]; [|destruct (ds_path_enable d); discriminate].
  apply chk_u_val in Ec. subst steps.
  destruct (ds_path_enable d); cbn [andb].
  - destruct (find_tlv 8 (tlvs_of (m_suffix m))) as [t|]; cbn [obind].
    + destruct (PATH_CAPACITY <? length (path_of_value (tlv_value t)))%nat; cbn [orb obind negb].
      * unfold ret. intros H. inversion H. split; reflexivity.
      * destruct (existsb _ (path_of_value (tlv_value t))); cbn [obind negb].
        -- unfold ret. intros H. inversion H. split; reflexivity.
        -- intros H. pose proof (announce_tail_d _ _ _ _ _ _ _ _ _ H) as ->. split; [eexists; reflexivity|eexists; exact H].
    + intros H. pose proof (announce_tail_d _ _ _ _ _ _ _ _ _ H) as ->. split; [eexists; reflexivity|eexists; exact H].
  - intros H. pose proof (announce_tail_d _ _ _ _ _ _ _ _ _ H) as ->. split; [eexists; reflexivity|eexists; exact H].
Qed.

Ltac d_tac2 H :=
  crunch H; first [reflexivity
                  | match goal with Hx : handle_time_measurement _ ?dd = Ok _ |- _ => exact (htm_d _ _ _ _ _ Hx) end
                  | match goal with Hx : go_faulty _ _ = Ok _ |- _ => unfold go_faulty, set_forced, ret in Hx; inversion Hx; reflexivity end].
Lemma handle_sync_d p d h w t : keeps_d d (handle_sync p d h w t).
Proof. unfold keeps_d, handle_sync. intros p' d' o H. d_tac2 H. Qed.
Lemma handle_follow_up_d p d h w : keeps_d d (handle_follow_up p d h w).
Proof. unfold keeps_d, handle_follow_up. intros p' d' o H. d_tac2 H. Qed.
Lemma handle_delay_resp_d p d h w r : keeps_d d (handle_delay_resp p d h w r).
Proof. unfold keeps_d, handle_delay_resp. intros p' d' o H. d_tac2 H. Qed.
Lemma handle_peer_delay_response_d p d h w r t : keeps_d d (handle_peer_delay_response p d h w r t).
Proof. unfold keeps_d, handle_peer_delay_response. intros p' d' o H. d_tac2 H. Qed.
Lemma handle_peer_delay_follow_up_d p d h w r : keeps_d d (handle_peer_delay_follow_up p d h w r).
Proof. unfold keeps_d, handle_peer_delay_follow_up. cbv zeta. intros p' d' o H. d_tac2 H. Qed.
Lemma handle_delay_req_d p d h ts : keeps_d d (handle_delay_req p d h ts).
Proof. unfold keeps_d, handle_delay_req. intros p' d' o H. d_tac2 H. Qed.
Lemma handle_pdelay_req_d p d h ts : keeps_d d (handle_pdelay_req p d h ts).
Proof. unfold keeps_d, handle_pdelay_req. intros p' d' o H. d_tac2 H. Qed.

(** a receive call: the Announce handler on an accepted frame, or nothing that
    touches the data sets, the list or the multiport block *)
Lemma recv_cases pp d ti frame pp' d' oo (h : hres) :
  (h = handle_general_receive pp d ti frame \/ exists ts, h = handle_event_receive pp d ti frame ts) ->
  h = Ok (pp', d', oo) ->
  (d' = d /\ p_fml pp' = p_fml pp /\
   (forall m a, is_compatible frame = true -> decode frame = ROk m -> m_body m = BAnnounce a ->
      (h_domain (m_header m) =? dd_domain (ds_default d)) && (h_sdo_id (m_header m) =? dd_sdo_id (ds_default d)) = false)) \/
  (exists m a o2, is_compatible frame = true /\ decode frame = ROk m /\
     (h_domain (m_header m) =? dd_domain (ds_default d)) = true /\ (h_sdo_id (m_header m) =? dd_sdo_id (ds_default d)) = true /\
     m_body m = BAnnounce a /\ handle_announce pp d ti m a = Ok (pp', d', o2)).
Proof.
  intros Hh H.
  assert (Hparse : parse_and_filter d frame =
            if negb (is_compatible frame) then (None, []) else
            match decode frame with
            | RErr _ => (None, [])
            | ROk m => if (h_sdo_id (m_header m) =? dd_sdo_id (ds_default d)) && (h_domain (m_header m) =? dd_domain (ds_default d))
                       then (Some m, [rd_lock]) else (None, [rd_lock])
            end) by reflexivity.
  destruct Hh as [->|[ts ->]]; [unfold handle_general_receive in H|unfold handle_event_receive in H]; rewrite Hparse in H;
    (destruct (is_compatible frame) eqn:Ec; cbn [negb] in H;
       [|unfold ret in H; inversion H; subst; left; split; [reflexivity|split; [reflexivity|intros ? ? X; discriminate X]]]);
    (destruct (decode frame) as [m|?] eqn:Ed;
       [|unfold ret in H; inversion H; subst; left; split; [reflexivity|split; [reflexivity|intros ? ? _ X; discriminate X]]]);
    (destruct ((h_sdo_id (m_header m) =? dd_sdo_id (ds_default d)) && (h_domain (m_header m) =? dd_domain (ds_default d))) eqn:Edom;
     [|unfold ret in H; inversion H; subst; left; split; [reflexivity|split; [reflexivity|
         intros m0 a0 _ X _; inversion X; subst m0; rewrite andb_comm; exact Edom]]]);
    apply andb_true_iff in Edom as [Es Edm];
    unfold prepend in H;
    match type of H with obind ?X _ = _ => destruct X as [[[p1 d1] o2]|?] eqn:E end; cbn [obind] in H; try discriminate;
    inversion H; subst.
  - unfold handle_general_internal in E. destruct (m_body m) eqn:Eb;
      try (left; split; [solve [unfold ret in E; inversion E; reflexivity|eapply handle_follow_up_d; eauto|eapply handle_delay_resp_d; eauto|eapply handle_peer_delay_follow_up_d; eauto]|
             split; [solve [unfold ret in E; inversion E; reflexivity|eapply handle_follow_up_fml; eauto|eapply handle_delay_resp_fml; eauto|eapply handle_peer_delay_follow_up_fml; eauto]|
                     intros m0 a0 _ X Y; inversion X; subst m0; rewrite Eb in Y; discriminate Y]]; fail).
    match goal with Hb : m_body m = BAnnounce ?x |- _ => right; exists m, x, o2; repeat split; assumption end.
  - destruct (m_body m) eqn:Eb;
      try (left; split; [solve [eapply handle_sync_d; eauto|eapply handle_delay_req_d; eauto|eapply handle_pdelay_req_d; eauto|eapply handle_peer_delay_response_d; eauto]|
             split; [solve [eapply handle_sync_fml; eauto|eapply handle_delay_req_fml; eauto|eapply handle_pdelay_req_fml; eauto|eapply handle_peer_delay_response_fml; eauto]|
                     intros m0 a0 _ X Y; inversion X; subst m0; rewrite Eb in Y; discriminate Y]]; fail);
      unfold handle_general_internal in E; rewrite Eb in E;
      try (left; split; [solve [unfold ret in E; inversion E; reflexivity|eapply handle_follow_up_d; eauto|eapply handle_delay_resp_d; eauto|eapply handle_peer_delay_follow_up_d; eauto]|
             split; [solve [unfold ret in E; inversion E; reflexivity|eapply handle_follow_up_fml; eauto|eapply handle_delay_resp_fml; eauto|eapply handle_peer_delay_follow_up_fml; eauto]|
                     intros m0 a0 _ X Y; inversion X; subst m0; rewrite Eb in Y; discriminate Y]]; fail).
    match goal with Hb : m_body m = BAnnounce ?x |- _ => right; exists m, x, o2; repeat split; assumption end.
Qed.

(** * the invariants *)
Definition s1_match (d : inst_ds) (m : foreign_msg) : Prop :=
  ds_steps_removed d = an_steps_removed (fm_ann m) + 1 /\
  ds_parent d = mkPD (h_source (fm_header m)) (an_gm_identity (fm_ann m)) (an_quality (fm_ann m))
                     (an_prio1 (fm_ann m)) (an_prio2 (fm_ann m)) /\
  ds_tp d = ann_time_props (fm_header m) (fm_ann m).
Definition ds_core (d : inst_ds) := (ds_steps_removed d, ds_parent d, ds_tp d).
Lemma s1_match_core d d' m : ds_core d' = ds_core d -> s1_match d m -> s1_match d' m.
Proof. unfold ds_core, s1_match. intros E (A & B & C). inversion E as [[E1 E2 E3]]. rewrite E1, E2, E3. auto. Qed.

Definition M (c : pcase) (i : instance) : Prop :=
  (exists s6, inv6 c i s6) /\ all_ports_sat (aged 0) i /\ all_ports_sat (fun pp => sorted_fml (p_fml pp)) i.
(* the chain property of the stored Announces is added below as [MC] *)

Record K (c : pcase) (i : instance) (l : list seen11) : Prop := mkK {
  k_known : forall n pp fm, nth_error (i_ports i) n = Some pp -> In fm (p_fml pp) -> entry11 n (fmr_identity fm) l <> None;
  k_travel : forall n pp src x, nth_error (i_ports i) n = Some pp -> entry11 n src l = Some x -> sn_ok x = true ->
     0 <= sn_travel x < 32767 /\
     forall fm, In fm (p_fml pp) -> fmr_identity fm = src -> forall m, In m (fmr_msgs fm) ->
       wrapping_sub16 (sn_seq x) (h_seq (fm_header m)) <= sn_travel x;
  k_slave : forall n pp st, nth_error (i_ports i) n = Some pp -> p_state pp = PSlave st -> steady11 n (ss_remote st) l = true ->
     forall fm, In fm (p_fml pp) -> fmr_identity fm = ss_remote st ->
       forall m, last (map Some (fmr_msgs fm)) None = Some m -> s1_match (i_ds i) m
}.

(** at most one port is slave *)
Lemma count_slave_two (l : list port) n q pn pq :
  (nslaves l <= 1)%nat -> nth_error l n = Some pn -> nth_error l q = Some pq ->
  is_slave (p_state pn) = true -> is_slave (p_state pq) = true -> n = q.
Proof.
  unfold nslaves, count. revert n q. induction l as [|x l IH]; intros n q Hc Hn Hq Sn Sq; [destruct n; discriminate|].
  cbn [filter] in Hc. destruct n as [|n], q as [|q]; cbn [nth_error] in Hn, Hq; auto.
  - inversion Hn; subst x. rewrite Sn in Hc. cbn [length] in Hc. exfalso.
    assert (In pq (filter (fun p => is_slave (p_state p)) l)) by (apply filter_In; split; [eapply nth_error_In; eauto|exact Sq]).
    destruct (filter _ l); [contradiction|cbn in Hc; lia].
  - inversion Hq; subst x. rewrite Sq in Hc. cbn [length] in Hc. exfalso.
    assert (In pn (filter (fun p => is_slave (p_state p)) l)) by (apply filter_In; split; [eapply nth_error_In; eauto|exact Sn]).
    destruct (filter _ l); [contradiction|cbn in Hc; lia].
  - f_equal. apply IH; auto. destruct (is_slave (p_state x)); cbn [length] in Hc; lia.
Qed.

(** [K] survives every call that leaves the lists, whom the slaves follow, the
    core of the data sets and the oracle's list alone *)
Lemma K_keep c i i' l :
  K c i l -> ds_core (i_ds i') = ds_core (i_ds i) ->
  (forall n pp', nth_error (i_ports i') n = Some pp' -> exists pp, nth_error (i_ports i) n = Some pp /\ p_fml pp' = p_fml pp /\
      (remote_of (p_state pp') = remote_of (p_state pp) \/ remote_of (p_state pp') = None)) ->
  K c i' l.
Proof.
  intros [K1 K2 K3] Hcore Hrel. constructor.
  - intros n pp' fm Hn' Hfm. destruct (Hrel n pp' Hn') as (pp & Hn & Hf & _). rewrite Hf in Hfm. exact (K1 n pp fm Hn Hfm).
  - intros n pp' src x Hn' He Hok. destruct (Hrel n pp' Hn') as (pp & Hn & Hf & _). rewrite Hf. exact (K2 n pp src x Hn He Hok).
  - intros n pp' st Hn' Hst Hsteady fm Hfm Hid m Hl. destruct (Hrel n pp' Hn') as (pp & Hn & Hf & Hr).
    rewrite Hst in Hr. cbn [remote_of] in Hr. destruct Hr as [Hr|Hr]; [|discriminate].
    destruct (p_state pp) as [| | | |st0] eqn:Est0; try discriminate Hr. cbn [remote_of] in Hr. inversion Hr as [Hrem].
    rewrite Hf in Hfm. apply (s1_match_core (i_ds i)); [exact Hcore|].
    apply (K3 n pp st0 Hn Est0 ltac:(rewrite <- Hrem; exact Hsteady) fm Hfm ltac:(rewrite <- Hrem; exact Hid) m Hl).
Qed.

(** * noting an Announce in the oracle's list, the instance unchanged *)
Lemma wsub_tri' a b c : wrapping_sub16 a c <= wrapping_sub16 a b + wrapping_sub16 b c.
Proof. unfold wrapping_sub16. lia. Qed.

Lemma note_ok_old n src seq l x' :
  entry11 n src (note11 n src seq l) = Some x' -> sn_ok x' = true ->
  sn_seq x' = seq /\
  match entry11 n src l with
  | Some x => sn_ok x = true /\ sn_travel x' = sn_travel x + (seq - sn_seq x) mod 65536 /\ sn_travel x' < 32767
  | None => sn_travel x' = 0
  end.
Proof.
  rewrite entry_note_same. intros E Hok. inversion E; subst x'; clear E. destruct (entry11 n src l) as [x|]; cbn [sn_seq sn_travel sn_ok] in *.
  - apply andb_true_iff in Hok as [H1 H2]. split; [reflexivity|]. split; [exact H1|]. split; [reflexivity|lia].
  - split; reflexivity.
Qed.

Lemma K_note c i l n src seq : K c i l -> K c i (note11 n src seq l).
Proof.
  intros [K1 K2 K3]. constructor.
  - intros q pp fm Hq Hfm. destruct (Nat.eq_dec q n) as [->|Hne].
    + destruct (pi_eqb (fmr_identity fm) src) eqn:E.
      * apply pi_eqb_eq in E. rewrite E, entry_note_same. discriminate.
      * rewrite entry_note_other by (right; intros X; rewrite X, pi_eqb_refl in E; discriminate). exact (K1 n pp fm Hq Hfm).
    + rewrite entry_note_other by (left; exact Hne). exact (K1 q pp fm Hq Hfm).
  - intros q pp s x' Hq He Hok.
    destruct (Nat.eq_dec q n) as [->|Hne]; [destruct (pi_eqb s src) eqn:E|].
    + apply pi_eqb_eq in E. subst s. destruct (note_ok_old _ _ _ _ _ He Hok) as (Hseq & Hold).
      destruct (entry11 n src l) as [x|] eqn:Ex.
      * destruct Hold as (Hokx & Ht & Hlt). destruct (K2 n pp src x Hq Ex Hokx) as (Hr & Hb).
        pose proof (Z.mod_pos_bound (seq - sn_seq x) 65536 ltac:(lia)) as Hm.
        split; [lia|]. intros fm Hfm Hid m Hm0. specialize (Hb fm Hfm Hid m Hm0).
        pose proof (wsub_tri' seq (sn_seq x) (h_seq (fm_header m))) as T. rewrite Hseq. unfold wrapping_sub16 in *. lia.
      * split; [lia|]. intros fm Hfm Hid m Hm0. exfalso. apply (K1 n pp fm Hq Hfm). rewrite Hid. exact Ex.
    + rewrite entry_note_other in He by (right; intros X; rewrite X, pi_eqb_refl in E; discriminate). exact (K2 n pp s x' Hq He Hok).
    + rewrite entry_note_other in He by (left; exact Hne). exact (K2 q pp s x' Hq He Hok).
  - intros q pp st Hq Hst Hsteady fm Hfm Hid m Hl. refine (K3 q pp st Hq Hst _ fm Hfm Hid m Hl).
    unfold steady11 in *. destruct (Nat.eq_dec q n) as [->|Hne]; [destruct (pi_eqb (ss_remote st) src) eqn:E|].
    + apply pi_eqb_eq in E. rewrite E in *. destruct (entry11 n src (note11 n src seq l)) as [x'|] eqn:Ex'; [|discriminate].
      destruct (note_ok_old _ _ _ _ _ Ex' Hsteady) as (_ & Hold). destruct (entry11 n src l) as [x|] eqn:Ex; [apply Hold|].
      exfalso. apply (K1 n pp fm Hq Hfm). rewrite Hid. exact Ex.
    + rewrite entry_note_other in Hsteady by (right; intros X; rewrite X, pi_eqb_refl in E; discriminate). exact Hsteady.
    + rewrite entry_note_other in Hsteady by (left; exact Hne). exact Hsteady.
Qed.

(** * a received frame *)
Definition noted (n : nat) (frame : bytes) (l : list seen11) : list seen11 :=
  match (if is_compatible frame then decoded frame else None) with
  | Some m => match m_body m with
              | BAnnounce _ => note11 n (h_source (m_header m)) (h_seq (m_header m)) l
              | _ => l
              end
  | None => l
  end.

Lemma K_noted c i l n frame : K c i l -> K c i (noted n frame l).
Proof.
  intros HK. unfold noted. destruct (if is_compatible frame then decoded frame else None) as [m|]; [|exact HK].
  destruct (m_body m); try exact HK. apply K_note. exact HK.
Qed.

Lemma fm_register_last ti fm h a age : last (map Some (fmr_msgs (fm_register ti fm h a age))) None = Some (mkFMsg h a age).
Proof. unfold fm_register. cbn [fmr_msgs]. destruct (_ <? _)%nat; apply last_app_one. Qed.

Lemma fm_register_in ti fm h a age m : In m (fmr_msgs (fm_register ti fm h a age)) -> m = mkFMsg h a age \/ In m (fmr_msgs fm).
Proof.
  unfold fm_register. cbn [fmr_msgs]. intros Hin.
  destruct (_ <? _)%nat; apply in_app_or in Hin as [Hin|[<-|[]]]; auto; right; [|apply in_tl in Hin]; eapply in_purge; eauto.
Qed.

Lemma is_slave_inv s : is_slave s = true -> exists st, s = PSlave st.
Proof. destruct s; try discriminate. eauto. Qed.
Lemma remote_of_inv s r : remote_of s = Some r -> exists st, s = PSlave st /\ ss_remote st = r.
Proof. destruct s; cbn; try discriminate. intros H. inversion H. eauto. Qed.

Lemma recv_K c i l n pp pp' d' oo frame (h : hres) :
  reach_inv c i -> M c i -> K c i l -> nth_error (i_ports i) n = Some pp ->
  (h = handle_general_receive pp (i_ds i) (port_ti pp) frame \/ exists ts, h = handle_event_receive pp (i_ds i) (port_ti pp) frame ts) ->
  h = Ok (pp', d', oo) ->
  K c (mkInst d' (i_log_bmca i) (update_nth n pp' (i_ports i))) (noted n frame l).
Proof.
  intros Hr HM HK Hn Hh H.
  assert (Hnlt : (n < length (i_ports i))%nat) by (apply nth_error_Some; rewrite Hn; discriminate).
  pose proof Hr as [Hi Hclk Hsp Hacc Hcf].
  assert (Hpi : port_inv pp) by (destruct Hi as (Hports & _); rewrite Forall_forall in Hports; apply Hports; eapply nth_error_In; eauto).
  assert (Hwf : fml_wf (p_identity pp) (p_fml pp)) by (destruct Hpi as (_ & _ & _ & _ & (Hw & _) & _); exact Hw).
  assert (Hpacc : port_acc pp) by (unfold inst_acc in Hacc; rewrite Forall_forall in Hacc; apply Hacc; eapply nth_error_In; eauto).
  assert (Hrem : remote_of (p_state pp') = remote_of (p_state pp) \/ remote_of (p_state pp') = None).
  { destruct Hh as [->|[ts ->]]; [eapply handle_general_receive_remote|eapply handle_event_receive_remote]; eauto. }
  (* the generic way out: lists, data sets untouched *)
  assert (Hkeep : d' = i_ds i -> p_fml pp' = p_fml pp -> K c (mkInst d' (i_log_bmca i) (update_nth n pp' (i_ports i))) (noted n frame l)).
  { intros -> Hf. apply (K_keep c i); [apply K_noted; exact HK|reflexivity|].
    intros q pq' Hq'. cbn [i_ports] in Hq'. destruct (Nat.eq_dec q n) as [->|Hne].
    - rewrite nth_error_update_same in Hq' by exact Hnlt. inversion Hq'; subst pq'. exists pp. auto.
    - rewrite nth_error_update_other in Hq' by (intros E; apply Hne; symmetry; exact E). exists pq'. auto. }
  destruct (recv_cases pp (i_ds i) (port_ti pp) frame pp' d' oo h Hh H) as [(Hd & Hf & _)|(m & a & o2 & Ec & Ed & Edom & Esdo & Eb & Ha)];
    [apply Hkeep; assumption|].
  assert (Hnoted : noted n frame l = note11 n (h_source (m_header m)) (h_seq (m_header m)) l).
  { unfold noted, decoded. rewrite Ec, Ed, Eb. reflexivity. }
  pose proof (handle_announce_ds _ _ _ _ _ _ _ _ Ha) as Hds.
  destruct (loop_m pp (i_ds i) m a) eqn:El; [destruct Hds as [-> ->]; apply Hkeep; reflexivity|].
  destruct Hds as (Hd' & locks & Ht). pose proof (announce_tail_spec _ _ _ _ _ _ _ _ _ Ht) as Hs.
  set (src := h_source (m_header m)) in *. set (seq := h_seq (m_header m)) in *.
  set (acc := negb (pi_eqb src (p_identity pp)) && acceptable (pc_acceptable (p_config pp)) (pi_clock src)) in *.
  (* whom the port follows *)
  assert (Hpar : forall st, p_state pp = PSlave st -> ss_remote st = pd_parent (ds_parent (i_ds i))).
  { intros st Hst. apply (Hsp pp st); [eapply nth_error_In; eauto|exact Hst]. }
  (* when the Announce is applied, a good entry means that it is stored as well *)
  assert (Hstored : applies pp (i_ds i) m a = true ->
            forall x', entry11 n src (note11 n src seq l) = Some x' -> sn_ok x' = true ->
            acc = true /\ fml_qualified (p_identity pp) (p_fml pp) (m_header m) a = true).
  { intros Happ x' Ex' Hok'. unfold applies in Happ. rewrite El in Happ. cbn [negb] in Happ. rewrite andb_true_r in Happ.
    apply andb_true_iff in Happ as [Happ Hpe]. apply andb_true_iff in Happ as [Hsl Hsteps].
    destruct (is_slave_inv _ Hsl) as (st & Est). apply pi_eqb_eq in Hpe.
    destruct Hpacc as [_ Hpa]. destruct (Hpa st Est) as [Hacc1 Hacc2]. rewrite (Hpar st Est), <- Hpe in Hacc1, Hacc2. fold src in Hacc1, Hacc2.
    split.
    - unfold acc. rewrite Hacc1, andb_true_r. apply negb_true_iff. apply pi_eqb_false. intros E. apply Hacc2. rewrite E. reflexivity.
    - unfold fml_qualified. fold src. assert (Ec1 : (pi_clock src =? pi_clock (p_identity pp)) = false) by (apply Z.eqb_neq; exact Hacc2). rewrite Ec1.
      assert (E255 : (255 <=? an_steps_removed a) = false) by lia. rewrite E255.
      destruct (note_ok_old _ _ _ _ _ Ex' Hok') as (Hseq' & Hold).
      destruct (fml_find src (p_fml pp)) as [fm|] eqn:Ff; [|reflexivity].
      destruct (fml_find_in _ _ _ Ff) as [Hfm Hid].
      destruct (entry11 n src l) as [x|] eqn:Ex; [|exfalso; apply (k_known _ _ _ HK n pp fm Hn Hfm); rewrite Hid; exact Ex].
      destruct Hold as (Hokx & Htr & Hlt). destruct (k_travel _ _ _ HK n pp src x Hn Ex Hokx) as (_ & Hb).
      destruct (fmr_msgs fm) as [|m0 ms] eqn:Em using rev_ind; [reflexivity|]. clear IHms.
      rewrite last_app_one.
      pose proof (Hb fm Hfm Hid m0 ltac:(rewrite Em; apply in_or_app; right; left; reflexivity)) as B.
      pose proof (wsub_tri' seq (sn_seq x) (h_seq (fm_header m0))) as T. unfold wrapping_sub16 in *. fold seq.
      replace (negb (32767 <=? (seq - h_seq (fm_header m0)) mod 65536)) with true by (symmetry; apply negb_true_iff; apply Z.leb_gt; lia).
      reflexivity. }
  destruct acc eqn:Eacc.
  2:{ (* not accepted: the list is untouched; then the Announce was not applied with a good entry *)
    destruct Hs as [Hf Hm].
    destruct (applies pp (i_ds i) m a) eqn:Eapp; [|apply Hkeep; assumption].
    (* applied, not stored: the entry cannot be good; everything about this master on this port is void *)
    destruct Hd' as (path & Hd'). rewrite Hnoted.
    assert (Hbad : forall x', entry11 n src (note11 n src seq l) = Some x' -> sn_ok x' = false).
    { intros x' Ex'. destruct (sn_ok x') eqn:Eok; [|reflexivity]. destruct (Hstored eq_refl x' Ex' Eok) as [X _]. discriminate X. }
    unfold applies in Eapp. rewrite El in Eapp. cbn [negb] in Eapp. rewrite andb_true_r in Eapp.
    apply andb_true_iff in Eapp as [Eapp Hpe]. apply andb_true_iff in Eapp as [Hsl _].
    destruct (is_slave_inv _ Hsl) as (st & Est). apply pi_eqb_eq in Hpe.
    pose proof (K_note c i l n src seq HK) as [N1 N2 N3]. constructor.
    - intros q pq' fm Hq' Hfm. cbn [i_ports] in Hq'. destruct (Nat.eq_dec q n) as [->|Hne].
      + rewrite nth_error_update_same in Hq' by exact Hnlt. inversion Hq'; subst pq'. rewrite Hf in Hfm. exact (N1 n pp fm Hn Hfm).
      + rewrite nth_error_update_other in Hq' by (intros E; apply Hne; symmetry; exact E). exact (N1 q pq' fm Hq' Hfm).
    - intros q pq' s x' Hq' He Hok. cbn [i_ports] in Hq'. destruct (Nat.eq_dec q n) as [->|Hne].
      + rewrite nth_error_update_same in Hq' by exact Hnlt. inversion Hq'; subst pq'. rewrite Hf. exact (N2 n pp s x' Hn He Hok).
      + rewrite nth_error_update_other in Hq' by (intros E; apply Hne; symmetry; exact E). exact (N2 q pq' s x' Hq' He Hok).
    - intros q pq' st' Hq' Hst' Hsteady fm Hfm Hid m0 Hl. cbn [i_ports i_ds] in *. destruct (Nat.eq_dec q n) as [->|Hne].
      + rewrite nth_error_update_same in Hq' by exact Hnlt. inversion Hq'; subst pq'. exfalso.
        rewrite Hst', Est in Hrem. cbn [remote_of] in Hrem. destruct Hrem as [Hrem|Hrem]; [|discriminate]. inversion Hrem as [Hr2].
        rewrite Hr2, (Hpar st Est), <- Hpe in Hsteady. fold src in Hsteady. unfold steady11 in Hsteady.
        destruct (entry11 n src (note11 n src seq l)) as [x'|] eqn:Ex'; [|discriminate]. rewrite (Hbad x' eq_refl) in Hsteady. discriminate.
      + rewrite nth_error_update_other in Hq' by (intros E; apply Hne; symmetry; exact E). exfalso.
        apply Hne. destruct Hi as (_ & _ & _ & _ & _ & _ & Hsl1).
        apply (count_slave_two (i_ports i) q n pq' pp Hsl1 Hq' Hn); [rewrite Hst'; reflexivity|rewrite Est; reflexivity]. }
  (* accepted *)
  destruct Hs as [Hf _]. rewrite Hnoted.
  destruct (fml_qualified (p_identity pp) (p_fml pp) (m_header m) a) eqn:Eq.
  2:{ (* not qualified: as above *)
    rewrite (fml_register_unqualified _ _ _ _ _ _ Eq) in Hf.
    destruct (applies pp (i_ds i) m a) eqn:Eapp; [|rewrite <- Hnoted; apply Hkeep; assumption].
    destruct Hd' as (path & Hd').
    assert (Hbad : forall x', entry11 n src (note11 n src seq l) = Some x' -> sn_ok x' = false).
    { intros x' Ex'. destruct (sn_ok x') eqn:Eok; [|reflexivity]. destruct (Hstored eq_refl x' Ex' Eok) as [_ X]. discriminate X. }
    unfold applies in Eapp. rewrite El in Eapp. cbn [negb] in Eapp. rewrite andb_true_r in Eapp.
    apply andb_true_iff in Eapp as [Eapp Hpe]. apply andb_true_iff in Eapp as [Hsl _].
    destruct (is_slave_inv _ Hsl) as (st & Est). apply pi_eqb_eq in Hpe.
    pose proof (K_note c i l n src seq HK) as [N1 N2 N3]. constructor.
    - intros q pq' fm Hq' Hfm. cbn [i_ports] in Hq'. destruct (Nat.eq_dec q n) as [->|Hne].
      + rewrite nth_error_update_same in Hq' by exact Hnlt. inversion Hq'; subst pq'. rewrite Hf in Hfm. exact (N1 n pp fm Hn Hfm).
      + rewrite nth_error_update_other in Hq' by (intros E; apply Hne; symmetry; exact E). exact (N1 q pq' fm Hq' Hfm).
    - intros q pq' s x' Hq' He Hok. cbn [i_ports] in Hq'. destruct (Nat.eq_dec q n) as [->|Hne].
      + rewrite nth_error_update_same in Hq' by exact Hnlt. inversion Hq'; subst pq'. rewrite Hf. exact (N2 n pp s x' Hn He Hok).
      + rewrite nth_error_update_other in Hq' by (intros E; apply Hne; symmetry; exact E). exact (N2 q pq' s x' Hq' He Hok).
    - intros q pq' st' Hq' Hst' Hsteady fm Hfm Hid m0 Hl. cbn [i_ports i_ds] in *. destruct (Nat.eq_dec q n) as [->|Hne].
      + rewrite nth_error_update_same in Hq' by exact Hnlt. inversion Hq'; subst pq'. exfalso.
        rewrite Hst', Est in Hrem. cbn [remote_of] in Hrem. destruct Hrem as [Hrem|Hrem]; [|discriminate]. inversion Hrem as [Hr2].
        rewrite Hr2, (Hpar st Est), <- Hpe in Hsteady. fold src in Hsteady. unfold steady11 in Hsteady.
        destruct (entry11 n src (note11 n src seq l)) as [x'|] eqn:Ex'; [|discriminate]. rewrite (Hbad x' eq_refl) in Hsteady. discriminate.
      + rewrite nth_error_update_other in Hq' by (intros E; apply Hne; symmetry; exact E). exfalso.
        apply Hne. destruct Hi as (_ & _ & _ & _ & _ & _ & Hsl1).
        apply (count_slave_two (i_ports i) q n pq' pp Hsl1 Hq' Hn); [rewrite Hst'; reflexivity|rewrite Est; reflexivity]. }
  (* accepted and qualified: the Announce is stored as the newest record of its master *)
  assert (Hnd : ids_nodup (p_fml pp)).
  { destruct HM as ((s6 & (_ & _ & _ & H6)) & _). destruct (H6 n pp Hn) as (_ & _ & Hx & _). exact Hx. }
  assert (Hreg : forall fm', In fm' (p_fml pp') ->
            (In fm' (p_fml pp) /\ fmr_identity fm' <> src) \/
            (fmr_identity fm' = src /\ last (map Some (fmr_msgs fm')) None = Some (mkFMsg (m_header m) a 0) /\
             forall m0, In m0 (fmr_msgs fm') -> m0 = mkFMsg (m_header m) a 0 \/
                        exists fm, In fm (p_fml pp) /\ fmr_identity fm = src /\ In m0 (fmr_msgs fm))).
  { intros fm' Hin. rewrite Hf in Hin. unfold fml_register in Hin. rewrite Eq in Hin. cbn [negb] in Hin. fold src in Hin.
    destruct (fml_find src (p_fml pp)) as [fm0|] eqn:Ff.
    - destruct (fml_update_in_nd src (fun fm => fm_register (port_ti pp) fm (m_header m) a 0) (p_fml pp) fm' Hnd (fun _ => eq_refl) Hin)
        as [[H1 H2]|(fm1 & H1 & H2 & ->)]; [left; split; assumption|].
      right. split; [exact H2|]. split; [apply fm_register_last|]. intros m0 Hm0. apply fm_register_in in Hm0 as [->|Hm0]; [left; reflexivity|].
      right. exists fm1. repeat split; assumption.
    - pose proof (fml_find_none _ _ Ff) as Hnone. destruct (_ <? _)%nat.
      + apply in_app_or in Hin as [Hin|[<-|[]]]; [left; split; [exact Hin|apply Hnone; exact Hin]|].
        right. split; [reflexivity|]. split; [reflexivity|]. intros m0 [<-|[]]. left. reflexivity.
      + left. split; [exact Hin|apply Hnone; exact Hin]. }
  pose proof (K_note c i l n src seq HK) as [N1 N2 N3].
  assert (Hdcase : (applies pp (i_ds i) m a = true /\ exists path, d' = s1_ds (i_ds i) (m_header m) a path) \/
                   (applies pp (i_ds i) m a = false /\ d' = i_ds i)).
  { destruct (applies pp (i_ds i) m a); [left; split; [reflexivity|exact Hd']|right; split; [reflexivity|exact Hd']]. }
  constructor.
  - intros q pq' fm Hq' Hfm. cbn [i_ports] in Hq'. destruct (Nat.eq_dec q n) as [->|Hne].
    + rewrite nth_error_update_same in Hq' by exact Hnlt. inversion Hq'; subst pq'.
      destruct (Hreg fm Hfm) as [[H1 _]|(H1 & _)]; [exact (N1 n pp fm Hn H1)|]. rewrite H1, entry_note_same. discriminate.
    + rewrite nth_error_update_other in Hq' by (intros E; apply Hne; symmetry; exact E). exact (N1 q pq' fm Hq' Hfm).
  - intros q pq' s x' Hq' He Hok. cbn [i_ports] in Hq'. destruct (Nat.eq_dec q n) as [->|Hne].
    + rewrite nth_error_update_same in Hq' by exact Hnlt. inversion Hq'; subst pq'.
      destruct (N2 n pp s x' Hn He Hok) as (Hr0 & Hb0). split; [exact Hr0|].
      intros fm Hfm Hid m0 Hm0. destruct (Hreg fm Hfm) as [[H1 _]|(H1 & _ & H3)]; [exact (Hb0 fm H1 Hid m0 Hm0)|].
      assert (Es : s = src) by (rewrite <- Hid; exact H1).
      destruct (H3 m0 Hm0) as [->|(fm1 & F1 & F2 & F3)]; [|exact (Hb0 fm1 F1 (eq_trans F2 (eq_sym Es)) m0 F3)].
      cbn [fm_header]. rewrite Es in He. destruct (note_ok_old _ _ _ _ _ He Hok) as (Hseq' & _). rewrite Hseq'. fold seq. rewrite wsub_refl. lia.
    + rewrite nth_error_update_other in Hq' by (intros E; apply Hne; symmetry; exact E). exact (N2 q pq' s x' Hq' He Hok).
  - intros q pq' st' Hq' Hst' Hsteady fm Hfm Hid m0 Hl. cbn [i_ports i_ds] in *. destruct (Nat.eq_dec q n) as [->|Hne].
    + rewrite nth_error_update_same in Hq' by exact Hnlt. inversion Hq'; subst pq'.
      rewrite Hst' in Hrem. cbn [remote_of] in Hrem. destruct Hrem as [Hrem|Hrem]; [|discriminate].
      symmetry in Hrem. destruct (remote_of_inv _ _ Hrem) as (st & Est & Hr2'). assert (Hr2 : ss_remote st' = ss_remote st) by (symmetry; exact Hr2').
      destruct (Hreg fm Hfm) as [[H1 H2]|(H1 & H2 & _)].
      * (* a record of another master: nothing about it changed, and the Announce was not from the parent *)
        assert (Happ : applies pp (i_ds i) m a = false).
        { unfold applies. destruct (pi_eqb (h_source (m_header m)) (pd_parent (ds_parent (i_ds i)))) eqn:Ep; [|rewrite !andb_false_r; reflexivity].
          exfalso. apply pi_eqb_eq in Ep. apply H2. rewrite Hid, Hr2, (Hpar st Est), <- Ep. reflexivity. }
        destruct Hdcase as [[X _]|[_ ->]]; [rewrite Happ in X; discriminate|].
        exact (N3 n pp st Hn Est ltac:(rewrite <- Hr2; exact Hsteady) fm H1 ltac:(rewrite <- Hr2; exact Hid) m0 Hl).
      * (* the record of the sender, which is the parent: the newest message is this Announce *)
        rewrite H2 in Hl. inversion Hl; subst m0.
        assert (Hsp2 : src = pd_parent (ds_parent (i_ds i))) by (rewrite <- H1, Hid, Hr2; apply Hpar; exact Est).
        assert (Happ : applies pp (i_ds i) m a = true).
        { unfold applies. rewrite Est, El. cbn [is_slave negb andb]. rewrite andb_true_r. fold src. rewrite Hsp2, pi_eqb_refl, andb_true_r.
          destruct (qualified_facts _ _ _ _ Eq) as [_ Q2]. exact Q2. }
        destruct Hdcase as [[_ (path & ->)]|[X _]]; [|rewrite Happ in X; discriminate].
        unfold s1_match, s1_ds, ds_with. cbn [ds_steps_removed ds_parent ds_tp fm_header fm_ann]. repeat split; reflexivity.
    + rewrite nth_error_update_other in Hq' by (intros E; apply Hne; symmetry; exact E).
      assert (Happ : applies pp (i_ds i) m a = false).
      { destruct (applies pp (i_ds i) m a) eqn:Eapp; [|reflexivity]. exfalso. unfold applies in Eapp.
        destruct (is_slave (p_state pp)) eqn:Es; [|discriminate Eapp].
        apply Hne. destruct Hi as (_ & _ & _ & _ & _ & _ & Hsl1).
        apply (count_slave_two (i_ports i) q n pq' pp Hsl1 Hq' Hn); [rewrite Hst'; reflexivity|exact Es]. }
      destruct Hdcase as [[X _]|[_ ->]]; [rewrite Happ in X; discriminate|].
      exact (N3 q pq' st' Hq' Hst' Hsteady fm Hfm Hid m0 Hl).
Qed.

(** * stored Announces of one master form a chain: each was accepted against its predecessor *)
Definition hseq (m : foreign_msg) : Z := h_seq (fm_header m).
Fixpoint chain (l : list foreign_msg) : Prop :=
  match l with
  | a :: ((b :: _) as t) => wrapping_sub16 (hseq b) (hseq a) < 32767 /\ chain t
  | _ => True
  end.
Definition chain_fml (l : list foreign_master) : Prop := forall fm, In fm l -> chain (fmr_msgs fm).

Lemma chain_tl l : chain l -> chain (tl l).
Proof. destruct l as [|a [|b t]]; cbn; auto. intros [_ H]. exact H. Qed.
Lemma chain_app_one l m : chain l -> (forall s, last (map Some l) None = Some s -> wrapping_sub16 (hseq m) (hseq s) < 32767) -> chain (l ++ [m]).
Proof.
  induction l as [|a l IH]; intros Hc Hl; [exact I|]. destruct l as [|b t].
  - cbn. split; [apply Hl; reflexivity|exact I].
  - cbn [app chain] in *. destruct Hc as [H1 H2]. split; [exact H1|]. apply IH; [exact H2|]. intros s Hs. apply Hl. exact Hs.
Qed.
Lemma chain_suffix l1 : forall l2, chain (l1 ++ l2) -> chain l2.
Proof.
  induction l1 as [|a l1 IH]; intros l2 H; [exact H|]. apply IH. cbn [app] in H. destruct (l1 ++ l2) as [|b t] eqn:E; [exact I|].
  destruct H as [_ H]. exact H.
Qed.
Lemma chain_removelast l : chain l -> chain (removelast l).
Proof.
  induction l as [|a l IH]; intros H; [exact I|]. cbn [removelast]. destruct l as [|b t]; [exact I|].
  destruct t as [|c t']; [exact I|]. cbn [chain] in H. destruct H as [H1 H2].
  change (removelast (b :: c :: t')) with (b :: removelast (c :: t')) in *. cbn [chain].
  specialize (IH H2). change (removelast (b :: c :: t')) with (b :: removelast (c :: t')) in IH.
  split; [exact H1|exact IH].
Qed.
Lemma chain_map_age s l : chain l -> chain (map (fun m => mkFMsg (fm_header m) (fm_ann m) (fm_age m + s)) l).
Proof.
  induction l as [|a l IH]; intros H; [exact I|]. destruct l as [|b t]; [exact I|].
  cbn [map chain] in *. destruct H as [H1 H2]. split; [exact H1|]. apply IH. exact H2.
Qed.

(** filtering an age-ordered list by "younger than the cut-off" keeps a suffix *)
Lemma purge_suffix ti msgs : sorted_msgs msgs -> exists l1, msgs = l1 ++ purge_old ti msgs.
Proof.
  unfold sorted_msgs, purge_old. induction 1 as [|a l Hl IH Ha]; [exists []; reflexivity|]. cbn [filter].
  destruct (fm_age a <? cutoff_age ti) eqn:E.
  - exists []. cbn [app]. f_equal. symmetry. change (filter (fun m => fm_age m <? cutoff_age ti) l) with (purge_old ti l). apply purge_id.
    rewrite Forall_forall in *. intros x Hx. specialize (Ha x Hx). lia.
  - destruct IH as (l1 & IH). exists (a :: l1). cbn [app]. f_equal. exact IH.
Qed.
Lemma last_suffix {A} (l1 l2 : list A) : l2 <> [] -> last (map Some (l1 ++ l2)) None = last (map Some l2) None.
Proof.
  intros Hne. induction l1 as [|a l1 IH]; [reflexivity|]. cbn [app map]. destruct (l1 ++ l2) as [|b t] eqn:E.
  - destruct l1, l2; cbn in E; try discriminate. contradiction Hne; reflexivity.
  - cbn [map last] in *. exact IH.
Qed.

Lemma chain_fm_register ti fm h a age :
  chain (fmr_msgs fm) -> sorted_msgs (fmr_msgs fm) ->
  (forall s, last (map Some (fmr_msgs fm)) None = Some s -> wrapping_sub16 (h_seq h) (hseq s) < 32767) ->
  chain (fmr_msgs (fm_register ti fm h a age)).
Proof.
  intros Hc Hs Hq. unfold fm_register. cbn [fmr_msgs]. destruct (purge_suffix ti _ Hs) as (l1 & Hsplit).
  assert (Hcp : chain (purge_old ti (fmr_msgs fm))) by (apply (chain_suffix l1); rewrite <- Hsplit; exact Hc).
  assert (Hlastp : forall l', (exists l0, purge_old ti (fmr_msgs fm) = l0 ++ l') -> forall s, last (map Some l') None = Some s ->
            wrapping_sub16 (h_seq h) (hseq s) < 32767).
  { intros l' (l0 & El') s Hs'. apply Hq. rewrite Hsplit, El', app_assoc. rewrite last_suffix; [exact Hs'|]. intros ->. discriminate Hs'. }
  destruct (_ <? _)%nat; apply chain_app_one.
  - exact Hcp.
  - apply Hlastp. exists []. reflexivity.
  - apply chain_tl. exact Hcp.
  - apply Hlastp. destruct (purge_old ti (fmr_msgs fm)) as [|x t]; [exists []; reflexivity|exists [x]; reflexivity].
Qed.

Lemma chain_fml_register own ti l h a age : chain_fml l -> sorted_fml l -> ids_nodup l -> chain_fml (fml_register own ti l h a age).
Proof.
  intros Hc Hs Hnd. unfold fml_register. destruct (fml_qualified own l h a) eqn:Eq; cbn [negb]; [|exact Hc].
  destruct (fml_find (h_source h) l) as [fm0|] eqn:Ff.
  - destruct (fml_find_in _ _ _ Ff) as [Hfm0 Hid0].
    intros fm' Hin. apply fml_update_in in Hin as [Hin|(y & Hy & Hid & ->)]; [exact (Hc fm' Hin)|].
    assert (y = fm0) by (apply (id_unique l); auto; congruence). subst y.
    apply chain_fm_register; [exact (Hc fm0 Hy)|exact (Hs fm0 Hy)|].
    intros s Hl. unfold fml_qualified in Eq. destruct (pi_clock (h_source h) =? pi_clock own); [discriminate|]. rewrite Ff, Hl in Eq.
    unfold hseq. destruct (32767 <=? wrapping_sub16 (h_seq h) (h_seq (fm_header s))) eqn:E; [cbn in Eq; discriminate Eq|]. lia.
  - destruct (_ <? _)%nat; [|exact Hc]. intros fm' Hin. apply in_app_or in Hin as [Hin|[<-|[]]]; [exact (Hc fm' Hin)|]. exact I.
Qed.

Lemma chain_take l : chain_fml l -> chain_fml (fst (fml_take_qualified l)).
Proof.
  intros Hc fm1 Hin. unfold fml_take_qualified in Hin. cbn [fst] in Hin. rewrite map_map in Hin. apply in_map_iff in Hin as (fm & <- & Hfm).
  unfold fm_take. destruct (_ <=? _)%nat; cbn [fst fmr_msgs]; [apply chain_removelast|]; exact (Hc fm Hfm).
Qed.

Lemma chain_step_age ti s l : chain_fml l -> sorted_fml l -> chain_fml (fml_step_age ti s l).
Proof.
  intros Hc Hs fm1 Hin. unfold fml_step_age in Hin. apply filter_In in Hin as [Hin _]. apply in_map_iff in Hin as (fm & <- & Hfm).
  unfold fm_step_age. cbn [fmr_msgs].
  destruct (purge_suffix ti _ (sorted_map_age s _ (Hs fm Hfm))) as (l1 & Hsplit).
  apply (chain_suffix l1). rewrite <- Hsplit. apply chain_map_age. exact (Hc fm Hfm).
Qed.

Lemma chain_take_best own acc ti fml fml1 best :
  bmca_take_best own acc ti fml = Ok (fml1, best) -> chain_fml fml -> sorted_fml fml -> ids_nodup fml -> chain_fml fml1.
Proof.
  intros H Hc Hs Hnd. destruct best as [b|].
  - destruct (take_best_shape _ _ _ _ _ _ H) as (fm & m & Hfm & Htk & _ & ->).
    unfold bmca_reregister. destruct (_ && _); [|apply chain_take; exact Hc].
    apply chain_fml_register; [apply chain_take; exact Hc|apply sorted_take; exact Hs|unfold ids_nodup; rewrite take_ids; exact Hnd].
  - unfold bmca_take_best in H. destruct (fml_take_qualified fml) as [l1 taken] eqn:Et.
    destruct (find_best _) as [[b|]|?]; cbn [obind] in H; try discriminate. inversion H; subst.
    replace fml1 with (fst (fml_take_qualified fml)) by (rewrite Et; reflexivity). apply chain_take. exact Hc.
Qed.

(** * the model invariants in every reachable state *)
Definition tidy_lists (pp : port) : Prop := sorted_fml (p_fml pp) /\ chain_fml (p_fml pp).
Definition MC (c : pcase) (i : instance) : Prop := M c i /\ all_ports_sat tidy_lists i.

Lemma inv6_nodup c i s6 n pp : inv6 c i s6 -> nth_error (i_ports i) n = Some pp -> ids_nodup (p_fml pp).
Proof. intros (_ & _ & _ & H6) Hn. destruct (H6 n pp Hn) as (_ & _ & Hx & _). exact Hx. Qed.

Lemma MC_step c i e i' o : reach_inv c i -> MC c i -> event_valid e -> step i e = Ok (i', o) -> MC c i'.
Proof.
  intros Hr [((s6 & H6) & Hag & Hso) Hti] He Hs.
  pose proof (ri_inv _ _ Hr) as Hi.
  destruct (step_C06_model c i s6 e i' o Hr H6 He Hs) as (s6' & _ & H6').
  pose proof (aged0_step i e i' o Hi He Hs Hag) as Hag'.
  assert (Hti' : all_ports_sat tidy_lists i').
  { assert (Hsame : forall n f, on_port i n f = Ok (i', o) -> (forall p, keeps_fml p (f p (i_ds i))) -> all_ports_sat tidy_lists i').
    { intros n f Hop Hkf. apply (keep_sat tidy_lists i n f i' o Hop); [|exact Hti].
      intros pp pp' d' oo Hx Ht. unfold tidy_lists. rewrite (Hkf pp _ _ _ Hx). exact Ht. }
    assert (Hrecv : forall n frame f,
              (forall pp d, f pp d = handle_general_receive pp d (port_ti pp) frame \/
                            exists ts, f pp d = handle_event_receive pp d (port_ti pp) frame ts) ->
              on_port i n f = Ok (i', o) -> all_ports_sat tidy_lists i').
    { intros n frame f Hf Hop. intros m pp' Hm'.
      destruct (on_port_full i n f i' o Hop) as [(_ & ->)|(pp0 & pp0' & d' & oo & Hn & Hh & ->)]; [exact (Hti m pp' Hm')|].
      cbn [i_ports] in Hm'. destruct (Nat.eq_dec m n) as [->|Hne];
        [|rewrite nth_error_update_other in Hm' by (intros E; apply Hne; symmetry; exact E); exact (Hti m pp' Hm')].
      rewrite nth_error_update_same in Hm' by (apply nth_error_Some; rewrite Hn; discriminate). inversion Hm'; subst pp'.
      destruct (Hti n pp0 Hn) as [T1 T2]. destruct (Hag n pp0 Hn) as [A1 _].
      destruct (recv_fm pp0 (i_ds i) (port_ti pp0) frame pp0' d' oo (f pp0 (i_ds i)) (Hf pp0 (i_ds i)) Hh) as [[F _]|(mm & a & o2 & _ & _ & _ & _ & _ & Ha)];
        [unfold tidy_lists; rewrite F; split; assumption|].
      destruct (handle_announce_fm _ _ _ _ _ _ _ _ Ha) as [[F _]|(_ & F & _)]; [unfold tidy_lists; rewrite F; split; assumption|].
      unfold tidy_lists. rewrite F. split.
      - apply sorted_fml_register; [exact T1|]. intros fm Hfm _ x Hx. exact (A1 fm Hfm x Hx).
      - apply chain_fml_register; [exact T2|exact T1|exact (inv6_nodup c i s6 n pp0 H6 Hn)]. }
    destruct e; cbn [step] in Hs.
    - apply (Hrecv p frame _ (fun pp d => or_intror (ex_intro _ ts eq_refl))). exact Hs.
    - apply (Hrecv p frame _ (fun pp d => or_introl eq_refl)). exact Hs.
    - apply (Hsame p _ Hs). intros pp p' d' oo Hx. unfold handle_send_timestamp in Hx. destruct ctx;
        [eapply handle_sync_timestamp_fml|eapply handle_delay_timestamp_fml|eapply handle_pdelay_timestamp_fml|eapply handle_pdelay_response_timestamp_fml]; eauto.
    - apply (Hsame p _ Hs). intros pp. apply send_announce_fml.
    - apply (Hsame p _ Hs). intros pp. apply send_sync_fml.
    - apply (Hsame p _ Hs). intros pp. apply send_delay_request_fml.
    - apply (Hsame p _ Hs). intros pp. apply receipt_timer_fml.
    - apply (Hsame p _ Hs). intros pp p' d' oo Hx. unfold handle_filter_update_timer, ret in Hx. inversion Hx; reflexivity.
    - (* BMCA *)
      intros n pp' Hn'. destruct (bmca_ports_back i i' o n pp' Hs Hn') as (pp & Hn).
      destruct (bmca_port6 i i' o n pp Hs Hn) as (pp2 & stepd & fml1 & best & iv & Hn2 & _ & Htb & _ & Hf & _).
      rewrite Hn' in Hn2. inversion Hn2; subst pp2. destruct (Hti n pp Hn) as [T1 T2].
      assert (Hpi : port_inv pp) by (destruct Hi as (Hports & _); rewrite Forall_forall in Hports; apply Hports; eapply nth_error_In; eauto).
      assert (Hwf : fml_wf (p_identity pp) (p_fml pp)) by (destruct Hpi as (_ & _ & _ & _ & (Hw & _) & _); exact Hw).
      pose proof (inv6_nodup c i s6 n pp H6 Hn) as Hnd.
      pose proof (sorted_take_best _ _ _ _ _ _ Htb T1 Hwf Hnd) as S1.
      pose proof (chain_take_best _ _ _ _ _ _ Htb T2 T1 Hnd) as C1.
      unfold tidy_lists. rewrite Hf. split; [apply sorted_step_age; exact S1|apply chain_step_age; assumption].
    - inversion Hs; subst. exact Hti.
    - inversion Hs; subst. exact Hti.
    - inversion Hs; subst. exact Hti. }
  split; [split; [exists s6'; exact H6'|split; [exact Hag'|intros n pp Hn; exact (proj1 (Hti' n pp Hn))]]|exact Hti'].
Qed.

(** * a BMCA run: the data sets when a port is slave afterwards *)
Lemma dec_ds1 r : dec_of r = DS1 -> exists h a, r = Some (RS1 h a).
Proof. destruct r as [[| | | | |h a]|]; cbn; intros H; try discriminate. eauto. Qed.

Lemma decided_slave dec prev so mp : decided_state dec prev so mp = 9 -> dec = DS1 \/ (dec = DNone /\ prev = 9).
Proof.
  unfold decided_state. destruct (prev =? 2) eqn:E; [intros H; discriminate|].
  destruct dec; intros H; auto; try (destruct so; [discriminate|destruct mp; discriminate]); discriminate.
Qed.

Lemma bmca_slave_ds i i' o n pp' :
  bmca i = Ok (i', o) -> nth_error (i_ports i') n = Some pp' -> is_slave (p_state pp') = true ->
  exists pp stepd fml1 pb,
    nth_error (i_ports i) n = Some pp /\
    bmca_take_best (p_identity pp) (pc_acceptable (p_config pp)) (port_ti pp) (p_fml pp) = Ok (fml1, Some pb) /\
    p_fml pp' = fml_step_age (port_ti pp) stepd fml1 /\
    i_ds i' = ds_upd (Some (RS1 (b_header pb) (b_ann pb))) (i_ds i) /\
    (forall st', p_state pp' = PSlave st' -> ss_remote st' = h_source (b_header pb)).
Proof.
  intros Hb Hn' Hsl. destruct (bmca_ports_back i i' o n pp' Hb Hn') as (pp & Hn).
  destruct (bmca_port6 i i' o n pp Hb Hn) as (pp2 & stepd & fml1 & best & iv & Hn2 & _ & Htb & _ & Hf & _ & _ & Hslave & _).
  rewrite Hn' in Hn2. inversion Hn2; subst pp2. destruct (Hslave Hsl) as (pb & -> & Hrem).
  exists pp, stepd, fml1, pb. split; [exact Hn|]. split; [exact Htb|]. split; [exact Hf|]. split; [|exact Hrem].
  (* the data sets *)
  destruct (bmca_struct _ _ _ Hb) as (step & bps & eb & bps1 & d1 & ports & E0 & Ebps & Eeb & Edec & Eports & Hi').
  pose proof (omap_list_rel calc_local_best (fun pp b => calc_local_best pp = Ok b) (fun _ _ H => H) _ _ Ebps) as F1.
  destruct (MainC09.Forall2_nth _ _ _ F1 n pp Hn) as (b & Hbn & Hcb).
  unfold calc_local_best in Hcb. rewrite Htb in Hcb. cbn [obind fst snd] in Hcb. inversion Hcb; subst b. clear Hcb.
  destruct (bmca_decide_spec _ _ _ _ _ _ Edec) as (tail & Ht & HF2 & Hd1). cbn [app] in Ht. subst tail.
  pose proof (omap_list_rel (fun b => step_announce_age step (bp_port b)) (fun b pp' => p_state pp' = p_state (bp_port b))
                (fun b pp' H => step_announce_age_state _ _ _ H) _ _ Eports) as HF3.
  destruct (MainC09.Forall2_nth _ _ _ HF2 n _ Hbn) as (b1 & Hb1 & r & Hrec & Happ).
  destruct (MainC09.Forall2_nth _ _ _ HF3 n b1 Hb1) as (pp2 & Hpp2 & Hst).
  rewrite Hi' in Hn'. cbn [i_ports] in Hn'. rewrite Hn' in Hpp2. inversion Hpp2; subst pp2.
  destruct Happ as (_ & _ & _ & _ & Hcode). rewrite <- Hst in Hcode.
  assert (Hc9 : port_state_code (p_state pp') = 9) by (destruct (p_state pp'); try discriminate Hsl; reflexivity).
  rewrite Hc9 in Hcode. symmetry in Hcode. apply decided_slave in Hcode as [Hdec|[Hdec Hprev]].
  2:{ exfalso. destruct r as [[]|]; cbn in Hdec; try discriminate Hdec. unfold rec_of in Hrec. apply recommended_None in Hrec.
      rewrite Hrec in Hprev. discriminate Hprev. }
  destruct (dec_ds1 r Hdec) as (h & a & ->).
  unfold rec_of in Hrec. cbn [bp_best bp_port] in Hrec.
  destruct (recommended_RS1 _ _ _ _ _ _ Hrec) as (g & pb' & Hg & Hpb' & Hbe & -> & ->). inversion Hpb'; subst pb'.
  unfold best_eqb in Hbe. apply andb_true_iff in Hbe as [Hbe _]. apply andb_true_iff in Hbe as [Hbe _]. apply andb_true_iff in Hbe as [Hh Ha].
  apply header_eqb_eq in Hh. apply ann_eqb_eq in Ha. rewrite <- Hh, <- Ha.
  rewrite Hi'. cbn [i_ds]. rewrite Hd1.
  set (dd := ds_default (i_ds i)) in *.
  apply (fold_F (upd_of dd eb) (ds_upd (Some (RS1 (b_header g) (b_ann g))))).
  - intros d0. reflexivity.
  - intros b' Hb'. destruct (recommended_total dd eb (bp_best b') (p_state (bp_port b'))) as (r' & Hr').
    assert (Hu : forall d0, upd_of dd eb d0 b' = ds_upd r' d0) by (intros d0; unfold upd_of, rec_of; rewrite Hr'; reflexivity).
    destruct r' as [[d0|d0|h' a'|h' a'|h' a'|h' a']|]; try (left; intros d2; rewrite Hu; reflexivity).
    + exfalso. destruct (decision_refines_fig33 dd eb (bp_best b') (p_state (bp_port b'))) as (r2 & Hr2 & Hf2). rewrite Hr' in Hr2. inversion Hr2; subst r2.
      destruct (decision_refines_fig33 dd eb (Some pb) (p_state (port_with_fml pp fml1))) as (r3 & Hr3 & Hf3). rewrite Hrec in Hr3. inversion Hr3; subst r3.
      cbn [dec_of] in Hf2, Hf3. symmetry in Hf3. destruct (fig33_excl _ _ _ _ _ _ (option_map best_cmp_ds (bp_best b')) (same_best eb (bp_best b')) (is_listening (p_state (bp_port b'))) Hf3) as [X _].
      apply X. symmetry. exact Hf2.
    + exfalso. destruct (decision_refines_fig33 dd eb (bp_best b') (p_state (bp_port b'))) as (r2 & Hr2 & Hf2). rewrite Hr' in Hr2. inversion Hr2; subst r2.
      destruct (decision_refines_fig33 dd eb (Some pb) (p_state (port_with_fml pp fml1))) as (r3 & Hr3 & Hf3). rewrite Hrec in Hr3. inversion Hr3; subst r3.
      cbn [dec_of] in Hf2, Hf3. symmetry in Hf3. destruct (fig33_excl _ _ _ _ _ _ (option_map best_cmp_ds (bp_best b')) (same_best eb (bp_best b')) (is_listening (p_state (bp_port b'))) Hf3) as [_ X].
      apply X. symmetry. exact Hf2.
    + right. intros d2. rewrite Hu. destruct (recommended_RS1 _ _ _ _ _ _ Hr') as (g' & _ & Hg' & _ & _ & -> & ->).
      rewrite Hg in Hg'. inversion Hg'; subst g'. reflexivity.
  - exists (mkBP (port_with_fml pp fml1) (Some pb) [] []). split; [eapply nth_error_In; exact Hbn|].
    intros d2. unfold upd_of, rec_of. cbn [bp_best bp_port]. rewrite Hrec. reflexivity.
Qed.

(** the port's list after a BMCA run that selected [m] of record [fm] as its best message *)
Lemma reregistered own acc ti fml fm m :
  ids_nodup fml -> fml_wf own fml -> sorted_fml fml -> chain_fml fml ->
  fml_all (hdr_acc acc own) fml ->
  In fm fml -> snd (fm_take fm) = Some m ->
  forall stepd fm', In fm' (fml_step_age ti stepd (bmca_reregister own acc ti (fst (fml_take_qualified fml)) (fm_header m) (fm_ann m) (fm_age m))) ->
    fmr_identity fm' = fmr_identity fm ->
    forall m', last (map Some (fmr_msgs fm')) None = Some m' -> fm_header m' = fm_header m /\ fm_ann m' = fm_ann m.
Proof.
  intros Hnd Hwf Hso Hch Hacc Hfm Htk stepd fm' Hin' Hid' m' Hl'.
  destruct (fm_take_last fm m Htk) as (Hlen & Hmsgs & Hfst).
  set (l1 := fst (fml_take_qualified fml)) in *. set (f1 := fst (fm_take fm)) in *.
  assert (Hmin : In m (fmr_msgs fm)) by (rewrite Hmsgs; apply in_or_app; right; left; reflexivity).
  unfold fml_wf in Hwf. rewrite Forall_forall in Hwf. pose proof (Hwf fm Hfm) as Hfw. unfold fm_wf in Hfw. rewrite Forall_forall in Hfw.
  destruct (Hfw m Hmin) as (Hsrc & Hclk & Hsteps).
  unfold fml_all in Hacc. rewrite Forall_forall in Hacc. pose proof (Hacc fm Hfm) as Hfa. rewrite Forall_forall in Hfa. destruct (Hfa m Hmin) as (Ha1 & Ha2).
  assert (Hnd1 : ids_nodup l1) by (unfold ids_nodup, l1; rewrite take_ids; exact Hnd).
  assert (Hin1 : In f1 l1) by (unfold l1, fml_take_qualified; cbn [fst]; rewrite map_map; apply in_map_iff; exists fm; split; [reflexivity|exact Hfm]).
  assert (Hid1 : fmr_identity f1 = h_source (fm_header m)) by (rewrite Hfst, Hsrc; reflexivity).
  (* accepted *)
  assert (Eacc : negb (pi_eqb (h_source (fm_header m)) own) && acceptable acc (pi_clock (h_source (fm_header m))) = true).
  { rewrite Ha1, andb_true_r. apply negb_true_iff. apply pi_eqb_false. intros E. apply Ha2. rewrite E. reflexivity. }
  (* qualified: the predecessor of m in the record is its neighbour in the chain *)
  assert (Ef : fml_find (h_source (fm_header m)) l1 = Some f1).
  { destruct (fml_find_some _ _ f1 Hin1 Hid1) as (f & Ef). destruct (fml_find_in _ _ _ Ef) as [Hf1 Hf2].
    rewrite (id_unique l1 f f1 Hnd1 Hf1 Hin1 ltac:(congruence)) in Ef. exact Ef. }
  assert (Eq : fml_qualified own l1 (fm_header m) (fm_ann m) = true).
  { unfold fml_qualified. assert (E1 : (pi_clock (h_source (fm_header m)) =? pi_clock own) = false) by (apply Z.eqb_neq; rewrite Hsrc; exact Hclk).
    rewrite E1, Ef. assert (E2 : (255 <=? an_steps_removed (fm_ann m)) = false) by lia. rewrite E2.
    rewrite Hfst. cbn [fmr_msgs].
    destruct (removelast (fmr_msgs fm)) as [|s0 r0] eqn:Er using rev_ind; [reflexivity|]. clear IHr0.
    rewrite last_app_one.
    (* chain of the original record: ... s0, m *)
    pose proof (Hch fm Hfm) as Hc. rewrite Hmsgs in Hc. try rewrite Er in Hc. rewrite <- app_assoc in Hc. apply chain_suffix in Hc. cbn [app chain] in Hc.
    destruct Hc as [Hc _]. unfold hseq in Hc.
    replace (negb (32767 <=? wrapping_sub16 (h_seq (fm_header m)) (h_seq (fm_header s0)))) with true by (symmetry; apply negb_true_iff; apply Z.leb_gt; exact Hc).
    reflexivity. }
  unfold bmca_reregister in Hin'. rewrite Eacc in Hin'. unfold fml_register in Hin'. fold l1 in Hin'. rewrite Eq in Hin'. cbn [negb] in Hin'. rewrite Ef in Hin'.
  unfold fml_step_age in Hin'. apply filter_In in Hin' as [Hin' _]. apply in_map_iff in Hin' as (f2 & <- & Hf2).
  cbn [fm_step_age fmr_identity] in Hid'.
  destruct (fml_update_in_nd (h_source (fm_header m)) (fun fm0 => fm_register ti fm0 (fm_header m) (fm_ann m) (fm_age m)) l1 f2 Hnd1 (fun _ => eq_refl) Hf2) as [[_ Hne]|(f1' & Hf1' & Hid1' & ->)].
  { exfalso. apply Hne. rewrite Hid', <- Hsrc. reflexivity. }
  assert (f1' = f1) by (apply (id_unique l1); auto; congruence). subst f1'.
  (* the re-registered record ends with m *)
  pose proof (fm_register_last ti f1 (fm_header m) (fm_ann m) (fm_age m)) as Hlast.
  assert (Hsorted : sorted_msgs (fmr_msgs (fm_register ti f1 (fm_header m) (fm_ann m) (fm_age m)))).
  { apply sorted_fm_register.
    - rewrite Hfst. cbn [fmr_msgs]. apply sorted_removelast. exact (Hso fm Hfm).
    - intros x Hx. rewrite Hfst in Hx. cbn [fmr_msgs] in Hx.
      apply (sorted_last_min (fmr_msgs fm) m (Hso fm Hfm)); [rewrite Hmsgs; apply last_app_one|rewrite Hmsgs; apply in_or_app; left; exact Hx]. }
  cbn [fm_step_age fmr_msgs] in Hl'.
  set (aged_msgs := map (fun m0 => mkFMsg (fm_header m0) (fm_ann m0) (fm_age m0 + stepd)) (fmr_msgs (fm_register ti f1 (fm_header m) (fm_ann m) (fm_age m)))) in *.
  assert (Hlast2 : last (map Some aged_msgs) None = Some (mkFMsg (fm_header m) (fm_ann m) (fm_age m + stepd))).
  { unfold aged_msgs. destruct (fmr_msgs (fm_register ti f1 (fm_header m) (fm_ann m) (fm_age m))) as [|x0 r1] eqn:Em using rev_ind; [discriminate Hlast|]. clear IHr1.
    rewrite last_app_one in Hlast. inversion Hlast; subst x0. rewrite map_app. cbn [map]. apply last_app_one. }
  pose proof (last_purge ti aged_msgs _ m' (sorted_map_age stepd _ Hsorted) Hlast2 Hl') as ->.
  split; reflexivity.
Qed.

(** * a BMCA run and the invariant *)
Lemma bmca_K c i l i' o :
  reach_inv c i -> MC c i -> K c i l -> bmca i = Ok (i', o) ->
  K c i' l /\
  (forall n pp pp' st st', nth_error (i_ports i) n = Some pp -> nth_error (i_ports i') n = Some pp' ->
     p_state pp = PSlave st -> p_state pp' = PSlave st' -> ss_remote st' = ss_remote st ->
     steady11 n (ss_remote st) l = true -> ds_core (i_ds i') = ds_core (i_ds i)).
Proof.
  intros Hr [((s6 & H6) & Hag & _) Hti] HK Hb.
  pose proof Hr as [Hi Hclk Hsp Hacc Hcf].
  (* per port: the list afterwards is a sub-list of the list before *)
  assert (Hport : forall n pp', nth_error (i_ports i') n = Some pp' ->
            exists pp stepd fml1 best, nth_error (i_ports i) n = Some pp /\
              bmca_take_best (p_identity pp) (pc_acceptable (p_config pp)) (port_ti pp) (p_fml pp) = Ok (fml1, best) /\
              p_fml pp' = fml_step_age (port_ti pp) stepd fml1 /\ fml_sub (p_fml pp') (p_fml pp) /\
              ids_nodup (p_fml pp) /\ fml_wf (p_identity pp) (p_fml pp) /\ port_acc pp).
  { intros n pp' Hn'. destruct (bmca_ports_back i i' o n pp' Hb Hn') as (pp & Hn).
    destruct (bmca_port6 i i' o n pp Hb Hn) as (pp2 & stepd & fml1 & best & iv & Hn2 & _ & Htb & _ & Hf & _).
    rewrite Hn' in Hn2. inversion Hn2; subst pp2.
    assert (Hpi : port_inv pp) by (destruct Hi as (Hports & _); rewrite Forall_forall in Hports; apply Hports; eapply nth_error_In; eauto).
    assert (Hwf : fml_wf (p_identity pp) (p_fml pp)) by (destruct Hpi as (_ & _ & _ & _ & (Hw & _) & _); exact Hw).
    assert (Hla : -7 <= pc_log_announce (p_config pp) <= 7) by (destruct Hpi as ((Hx & _) & _); exact Hx).
    destruct (cutoff_pos pp Hla) as (_ & _ & Hcpos).
    pose proof (inv6_nodup c i s6 n pp H6 Hn) as Hnd.
    assert (Hlt : fml_lt (port_ti pp) (p_fml pp)) by (destruct H6 as (_ & _ & _ & Hx); destruct (Hx n pp Hn) as (_ & Hy & _); exact Hy).
    destruct (take_best_sub _ _ _ _ _ _ Htb Hnd Hwf Hlt Hcpos) as (S1 & _ & _).
    assert (Hpacc : port_acc pp) by (unfold inst_acc in Hacc; rewrite Forall_forall in Hacc; apply Hacc; eapply nth_error_In; eauto).
    exists pp, stepd, fml1, best. split; [exact Hn|]. split; [exact Htb|]. split; [exact Hf|].
    split; [rewrite Hf; eapply fml_sub_trans; [apply step_age_sub|exact S1]|]. split; [exact Hnd|]. split; [exact Hwf|exact Hpacc]. }
  (* a port that is slave afterwards holds, as the newest record of its parent, the Announce the data sets were taken from *)
  assert (Hslave : forall n pp' st', nth_error (i_ports i') n = Some pp' -> p_state pp' = PSlave st' ->
            exists pp fm m, nth_error (i_ports i) n = Some pp /\ In fm (p_fml pp) /\ fmr_identity fm = ss_remote st' /\
              last (map Some (fmr_msgs fm)) None = Some m /\
              i_ds i' = ds_upd (Some (RS1 (fm_header m) (fm_ann m))) (i_ds i) /\
              forall fm', In fm' (p_fml pp') -> fmr_identity fm' = ss_remote st' ->
                forall m', last (map Some (fmr_msgs fm')) None = Some m' -> fm_header m' = fm_header m /\ fm_ann m' = fm_ann m).
  { intros n pp' st' Hn' Hst'.
    destruct (bmca_slave_ds i i' o n pp' Hb Hn' ltac:(rewrite Hst'; reflexivity)) as (pp & stepd & fml1 & pb & Hn & Htb & Hf & Hds & Hrem).
    destruct (Hport n pp' Hn') as (pp2 & _ & _ & _ & Hn2 & _ & _ & _ & Hnd & Hwf & Hpacc). rewrite Hn in Hn2. inversion Hn2; subst pp2.
    destruct (take_best_shape _ _ _ _ _ _ Htb) as (fm & m & Hfm & Htk & Hpb & Hfml1).
    destruct (fm_take_last fm m Htk) as (_ & Hmsgs & _).
    assert (Hmin : In m (fmr_msgs fm)) by (rewrite Hmsgs; apply in_or_app; right; left; reflexivity).
    pose proof Hwf as Hwf0. unfold fml_wf in Hwf0. rewrite Forall_forall in Hwf0. pose proof (Hwf0 fm Hfm) as Hfw. unfold fm_wf in Hfw. rewrite Forall_forall in Hfw.
    destruct (Hfw m Hmin) as (Hsrc & _).
    assert (Hrm : ss_remote st' = fmr_identity fm) by (rewrite (Hrem st' Hst'), Hpb; cbn [b_header]; exact Hsrc).
    destruct (Hti n pp Hn) as [T1 T2]. destruct Hpacc as [Hpa _].
    exists pp, fm, m. split; [exact Hn|]. split; [exact Hfm|]. split; [symmetry; exact Hrm|]. split; [rewrite Hmsgs; apply last_app_one|].
    split; [rewrite Hds, Hpb; reflexivity|].
    intros fm' Hfm' Hid' m' Hl'. rewrite Hf, Hfml1 in Hfm'.
    apply (reregistered (p_identity pp) (pc_acceptable (p_config pp)) (port_ti pp) (p_fml pp) fm m Hnd Hwf T1 T2 Hpa Hfm Htk stepd fm' Hfm');
      [rewrite Hid'; exact Hrm|exact Hl']. }
  split.
  - destruct HK as [K1 K2 K3]. constructor.
    + intros n pp' fm' Hn' Hfm'. destruct (Hport n pp' Hn') as (pp & _ & _ & _ & Hn & _ & _ & Hsub & _).
      destruct (Hsub fm' Hfm') as (fm & Hfm & Hid & _). rewrite Hid. exact (K1 n pp fm Hn Hfm).
    + intros n pp' src x Hn' He Hok. destruct (Hport n pp' Hn') as (pp & _ & _ & _ & Hn & _ & _ & Hsub & _).
      destruct (K2 n pp src x Hn He Hok) as (Hr0 & Hb0). split; [exact Hr0|].
      intros fm' Hfm' Hid' m' Hm'. destruct (Hsub fm' Hfm') as (fm & Hfm & Hid & Hmsg). destruct (Hmsg m' Hm') as (m0 & Hm0 & ->).
      apply (Hb0 fm Hfm); [congruence|exact Hm0].
    + intros n pp' st' Hn' Hst' _ fm' Hfm' Hid' m' Hl'.
      destruct (Hslave n pp' st' Hn' Hst') as (pp & fm & m & _ & _ & _ & _ & Hds & Hnew).
      destruct (Hnew fm' Hfm' Hid' m' Hl') as (E1 & E2). rewrite Hds. unfold s1_match, ds_upd, ds_with. cbn [ds_steps_removed ds_parent ds_tp].
      rewrite E1, E2. repeat split; reflexivity.
  - intros n pp pp' st st' Hn Hn' Hst Hst' Hrem Hsteady.
    destruct (Hslave n pp' st' Hn' Hst') as (pp2 & fm & m & Hn2 & Hfm & Hid & Hl & Hds & _). rewrite Hn in Hn2. inversion Hn2; subst pp2.
    destruct (k_slave _ _ _ HK n pp st Hn Hst Hsteady fm Hfm ltac:(rewrite Hid; exact Hrem) m Hl) as (A & B & C).
    rewrite Hds. unfold ds_core, ds_upd, ds_with. cbn [ds_steps_removed ds_parent ds_tp]. rewrite A, B, C. reflexivity.
Qed.

(** * one event *)
Lemma step_C11d_model c i l e i' o :
  reach_inv c i -> MC c i -> K c i l -> event_valid e -> step i e = Ok (i', o) ->
  exists l', step_C11d c l (snapshot_of i) e o (snapshot_of i') = Some l' /\ K c i' l'.
Proof.
  intros Hr HMC HK He Hs. pose proof (reach_step c i e i' o Hr He Hs) as Hr'.
  (* the receive events *)
  assert (Hrecv : forall n frame f,
            (forall pp d, f pp d = handle_general_receive pp d (port_ti pp) frame \/
                          exists ts, f pp d = handle_event_receive pp d (port_ti pp) frame ts) ->
            on_port i n f = Ok (i', o) ->
            exists l', match (if is_compatible frame then decoded frame else None) with
                       | Some m => match m_body m with
                                   | BAnnounce _ => Some (note11 n (h_source (m_header m)) (h_seq (m_header m)) l)
                                   | _ => Some l
                                   end
                       | None => Some l
                       end = Some l' /\ K c i' l').
  { intros n frame f Hf Hop. exists (noted n frame l). split.
    - unfold noted. destruct (if is_compatible frame then decoded frame else None) as [m|]; [|reflexivity]. destruct (m_body m); reflexivity.
    - destruct (on_port_full i n f i' o Hop) as [(_ & ->)|(pp0 & pp0' & d' & oo & Hn & Hh & ->)]; [apply K_noted; exact HK|].
      apply (recv_K c i l n pp0 pp0' d' oo frame (f pp0 (i_ds i)) Hr (proj1 HMC) HK Hn (Hf pp0 (i_ds i)) Hh). }
  (* the other calls on a port *)
  assert (Hoth : forall n f, on_port i n f = Ok (i', o) ->
            (forall p, keeps_remote p (f p (i_ds i))) -> (forall p, keeps_fml p (f p (i_ds i))) -> (forall p, keeps_d (i_ds i) (f p (i_ds i))) ->
            exists l', Some l = Some l' /\ K c i' l').
  { intros n f Hop Hkr Hkf Hkd. exists l. split; [reflexivity|].
    destruct (on_port_full i n f i' o Hop) as [(_ & ->)|(pp0 & pp0' & d' & oo & Hn & Hh & ->)]; [exact HK|].
    assert (Hnlt : (n < length (i_ports i))%nat) by (apply nth_error_Some; rewrite Hn; discriminate).
    apply (K_keep c i); [exact HK|cbn [i_ds]; rewrite (Hkd pp0 _ _ _ Hh); reflexivity|].
    intros q pq' Hq'. cbn [i_ports] in Hq'. destruct (Nat.eq_dec q n) as [->|Hne].
    - rewrite nth_error_update_same in Hq' by exact Hnlt. inversion Hq'; subst pq'. exists pp0. split; [exact Hn|]. split; [eapply Hkf; eauto|eapply Hkr; eauto].
    - rewrite nth_error_update_other in Hq' by (intros E; apply Hne; symmetry; exact E). exists pq'. auto. }
  assert (Hsame : i_ports i' = i_ports i -> ds_core (i_ds i') = ds_core (i_ds i) -> exists l', Some l = Some l' /\ K c i' l').
  { intros Hp Hc. exists l. split; [reflexivity|]. apply (K_keep c i); [exact HK|exact Hc|]. intros q pq' Hq'. rewrite Hp in Hq'. exists pq'. auto. }
  destruct e; cbn [step event_valid step_C11d] in *.
  - apply (Hrecv p frame _ (fun pp d => or_intror (ex_intro _ ts eq_refl))). exact Hs.
  - apply (Hrecv p frame _ (fun pp d => or_introl eq_refl)). exact Hs.
  - apply (Hoth p _ Hs); intros pp; [apply handle_send_timestamp_remote|intros p' d' oo Hx; unfold handle_send_timestamp in Hx; destruct ctx;
      [eapply handle_sync_timestamp_fml|eapply handle_delay_timestamp_fml|eapply handle_pdelay_timestamp_fml|eapply handle_pdelay_response_timestamp_fml]; eauto
      |apply send_timestamp_d].
  - apply (Hoth p _ Hs); intros pp; [apply send_announce_remote|apply send_announce_fml|apply send_announce_d].
  - apply (Hoth p _ Hs); intros pp; [apply send_sync_remote|apply send_sync_fml|apply send_sync_d].
  - apply (Hoth p _ Hs); intros pp; [apply send_delay_request_remote|apply send_delay_request_fml|apply send_delay_request_d].
  - apply (Hoth p _ Hs); intros pp; [apply receipt_timer_remote|apply receipt_timer_fml|apply receipt_timer_d].
  - apply (Hoth p _ Hs); intros pp.
    + intros p' d' oo Hx. unfold handle_filter_update_timer, ret in Hx. inversion Hx; subst. left. reflexivity.
    + intros p' d' oo Hx. unfold handle_filter_update_timer, ret in Hx. inversion Hx; reflexivity.
    + intros p' d' oo Hx. unfold handle_filter_update_timer, ret in Hx. inversion Hx; reflexivity.
  - (* BMCA *)
    destruct (bmca_K c i l i' o Hr HMC HK Hs) as [HK' Hd]. cbv zeta.
    match goal with |- exists l', (if ?k then _ else _) = _ /\ _ => destruct k eqn:Ekept end; [|exists l; split; [reflexivity|exact HK']].
    apply andb_true_iff in Ekept as [Eex Epar]. apply existsb_exists in Eex as (p & _ & Ep).
    apply andb_true_iff in Ep as [Ep Hsteady]. apply andb_true_iff in Ep as [E9 E9'].
    apply Z.eqb_eq in E9, E9'. apply pi_eqb_eq in Epar.
    destruct (state_9_slave i p E9) as (pp & Hn & Hsl). destruct (state_9_slave i' p E9') as (pp' & Hn' & Hsl').
    destruct (is_slave_inv _ Hsl) as (st & Hst). destruct (is_slave_inv _ Hsl') as (st' & Hst').
    pose proof (ri_par _ _ Hr pp st (nth_error_In _ _ Hn) Hst) as Hp1. pose proof (ri_par _ _ Hr' pp' st' (nth_error_In _ _ Hn') Hst') as Hp2.
    unfold parent_id in Hp1, Hp2. cbn [snapshot_of sn_ds] in Epar, Hsteady.
    assert (Hcore : ds_core (i_ds i') = ds_core (i_ds i)).
    { apply (Hd p pp pp' st st' Hn Hn' Hst Hst'); [rewrite Hp1, Hp2; exact Epar|rewrite Hp1; exact Hsteady]. }
    unfold ds_core in Hcore. inversion Hcore as [[C1 C2 C3]]. cbn [snapshot_of sn_ds]. rewrite C1, C2, C3, Z.eqb_refl, pd_eqb_refl, tp_eqb_refl.
    exists l. split; [reflexivity|exact HK'].
  - apply Hsame; inversion Hs; reflexivity.
  - apply Hsame; inversion Hs; reflexivity.
  - apply Hsame; inversion Hs; reflexivity.
Qed.

(** * the walk and the initial state *)
Lemma walk_C11d_model c es : forall i l,
  reach_inv c i -> MC c i -> K c i l -> Forall event_valid es ->
  walk (step_C11d c) l (snapshot_of i) es (run i es) = true.
Proof.
  induction es as [|e es IH]; intros i l Hr HMC HK Hes; cbn [run walk]; [reflexivity|].
  inversion Hes as [|? ? He Hes']; subst.
  destruct (step_ok i e (ri_inv _ _ Hr) He) as (i1 & o1 & Hs & _). rewrite Hs. cbn [walk].
  destruct (step_C11d_model c i l e i1 o1 Hr HMC HK He Hs) as (l' & Hst & HK'). rewrite Hst.
  apply IH; [eapply reach_step; eauto|eapply MC_step; eauto|exact HK'|exact Hes'].
Qed.

(** clause (d) of the C11 oracle accepts the model's own trace, for every valid
    set-up and every valid event list *)
Theorem ok_C11d_model s es rel :
  setup_valid s -> Forall event_valid es ->
  exists i o, init s = Ok (i, o) /\ ok_C11d (mkCase s es rel (Some o) (run i es)) = true.
Proof.
  intros Hs Hes. destruct (init_ok s Hs) as (i & o & Hi & _). exists i, o. split; [exact Hi|].
  unfold ok_C11d. cbn [pc_events pc_trace]. unfold init_snap. cbn [pc_setup]. rewrite Hi.
  set (c := mkCase s es rel (Some o) (run i es)).
  assert (Hf : Forall (fun p => p_fml p = [] /\ p_multiport_disable p = None) (i_ports i)).
  { unfold init in Hi. eapply add_ports_fresh; [|exact Hi]. constructor. }
  rewrite Forall_forall in Hf.
  assert (Hr : reach_inv c i) by (apply reach_init; assumption).
  apply walk_C11d_model; [exact Hr| | |exact Hes].
  - (* the model invariants at the start *)
    split; [split; [|split]|].
    + (* the C06 invariant, from the start of its own walk *)
      exists (mkS6 0 (map (fun _ => []) (all_ports c)) (map (fun _ => -1000) (all_ports c))).
      unfold inv6. cbn [arrs own_seen run_no]. rewrite !map_length. unfold all_ports. rewrite seq_length.
      split; [reflexivity|]. split; [reflexivity|]. split; [unfold init in Hi; rewrite (add_ports_log _ _ _ _ _ Hi); reflexivity|].
      intros n pp Hn. fold (all_ports c). rewrite (nth_const_gen (@nil arrival)), (nth_const_gen (-1000)).
      destruct (Hf pp (nth_error_In _ _ Hn)) as [F1 F2].
      unfold cp6. rewrite F1, F2. split; [constructor|]. split; [constructor|]. split; [constructor|]. split; [lia|].
      intros age Hx. discriminate Hx.
    + intros n pp Hn. destruct (Hf pp (nth_error_In _ _ Hn)) as [F1 F2]. split; [rewrite F1; intros fm []|rewrite F2; intros age E; discriminate E].
    + intros n pp Hn. destruct (Hf pp (nth_error_In _ _ Hn)) as [F1 _]. rewrite F1. intros fm [].
    + intros n pp Hn. destruct (Hf pp (nth_error_In _ _ Hn)) as [F1 _]. unfold tidy_lists. rewrite F1. split; intros fm [].
  - constructor.
    + intros n pp fm Hn Hfm. destruct (Hf pp (nth_error_In _ _ Hn)) as [F1 _]. rewrite F1 in Hfm. destruct Hfm.
    + intros n pp src x Hn He. cbn in He. discriminate He.
    + intros n pp st Hn Hst Hsteady. cbn in Hsteady. discriminate Hsteady.
Qed.

(** the complete oracle of C11, clauses (a)-(d) *)
Theorem ok_C11_full_model s es rel :
  setup_valid s -> Forall event_valid es ->
  exists i o, init s = Ok (i, o) /\ ok_C11_full (mkCase s es rel (Some o) (run i es)) = true.
Proof.
  intros Hs Hes. destruct (ok_C11_model s es rel Hs Hes) as (i & o & Hi & H1).
  destruct (ok_C11d_model s es rel Hs Hes) as (i2 & o2 & Hi2 & H2). rewrite Hi in Hi2. inversion Hi2; subst i2 o2.
  exists i, o. split; [exact Hi|]. unfold ok_C11_full. rewrite H1, H2. reflexivity.
Qed.
