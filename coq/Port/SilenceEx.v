(** C12: the premises of [silence_settles] / [settled_run] are satisfiable:
    a boundary-clock port that became SLAVE of a master, then hears nothing more. *)
From SV Require Export Port.SilenceC12.
Local Open Scope Z_scope.

Definition sil_setup : setup :=
  mkSetup (mkIC 5 128 128 0 0 false false (mkCQ 248 254 65535))
          (mkTP None 0 false false false 160)
          [(mkPC None (E2E 0) 0 2 0 false 0 1, [1; 2; 3; 4; 5; 6; 7; 8])].
Definition sil_ann (seq : Z) : bytes :=
  encode_raw (mkMsg (mkHeader 0 2 1 0 false false false false false false false false false false false false
                              0 (mkPI 9 1) seq 0)
                    (BAnnounce (mkAnn (mkTS 0 0) 0 100 (mkCQ 6 33 1) 128 9 0 160)) []).
Definition sil_prefix : list event := [EvRecvGeneral 0 (sil_ann 1); EvRecvGeneral 0 (sil_ann 2); EvBmca].
Definition sil_tail : list event := [EvBmca; EvDelayReqTimer 0; EvBmca; EvBmca; EvTick 5; EvBmca; EvBmca; EvAnnounceTimer 0 []; EvSyncTimer 0].

Definition states_after (es : list event) : option (list Z) :=
  match init sil_setup with
  | Ok (i0, _) => match run_state i0 es with Some i' => Some (sn_states (snapshot_of i')) | None => None end
  | Panic _ => None
  end.

(** the port is SLAVE (9) after the prefix, and MASTER (6) after the silent tail *)
Example silence_example :
  states_after sil_prefix = Some [9] /\ states_after (sil_prefix ++ sil_tail) = Some [6] /\
  forallb silent_event sil_tail = true /\ count_bmca sil_tail = 5%nat /\
  match init sil_setup with
  | Ok (i0, _) =>
      match run_state i0 (sil_prefix ++ sil_tail), bmca_interval_dur (i_log_bmca i0) with
      | Some i', Ok stepd => forallb (fun pp => cutoff_age (port_ti pp) <=? 5 * stepd) (i_ports i')
      | _, _ => false
      end
  | Panic _ => false
  end = true.
Proof. vm_compute. repeat split. Qed.
