(** Lemmas for C05: the implemented comparison and decision refine Figures 33-35. *)
From Coq Require Import Permutation.
From SV Require Import Port.BmcaSpec Port.LemmasC06.

Ltac zc :=
  repeat match goal with
  | H : (?a ?= ?b) = Lt |- _ => let H' := fresh "Hlt" in assert (H' : a < b) by exact H; clear H
  | H : (?a ?= ?b) = Gt |- _ => let H' := fresh "Hgt" in pose proof (proj1 (Z.compare_gt_iff a b) H) as H'; clear H
  | H : (?a ?= ?b) = Eq |- _ => let H' := fresh "Heq" in pose proof (Z.compare_eq a b H) as H'; clear H
  end.

(** Figure 35 *)
Lemma same_identity_refines a b :
  compare_same_identity a b = ord_of_spec (fig35 a b).
Proof.
  unfold compare_same_identity, fig35.
  destruct (2 <=? c_steps a - c_steps b) eqn:E1.
  { assert (H : c_steps b + 1 <? c_steps a = true) by lia. rewrite H. reflexivity. }
  assert (H1 : c_steps b + 1 <? c_steps a = false) by lia. rewrite H1.
  destruct (c_steps a - c_steps b <=? -2) eqn:E2.
  { assert (H : c_steps a + 1 <? c_steps b = true) by lia. rewrite H. reflexivity. }
  assert (H2 : c_steps a + 1 <? c_steps b = false) by lia. rewrite H2.
  destruct (c_steps a - c_steps b =? 1) eqn:E3.
  { assert (H : c_steps b <? c_steps a = true) by lia. rewrite H.
    destruct (pi_clock (c_receiver a) ?= c_sender a) eqn:Ec; zc.
    - assert (Ha : pi_clock (c_receiver a) <? c_sender a = false) by lia.
      assert (Hb : c_sender a <? pi_clock (c_receiver a) = false) by lia. rewrite Ha, Hb. reflexivity.
    - assert (Ha : pi_clock (c_receiver a) <? c_sender a = true) by lia. rewrite Ha. reflexivity.
    - assert (Ha : pi_clock (c_receiver a) <? c_sender a = false) by lia.
      assert (Hb : c_sender a <? pi_clock (c_receiver a) = true) by lia. rewrite Ha, Hb. reflexivity. }
  assert (H3 : c_steps b <? c_steps a = false) by lia. rewrite H3.
  destruct (c_steps a - c_steps b =? -1) eqn:E4.
  { assert (H : c_steps a <? c_steps b = true) by lia. rewrite H.
    destruct (pi_clock (c_receiver b) ?= c_sender b) eqn:Ec; zc.
    - assert (Ha : pi_clock (c_receiver b) <? c_sender b = false) by lia.
      assert (Hb : c_sender b <? pi_clock (c_receiver b) = false) by lia. rewrite Ha, Hb. reflexivity.
    - assert (Ha : pi_clock (c_receiver b) <? c_sender b = true) by lia. rewrite Ha. reflexivity.
    - assert (Ha : pi_clock (c_receiver b) <? c_sender b = false) by lia.
      assert (Hb : c_sender b <? pi_clock (c_receiver b) = true) by lia. rewrite Ha, Hb. reflexivity. }
  assert (H4 : c_steps a <? c_steps b = false) by lia. rewrite H4.
  cbn [lex_compare].
  destruct (c_sender a ?= c_sender b) eqn:Es; zc.
  - assert (Ha : c_sender b <? c_sender a = false) by lia.
    assert (Hb : c_sender a <? c_sender b = false) by lia. rewrite Ha, Hb.
    destruct (pi_port (c_receiver a) ?= pi_port (c_receiver b)) eqn:Ep; zc.
    + assert (Hc : pi_port (c_receiver b) <? pi_port (c_receiver a) = false) by lia.
      assert (Hd : pi_port (c_receiver a) <? pi_port (c_receiver b) = false) by lia. rewrite Hc, Hd. reflexivity.
    + assert (Hc : pi_port (c_receiver b) <? pi_port (c_receiver a) = false) by lia.
      assert (Hd : pi_port (c_receiver a) <? pi_port (c_receiver b) = true) by lia. rewrite Hc, Hd. reflexivity.
    + assert (Hc : pi_port (c_receiver b) <? pi_port (c_receiver a) = true) by lia. rewrite Hc. reflexivity.
  - assert (Ha : c_sender b <? c_sender a = false) by lia.
    assert (Hb : c_sender a <? c_sender b = true) by lia. rewrite Ha, Hb. reflexivity.
  - assert (Ha : c_sender b <? c_sender a = true) by lia. rewrite Ha. reflexivity.
Qed.

Ltac lexstep x y :=
  let E := fresh "E" in
  destruct (x ?= y) eqn:E; zc;
  [ assert (x <? y = false) as -> by lia; assert (y <? x = false) as -> by lia
  | assert (x <? y = true) as -> by lia; try reflexivity
  | assert (x <? y = false) as -> by lia; assert (y <? x = true) as -> by lia; try reflexivity ].

(** Figure 34 (+35): for ALL pairs of data sets the implemented comparison
    returns normally (its unreachable! arm is unreachable) and its result is
    the outcome of the figures. *)
Lemma compare_refines_spec a b : ds_compare a b = Ok (ord_of_spec (fig34 a b)).
Proof.
  unfold ds_compare, fig34.
  destruct (c_gm_identity a =? c_gm_identity b) eqn:Eg.
  { rewrite same_identity_refines. reflexivity. }
  unfold compare_different_identity. cbn [lex_compare].
  lexstep (c_prio1 a) (c_prio1 b).
  lexstep (cq_class (c_quality a)) (cq_class (c_quality b)).
  lexstep (cq_accuracy (c_quality a)) (cq_accuracy (c_quality b)).
  lexstep (cq_variance (c_quality a)) (cq_variance (c_quality b)).
  lexstep (c_prio2 a) (c_prio2 b).
  destruct (c_gm_identity a ?= c_gm_identity b) eqn:E4; zc.
  - lia.
  - assert (c_gm_identity a <? c_gm_identity b = true) as -> by lia. reflexivity.
  - assert (c_gm_identity a <? c_gm_identity b = false) as -> by lia. reflexivity.
Qed.

Corollary ds_compare_total a b : exists o, ds_compare a b = Ok o.
Proof. eexists. apply compare_refines_spec. Qed.

(** antisymmetry: swapping the arguments mirrors the outcome *)
Definition mirror (r : spec_cmp) : spec_cmp :=
  match r with
  | ABetter => BBetter | BBetter => ABetter
  | ABetterTopo => BBetterTopo | BBetterTopo => ABetterTopo
  | SErr1 => SErr1 | SErr2 => SErr2
  end.

Ltac ifs :=
  repeat match goal with
  | |- context [if ?c then _ else _] => let E := fresh "E" in destruct c eqn:E
  end.

Lemma fig35_mirror a b : fig35 b a = mirror (fig35 a b).
Proof. unfold fig35. ifs; try reflexivity; lia. Qed.

Lemma fig34_mirror a b : fig34 b a = mirror (fig34 a b).
Proof.
  unfold fig34. rewrite (Z.eqb_sym (c_gm_identity b) (c_gm_identity a)).
  destruct (c_gm_identity a =? c_gm_identity b) eqn:Eg; [apply fig35_mirror|].
  ifs; try reflexivity; lia.
Qed.

(** * The comparison is a lexicographic order on GM-consistent candidates *)
Definition key (a : cmp_ds) : list Z :=
  [ c_prio1 a; cq_class (c_quality a); cq_accuracy (c_quality a); cq_variance (c_quality a);
    c_prio2 a; c_gm_identity a; c_steps a; c_sender a; pi_port (c_receiver a) ].
Definition lexc (k1 k2 : list Z) : comparison := lex_compare (combine k1 k2).

(** equal grandmasterIdentity => equal grandmaster attributes (true of Announces
    that describe the same grandmaster clock) *)
Definition gm_consistent (a b : cmp_ds) : Prop :=
  c_gm_identity a = c_gm_identity b ->
  c_prio1 a = c_prio1 b /\ c_quality a = c_quality b /\ c_prio2 a = c_prio2 b.
(** the receiver is not the sender's own clock (excludes Figure 35's error-1) *)
Definition no_err1 (a : cmp_ds) : Prop := pi_clock (c_receiver a) <> c_sender a.

Ltac cmps :=
  repeat match goal with
  | |- context [?x ?= ?y] => let E := fresh "E" in destruct (x ?= y) eqn:E; zc
  end.

Lemma key_order a b :
  gm_consistent a b -> no_err1 a -> no_err1 b ->
  as_ordering (ord_of_spec (fig34 a b)) = CompOpp (lexc (key a) (key b)).
Proof.
  intros Hc Ha Hb. unfold gm_consistent, no_err1 in *.
  unfold fig34.
  destruct (c_gm_identity a =? c_gm_identity b) eqn:Eg.
  - apply Z.eqb_eq in Eg. destruct (Hc Eg) as (H1 & H2 & H3).
    unfold lexc, key. cbn [combine lex_compare]. rewrite H1, H2, H3, Eg. rewrite !Z.compare_refl.
    unfold fig35. ifs; cmps; cbn; try reflexivity; exfalso; lia.
  - clear Hc. apply Z.eqb_neq in Eg.
    unfold lexc, key. cbn [combine lex_compare].
    ifs; cmps; cbn; try reflexivity; exfalso; lia.
Qed.

(** * Lexicographic order facts *)
Lemma lexc_refl k : lexc k k = Eq.
Proof. unfold lexc. induction k as [|x k IH]; cbn; [reflexivity|]. rewrite Z.compare_refl. exact IH. Qed.

Lemma lexc_antisym k1 : forall k2, length k1 = length k2 -> lexc k2 k1 = CompOpp (lexc k1 k2).
Proof.
  unfold lexc. induction k1 as [|x k1 IH]; intros [|y k2] Hl; cbn in *; try discriminate; [reflexivity|].
  rewrite (Z.compare_antisym x y). destruct (x ?= y); cbn; try reflexivity. apply IH. lia.
Qed.

Lemma lexc_trans_le k1 : forall k2 k3,
  length k1 = length k2 -> length k2 = length k3 ->
  lexc k1 k2 <> Gt -> lexc k2 k3 <> Gt -> lexc k1 k3 <> Gt.
Proof.
  unfold lexc. induction k1 as [|x k1 IH]; intros [|y k2] [|z k3] H12 H23 Ha Hb; cbn in *; try discriminate; auto.
  destruct (x ?= y) eqn:E1; destruct (y ?= z) eqn:E2; zc; try congruence.
  - subst. rewrite Z.compare_refl. injection H12 as H12. injection H23 as H23. apply (IH k2 k3 H12 H23 Ha Hb).
  - subst. assert (Hc : (y ?= z) = Lt) by (apply Z.compare_lt_iff; assumption). rewrite Hc. discriminate.
  - subst. assert (Hc : (x ?= z) = Lt) by (apply Z.compare_lt_iff; assumption). rewrite Hc. discriminate.
  - assert (Hc : (x ?= z) = Lt) by (apply Z.compare_lt_iff; lia). rewrite Hc. discriminate.
Qed.

Lemma lexc_eq k1 : forall k2, length k1 = length k2 -> lexc k1 k2 = Eq -> k1 = k2.
Proof.
  unfold lexc. induction k1 as [|x k1 IH]; intros [|y k2] Hl H; cbn in *; try discriminate; [reflexivity|].
  destruct (x ?= y) eqn:E; try discriminate. zc. subst. f_equal. apply IH; [lia|exact H].
Qed.

(** * The selected best message is not worse than any candidate *)
Definition bkey (m : best_msg) : list Z := key (best_cmp_ds m) ++ [b_age m].

Definition cand_ok (l : list best_msg) : Prop :=
  (forall x, In x l -> no_err1 (best_cmp_ds x)) /\
  (forall x y, In x l -> In y l -> gm_consistent (best_cmp_ds x) (best_cmp_ds y)).

Lemma lexc_app k1 k2 a b :
  length k1 = length k2 ->
  lexc (k1 ++ [a]) (k2 ++ [b]) = match lexc k1 k2 with Eq => (a ?= b) | c => c end.
Proof.
  unfold lexc. revert k2. induction k1 as [|x k1 IH]; intros [|y k2] Hl; cbn in *; try discriminate.
  - destruct (a ?= b); reflexivity.
  - destruct (x ?= y); try reflexivity. apply IH. lia.
Qed.

Lemma best_compare_key a b :
  gm_consistent (best_cmp_ds a) (best_cmp_ds b) -> no_err1 (best_cmp_ds a) -> no_err1 (best_cmp_ds b) ->
  best_compare a b = Ok (CompOpp (lexc (bkey a) (bkey b))).
Proof.
  intros Hc Ha Hb. unfold best_compare. rewrite compare_refines_spec. cbn [obind].
  rewrite (key_order _ _ Hc Ha Hb). unfold bkey. rewrite lexc_app by reflexivity.
  destruct (lexc (key (best_cmp_ds a)) (key (best_cmp_ds b))); cbn [CompOpp]; try reflexivity.
  rewrite Z.compare_antisym. reflexivity.
Qed.

Lemma bkey_length a b : length (bkey a) = length (bkey b).
Proof. reflexivity. Qed.

Lemma max_by_aux_not_worse l : forall acc b,
  cand_ok (acc :: l) -> max_by_aux acc l = Ok b ->
  forall x, In x (acc :: l) -> lexc (bkey b) (bkey x) <> Gt.
Proof.
  induction l as [|y l IH]; intros acc b Hok H x Hx; cbn [max_by_aux] in H.
  - inversion H; subst. destruct Hx as [->|[]]. rewrite lexc_refl. discriminate.
  - destruct Hok as [Hn Hg].
    rewrite (best_compare_key acc y) in H
      by (first [apply Hg | apply Hn]; cbn; auto).
    cbn [obind] in H.
    set (nxt := match CompOpp (lexc (bkey acc) (bkey y)) with Gt => acc | _ => y end) in H.
    assert (Hok' : cand_ok (nxt :: l)).
    { split; [intros z Hz|intros z w Hz Hw]; [apply Hn|apply Hg];
        repeat match goal with
        | Hq : In _ (nxt :: l) |- _ => destruct Hq as [<-|Hq]
        end; subst nxt;
        try (destruct (CompOpp (lexc (bkey acc) (bkey y))); cbn; auto); cbn; auto. }
    pose proof (IH nxt b Hok' H) as IHb.
    assert (Hnxt_acc : lexc (bkey nxt) (bkey acc) <> Gt).
    { subst nxt. destruct (lexc (bkey acc) (bkey y)) eqn:E; cbn [CompOpp].
      - rewrite (lexc_antisym (bkey acc) (bkey y) (bkey_length _ _)), E. discriminate.
      - rewrite lexc_refl. discriminate.
      - rewrite (lexc_antisym (bkey acc) (bkey y) (bkey_length _ _)), E. discriminate. }
    assert (Hnxt_y : lexc (bkey nxt) (bkey y) <> Gt).
    { subst nxt. destruct (lexc (bkey acc) (bkey y)) eqn:E; cbn [CompOpp]; try (rewrite lexc_refl; discriminate).
      rewrite E. discriminate. }
    destruct Hx as [<-|[<-|Hx]].
    + eapply lexc_trans_le; [apply bkey_length|apply bkey_length| |exact Hnxt_acc].
      apply IHb. left. reflexivity.
    + eapply lexc_trans_le; [apply bkey_length|apply bkey_length| |exact Hnxt_y].
      apply IHb. left. reflexivity.
    + apply IHb. right. exact Hx.
Qed.

(** Ebest / Erbest is never worse than any other qualified candidate, for
    candidate lists of ANY length. *)
Lemma selected_not_worse l b :
  cand_ok l -> find_best l = Ok (Some b) ->
  In b l /\ forall x, In x l -> lexc (bkey b) (bkey x) <> Gt.
Proof.
  intros Hok H. split.
  - destruct l as [|a l]; cbn [find_best] in H; [discriminate|].
    destruct (max_by_aux a l) as [r|s] eqn:E; cbn [obind] in H; [|discriminate].
    inversion H; subst. apply max_by_aux_in in E. destruct E; subst; cbn; auto.
  - destruct l as [|a l]; cbn [find_best] in H; [discriminate|].
    destruct (max_by_aux a l) as [r|s] eqn:E; cbn [obind] in H; [|discriminate].
    inversion H; subst. eapply max_by_aux_not_worse; eauto.
Qed.

(** find_best never panics on such lists *)
Lemma find_best_total l : exists r, find_best l = Ok r.
Proof.
  destruct l as [|a l]; cbn [find_best]; [eexists; reflexivity|].
  assert (H : forall acc, exists b, max_by_aux acc l = Ok b).
  { induction l as [|y l IH]; intros acc; cbn [max_by_aux]; [eexists; reflexivity|].
    unfold best_compare. rewrite compare_refines_spec. cbn [obind]. apply IH. }
  destruct (H a) as [b Hb]. rewrite Hb. cbn [obind]. eexists; reflexivity.
Qed.

(** Order independence: with pairwise distinct keys the best is unique, hence
    the result does not depend on the order of presentation. *)
Lemma best_unique l b b' :
  (forall x y, In x l -> In y l -> bkey x = bkey y -> x = y) ->
  In b l -> In b' l ->
  (forall x, In x l -> lexc (bkey b) (bkey x) <> Gt) ->
  (forall x, In x l -> lexc (bkey b') (bkey x) <> Gt) -> b = b'.
Proof.
  intros Hinj Hb Hb' H1 H2. apply Hinj; try assumption.
  apply lexc_eq; [apply bkey_length|].
  pose proof (H1 b' Hb') as A. pose proof (H2 b Hb) as B.
  rewrite (lexc_antisym (bkey b) (bkey b') (bkey_length _ _)) in B.
  destruct (lexc (bkey b) (bkey b')); cbn in *; congruence.
Qed.

Lemma find_best_perm_invariant l l' b b' :
  Permutation l l' -> cand_ok l ->
  (forall x y, In x l -> In y l -> bkey x = bkey y -> x = y) ->
  find_best l = Ok (Some b) -> find_best l' = Ok (Some b') -> b = b'.
Proof.
  intros Hp Hok Hinj H H'.
  assert (Hok' : cand_ok l').
  { destruct Hok as [A B]. split; intros; [apply A|apply B];
      eapply Permutation_in; try (apply Permutation_sym; exact Hp); assumption. }
  destruct (selected_not_worse l b Hok H) as [Hin Hle].
  destruct (selected_not_worse l' b' Hok' H') as [Hin' Hle'].
  apply (best_unique l b b' Hinj Hin).
  - eapply Permutation_in; [apply Permutation_sym; exact Hp|exact Hin'].
  - exact Hle.
  - intros x Hx. apply Hle'. eapply Permutation_in; [exact Hp|exact Hx].
Qed.

(** * The state decision refines Figure 33 *)
Definition dec_of (r : option recommended) : decision :=
  match r with
  | None => DNone
  | Some (RM1 _) => DM1 | Some (RM2 _) => DM2 | Some (RM3 _ _) => DM3
  | Some (RP1 _ _) => DP1 | Some (RP2 _ _) => DP2 | Some (RS1 _ _) => DS1
  end.

Definition same_best (g p : option best_msg) : bool :=
  match g, p with Some x, Some y => best_eqb x y | _, _ => false end.

Lemma as_ordering_lt r : as_ordering (ord_of_spec r) = Lt <-> b_better_or_topo r = true.
Proof. destruct r; cbn; split; intros H; congruence. Qed.

Lemma decision_refines_fig33 own ebest erbest st :
  exists r, recommended_state own ebest erbest st = Ok r /\
    dec_of r = fig33 (cq_class (dd_quality own)) (cmp_from_own own)
                     (option_map best_cmp_ds ebest) (option_map best_cmp_ds erbest)
                     (same_best ebest erbest) (is_listening st).
Proof.
  unfold recommended_state, fig33.
  destruct erbest as [p|]; destruct st; cbn [option_map is_listening];
    try (eexists; split; [reflexivity|reflexivity]);
    (destruct ((1 <=? cq_class (dd_quality own)) && (cq_class (dd_quality own) <=? 127)) eqn:Ec;
     [ unfold compare_d0_best; try rewrite compare_refines_spec; cbn [obind];
       try (destruct (fig34 (cmp_from_own own) (best_cmp_ds p)); cbn; eexists; split; reflexivity);
       eexists; split; reflexivity
     | destruct ebest as [g|]; cbn [option_map same_best compare_d0_best obind];
       [ rewrite compare_refines_spec; cbn [obind];
         destruct (fig34 (cmp_from_own own) (best_cmp_ds g)) eqn:Ef; cbn [ord_of_spec as_ordering b_better_or_topo obind];
         try (eexists; split; reflexivity);
         try (unfold compare_global_and_port; destruct (best_eqb g p); cbn [obind];
              [ eexists; split; reflexivity
              | rewrite compare_refines_spec; cbn [obind];
                destruct (fig34 (best_cmp_ds g) (best_cmp_ds p)); cbn; eexists; split; reflexivity ])
       | eexists; split; reflexivity ] ]).
Qed.
