(** Lemmas for C15 (TLV forwarding, path trace). *)
From SV Require Import Port.OracleC15.

Lemma pi_eqb_sym a b : pi_eqb a b = pi_eqb b a.
Proof. unfold pi_eqb. rewrite (Z.eqb_sym (pi_clock a)), (Z.eqb_sym (pi_port a)). reflexivity. Qed.

Definition tlvs_size (l : list tlv) : Z := fold_right (fun t acc => 4 + blen (tlv_value t) + acc) 0 l.

(** The announce TLV loop refines the FIFO specification: the forwarded TLVs
    are exactly [expected_fwd] — unmodified, in arrival order, parent's only,
    each at most once — appended to what was already there. *)
Lemma tlv_loop_refines_spec fuel : forall q margin parent path_on acc locks,
  exists locks',
    announce_tlv_loop fuel q margin parent path_on acc locks
    = Ok (acc ++ flat_map encode_tlv (expected_fwd fuel q margin parent path_on), locks').
Proof.
  induction fuel as [|fuel IH]; intros q margin parent path_on acc locks; cbn [announce_tlv_loop expected_fwd].
  - exists locks. rewrite app_nil_r. reflexivity.
  - destruct q as [|f q']; [exists locks; rewrite app_nil_r; reflexivity|].
    unfold fwd_size, tlv_wire_size.
    destruct (4 + blen (tlv_value (fw_tlv f)) <=? margin) eqn:Efit; [|exists locks; rewrite app_nil_r; reflexivity].
    rewrite (pi_eqb_sym (fw_sender f) parent).
    destruct (pi_eqb parent (fw_sender f)) eqn:Ep; cbn [negb andb].
    + destruct (path_on && (tlv_type (fw_tlv f) =? 8)) eqn:Ept; cbn [negb].
      * apply IH.
      * destruct (IH q' (margin - (4 + blen (tlv_value (fw_tlv f)))) parent path_on
                     (acc ++ encode_tlv (fw_tlv f)) (locks ++ [rd_lock])) as [l' Hl'].
        exists l'. rewrite Hl'. cbn [flat_map]. rewrite app_assoc. reflexivity.
    + apply IH.
Qed.

(** The forwarded TLVs never exceed the room they were given ... *)
Lemma expected_fwd_fits fuel : forall q room parent path_on,
  0 <= room -> tlvs_size (expected_fwd fuel q room parent path_on) <= room.
Proof.
  induction fuel as [|fuel IH]; intros q room parent path_on Hr; cbn [expected_fwd tlvs_size fold_right]; [lia|].
  destruct q as [|f q']; cbn [tlvs_size fold_right]; [lia|].
  destruct (4 + blen (tlv_value (fw_tlv f)) <=? room) eqn:Efit; cbn [tlvs_size fold_right]; [|lia].
  destruct (pi_eqb (fw_sender f) parent && negb (path_on && (tlv_type (fw_tlv f) =? 8))).
  - cbn [tlvs_size fold_right]. fold (tlvs_size (expected_fwd fuel q' (room - (4 + blen (tlv_value (fw_tlv f)))) parent path_on)).
    pose proof (IH q' (room - (4 + blen (tlv_value (fw_tlv f)))) parent path_on ltac:(lia)). lia.
  - apply IH. exact Hr.
Qed.

(** ... contain only TLVs sent by the parent, and (with path trace on) no PATH_TRACE TLV *)
Lemma expected_fwd_from_queue fuel : forall q room parent path_on t,
  In t (expected_fwd fuel q room parent path_on) ->
  exists f, In f q /\ fw_tlv f = t /\ pi_eqb (fw_sender f) parent = true
            /\ (path_on = true -> (tlv_type t =? 8) = false).
Proof.
  induction fuel as [|fuel IH]; intros q room parent path_on t H; cbn [expected_fwd] in H; [contradiction|].
  destruct q as [|f q']; [contradiction|].
  destruct (4 + blen (tlv_value (fw_tlv f)) <=? room); [|contradiction].
  destruct (pi_eqb (fw_sender f) parent) eqn:Ep; cbn [andb] in H.
  - destruct (negb (path_on && (tlv_type (fw_tlv f) =? 8))) eqn:En.
    + destruct H as [<-|H].
      * exists f. repeat split; auto; [left; reflexivity|].
        intros ->. cbn [andb] in En. destruct (tlv_type (fw_tlv f) =? 8); [discriminate|reflexivity].
      * destruct (IH _ _ _ _ _ H) as (g & Hg & Ht & Hs & Hp). exists g. repeat split; auto. right. exact Hg.
    + destruct (IH _ _ _ _ _ H) as (g & Hg & Ht & Hs & Hp). exists g. repeat split; auto. right. exact Hg.
  - destruct (IH _ _ _ _ _ H) as (g & Hg & Ht & Hs & Hp). exists g. repeat split; auto. right. exact Hg.
Qed.

(** encoded size of a TLV list *)
Lemma be_encode_length n v : length (be_encode n v) = n.
Proof. induction n; cbn; [reflexivity|]. rewrite IHn. reflexivity. Qed.

Lemma encode_tlv_length t : blen (encode_tlv t) = 4 + blen (tlv_value t).
Proof. unfold blen, encode_tlv. rewrite !app_length, !be_encode_length. lia. Qed.

Lemma encode_tlvs_length l : blen (flat_map encode_tlv l) = tlvs_size l.
Proof.
  induction l as [|t l IH]; [reflexivity|].
  cbn [flat_map]. unfold tlvs_size. cbn [fold_right]. fold (tlvs_size l). rewrite <- IH.
  unfold blen at 1. rewrite app_length. rewrite Nat2Z.inj_add.
  fold (blen (encode_tlv t)). fold (blen (flat_map encode_tlv l)). rewrite encode_tlv_length. lia.
Qed.

(** Loop detection: an Announce from the parent whose PATH_TRACE TLV contains
    the own identity leaves every data set untouched (repaired F14) and nothing
    is registered or forwarded. *)
Lemma loop_discarded p d ti m a st t :
  p_state p = PSlave st -> 0 <= an_steps_removed a < 255 ->
  pi_eqb (h_source (m_header m)) (pd_parent (ds_parent d)) = true ->
  ds_path_enable d = true ->
  find_tlv 8 (tlvs_of (m_suffix m)) = Some t ->
  existsb (fun ci => ci =? dd_clock_identity (ds_default d)) (path_of_value (tlv_value t)) = true ->
  (length (path_of_value (tlv_value t)) <= PATH_CAPACITY)%nat ->
  handle_announce p d ti m a = Ok (p, d, [rd_lock; wr_lock]).
Proof.
  intros Hst Hsteps Hsrc Hen Hfind Hloop Hcap. unfold handle_announce.
  rewrite Hst. cbn [is_slave andb]. assert (an_steps_removed a <? 255 = true) as -> by lia.
  rewrite Hsrc, Hen, Hfind.
  unfold chk_u. assert (in_u 16 (an_steps_removed a + 1) = true) as ->.
  { unfold in_u. change (2 ^ 16) with 65536. lia. }
  cbn [obind].
  assert ((PATH_CAPACITY <? length (path_of_value (tlv_value t)))%nat = false) as -> by (apply Nat.ltb_ge; exact Hcap).
  rewrite Hloop. reflexivity.
Qed.
