(** C15, whole histories: the complete oracle [ok_C15] accepts the model's own
    trace for every valid set-up and every valid event list. *)
From SV Require Export Port.MainC14 Port.OracleC15 Port.LemmasC15.
From SV Require Import Port.MainC11b.

(** * the TLV iterator inverts the serializer *)
Lemma iter_encode_tlvs : forall ts fuel,
  Forall tlv_wf ts -> (length (encode_tlvs ts) <= fuel)%nat ->
  tlvset_iter fuel (encode_tlvs ts) = ts.
Proof.
  induction ts as [|t ts IH]; intros fuel Hwf Hf.
  - cbn [encode_tlvs map concat]. destruct fuel; reflexivity.
  - inversion Hwf as [|? ? Ht Hts]; subst.
    destruct Ht as (Hty & Hv & Hvl & Heven).
    change (encode_tlvs (t :: ts)) with (encode_tlv t ++ encode_tlvs ts) in *.
    set (rest := encode_tlvs ts) in *.
    assert (Hlen : length (encode_tlv t ++ rest) = (4 + length (tlv_value t) + length rest)%nat)
      by (rewrite app_length, WireLemmas.encode_tlv_length; reflexivity).
    destruct fuel as [|fuel]; [lia|].
    cbn [tlvset_iter]. unfold blen at 1.
    destruct (Z.ltb_spec (Z.of_nat (length (encode_tlv t ++ rest))) 4); [lia|].
    replace (slice 2 2 (encode_tlv t ++ rest)) with (be_encode 2 (blen (tlv_value t))) by reflexivity.
    replace (slice 0 2 (encode_tlv t ++ rest)) with (be_encode 2 (tlv_type t)) by reflexivity.
    rewrite !dec_enc_u by (rewrite ?P2; unfold blen in *; lia).
    unfold canon_tlv_type, blen. rewrite Nat2Z.id.
    f_equal.
    + destruct t as [ty v]. cbn [tlv_type tlv_value] in *. f_equal.
      unfold slice, encode_tlv. cbn [tlv_type tlv_value].
      change (be_encode 2 ty ++ be_encode 2 (blen v) ++ v) with ((be_encode 2 ty ++ be_encode 2 (blen v)) ++ v).
      rewrite <- !app_assoc.
      replace (skipn 4 (be_encode 2 ty ++ be_encode 2 (blen v) ++ v ++ rest)) with (v ++ rest) by reflexivity.
      apply firstn_app_exact.
    + replace (4 + length (tlv_value t))%nat with (length (encode_tlv t)) by apply WireLemmas.encode_tlv_length.
      rewrite skipn_app_exact. apply IH; [assumption|fold rest; lia].
Qed.

Lemma tlvs_of_encode ts : Forall tlv_wf ts -> tlvs_of (encode_tlvs ts) = ts.
Proof. intros H. unfold tlvs_of. apply iter_encode_tlvs; [exact H|apply le_n]. Qed.

(** * forwarded TLVs *)
Definition fwd_of (o : list obs) : list (tlv * port_identity) :=
  flat_map (fun x => match x with AForwardTLV t s => [(t, s)] | _ => [] end) o.

Lemma fwd_of_app a b : fwd_of (a ++ b) = fwd_of a ++ fwd_of b.
Proof. unfold fwd_of. apply flat_map_app. Qed.
Lemma fwd_of_lock l : fwd_of (rd_lock :: l) = fwd_of l.
Proof. reflexivity. Qed.
Lemma fwd_of_nolock l : fwd_of (filter (fun y => negb (MainC08Role.is_lock y)) l) = fwd_of l.
Proof.
  unfold fwd_of. induction l as [|y l IH]; [reflexivity|]. cbn [filter flat_map].
  destruct y; cbn [MainC08Role.is_lock negb flat_map]; rewrite ?IH; reflexivity.
Qed.
Lemma fwd_of_forward sfx src :
  fwd_of (forward_obs sfx src) = map (fun t => (t, src)) (filter (fun t => tlv_announce_propagate (tlv_type t)) (tlvs_of sfx)).
Proof. unfold forward_obs, fwd_of. induction (filter _ _) as [|t l IH]; [reflexivity|]. cbn. rewrite IH. reflexivity. Qed.

Lemma set_forced_nofwd p st : fwd_of (snd (set_forced p st)) = [].
Proof. unfold set_forced. cbn [snd]. destruct (_ || _); reflexivity. Qed.

Lemma extract_nofwd p p' om o : extract_measurement p = Ok (p', om, o) -> fwd_of o = [].
Proof.
  unfold extract_measurement, set_forced. intros H. crunch H;
    repeat match goal with E : (if ?c then _ else _) = (_, _) |- _ => destruct c; inversion E; subst; clear E end;
    try reflexivity; destruct (_ || _); reflexivity.
Qed.

Lemma htm_nofwd q d q' d' o : handle_time_measurement q d = Ok (q', d', o) -> fwd_of o = [].
Proof.
  unfold handle_time_measurement. intros H.
  destruct (extract_measurement q) as [[[p1 om] o1]|?] eqn:E; cbn [obind] in H; [|discriminate].
  apply extract_nofwd in E. destruct om as [m|]; [destruct (filter_mean_delay m)|]; unfold ret in H; inversion H; subst;
    rewrite ?fwd_of_app, E; reflexivity.
Qed.

Lemma go_faulty_nofwd q d q' d' o : go_faulty q d = Ok (q', d', o) -> fwd_of o = [].
Proof. unfold go_faulty, set_forced, ret. intros H. inversion H; subst. destruct (_ || _); reflexivity. Qed.

Ltac nf_tac H :=
  crunch H;
  first [ reflexivity
        | match goal with Hx : handle_time_measurement _ _ = Ok _ |- _ => exact (htm_nofwd _ _ _ _ _ Hx) end
        | match goal with Hx : go_faulty _ _ = Ok _ |- _ => exact (go_faulty_nofwd _ _ _ _ _ Hx) end ].

Lemma handle_sync_nofwd p d h w t p' d' o : handle_sync p d h w t = Ok (p', d', o) -> fwd_of o = [].
Proof. intros H. unfold handle_sync in H. nf_tac H. Qed.
Lemma handle_follow_up_nofwd p d h w p' d' o : handle_follow_up p d h w = Ok (p', d', o) -> fwd_of o = [].
Proof. intros H. unfold handle_follow_up in H. nf_tac H. Qed.
Lemma handle_delay_resp_nofwd p d h w r p' d' o : handle_delay_resp p d h w r = Ok (p', d', o) -> fwd_of o = [].
Proof. intros H. unfold handle_delay_resp in H. nf_tac H. Qed.
Lemma handle_delay_timestamp_nofwd p d id t p' d' o : handle_delay_timestamp p d id t = Ok (p', d', o) -> fwd_of o = [].
Proof. intros H. unfold handle_delay_timestamp in H. nf_tac H. Qed.
Lemma handle_pdelay_timestamp_nofwd p d id t p' d' o : handle_pdelay_timestamp p d id t = Ok (p', d', o) -> fwd_of o = [].
Proof. intros H. unfold handle_pdelay_timestamp in H. nf_tac H. Qed.
Lemma handle_peer_delay_response_nofwd p d h w r t p' d' o : handle_peer_delay_response p d h w r t = Ok (p', d', o) -> fwd_of o = [].
Proof. intros H. unfold handle_peer_delay_response in H. nf_tac H. Qed.
Lemma handle_peer_delay_follow_up_nofwd p d h w r p' d' o : handle_peer_delay_follow_up p d h w r = Ok (p', d', o) -> fwd_of o = [].
Proof. intros H. unfold handle_peer_delay_follow_up in H. cbv zeta in H. nf_tac H. Qed.
Lemma handle_delay_req_nofwd p d h ts p' d' o : handle_delay_req p d h ts = Ok (p', d', o) -> fwd_of o = [].
Proof. intros H. unfold handle_delay_req in H. nf_tac H. Qed.
Lemma handle_pdelay_req_nofwd p d h ts p' d' o : handle_pdelay_req p d h ts = Ok (p', d', o) -> fwd_of o = [].
Proof. intros H. unfold handle_pdelay_req in H. nf_tac H. Qed.
Lemma handle_sync_timestamp_nofwd p d id ts p' d' o : handle_sync_timestamp p d id ts = Ok (p', d', o) -> fwd_of o = [].
Proof. intros H. unfold handle_sync_timestamp in H. nf_tac H. Qed.
Lemma handle_pdelay_response_timestamp_nofwd p d id rq ts p' d' o :
  handle_pdelay_response_timestamp p d id rq ts = Ok (p', d', o) -> fwd_of o = [].
Proof. intros H. unfold handle_pdelay_response_timestamp in H. nf_tac H. Qed.
Lemma send_sync_nofwd p d p' d' o : send_sync p d = Ok (p', d', o) -> fwd_of o = [].
Proof. intros H. unfold send_sync in H. nf_tac H. Qed.
Lemma filter_update_nofwd p d p' d' o : handle_filter_update_timer p d = Ok (p', d', o) -> fwd_of o = [].
Proof. intros H. unfold handle_filter_update_timer in H. nf_tac H. Qed.
Lemma send_delay_request_nofwd p d p' d' o : send_delay_request p d = Ok (p', d', o) -> fwd_of o = [].
Proof. intros H. unfold send_delay_request in H. nf_tac H. Qed.
Lemma receipt_timer_nofwd p d p' d' o : handle_announce_receipt_timer p d = Ok (p', d', o) -> fwd_of o = [].
Proof.
  intros H. unfold handle_announce_receipt_timer in H.
  crunch H;
    repeat match goal with E : (if ?c then _ else _) = (_, _) |- _ => destruct c eqn:?; [inversion E; subst; clear E|] end;
    repeat match goal with E : (if ?c then _ else _) = (_, _) |- _ => destruct c eqn:?; [|inversion E; subst; clear E] end;
    repeat match goal with E : set_forced ?p ?st = (_, _) |- _ =>
      let Hx := fresh "Hx" in pose proof (set_forced_nofwd p st) as Hx; rewrite E in Hx; cbn [snd] in Hx; clear E end;
    rewrite ?fwd_of_lock, ?fwd_of_app;
    repeat match goal with E : fwd_of _ = [] |- _ => rewrite E end; reflexivity.
Qed.
Lemma send_timestamp_nofwd p d c ts p' d' o : handle_send_timestamp p d c ts = Ok (p', d', o) -> fwd_of o = [].
Proof.
  intros H. unfold handle_send_timestamp in H. destruct c.
  - eapply handle_sync_timestamp_nofwd; eauto.
  - eapply handle_delay_timestamp_nofwd; eauto.
  - eapply handle_pdelay_timestamp_nofwd; eauto.
  - eapply handle_pdelay_response_timestamp_nofwd; eauto.
Qed.

(** * BMCA forwards nothing *)
Definition bnf (b : bport) : Prop := fwd_of (bp_side b) = [] /\ fwd_of (bp_pending b) = [].

Lemma srpt_bnf b rs dd b1 : bnf b -> set_recommended_port_state b rs dd = Ok b1 -> bnf b1.
Proof.
  intros [H1 H2] H. unfold set_recommended_port_state in H.
  destruct rs as [d0|d0|h a|h a|h a|h a];
    crunch H; unfold bnf; cbn [bp_side bp_pending];
    repeat match goal with E : set_forced ?p ?st = (_, _) |- _ =>
      let Hx := fresh "Hx" in pose proof (set_forced_nofwd p st) as Hx; rewrite E in Hx; cbn [snd] in Hx; clear E end;
    rewrite ?fwd_of_app, ?H1, ?H2;
    repeat match goal with E : fwd_of _ = [] |- _ => rewrite E end; split; reflexivity.
Qed.

Lemma srs_bnf b rs d b' d' : bnf b -> set_recommended_state b rs d = Ok (b', d') -> bnf b'.
Proof.
  unfold set_recommended_state. intros Hb H.
  destruct (set_recommended_port_state b rs (ds_default d)) as [b1|?] eqn:E1; cbn [obind] in H; [|discriminate].
  pose proof (srpt_bnf _ _ _ _ Hb E1) as [H1 H2].
  destruct rs; crunch H; unfold bnf; cbn [bp_side bp_pending]; rewrite ?fwd_of_app, ?H1, ?H2; split; reflexivity.
Qed.

Lemma bmca_decide_bnf ebest : forall todo done d done' d',
  Forall bnf todo -> Forall bnf done -> bmca_decide ebest d todo done = Ok (done', d') -> Forall bnf done'.
Proof.
  induction todo as [|b todo IH]; intros done d done' d' Ht Hd H; cbn [bmca_decide] in H.
  - inversion H; subst. exact Hd.
  - inversion Ht as [|? ? Hb Ht']; subst.
    destruct (recommended_state _ _ _ _) as [r|?]; cbn [obind] in H; [|discriminate].
    destruct r as [rs|].
    + destruct (set_recommended_state b rs d) as [[b' d1]|?] eqn:E; cbn [obind fst snd] in H; [|discriminate].
      eapply IH; [exact Ht'| |exact H]. apply Forall_app. split; [exact Hd|]. constructor; [eapply srs_bnf; eauto|constructor].
    + eapply IH; [exact Ht'| |exact H]. apply Forall_app. split; [exact Hd|]. constructor; [exact Hb|constructor].
Qed.

Lemma tag_ports_nofwd f : forall bs k, Forall (fun b => fwd_of (f b) = []) bs ->
  forallb (fun x => match snd x with AForwardTLV _ _ => false | _ => true end) (tag_ports k bs f) = true.
Proof.
  induction bs as [|b bs IH]; intros k Hall; [reflexivity|].
  inversion Hall as [|? ? Hb Hbs]; subst. cbn [tag_ports]. rewrite forallb_app. apply andb_true_iff. split; [|apply IH; exact Hbs].
  unfold tag. clear - Hb. induction (f b) as [|x l IHl]; [reflexivity|].
  cbn [map forallb]. unfold fwd_of in Hb. cbn [flat_map] in Hb.
  destruct x; cbn [fst snd app] in *; try discriminate Hb; apply IHl; exact Hb.
Qed.

Lemma calc_local_best_bnf p b : calc_local_best p = Ok b -> bnf b.
Proof.
  unfold calc_local_best. destruct (bmca_take_best _ _ _ _); cbn [obind]; [|discriminate].
  intros H. inversion H. split; reflexivity.
Qed.

Lemma bmca_nofwd i i' o : bmca i = Ok (i', o) ->
  forallb (fun x => match snd x with AForwardTLV _ _ => false | _ => true end) o = true.
Proof.
  unfold bmca. intros H.
  destruct (bmca_interval_dur _) as [step|?]; cbn [obind] in H; [|discriminate].
  destruct (negb _); [discriminate|].
  destruct (omap_list calc_local_best (i_ports i)) as [bps|?] eqn:E1; cbn [obind] in H; [|discriminate].
  destruct (find_best _) as [ebest|?]; cbn [obind] in H; [|discriminate].
  destruct (bmca_decide ebest (i_ds i) bps []) as [[bps1 d1]|?] eqn:E2; cbn [obind] in H; [|discriminate].
  destruct (omap_list _ bps1) as [ports|?] eqn:E3; cbn [obind] in H; [|discriminate].
  inversion H; subst.
  assert (H0 : Forall bnf bps).
  { pose proof (omap_list_rel _ (fun p b => bnf b) calc_local_best_bnf _ _ E1) as R.
    clear - R. induction R; constructor; auto. }
  pose proof (bmca_decide_bnf _ _ _ _ _ _ H0 (Forall_nil _) E2) as H1.
  change (forallb (fun x => match snd x with AForwardTLV _ _ => false | _ => true end)
            (tag_ports 0 bps1 bp_side ++ tag_ports 0 bps1 bp_pending) = true).
  rewrite forallb_app.
  apply andb_true_iff. split; apply tag_ports_nofwd; eapply Forall_impl; [|exact H1| |exact H1]; intros b [A B]; assumption.
Qed.

(** * reception of an Announce *)
Lemma find_tlv_find t l : find_tlv t l = find (fun x => tlv_type x =? t) l.
Proof. induction l as [|x l IH]; [reflexivity|]. cbn [find_tlv find]. destruct (tlv_type x =? t); [reflexivity|exact IH]. Qed.

Definition fwd_eqb (a b : list (tlv * port_identity)) : bool :=
  list_eqb (fun x y => tlv_eqb (fst x) (fst y) && pi_eqb (snd x) (snd y)) a b.
Lemma fwd_eqb_refl l : fwd_eqb l l = true.
Proof. apply list_eqb_refl. intros [t s]. cbn. rewrite tlv_eqb_refl, pi_eqb_refl. reflexivity. Qed.

(** the Announce part of step_C15, as a function of what the call showed *)
Definition ann_ok (ds : inst_ds) (is9 : bool) (m : message) (a : announce_body)
           (fwd : list (tlv * port_identity)) (ds' : inst_ds) : bool :=
  let own := dd_clock_identity (ds_default ds) in
  let prop := filter (fun t => tlv_announce_propagate (tlv_type t)) (tlvs_of (m_suffix m)) in
  let all_fwd := fwd_eqb fwd (map (fun t => (t, h_source (m_header m))) prop) in
  let from_parent :=
    (h_domain (m_header m) =? dd_domain (ds_default ds))
    && (h_sdo_id (m_header m) =? dd_sdo_id (ds_default ds))
    && is9
    && pi_eqb (h_source (m_header m)) (pd_parent (ds_parent ds))
    && (an_steps_removed a <? 255) in
  let path_tlv := if ds_path_enable ds
                  then find (fun t => tlv_type t =? 8) (tlvs_of (m_suffix m)) else None in
  let discarded :=
    match path_tlv with
    | Some t => existsb (fun ci => ci =? own) (path_of_value (tlv_value t))
                || (128 <? Z.of_nat (length (path_of_value (tlv_value t))))
    | None => false
    end in
  if from_parent then
    if discarded then ds_eqb ds' ds && (length fwd =? 0)%nat
    else
      all_fwd
      && (if ds_path_enable ds then
            match path_tlv with
            | Some t => list_eqb Z.eqb (ds_path ds') (path_of_value (tlv_value t))
            | None => (length (ds_path ds') =? 0)%nat
            end
          else true)
  else (length fwd =? 0)%nat || all_fwd.

Lemma handle_announce_C15 p d ti m a p' d' o :
  port_acc p -> (forall st, p_state p = PSlave st -> ss_remote st = parent_id d) ->
  handle_announce p d ti m a = Ok (p', d', o) ->
  ann_ok d (is_slave (p_state p)) m a (fwd_of o) d' = true.
Proof.
  intros Hacc Hrem H. unfold ann_ok. cbv zeta.
  set (src := h_source (m_header m)).
  set (allf := map (fun t => (t, src)) (filter (fun t => tlv_announce_propagate (tlv_type t)) (tlvs_of (m_suffix m)))).
  unfold handle_announce in H. cbv zeta in H. fold src in H.
  (* what the registration step yields *)
  assert (Hreg : forall d1 locks, fwd_of locks = [] ->
            (if snd (fst (d1, false, locks)) then ret p d1 locks else
             let '(accepted, fml) := bmca_register (p_identity p) (pc_acceptable (p_config p)) ti (p_fml p) (m_header m) a in
             if accepted then
               let p1 := port_with_fml p fml in
               let '(p2, o0) :=
                 if (pi_clock (p_identity p1) =? pi_clock src) && (pi_port src <? pi_port (p_identity p1))
                    && negb (is_faulty (p_state p1))
                 then set_forced (port_with_multiport p1 (Some 0)) PPassive else (p1, []) in
               let '(k, p3) := draw p2 in
               ret p3 d1 (locks ++ o0 ++ [AResetAnnounceReceiptTimer (announce_duration_ns (p_config p) k)] ++ forward_obs (m_suffix m) src)
             else ret p d1 locks) = Ok (p', d', o) ->
            d' = d1 /\ (if fst (bmca_register (p_identity p) (pc_acceptable (p_config p)) ti (p_fml p) (m_header m) a)
                       then fwd_of o = allf else fwd_of o = [])).
  { intros d1 locks Hl Hx. cbn [fst snd] in Hx.
    destruct (bmca_register _ _ _ _ _ _) as [acc fml]. cbn [fst]. destruct acc; [|unfold ret in Hx; inversion Hx; subst; auto].
    match type of Hx with context [if ?c then set_forced ?x ?y else ?z] =>
      pose proof (set_forced_nofwd x y) as Hs; destruct c end.
    - destruct (set_forced _ _) as [p2 o2]. cbn [snd] in Hs. destruct (draw p2) as [k p3].
      unfold ret in Hx. inversion Hx; subst. split; [reflexivity|].
      rewrite !fwd_of_app, Hl, Hs. cbn [app fwd_of flat_map]. apply fwd_of_forward.
    - match type of Hx with context [draw ?x] => destruct (draw x) as [k p3] end.
      unfold ret in Hx. inversion Hx; subst. split; [reflexivity|].
      rewrite !fwd_of_app, Hl. cbn [app fwd_of flat_map]. apply fwd_of_forward. }
  destruct (is_slave (p_state p) && (an_steps_removed a <? 255)) eqn:Esl.
  - apply andb_true_iff in Esl as [Es Est]. rewrite Es, Est.
    destruct (pi_eqb src (pd_parent (ds_parent d))) eqn:Epar.
    + (* from the parent *)
      rewrite !andb_true_r.
      assert (Haccept : fst (bmca_register (p_identity p) (pc_acceptable (p_config p)) ti (p_fml p) (m_header m) a) = true).
      { unfold bmca_register. fold src. destruct (p_state p) as [| | | |st] eqn:Est0; try discriminate Es.
        destruct Hacc as [_ Hr]. destruct (Hr st Est0) as [Ha Hne].
        apply pi_eqb_eq in Epar. rewrite (Hrem st eq_refl) in Ha, Hne. unfold parent_id in Ha, Hne. rewrite <- Epar in Ha, Hne.
        rewrite Ha. destruct (pi_eqb src (p_identity p)) eqn:Ee; [apply pi_eqb_eq in Ee; rewrite Ee in Hne; contradiction|reflexivity]. }
      destruct (chk_u site_steps_add 16 (an_steps_removed a + 1)) as [steps|?]; cbn [obind] in H; [|discriminate].
      rewrite find_tlv_find in H.
      destruct ((h_domain (m_header m) =? dd_domain (ds_default d)) && (h_sdo_id (m_header m) =? dd_sdo_id (ds_default d))) eqn:Edom.
      * destruct (ds_path_enable d) eqn:Epe.
        -- destruct (find (fun x => tlv_type x =? 8) (tlvs_of (m_suffix m))) as [t|] eqn:Ef.
           ++ assert (Hcap : (PATH_CAPACITY <? length (path_of_value (tlv_value t)))%nat = (128 <? Z.of_nat (length (path_of_value (tlv_value t))))).
              { unfold PATH_CAPACITY. destruct (Nat.ltb_spec 128 (length (path_of_value (tlv_value t)))); destruct (Z.ltb_spec 128 (Z.of_nat (length (path_of_value (tlv_value t))))); lia || reflexivity. }
              rewrite Hcap in H.
              destruct (128 <? Z.of_nat (length (path_of_value (tlv_value t)))) eqn:Ecap.
              ** rewrite orb_true_r. cbn [obind fst snd] in H. unfold ret in H. inversion H; subst.
                 rewrite ds_eqb_refl. reflexivity.
              ** rewrite orb_false_r.
                 destruct (existsb (fun ci => ci =? dd_clock_identity (ds_default d)) (path_of_value (tlv_value t))) eqn:Eex.
                 --- cbn [obind fst snd] in H. unfold ret in H. inversion H; subst. rewrite ds_eqb_refl. reflexivity.
                 --- cbn [obind] in H. destruct (Hreg _ [rd_lock; wr_lock] eq_refl H) as [-> Hf]. rewrite Haccept in Hf. rewrite Hf.
                     unfold allf. rewrite fwd_eqb_refl. cbn [ds_with ds_path]. rewrite (list_eqb_refl Z.eqb) by apply Z.eqb_refl. reflexivity.
           ++ cbn [obind] in H. destruct (Hreg _ [rd_lock; wr_lock] eq_refl H) as [-> Hf]. rewrite Haccept in Hf. rewrite Hf.
              unfold allf. rewrite fwd_eqb_refl. reflexivity.
        -- cbn [obind] in H. destruct (Hreg _ [rd_lock; wr_lock] eq_refl H) as [-> Hf]. rewrite Haccept in Hf. rewrite Hf.
           unfold allf. rewrite fwd_eqb_refl. reflexivity.
      * (* another domain reached the handler: only possible outside the filter; all or nothing *)
        assert (Hfin : forall d1, (if snd (fst (d1, false, [rd_lock; wr_lock])) then ret p d1 [rd_lock; wr_lock] else
             let '(accepted, fml) := bmca_register (p_identity p) (pc_acceptable (p_config p)) ti (p_fml p) (m_header m) a in
             if accepted then
               let p1 := port_with_fml p fml in
               let '(p2, o0) :=
                 if (pi_clock (p_identity p1) =? pi_clock src) && (pi_port src <? pi_port (p_identity p1))
                    && negb (is_faulty (p_state p1))
                 then set_forced (port_with_multiport p1 (Some 0)) PPassive else (p1, []) in
               let '(k, p3) := draw p2 in
               ret p3 d1 ([rd_lock; wr_lock] ++ o0 ++ [AResetAnnounceReceiptTimer (announce_duration_ns (p_config p) k)] ++ forward_obs (m_suffix m) src)
             else ret p d1 [rd_lock; wr_lock]) = Ok (p', d', o) ->
             (length (fwd_of o) =? 0)%nat || fwd_eqb (fwd_of o) allf = true).
        { intros d1 Hx. destruct (Hreg d1 [rd_lock; wr_lock] eq_refl Hx) as [_ Hf]. rewrite Haccept in Hf. rewrite Hf.
          unfold allf. rewrite fwd_eqb_refl. apply orb_true_r. }
        match type of H with context [match ?X with Some _ => _ | None => _ end] => destruct X as [t|] end.
        -- destruct (_ <? _)%nat; [cbn [obind fst snd] in H; unfold ret in H; inversion H; subst; reflexivity|].
           destruct (existsb _ _); [cbn [obind fst snd] in H; unfold ret in H; inversion H; subst; reflexivity|].
           cbn [obind] in H. exact (Hfin _ H).
        -- cbn [obind] in H. exact (Hfin _ H).
    + rewrite andb_false_r. cbn [andb]. cbn [obind] in H.
      assert (Hl : fwd_of [rd_lock] = []) by reflexivity.
      destruct (Hreg _ _ Hl H) as [_ Hf]. destruct (fst (bmca_register _ _ _ _ _ _)); rewrite Hf; [unfold allf; rewrite fwd_eqb_refl; apply orb_true_r|reflexivity].
  - cbn [obind] in H.
    assert (Hfp : (h_domain (m_header m) =? dd_domain (ds_default d)) && (h_sdo_id (m_header m) =? dd_sdo_id (ds_default d))
                  && is_slave (p_state p) && pi_eqb src (pd_parent (ds_parent d)) && (an_steps_removed a <? 255) = false).
    { apply andb_false_iff in Esl as [E|E]; rewrite E; rewrite ?andb_false_r; reflexivity. }
    rewrite Hfp.
    assert (Hl : fwd_of (@nil obs) = []) by reflexivity.
    destruct (Hreg _ _ Hl H) as [_ Hf]. destruct (fst (bmca_register _ _ _ _ _ _)); rewrite Hf; [unfold allf; rewrite fwd_eqb_refl; apply orb_true_r|reflexivity].
Qed.

(** * emission of an Announce by a master port *)
Lemma encode_tlvs_app a b : encode_tlvs (a ++ b) = encode_tlvs a ++ encode_tlvs b.
Proof. unfold encode_tlvs. rewrite map_app, concat_app. reflexivity. Qed.
Lemma encode_tlvs_flat l : flat_map encode_tlv l = encode_tlvs l.
Proof. unfold encode_tlvs. induction l as [|t l IH]; [reflexivity|]. cbn. rewrite IH. reflexivity. Qed.

Definition path_tlv_of (d : inst_ds) : list tlv :=
  if ds_path_enable d then
    let n := Z.of_nat (length (ds_path d)) + 1 in
    if (n <=? 128) && (4 + 8 * n <? MAX_DATA_LEN - ANNOUNCE_BASE)
    then [mkTlv 8 (flat_map (be_encode 8) (ds_path d ++ [dd_clock_identity (ds_default d)]))] else []
  else [].
Definition room_of (d : inst_ds) : Z :=
  MAX_DATA_LEN - ANNOUNCE_BASE - match path_tlv_of d with [t] => 4 + blen (tlv_value t) | _ => 0 end.

Lemma send_announce_C15 p d q p' d' o :
  port_inv p -> ds_inv d -> Forall (fun f => tlv_wf (fw_tlv f)) q -> is_master (p_state p) = true ->
  send_announce p d q = Ok (p', d', o) ->
  exists frame m', sent_frames o = [(false, frame)] /\ decode frame = ROk m' /\
    (exists a, m_body m' = BAnnounce a) /\ wire_size m' <= MAX_DATA_LEN /\
    tlvs_of (m_suffix m') = path_tlv_of d ++ expected_fwd (length q) q (room_of d) (pd_parent (ds_parent d)) (ds_path_enable d).
Proof.
  intros Hp Hd Hq Em H. unfold send_announce in H. rewrite Em in H.
  set (m := msg_announce d (p_identity p) (p_seq_announce p) (pc_minor (p_config p))) in *.
  assert (Hws : wire_size m = ANNOUNCE_BASE) by reflexivity.
  (* the path TLV as the oracle computes it *)
  assert (Hpath : (if ds_path_enable d then
                     if (length (ds_path d) <? PATH_CAPACITY)%nat then
                       let path := ds_path d ++ [dd_clock_identity (ds_default d)] in
                       let value := flat_map (be_encode 8) path in
                       let size := 4 + blen value in
                       if size <? MAX_DATA_LEN - wire_size m then (encode_tlv (mkTlv 8 value), MAX_DATA_LEN - wire_size m - size)
                       else ([], MAX_DATA_LEN - wire_size m)
                     else ([], MAX_DATA_LEN - wire_size m)
                   else ([], MAX_DATA_LEN - wire_size m)) = (encode_tlvs (path_tlv_of d), room_of d) /\ Forall tlv_wf (path_tlv_of d)).
  { unfold room_of, path_tlv_of. rewrite Hws. destruct (ds_path_enable d); [|split; [reflexivity|constructor]].
    cbv zeta. rewrite flat_be8_len, app_length. cbn [length].
    replace (Z.of_nat (length (ds_path d) + 1)) with (Z.of_nat (length (ds_path d)) + 1) by lia.
    destruct (Nat.ltb_spec (length (ds_path d)) PATH_CAPACITY) as [Hlt|Hge]; unfold PATH_CAPACITY in *.
    - destruct (Z.leb_spec (Z.of_nat (length (ds_path d)) + 1) 128); [|lia]. cbn [andb].
      destruct (4 + 8 * (Z.of_nat (length (ds_path d)) + 1) <? MAX_DATA_LEN - ANNOUNCE_BASE) eqn:Efit.
      + split.
        * cbn [tlv_value]. rewrite flat_be8_len, app_length. cbn [length].
          replace (Z.of_nat (length (ds_path d) + 1)) with (Z.of_nat (length (ds_path d)) + 1) by lia.
          unfold encode_tlvs. cbn [map concat]. rewrite app_nil_r. reflexivity.
        * constructor; [|constructor]. apply path_tlv_wf. rewrite app_length. cbn [length]. lia.
      + split; [reflexivity|constructor].
    - destruct (Z.leb_spec (Z.of_nat (length (ds_path d)) + 1) 128); [lia|]. cbn [andb]. split; [reflexivity|constructor]. }
  destruct Hpath as [Hpeq Hpwf]. cbv zeta in H.
  match type of H with context [let '(a, b) := ?X in _] =>
    let HX := fresh "HX" in assert (HX : X = (encode_tlvs (path_tlv_of d), room_of d)) by exact Hpeq; rewrite HX in H; clear HX end.
  destruct (tlv_loop_refines_spec (length q) q (room_of d) (pd_parent (ds_parent d)) (ds_path_enable d)
              (encode_tlvs (path_tlv_of d)) []) as [locks El].
  rewrite El in H. cbn [obind] in H.
  set (exp := expected_fwd (length q) q (room_of d) (pd_parent (ds_parent d)) (ds_path_enable d)) in *.
  assert (Hexp : Forall tlv_wf exp).
  { apply Forall_forall. intros t Ht. destruct (expected_fwd_from_queue _ _ _ _ _ _ Ht) as (f & Hf & <- & _).
    rewrite Forall_forall in Hq. apply Hq. exact Hf. }
  assert (Hall : Forall tlv_wf (path_tlv_of d ++ exp)) by (apply Forall_app; split; assumption).
  rewrite encode_tlvs_flat, <- encode_tlvs_app in H.
  destruct (serialize_packet _) as [f|?] eqn:Ef; cbn [obind] in H; [|discriminate].
  unfold ret in H. injection H as <- <- <-.
  pose proof Ef as Efit. apply serialize_inv in Ef. subst f.
  set (m' := mkMsg (m_header m) (m_body m) (encode_tlvs (path_tlv_of d ++ exp))) in *.
  assert (Hsize : wire_size m' <= MAX_DATA_LEN).
  { unfold serialize_packet, encode in Efit. destruct (MAX_DATA_LEN <? wire_size m') eqn:E; [discriminate|]. lia. }
  exists (encode_raw m'), m'. split.
  - assert (Hl : no_send locks = true).
    { pose proof (LemmasC17.tlv_loop_locks _ _ _ _ _ _ _ _ _ El (Forall_nil _)) as Hl.
      unfold no_send. apply forallb_forall. intros x Hx. rewrite Forall_forall in Hl. rewrite (Hl x Hx). reflexivity. }
    change (rd_lock :: rd_lock :: locks ++ [AResetAnnounceTimer (interval_ns (pc_log_announce (p_config p))); ASendGeneral (encode_raw m') false])
      with ([rd_lock; rd_lock] ++ locks ++ [AResetAnnounceTimer (interval_ns (pc_log_announce (p_config p))); ASendGeneral (encode_raw m') false]).
    unfold sent_frames. rewrite !flat_map_app. fold (sent_frames locks). rewrite (no_send_frames _ Hl). reflexivity.
  - split.
    + apply encode_decode.
      destruct (announce_msg_parts d (p_identity p) (p_seq_announce p) (pc_minor (p_config p)) (proj2 Hd)
                  (proj1 (inv_port_ranges p Hp)) ltac:(apply (inv_port_ranges p Hp)) (inv_minor p Hp)) as [Hh Hb].
      unfold wf_msg. cbn [m' m_header m_body m_suffix]. split; [exact Hh|]. split; [exact Hb|].
      split; [split; [apply encode_tlvs_bok; exact Hall|apply encode_tlvs_accepted; exact Hall]|].
      unfold MAX_DATA_LEN in Hsize. fold m'. lia.
    + split; [eexists; reflexivity|]. split; [exact Hsize|]. cbn [m' m_suffix]. apply tlvs_of_encode. exact Hall.
Qed.

(** * one step of the oracle *)
Lemma tag_nofwd n oo : fwd_of oo = [] ->
  forallb (fun x => match snd x with AForwardTLV _ _ => false | _ => true end) (tag n oo) = true.
Proof.
  unfold tag, fwd_of. induction oo as [|x l IH]; [reflexivity|]. cbn [map forallb flat_map]. intros Hb.
  destruct x; cbn [fst snd app] in *; try discriminate Hb; apply IH; exact Hb.
Qed.

Lemma code_master s : (port_state_code s =? 6) = is_master s.
Proof. destruct s; reflexivity. Qed.

Lemma on_port_inv i n f i' o : on_port i n f = Ok (i', o) ->
  (nth_error (i_ports i) n = None /\ i' = i /\ o = []) \/
  (exists pp pp' d' oo, nth_error (i_ports i) n = Some pp /\ f pp (i_ds i) = Ok (pp', d', oo) /\
     i_ds i' = d' /\ o = tag n oo).
Proof.
  unfold on_port. intros H. destruct (nth_error (i_ports i) n) as [pp|]; [|inversion H; left; auto].
  destruct (f pp (i_ds i)) as [[[pp' d'] oo]|?] eqn:E; cbn [obind] in H; [|discriminate]. inversion H; subst.
  right. exists pp, pp', d', oo. repeat split; auto.
Qed.

Lemma state_of_none i n : nth_error (i_ports i) n = None -> state_of (snapshot_of i) n = 0.
Proof.
  intros H. unfold state_of, snapshot_of. cbn [sn_states]. apply nth_overflow. rewrite map_length. apply nth_error_None. exact H.
Qed.

Lemma general_nofwd_or p d ti m p' d' o :
  handle_general_internal p d ti m = Ok (p', d', o) ->
  (exists a, m_body m = BAnnounce a /\ handle_announce p d ti m a = Ok (p', d', o)) \/
  ((forall a, m_body m <> BAnnounce a) /\ fwd_of o = []).
Proof.
  unfold handle_general_internal. intros H. destruct (m_body m) eqn:Eb;
    try (right; split; [intros a0 Hx; discriminate Hx|]);
    try (unfold ret in H; inversion H; reflexivity).
  - eapply handle_follow_up_nofwd; eauto.
  - eapply handle_delay_resp_nofwd; eauto.
  - eapply handle_peer_delay_follow_up_nofwd; eauto.
  - left. eexists. split; [reflexivity|exact H].
Qed.

(** the receive part of step_C15 as a function of what the call showed *)
Definition recv_ok (ds : inst_ds) (is9 : bool) (frame : bytes) (fwd : list (tlv * port_identity)) (ds' : inst_ds) : bool :=
  match (if is_compatible frame then decoded frame else None) with
  | Some m =>
      match m_body m with
      | BAnnounce a => ann_ok ds is9 m a fwd ds'
      | _ => (length fwd =? 0)%nat
      end
  | None => (length fwd =? 0)%nat
  end.

Lemma recv_handler_C15 pp d ti frame pp' d' oo
      (h : hres) :
  port_acc pp -> (forall st, p_state pp = PSlave st -> ss_remote st = parent_id d) ->
  (h = handle_general_receive pp d ti frame \/ exists ts, h = handle_event_receive pp d ti frame ts) ->
  h = Ok (pp', d', oo) ->
  recv_ok d (is_slave (p_state pp)) frame (fwd_of oo) d' = true.
Proof.
  intros Hacc Hrem Hh H. unfold recv_ok.
  assert (Hparse : parse_and_filter d frame =
            if negb (is_compatible frame) then (None, []) else
            match decode frame with
            | RErr _ => (None, [])
            | ROk m => if (h_sdo_id (m_header m) =? dd_sdo_id (ds_default d)) && (h_domain (m_header m) =? dd_domain (ds_default d))
                       then (Some m, [rd_lock]) else (None, [rd_lock])
            end) by reflexivity.
  assert (Hbody : forall m o2, (handle_general_internal pp d ti m = Ok (pp', d', o2) \/
                                (exists ts, match m_body m with
                                            | BSync origin => handle_sync pp d (m_header m) origin ts
                                            | BDelayReq _ => handle_delay_req pp d (m_header m) ts
                                            | BPDelayReq _ => handle_pdelay_req pp d (m_header m) ts
                                            | BPDelayResp t r => handle_peer_delay_response pp d (m_header m) t r ts
                                            | _ => handle_general_internal pp d ti m
                                            end = Ok (pp', d', o2))) ->
            match m_body m with
            | BAnnounce a => ann_ok d (is_slave (p_state pp)) m a (fwd_of o2) d'
            | _ => (length (fwd_of o2) =? 0)%nat
            end = true).
  { intros m o2 Hx.
    assert (Hg : handle_general_internal pp d ti m = Ok (pp', d', o2) ->
                 match m_body m with
                 | BAnnounce a => ann_ok d (is_slave (p_state pp)) m a (fwd_of o2) d'
                 | _ => (length (fwd_of o2) =? 0)%nat
                 end = true).
    { intros Hgi. destruct (general_nofwd_or _ _ _ _ _ _ _ Hgi) as [(a & Eb & Ha)|[Hn Hf]].
      - rewrite Eb. eapply handle_announce_C15; eauto.
      - rewrite Hf. destruct (m_body m) eqn:Eb; try reflexivity. exfalso. eapply Hn. reflexivity. }
    destruct Hx as [Hx|[ts Hx]]; [exact (Hg Hx)|].
    destruct (m_body m) eqn:Eb; try (apply Hg; rewrite ?Eb; exact Hx).
    - rewrite (handle_sync_nofwd _ _ _ _ _ _ _ _ Hx). reflexivity.
    - rewrite (handle_delay_req_nofwd _ _ _ _ _ _ _ Hx). reflexivity.
    - rewrite (handle_pdelay_req_nofwd _ _ _ _ _ _ _ Hx). reflexivity.
    - rewrite (handle_peer_delay_response_nofwd _ _ _ _ _ _ _ _ _ Hx). reflexivity. }
  unfold decoded.
  destruct Hh as [->|[ts ->]]; [unfold handle_general_receive in H|unfold handle_event_receive in H]; rewrite Hparse in H;
    (destruct (is_compatible frame); cbn [negb] in H; [|unfold ret in H; inversion H; subst; reflexivity]);
    (destruct (decode frame) as [m|?]; [|unfold ret in H; inversion H; subst; reflexivity]);
    (destruct ((h_sdo_id (m_header m) =? dd_sdo_id (ds_default d)) && (h_domain (m_header m) =? dd_domain (ds_default d))) eqn:Edom;
     [|unfold ret in H; inversion H; subst; cbn [fwd_of flat_map app length];
       destruct (m_body m); try reflexivity; unfold ann_ok; cbv zeta; rewrite (andb_comm (h_domain _ =? _)), Edom; reflexivity]);
    unfold prepend in H;
    match type of H with obind ?X _ = _ => destruct X as [[[p1 d1] o2]|?] eqn:E end; cbn [obind] in H; try discriminate;
    inversion H; subst; cbn [app]; change (fwd_of (rd_lock :: o2)) with (fwd_of o2); apply Hbody.
  - left. exact E.
  - right. exists ts. exact E.
Qed.

Lemma recv_step_C15 c i n frame i' o (f : port -> inst_ds -> hres) :
  reach_inv c i ->
  (forall pp d, f pp d = handle_general_receive pp d (port_ti pp) frame \/
                exists ts, f pp d = handle_event_receive pp d (port_ti pp) frame ts) ->
  on_port i n f = Ok (i', o) ->
  recv_ok (i_ds i) (state_of (snapshot_of i) n =? 9) frame (fwd_of (obs_of_port o n)) (i_ds i') = true.
Proof.
  intros Hr Hf Hs. destruct (on_port_inv i n f i' o Hs) as [(Hn & -> & ->)|(pp & pp' & d' & oo & Hn & Hh & Hd & ->)].
  - rewrite (state_of_none i n Hn). unfold recv_ok, obs_of_port. cbn [filter map fwd_of flat_map length Nat.eqb].
    destruct (if is_compatible frame then decoded frame else None) as [m|]; [|reflexivity].
    destruct (m_body m); try reflexivity. unfold ann_ok. cbv zeta. cbn [Z.eqb]. rewrite !andb_false_r. cbn [andb]. reflexivity.
  - rewrite (MainC09.state_of_snapshot i n pp Hn), code_slave, obs_of_port_tag_same, fwd_of_nolock, Hd.
    destruct Hr as [Hi Hclk Hsp Hacc Hcf].
    assert (Hpa : port_acc pp) by (unfold inst_acc in Hacc; rewrite Forall_forall in Hacc; apply Hacc; eapply nth_error_In; eauto).
    eapply (recv_handler_C15 pp (i_ds i) (port_ti pp) frame pp' d' oo (f pp (i_ds i))); [exact Hpa| |apply Hf|exact Hh].
    intros st Hst. exact (Hsp pp st (nth_error_In _ _ Hn) Hst).
Qed.

Lemma step_C15_model c i e i' o :
  reach_inv c i -> event_valid e -> step i e = Ok (i', o) ->
  step_C15 c tt (snapshot_of i) e o (snapshot_of i') = Some tt.
Proof.
  intros Hr He Hs.
  assert (Hother : forall n f, on_port i n f = Ok (i', o) ->
            (forall pp d pp' d' oo, f pp d = Ok (pp', d', oo) -> fwd_of oo = []) ->
            forallb (fun x => match snd x with AForwardTLV _ _ => false | _ => true end) o = true).
  { intros n f Hop Hnf. destruct (on_port_inv i n f i' o Hop) as [(_ & _ & ->)|(pp & pp' & d' & oo & _ & Hh & _ & ->)]; [reflexivity|].
    apply tag_nofwd. eapply Hnf; eauto. }
  unfold step_C15.
  destruct e; cbn [step event_valid] in *.
  - (* event receive *)
    pose proof (recv_step_C15 c i p frame i' o _ Hr (fun pp d => or_intror (ex_intro _ ts eq_refl)) Hs) as Hx.
    unfold recv_ok, ann_ok in Hx. cbv zeta in Hx. cbv zeta.
    change (flat_map (fun x => match x with AForwardTLV t s => [(t, s)] | _ => [] end) (obs_of_port o p)) with (fwd_of (obs_of_port o p)).
    match goal with |- (if ?b then _ else _) = _ => replace b with true by (symmetry; exact Hx) end. reflexivity.
  - pose proof (recv_step_C15 c i p frame i' o _ Hr (fun pp d => or_introl eq_refl) Hs) as Hx.
    unfold recv_ok, ann_ok in Hx. cbv zeta in Hx. cbv zeta.
    change (flat_map (fun x => match x with AForwardTLV t s => [(t, s)] | _ => [] end) (obs_of_port o p)) with (fwd_of (obs_of_port o p)).
    match goal with |- (if ?b then _ else _) = _ => replace b with true by (symmetry; exact Hx) end. reflexivity.
  - rewrite (Hother _ _ Hs); [reflexivity|]. intros pp d pp' d' oo Hx. eapply send_timestamp_nofwd; eauto.
  - (* announce timer *)
    destruct (on_port_inv i p _ i' o Hs) as [(Hn & -> & ->)|(pp & pp' & d' & oo & Hn & Hh & Hd & ->)].
    + rewrite (state_of_none i p Hn). reflexivity.
    + rewrite (MainC09.state_of_snapshot i p pp Hn), code_master, obs_of_port_tag_same.
      destruct Hr as [Hi Hclk Hsp Hacc Hcf].
      assert (Hpd : port_inv pp /\ ds_inv (i_ds i)).
      { destruct Hi as (Hports & Hds & _). split; [|exact Hds]. rewrite Forall_forall in Hports. apply Hports. eapply nth_error_In; eauto. }
      destruct Hpd as [Hpi Hdi].
      destruct (is_master (p_state pp)) eqn:Em.
      * destruct (send_announce_C15 pp (i_ds i) queue pp' d' oo Hpi Hdi He Em Hh) as (fr & m' & Hsf & Hdec & (a & Hb) & Hsz & Htl).
        unfold undecodable_frames, announce_of, count. rewrite sent_frames_filter, Hsf.
        cbn [filter flat_map snd length app]. unfold decoded. rewrite Hdec, Hb. cbn [length Nat.eqb andb app].
        change (if ds_path_enable (sn_ds (snapshot_of i)) then _ else []) with (path_tlv_of (i_ds i)).
        rewrite Htl.
        assert (Hle : (wire_size m' <=? MAX_DATA_LEN) = true) by lia. rewrite Hle. cbn [andb].
        unfold tlv_list_eqb. change (sn_ds (snapshot_of i)) with (i_ds i).
        match goal with |- (if list_eqb tlv_eqb ?a ?b then _ else _) = _ => replace b with a; [rewrite (list_eqb_refl tlv_eqb) by apply tlv_eqb_refl; reflexivity|] end.
        reflexivity.
      * unfold send_announce in Hh. rewrite Em in Hh. unfold ret in Hh. inversion Hh; subst. reflexivity.
  - rewrite (Hother _ _ Hs); [reflexivity|]. intros pp d pp' d' oo Hx. eapply send_sync_nofwd; eauto.
  - rewrite (Hother _ _ Hs); [reflexivity|]. intros pp d pp' d' oo Hx. eapply send_delay_request_nofwd; eauto.
  - rewrite (Hother _ _ Hs); [reflexivity|]. intros pp d pp' d' oo Hx. eapply receipt_timer_nofwd; eauto.
  - rewrite (Hother _ _ Hs); [reflexivity|]. intros pp d pp' d' oo Hx. eapply filter_update_nofwd; eauto.
  - rewrite (bmca_nofwd i i' o Hs). cbn [andb].
    destruct (forallb (fun s => negb (s =? 9)) (sn_states (snapshot_of i'))) eqn:Hns; cbn [andb]; [|reflexivity].
    destruct (existsb (fun s => s =? 6) (sn_states (snapshot_of i'))) eqn:Hsm; [|reflexivity].
    change (sn_ds (snapshot_of i')) with (i_ds i'). rewrite (MainC11b.bmca_gm_view i i' o Hs Hns Hsm). reflexivity.
  - inversion Hs; subst. reflexivity.
  - inversion Hs; subst. reflexivity.
  - inversion Hs; subst. reflexivity.
Qed.

Lemma walk_C15_model c es : forall i,
  reach_inv c i -> Forall event_valid es ->
  walk (step_C15 c) tt (snapshot_of i) es (run i es) = true.
Proof.
  induction es as [|e es IH]; intros i Hr Hes; cbn [run walk]; [reflexivity|].
  inversion Hes as [|? ? He Hes']; subst.
  destruct (step_ok i e (ri_inv _ _ Hr) He) as (i1 & o1 & Hs & _). rewrite Hs. cbn [walk].
  rewrite (step_C15_model c i e i1 o1 Hr He Hs).
  apply IH; [eapply reach_step; eauto|exact Hes'].
Qed.

(** the complete C15 oracle accepts the model's own trace, for every valid
    set-up and every valid event list *)
Theorem ok_C15_model s es rel :
  setup_valid s -> Forall event_valid es ->
  exists i o, init s = Ok (i, o) /\ ok_C15 (mkCase s es rel (Some o) (run i es)) = true.
Proof.
  intros Hs Hes. destruct (init_ok s Hs) as (i & o & Hi & _). exists i, o. split; [exact Hi|].
  unfold ok_C15. cbn [pc_events pc_trace]. unfold init_snap. cbn [pc_setup]. rewrite Hi.
  apply walk_C15_model; [apply reach_init; assumption|exact Hes].
Qed.
