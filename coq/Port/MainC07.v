(** C07 on the model, reachable states: every frame of the ignorable classes
    the oracle ok_C07 names - other PTP version, malformed, other domain or
    sdoId; Sync / Follow_Up not sent by the parent shown in parentDS; Delay_Resp
    not from that parent or answering another port's request - is a stuttering
    step of the model in EVERY reachable state: port states, data sets, RNG
    position, pending actions unchanged, nothing but lock reads observable.
    (The Announce class - own identity / unacceptable master - is proved per
    handler under its hypothesis in LemmasC07 and judged on traces.) *)
From SV Require Export Port.ParentInv Port.OracleC07 Port.LemmasC07.

(** the oracle's [ignorable], minus the Announce class *)
Definition ignorable_na (c : pcase) (prev : snapshot) (e : event) : bool :=
  let dd := ds_default (sn_ds prev) in
  let parent := pd_parent (ds_parent (sn_ds prev)) in
  let judge (p : nat) (frame : bytes) : bool :=
    if negb (is_compatible frame) then true else
    match decoded frame with
    | None => true
    | Some m =>
        let h := m_header m in
        if negb ((h_domain h =? dd_domain dd) && (h_sdo_id h =? dd_sdo_id dd)) then true
        else
          match m_body m with
          | BSync _ | BFollowUp _ => negb (pi_eqb (h_source h) parent)
          | BDelayResp _ rq => negb (pi_eqb (h_source h) parent) || negb (pi_eqb rq (port_id c p))
          | _ => false
          end
    end in
  match e with
  | EvRecvEvent p frame _ | EvRecvGeneral p frame => judge p frame
  | _ => false
  end.

Lemma update_nth_same {A} n (x : A) l : nth_error l n = Some x -> update_nth n x l = l.
Proof. revert n; induction l as [|y l IH]; intros [|n] H; cbn in *; try discriminate; [inversion H; reflexivity|f_equal; apply IH; exact H]. Qed.

Lemma on_port_stutter i n f p oo :
  nth_error (i_ports i) n = Some p -> f p (i_ds i) = Ok (p, i_ds i, oo) ->
  (forall x, In x oo -> exists w d, x = OLock w d) ->
  exists o, on_port i n f = Ok (i, o) /\ forall x, In x o -> exists w d, snd x = OLock w d.
Proof.
  intros Hn Hf Hl. unfold on_port. rewrite Hn, Hf. cbn [obind]. rewrite (update_nth_same _ _ _ Hn).
  exists (tag n oo). split; [destruct i; reflexivity|].
  intros x Hx. unfold tag in Hx. apply in_map_iff in Hx. destruct Hx as (y & <- & Hy).
  destruct (Hl y Hy) as (w & d & ->). cbn. eauto.
Qed.

Lemma on_port_missing i n f : nth_error (i_ports i) n = None ->
  exists o, on_port i n f = Ok (i, o) /\ forall x, In x o -> exists w d, snd x = OLock w d.
Proof. intros Hn. unfold on_port. rewrite Hn. exists []. split; [reflexivity|intros x []]. Qed.

Lemma not_parent_not_master i p src :
  slave_parent i -> In p (i_ports i) -> pi_eqb src (parent_id (i_ds i)) = false -> not_from_master p src.
Proof.
  intros Hsp Hp Hne. unfold not_from_master. destruct (p_state p) as [| | | |st] eqn:Est; try exact I.
  rewrite (Hsp p st Hp Est). rewrite pi_eqb_sym. exact Hne.
Qed.

Lemma locks_cons o : only_locks o -> only_locks (rd_lock :: o).
Proof. intros H x [<-|Hx]; [eexists; eexists; reflexivity|apply H; exact Hx]. Qed.

Theorem ignorable_na_stutters c i e :
  inst_inv i -> clk_inv c i -> slave_parent i ->
  ignorable_na c (snapshot_of i) e = true -> stutters i e.
Proof.
  intros Hi Hclk Hsp Hig. unfold stutters.
  assert (Hid : forall n p, nth_error (i_ports i) n = Some p -> p_identity p = port_id c n).
  { intros n p Hn. destruct Hi as (_ & _ & Hids & _). rewrite (Hids n p Hn). unfold port_id. rewrite <- Hclk. reflexivity. }
  (* the call on port p, for both interfaces *)
  assert (Hcall : forall n frame (ev : bool) ts p,
            nth_error (i_ports i) n = Some p ->
            ignorable_na c (snapshot_of i) (if ev then EvRecvEvent n frame ts else EvRecvGeneral n frame) = true ->
            exists oo, (if ev then handle_event_receive p (i_ds i) (port_ti p) frame ts
                        else handle_general_receive p (i_ds i) (port_ti p) frame) = Ok (p, i_ds i, oo) /\ only_locks oo).
  { intros n frame ev ts p Hn Hj.
    assert (Hj' : (if negb (is_compatible frame) then true else
                   match decoded frame with
                   | None => true
                   | Some m =>
                     if negb ((h_domain (m_header m) =? dd_domain (ds_default (i_ds i)))
                              && (h_sdo_id (m_header m) =? dd_sdo_id (ds_default (i_ds i)))) then true
                     else match m_body m with
                          | BSync _ | BFollowUp _ => negb (pi_eqb (h_source (m_header m)) (parent_id (i_ds i)))
                          | BDelayResp _ rq => negb (pi_eqb (h_source (m_header m)) (parent_id (i_ds i)))
                                               || negb (pi_eqb rq (port_id c n))
                          | _ => false
                          end
                   end) = true) by (destruct ev; exact Hj).
    clear Hj.
    destruct (filtered_out (i_ds i) frame) eqn:Efo.
    { destruct ev; [apply filtered_event_stutters|apply filtered_general_stutters]; exact Efo. }
    unfold filtered_out in Efo. apply orb_false_iff in Efo as [Ecomp Edec]. apply negb_false_iff in Ecomp.
    rewrite Ecomp in Hj'. cbn [negb] in Hj'. unfold decoded in Hj'.
    destruct (decode frame) as [m|?] eqn:Ed; [|discriminate Edec]. apply negb_false_iff in Edec.
    assert (Edom : (h_domain (m_header m) =? dd_domain (ds_default (i_ds i))) && (h_sdo_id (m_header m) =? dd_sdo_id (ds_default (i_ds i))) = true)
      by (apply andb_true_iff in Edec as [A B]; rewrite A, B; reflexivity).
    rewrite Edom in Hj'. cbn [negb] in Hj'.
    assert (Hpf : parse_and_filter (i_ds i) frame = (Some m, [rd_lock])).
    { unfold parse_and_filter. rewrite Ecomp, Ed. cbn [negb]. rewrite Edec. reflexivity. }
    pose proof (nth_error_In _ _ Hn) as Hin.
    destruct ev.
    - unfold handle_event_receive. rewrite Hpf. unfold prepend.
      destruct (m_body m) eqn:Eb; try discriminate Hj'.
      + apply negb_true_iff in Hj'. rewrite (sync_not_master_stutters p (i_ds i) (m_header m) origin ts (not_parent_not_master i p _ Hsp Hin Hj')).
        cbn [obind]. eexists. split; [reflexivity|]. apply locks_cons. apply only_locks_nil.
      + unfold handle_general_internal. rewrite Eb. apply negb_true_iff in Hj'.
        rewrite (follow_up_not_master_stutters p (i_ds i) (m_header m) precise (not_parent_not_master i p _ Hsp Hin Hj')).
        cbn [obind]. eexists. split; [reflexivity|]. apply locks_cons. apply only_locks_nil.
      + unfold handle_general_internal. rewrite Eb.
        rewrite (delay_resp_not_ours_stutters p (i_ds i) (m_header m) recv requester).
        * cbn [obind]. eexists. split; [reflexivity|]. apply locks_cons. apply only_locks_nil.
        * apply orb_true_iff in Hj' as [H1|H2]; apply negb_true_iff in H1 || apply negb_true_iff in H2.
          -- left. exact (not_parent_not_master i p _ Hsp Hin H1).
          -- right. rewrite (Hid n p Hn), pi_eqb_sym. exact H2.
    - unfold handle_general_receive. rewrite Hpf. unfold prepend, handle_general_internal.
      destruct (m_body m) eqn:Eb; try discriminate Hj'.
      + cbn [obind ret]. eexists. split; [reflexivity|]. apply locks_cons. apply only_locks_nil.
      + apply negb_true_iff in Hj'.
        rewrite (follow_up_not_master_stutters p (i_ds i) (m_header m) precise (not_parent_not_master i p _ Hsp Hin Hj')).
        cbn [obind]. eexists. split; [reflexivity|]. apply locks_cons. apply only_locks_nil.
      + rewrite (delay_resp_not_ours_stutters p (i_ds i) (m_header m) recv requester).
        * cbn [obind]. eexists. split; [reflexivity|]. apply locks_cons. apply only_locks_nil.
        * apply orb_true_iff in Hj' as [H1|H2]; apply negb_true_iff in H1 || apply negb_true_iff in H2.
          -- left. exact (not_parent_not_master i p _ Hsp Hin H1).
          -- right. rewrite (Hid n p Hn), pi_eqb_sym. exact H2. }
  destruct e; try discriminate Hig; cbn [step].
  - destruct (nth_error (i_ports i) p) as [pp|] eqn:En; [|apply on_port_missing; exact En].
    destruct (Hcall p frame true ts pp En Hig) as (oo & Hh & Hl). eapply on_port_stutter; [exact En|exact Hh|exact Hl].
  - destruct (nth_error (i_ports i) p) as [pp|] eqn:En; [|apply on_port_missing; exact En].
    destruct (Hcall p frame false 0 pp En Hig) as (oo & Hh & Hl). eapply on_port_stutter; [exact En|exact Hh|exact Hl].
Qed.

Lemma run_inv_clk c es : forall i i',
  inst_inv i -> clk_inv c i -> Forall event_valid es -> run_state i es = Some i' -> inst_inv i' /\ clk_inv c i'.
Proof.
  induction es as [|e es IH]; intros i i' Hi Hclk Hes Hr; cbn [run_state] in Hr.
  - inversion Hr; subst. split; assumption.
  - inversion Hes as [|? ? He Hes']; subst.
    destruct (step_ok i e Hi He) as (i1 & o & Hs & Hi1 & _). rewrite Hs in Hr.
    eapply IH; [exact Hi1| |exact Hes'|exact Hr].
    unfold clk_inv in *. rewrite (step_clock_identity i e i1 o Hi He Hs). exact Hclk.
Qed.

(** in every reachable state, every ignorable frame (of the non-Announce classes) stutters *)
Theorem ignorable_na_stutters_reachable s es rel tr i o i' e :
  setup_valid s -> Forall event_valid es -> init s = Ok (i, o) -> run_state i es = Some i' ->
  ignorable_na (mkCase s es rel (Some o) tr) (snapshot_of i') e = true -> stutters i' e.
Proof.
  intros Hs Hes Hi Hr Hig.
  destruct (init_ok s Hs) as (i0 & o0 & Hi0 & Hinv & _). rewrite Hi in Hi0. inversion Hi0; subst i0 o0.
  assert (Hclk : clk_inv (mkCase s es rel (Some o) tr) i).
  { unfold clk_inv, own_clock. cbn [pc_setup]. unfold init in Hi. rewrite (add_ports_clock _ _ _ _ _ Hi). reflexivity. }
  destruct (run_inv_clk _ es i i' Hinv Hclk Hes Hr) as [Hinv' Hclk'].
  eapply ignorable_na_stutters; [exact Hinv'|exact Hclk'|eapply slave_follows_parent; eauto|exact Hig].
Qed.

(** ... hence inserting it anywhere in a history changes neither the states
    reached nor anything observable about the other calls *)
Theorem insert_ignorable_unchanged s es1 e es2 rel tr i o i1 :
  setup_valid s -> Forall event_valid es1 -> init s = Ok (i, o) -> run_state i es1 = Some i1 ->
  ignorable_na (mkCase s es1 rel (Some o) tr) (snapshot_of i1) e = true ->
  run_state i (es1 ++ e :: es2) = run_state i (es1 ++ es2) /\
  exists o', run i (es1 ++ e :: es2) = run i es1 ++ SROk o' (snapshot_of i1) :: run i1 es2
             /\ run i (es1 ++ es2) = run i es1 ++ run i1 es2.
Proof.
  intros Hs Hes Hi Hr Hig.
  pose proof (ignorable_na_stutters_reachable s es1 rel tr i o i1 e Hs Hes Hi Hr Hig) as Hst.
  split.
  - apply run_state_insert. intros i' Hr'. rewrite Hr in Hr'. inversion Hr'; subst. exact Hst.
  - apply run_insert; assumption.
Qed.
