(** Lemmas for C08 (roles). *)
From SV Require Import Port.OracleC08.

(** * Emitters are guarded by the port state *)
Lemma send_sync_guard p d : is_master (p_state p) = false -> send_sync p d = Ok (p, d, []).
Proof. unfold send_sync. intros ->. reflexivity. Qed.
Lemma sync_timestamp_guard p d id ts : is_master (p_state p) = false -> handle_sync_timestamp p d id ts = Ok (p, d, []).
Proof. unfold handle_sync_timestamp. intros ->. reflexivity. Qed.
Lemma send_announce_guard p d q : is_master (p_state p) = false -> send_announce p d q = Ok (p, d, []).
Proof. unfold send_announce. intros ->. reflexivity. Qed.
Lemma delay_req_guard p d h ts : is_master (p_state p) = false -> handle_delay_req p d h ts = Ok (p, d, []).
Proof. unfold handle_delay_req. intros ->. reflexivity. Qed.
Lemma e2e_delay_request_guard p d log :
  pc_delay (p_config p) = E2E log -> is_slave (p_state p) = false -> send_delay_request p d = Ok (p, d, []).
Proof. unfold send_delay_request. intros -> H. destruct (p_state p); try reflexivity. discriminate. Qed.

(** * No handler outside the BMCA turns a port into a slave *)
Definition keeps_non_slave (r : hres) (p : port) : Prop :=
  forall p' d' o, r = Ok (p', d', o) -> is_slave (p_state p) = false -> is_slave (p_state p') = false.

Lemma set_forced_state p s : p_state (fst (set_forced p s)) = s.
Proof. reflexivity. Qed.

Lemma extract_measurement_non_slave p p' om o :
  extract_measurement p = Ok (p', om, o) -> is_slave (p_state p) = false -> is_slave (p_state p') = false.
Proof.
  unfold extract_measurement. intros H Hs.
  destruct (p_peer p) as [|id [r|] [a|] [b|] [c|] [e|]|] eqn:Ep;
    try (destruct (p_state p) eqn:Est; try discriminate; inversion H; subst; rewrite Est; reflexivity).
  destruct (time_diff e a) as [x|?]; cbn [obind] in H; [|discriminate].
  destruct (time_diff c b) as [y|?]; cbn [obind] in H; [|discriminate].
  destruct (dur_sub x y) as [z|?]; cbn [obind] in H; [|discriminate].
  destruct (chk_i site_dur_div 128 (Z.quot z 2)) as [w|?]; cbn [obind] in H; [|discriminate].
  cbn [port_with_peer p_state] in H.
  destruct (is_faulty (p_state p)) eqn:Ef; inversion H; subst; cbn; [reflexivity|exact Hs].
Qed.

Lemma handle_time_measurement_non_slave p d : keeps_non_slave (handle_time_measurement p d) p.
Proof.
  unfold keeps_non_slave, handle_time_measurement. intros p' d' o H Hs.
  destruct (extract_measurement p) as [[[p1 om] o1]|?] eqn:E; cbn [obind] in H; [|discriminate].
  pose proof (extract_measurement_non_slave _ _ _ _ E Hs) as H1.
  destruct om as [m|]; [destruct (filter_mean_delay m)|]; inversion H; subst; cbn; exact H1.
Qed.

Lemma non_slave_handlers p d :
  is_slave (p_state p) = false ->
  (forall h o ts, keeps_non_slave (handle_sync p d h o ts) p) /\
  (forall h w, keeps_non_slave (handle_follow_up p d h w) p) /\
  (forall h w r, keeps_non_slave (handle_delay_resp p d h w r) p) /\
  (forall id ts, keeps_non_slave (handle_delay_timestamp p d id ts) p).
Proof.
  intros Hs. unfold keeps_non_slave, handle_sync, handle_follow_up, handle_delay_resp, handle_delay_timestamp.
  destruct (p_state p) eqn:E; try discriminate;
    repeat split; intros; match goal with H : ret _ _ _ = Ok _ |- _ => inversion H; subst; rewrite E; reflexivity end.
Qed.
