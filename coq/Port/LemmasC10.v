(** Lemmas for C10 (master-side messages). *)
From SV Require Import Time.TimeCases Time.TimeLemmas Port.OracleC10.

Lemma in_range_ts_ptp t : in_range_ts t = true -> in_ptp t = true.
Proof.
  unfold in_range_ts, in_ptp, PTP_MAX, FRAC, NS_PER_S. pv. lia.
Qed.

(** Sequence ids: +1 modulo 2^16, for every starting value (no unrolling). *)
Lemma gen16_spec x : 0 <= x < 65536 -> gen16 x = (x + 1) mod 65536 /\ 0 <= gen16 x < 65536.
Proof. intros H. unfold gen16. split; [reflexivity|]. pose proof (Z.mod_pos_bound (x + 1) 65536 ltac:(lia)). lia. Qed.

Lemma gen16_iter n x :
  0 <= x < 65536 -> Nat.iter n gen16 x = (x + Z.of_nat n) mod 65536.
Proof.
  intros Hx. induction n as [|n IH].
  - change (Nat.iter 0 gen16 x) with x. change (Z.of_nat 0) with 0. rewrite Z.add_0_r. rewrite Z.mod_small; lia.
  - change (Nat.iter (S n) gen16 x) with (gen16 (Nat.iter n gen16 x)). rewrite IH. unfold gen16.
    rewrite Nat2Z.inj_succ. rewrite Z.add_mod_idemp_l by lia. f_equal. lia.
Qed.

Lemma gen16_wraps n x : Z.of_nat n = 65536 -> 0 <= x < 65536 -> Nat.iter n gen16 x = x.
Proof.
  intros Hn Hx. rewrite gen16_iter by assumption. rewrite Hn.
  rewrite <- (Z.mul_1_l 65536) at 1. rewrite Z.mod_add by lia. rewrite Z.mod_small; lia.
Qed.

(** wire timestamp of a time in range *)
Lemma wire_of_time_exact t :
  in_range_ts t = true ->
  exists w, wire_of_time t = Ok w /\ 0 <= ts_secs w < 2 ^ 48 /\ 0 <= ts_nanos w < NS_PER_S /\
            ts_bits w + time_subnano t * 2 ^ 16 = t - t mod 2 ^ 16 /\
            ts_bits w = t - t mod FRAC.
Proof.
  intros H. destruct (wire_roundtrip t (in_range_ts_ptp t H)) as (s & n & t' & H1 & H2 & Hs & Hn & Hf & Ht' & Heq).
  exists (mkTS s n). unfold wire_of_time. rewrite H1. cbn [obind fst snd].
  split; [reflexivity|]. cbn [ts_secs ts_nanos]. unfold ts_bits; cbn [ts_secs ts_nanos].
  repeat split; try lia.
  unfold time_subnano, FRAC in *.
  assert (Hm : t mod 2 ^ 32 = 2 ^ 16 * (t mod 2 ^ 32 / 2 ^ 16) + (t mod 2 ^ 32) mod 2 ^ 16)
    by (apply Z.div_mod; pv; lia).
  assert (Hf2 : t mod 2 ^ 16 = (t mod 2 ^ 32) mod 2 ^ 16).
  { apply Znumtheory.Zmod_div_mod; [pv; lia | pv; lia |]. exists (2 ^ 16). reflexivity. }
  subst t'. lia.
Qed.

(** Follow_Up: origin timestamp + correction = transmit timestamp to 2^-16 ns,
    sequence id and source echoed. *)
Lemma follow_up_exact d src id t minor :
  in_range_ts t = true ->
  exists w, msg_follow_up d src id t minor =
              Ok (mkMsg (with_correction (base_header d src id minor) (time_subnano t)) (BFollowUp w) [])
            /\ ts_bits w + time_subnano t * 2 ^ 16 = t - t mod 2 ^ 16
            /\ 0 <= time_subnano t < 2 ^ 16.
Proof.
  intros H. destruct (wire_of_time_exact t H) as (w & Hw & _ & _ & He & _).
  exists w. unfold msg_follow_up. rewrite Hw. cbn [obind]. split; [reflexivity|]. split; [exact He|].
  unfold time_subnano, FRAC. pv. lia.
Qed.

(** Delay_Resp: receive timestamp (ns) + correction = receive time + request correction,
    saturating as IEEE 1588 13.3.2.9 prescribes; requester and sequence id echoed. *)
Lemma delay_resp_exact req src log t :
  in_range_ts t = true ->
  exists w, msg_delay_resp req src log t =
              Ok (mkMsg (with_log_interval
                           (with_correction (with_source (with_two_step req false) src)
                              (sat_i64 (h_correction req + time_subnano t))) log)
                        (BDelayResp w (h_source req)) [])
            /\ ts_bits w = t - t mod FRAC.
Proof.
  intros H. destruct (wire_of_time_exact t H) as (w & Hw & _ & _ & _ & He).
  exists w. unfold msg_delay_resp. rewrite Hw. cbn [obind]. split; [reflexivity|exact He].
Qed.

Lemma pdelay_resp_exact d src req t minor :
  in_range_ts t = true ->
  exists w, msg_pdelay_resp d src req t minor =
              Ok (mkMsg (with_correction (with_two_step (base_header d src (h_seq req) minor) true)
                                         (h_correction req))
                        (BPDelayResp w (h_source req)) [])
            /\ ts_bits w = t - t mod FRAC.
Proof.
  intros H. destruct (wire_of_time_exact t H) as (w & Hw & _ & _ & _ & He).
  exists w. unfold msg_pdelay_resp. rewrite Hw. cbn [obind]. split; [reflexivity|exact He].
Qed.

Lemma pdelay_resp_follow_up_exact d src rq id t minor :
  in_range_ts t = true ->
  exists w, msg_pdelay_resp_follow_up d src rq id t minor =
              Ok (mkMsg (base_header d src id minor) (BPDelayRespFollowUp w rq) [])
            /\ ts_bits w = t - t mod FRAC.
Proof.
  intros H. destruct (wire_of_time_exact t H) as (w & Hw & _ & _ & _ & He).
  exists w. unfold msg_pdelay_resp_follow_up. rewrite Hw. cbn [obind]. split; [reflexivity|exact He].
Qed.
