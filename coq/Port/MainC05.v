(** C05, whole histories: the complete oracle [ok_C05] accepts the trace the
    model produces, for every valid set-up and every valid event list.

    The oracle keeps, per port, one candidate per foreign master (its newest
    Announce, how many Announces arrived since the last BMCA run, how far its
    sequence id has travelled).  The coupling [cp5] ties that bookkeeping to the
    port's foreign-master list; at a judged BMCA run it yields Erbest of every
    port ([take_best_judged]: the selection returns the candidate that wins
    every pairwise comparison of Figures 34/35, by [find_best_condorcet]),
    then Ebest, then the decision of every port by [decision_refines_fig33],
    then the port states and the data sets. *)
From Coq Require Import Permutation.
From SV Require Export Port.MainC06 Port.CondorcetC05 Port.OracleC05.
From SV Require Import Port.MainC11b.
Local Open Scope Z_scope.

(** * sequence ids *)
Lemma wsub_tri a b c : wrapping_sub16 a c <= wrapping_sub16 a b + wrapping_sub16 b c.
Proof. unfold wrapping_sub16. lia. Qed.
Lemma wsub_refl a : wrapping_sub16 a a = 0.
Proof. unfold wrapping_sub16. rewrite Z.sub_diag. reflexivity. Qed.
Lemma wsub_nonneg a b : 0 <= wrapping_sub16 a b.
Proof. unfold wrapping_sub16. lia. Qed.

(** * the coupling *)
Definition cand_facts (own : port_identity) (acc : option (list Z)) (x : cand) : Prop :=
  cd_src x = h_source (cd_h x) /\ (pi_clock (cd_src x) =? pi_clock own) = false /\
  acceptable acc (pi_clock (cd_src x)) = true /\ (an_steps_removed (cd_a x) <? 255) = true /\
  0 <= cd_fresh x /\ 0 <= cd_travel x < 32767.

Definition cand_fm_ok (x : cand) (fm : foreign_master) : Prop :=
  (forall m, In m (fmr_msgs fm) -> wrapping_sub16 (h_seq (cd_h x)) (h_seq (fm_header m)) <= cd_travel x) /\
  (1 <= cd_fresh x -> last (map Some (fmr_msgs fm)) None = Some (mkFMsg (cd_h x) (cd_a x) 0) /\
                      Z.min (cd_fresh x) 2 <= Z.of_nat (length (fmr_msgs fm))).

Record cp5 (own : port_identity) (acc : option (list Z)) (ti : Z) (l : list cand) (fml : list foreign_master) : Prop := mkCp5 {
  c5_nodup : ids_nodup fml;
  c5_lt : fml_lt ti fml;
  c5_srcs : NoDup (map cd_src l);
  c5_facts : forall x, In x l -> cand_facts own acc x;
  c5_sub : forall fm, In fm fml -> exists x, In x l /\ cd_src x = fmr_identity fm /\ cand_fm_ok x fm;
  c5_ex : forall x, In x l -> 1 <= cd_fresh x -> exists fm, In fm fml /\ fmr_identity fm = cd_src x
}.

(** * [upsert] *)
Definition jump (x y : cand) : Z := (h_seq (cd_h x) - h_seq (cd_h y)) mod 65536.
Definition merged (x : cand) (l : list cand) : cand :=
  match find (fun y => pi_eqb (cd_src y) (cd_src x)) l with
  | Some y => mkCand (cd_src x) (cd_h x) (cd_a x) (cd_fresh y + 1) (cd_travel y + jump x y)
  | None => x
  end.

Lemma upsert_merged x l : In (merged x l) (upsert x l).
Proof.
  unfold merged. induction l as [|y l IH]; cbn [upsert find]; [left; reflexivity|].
  destruct (pi_eqb (cd_src y) (cd_src x)); [left; reflexivity|right; exact IH].
Qed.
Lemma upsert_keeps x l z : In z l -> pi_eqb (cd_src z) (cd_src x) = false -> In z (upsert x l).
Proof.
  induction l as [|y l IH]; cbn [upsert]; [intros []|]. intros [->|Hin] Hz.
  - rewrite Hz. left; reflexivity.
  - destruct (pi_eqb (cd_src y) (cd_src x)); right; [exact Hin|apply IH; assumption].
Qed.
Lemma upsert_in x l z : NoDup (map cd_src l) -> In z (upsert x l) ->
  z = merged x l \/ (In z l /\ pi_eqb (cd_src z) (cd_src x) = false).
Proof.
  unfold merged. induction l as [|y l IH]; cbn [upsert find map]; intros Hnd Hin.
  - destruct Hin as [<-|[]]. left; reflexivity.
  - inversion Hnd as [|? ? Hni Hnd']; subst.
    destruct (pi_eqb (cd_src y) (cd_src x)) eqn:E.
    + destruct Hin as [<-|Hin]; [left; reflexivity|]. right. split; [right; exact Hin|].
      destruct (pi_eqb (cd_src z) (cd_src x)) eqn:E2; [|reflexivity]. exfalso. apply Hni.
      apply pi_eqb_eq in E. apply pi_eqb_eq in E2. rewrite E, <- E2. apply in_map. exact Hin.
    + destruct Hin as [<-|Hin]; [right; split; [left; reflexivity|exact E]|].
      destruct (IH Hnd' Hin) as [->|[H1 H2]]; [left; reflexivity|right; split; [right; exact H1|exact H2]].
Qed.
Lemma upsert_srcs x l :
  map cd_src (upsert x l) = match find (fun y => pi_eqb (cd_src y) (cd_src x)) l with
                            | Some _ => map cd_src l | None => map cd_src l ++ [cd_src x] end.
Proof.
  induction l as [|y l IH]; cbn [upsert find map app]; [reflexivity|].
  destruct (pi_eqb (cd_src y) (cd_src x)) eqn:E; cbn [map cd_src].
  - apply pi_eqb_eq in E. rewrite E. reflexivity.
  - rewrite IH. destruct (find _ l); reflexivity.
Qed.
Lemma find_src_none x l : find (fun y => pi_eqb (cd_src y) (cd_src x)) l = None -> ~ In (cd_src x) (map cd_src l).
Proof.
  intros H Hin. apply in_map_iff in Hin as (z & Hz & Hin). pose proof (find_none _ _ H z Hin) as E. cbn in E.
  rewrite Hz, pi_eqb_refl in E. discriminate.
Qed.
Lemma find_src_some x l y : find (fun y => pi_eqb (cd_src y) (cd_src x)) l = Some y -> In y l /\ cd_src y = cd_src x.
Proof. intros H. apply find_some in H as [H1 H2]. split; [exact H1|apply pi_eqb_eq; exact H2]. Qed.
Lemma upsert_length x l : length (upsert x l) = match find (fun y => pi_eqb (cd_src y) (cd_src x)) l with
                                                | Some _ => length l | None => S (length l) end.
Proof.
  rewrite <- (map_length cd_src), upsert_srcs. destruct (find _ l); rewrite ?app_length, !map_length; cbn; lia.
Qed.
Lemma src_unique l x y : NoDup (map cd_src l) -> In x l -> In y l -> cd_src x = cd_src y -> x = y.
Proof.
  induction l as [|z l IH]; intros Hnd Hx Hy E; [destruct Hx|]. cbn [map] in Hnd. inversion Hnd as [|? ? Hni Hnd']; subst.
  destruct Hx as [->|Hx], Hy as [->|Hy]; auto.
  - exfalso. apply Hni. rewrite E. apply in_map. exact Hy.
  - exfalso. apply Hni. rewrite <- E. apply in_map. exact Hx.
Qed.
Lemma id_unique fml a b : ids_nodup fml -> In a fml -> In b fml -> fmr_identity a = fmr_identity b -> a = b.
Proof.
  unfold ids_nodup. induction fml as [|z l IH]; intros Hnd Hx Hy E; [destruct Hx|]. cbn [map] in Hnd. inversion Hnd as [|? ? Hni Hnd']; subst.
  destruct Hx as [->|Hx], Hy as [->|Hy]; auto.
  - exfalso. apply Hni. rewrite E. apply in_map. exact Hy.
  - exfalso. apply Hni. rewrite <- E. apply in_map. exact Hx.
Qed.

(** * [fml_update] with distinct identities *)
Lemma fml_update_in_nd id f l x : ids_nodup l -> (forall fm, fmr_identity (f fm) = fmr_identity fm) ->
  In x (fml_update id f l) ->
  (In x l /\ fmr_identity x <> id) \/ exists y, In y l /\ fmr_identity y = id /\ x = f y.
Proof.
  unfold ids_nodup. intros Hnd Hf. induction l as [|y l IH]; cbn [fml_update]; [intros []|].
  cbn [map] in Hnd. inversion Hnd as [|? ? Hni Hnd']; subst.
  destruct (pi_eqb (fmr_identity y) id) eqn:E.
  - apply pi_eqb_eq in E. intros [<-|H].
    + right. exists y. split; [left; reflexivity|split; [exact E|reflexivity]].
    + left. split; [right; exact H|]. intros Hx. apply Hni. rewrite E, <- Hx. apply in_map. exact H.
  - intros [<-|H].
    + left. split; [left; reflexivity|]. intros Hx. rewrite Hx, pi_eqb_refl in E. discriminate.
    + destruct (IH Hnd' H) as [[H1 H2]|(z & Hz & Hi & Hx)]; [left; split; [right; exact H1|exact H2]|].
      right. exists z. split; [right; exact Hz|split; assumption].
Qed.
Lemma fml_update_has id f l y : In y l -> fmr_identity y = id -> ids_nodup l -> In (f y) (fml_update id f l).
Proof.
  unfold ids_nodup. induction l as [|z l IH]; intros Hin Hid Hnd; [destruct Hin|]. cbn [fml_update].
  cbn [map] in Hnd. inversion Hnd as [|? ? Hni Hnd']; subst.
  destruct (pi_eqb (fmr_identity z) (fmr_identity y)) eqn:E.
  - apply pi_eqb_eq in E. destruct Hin as [->|Hin]; [left; reflexivity|]. exfalso. apply Hni. rewrite E. apply in_map. exact Hin.
  - destruct Hin as [->|Hin]; [rewrite pi_eqb_refl in E; discriminate|]. right. apply IH; auto.
Qed.
Lemma fml_update_keeps id f l y : In y l -> fmr_identity y <> id -> In y (fml_update id f l).
Proof.
  induction l as [|z l IH]; intros Hin Hid; [destruct Hin|]. cbn [fml_update].
  destruct (pi_eqb (fmr_identity z) id) eqn:E.
  - apply pi_eqb_eq in E. destruct Hin as [->|Hin]; [contradiction|right; exact Hin].
  - destruct Hin as [->|Hin]; [left; reflexivity|right; apply IH; assumption].
Qed.
Lemma fml_find_in id l fm : fml_find id l = Some fm -> In fm l /\ fmr_identity fm = id.
Proof.
  induction l as [|y l IH]; cbn [fml_find]; [discriminate|].
  destruct (pi_eqb (fmr_identity y) id) eqn:E.
  - intros H. inversion H; subst. split; [left; reflexivity|apply pi_eqb_eq; exact E].
  - intros H. destruct (IH H) as [H1 H2]. split; [right; exact H1|exact H2].
Qed.

(** * registering an Announce *)
Lemma pi_eqb_false a b : a <> b -> pi_eqb a b = false.
Proof. intros H. destruct (pi_eqb a b) eqn:E; [apply pi_eqb_eq in E; contradiction|reflexivity]. Qed.
Lemma merged_src x l : cd_src (merged x l) = cd_src x.
Proof. unfold merged. destruct (find _ l); reflexivity. Qed.
Lemma find_src_ex x l y : In y l -> cd_src y = cd_src x -> exists y', find (fun y => pi_eqb (cd_src y) (cd_src x)) l = Some y'.
Proof.
  intros Hin E. destruct (find _ l) eqn:F; [eexists; reflexivity|]. pose proof (find_none _ _ F y Hin) as H. cbn in H.
  rewrite E, pi_eqb_refl in H. discriminate.
Qed.
Lemma purge_id ti msgs : Forall (fun m => fm_age m < cutoff_age ti) msgs -> purge_old ti msgs = msgs.
Proof.
  unfold purge_old. induction 1 as [|m l Hm _ IH]; cbn [filter]; [reflexivity|].
  assert (E : (fm_age m <? cutoff_age ti) = true) by lia. rewrite E, IH. reflexivity.
Qed.
Lemma in_tl {A} (x : A) l : In x (tl l) -> In x l.
Proof. destruct l; cbn; auto. Qed.

Lemma fm_register_ok y fm s h a ti :
  fm_lt ti fm -> cand_fm_ok y fm -> 0 <= cd_fresh y -> 0 <= cd_travel y ->
  cand_fm_ok (mkCand s h a (cd_fresh y + 1) (cd_travel y + (h_seq h - h_seq (cd_h y)) mod 65536))
             (fm_register ti fm h a 0).
Proof.
  intros Hlt [Hall Hfr] Hf0 Ht0. unfold fm_register. rewrite (purge_id _ _ Hlt).
  set (new := mkFMsg h a 0).
  set (msgs' := if (length (fmr_msgs fm) <? MAX_ANNOUNCE_MESSAGES)%nat then fmr_msgs fm ++ [new] else tl (fmr_msgs fm) ++ [new]).
  assert (Hin : forall m, In m msgs' -> m = new \/ In m (fmr_msgs fm)).
  { intros m Hm. subst msgs'. destruct (_ <? _)%nat; apply in_app_or in Hm as [Hm|[<-|[]]]; auto. right. apply in_tl. exact Hm. }
  assert (Hlast : last (map Some msgs') None = Some new).
  { subst msgs'. destruct (_ <? _)%nat; rewrite map_app; cbn [map]; apply last_last. }
  assert (Hlen : (1 <= length msgs')%nat /\ ((1 <= length (fmr_msgs fm))%nat -> (2 <= length msgs')%nat)).
  { subst msgs'. unfold MAX_ANNOUNCE_MESSAGES. destruct (Nat.ltb_spec (length (fmr_msgs fm)) 8) as [L|L]; rewrite app_length; cbn [length].
    - lia.
    - destruct (fmr_msgs fm) as [|m0 ms]; cbn [length tl] in *; lia. }
  split; cbn [cd_h cd_a cd_fresh cd_travel fmr_msgs].
  - intros m Hm. destruct (Hin m Hm) as [->|Hm'].
    + cbn [new fm_header]. rewrite wsub_refl. pose proof (Z.mod_pos_bound (h_seq h - h_seq (cd_h y)) 65536). lia.
    + pose proof (wsub_tri (h_seq h) (h_seq (cd_h y)) (h_seq (fm_header m))) as T. pose proof (Hall m Hm') as B.
      unfold wrapping_sub16 in *. lia.
  - intros _. split; [exact Hlast|]. destruct Hlen as [L1 L2].
    destruct (Z.le_gt_cases 1 (cd_fresh y)) as [F|F].
    + destruct (Hfr F) as [_ Hm]. assert (1 <= length (fmr_msgs fm))%nat by lia. specialize (L2 H). lia.
    + lia.
Qed.

Lemma register_cp5 own acc ti l fml h a :
  cp5 own acc ti l fml -> 0 < cutoff_age ti ->
  let x := mkCand (h_source h) h a 1 0 in
  cand_facts own acc x -> seq_fresh x l = true -> (length (upsert x l) <= 8)%nat ->
  cp5 own acc ti (upsert x l) (fml_register own ti fml h a 0).
Proof.
  intros [Hnd Hlt Hsrcs Hfacts Hsub Hex] Hcut x Hx Hfr Hlen.
  pose proof Hx as (X1 & X2 & X3 & X4 & X5 & X6). cbn [x cd_src cd_h cd_a cd_fresh cd_travel] in X1, X2, X3, X4.
  (* the merged candidate *)
  assert (Hmfacts : cand_facts own acc (merged x l)).
  { unfold merged. destruct (find _ l) as [y|] eqn:F; [|exact Hx].
    destruct (find_src_some _ _ _ F) as [Hy Hys]. destruct (Hfacts y Hy) as (_ & _ & _ & _ & Y5 & Y6).
    unfold seq_fresh in Hfr. rewrite F in Hfr. unfold cand_facts. cbn [cd_src cd_h cd_a cd_fresh cd_travel x] in *.
    pose proof (Z.mod_pos_bound (h_seq h - h_seq (cd_h y)) 65536 ltac:(lia)) as Hm. unfold jump. cbn [cd_h].
    apply Z.ltb_lt in Hfr.
    split; [exact X1|]. split; [exact X2|]. split; [exact X3|]. split; [exact X4|]. split; [lia|]. change (cd_h x) with h. split; lia. }
  (* the library accepts the sequence id *)
  assert (Hq : fml_qualified own fml h a = true).
  { unfold fml_qualified. rewrite X2.
    assert (Hseq : match fml_find (h_source h) fml with
                   | Some fm => match last (map Some (fmr_msgs fm)) None with
                                | Some lastm => negb (32767 <=? wrapping_sub16 (h_seq h) (h_seq (fm_header lastm)))
                                | None => true end
                   | None => true end = true).
    { destruct (fml_find (h_source h) fml) as [fm|] eqn:Ff; [|reflexivity].
      destruct (fml_find_in _ _ _ Ff) as [Hfm Hid]. destruct (Hsub fm Hfm) as (y & Hy & Hys & Hall & _).
      destruct (find_src_ex x l y Hy ltac:(rewrite Hys, Hid; reflexivity)) as (y' & F).
      destruct (find_src_some _ _ _ F) as [Hy' Hys'].
      assert (y' = y) by (apply (src_unique l); auto; rewrite Hys', Hys, Hid; reflexivity). subst y'.
      unfold seq_fresh in Hfr. rewrite F in Hfr. cbn [x cd_h] in Hfr.
      destruct (fmr_msgs fm) as [|m0 ms] eqn:Em using rev_ind; [reflexivity|]. clear IHms.
      rewrite map_app. cbn [map]. rewrite last_last.
      pose proof (Hall m0 ltac:(apply in_or_app; right; left; reflexivity)) as B.
      pose proof (wsub_tri (h_seq h) (h_seq (cd_h y)) (h_seq (fm_header m0))) as T. unfold wrapping_sub16 in *.
      apply negb_true_iff. apply Z.leb_gt. lia. }
    rewrite Hseq. cbn [negb]. assert (E : (255 <=? an_steps_removed a) = false) by lia. rewrite E. reflexivity. }
  assert (Hnd' : NoDup (map cd_src (upsert x l))).
  { rewrite upsert_srcs. destruct (find _ l) eqn:F; [exact Hsrcs|]. apply NoDup_snoc'; [exact Hsrcs|apply find_src_none; exact F]. }
  constructor.
  - apply fml_register_nodup. exact Hnd.
  - apply fml_register_lt; [exact Hcut|exact Hcut|exact Hlt].
  - exact Hnd'.
  - intros z Hz. destruct (upsert_in x l z Hsrcs Hz) as [->|[Hz' _]]; [exact Hmfacts|apply Hfacts; exact Hz'].
  - (* every record has its candidate *)
    unfold fml_register. rewrite Hq. cbn [negb].
    destruct (fml_find (h_source h) fml) as [fm0|] eqn:Ff.
    + destruct (fml_find_in _ _ _ Ff) as [Hfm0 Hid0]. destruct (Hsub fm0 Hfm0) as (y & Hy & Hys & Hok).
      destruct (find_src_ex x l y Hy ltac:(rewrite Hys, Hid0; reflexivity)) as (y' & F).
      destruct (find_src_some _ _ _ F) as [Hy' Hys'].
      assert (y' = y) by (apply (src_unique l); auto; rewrite Hys', Hys, Hid0; reflexivity). subst y'.
      intros fm' Hfm'.
      destruct (fml_update_in_nd (h_source h) (fun fm => fm_register ti fm h a 0) fml fm' Hnd (fun _ => eq_refl) Hfm') as [[Hin Hne]|(fm1 & Hin1 & Hid1 & ->)].
      * destruct (Hsub fm' Hin) as (z & Hz & Hzs & Hzok). exists z. split; [|split; assumption].
        apply upsert_keeps; [exact Hz|]. apply pi_eqb_false. rewrite Hzs. exact Hne.
      * assert (fm1 = fm0) by (apply (id_unique fml); auto; rewrite Hid1, Hid0; reflexivity). subst fm1.
        exists (merged x l). split; [apply upsert_merged|]. split; [rewrite merged_src; cbn [fm_register fmr_identity]; rewrite Hid0; reflexivity|].
        unfold merged. rewrite F. unfold jump. cbn [x cd_src cd_h cd_a].
        destruct (Hfacts y Hy) as (_ & _ & _ & _ & Y5 & Y6).
        apply fm_register_ok; [unfold fml_lt in Hlt; rewrite Forall_forall in Hlt; apply Hlt; exact Hfm0|exact Hok|exact Y5|lia].
    + pose proof (fml_find_none _ _ Ff) as Hnone.
      assert (Hroom : (length fml < MAX_FOREIGN_MASTERS)%nat).
      { unfold MAX_FOREIGN_MASTERS.
        assert (Hnd2 : NoDup (map fmr_identity fml ++ [h_source h])).
        { apply NoDup_snoc'; [exact Hnd|]. intros Hin. apply in_map_iff in Hin as (fm & E & Hin). exact (Hnone fm Hin E). }
        assert (Hincl : incl (map fmr_identity fml ++ [h_source h]) (map cd_src (upsert x l))).
        { intros id Hin. apply in_app_or in Hin as [Hin|[<-|[]]].
          - apply in_map_iff in Hin as (fm & <- & Hin). destruct (Hsub fm Hin) as (z & Hz & Hzs & _). rewrite <- Hzs.
            apply in_map. apply upsert_keeps; [exact Hz|]. apply pi_eqb_false. rewrite Hzs. apply Hnone. exact Hin.
          - change (h_source h) with (cd_src x). rewrite <- (merged_src x l). apply in_map. apply upsert_merged. }
        pose proof (NoDup_incl_length Hnd2 Hincl) as Hl. rewrite app_length, !map_length in Hl. cbn [length] in Hl. lia. }
      apply Nat.ltb_lt in Hroom. rewrite Hroom.
      intros fm' Hfm'. apply in_app_or in Hfm' as [Hin|[<-|[]]].
      * destruct (Hsub fm' Hin) as (z & Hz & Hzs & Hzok). exists z. split; [|split; assumption].
        apply upsert_keeps; [exact Hz|]. apply pi_eqb_false. rewrite Hzs. apply Hnone. exact Hin.
      * exists (merged x l). split; [apply upsert_merged|]. split; [rewrite merged_src; reflexivity|].
        destruct Hmfacts as (_ & _ & _ & _ & M5 & M6).
        assert (Hf1 : cd_fresh (merged x l) = 1 /\ cd_h (merged x l) = h /\ cd_a (merged x l) = a).
        { unfold merged. destruct (find _ l) as [y|] eqn:F; [|repeat split; reflexivity].
          destruct (find_src_some _ _ _ F) as [Hy Hys]. cbn [cd_fresh cd_h cd_a x]. split; [|split; reflexivity].
          destruct (Hfacts y Hy) as (_ & _ & _ & _ & Y5 & _).
          destruct (Z.le_gt_cases 1 (cd_fresh y)) as [G|G]; [|lia].
          destruct (Hex y Hy G) as (fm & Hfm & Hfid). exfalso. apply (Hnone fm Hfm). rewrite Hfid, Hys. reflexivity. }
        destruct Hf1 as (F1 & F2 & F3). split; cbn [fmr_msgs].
        -- intros m [<-|[]]. cbn [fm_header]. rewrite F2, wsub_refl. lia.
        -- intros _. rewrite F1, F2, F3. cbn. split; [reflexivity|lia].
  - (* every counted candidate has its record *)
    unfold fml_register. rewrite Hq. cbn [negb]. intros z Hz Hzf.
    destruct (upsert_in x l z Hsrcs Hz) as [->|[Hz' Hzne]].
    + rewrite merged_src. cbn [x cd_src].
      destruct (fml_find (h_source h) fml) as [fm0|] eqn:Ff.
      * destruct (fml_find_in _ _ _ Ff) as [Hfm0 Hid0]. eexists. split; [apply (fml_update_has _ _ _ fm0 Hfm0 Hid0 Hnd)|]. cbn [fm_register fmr_identity]. exact Hid0.
      * pose proof (fml_find_none _ _ Ff) as Hnone.
        assert (Hroom : (length fml <? MAX_FOREIGN_MASTERS)%nat = true).
        { destruct (length fml <? MAX_FOREIGN_MASTERS)%nat eqn:E; [reflexivity|]. exfalso.
          unfold MAX_FOREIGN_MASTERS in E. apply Nat.ltb_ge in E.
          assert (Hnd2 : NoDup (map fmr_identity fml ++ [h_source h])).
          { apply NoDup_snoc'; [exact Hnd|]. intros Hin. apply in_map_iff in Hin as (fm & E2 & Hin). exact (Hnone fm Hin E2). }
          assert (Hincl : incl (map fmr_identity fml ++ [h_source h]) (map cd_src (upsert x l))).
          { intros id Hin. apply in_app_or in Hin as [Hin|[<-|[]]].
            - apply in_map_iff in Hin as (fm & <- & Hin). destruct (Hsub fm Hin) as (z0 & Hz0 & Hzs & _). rewrite <- Hzs.
              apply in_map. apply upsert_keeps; [exact Hz0|]. apply pi_eqb_false. rewrite Hzs. apply Hnone. exact Hin.
            - change (h_source h) with (cd_src x). rewrite <- (merged_src x l). apply in_map. apply upsert_merged. }
          pose proof (NoDup_incl_length Hnd2 Hincl) as Hl. rewrite app_length, !map_length in Hl. cbn [length] in Hl. lia. }
        rewrite Hroom. eexists. split; [apply in_or_app; right; left; reflexivity|reflexivity].
    + destruct (Hex z Hz' Hzf) as (fm & Hfm & Hfid). exists fm. split; [|exact Hfid].
      assert (Hne : fmr_identity fm <> h_source h).
      { rewrite Hfid. intros E. change (h_source h) with (cd_src x) in E. rewrite E, pi_eqb_refl in Hzne. discriminate. }
      destruct (fml_find (h_source h) fml); [apply fml_update_keeps; assumption|].
      destruct (_ <? _)%nat; [apply in_or_app; left|]; exact Hfm.
Qed.

(** * what a BMCA run does to the list, whatever it selects: records only get
      fewer, and every record left was there before *)
Definition reset_cands (l : list cand) : list cand :=
  map (fun x => mkCand (cd_src x) (cd_h x) (cd_a x) 0 (cd_travel x)) l.

Definition fm_sub (fm1 fm : foreign_master) : Prop :=
  fmr_identity fm1 = fmr_identity fm /\
  forall m, In m (fmr_msgs fm1) -> exists m', In m' (fmr_msgs fm) /\ fm_header m = fm_header m'.
Definition fml_sub (fml1 fml : list foreign_master) : Prop :=
  forall fm1, In fm1 fml1 -> exists fm, In fm fml /\ fm_sub fm1 fm.

Lemma fm_sub_refl fm : fm_sub fm fm.
Proof. split; [reflexivity|]. intros m Hm. exists m. split; [exact Hm|reflexivity]. Qed.
Lemma fml_sub_refl l : fml_sub l l.
Proof. intros fm H. exists fm. split; [exact H|apply fm_sub_refl]. Qed.
Lemma fm_sub_trans a b c : fm_sub a b -> fm_sub b c -> fm_sub a c.
Proof.
  intros [I1 M1] [I2 M2]. split; [congruence|]. intros m Hm. destruct (M1 m Hm) as (m1 & H1 & E1).
  destruct (M2 m1 H1) as (m2 & H2 & E2). exists m2. split; [exact H2|congruence].
Qed.
Lemma fml_sub_trans a b c : fml_sub a b -> fml_sub b c -> fml_sub a c.
Proof.
  intros H1 H2 fm Hfm. destruct (H1 fm Hfm) as (fm1 & Hin1 & S1). destruct (H2 fm1 Hin1) as (fm2 & Hin2 & S2).
  exists fm2. split; [exact Hin2|eapply fm_sub_trans; eauto].
Qed.

Lemma reset_srcs l : map cd_src (reset_cands l) = map cd_src l.
Proof. unfold reset_cands. rewrite map_map. reflexivity. Qed.

Lemma cp5_reset_sub own acc ti l fml fml1 :
  cp5 own acc ti l fml -> ids_nodup fml1 -> fml_lt ti fml1 -> fml_sub fml1 fml ->
  cp5 own acc ti (reset_cands l) fml1.
Proof.
  intros [Hnd Hlt Hsrcs Hfacts Hsub Hex] Hnd1 Hlt1 Hs. constructor; auto.
  - rewrite reset_srcs. exact Hsrcs.
  - intros x Hx. apply in_map_iff in Hx as (x0 & <- & Hx0). destruct (Hfacts x0 Hx0) as (A & B & C & D & E & F).
    unfold cand_facts. cbn [cd_src cd_h cd_a cd_fresh cd_travel]. repeat split; auto; lia.
  - intros fm1 Hfm1. destruct (Hs fm1 Hfm1) as (fm & Hfm & Hid & Hm). destruct (Hsub fm Hfm) as (x & Hx & Hxs & Hall & _).
    exists (mkCand (cd_src x) (cd_h x) (cd_a x) 0 (cd_travel x)). split; [apply in_map_iff; exists x; split; [reflexivity|exact Hx]|].
    split; [cbn [cd_src]; congruence|]. split; cbn [cd_h cd_fresh cd_travel].
    + intros m Hin. destruct (Hm m Hin) as (m' & Hin' & ->). apply Hall. exact Hin'.
    + intros H. lia.
  - intros x Hx Hf. apply in_map_iff in Hx as (x0 & <- & _). cbn [cd_fresh] in Hf. lia.
Qed.

Lemma take_sub l : fml_sub (fst (fml_take_qualified l)) l.
Proof.
  unfold fml_take_qualified. cbn [fst]. rewrite map_map. intros fm1 H. apply in_map_iff in H as (fm & <- & Hin).
  exists fm. split; [exact Hin|]. unfold fm_take. destruct (_ <=? _)%nat; cbn [fst]; [|apply fm_sub_refl].
  split; [reflexivity|]. cbn [fmr_msgs]. intros m Hm. exists m. split; [|reflexivity].
  destruct (fmr_msgs fm) as [|a l0] eqn:E using rev_ind; [destruct Hm|]. rewrite removelast_last in Hm. apply in_or_app. left. exact Hm.
Qed.

Lemma in_purge ti m msgs : In m (purge_old ti msgs) -> In m msgs.
Proof. unfold purge_old. intros H. apply filter_In in H. apply H. Qed.

Lemma register_sub own ti l1 fml h a age :
  fml_sub l1 fml -> ids_nodup l1 -> ids_nodup fml ->
  (exists fm, In fm fml /\ fmr_identity fm = h_source h /\ exists m', In m' (fmr_msgs fm) /\ fm_header m' = h) ->
  fml_sub (fml_register own ti l1 h a age) fml.
Proof.
  intros Hs Hnd Hndf (fm0 & Hfm0 & Hid0 & m0 & Hm0 & Hh0). unfold fml_register.
  destruct (negb _); [exact Hs|].
  destruct (fml_find (h_source h) l1) as [f1|] eqn:Ff.
  - intros fm' Hfm'.
    destruct (fml_update_in_nd (h_source h) (fun fm => fm_register ti fm h a age) l1 fm' Hnd (fun _ => eq_refl) Hfm') as [[Hin _]|(fm1 & Hin1 & Hid1 & ->)];
      [apply Hs; exact Hin|].
    destruct (Hs fm1 Hin1) as (fm & Hfm & Hid & Hm). exists fm. split; [exact Hfm|]. split; [exact Hid|].
    unfold fm_register. cbn [fmr_msgs]. intros m Hin.
    assert (Hcase : m = mkFMsg h a age \/ In m (fmr_msgs fm1)).
    { destruct (_ <? _)%nat; apply in_app_or in Hin as [Hin|[<-|[]]]; auto; right; [|apply in_tl in Hin]; eapply in_purge; eauto. }
    destruct Hcase as [->|Hin']; [|apply Hm; exact Hin'].
    assert (fm = fm0) by (apply (id_unique fml); auto; congruence). subst fm.
    exists m0. split; [exact Hm0|cbn [fm_header]; symmetry; exact Hh0].
  - destruct (_ <? _)%nat; [|exact Hs]. intros fm' Hfm'. apply in_app_or in Hfm' as [Hin|[<-|[]]]; [apply Hs; exact Hin|].
    exists fm0. split; [exact Hfm0|]. split; [cbn [fmr_identity]; symmetry; exact Hid0|].
    cbn [fmr_msgs]. intros m [<-|[]]. exists m0. split; [exact Hm0|cbn [fm_header]; symmetry; exact Hh0].
Qed.

Lemma step_age_sub ti s l : fml_sub (fml_step_age ti s l) l.
Proof.
  unfold fml_step_age. intros fm1 H. apply filter_In in H as [H _]. apply in_map_iff in H as (fm & <- & Hin).
  exists fm. split; [exact Hin|]. split; [reflexivity|]. unfold fm_step_age. cbn [fmr_msgs]. intros m Hm.
  apply in_purge in Hm. apply in_map_iff in Hm as (m' & <- & Hm'). exists m'. split; [exact Hm'|reflexivity].
Qed.

(** the list a port holds after a BMCA run *)
Lemma take_best_sub own acc ti fml fml1 best :
  bmca_take_best own acc ti fml = Ok (fml1, best) -> ids_nodup fml -> fml_wf own fml -> fml_lt ti fml -> 0 < cutoff_age ti ->
  fml_sub fml1 fml /\ ids_nodup fml1 /\ fml_lt ti fml1.
Proof.
  intros H Hnd Hwf Hlt Hcut. pose proof H as H0. unfold bmca_take_best in H.
  destruct (fml_take_qualified fml) as [l1 taken] eqn:Et.
  assert (Hl1 : l1 = fst (fml_take_qualified fml)) by (rewrite Et; reflexivity).
  assert (Hnd1 : ids_nodup l1) by (unfold ids_nodup; rewrite Hl1, take_ids; exact Hnd).
  assert (Hlt1 : fml_lt ti l1) by (rewrite Hl1; apply fml_take_lt; exact Hlt).
  destruct (find_best _) as [[b|]|?] eqn:Ef; cbn [obind] in H; [| |discriminate].
  - inversion H; subst fml1 best; clear H.
    destruct (erbest_needs_two _ _ _ _ _ _ H0) as (fm & m & Hfm & _ & Hm & Hh & Ha & Hage).
    unfold fml_wf in Hwf. rewrite Forall_forall in Hwf. pose proof (Hwf fm Hfm) as Hfw. unfold fm_wf in Hfw. rewrite Forall_forall in Hfw.
    destruct (Hfw m Hm) as (Hsrc & _).
    unfold fml_lt in Hlt. rewrite Forall_forall in Hlt. pose proof (Hlt fm Hfm) as Hfl. unfold fm_lt in Hfl. rewrite Forall_forall in Hfl.
    unfold bmca_reregister. destruct (_ && _); [|split; [rewrite Hl1; apply take_sub|split; assumption]].
    split; [|split].
    + apply register_sub; [rewrite Hl1; apply take_sub|exact Hnd1|exact Hnd|].
      exists fm. split; [exact Hfm|]. split; [rewrite Hh; exact (eq_sym Hsrc)|]. exists m. split; [exact Hm|symmetry; exact Hh].
    + apply fml_register_nodup. exact Hnd1.
    + apply fml_register_lt; [exact Hcut|rewrite Hage; apply Hfl; exact Hm|exact Hlt1].
  - inversion H; subst fml1 best. split; [rewrite Hl1; apply take_sub|split; assumption].
Qed.

(** * a judged BMCA run: Erbest of a port *)
Definition best_of (own : port_identity) (x : cand) : best_msg := mkBest (cd_h x) (cd_a x) 0 own.

Lemma take_fold_has (taken : list (foreign_master * option foreign_msg)) : forall acc m,
  (In m acc \/ exists x, In x taken /\ snd x = Some m) ->
  In m (fold_left (fun acc x => match snd x with Some y => y :: acc | None => acc end) taken acc).
Proof.
  induction taken as [|x t IH]; intros acc m H; cbn [fold_left].
  - destruct H as [H|(x & [] & _)]. exact H.
  - apply IH. destruct H as [H|(y & [<-|Hy] & Hs)].
    + left. destruct (snd x); [right|]; exact H.
    + left. rewrite Hs. left. reflexivity.
    + right. exists y. split; assumption.
Qed.

Lemma taken_iff l m : In m (snd (fml_take_qualified l)) <-> exists fm, In fm l /\ snd (fm_take fm) = Some m.
Proof.
  unfold fml_take_qualified. cbn [snd]. split.
  - intros H. apply take_fold_in in H as [[]|(x & Hx & Hs)]. apply in_map_iff in Hx as (fm & <- & Hin). exists fm. split; assumption.
  - intros (fm & Hin & Hs). apply take_fold_has. right. exists (fm_take fm). split; [apply in_map; exact Hin|exact Hs].
Qed.

Lemma fm_take_fresh x fm : cand_fm_ok x fm -> 2 <= cd_fresh x -> snd (fm_take fm) = Some (mkFMsg (cd_h x) (cd_a x) 0).
Proof.
  intros [_ H] Hf. destruct (H ltac:(lia)) as [Hl Hn]. unfold fm_take, FOREIGN_MASTER_THRESHOLD.
  assert (E : (2 <=? length (fmr_msgs fm))%nat = true) by (apply Nat.leb_le; lia). rewrite E. exact Hl.
Qed.

Lemma spec_best_spec own l e : spec_best own l = Some e ->
  In e l /\ forall o, In o l -> pi_eqb (cd_src o) (cd_src e) = true \/ a_better_or_topo (fig34 (cds own e) (cds own o)) = true.
Proof.
  unfold spec_best. intros H. apply find_some in H as [H1 H2]. split; [exact H1|]. intros o Ho.
  rewrite forallb_forall in H2. specialize (H2 o Ho). apply orb_true_iff in H2. exact H2.
Qed.

Lemma take_best_judged own acc ti l fml :
  cp5 own acc ti l fml -> (forall x, In x l -> 2 <= cd_fresh x) ->
  (l = [] \/ spec_best own l <> None) ->
  exists fml1, bmca_take_best own acc ti fml = Ok (fml1, option_map (best_of own) (spec_best own l)).
Proof.
  intros [Hnd Hlt Hsrcs Hfacts Hsub Hex] Hfr Hdet. unfold bmca_take_best.
  destruct (fml_take_qualified fml) as [l1 taken] eqn:Et.
  assert (Htk : forall b, In b (map (fun m => mkBest (fm_header m) (fm_ann m) (fm_age m) own) taken) <-> exists x, In x l /\ b = best_of own x).
  { intros b. rewrite in_map_iff. split.
    - intros (m & <- & Hm). assert (Hm' : In m (snd (fml_take_qualified fml))) by (rewrite Et; exact Hm).
      apply taken_iff in Hm' as (fm & Hfm & Hs). destruct (Hsub fm Hfm) as (x & Hx & _ & Hok).
      rewrite (fm_take_fresh x fm Hok (Hfr x Hx)) in Hs. inversion Hs; subst m. exists x. split; [exact Hx|reflexivity].
    - intros (x & Hx & ->). destruct (Hex x Hx ltac:(specialize (Hfr x Hx); lia)) as (fm & Hfm & Hid).
      destruct (Hsub fm Hfm) as (x' & Hx' & Hxs' & Hok).
      assert (x' = x) by (apply (src_unique l); auto; congruence). subst x'.
      exists (mkFMsg (cd_h x) (cd_a x) 0). split; [reflexivity|].
      assert (Hm' : In (mkFMsg (cd_h x) (cd_a x) 0) (snd (fml_take_qualified fml))).
      { apply taken_iff. exists fm. split; [exact Hfm|apply fm_take_fresh; [exact Hok|apply Hfr; exact Hx]]. }
      rewrite Et in Hm'. exact Hm'. }
  destruct (spec_best own l) as [e|] eqn:Es.
  - destruct (spec_best_spec own l e Es) as [He Hall].
    rewrite (find_best_condorcet _ (best_of own e)).
    + cbn [obind option_map]. eexists. reflexivity.
    + apply Htk. exists e. split; [exact He|reflexivity].
    + intros b Hb Hne. apply Htk in Hb as (o & Ho & ->). unfold beats.
      destruct (Hall o Ho) as [E|E]; [|exact E]. exfalso. apply Hne. apply pi_eqb_eq in E.
      rewrite (src_unique l o e Hsrcs Ho He E). reflexivity.
  - destruct Hdet as [->|Hx]; [|contradiction Hx; reflexivity].
    assert (Hnil : taken = []).
    { destruct taken as [|m t]; [reflexivity|]. exfalso.
      destruct (proj1 (Htk _) (or_introl eq_refl)) as (x & [] & _). }
    rewrite Hnil. cbn [map find_best obind option_map]. eexists. reflexivity.
Qed.

(** * the decision applied to one port *)
Definition mp_flag (p : port) : bool := match p_multiport_disable p with Some _ => true | None => false end.

Lemma srpt_code b rs dd b1 : set_recommended_port_state b rs dd = Ok b1 ->
  port_state_code (p_state (bp_port b1)) =
  decided_state (dec_of (Some rs)) (port_state_code (p_state (bp_port b))) (dd_slave_only dd) (mp_flag (bp_port b)).
Proof.
  intros H. unfold set_recommended_port_state, set_forced in H. unfold mp_flag.
  destruct rs as [d0|d0|h a|h a|h a|h a];
    crunch H; cbn [bp_port];
    repeat match goal with E : draw _ = (_, _) |- _ => apply draw_state_eq in E; rewrite E; clear E end;
    cbn [port_with_state p_state];
    repeat match goal with E : p_state _ = _ |- _ => rewrite E end;
    repeat match goal with E : p_multiport_disable _ = _ |- _ => rewrite E end;
    repeat match goal with E : dd_slave_only _ = _ |- _ => rewrite E end;
    try reflexivity.
  all: match goal with |- context [p_state (bp_port ?x)] => destruct (p_state (bp_port x)); cbn in *; try discriminate; try reflexivity end.
Qed.

Definition tp0 : time_props := mkTP None 0 false false true 160.
Definition ds_upd (r : option recommended) (d : inst_ds) : inst_ds :=
  match r with
  | Some (RM1 dd) | Some (RM2 dd) =>
      ds_with d 0 (mkPD (mkPI (dd_clock_identity dd) 0) (dd_clock_identity dd) (dd_quality dd) (dd_prio1 dd) (dd_prio2 dd)) [] tp0
  | Some (RS1 h a) =>
      ds_with d (an_steps_removed a + 1) (mkPD (h_source h) (an_gm_identity a) (an_quality a) (an_prio1 a) (an_prio2 a))
              (ds_path d) (ann_time_props h a)
  | _ => d
  end.

(** what one port looks like after its decision was applied *)
Definition applied (dd : default_ds) (r : option recommended) (b b' : bport) : Prop :=
  p_fml (bp_port b') = p_fml (bp_port b) /\ p_multiport_disable (bp_port b') = p_multiport_disable (bp_port b) /\
  p_config (bp_port b') = p_config (bp_port b) /\ p_identity (bp_port b') = p_identity (bp_port b) /\
  port_state_code (p_state (bp_port b')) =
    decided_state (dec_of r) (port_state_code (p_state (bp_port b))) (dd_slave_only dd) (mp_flag (bp_port b)).

Lemma srs_spec b rs d b' d' : set_recommended_state b rs d = Ok (b', d') ->
  d' = ds_upd (Some rs) d /\ applied (ds_default d) (Some rs) b b'.
Proof.
  intros H. unfold set_recommended_state in H.
  destruct (set_recommended_port_state b rs (ds_default d)) as [b1|?] eqn:E1; cbn [obind] in H; [|discriminate].
  destruct (srpt_fields _ _ _ _ E1) as (F1 & F2 & F3 & F4 & F5). pose proof (srpt_code _ _ _ _ E1) as F6.
  assert (Hb' : bp_port b' = bp_port b1) by (destruct rs; crunch H; reflexivity).
  split.
  - destruct rs; crunch H; cbn [ds_upd]; try reflexivity.
    match goal with E : chk_u _ _ _ = Ok _ |- _ => apply chk_u_val in E; subst end. reflexivity.
  - unfold applied. rewrite Hb'. repeat split; assumption.
Qed.

Lemma ds_upd_default r d : ds_default (ds_upd r d) = ds_default d.
Proof. destruct r as [[]|]; reflexivity. Qed.

Definition rec_of (dd : default_ds) (ebest : option best_msg) (b : bport) : outcome (option recommended) :=
  recommended_state dd ebest (bp_best b) (p_state (bp_port b)).
Definition upd_of (dd : default_ds) (ebest : option best_msg) (d : inst_ds) (b : bport) : inst_ds :=
  match rec_of dd ebest b with Ok r => ds_upd r d | Panic _ => d end.

Lemma listening_code st : is_listening st = (port_state_code st =? 4).
Proof. destruct st; reflexivity. Qed.

Lemma bmca_decide_spec ebest : forall todo done d done' d',
  bmca_decide ebest d todo done = Ok (done', d') ->
  exists tail, done' = done ++ tail /\
    Forall2 (fun b b' => exists r, rec_of (ds_default d) ebest b = Ok r /\ applied (ds_default d) r b b') todo tail /\
    d' = fold_left (upd_of (ds_default d) ebest) todo d.
Proof.
  induction todo as [|b todo IH]; intros done d done' d' H; cbn [bmca_decide] in H.
  - inversion H; subst. exists []. rewrite app_nil_r. split; [reflexivity|]. split; [constructor|reflexivity].
  - destruct (recommended_state _ _ _ _) as [r|?] eqn:Er; cbn [obind] in H; [|discriminate].
    cbn [fold_left]. unfold upd_of at 2. unfold rec_of at 2. rewrite Er.
    destruct r as [rs|].
    + destruct (set_recommended_state b rs d) as [[b' d1]|?] eqn:E; cbn [obind fst snd] in H; [|discriminate].
      destruct (srs_spec _ _ _ _ _ E) as [-> Happ].
      destruct (IH _ _ _ _ H) as (tail & -> & Ht & ->). rewrite ds_upd_default in *.
      exists (b' :: tail). rewrite <- app_assoc. split; [reflexivity|]. split; [|reflexivity].
      constructor; [exists (Some rs); split; [exact Er|exact Happ]|exact Ht].
    + destruct (IH _ _ _ _ H) as (tail & -> & Ht & ->). exists (b :: tail). rewrite <- app_assoc. split; [reflexivity|]. split; [|reflexivity].
      constructor; [|exact Ht]. exists None. split; [exact Er|]. unfold applied.
      repeat split; try reflexivity. unfold decided_state. cbn [dec_of].
      destruct (Z.eqb_spec (port_state_code (p_state (bp_port b))) 2) as [E2|E2]; [exact E2|reflexivity].
Qed.

Lemma bmca_struct i i' o : bmca i = Ok (i', o) ->
  exists step bps ebest bps1 d1 ports,
    bmca_interval_dur (i_log_bmca i) = Ok step /\
    omap_list calc_local_best (i_ports i) = Ok bps /\
    find_best (flat_map (fun b => opt_list (best_for_bmca b)) bps) = Ok ebest /\
    bmca_decide ebest (i_ds i) bps [] = Ok (bps1, d1) /\
    omap_list (fun b => step_announce_age step (bp_port b)) bps1 = Ok ports /\
    i' = mkInst d1 (i_log_bmca i) ports.
Proof.
  unfold bmca. intros H.
  destruct (bmca_interval_dur _) as [step|?] eqn:E0; cbn [obind] in H; [|discriminate].
  destruct (negb _); [discriminate|].
  destruct (omap_list calc_local_best (i_ports i)) as [bps|?] eqn:E1; cbn [obind] in H; [|discriminate].
  destruct (find_best _) as [ebest|?] eqn:E2; cbn [obind] in H; [|discriminate].
  destruct (bmca_decide ebest (i_ds i) bps []) as [[bps1 d1]|?] eqn:E3; cbn [obind] in H; [|discriminate].
  destruct (omap_list _ bps1) as [ports|?] eqn:E4; cbn [obind] in H; [|discriminate].
  inversion H; subst. exists step, bps, ebest, bps1, d1, ports. repeat split; assumption.
Qed.

(** * the oracle state and the instance *)
Definition inv5 (c : pcase) (i : instance) (s : st05) : Prop :=
  length (cands s) = nports c /\
  (evaluable s = true -> forall n pp, nth_error (i_ports i) n = Some pp ->
     p_multiport_disable pp = None /\
     ((length (nth n (cands s) []) <= 8)%nat ->
      cp5 (p_identity pp) (pc_acceptable (p_config pp)) (port_ti pp) (nth n (cands s) []) (p_fml pp))).

Definition reset5 (s : st05) : st05 := mkS5 (map reset_cands (cands s)) (evaluable s).

Lemma nth_map_nil {A B} (f : list A -> list B) (l : list (list A)) n : f [] = [] -> nth n (map f l) [] = f (nth n l []).
Proof. intros Hf. revert n; induction l as [|x l IH]; intros [|n]; cbn; auto. Qed.

Lemma port_identity_of c i n pp : reach_inv c i -> nth_error (i_ports i) n = Some pp -> p_identity pp = port_id c n.
Proof.
  intros [Hi Hclk _ _ _] Hn. destruct Hi as (_ & _ & Hids & _). rewrite (Hids n pp Hn). unfold port_id. rewrite <- Hclk. reflexivity.
Qed.

Lemma F2_len {A B} (R : A -> B -> Prop) l l' : Forall2 R l l' -> length l = length l'.
Proof. induction 1; cbn; congruence. Qed.

(** every BMCA run keeps the coupling, with the counters reset *)
Lemma bmca_inv5 c i s i' o : reach_inv c i -> inv5 c i s -> bmca i = Ok (i', o) -> inv5 c i' (reset5 s).
Proof.
  intros Hr [Hlen Hinv] Hb. split; [unfold reset5; cbn [cands]; rewrite map_length; exact Hlen|].
  cbn [reset5 evaluable cands]. intros Hev n pp' Hn'.
  assert (Hlt : (n < length (i_ports i))%nat).
  { destruct (bmca_struct _ _ _ Hb) as (step & bps & ebest & bps1 & d1 & ports & _ & E1 & _ & E3 & E4 & ->).
    cbn [i_ports] in Hn'. apply (omap_list_rel _ (fun _ _ => True)) in E1; [|auto]. apply (omap_list_rel _ (fun _ _ => True)) in E4; [|auto].
    destruct (bmca_decide_spec _ _ _ _ _ _ E3) as (tail & Ht & F2 & _). cbn [app] in Ht. subst tail.
    apply F2_len in E1, E4, F2. rewrite E1, F2, E4. apply nth_error_Some. rewrite Hn'. discriminate. }
  destruct (nth_error (i_ports i) n) as [pp|] eqn:Hn; [|apply nth_error_None in Hn; lia].
  destruct (bmca_port6 i i' o n pp Hb Hn) as (pp2 & stepd & fml1 & best & iv & Hn2 & _ & Htb & _ & Hf & Hc & Hm & _).
  rewrite Hn' in Hn2. inversion Hn2; subst pp2. destruct (Hinv Hev n pp Hn) as [Hmp Hcp].
  split; [rewrite Hm, Hmp; reflexivity|].
  rewrite (nth_map_nil reset_cands) by reflexivity. unfold reset_cands at 1. rewrite map_length. intros Hl.
  specialize (Hcp Hl).
  assert (Hpi : port_inv pp) by (destruct Hr as [Hi _ _ _ _]; destruct Hi as (Hports & _); rewrite Forall_forall in Hports; apply Hports; eapply nth_error_In; eauto).
  assert (Hla : -7 <= pc_log_announce (p_config pp) <= 7) by (destruct Hpi as ((Hx & _) & _); exact Hx).
  destruct (cutoff_pos pp Hla) as (_ & _ & Hcpos).
  assert (Hwf : fml_wf (p_identity pp) (p_fml pp)) by (destruct Hpi as (_ & _ & _ & _ & (Hw & _) & _); exact Hw).
  destruct (take_best_sub _ _ _ _ _ _ Htb (c5_nodup _ _ _ _ _ Hcp) Hwf (c5_lt _ _ _ _ _ Hcp) Hcpos) as (S1 & N1 & L1).
  assert (Hid : p_identity pp' = p_identity pp).
  { rewrite (port_identity_of c i n pp Hr Hn). apply (port_identity_of c i' n pp'); [|exact Hn'].
    eapply (reach_step c i EvBmca); [exact Hr|exact I|exact Hb]. }
  assert (Hti : port_ti pp' = port_ti pp) by (unfold port_ti; rewrite Hc; reflexivity).
  rewrite Hid, Hc, Hti, Hf.
  apply (cp5_reset_sub _ _ _ _ (p_fml pp)); [exact Hcp|apply fml_step_age_nodup; exact N1|apply fml_step_age_lt|].
  eapply fml_sub_trans; [apply step_age_sub|exact S1].
Qed.

(** * a judged run: Erbest of every port *)
Definition erb (c : pcase) (s : st05) (p : nat) : option cand := spec_best (port_id c p) (nth p (cands s) []).
Definition fresh_ok (s : st05) : bool :=
  forallb (fun l => forallb (fun x => 2 <=? cd_fresh x) l && (length l <=? 8)%nat) (cands s).
Definition det_ports (c : pcase) (s : st05) : bool :=
  forallb (fun p => match nth p (cands s) [] with [] => true | _ => match erb c s p with Some _ => true | None => false end end)
          (all_ports c).

Lemma judged_port c i s n pp :
  reach_inv c i -> inv5 c i s -> evaluable s = true -> fresh_ok s = true -> det_ports c s = true ->
  nth_error (i_ports i) n = Some pp ->
  exists fml1, calc_local_best pp = Ok (mkBP (port_with_fml pp fml1) (option_map (best_of (port_id c n)) (erb c s n)) [] []) /\
               p_multiport_disable pp = None.
Proof.
  intros Hr [Hlen Hinv] Hev Hfr Hdet Hn.
  assert (Hlt : (n < nports c)%nat) by (rewrite <- (ports_len c i Hr); apply nth_error_Some; rewrite Hn; discriminate).
  destruct (Hinv Hev n pp Hn) as [Hmp Hcp].
  assert (Hin : In (nth n (cands s) []) (cands s)) by (apply nth_In; rewrite Hlen; exact Hlt).
  unfold fresh_ok in Hfr. rewrite forallb_forall in Hfr. specialize (Hfr _ Hin). apply andb_true_iff in Hfr as [Hf2 Hl8].
  apply Nat.leb_le in Hl8. specialize (Hcp Hl8). rewrite forallb_forall in Hf2.
  unfold det_ports in Hdet. rewrite forallb_forall in Hdet. specialize (Hdet n ltac:(unfold all_ports; apply in_seq; lia)).
  rewrite (port_identity_of c i n pp Hr Hn) in Hcp.
  destruct (take_best_judged _ _ _ _ _ Hcp) as (fml1 & Htb).
  - intros x Hx. specialize (Hf2 x Hx). lia.
  - fold (erb c s n). destruct (nth n (cands s) []); [left; reflexivity|right]. destruct (erb c s n); [discriminate|discriminate Hdet].
  - exists fml1. split; [|exact Hmp]. unfold calc_local_best. rewrite (port_identity_of c i n pp Hr Hn), Htb. cbn [obind fst snd]. reflexivity.
Qed.

(** * lists indexed by port number *)
Lemma flat_map_ext_in {A B} (f g : A -> list B) l : (forall a, In a l -> f a = g a) -> flat_map f l = flat_map g l.
Proof. induction l as [|x l IH]; intros H; cbn; [reflexivity|]. rewrite (H x (or_introl eq_refl)), IH; [reflexivity|]. intros a Ha. apply H. right. exact Ha. Qed.
Lemma flat_map_index_k {A B} (f : A -> list B) (l : list A) : forall k,
  flat_map (fun p => match nth_error l (p - k) with Some b => f b | None => [] end) (seq k (length l)) = flat_map f l.
Proof.
  induction l as [|a l IH]; intros k; cbn [length seq flat_map]; [reflexivity|].
  rewrite Nat.sub_diag. cbn [nth_error]. f_equal. rewrite <- (IH (S k)). apply flat_map_ext_in. intros p Hp. apply in_seq in Hp.
  replace (p - k)%nat with (S (p - S k)) by lia. reflexivity.
Qed.
Lemma flat_map_index {A B} (f : A -> list B) (l : list A) :
  flat_map f l = flat_map (fun p => match nth_error l p with Some b => f b | None => [] end) (seq 0 (length l)).
Proof. rewrite <- (flat_map_index_k f l 0). apply flat_map_ext_in. intros p _. rewrite Nat.sub_0_r. reflexivity. Qed.
Lemma map_flat_map' {A B C} (f : B -> C) (g : A -> list B) l : map f (flat_map g l) = flat_map (fun x => map f (g x)) l.
Proof. induction l as [|x l IH]; cbn; [reflexivity|]. rewrite map_app, IH. reflexivity. Qed.

Definition tobest (c : pcase) (t : nat * cand) : best_msg := best_of (port_id c (fst t)) (snd t).
Definition usable (c : pcase) (prev : snapshot) (p : nat) : bool :=
  match port_cfg c p with
  | Some pc => negb (pc_master_only pc) && negb (state_of prev p =? 2)
  | None => false
  end.
Definition tagged (c : pcase) (s : st05) (prev : snapshot) : list (nat * cand) :=
  flat_map (fun p => if usable c prev p then match erb c s p with Some x => [(p, x)] | None => [] end else []) (all_ports c).

Lemma code_faulty5 st : (port_state_code st =? 2) = is_faulty st.
Proof. destruct st; reflexivity. Qed.

Lemma judged_bps c i s bps :
  reach_inv c i -> inv5 c i s -> evaluable s = true -> fresh_ok s = true -> det_ports c s = true ->
  omap_list calc_local_best (i_ports i) = Ok bps ->
  length bps = nports c /\
  (forall n pp, nth_error (i_ports i) n = Some pp ->
     exists fml1, nth_error bps n = Some (mkBP (port_with_fml pp fml1) (option_map (best_of (port_id c n)) (erb c s n)) [] []) /\
                  p_multiport_disable pp = None) /\
  flat_map (fun b => opt_list (best_for_bmca b)) bps = map (tobest c) (tagged c s (snapshot_of i)).
Proof.
  intros Hr Hinv Hev Hfr Hdet E1.
  pose proof (omap_list_rel calc_local_best (fun pp b => calc_local_best pp = Ok b) (fun _ _ H => H) _ _ E1) as F.
  pose proof (F2_len _ _ _ F) as Hl. rewrite (ports_len c i Hr) in Hl.
  assert (Hport : forall n pp, nth_error (i_ports i) n = Some pp ->
     exists fml1, nth_error bps n = Some (mkBP (port_with_fml pp fml1) (option_map (best_of (port_id c n)) (erb c s n)) [] []) /\
                  p_multiport_disable pp = None).
  { intros n pp Hn. destruct (MainC09.Forall2_nth _ _ _ F n pp Hn) as (b & Hb & Hcb).
    destruct (judged_port c i s n pp Hr Hinv Hev Hfr Hdet Hn) as (fml1 & Hc & Hmp). rewrite Hc in Hcb. inversion Hcb; subst b.
    exists fml1. split; [exact Hb|exact Hmp]. }
  split; [symmetry; exact Hl|]. split; [exact Hport|].
  rewrite flat_map_index, <- Hl. unfold tagged. rewrite map_flat_map'. unfold all_ports. apply flat_map_ext_in.
  intros p Hp. apply in_seq in Hp.
  destruct (nth_error (i_ports i) p) as [pp|] eqn:Hn; [|apply nth_error_None in Hn; rewrite (ports_len c i Hr) in Hn; lia].
  destruct (Hport p pp Hn) as (fml1 & Hb & _). rewrite Hb. unfold best_for_bmca, usable. cbn [bp_port bp_best].
  rewrite (port_cfg_of c i p pp Hr Hn), (MainC09.state_of_snapshot i p pp Hn), code_faulty5.
  replace (p_config (port_with_fml pp fml1)) with (p_config pp) by (destruct pp; reflexivity).
  replace (p_state (port_with_fml pp fml1)) with (p_state pp) by (destruct pp; reflexivity).
  destruct (pc_master_only (p_config pp)); cbn [orb negb andb]; [reflexivity|].
  destruct (is_faulty (p_state pp)); cbn [negb]; [reflexivity|].
  destruct (erb c s p); reflexivity.
Qed.

(** * a judged run: Ebest *)
Definition ebest_o (c : pcase) (tg : list (nat * cand)) : option (nat * cand) :=
  find (fun e1 => forallb (fun e2 =>
          Nat.eqb (fst e1) (fst e2)
          || a_better_or_topo (fig34 (cds (port_id c (fst e1)) (snd e1)) (cds (port_id c (fst e2)) (snd e2)))) tg) tg.

Lemma tagged_in c s prev p x : In (p, x) (tagged c s prev) -> erb c s p = Some x /\ usable c prev p = true /\ (p < nports c)%nat.
Proof.
  unfold tagged. intros H. apply in_flat_map in H as (q & Hq & Hin). unfold all_ports in Hq. apply in_seq in Hq.
  destruct (usable c prev q) eqn:U; [|destruct Hin]. destruct (erb c s q) eqn:E; [|destruct Hin].
  destruct Hin as [Hin|[]]. inversion Hin; subst. repeat split; auto. lia.
Qed.

Lemma judged_ebest c s prev :
  let tg := tagged c s prev in
  (tg = [] \/ ebest_o c tg <> None) ->
  find_best (map (tobest c) tg) = Ok (option_map (tobest c) (ebest_o c tg)).
Proof.
  intros tg Hdet. destruct (ebest_o c tg) as [e|] eqn:Ee.
  - unfold ebest_o in Ee. apply find_some in Ee as [He Hall]. rewrite forallb_forall in Hall.
    cbn [option_map]. apply find_best_condorcet; [apply in_map; exact He|].
    intros b Hb Hne. apply in_map_iff in Hb as (e2 & <- & He2). specialize (Hall e2 He2). apply orb_true_iff in Hall as [Hq|Hbt].
    + exfalso. apply Hne. apply Nat.eqb_eq in Hq. destruct e as [p x], e2 as [p2 x2]. cbn [fst] in Hq. subst p2.
      destruct (tagged_in _ _ _ _ _ He) as [E1 _]. destruct (tagged_in _ _ _ _ _ He2) as [E2 _]. rewrite E1 in E2. inversion E2. reflexivity.
    + exact Hbt.
  - destruct Hdet as [->|H]; [reflexivity|contradiction H; reflexivity].
Qed.

(** * the oracle's BMCA clause, in named pieces *)
Definition decide_o (c : pcase) (s : st05) (prev : snapshot) (p : nat) : decision :=
  let dd := ds_default (sn_ds prev) in
  let eo := ebest_o c (tagged c s prev) in
  fig33 (cq_class (dd_quality dd)) (cmp_from_own dd)
        (match eo with Some (q, x) => Some (cds (port_id c q) x) | None => None end)
        (match erb c s p with Some x => Some (cds (port_id c p) x) | None => None end)
        (match eo with Some (q, _) => Nat.eqb p q | None => false end)
        (state_of prev p =? 4).
Definition states_ok_o (c : pcase) (s : st05) (prev sn : snapshot) : bool :=
  forallb (fun p => state_of sn p =? decided_state (decide_o c s prev p) (state_of prev p) (dd_slave_only (ds_default (sn_ds prev))) false)
          (all_ports c).
Definition s1_o (c : pcase) (s : st05) (prev : snapshot) : option nat :=
  find (fun p => match decide_o c s prev p with DS1 => negb (state_of prev p =? 2) | _ => false end) (all_ports c).
Definition any_m_o (c : pcase) (s : st05) (prev : snapshot) : bool :=
  existsb (fun p => match decide_o c s prev p with DM1 | DM2 => true | _ => false end) (all_ports c).
Definition ds_ok_o (c : pcase) (s : st05) (prev sn : snapshot) : bool :=
  let ds := sn_ds prev in
  let dd := ds_default ds in
  match s1_o c s prev, ebest_o c (tagged c s prev) with
  | Some p, Some (_, x) =>
      (ds_steps_removed (sn_ds sn) =? an_steps_removed (cd_a x) + 1)
      && pd_eqb (ds_parent (sn_ds sn))
                (mkPD (cd_src x) (an_gm_identity (cd_a x)) (an_quality (cd_a x)) (an_prio1 (cd_a x)) (an_prio2 (cd_a x)))
      && tp_eqb (ds_tp (sn_ds sn)) (tp_of_ann (cd_h x) (cd_a x))
  | _, _ =>
      if any_m_o c s prev then
        (ds_steps_removed (sn_ds sn) =? 0)
        && pd_eqb (ds_parent (sn_ds sn))
                  (mkPD (mkPI (dd_clock_identity dd) 0) (dd_clock_identity dd) (dd_quality dd) (dd_prio1 dd) (dd_prio2 dd))
        && (length (ds_path (sn_ds sn)) =? 0)%nat
      else ds_eqb (sn_ds sn) ds
  end.
Definition determinate_o (c : pcase) (s : st05) (prev : snapshot) : bool :=
  det_ports c s
  && match tagged c s prev with [] => true | _ => match ebest_o c (tagged c s prev) with Some _ => true | None => false end end.

Lemma step_C05_bmca_eq c s prev o sn :
  step_C05 c s prev EvBmca o sn =
  if negb (evaluable s && fresh_ok s) then Some (reset5 s)
  else if negb (determinate_o c s prev) then Some (reset5 s)
  else if states_ok_o c s prev sn && ds_ok_o c s prev sn then Some (reset5 s) else None.
Proof. reflexivity. Qed.

(** * a judged run: decisions, port states, data sets *)
Lemma fig33_excl cl d0 eb er1 s1 l1 er2 s2 l2 :
  fig33 cl d0 eb er1 s1 l1 = DS1 -> fig33 cl d0 eb er2 s2 l2 <> DM1 /\ fig33 cl d0 eb er2 s2 l2 <> DM2.
Proof.
  unfold fig33. intros H. destruct ((1 <=? cl) && (cl <=? 127)).
  - destruct er1 as [e1|], l1; try discriminate H; destruct (b_better_or_topo (fig34 d0 e1)); discriminate H.
  - destruct eb as [g|]; [|destruct er1, l1; discriminate H].
    destruct (b_better_or_topo (fig34 d0 g)); [|destruct er1, l1; discriminate H].
    destruct er2 as [e2|], l2, s2; split; try discriminate; destruct (fig34 g e2); discriminate.
Qed.

Lemma fold_id {A B} (f : A -> B -> A) l : forall a, (forall b, In b l -> forall a, f a b = a) -> fold_left f l a = a.
Proof. induction l as [|b l IH]; intros a H; cbn [fold_left]; [reflexivity|]. rewrite (H b (or_introl eq_refl)). apply IH. intros b' Hb'. apply H. right. exact Hb'. Qed.
Lemma fold_F {A B} (f : A -> B -> A) (F : A -> A) : (forall a, F (F a) = F a) ->
  forall l a, (forall b, In b l -> (forall a, f a b = a) \/ (forall a, f a b = F a)) ->
  (exists b, In b l /\ forall a, f a b = F a) -> fold_left f l a = F a.
Proof.
  intros Hidem.
  assert (Hfix : forall l a, (forall b, In b l -> (forall a, f a b = a) \/ (forall a, f a b = F a)) -> fold_left f l (F a) = F a).
  { induction l as [|b l IH]; intros a H; cbn [fold_left]; [reflexivity|].
    destruct (H b (or_introl eq_refl)) as [E|E]; rewrite E, ?Hidem; apply IH; intros b' Hb'; apply H; right; exact Hb'. }
  induction l as [|b l IH]; intros a H (w & Hw & Ew); [destruct Hw|]. cbn [fold_left].
  destruct Hw as [->|Hw].
  - rewrite Ew. apply Hfix. intros b' Hb'. apply H. right. exact Hb'.
  - destruct (H b (or_introl eq_refl)) as [E|E]; rewrite E.
    + apply IH; [intros b' Hb'; apply H; right; exact Hb'|exists w; split; assumption].
    + apply Hfix. intros b' Hb'. apply H. right. exact Hb'.
Qed.

Lemma nth_error_In' {A} (l : list A) x : In x l -> exists n, nth_error l n = Some x.
Proof. apply In_nth_error. Qed.

Lemma bmca_C05_model c i s i' o :
  reach_inv c i -> inv5 c i s -> bmca i = Ok (i', o) ->
  exists s', step_C05 c s (snapshot_of i) EvBmca o (snapshot_of i') = Some s' /\ inv5 c i' s'.
Proof.
  intros Hr Hinv Hb. pose proof (bmca_inv5 c i s i' o Hr Hinv Hb) as Hinv'.
  assert (Hr' : reach_inv c i') by (eapply (reach_step c i EvBmca); [exact Hr|exact I|exact Hb]).
  rewrite step_C05_bmca_eq.
  destruct (evaluable s && fresh_ok s) eqn:E1; cbn [negb]; [|eexists; split; [reflexivity|exact Hinv']].
  destruct (determinate_o c s (snapshot_of i)) eqn:E2; cbn [negb]; [|eexists; split; [reflexivity|exact Hinv']].
  assert (Hok : states_ok_o c s (snapshot_of i) (snapshot_of i') && ds_ok_o c s (snapshot_of i) (snapshot_of i') = true);
    [|rewrite Hok; eexists; split; [reflexivity|exact Hinv']].
  apply andb_true_iff in E1 as [Hev Hfr]. apply andb_true_iff in E2 as [Hdp Hdt].
  set (prev := snapshot_of i) in *. set (tg := tagged c s prev) in *. set (eo := ebest_o c tg) in *.
  set (dd := ds_default (i_ds i)).
  destruct (bmca_struct _ _ _ Hb) as (step & bps & eb & bps1 & d1 & ports & E0 & Ebps & Eeb & Edec & Eports & Hi').
  destruct (judged_bps c i s bps Hr Hinv Hev Hfr Hdp Ebps) as (Hlen & Hport & Hlist).
  fold prev in Hlist. fold tg in Hlist. rewrite Hlist in Eeb.
  assert (Hdt' : tg = [] \/ eo <> None).
  { destruct tg; [left; reflexivity|right]. destruct eo; [discriminate|discriminate Hdt]. }
  unfold tg in Eeb. rewrite (judged_ebest c s prev Hdt') in Eeb. fold tg in Eeb. fold eo in Eeb. inversion Eeb as [Heb]. clear Eeb.
  destruct (bmca_decide_spec _ _ _ _ _ _ Edec) as (tail & Ht & HF2 & Hd1). cbn [app] in Ht. subst tail. fold dd in HF2, Hd1.
  pose proof (omap_list_rel (fun b => step_announce_age step (bp_port b)) (fun b pp' => p_state pp' = p_state (bp_port b))
                (fun b pp' H => step_announce_age_state _ _ _ H) _ _ Eports) as HF3.
  (* facts about Ebest *)
  assert (Heo : forall q x, eo = Some (q, x) -> erb c s q = Some x /\ usable c prev q = true /\ (q < nports c)%nat).
  { intros q x E. unfold eo, ebest_o in E. apply find_some in E as [E _]. exact (tagged_in _ _ _ _ _ E). }
  (* every port *)
  assert (Hp : forall n, (n < nports c)%nat -> exists pp b b1 pp' r,
            nth_error (i_ports i) n = Some pp /\ nth_error bps n = Some b /\ nth_error bps1 n = Some b1 /\ nth_error ports n = Some pp' /\
            rec_of dd eb b = Ok r /\ dec_of r = decide_o c s prev n /\
            state_of prev n = port_state_code (p_state pp) /\
            state_of (snapshot_of i') n = decided_state (decide_o c s prev n) (state_of prev n) (dd_slave_only dd) false).
  { intros n Hn.
    destruct (nth_error (i_ports i) n) as [pp|] eqn:Hnn; [|apply nth_error_None in Hnn; rewrite (ports_len c i Hr) in Hnn; lia].
    destruct (Hport n pp Hnn) as (fml1 & Hb0 & Hmp).
    set (b := mkBP (port_with_fml pp fml1) (option_map (best_of (port_id c n)) (erb c s n)) [] []) in *.
    destruct (MainC09.Forall2_nth _ _ _ HF2 n b Hb0) as (b1 & Hb1 & r & Hrec & Happ).
    destruct (MainC09.Forall2_nth _ _ _ HF3 n b1 Hb1) as (pp' & Hpp' & Hst).
    exists pp, b, b1, pp', r. repeat (split; [first [reflexivity|assumption]|]).
    assert (Hst0 : p_state (bp_port b) = p_state pp) by (destruct pp; reflexivity).
    assert (Hmp0 : mp_flag (bp_port b) = false) by (unfold mp_flag; replace (p_multiport_disable (bp_port b)) with (p_multiport_disable pp) by (destruct pp; reflexivity); rewrite Hmp; reflexivity).
    assert (Hsn : state_of prev n = port_state_code (p_state pp)) by (apply MainC09.state_of_snapshot; exact Hnn).
    assert (Hdec : dec_of r = decide_o c s prev n).
    { destruct (decision_refines_fig33 dd eb (bp_best b) (p_state (bp_port b))) as (r' & Hr1 & Hr2).
      unfold rec_of in Hrec. rewrite Hrec in Hr1. inversion Hr1; subst r'. rewrite Hr2. unfold decide_o. cbv zeta. fold tg. fold eo.
      change (ds_default (sn_ds prev)) with dd. rewrite <- Heb. cbn [bp_best b].
      f_equal.
      - destruct eo as [[q x]|]; reflexivity.
      - destruct (erb c s n); reflexivity.
      - destruct eo as [[q x]|] eqn:Eeo; cbn [option_map same_best]; [|reflexivity].
        destruct (Heo q x eq_refl) as (Hq & _ & _).
        destruct (Nat.eqb_spec n q) as [->|Hne].
        + rewrite Hq. cbn [option_map]. apply best_eqb_refl.
        + destruct (erb c s n) as [y|]; cbn [option_map]; [|reflexivity].
          unfold best_eqb, tobest, best_of. cbn [b_identity fst]. unfold port_id, pi_eqb. cbn [pi_clock pi_port].
          assert (E : (Z.of_nat q + 1 =? Z.of_nat n + 1) = false) by lia. rewrite E, !andb_false_r. reflexivity.
      - rewrite Hst0, listening_code, Hsn. reflexivity. }
    split; [exact Hdec|]. split; [exact Hsn|].
    destruct Happ as (_ & _ & _ & _ & Hcode). rewrite Hmp0, Hdec, Hst0, <- Hsn in Hcode.
    rewrite (MainC09.state_of_snapshot i' n pp'); [|rewrite Hi'; exact Hpp']. rewrite Hst. exact Hcode. }
  apply andb_true_iff. split.
  - (* the port states *)
    unfold states_ok_o. apply forallb_forall. intros n Hn. unfold all_ports in Hn. apply in_seq in Hn.
    destruct (Hp n ltac:(lia)) as (pp & b & b1 & pp' & r & _ & _ & _ & _ & _ & _ & _ & Hs). fold prev. rewrite Hs.
    change (ds_default (sn_ds prev)) with dd. apply Z.eqb_refl.
  - (* the data sets *)
    assert (Hds' : sn_ds (snapshot_of i') = d1) by (rewrite Hi'; reflexivity).
    assert (Hfold : d1 = fold_left (upd_of dd eb) bps (i_ds i)) by exact Hd1.
    (* the update of a port is determined by its decision *)
    assert (Hupd : forall b, In b bps -> exists n r, (n < nports c)%nat /\ rec_of dd eb b = Ok r /\ dec_of r = decide_o c s prev n /\
                     state_of prev n = port_state_code (p_state (bp_port b)) /\ forall a, upd_of dd eb a b = ds_upd r a).
    { intros b Hb0. destruct (nth_error_In' _ _ Hb0) as (n & Hn).
      assert (Hnl : (n < nports c)%nat) by (rewrite <- Hlen; apply nth_error_Some; rewrite Hn; discriminate).
      destruct (Hp n Hnl) as (pp & b' & b1 & pp' & r & Hnn & Hb' & _ & _ & Hrec & Hdec & Hsn & _). rewrite Hn in Hb'. inversion Hb'; subst b'.
      exists n, r. split; [exact Hnl|]. split; [exact Hrec|]. split; [exact Hdec|]. split.
      - rewrite Hsn. destruct (Hport n pp Hnn) as (fml1 & Hb2 & _). rewrite Hn in Hb2. inversion Hb2. destruct pp; reflexivity.
      - intros a. unfold upd_of. rewrite Hrec. reflexivity. }
    assert (Hall : forall n, (n < nports c)%nat -> exists b r, In b bps /\ rec_of dd eb b = Ok r /\ dec_of r = decide_o c s prev n /\
                     state_of prev n = port_state_code (p_state (bp_port b))).
    { intros n Hn. destruct (Hp n Hn) as (pp & b & b1 & pp' & r & Hnn & Hb0 & _ & _ & Hrec & Hdec & Hsn & _).
      exists b, r. split; [eapply nth_error_In; exact Hb0|]. split; [exact Hrec|]. split; [exact Hdec|].
      rewrite Hsn. destruct (Hport n pp Hnn) as (fml1 & Hb2 & _). rewrite Hb0 in Hb2. inversion Hb2. destruct pp; reflexivity. }
    unfold ds_ok_o. cbv zeta. fold tg. fold eo. rewrite Hds'. change (sn_ds prev) with (i_ds i). fold dd.
    destruct (s1_o c s prev) as [p1|] eqn:Es1.
    + (* some port is recommended S1 *)
      unfold s1_o in Es1. apply find_some in Es1 as [Hp1 Hd1s]. unfold all_ports in Hp1. apply in_seq in Hp1.
      destruct (decide_o c s prev p1) eqn:Edp; try discriminate Hd1s.
      assert (Heo1 : exists q x, eo = Some (q, x)).
      { unfold decide_o in Edp. cbv zeta in Edp. fold tg in Edp. fold eo in Edp. destruct eo as [[q x]|]; [eauto|].
        unfold fig33 in Edp. repeat match type of Edp with context [match ?x with _ => _ end] => destruct x end; discriminate Edp. }
      destruct Heo1 as (q & x & Eeo). rewrite Eeo.
      destruct (Heo q x Eeo) as (Herbq & _ & Hql).
      assert (Hfx : cand_facts (port_id c q) (match port_cfg c q with Some pc => pc_acceptable pc | None => None end) x).
      { destruct (nth_error (i_ports i) q) as [ppq|] eqn:Hnq; [|apply nth_error_None in Hnq; rewrite (ports_len c i Hr) in Hnq; lia].
        destruct Hinv as [Hlc Hinv0]. destruct (Hinv0 Hev q ppq Hnq) as [_ Hcp].
        assert (Hin : In (nth q (cands s) []) (cands s)) by (apply nth_In; rewrite Hlc; exact Hql).
        unfold fresh_ok in Hfr. rewrite forallb_forall in Hfr. specialize (Hfr _ Hin). apply andb_true_iff in Hfr as [_ Hl8]. apply Nat.leb_le in Hl8.
        specialize (Hcp Hl8). rewrite (port_identity_of c i q ppq Hr Hnq) in Hcp. rewrite (port_cfg_of c i q ppq Hr Hnq).
        apply (c5_facts _ _ _ _ _ Hcp). unfold erb in Herbq. apply spec_best_spec in Herbq. apply Herbq. }
      destruct Hfx as (Fsrc & _ & _ & _ & _ & _).
      set (g := tobest c (q, x)). assert (Hebg : eb = Some g) by (rewrite <- Heb, Eeo; reflexivity).
      set (F := ds_upd (Some (RS1 (b_header g) (b_ann g)))).
      assert (HdF : d1 = F (i_ds i)).
      { rewrite Hfold. apply fold_F.
        - intros a. unfold F, ds_upd, ds_with. reflexivity.
        - intros b Hb0. destruct (Hupd b Hb0) as (n & r & Hn & Hrec & Hdec & _ & Hu).
          destruct r as [[d0|d0|h a|h a|h a|h a]|]; try (left; intros a0; rewrite Hu; reflexivity).
          + exfalso. destruct (fig33_excl _ _ _ _ _ _ (match erb c s n with Some x0 => Some (cds (port_id c n) x0) | None => None end)
                                 (match eo with Some (q0, _) => Nat.eqb n q0 | None => false end) (state_of prev n =? 4) Edp) as [X _].
            apply X. fold tg. fold eo. change (fig33 _ _ _ _ _ _) with (decide_o c s prev n). rewrite <- Hdec. reflexivity.
          + exfalso. destruct (fig33_excl _ _ _ _ _ _ (match erb c s n with Some x0 => Some (cds (port_id c n) x0) | None => None end)
                                 (match eo with Some (q0, _) => Nat.eqb n q0 | None => false end) (state_of prev n =? 4) Edp) as [_ X].
            apply X. fold tg. fold eo. change (fig33 _ _ _ _ _ _) with (decide_o c s prev n). rewrite <- Hdec. reflexivity.
          + right. intros a0. rewrite Hu. unfold rec_of in Hrec. destruct (recommended_RS1 _ _ _ _ _ _ Hrec) as (g' & pb & Hg' & _ & _ & -> & ->).
            rewrite Hebg in Hg'. inversion Hg'; subst g'. reflexivity.
        - destruct (Hall p1 ltac:(lia)) as (b & r & Hb0 & Hrec & Hdec & _). exists b. split; [exact Hb0|].
          intros a0. destruct (Hupd b Hb0) as (n & r' & _ & Hrec' & _ & _ & Hu). rewrite Hrec in Hrec'. inversion Hrec'; subst r'. rewrite Hu.
          rewrite Edp in Hdec. destruct r as [[d0|d0|h a|h a|h a|h a]|]; try discriminate Hdec.
          unfold rec_of in Hrec. destruct (recommended_RS1 _ _ _ _ _ _ Hrec) as (g' & pb & Hg' & _ & _ & -> & ->).
          rewrite Hebg in Hg'. inversion Hg'; subst g'. reflexivity. }
      rewrite HdF. unfold F, ds_upd, ds_with, g, tobest, best_of. cbn [b_header b_ann snd ds_steps_removed ds_parent ds_tp].
      rewrite Z.eqb_refl, Fsrc, pd_eqb_refl. change (ann_time_props (cd_h x) (cd_a x)) with (tp_of_ann (cd_h x) (cd_a x)). rewrite tp_eqb_refl. reflexivity.
    + (* no port is recommended S1 *)
      assert (Hnos : forall b, In b bps -> forall h a, rec_of dd eb b <> Ok (Some (RS1 h a))).
      { intros b Hb0 h a Hrec. destruct (Hupd b Hb0) as (n & r & Hn & Hrec' & Hdec & Hsn & _). rewrite Hrec in Hrec'. inversion Hrec'; subst r.
        cbn [dec_of] in Hdec. unfold s1_o in Es1.
        pose proof (find_none _ _ Es1 n ltac:(unfold all_ports; apply in_seq; lia)) as Hf. cbn beta in Hf. rewrite <- Hdec in Hf.
        apply negb_false_iff in Hf. rewrite Hsn, code_faulty5 in Hf.
        (* the S1 port holds Ebest, hence is usable, hence not faulty *)
        unfold rec_of in Hrec. destruct (recommended_RS1 _ _ _ _ _ _ Hrec) as (g' & pb & Hg' & Hpb & Hbe & _ & _).
        destruct eo as [[q x]|] eqn:Eeo; [|rewrite <- Heb in Hg'; discriminate Hg'].
        rewrite <- Heb in Hg'. cbn [option_map] in Hg'. inversion Hg'; subst g'.
        destruct (nth_error_In' _ _ Hb0) as (m & Hm).
        assert (Hml : (m < nports c)%nat) by (rewrite <- Hlen; apply nth_error_Some; rewrite Hm; discriminate).
        destruct (nth_error (i_ports i) m) as [ppm|] eqn:Hnm; [|apply nth_error_None in Hnm; rewrite (ports_len c i Hr) in Hnm; lia].
        destruct (Hport m ppm Hnm) as (fml1 & Hbm & _). rewrite Hm in Hbm. inversion Hbm; subst b. cbn [bp_best bp_port] in *.
        destruct (erb c s m) as [y|]; [|discriminate Hpb]. cbn [option_map] in Hpb. inversion Hpb; subst pb.
        unfold best_eqb, tobest, best_of in Hbe. cbn [b_identity fst] in Hbe. apply andb_true_iff in Hbe as [_ Hpe].
        unfold port_id, pi_eqb in Hpe. cbn [pi_clock pi_port] in Hpe. apply andb_true_iff in Hpe as [_ Hpe].
        assert (q = m) by lia. subst q.
        destruct (Heo m x eq_refl) as (_ & Hus & _). unfold usable in Hus. rewrite (port_cfg_of c i m ppm Hr Hnm) in Hus.
        apply andb_true_iff in Hus as [_ Hus]. apply negb_true_iff in Hus. unfold prev in Hus.
        rewrite (MainC09.state_of_snapshot i m ppm Hnm), code_faulty5 in Hus.
        replace (p_state (port_with_fml ppm fml1)) with (p_state ppm) in Hf by (destruct ppm; reflexivity). congruence. }
      assert (Hgoal : (if any_m_o c s prev
                       then (ds_steps_removed d1 =? 0)
                            && pd_eqb (ds_parent d1) (mkPD (mkPI (dd_clock_identity dd) 0) (dd_clock_identity dd) (dd_quality dd) (dd_prio1 dd) (dd_prio2 dd))
                            && (length (ds_path d1) =? 0)%nat
                       else ds_eqb d1 (i_ds i)) = true).
      { destruct (any_m_o c s prev) eqn:Em.
        - set (F := ds_upd (Some (RM1 dd))).
          assert (HdF : d1 = F (i_ds i)).
          { rewrite Hfold. apply fold_F.
            - intros a. reflexivity.
            - intros b Hb0. destruct (Hupd b Hb0) as (n & r & Hn & Hrec & Hdec & _ & Hu).
              destruct r as [[d0|d0|h a|h a|h a|h a]|]; try (left; intros a0; rewrite Hu; reflexivity).
              + right. intros a0. rewrite Hu. unfold rec_of in Hrec. rewrite (recommended_RM _ _ _ _ _ (or_introl Hrec)). reflexivity.
              + right. intros a0. rewrite Hu. unfold rec_of in Hrec. rewrite (recommended_RM _ _ _ _ _ (or_intror Hrec)). reflexivity.
              + exfalso. exact (Hnos b Hb0 h a Hrec).
            - unfold any_m_o in Em. apply existsb_exists in Em as (n & Hn & Hdm). unfold all_ports in Hn. apply in_seq in Hn.
              destruct (Hall n ltac:(lia)) as (b & r & Hb0 & Hrec & Hdec & _). exists b. split; [exact Hb0|].
              intros a0. destruct (Hupd b Hb0) as (n' & r' & _ & Hrec' & _ & _ & Hu). rewrite Hrec in Hrec'. inversion Hrec'; subst r'. rewrite Hu.
              rewrite <- Hdec in Hdm. destruct r as [[d0|d0|h a|h a|h a|h a]|]; try discriminate Hdm; unfold rec_of in Hrec.
              + rewrite (recommended_RM _ _ _ _ _ (or_introl Hrec)). reflexivity.
              + rewrite (recommended_RM _ _ _ _ _ (or_intror Hrec)). reflexivity. }
          rewrite HdF. unfold F, ds_upd, ds_with. cbn [ds_steps_removed ds_parent ds_path length]. rewrite pd_eqb_refl. reflexivity.
        - assert (HdF : d1 = i_ds i).
          { rewrite Hfold. apply fold_id. intros b Hb0 a0. destruct (Hupd b Hb0) as (n & r & Hn & Hrec & Hdec & _ & Hu). rewrite Hu.
            unfold any_m_o in Em. pose proof (existsb_nth) as _.
            assert (Hnm : match decide_o c s prev n with DM1 | DM2 => true | _ => false end = false).
            { destruct (match decide_o c s prev n with DM1 | DM2 => true | _ => false end) eqn:X; [|reflexivity].
              exfalso. assert (Hex : existsb (fun p => match decide_o c s prev p with DM1 | DM2 => true | _ => false end) (all_ports c) = true).
              { apply existsb_exists. exists n. split; [unfold all_ports; apply in_seq; lia|exact X]. }
              rewrite Hex in Em. discriminate Em. }
            rewrite <- Hdec in Hnm. destruct r as [[d0|d0|h a|h a|h a|h a]|]; try discriminate Hnm; try reflexivity.
            exfalso. exact (Hnos b Hb0 h a Hrec). }
          rewrite HdF. apply ds_eqb_refl. }
      destruct eo as [[q x]|]; exact Hgoal.
Qed.

(** * receiving an Announce: what exactly reaches the foreign-master list *)
Definition loop_m (p : port) (d : inst_ds) (m : message) (a : announce_body) : bool :=
  is_slave (p_state p) && (an_steps_removed a <? 255) && pi_eqb (h_source (m_header m)) (pd_parent (ds_parent d))
  && ds_path_enable d
  && match find_tlv 8 (tlvs_of (m_suffix m)) with
     | Some t => let path := path_of_value (tlv_value t) in
                 (PATH_CAPACITY <? length path)%nat || existsb (fun ci => ci =? dd_clock_identity (ds_default d)) path
     | None => false
     end.

Definition announce_tail (p : port) (d1 : inst_ds) (locks : list obs) (ti : Z) (m : message) (a : announce_body) : hres :=
  let h := m_header m in
  let '(accepted, fml) := bmca_register (p_identity p) (pc_acceptable (p_config p)) ti (p_fml p) h a in
  if accepted then
    let p1 := port_with_fml p fml in
    let '(p2, o) :=
      if (pi_clock (p_identity p1) =? pi_clock (h_source h))
         && (pi_port (h_source h) <? pi_port (p_identity p1))
         && negb (is_faulty (p_state p1))
      then set_forced (port_with_multiport p1 (Some 0)) PPassive
      else (p1, []) in
    let '(k, p3) := draw p2 in
    ret p3 d1 (locks ++ o ++ [AResetAnnounceReceiptTimer (announce_duration_ns (p_config p) k)]
               ++ forward_obs (m_suffix m) (h_source h))
  else ret p d1 locks.

Lemma announce_tail_spec p d1 locks ti m a p' d' o :
  announce_tail p d1 locks ti m a = Ok (p', d', o) ->
  if negb (pi_eqb (h_source (m_header m)) (p_identity p)) && acceptable (pc_acceptable (p_config p)) (pi_clock (h_source (m_header m)))
  then p_fml p' = fml_register (p_identity p) ti (p_fml p) (m_header m) a 0 /\
       (p_multiport_disable p' = p_multiport_disable p \/ pi_clock (p_identity p) = pi_clock (h_source (m_header m)))
  else p_fml p' = p_fml p /\ p_multiport_disable p' = p_multiport_disable p.
Proof.
  unfold announce_tail, bmca_register. cbv zeta.
  destruct (negb (pi_eqb (h_source (m_header m)) (p_identity p)) && acceptable (pc_acceptable (p_config p)) (pi_clock (h_source (m_header m)))) eqn:Eg;
    [|unfold ret; intros H; inversion H; auto].
  unfold set_forced. intros H.
  match type of H with context [if ?c then _ else _] => destruct c eqn:Ec end;
    match type of H with context [draw ?x] => let E := fresh "Ed" in destruct (draw x) as [k p3] eqn:E;
      pose proof (draw_fml _ _ _ E) as Ef; apply draw_mp in E end;
    unfold ret in H; inversion H; subst; rewrite Ef, Ed; cbn [port_with_state port_with_multiport port_with_fml p_fml p_multiport_disable];
    (split; [reflexivity|]).
  - right. apply andb_true_iff in Ec as [Ec _]. apply andb_true_iff in Ec as [E1 _]. cbn [port_with_fml p_identity] in E1. lia.
  - left. reflexivity.
Qed.

Lemma handle_announce_exact p d ti m a p' d' o :
  handle_announce p d ti m a = Ok (p', d', o) ->
  if loop_m p d m a then p' = p
  else exists d1 locks, announce_tail p d1 locks ti m a = Ok (p', d', o).
Proof.
  unfold handle_announce, loop_m. cbv zeta. fold (announce_tail p).
  destruct (is_slave (p_state p)); cbn [andb]; [|intros H; cbn [obind] in H; eexists _, _; exact H].
  destruct (an_steps_removed a <? 255); cbn [andb]; [|intros H; cbn [obind] in H; eexists _, _; exact H].
  destruct (pi_eqb (h_source (m_header m)) (pd_parent (ds_parent d))); cbn [andb]; [|intros H; cbn [obind] in H; eexists _, _; exact H].
  destruct (chk_u site_steps_add 16 (an_steps_removed a + 1)) as [steps|?]; cbn [obind]; [|destruct (ds_path_enable d); discriminate].
  destruct (ds_path_enable d); cbn [andb].
  - destruct (find_tlv 8 (tlvs_of (m_suffix m))) as [t|]; cbn [obind].
    + destruct (PATH_CAPACITY <? length (path_of_value (tlv_value t)))%nat; cbn [orb obind].
      * unfold ret. intros H. inversion H. reflexivity.
      * destruct (existsb _ (path_of_value (tlv_value t))); cbn [obind].
        -- unfold ret. intros H. inversion H. reflexivity.
        -- intros H. eexists _, _; exact H.
    + intros H. eexists _, _; exact H.
  - intros H. eexists _, _; exact H.
Qed.

Lemma recv_announce_eq pp d ti frame m a (h : hres) :
  (h = handle_general_receive pp d ti frame \/ exists ts, h = handle_event_receive pp d ti frame ts) ->
  is_compatible frame = true -> decode frame = ROk m ->
  (h_sdo_id (m_header m) =? dd_sdo_id (ds_default d)) = true -> (h_domain (m_header m) =? dd_domain (ds_default d)) = true ->
  m_body m = BAnnounce a -> h = prepend [rd_lock] (handle_announce pp d ti m a).
Proof.
  intros Hh Ec Ed Es Edm Eb.
  destruct Hh as [->|[ts ->]]; [unfold handle_general_receive|unfold handle_event_receive]; unfold parse_and_filter;
    rewrite Ec, Ed, Es, Edm; cbn [negb andb]; [|rewrite Eb]; unfold handle_general_internal; rewrite Eb; reflexivity.
Qed.

Lemma recv_C05_port c i n pp pp' d' oo frame (h : hres) :
  reach_inv c i -> nth_error (i_ports i) n = Some pp ->
  (h = handle_general_receive pp (i_ds i) (port_ti pp) frame \/ exists ts, h = handle_event_receive pp (i_ds i) (port_ti pp) frame ts) ->
  h = Ok (pp', d', oo) ->
  match cand_of c (snapshot_of i) n frame with
  | Some x => p_fml pp' = fml_register (p_identity pp) (port_ti pp) (p_fml pp) (cd_h x) (cd_a x) 0 /\
              p_multiport_disable pp' = p_multiport_disable pp /\
              x = mkCand (h_source (cd_h x)) (cd_h x) (cd_a x) 1 0 /\
              cand_facts (p_identity pp) (pc_acceptable (p_config pp)) x
  | None => p_fml pp' = p_fml pp /\ (own_announce c frame = false -> p_multiport_disable pp' = p_multiport_disable pp)
  end.
Proof.
  intros Hr Hn Hh H.
  pose proof (port_identity_of c i n pp Hr Hn) as Hid.
  assert (Hclk : pi_clock (p_identity pp) = own_clock c) by (rewrite Hid; reflexivity).
  destruct (cand_of c (snapshot_of i) n frame) as [x|] eqn:Ecand.
  - unfold cand_of, decoded in Ecand.
    destruct (is_compatible frame) eqn:Ec; cbn [negb] in Ecand; [|discriminate].
    destruct (decode frame) as [m|?] eqn:Ed; [|discriminate].
    destruct (m_body m) as [| | | | | | | a| |] eqn:Eb; try discriminate.
    rewrite (port_cfg_of c i n pp Hr Hn) in Ecand. cbn [snapshot_of sn_ds] in Ecand.
    match type of Ecand with (if ?cnd then _ else _) = _ => destruct cnd eqn:Econd end; [|discriminate].
    inversion Ecand; subst x; clear Ecand. cbn [cd_h cd_a].
    repeat (apply andb_true_iff in Econd as [Econd ?]).
    match goal with X : negb (loop_drop _ _ _) = true |- _ => apply negb_true_iff in X; rename X into Eloop end.
    match goal with X : negb (pi_clock _ =? own_clock c) = true |- _ => apply negb_true_iff in X; rename X into Eown end.
    rewrite (recv_announce_eq _ _ _ _ m a h Hh Ec Ed) in H by assumption.
    unfold prepend in H. destruct (handle_announce pp (i_ds i) (port_ti pp) m a) as [[[p1 d1] o2]|?] eqn:Ha; cbn [obind] in H; [|discriminate].
    inversion H; subst p1 d1 oo; clear H.
    pose proof (handle_announce_exact _ _ _ _ _ _ _ _ Ha) as Hex.
    assert (El : loop_m pp (i_ds i) m a = false).
    { unfold loop_drop in Eloop. unfold loop_m. rewrite (MainC09.state_of_snapshot i n pp Hn), MainC09.code_slave in Eloop.
      cbn [snapshot_of sn_ds] in Eloop.
      match goal with X : (an_steps_removed a <? 255) = true |- _ => rewrite X end. rewrite andb_true_r. exact Eloop. }
    rewrite El in Hex. destruct Hex as (d1 & locks & Ht). pose proof (announce_tail_spec _ _ _ _ _ _ _ _ _ Ht) as Hs.
    assert (Hne : pi_eqb (h_source (m_header m)) (p_identity pp) = false).
    { apply pi_eqb_false. intros E. rewrite E, Hclk, Z.eqb_refl in Eown. discriminate. }
    rewrite Hne in Hs. cbn [negb andb] in Hs.
    match goal with X : acceptable _ _ = true |- _ => rewrite X in Hs; rename X into Eacc end.
    destruct Hs as [Hf Hm]. split; [exact Hf|]. split.
    + destruct Hm as [Hm|Hm]; [exact Hm|]. rewrite Hclk in Hm. rewrite <- Hm, Z.eqb_refl in Eown. discriminate.
    + split; [reflexivity|]. unfold cand_facts. cbn [cd_src cd_h cd_a cd_fresh cd_travel]. rewrite Hclk.
      repeat split; auto; lia.
  - destruct (recv_fm pp (i_ds i) (port_ti pp) frame pp' d' oo h Hh H) as [[Hf Hm]|(m & a & o2 & Ec & Ed & Edom & Esdo & Eb & Ha)];
      [split; [exact Hf|intros _; exact Hm]|].
    pose proof (handle_announce_exact _ _ _ _ _ _ _ _ Ha) as Hex.
    destruct (loop_m pp (i_ds i) m a) eqn:El; [subst pp'; split; [reflexivity|intros _; reflexivity]|].
    destruct Hex as (d1 & locks & Ht). pose proof (announce_tail_spec _ _ _ _ _ _ _ _ _ Ht) as Hs.
    destruct (negb (pi_eqb (h_source (m_header m)) (p_identity pp)) && acceptable (pc_acceptable (p_config pp)) (pi_clock (h_source (m_header m)))) eqn:Eg;
      [|destruct Hs as [Hf Hm]; split; [exact Hf|intros _; exact Hm]].
    apply andb_true_iff in Eg as [_ Eacc]. destruct Hs as [Hf Hm].
    (* which of the oracle's conditions failed *)
    unfold cand_of, decoded in Ecand. rewrite Ec, Ed, Eb in Ecand. cbn [negb] in Ecand.
    rewrite (port_cfg_of c i n pp Hr Hn) in Ecand. cbn [snapshot_of sn_ds] in Ecand. rewrite Edom, Esdo, Eacc in Ecand. cbn [andb] in Ecand.
    rewrite andb_true_r in Ecand.
    assert (Hq : fml_qualified (p_identity pp) (p_fml pp) (m_header m) a = false).
    { unfold fml_qualified. rewrite Hclk.
      destruct (pi_clock (h_source (m_header m)) =? own_clock c) eqn:Eown; [reflexivity|]. cbn [negb andb] in Ecand.
      destruct (an_steps_removed a <? 255) eqn:Est.
      - cbn [andb] in Ecand. exfalso. destruct (loop_drop (snapshot_of i) n m) eqn:Eld; [|discriminate Ecand].
        unfold loop_drop in Eld. rewrite (MainC09.state_of_snapshot i n pp Hn), MainC09.code_slave in Eld. cbn [snapshot_of sn_ds] in Eld.
        unfold loop_m in El. rewrite Est, andb_true_r in El. rewrite El in Eld. discriminate.
      - assert (E : (255 <=? an_steps_removed a) = true) by lia. rewrite E. match goal with |- (if ?x then _ else _) = _ => destruct x end; reflexivity. }
    split; [rewrite Hf; apply fml_register_unqualified; exact Hq|].
    intros Hown. destruct Hm as [Hm|Hm]; [exact Hm|]. exfalso.
    unfold own_announce, decoded in Hown. rewrite Ec, Ed, Eb in Hown. cbn [negb] in Hown. rewrite <- Hm, Hclk, Z.eqb_refl in Hown. discriminate.
Qed.

(** * one event *)
Lemma inv5_keep c i i' s :
  reach_inv c i -> reach_inv c i' -> inv5 c i s ->
  (forall q pp', nth_error (i_ports i') q = Some pp' ->
     exists pp, nth_error (i_ports i) q = Some pp /\ p_fml pp' = p_fml pp /\
                p_multiport_disable pp' = p_multiport_disable pp /\ p_config pp' = p_config pp) ->
  inv5 c i' s.
Proof.
  intros Hr Hr' [Hlen Hinv] Hrel. split; [exact Hlen|]. intros Hev q pp' Hq'.
  destruct (Hrel q pp' Hq') as (pp & Hq & Hf & Hm & Hc). destruct (Hinv Hev q pp Hq) as [Hmp Hcp].
  split; [rewrite Hm; exact Hmp|]. intros Hl.
  assert (Hid : p_identity pp' = p_identity pp) by (rewrite (port_identity_of c i q pp Hr Hq); apply (port_identity_of c i' q pp' Hr' Hq')).
  assert (Hti : port_ti pp' = port_ti pp) by (unfold port_ti; rewrite Hc; reflexivity).
  rewrite Hid, Hc, Hti, Hf. exact (Hcp Hl).
Qed.

Lemma update_nth_beyond {A} n (x : A) l : (length l <= n)%nat -> update_nth n x l = l.
Proof. revert n; induction l as [|y l IH]; intros [|n] H; cbn in *; try reflexivity; try lia. rewrite IH by lia. reflexivity. Qed.

Lemma step_C05_model c i s e i' o :
  reach_inv c i -> inv5 c i s -> event_valid e -> step i e = Ok (i', o) ->
  exists s', step_C05 c s (snapshot_of i) e o (snapshot_of i') = Some s' /\ inv5 c i' s'.
Proof.
  intros Hr Hinv He Hs. pose proof (reach_step c i e i' o Hr He Hs) as Hr'.
  pose proof (ports_len c i Hr) as Hlen. pose proof (ports_len c i' Hr') as Hlen'.
  (* the receive events *)
  assert (Hrecv : forall n frame f,
            (forall pp d, f pp d = handle_general_receive pp d (port_ti pp) frame \/
                          exists ts, f pp d = handle_event_receive pp d (port_ti pp) frame ts) ->
            on_port i n f = Ok (i', o) ->
            exists s', match cand_of c (snapshot_of i) n frame with
                       | Some x =>
                           let l := nth n (cands s) [] in
                           if seq_fresh x l then Some (mkS5 (update_nth n (upsert x l) (cands s)) (evaluable s))
                           else Some (mkS5 (cands s) false)
                       | None => Some (mkS5 (cands s) (evaluable s && negb (own_announce c frame)))
                       end = Some s' /\ inv5 c i' s').
  { intros n frame f Hf Hop. destruct Hinv as [Hlc Hinv0].
    destruct (on_port_full i n f i' o Hop) as [(Hnn & ->)|(pp0 & pp0' & d' & oo & Hn & Hh & Hi')].
    - (* no such port *)
      assert (Hge : (length (cands s) <= n)%nat) by (rewrite Hlc, <- Hlen; apply nth_error_None; exact Hnn).
      assert (Hgoal : forall cs ev, cs = cands s -> (ev = true -> evaluable s = true) -> inv5 c i (mkS5 cs ev)).
      { intros cs ev -> Hev. split; [exact Hlc|]. cbn [evaluable cands]. intros E. apply Hinv0. apply Hev. exact E. }
      destruct (cand_of c (snapshot_of i) n frame) as [x|]; cbv zeta.
      + destruct (seq_fresh x (nth n (cands s) [])); eexists; (split; [reflexivity|]); apply Hgoal; auto.
        * apply update_nth_beyond. exact Hge.
        * discriminate.
      + eexists. split; [reflexivity|]. apply Hgoal; [reflexivity|]. intros E. apply andb_true_iff in E. apply E.
    - assert (Hnlt : (n < length (i_ports i))%nat) by (apply nth_error_Some; rewrite Hn; discriminate).
      assert (Hcfg : p_config pp0' = p_config pp0).
      { eapply (step_cfg i e i' o n pp0 pp0'); [apply (ri_inv _ _ Hr)|exact He|exact Hs|exact Hn|].
        subst i'. cbn [i_ports]. rewrite nth_error_update_same by exact Hnlt. reflexivity. }
      assert (Hn' : nth_error (i_ports i') n = Some pp0') by (subst i'; cbn [i_ports]; rewrite nth_error_update_same by exact Hnlt; reflexivity).
      assert (Hid : p_identity pp0' = p_identity pp0) by (rewrite (port_identity_of c i n pp0 Hr Hn); apply (port_identity_of c i' n pp0' Hr' Hn')).
      assert (Hti : port_ti pp0' = port_ti pp0) by (unfold port_ti; rewrite Hcfg; reflexivity).
      pose proof (recv_C05_port c i n pp0 pp0' d' oo frame (f pp0 (i_ds i)) Hr Hn (Hf pp0 (i_ds i)) Hh) as Hrc.
      (* the other ports *)
      assert (Hother : forall q pp', q <> n -> nth_error (i_ports i') q = Some pp' -> nth_error (i_ports i) q = Some pp').
      { intros q pp' Hne Hq'. subst i'. cbn [i_ports] in Hq'. rewrite nth_error_update_other in Hq' by (intros E; apply Hne; symmetry; exact E). exact Hq'. }
      assert (Hpi : port_inv pp0) by (destruct Hr as [Hi _ _ _ _]; destruct Hi as (Hports & _); rewrite Forall_forall in Hports; apply Hports; eapply nth_error_In; eauto).
      assert (Hla : -7 <= pc_log_announce (p_config pp0) <= 7) by (destruct Hpi as ((Hx & _) & _); exact Hx).
      destruct (cutoff_pos pp0 Hla) as (_ & _ & Hcpos).
      destruct (cand_of c (snapshot_of i) n frame) as [x|]; cbv zeta.
      + destruct Hrc as (Hfml & Hmp & Hxeq & Hxf).
        destruct (seq_fresh x (nth n (cands s) [])) eqn:Esf; eexists; (split; [reflexivity|]).
        * split; [cbn [cands]; rewrite update_nth_length; exact Hlc|]. cbn [evaluable cands]. intros Hev q pp' Hq'.
          destruct (Nat.eq_dec q n) as [->|Hne].
          -- rewrite Hn' in Hq'. inversion Hq'; subst pp'. destruct (Hinv0 Hev n pp0 Hn) as [Hm0 Hcp].
             split; [rewrite Hmp; exact Hm0|]. rewrite nth_update_same by (rewrite Hlc, <- Hlen; exact Hnlt). intros Hl.
             assert (Hl0 : (length (nth n (cands s) []) <= 8)%nat).
             { rewrite upsert_length in Hl. destruct (find _ _); lia. }
             rewrite Hid, Hcfg, Hti, Hfml. rewrite Hxeq in Hl, Esf |- *. cbn [cd_h cd_a].
             apply register_cp5; [exact (Hcp Hl0)|exact Hcpos|rewrite <- Hxeq; exact Hxf|exact Esf|exact Hl].
          -- rewrite nth_update_other by (intros E; apply Hne; symmetry; exact E). apply (Hinv0 Hev). apply Hother; assumption.
        * split; [exact Hlc|]. cbn [evaluable]. discriminate.
      + destruct Hrc as (Hfml & Hmp). eexists. split; [reflexivity|].
        split; [exact Hlc|]. cbn [evaluable cands]. intros Hev q pp' Hq'. apply andb_true_iff in Hev as [Hev Hown]. apply negb_true_iff in Hown.
        destruct (Nat.eq_dec q n) as [->|Hne].
        * rewrite Hn' in Hq'. inversion Hq'; subst pp'. destruct (Hinv0 Hev n pp0 Hn) as [Hm0 Hcp].
          split; [rewrite (Hmp Hown); exact Hm0|]. intros Hl. rewrite Hid, Hcfg, Hti, Hfml. exact (Hcp Hl).
        * apply (Hinv0 Hev). apply Hother; assumption. }
  (* the other calls on a port *)
  assert (Hoth : forall n f, on_port i n f = Ok (i', o) ->
            (forall p, keeps_fml p (f p (i_ds i))) -> (forall p, keeps_mp p (f p (i_ds i))) ->
            exists s', Some s = Some s' /\ inv5 c i' s').
  { intros n f Hop Hkf Hkm. exists s. split; [reflexivity|]. apply (inv5_keep c i i' s Hr Hr' Hinv).
    intros q pp' Hq'. destruct (on_port_full i n f i' o Hop) as [(_ & ->)|(pp0 & pp0' & d' & oo & Hn & Hh & Hi')];
      [exists pp'; repeat split; auto|].
    destruct (Nat.eq_dec n q) as [->|Hne].
    - assert (Hpp' : pp' = pp0').
      { subst i'. cbn [i_ports] in Hq'. rewrite nth_error_update_same in Hq' by (apply nth_error_Some; rewrite Hn; discriminate). inversion Hq'; reflexivity. }
      subst pp'. exists pp0. split; [exact Hn|]. split; [eapply Hkf; eauto|]. split; [eapply Hkm; eauto|].
      eapply (step_cfg i e i' o q pp0 pp0'); [apply (ri_inv _ _ Hr)|exact He|exact Hs|exact Hn|exact Hq'].
    - subst i'. cbn [i_ports] in Hq'. rewrite nth_error_update_other in Hq' by exact Hne. exists pp'. repeat split; auto. }
  assert (Hsame : i_ports i' = i_ports i -> exists s', Some s = Some s' /\ inv5 c i' s').
  { intros Hp. exists s. split; [reflexivity|]. apply (inv5_keep c i i' s Hr Hr' Hinv). intros q pp' Hq'. rewrite Hp in Hq'. exists pp'. repeat split; auto. }
  destruct e; cbn [step event_valid step_C05] in *.
  - apply (Hrecv p frame _ (fun pp d => or_intror (ex_intro _ ts eq_refl))). exact Hs.
  - apply (Hrecv p frame _ (fun pp d => or_introl eq_refl)). exact Hs.
  - apply (Hoth p _ Hs); intros pp; [intros p' d' oo Hx; unfold handle_send_timestamp in Hx; destruct ctx;
      [eapply handle_sync_timestamp_fml|eapply handle_delay_timestamp_fml|eapply handle_pdelay_timestamp_fml|eapply handle_pdelay_response_timestamp_fml]; eauto
      |apply send_timestamp_mp].
  - apply (Hoth p _ Hs); intros pp; [apply send_announce_fml|apply send_announce_mp].
  - apply (Hoth p _ Hs); intros pp; [apply send_sync_fml|apply send_sync_mp].
  - apply (Hoth p _ Hs); intros pp; [apply send_delay_request_fml|apply send_delay_request_mp].
  - apply (Hoth p _ Hs); intros pp; [apply receipt_timer_fml|apply receipt_timer_mp].
  - apply (Hoth p _ Hs); intros pp.
    + intros p' d' oo Hx. unfold handle_filter_update_timer, ret in Hx. inversion Hx; reflexivity.
    + intros p' d' oo Hx. unfold handle_filter_update_timer, ret in Hx. inversion Hx; reflexivity.
  - exact (bmca_C05_model c i s i' o Hr Hinv Hs).
  - apply Hsame; inversion Hs; reflexivity.
  - apply Hsame; inversion Hs; reflexivity.
  - apply Hsame; inversion Hs; reflexivity.
Qed.

(** * the walk and the initial state *)
Lemma walk_C05_model c es : forall i s,
  reach_inv c i -> inv5 c i s -> Forall event_valid es ->
  walk (step_C05 c) s (snapshot_of i) es (run i es) = true.
Proof.
  induction es as [|e es IH]; intros i s Hr Hinv Hes; cbn [run walk]; [reflexivity|].
  inversion Hes as [|? ? He Hes']; subst.
  destruct (step_ok i e (ri_inv _ _ Hr) He) as (i1 & o1 & Hs & _). rewrite Hs. cbn [walk].
  destruct (step_C05_model c i s e i1 o1 Hr Hinv He Hs) as (s' & Hst & Hinv'). rewrite Hst.
  apply IH; [eapply reach_step; eauto|exact Hinv'|exact Hes'].
Qed.

(** the complete oracle of C05 accepts the model's own trace, for every valid
    set-up and every valid event list *)
Theorem ok_C05_model s es rel :
  setup_valid s -> Forall event_valid es ->
  exists i o, init s = Ok (i, o) /\ ok_C05 (mkCase s es rel (Some o) (run i es)) = true.
Proof.
  intros Hs Hes. destruct (init_ok s Hs) as (i & o & Hi & _). exists i, o. split; [exact Hi|].
  unfold ok_C05. cbn [pc_events pc_trace]. unfold init_snap. cbn [pc_setup]. rewrite Hi.
  set (c := mkCase s es rel (Some o) (run i es)).
  apply walk_C05_model; [apply reach_init; assumption| |exact Hes].
  split; [cbn [cands]; rewrite map_length; unfold all_ports; rewrite seq_length; reflexivity|].
  cbn [evaluable cands]. intros _ n pp Hn. rewrite (nth_const_gen (@nil cand)).
  assert (Hf : Forall (fun p => p_fml p = [] /\ p_multiport_disable p = None) (i_ports i)).
  { unfold init in Hi. eapply add_ports_fresh; [|exact Hi]. constructor. }
  rewrite Forall_forall in Hf. destruct (Hf pp (nth_error_In _ _ Hn)) as [F1 F2].
  split; [exact F2|]. intros _. rewrite F1. constructor.
  - constructor.
  - constructor.
  - constructor.
  - intros x [].
  - intros fm [].
  - intros x [].
Qed.
