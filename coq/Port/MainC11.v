(** C11 on the model, whole histories (emission part of ok_C11): every Announce
    the model emits, in every history, carries exactly the data sets held at
    emission (grandmaster identity, quality, priorities, stepsRemoved, UTC
    offset, time source, leap / traceability flags). *)
From SV Require Export Port.MainC10 Port.OracleC11.

Definition reflects_C11 (c : pcase) (prev : snapshot) (o : list tobs) : bool :=
  forallb (fun p =>
    forallb (fun x => match decoded (snd x) with
                      | Some m => announce_reflects (sn_ds prev) m
                      | None => true
                      end) (sent_frames (obs_of_port o p))) (all_ports c).

Fixpoint walk_reflects (c : pcase) (prev : snapshot) (rs : list step_result) : bool :=
  match rs with
  | SROk o sn :: rs' => reflects_C11 c prev o && walk_reflects c sn rs'
  | _ => true
  end.
Definition ok_C11_emission (c : pcase) : bool := walk_reflects c (init_snap c) (pc_trace c).

Lemma reflects_model c i e i' o :
  inst_inv i -> event_valid e -> step i e = Ok (i', o) -> reflects_C11 c (snapshot_of i) o = true.
Proof.
  intros Hi He Hs. unfold reflects_C11. apply forallb_forall. intros q _. apply forallb_forall. intros x Hx.
  destruct (step_frames i e i' o Hi He Hs q x Hx) as (p & _ & m & Hd & _ & _ & _ & _ & _ & _ & _ & _ & Hr & _).
  unfold decoded. rewrite Hd. exact Hr.
Qed.

Lemma walk_reflects_model c : forall es i,
  inst_inv i -> Forall event_valid es -> walk_reflects c (snapshot_of i) (run i es) = true.
Proof.
  induction es as [|e es IH]; intros i Hi Hes; cbn [run walk_reflects]; [reflexivity|].
  inversion Hes as [|? ? He Hes']; subst.
  destruct (step_ok i e Hi He) as (i' & o & Hs & Hi' & _). rewrite Hs. cbn [walk_reflects].
  rewrite (reflects_model c i e i' o Hi He Hs). cbn [andb]. apply IH; assumption.
Qed.

Theorem ok_C11_emission_model s es rel :
  setup_valid s -> Forall event_valid es ->
  exists i o, init s = Ok (i, o) /\ ok_C11_emission (mkCase s es rel (Some o) (run i es)) = true.
Proof.
  intros Hs Hes. destruct (init_ok s Hs) as (i & o & Hi & Hinv & _). exists i, o. split; [exact Hi|].
  unfold ok_C11_emission, init_snap. cbn [pc_setup pc_trace]. rewrite Hi. apply walk_reflects_model; assumption.
Qed.

(** the emission conjunct is implied by the full oracle *)
Lemma step_C11_reflects c u prev e o sn : step_C11 c u prev e o sn = Some tt -> reflects_C11 c prev o = true.
Proof.
  unfold step_C11, reflects_C11. cbv zeta.
  match goal with |- (if ?a && ?b && ?c0 then _ else _) = _ -> ?g = true =>
    change g with a; destruct a; [reflexivity|intros H; discriminate H] end.
Qed.

Lemma walk_C11_reflects c : forall es rs u prev,
  walk (step_C11 c) u prev es rs = true -> walk_reflects c prev rs = true.
Proof.
  induction es as [|e es IH]; intros rs u prev H; destruct rs as [|[o sn|] rs]; cbn [walk walk_reflects] in *;
    try reflexivity; try discriminate.
  destruct (step_C11 c u prev e o sn) as [[]|] eqn:E; [|discriminate].
  rewrite (step_C11_reflects _ _ _ _ _ _ E). cbn [andb]. eapply IH. exact H.
Qed.

Theorem ok_C11_implies_emission c : ok_C11 c = true -> ok_C11_emission c = true.
Proof. apply walk_C11_reflects. Qed.
