(** C07 — Traffic from unselected, unacceptable or foreign-domain sources has no effect.
    A case is a pair of runs of the implementation: a base history H and the
    same history with frames inserted at the listed positions.  The run with
    insertions must be observationally identical to the run without. *)
From SV Require Export Port.OracleBase.

Record case07 := mkC07 { c7_base : pcase; c7_ins : pcase; c7_pos : list nat }.

(** the property's classes of traffic that must be ignored, judged on the
    frame and on what the getters showed before the call *)
Definition ignorable (c : pcase) (prev : snapshot) (e : event) : bool :=
  let dd := ds_default (sn_ds prev) in
  let parent := pd_parent (ds_parent (sn_ds prev)) in
  let judge (p : nat) (frame : bytes) : bool :=
    if negb (is_compatible frame) then true else        (* PTP version other than 2 *)
    match decoded frame with
    | None => true                                       (* malformed *)
    | Some m =>
        let h := m_header m in
        if negb ((h_domain h =? dd_domain dd) && (h_sdo_id h =? dd_sdo_id dd)) then true   (* other domain / sdoId *)
        else
          match m_body m with
          | BAnnounce _ =>
              pi_eqb (h_source h) (port_id c p)
              || negb (acceptable (match port_cfg c p with Some pc => pc_acceptable pc | None => None end)
                                  (pi_clock (h_source h)))
          | BSync _ | BFollowUp _ => negb (pi_eqb (h_source h) parent)
          | BDelayResp _ rq => negb (pi_eqb (h_source h) parent) || negb (pi_eqb rq (port_id c p))
          | _ => false
          end
    end in
  match e with
  | EvRecvEvent p frame _ | EvRecvGeneral p frame => judge p frame
  | _ => false
  end.

Definition is_lock (x : tobs) : bool := match snd x with OLock _ _ => true | _ => false end.

(** walk the run with insertions; [k] = index of the current event *)
Fixpoint check07 (c : pcase) (k : nat) (pos : list nat) (prev : snapshot)
         (es : list event) (rs : list step_result) (base : list step_result) : bool :=
  match es, rs with
  | e :: es', SROk o sn :: rs' =>
      if existsb (Nat.eqb k) pos then
        (* an inserted frame: if it is of an ignorable class it must do nothing *)
        if ignorable c prev e then
          forallb is_lock o && snap_eqb sn prev && check07 c (S k) pos sn es' rs' base
        else true                                  (* generator error: not judged *)
      else
        match base with
        | b :: base' => sr_eqb (SROk o sn) b && check07 c (S k) pos sn es' rs' base'
        | [] => false
        end
  | _, SRPanic :: _ => match base with SRPanic :: _ => true | _ => existsb (Nat.eqb k) pos || false end
  | [], [] => match base with [] => true | _ => false end
  | _, _ => false
  end.

Definition ok_C07 (c : case07) : bool :=
  check07 (c7_ins c) 0 (c7_pos c) (init_snap (c7_ins c)) (pc_events (c7_ins c)) (pc_trace (c7_ins c))
          (pc_trace (c7_base c)).

Definition agree_C07 (c : case07) : bool := agree_port (c7_base c) && agree_port (c7_ins c).
Definition kf_C07 (c : case07) : Z := 0.
Definition case := case07.
Definition run_cases := run_cases_gen agree_C07 ok_C07 kf_C07.
