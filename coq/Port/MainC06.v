(** C06, whole histories, the walk conjunct of the oracle [ok_C06]: in every
    history, a port is (or becomes) slave of a parent after a BMCA run only if
    at least two Announces of that parent arrived on it within the foreign-master
    time window (counted in BMCA runs), becomes passive by BMCA only with some
    such master or under the multiport rule, and no call outside a BMCA run makes
    a port slave.  (The liveness half [steady_ok] is evaluated on traces only.) *)
From SV Require Export Port.MainC10b Port.OracleC06 Port.LemmasC06.

(** * exact interval arithmetic for the configured range of log intervals *)
Definition logs : list Z := [-7; -6; -5; -4; -3; -2; -1; 0; 1; 2; 3; 4; 5; 6; 7].

Definition dur_of_log (n : Z) : Z := 1953125 * 2 ^ (n + 41).

Lemma in_logs n : -7 <= n <= 7 -> In n logs.
Proof. intros H. unfold logs. assert (n = -7 \/ n = -6 \/ n = -5 \/ n = -4 \/ n = -3 \/ n = -2 \/ n = -1 \/ n = 0 \/ n = 1 \/ n = 2 \/ n = 3 \/ n = 4 \/ n = 5 \/ n = 6 \/ n = 7) by lia. cbn [In]. intuition auto. Qed.

Definition outZ_eqb (a : outcome Z) (b : Z) : bool := match a with Ok x => x =? b | Panic _ => false end.

Lemma interval_facts n : -7 <= n <= 7 ->
  dur_from_log_interval n = Ok (dur_of_log n) /\ bmca_interval_dur n = Ok (dur_of_log n) /\
  announce_interval_ti n = Ok (dur_of_log n / 2 ^ 16) /\
  cutoff_age (dur_of_log n / 2 ^ 16) = 4 * dur_of_log n /\ 0 < dur_of_log n.
Proof.
  intros H.
  assert (Hall : forallb (fun n => outZ_eqb (dur_from_log_interval n) (dur_of_log n)
                                   && outZ_eqb (bmca_interval_dur n) (dur_of_log n)
                                   && outZ_eqb (announce_interval_ti n) (dur_of_log n / 2 ^ 16)
                                   && (cutoff_age (dur_of_log n / 2 ^ 16) =? 4 * dur_of_log n)
                                   && (0 <? dur_of_log n)) logs = true) by (vm_compute; reflexivity).
  rewrite forallb_forall in Hall. specialize (Hall n (in_logs n H)).
  repeat (apply andb_true_iff in Hall as [Hall ?]).
  unfold outZ_eqb in *.
  destruct (dur_from_log_interval n); [|discriminate]. destruct (bmca_interval_dur n); [|discriminate].
  destruct (announce_interval_ti n); [|discriminate].
  repeat match goal with Hx : (_ =? _) = true |- _ => apply Z.eqb_eq in Hx end.
  subst. repeat split; auto. lia.
Qed.

Lemma dur_of_log_ratio la lb : -7 <= lb <= la -> la <= 7 -> dur_of_log la = 2 ^ (la - lb) * dur_of_log lb.
Proof.
  intros H1 H2. unfold dur_of_log. replace (la + 41) with ((la - lb) + (lb + 41)) by lia.
  rewrite Z.pow_add_r by lia. lia.
Qed.

(** * counting ages below a threshold *)
Definition cntlt (t : Z) (l : list Z) : nat := length (filter (fun x => x <? t) l).
Definition dom (A B : list Z) : Prop := forall t, (cntlt t A <= cntlt t B)%nat.

Lemma cntlt_app t a b : cntlt t (a ++ b) = (cntlt t a + cntlt t b)%nat.
Proof. unfold cntlt. rewrite filter_app, app_length. reflexivity. Qed.
Lemma cntlt_cons t x l : cntlt t (x :: l) = ((if (x <? t)%Z then 1 else 0) + cntlt t l)%nat.
Proof. unfold cntlt. cbn [filter]. destruct (x <? t); reflexivity. Qed.
Lemma cntlt_shift t s l : cntlt t (map (fun x => x + s) l) = cntlt (t - s) l.
Proof.
  unfold cntlt. induction l as [|x l IH]; [reflexivity|]. cbn [map filter].
  replace (x + s <? t) with (x <? t - s) by (destruct (Z.ltb_spec x (t - s)); destruct (Z.ltb_spec (x + s) t); lia || reflexivity).
  destruct (x <? t - s); cbn [length]; rewrite IH; reflexivity.
Qed.
Lemma cntlt_filter t f l : (cntlt t (filter f l) <= cntlt t l)%nat.
Proof.
  unfold cntlt. induction l as [|x l IH]; [cbn; lia|]. cbn [filter].
  destruct (f x); cbn [filter]; destruct (x <? t); cbn [length]; lia.
Qed.
Lemma cntlt_tl t l : (cntlt t (tl l) <= cntlt t l)%nat.
Proof. destruct l as [|x l]; [cbn; lia|]. cbn [tl]. rewrite cntlt_cons. lia. Qed.
Lemma cntlt_removelast_last t l d : l <> [] -> cntlt t (removelast l ++ [last l d]) = cntlt t l.
Proof. intros H. rewrite <- (app_removelast_last d H). reflexivity. Qed.
Lemma cntlt_removelast t l : (cntlt t (removelast l) <= cntlt t l)%nat.
Proof.
  destruct l as [|x l]; [cbn; lia|]. assert (H : x :: l <> []) by discriminate.
  rewrite <- (cntlt_removelast_last t (x :: l) 0 H), cntlt_app. lia.
Qed.
Lemma cntlt_all t l : (forall x, In x l -> x < t) -> cntlt t l = length l.
Proof.
  unfold cntlt. induction l as [|x l IH]; intros H; [reflexivity|]. cbn [filter].
  destruct (Z.ltb_spec x t); [|specialize (H x (or_introl eq_refl)); lia].
  cbn [length]. rewrite IH; [reflexivity|]. intros y Hy. apply H. right. exact Hy.
Qed.

Lemma dom_nil B : dom [] B.
Proof. intros t. cbn. lia. Qed.
Lemma dom_le A' A B : (forall t, (cntlt t A' <= cntlt t A)%nat) -> dom A B -> dom A' B.
Proof. intros H1 H2 t. specialize (H1 t). specialize (H2 t). lia. Qed.
Lemma dom_cons_r A B x : dom A B -> dom A (x :: B).
Proof. intros H t. specialize (H t). rewrite cntlt_cons. lia. Qed.
Lemma dom_snoc_cons A B x : dom A B -> dom (A ++ [x]) (x :: B).
Proof. intros H t. specialize (H t). rewrite cntlt_app, !cntlt_cons. cbn [cntlt filter length]. lia. Qed.
Lemma dom_shift A B s : dom A B -> dom (map (fun x => x + s) A) (map (fun x => x + s) B).
Proof. intros H t. rewrite !cntlt_shift. apply H. Qed.

(** * the oracle's view of one master's arrivals as ages *)
Definition orc_ages (src : port_identity) (now stepd : Z) (l : list arrival) : list Z :=
  map (fun a => (now - ar_run a) * stepd) (filter (fun a => pi_eqb (ar_src a) src) l).

Lemma orc_ages_next src now stepd l : orc_ages src (now + 1) stepd l = map (fun x => x + stepd) (orc_ages src now stepd l).
Proof. unfold orc_ages. rewrite map_map. apply map_ext. intros a. lia. Qed.

Lemma orc_ages_cons src now stepd a l :
  orc_ages src now stepd (a :: l) =
  if pi_eqb (ar_src a) src then (now - ar_run a) * stepd :: orc_ages src now stepd l else orc_ages src now stepd l.
Proof. unfold orc_ages. cbn [filter]. destruct (pi_eqb (ar_src a) src); reflexivity. Qed.

(** recent_from counts at least the arrivals whose age is below the window *)
Lemma recent_count c p l src now stepd :
  0 < stepd ->
  cntlt (window_runs c p * stepd) (orc_ages src now stepd l) = recent_from c p l src now.
Proof.
  intros Hs. unfold cntlt, orc_ages, recent_from, count. induction l as [|a l IH]; [reflexivity|]. cbn [filter].
  destruct (pi_eqb (ar_src a) src); cbn [andb map filter]; [|exact IH].
  replace ((now - ar_run a) * stepd <? window_runs c p * stepd) with (now - ar_run a <? window_runs c p)
    by (destruct (Z.ltb_spec (now - ar_run a) (window_runs c p)); destruct (Z.ltb_spec ((now - ar_run a) * stepd) (window_runs c p * stepd)); nia || reflexivity).
  destruct (now - ar_run a <? window_runs c p); cbn [length]; rewrite IH; reflexivity.
Qed.

(** * the coupling of one port's foreign master list with the arrivals *)
Definition fm_ages (fm : foreign_master) : list Z := map fm_age (fmr_msgs fm).
Definition fm_dom (now stepd : Z) (l : list arrival) (fm : foreign_master) : Prop :=
  dom (fm_ages fm) (orc_ages (fmr_identity fm) now stepd l).
Definition fml_dom (now stepd : Z) (l : list arrival) (fml : list foreign_master) : Prop := Forall (fm_dom now stepd l) fml.
Definition fm_lt (ti : Z) (fm : foreign_master) : Prop := Forall (fun m => fm_age m < cutoff_age ti) (fmr_msgs fm).
Definition fml_lt (ti : Z) (fml : list foreign_master) : Prop := Forall (fm_lt ti) fml.
Definition ids_nodup (fml : list foreign_master) : Prop := NoDup (map fmr_identity fml).

Lemma cntlt_map_filter {A} t (g : A -> Z) f l : (cntlt t (map g (filter f l)) <= cntlt t (map g l))%nat.
Proof.
  unfold cntlt. induction l as [|x l IH]; [cbn; lia|]. cbn [filter map].
  destruct (f x); cbn [map filter]; destruct (g x <? t); cbn [length]; lia.
Qed.

Lemma map_tl' {A B} (f : A -> B) l : map f (tl l) = tl (map f l).
Proof. destruct l; reflexivity. Qed.
Lemma map_removelast' {A B} (f : A -> B) l : map f (removelast l) = removelast (map f l).
Proof. induction l as [|x l IH]; [reflexivity|]. destruct l; [reflexivity|]. cbn [removelast map] in *. rewrite IH. reflexivity. Qed.

Lemma fm_dom_cons now s a l fm : fm_dom now s l fm -> fm_dom now s (a :: l) fm.
Proof. unfold fm_dom. intros H. rewrite orc_ages_cons. destruct (pi_eqb _ _); [apply dom_cons_r|]; exact H. Qed.
Lemma fml_dom_cons now s a l fml : fml_dom now s l fml -> fml_dom now s (a :: l) fml.
Proof. unfold fml_dom. intros H. eapply Forall_impl; [|exact H]. intros fm. apply fm_dom_cons. Qed.

(** registration into an existing record *)
Lemma fm_register_ages t ti fm h a age :
  (cntlt t (fm_ages (fm_register ti fm h a age)) <= cntlt t (fm_ages fm ++ [age]))%nat.
Proof.
  unfold fm_register, fm_ages. cbn [fmr_msgs]. rewrite cntlt_app.
  destruct (_ <? _)%nat; rewrite map_app, cntlt_app; cbn [map fm_age].
  - pose proof (cntlt_map_filter t fm_age (fun m => fm_age m <? cutoff_age ti) (fmr_msgs fm)). unfold purge_old. lia.
  - rewrite map_tl'. pose proof (cntlt_tl t (map fm_age (purge_old ti (fmr_msgs fm)))).
    pose proof (cntlt_map_filter t fm_age (fun m => fm_age m <? cutoff_age ti) (fmr_msgs fm)). unfold purge_old in *. lia.
Qed.

Lemma fm_register_dom_new now s l fm h a a0 ti :
  fm_dom now s l fm -> ar_src a0 = fmr_identity fm -> ar_run a0 = now ->
  fm_dom now s (a0 :: l) (fm_register ti fm h a 0).
Proof.
  unfold fm_dom. intros H Hs Hr. rewrite orc_ages_cons, Hs, pi_eqb_refl, Hr, Z.sub_diag, Z.mul_0_l.
  cbn [fm_register fmr_identity]. eapply dom_le; [intros t; apply fm_register_ages|]. apply dom_snoc_cons. exact H.
Qed.

Lemma fml_update_in id f l x : In x (fml_update id f l) -> In x l \/ exists y, In y l /\ fmr_identity y = id /\ x = f y.
Proof.
  induction l as [|y l IH]; cbn [fml_update]; [intros []|].
  destruct (pi_eqb (fmr_identity y) id) eqn:E.
  - intros [<-|H]; [right; exists y; split; [left; reflexivity|split; [apply pi_eqb_eq; exact E|reflexivity]]|left; right; exact H].
  - intros [<-|H]; [left; left; reflexivity|]. destruct (IH H) as [H1|(z & Hz & Hi & Hx)]; [left; right; exact H1|right; exists z; split; [right; exact Hz|split; assumption]].
Qed.

Lemma fml_find_none id l : fml_find id l = None -> forall fm, In fm l -> fmr_identity fm <> id.
Proof.
  induction l as [|y l IH]; cbn [fml_find]; [intros _ fm []|].
  destruct (pi_eqb (fmr_identity y) id) eqn:E; [discriminate|]. intros H fm [<-|Hin].
  - intros Hx. rewrite Hx, pi_eqb_refl in E. discriminate.
  - apply IH; assumption.
Qed.

Lemma fml_register_dom_new now s l fml own ti h a a0 :
  fml_dom now s l fml -> ar_src a0 = h_source h -> ar_run a0 = now ->
  fml_dom now s (a0 :: l) (fml_register own ti fml h a 0).
Proof.
  intros H Hs Hr. unfold fml_register.
  destruct (negb (fml_qualified own fml h a)); [apply fml_dom_cons; exact H|].
  destruct (fml_find (h_source h) fml) as [fm0|] eqn:Ef.
  - unfold fml_dom. apply Forall_forall. intros x Hx. unfold fml_dom in H. rewrite Forall_forall in H.
    destruct (fml_update_in _ _ _ _ Hx) as [Hin|(y & Hy & Hid & ->)].
    + apply fm_dom_cons. apply H. exact Hin.
    + apply fm_register_dom_new; [apply H; exact Hy|rewrite Hs, Hid; reflexivity|exact Hr].
  - destruct (_ <? _)%nat; [|apply fml_dom_cons; exact H].
    unfold fml_dom. apply Forall_app. split; [apply fml_dom_cons; exact H|]. constructor; [|constructor].
    unfold fm_dom. cbn [fmr_identity fm_ages fmr_msgs map fm_age]. rewrite orc_ages_cons, Hs, pi_eqb_refl, Hr, Z.sub_diag, Z.mul_0_l.
    change [0] with ([] ++ [0]). apply dom_snoc_cons. apply dom_nil.
Qed.

(** ageing at the end of a BMCA run *)
Lemma fml_step_age_dom now s l ti fml :
  fml_dom now s l fml -> fml_dom (now + 1) s l (fml_step_age ti s fml).
Proof.
  unfold fml_dom, fml_step_age. intros H. apply Forall_filter. apply Forall_forall. intros x Hx.
  apply in_map_iff in Hx. destruct Hx as (fm & <- & Hin). rewrite Forall_forall in H. specialize (H fm Hin).
  unfold fm_dom, fm_step_age, fm_ages in *. cbn [fmr_identity fmr_msgs]. rewrite orc_ages_next.
  eapply dom_le; [|apply dom_shift; exact H].
  intros t. unfold purge_old. etransitivity; [apply cntlt_map_filter|]. rewrite !map_map. cbn [fm_age]. apply Nat.le_refl.
Qed.

(** the qualified messages are taken ... *)
Lemma fml_take_dom now s l fml : fml_dom now s l fml -> fml_dom now s l (fst (fml_take_qualified fml)).
Proof.
  unfold fml_dom, fml_take_qualified. cbn [fst]. intros H. rewrite map_map. apply Forall_forall. intros x Hx.
  apply in_map_iff in Hx. destruct Hx as (fm & <- & Hin). rewrite Forall_forall in H. specialize (H fm Hin).
  unfold fm_take. destruct (_ <=? _)%nat; cbn [fst]; [|exact H].
  unfold fm_dom, fm_ages in *. cbn [fmr_identity fmr_msgs]. eapply dom_le; [|exact H].
  intros t. rewrite map_removelast'. apply cntlt_removelast.
Qed.

(** ... and the best one is put back with its age *)
Lemma fm_take_last fm m : snd (fm_take fm) = Some m ->
  (2 <= length (fmr_msgs fm))%nat /\ fmr_msgs fm = removelast (fmr_msgs fm) ++ [m] /\
  fst (fm_take fm) = mkFM (fmr_identity fm) (removelast (fmr_msgs fm)).
Proof.
  unfold fm_take, FOREIGN_MASTER_THRESHOLD.
  destruct (Nat.leb_spec 2 (length (fmr_msgs fm))) as [Hle|Hlt]; cbn [fst snd]; [|discriminate].
  intros H. split; [exact Hle|]. split; [|reflexivity].
  destruct (fmr_msgs fm) as [|a l] eqn:El using rev_ind; [cbn in Hle; lia|].
  clear IHl. rewrite map_app in H. cbn [map] in H. rewrite last_last in H. inversion H; subst.
  rewrite removelast_last. reflexivity.
Qed.

Lemma update_unique id f l fm (Q : foreign_master -> Prop) :
  ids_nodup l -> In fm l -> fmr_identity fm = id ->
  (forall x, In x l -> x <> fm -> Q x) -> Q (f fm) -> Forall Q (fml_update id f l).
Proof.
  unfold ids_nodup. induction l as [|y l IH]; intros Hnd Hin Hid Hoth Hq; [destruct Hin|].
  cbn [map] in Hnd. inversion Hnd as [|? ? Hni Hnd']; subst. cbn [fml_update].
  destruct (pi_eqb (fmr_identity y) (fmr_identity fm)) eqn:E.
  - apply pi_eqb_eq in E.
    assert (Hy : y = fm).
    { destruct Hin as [->|Hin]; [reflexivity|]. exfalso. apply Hni. rewrite E. apply in_map. exact Hin. }
    subst y. constructor; [exact Hq|]. apply Forall_forall. intros x Hx. apply Hoth; [right; exact Hx|].
    intros ->. apply Hni. apply in_map. exact Hx.
  - assert (Hy : y <> fm) by (intros ->; rewrite pi_eqb_refl in E; discriminate).
    destruct Hin as [->|Hin]; [contradiction Hy; reflexivity|].
    constructor; [apply Hoth; [left; reflexivity|exact Hy]|].
    apply IH; auto. intros x Hx Hne. apply Hoth; [right; exact Hx|exact Hne].
Qed.

Lemma fml_find_some id l fm : In fm l -> fmr_identity fm = id -> exists fm', fml_find id l = Some fm'.
Proof.
  induction l as [|y l IH]; intros Hin Hid; [destruct Hin|]. cbn [fml_find].
  destruct (pi_eqb (fmr_identity y) id) eqn:E; [eexists; reflexivity|].
  destruct Hin as [->|Hin]; [rewrite Hid, pi_eqb_refl in E; discriminate|]. apply IH; assumption.
Qed.

Lemma take_ids l : map fmr_identity (fst (fml_take_qualified l)) = map fmr_identity l.
Proof.
  unfold fml_take_qualified. cbn [fst]. rewrite !map_map. apply map_ext. intros fm.
  unfold fm_take. destruct (_ <=? _)%nat; reflexivity.
Qed.

Lemma fml_reregister_dom now s l fml own acc ti fm m :
  fml_dom now s l fml -> ids_nodup fml -> In fm fml -> snd (fm_take fm) = Some m ->
  h_source (fm_header m) = fmr_identity fm ->
  fml_dom now s l (bmca_reregister own acc ti (fst (fml_take_qualified fml)) (fm_header m) (fm_ann m) (fm_age m)).
Proof.
  intros Hd Hnd Hin Ht Hsrc. pose proof (fml_take_dom now s l fml Hd) as Hd1.
  unfold bmca_reregister. destruct (_ && _); [|exact Hd1].
  unfold fml_register. destruct (negb _); [exact Hd1|].
  destruct (fm_take_last fm m Ht) as (Hlen & Hmsgs & Hfst).
  set (l1 := fst (fml_take_qualified fml)) in *.
  assert (Hin1 : In (fst (fm_take fm)) l1).
  { unfold l1, fml_take_qualified. cbn [fst]. rewrite map_map. apply in_map_iff. exists fm. split; [reflexivity|exact Hin]. }
  assert (Hid1 : fmr_identity (fst (fm_take fm)) = h_source (fm_header m)) by (rewrite Hfst, Hsrc; reflexivity).
  destruct (fml_find_some _ _ _ Hin1 Hid1) as (fm' & Ef). rewrite Ef.
  unfold fml_dom. apply (update_unique _ _ l1 (fst (fm_take fm))); [unfold ids_nodup, l1; rewrite take_ids; exact Hnd|exact Hin1|exact Hid1| |].
  - intros x Hx _. unfold fml_dom in Hd1. rewrite Forall_forall in Hd1. apply Hd1. exact Hx.
  - unfold fml_dom in Hd. rewrite Forall_forall in Hd. specialize (Hd fm Hin).
    unfold fm_dom in *. cbn [fm_register fmr_identity]. rewrite Hfst. cbn [fmr_identity].
    eapply dom_le; [|exact Hd]. intros t. etransitivity; [apply fm_register_ages|].
    unfold fm_ages. cbn [fmr_msgs]. rewrite Hmsgs at 2. rewrite map_app. cbn [map]. apply Nat.le_refl.
Qed.

(** ages stay below the cut-off *)
Lemma purge_lt ti msgs : Forall (fun m => fm_age m < cutoff_age ti) (purge_old ti msgs).
Proof. unfold purge_old. apply Forall_forall. intros m Hm. apply filter_In in Hm. destruct Hm as [_ Hm]. lia. Qed.

Lemma fm_register_lt ti fm h a age : age < cutoff_age ti -> fm_lt ti (fm_register ti fm h a age).
Proof.
  intros Ha. unfold fm_lt, fm_register. cbn [fmr_msgs]. pose proof (purge_lt ti (fmr_msgs fm)) as Hp.
  destruct (_ <? _)%nat; apply Forall_app; (split; [|constructor; [exact Ha|constructor]]); [exact Hp|apply Forall_tl; exact Hp].
Qed.

Lemma fml_register_lt own ti l h a age : 0 < cutoff_age ti -> age < cutoff_age ti -> fml_lt ti l -> fml_lt ti (fml_register own ti l h a age).
Proof.
  intros Hc Ha H. unfold fml_register. destruct (negb _); [exact H|].
  destruct (fml_find _ _).
  - unfold fml_lt. apply Forall_forall. intros x Hx. unfold fml_lt in H. rewrite Forall_forall in H.
    destruct (fml_update_in _ _ _ _ Hx) as [Hin|(y & Hy & _ & ->)]; [apply H; exact Hin|apply fm_register_lt; exact Ha].
  - destruct (_ <? _)%nat; [|exact H]. apply Forall_app. split; [exact H|]. constructor; [|constructor].
    unfold fm_lt. cbn [fmr_msgs]. constructor; [cbn; exact Hc|constructor].
Qed.

Lemma fml_step_age_lt ti s l : fml_lt ti (fml_step_age ti s l).
Proof.
  unfold fml_lt, fml_step_age. apply Forall_filter. apply Forall_forall. intros x Hx.
  apply in_map_iff in Hx. destruct Hx as (fm & <- & _). unfold fm_lt, fm_step_age. cbn [fmr_msgs]. apply purge_lt.
Qed.

Lemma fml_take_lt ti l : fml_lt ti l -> fml_lt ti (fst (fml_take_qualified l)).
Proof.
  unfold fml_lt, fml_take_qualified. cbn [fst]. intros H. rewrite map_map. apply Forall_forall. intros x Hx.
  apply in_map_iff in Hx. destruct Hx as (fm & <- & Hin). rewrite Forall_forall in H. specialize (H fm Hin).
  unfold fm_take. destruct (_ <=? _)%nat; cbn [fst]; [|exact H]. unfold fm_lt in *. cbn [fmr_msgs]. apply removelast_Forall. exact H.
Qed.

(** identities stay distinct *)
Lemma fml_update_ids id f l : (forall fm, fmr_identity (f fm) = fmr_identity fm) ->
  map fmr_identity (fml_update id f l) = map fmr_identity l.
Proof.
  intros Hf. induction l as [|y l IH]; [reflexivity|]. cbn [fml_update]. destruct (pi_eqb _ _); cbn [map]; rewrite ?Hf, ?IH; reflexivity.
Qed.

Lemma NoDup_snoc' {A} (l : list A) x : NoDup l -> ~ In x l -> NoDup (l ++ [x]).
Proof.
  induction l as [|y l IH]; intros Hn Hx; [constructor; [intros []|constructor]|].
  inversion Hn as [|? ? Hy Hn']; subst. cbn [app]. constructor.
  - intros Hin. apply in_app_or in Hin. destruct Hin as [Hin|[<-|[]]]; [contradiction|]. apply Hx. left. reflexivity.
  - apply IH; [exact Hn'|]. intros Hin. apply Hx. right. exact Hin.
Qed.

Lemma fml_register_nodup own ti l h a age : ids_nodup l -> ids_nodup (fml_register own ti l h a age).
Proof.
  unfold ids_nodup. intros H. unfold fml_register. destruct (negb _); [exact H|].
  destruct (fml_find (h_source h) l) eqn:Ef.
  - rewrite fml_update_ids; [exact H|reflexivity].
  - destruct (_ <? _)%nat; [|exact H]. rewrite map_app. cbn [map fmr_identity].
    apply NoDup_snoc'; [exact H|]. intros Hin. apply in_map_iff in Hin. destruct Hin as (fm & Hid & Hin).
    exact (fml_find_none _ _ Ef fm Hin Hid).
Qed.

Lemma NoDup_map_filter {A B} (h : A -> B) f l : NoDup (map h l) -> NoDup (map h (filter f l)).
Proof.
  induction l as [|x l IH]; intros H; [constructor|]. cbn [map] in H. inversion H as [|? ? Hx Hn]; subst.
  cbn [filter]. destruct (f x); [|apply IH; exact Hn]. cbn [map]. constructor; [|apply IH; exact Hn].
  intros Hin. apply Hx. apply in_map_iff in Hin. destruct Hin as (y & Hy & Hin). apply filter_In in Hin.
  rewrite <- Hy. apply in_map. apply Hin.
Qed.

Lemma fml_step_age_nodup ti s l : ids_nodup l -> ids_nodup (fml_step_age ti s l).
Proof.
  unfold ids_nodup, fml_step_age. intros H. apply NoDup_map_filter. rewrite map_map. cbn [fm_step_age fmr_identity]. exact H.
Qed.

(** * the multiport age is only touched by the Announce handler and the BMCA *)
Definition keeps_mp (p : port) (r : hres) : Prop :=
  forall p' d' o, r = Ok (p', d', o) -> p_multiport_disable p' = p_multiport_disable p.

Lemma draw_mp x z y : draw x = (z, y) -> p_multiport_disable y = p_multiport_disable x.
Proof. unfold draw. destruct (p_rng x); intros E; inversion E; reflexivity. Qed.

Lemma htm_mp p d : keeps_mp p (handle_time_measurement p d).
Proof.
  unfold keeps_mp, handle_time_measurement. intros p' d' o H.
  destruct (extract_measurement p) as [[[p1 om] o1]|?] eqn:E; cbn [obind] in H; [|discriminate].
  assert (H1 : p_multiport_disable p1 = p_multiport_disable p).
  { unfold extract_measurement, set_forced in E. crunch E;
      repeat match goal with Ex : (if ?c then _ else _) = (_, _) |- _ => destruct c; inversion Ex; subst; clear Ex end; reflexivity. }
  destruct om as [m|]; [destruct (filter_mean_delay m)|]; unfold ret in H; inversion H; subst; exact H1.
Qed.

Ltac mp_tac H :=
  crunch H;
  repeat match goal with E : draw _ = (_, _) |- _ => apply draw_mp in E end;
  repeat match goal with E : p_multiport_disable _ = _ |- _ => rewrite E end;
  cbn [set_slave port_with_state port_with_peer port_with_seqs port_with_fml p_multiport_disable];
  first [ reflexivity
        | match goal with Hx : handle_time_measurement ?q ?dd = Ok _ |- _ => rewrite (htm_mp q dd _ _ _ Hx); reflexivity end
        | match goal with Hx : go_faulty ?q ?dd = Ok _ |- _ => unfold go_faulty, set_forced, ret in Hx; inversion Hx; subst; reflexivity end ].

Lemma handle_sync_mp p d h w t : keeps_mp p (handle_sync p d h w t).
Proof. unfold keeps_mp, handle_sync. intros p' d' o H. mp_tac H. Qed.
Lemma handle_follow_up_mp p d h w : keeps_mp p (handle_follow_up p d h w).
Proof. unfold keeps_mp, handle_follow_up. intros p' d' o H. mp_tac H. Qed.
Lemma handle_delay_resp_mp p d h w r : keeps_mp p (handle_delay_resp p d h w r).
Proof. unfold keeps_mp, handle_delay_resp. intros p' d' o H. mp_tac H. Qed.
Lemma handle_delay_timestamp_mp p d id t : keeps_mp p (handle_delay_timestamp p d id t).
Proof. unfold keeps_mp, handle_delay_timestamp. intros p' d' o H. mp_tac H. Qed.
Lemma handle_pdelay_timestamp_mp p d id t : keeps_mp p (handle_pdelay_timestamp p d id t).
Proof. unfold keeps_mp, handle_pdelay_timestamp. intros p' d' o H. mp_tac H. Qed.
Lemma handle_peer_delay_response_mp p d h w r t : keeps_mp p (handle_peer_delay_response p d h w r t).
Proof. unfold keeps_mp, handle_peer_delay_response. intros p' d' o H. mp_tac H. Qed.
Lemma handle_peer_delay_follow_up_mp p d h w r : keeps_mp p (handle_peer_delay_follow_up p d h w r).
Proof. unfold keeps_mp, handle_peer_delay_follow_up. cbv zeta. intros p' d' o H. mp_tac H. Qed.
Lemma send_sync_mp p d : keeps_mp p (send_sync p d).
Proof. unfold keeps_mp, send_sync. intros p' d' o H. mp_tac H. Qed.
Lemma handle_sync_timestamp_mp p d id ts : keeps_mp p (handle_sync_timestamp p d id ts).
Proof. unfold keeps_mp, handle_sync_timestamp. intros p' d' o H. mp_tac H. Qed.
Lemma handle_delay_req_mp p d h ts : keeps_mp p (handle_delay_req p d h ts).
Proof. unfold keeps_mp, handle_delay_req. intros p' d' o H. mp_tac H. Qed.
Lemma handle_pdelay_req_mp p d h ts : keeps_mp p (handle_pdelay_req p d h ts).
Proof. unfold keeps_mp, handle_pdelay_req. intros p' d' o H. mp_tac H. Qed.
Lemma handle_pdelay_response_timestamp_mp p d id rq ts : keeps_mp p (handle_pdelay_response_timestamp p d id rq ts).
Proof. unfold keeps_mp, handle_pdelay_response_timestamp. intros p' d' o H. mp_tac H. Qed.
Lemma send_delay_request_mp p d : keeps_mp p (send_delay_request p d).
Proof. unfold keeps_mp, send_delay_request. intros p' d' o H. mp_tac H. Qed.
Lemma send_announce_mp p d q : keeps_mp p (send_announce p d q).
Proof.
  unfold keeps_mp, send_announce. intros p' d' o H. destruct (is_master (p_state p)); [|unfold ret in H; inversion H; reflexivity].
  match type of H with context [let '(a, b) := ?X in _] => destruct X as [pb m1] end.
  destruct (announce_tlv_loop _ _ _ _ _ _ _) as [[sfx locks]|?]; cbn [obind] in H; [|discriminate].
  destruct (serialize_packet _); cbn [obind] in H; [|discriminate]. unfold ret in H. inversion H; reflexivity.
Qed.
Lemma receipt_timer_mp p d : keeps_mp p (handle_announce_receipt_timer p d).
Proof.
  unfold keeps_mp, handle_announce_receipt_timer, set_forced. intros p' d' o H.
  repeat match type of H with
  | context [draw ?x] => let E := fresh "Ed" in destruct (draw x) as [? ?] eqn:E; apply draw_mp in E
  | context [if ?c then _ else _] => let E := fresh "Ec" in destruct c eqn:E
  end; unfold ret in H; inversion H; subst;
  repeat match goal with E : p_multiport_disable _ = _ |- _ => rewrite E end; reflexivity.
Qed.
Lemma send_timestamp_mp p d c ts : keeps_mp p (handle_send_timestamp p d c ts).
Proof.
  unfold keeps_mp, handle_send_timestamp. intros p' d' o H. destruct c.
  - eapply handle_sync_timestamp_mp; eauto.
  - eapply handle_delay_timestamp_mp; eauto.
  - eapply handle_pdelay_timestamp_mp; eauto.
  - eapply handle_pdelay_response_timestamp_mp; eauto.
Qed.

(** * what the Announce handler does to the list and the multiport age *)
Lemma handle_announce_fm p d ti m a p' d' o :
  handle_announce p d ti m a = Ok (p', d', o) ->
  (p_fml p' = p_fml p /\ p_multiport_disable p' = p_multiport_disable p) \/
  (negb (pi_eqb (h_source (m_header m)) (p_identity p)) && acceptable (pc_acceptable (p_config p)) (pi_clock (h_source (m_header m))) = true /\
   p_fml p' = fml_register (p_identity p) ti (p_fml p) (m_header m) a 0 /\
   (p_multiport_disable p' = p_multiport_disable p \/
    (p_multiport_disable p' = Some 0 /\ pi_clock (p_identity p) = pi_clock (h_source (m_header m)) /\
     pi_port (h_source (m_header m)) < pi_port (p_identity p)))).
Proof.
  intros H. unfold handle_announce in H. cbv zeta in H.
  match type of H with obind ?X _ = _ => destruct X as [[[d1 lp] locks]|?] end; cbn [obind] in H; [|discriminate].
  destruct lp; [unfold ret in H; inversion H; left; auto|].
  unfold bmca_register in H.
  destruct (negb (pi_eqb (h_source (m_header m)) (p_identity p)) && acceptable (pc_acceptable (p_config p)) (pi_clock (h_source (m_header m)))) eqn:Eg;
    [|unfold ret in H; inversion H; left; auto].
  right. split; [reflexivity|]. unfold set_forced in H.
  match type of H with context [if ?c then _ else _] => destruct c eqn:Ec end;
    match type of H with context [draw ?x] => let E := fresh "Ed" in destruct (draw x) as [k p3] eqn:E;
      pose proof (draw_fml _ _ _ E) as Ef; apply draw_mp in E end;
    unfold ret in H; inversion H; subst; rewrite Ef, Ed; cbn [port_with_state port_with_multiport port_with_fml p_fml p_multiport_disable];
    (split; [reflexivity|]).
  - right. apply andb_true_iff in Ec as [Ec _]. apply andb_true_iff in Ec as [E1 E2]. cbn [port_with_fml p_identity] in E1, E2.
    split; [reflexivity|]. split; lia.
  - left. reflexivity.
Qed.

Lemma general_internal_fm p d ti m p' d' o :
  handle_general_internal p d ti m = Ok (p', d', o) ->
  (p_fml p' = p_fml p /\ p_multiport_disable p' = p_multiport_disable p) \/
  (exists a, m_body m = BAnnounce a /\ handle_announce p d ti m a = Ok (p', d', o)).
Proof.
  unfold handle_general_internal. intros H. destruct (m_body m) eqn:Eb;
    try (unfold ret in H; inversion H; subst; left; split; reflexivity).
  - left. split; [eapply handle_follow_up_fml; eauto|eapply handle_follow_up_mp; eauto].
  - left. split; [eapply handle_delay_resp_fml; eauto|eapply handle_delay_resp_mp; eauto].
  - left. split; [eapply handle_peer_delay_follow_up_fml; eauto|eapply handle_peer_delay_follow_up_mp; eauto].
  - right. eexists. split; [reflexivity|exact H].
Qed.

(** a receive call either leaves both alone or ran the Announce handler on an accepted frame *)
Lemma recv_fm pp d ti frame pp' d' oo (h : hres) :
  (h = handle_general_receive pp d ti frame \/ exists ts, h = handle_event_receive pp d ti frame ts) ->
  h = Ok (pp', d', oo) ->
  (p_fml pp' = p_fml pp /\ p_multiport_disable pp' = p_multiport_disable pp) \/
  (exists m a o2, is_compatible frame = true /\ decode frame = ROk m /\
     (h_domain (m_header m) =? dd_domain (ds_default d)) = true /\ (h_sdo_id (m_header m) =? dd_sdo_id (ds_default d)) = true /\
     m_body m = BAnnounce a /\ handle_announce pp d ti m a = Ok (pp', d', o2)).
Proof.
  intros Hh H.
  assert (Hparse : parse_and_filter d frame =
            if negb (is_compatible frame) then (None, []) else
            match decode frame with
            | RErr _ => (None, [])
            | ROk m => if (h_sdo_id (m_header m) =? dd_sdo_id (ds_default d)) && (h_domain (m_header m) =? dd_domain (ds_default d))
                       then (Some m, [rd_lock]) else (None, [rd_lock])
            end) by reflexivity.
  destruct Hh as [->|[ts ->]]; [unfold handle_general_receive in H|unfold handle_event_receive in H]; rewrite Hparse in H;
    (destruct (is_compatible frame) eqn:Ec; cbn [negb] in H; [|unfold ret in H; inversion H; subst; left; auto]);
    (destruct (decode frame) as [m|?] eqn:Ed; [|unfold ret in H; inversion H; subst; left; auto]);
    (destruct ((h_sdo_id (m_header m) =? dd_sdo_id (ds_default d)) && (h_domain (m_header m) =? dd_domain (ds_default d))) eqn:Edom;
     [|unfold ret in H; inversion H; subst; left; auto]);
    apply andb_true_iff in Edom as [Es Edm];
    unfold prepend in H;
    match type of H with obind ?X _ = _ => destruct X as [[[p1 d1] o2]|?] eqn:E end; cbn [obind] in H; try discriminate;
    inversion H; subst.
  - destruct (general_internal_fm _ _ _ _ _ _ _ E) as [Hk|(a & Eb & Ha)]; [left; exact Hk|].
    right. exists m, a, o2. repeat split; assumption.
  - destruct (m_body m) eqn:Eb;
      try (destruct (general_internal_fm _ _ _ _ _ _ _ E) as [Hk|(a & Eb' & Ha)]; [left; exact Hk|];
           right; exists m, a, o2; repeat split; try assumption; rewrite Eb in Eb'; discriminate Eb' || (rewrite Eb; exact Eb')).
    + left. split; [eapply handle_sync_fml; eauto|eapply handle_sync_mp; eauto].
    + left. split; [eapply handle_delay_req_fml; eauto|eapply handle_delay_req_mp; eauto].
    + left. split; [eapply handle_pdelay_req_fml; eauto|eapply handle_pdelay_req_mp; eauto].
    + left. split; [eapply handle_peer_delay_response_fml; eauto|eapply handle_peer_delay_response_mp; eauto].
    + destruct (general_internal_fm _ _ _ _ _ _ _ E) as [Hk|(a0 & Eb' & Ha)]; [left; exact Hk|].
      right. exists m, a0, o2. repeat split; assumption.
Qed.

(** * the BMCA run, port by port *)
Lemma recommended_RP own ebest erbest st h a :
  (recommended_state own ebest erbest st = Ok (Some (RP1 h a)) \/
   recommended_state own ebest erbest st = Ok (Some (RP2 h a))) -> erbest <> None.
Proof.
  intros H He. subst erbest. unfold recommended_state, compare_d0_best in H. cbn [obind] in H.
  destruct H as [H|H]; destruct st; try discriminate H;
    (destruct ((1 <=? cq_class (dd_quality own)) && (cq_class (dd_quality own) <=? 127)); [discriminate H|]);
    (destruct ebest as [g|]; cbn [obind] in H; [|discriminate H]);
    (destruct (ds_compare _ _); cbn [obind] in H; [|discriminate H]);
    destruct (as_ordering _); discriminate H.
Qed.

Definition dec_rel (b0 b1 : bport) : Prop :=
  p_fml (bp_port b1) = p_fml (bp_port b0) /\
  p_multiport_disable (bp_port b1) = p_multiport_disable (bp_port b0) /\
  p_config (bp_port b1) = p_config (bp_port b0) /\ p_identity (bp_port b1) = p_identity (bp_port b0) /\
  (is_slave (p_state (bp_port b1)) = true ->
     exists pb, bp_best b0 = Some pb /\ forall st, p_state (bp_port b1) = PSlave st -> ss_remote st = h_source (b_header pb)) /\
  (is_passive (p_state (bp_port b1)) = true -> is_passive (p_state (bp_port b0)) = false ->
     bp_best b0 <> None \/ p_multiport_disable (bp_port b0) <> None).

Lemma dec_rel_refl b : is_slave (p_state (bp_port b)) = false -> dec_rel b b.
Proof.
  intros Hs. unfold dec_rel. repeat split; auto.
  - rewrite Hs. discriminate.
  - intros H1 H2. rewrite H1 in H2. discriminate.
Qed.

Lemma draw_cfg_id x z y : draw x = (z, y) -> p_config y = p_config x /\ p_identity y = p_identity x.
Proof. unfold draw. destruct (p_rng x); intros E; inversion E; split; reflexivity. Qed.

Lemma srpt_fields b rs dd b1 : set_recommended_port_state b rs dd = Ok b1 ->
  p_fml (bp_port b1) = p_fml (bp_port b) /\ p_multiport_disable (bp_port b1) = p_multiport_disable (bp_port b) /\
  p_config (bp_port b1) = p_config (bp_port b) /\ p_identity (bp_port b1) = p_identity (bp_port b) /\ bp_best b1 = bp_best b.
Proof.
  intros H. unfold set_recommended_port_state, set_forced in H.
  destruct rs as [d0|d0|h a|h a|h a|h a];
    crunch H; cbn [bp_port bp_best];
    repeat match goal with E : draw _ = (_, _) |- _ =>
      pose proof (draw_fml _ _ _ E); pose proof (draw_mp _ _ _ E); apply draw_cfg_id in E; destruct E end;
    repeat match goal with E : p_fml ?y = p_fml _ |- _ => rewrite E; clear E end;
    repeat match goal with E : p_multiport_disable ?y = p_multiport_disable _ |- _ => rewrite E; clear E end;
    repeat match goal with E : p_config ?y = p_config _ |- _ => rewrite E; clear E end;
    repeat match goal with E : p_identity ?y = p_identity _ |- _ => rewrite E; clear E end;
    cbn [port_with_state p_fml p_multiport_disable p_config p_identity];
    repeat split; first [reflexivity | assumption | symmetry; assumption].
Qed.

Lemma srpt_passive b rs dd b1 : set_recommended_port_state b rs dd = Ok b1 ->
  is_passive (p_state (bp_port b1)) = true -> is_passive (p_state (bp_port b)) = false ->
  (match rs with RP1 _ _ | RP2 _ _ => True | _ => False end) \/ p_multiport_disable (bp_port b) <> None.
Proof.
  intros H Hp Hn. unfold set_recommended_port_state, set_forced in H.
  destruct rs as [d0|d0|h a|h a|h a|h a]; try (left; exact I); right;
    crunch H; cbn [bp_port] in Hp;
    repeat match goal with E : draw _ = (_, _) |- _ => apply draw_state_eq in E end;
    repeat match goal with E : p_state _ = p_state _ |- _ => rewrite E in Hp end;
    cbn [port_with_state p_state is_passive] in Hp; try discriminate Hp;
    try (rewrite Hp in Hn; discriminate Hn);
    try (match goal with E : p_multiport_disable _ = Some _ |- _ => rewrite E; discriminate end);
    try discriminate;
    repeat match goal with E : p_state _ = _ |- _ => rewrite E in Hp end;
    cbn [port_with_state p_state is_passive] in Hp; try discriminate Hp;
    try (rewrite Hp in Hn; discriminate Hn).
Qed.

Lemma srs_dec own ebest b rs d b' d' :
  recommended_state own ebest (bp_best b) (p_state (bp_port b)) = Ok (Some rs) ->
  set_recommended_state b rs d = Ok (b', d') -> dec_rel b b'.
Proof.
  intros Hrec H. pose proof H as H0. unfold set_recommended_state in H.
  destruct (set_recommended_port_state b rs (ds_default d)) as [b1|?] eqn:E1; cbn [obind] in H; [|discriminate].
  destruct (srpt_fields _ _ _ _ E1) as (F1 & F2 & F3 & F4 & F5).
  assert (Hb' : bp_port b' = bp_port b1) by (destruct rs; crunch H; reflexivity).
  unfold dec_rel. rewrite Hb'. split; [exact F1|]. split; [exact F2|]. split; [exact F3|]. split; [exact F4|]. split.
  - intros Hsl. destruct (is_RS1 rs) eqn:Ers.
    + destruct rs as [| | | | |h a]; try discriminate Ers.
      destruct (recommended_RS1 _ _ _ _ _ _ Hrec) as (g & pb & Hg & Hpb & Heq & Ha & Hh).
      exists pb. split; [exact Hpb|]. intros st Hst.
      destruct (srs_rs1_parent _ _ _ _ _ _ H0) as [_ Hr]. rewrite <- Hb' in Hst. rewrite (Hr st Hst), Hh.
      unfold best_eqb in Heq. do 3 (apply andb_true_iff in Heq as [Heq _]). apply header_eqb_source. exact Heq.
    + pose proof (srs_not_slave _ _ _ _ _ Ers H0) as Hns. rewrite Hb' in Hns. rewrite Hns in Hsl. discriminate.
  - intros Hp Hn. destruct (srpt_passive _ _ _ _ E1 Hp Hn) as [Hrp|Hm]; [|right; exact Hm].
    left. destruct rs; try contradiction; eapply recommended_RP; eauto.
Qed.

Lemma bmca_decide_dec ebest : forall todo done d done' d',
  bmca_decide ebest d todo done = Ok (done', d') ->
  exists tail, done' = done ++ tail /\ Forall2 dec_rel todo tail.
Proof.
  induction todo as [|b todo IH]; intros done d done' d' H; cbn [bmca_decide] in H.
  - inversion H; subst. exists []. rewrite app_nil_r. split; [reflexivity|constructor].
  - destruct (recommended_state _ _ _ _) as [r|?] eqn:Er; cbn [obind] in H; [|discriminate].
    destruct r as [rs|].
    + destruct (set_recommended_state b rs d) as [[b' d1]|?] eqn:E; cbn [obind fst snd] in H; [|discriminate].
      destruct (IH _ _ _ _ H) as (tail & -> & Ht). exists (b' :: tail). rewrite <- app_assoc. split; [reflexivity|].
      constructor; [eapply srs_dec; eauto|exact Ht].
    + destruct (IH _ _ _ _ H) as (tail & -> & Ht). exists (b :: tail). rewrite <- app_assoc. split; [reflexivity|].
      constructor; [|exact Ht]. apply dec_rel_refl. apply recommended_None in Er. rewrite Er. reflexivity.
Qed.

Lemma bmca_port6 i i' o n pp :
  bmca i = Ok (i', o) -> nth_error (i_ports i) n = Some pp ->
  exists pp' stepd fml1 best iv,
    nth_error (i_ports i') n = Some pp' /\ bmca_interval_dur (i_log_bmca i) = Ok stepd /\
    bmca_take_best (p_identity pp) (pc_acceptable (p_config pp)) (port_ti pp) (p_fml pp) = Ok (fml1, best) /\
    dur_from_log_interval (pc_log_announce (p_config pp)) = Ok iv /\
    p_fml pp' = fml_step_age (port_ti pp) stepd fml1 /\ p_config pp' = p_config pp /\
    p_multiport_disable pp' = match p_multiport_disable pp with
                              | Some age => if age + stepd <? iv then Some (age + stepd) else None
                              | None => None
                              end /\
    (is_slave (p_state pp') = true ->
       exists pb, best = Some pb /\ forall st, p_state pp' = PSlave st -> ss_remote st = h_source (b_header pb)) /\
    (is_passive (p_state pp') = true -> is_passive (p_state pp) = false -> best <> None \/ p_multiport_disable pp <> None).
Proof.
  unfold bmca. intros H Hn.
  destruct (bmca_interval_dur _) as [step|?] eqn:Estep; cbn [obind] in H; [|discriminate].
  destruct (negb _); [discriminate|].
  destruct (omap_list calc_local_best (i_ports i)) as [bps|?] eqn:E1; cbn [obind] in H; [|discriminate].
  destruct (find_best _) as [ebest|?]; cbn [obind] in H; [|discriminate].
  destruct (bmca_decide ebest (i_ds i) bps []) as [[bps1 d1]|?] eqn:E2; cbn [obind] in H; [|discriminate].
  destruct (omap_list _ bps1) as [ports|?] eqn:E3; cbn [obind] in H; [|discriminate].
  inversion H; subst. cbn [i_ports].
  pose proof (omap_list_rel _ (fun p b => calc_local_best p = Ok b) (fun p b Hx => Hx) _ _ E1) as R1.
  destruct (bmca_decide_dec _ _ _ _ _ _ E2) as (tail & Ht & R2). cbn [app] in Ht. subst tail.
  pose proof (omap_list_rel _ (fun b p' => step_announce_age step (bp_port b) = Ok p') (fun b p' Hx => Hx) _ _ E3) as R3.
  destruct (MainC09.Forall2_nth _ _ _ R1 n pp Hn) as (b0 & Hb0 & Hc0).
  destruct (MainC09.Forall2_nth _ _ _ R2 n b0 Hb0) as (b1 & Hb1 & Hd).
  destruct (MainC09.Forall2_nth _ _ _ R3 n b1 Hb1) as (pp' & Hpp' & Hage).
  unfold calc_local_best in Hc0.
  destruct (bmca_take_best _ _ _ _) as [[fml1 best]|?] eqn:Etb; cbn [obind] in Hc0; [|discriminate].
  inversion Hc0; subst b0. clear Hc0. cbn [bp_port bp_best fst snd] in Hd.
  destruct Hd as (D1 & D2 & D3 & D4 & D5 & D6). cbn [bp_port bp_best port_with_fml p_fml p_multiport_disable p_config p_identity p_state] in *.
  unfold step_announce_age in Hage. rewrite D3 in Hage.
  destruct (dur_from_log_interval (pc_log_announce (p_config pp))) as [iv|?] eqn:Eiv; cbn [obind] in Hage; [|discriminate].
  exists pp', step, fml1, best, iv. split; [exact Hpp'|]. split; [reflexivity|]. split; [reflexivity|]. split; [reflexivity|].
  assert (Hti : forall q, p_config q = p_config pp -> port_ti q = port_ti pp) by (intros q Hq; unfold port_ti; rewrite Hq; reflexivity).
  inversion Hage; subst pp'. clear Hage.
  destruct (p_multiport_disable (bp_port b1)) as [age|] eqn:Emp;
    cbn [port_with_fml port_with_multiport p_fml p_config p_multiport_disable p_state];
    rewrite <- D2; rewrite ?Emp.
  - rewrite (Hti _ ltac:(cbn; exact D3)). cbn [port_with_multiport p_fml]. rewrite D1.
    split; [reflexivity|]. split; [exact D3|]. split; [reflexivity|]. split; [exact D5|].
    intros A B. destruct (D6 A B) as [X|X]; [left; exact X|right; congruence].
  - rewrite (Hti _ D3), D1. split; [reflexivity|]. split; [exact D3|]. split; [reflexivity|]. split; [exact D5|].
    intros A B. destruct (D6 A B) as [X|X]; [left; exact X|right; congruence].
Qed.

(** * the invariant of the walk *)
Definition cp6 (la : Z) (stepd now : Z) (pp : port) (l : list arrival) (seen : Z) : Prop :=
  fml_dom now stepd l (p_fml pp) /\ fml_lt (port_ti pp) (p_fml pp) /\ ids_nodup (p_fml pp) /\
  seen <= now /\
  (forall age, p_multiport_disable pp = Some age ->
     0 <= age /\ (now - seen) * stepd <= age /\ age < dur_of_log la).

Definition inv6 (c : pcase) (i : instance) (s : st06) : Prop :=
  length (arrs s) = nports c /\ length (own_seen s) = nports c /\
  i_log_bmca i = log_bmca c /\
  forall n pp, nth_error (i_ports i) n = Some pp ->
    cp6 (pc_log_announce (p_config pp)) (dur_of_log (log_bmca c)) (run_no s) pp (nth n (arrs s) []) (nth n (own_seen s) (-1000)).

Lemma nth_update_same {A} n (x d : A) l : (n < length l)%nat -> nth n (update_nth n x l) d = x.
Proof. revert n; induction l as [|y l IH]; intros [|n] H; cbn in *; try lia; [reflexivity|apply IH; lia]. Qed.
Lemma nth_update_other {A} n m (x d : A) l : n <> m -> nth m (update_nth n x l) d = nth m l d.
Proof.
  revert n m; induction l as [|y l IH]; intros [|n] [|m] H; cbn; try reflexivity; try congruence.
  apply IH. congruence.
Qed.
Lemma update_nth_length {A} n (x : A) l : length (update_nth n x l) = length l.
Proof. revert n; induction l as [|y l IH]; intros [|n]; cbn; auto. Qed.

Lemma cp6_mono la s now pp l seen a seen' :
  cp6 la s now pp l seen -> 0 <= s -> (seen' = seen \/ seen' = now) -> cp6 la s now pp (a :: l) seen' /\ cp6 la s now pp l seen'.
Proof.
  intros (A & B & C & D & E) Hs Hseen.
  assert (Hmp : forall age, p_multiport_disable pp = Some age -> 0 <= age /\ (now - seen') * s <= age /\ age < dur_of_log la).
  { intros age Hm. destruct (E age Hm) as (E1 & E2 & E3). destruct Hseen as [->| ->]; [auto|]. rewrite Z.sub_diag. split; [exact E1|split; [lia|exact E3]]. }
  assert (Hle : seen' <= now) by (destruct Hseen; lia).
  split; (split; [|split; [exact B|split; [exact C|split; [exact Hle|exact Hmp]]]]); [apply fml_dom_cons; exact A|exact A].
Qed.

(** no call outside a BMCA run makes a port slave *)
Lemma on_port_full i n f i' o : on_port i n f = Ok (i', o) ->
  (nth_error (i_ports i) n = None /\ i' = i) \/
  (exists pp pp' d' oo, nth_error (i_ports i) n = Some pp /\ f pp (i_ds i) = Ok (pp', d', oo) /\
     i' = mkInst d' (i_log_bmca i) (update_nth n pp' (i_ports i))).
Proof.
  unfold on_port. intros H. destruct (nth_error (i_ports i) n) as [pp|]; [|inversion H; left; auto].
  destruct (f pp (i_ds i)) as [[[pp' d'] oo]|?] eqn:E; cbn [obind] in H; [|discriminate]. inversion H; subst.
  right. exists pp, pp', d', oo. repeat split; auto.
Qed.

Lemma no_new_slave_check c i i' :
  (forall q pp pp', nth_error (i_ports i) q = Some pp -> nth_error (i_ports i') q = Some pp' ->
     is_slave (p_state pp) = false -> is_slave (p_state pp') = false) ->
  length (i_ports i') = length (i_ports i) ->
  existsb (fun q => negb (state_of (snapshot_of i) q =? 9) && (state_of (snapshot_of i') q =? 9)) (all_ports c) = false.
Proof.
  intros H Hlen. apply not_true_is_false. intros Hx. apply existsb_exists in Hx. destruct Hx as (q & _ & Hq).
  apply andb_true_iff in Hq as [H1 H2].
  destruct (nth_error (i_ports i') q) as [pp'|] eqn:En'; [|rewrite (state_of_none i' q En') in H2; discriminate H2].
  destruct (nth_error (i_ports i) q) as [pp|] eqn:En.
  - rewrite (MainC09.state_of_snapshot i q pp En), code_slave in H1. rewrite (MainC09.state_of_snapshot i' q pp' En'), code_slave in H2.
    apply negb_true_iff in H1. rewrite (H q pp pp' En En' H1) in H2. discriminate.
  - apply nth_error_None in En. assert (Hs : nth_error (i_ports i') q <> None) by (rewrite En'; discriminate).
    apply nth_error_Some in Hs. lia.
Qed.

Lemma on_port_no_new_slave i n f i' o :
  on_port i n f = Ok (i', o) -> (forall p, keeps_remote p (f p (i_ds i))) ->
  (forall q pp pp', nth_error (i_ports i) q = Some pp -> nth_error (i_ports i') q = Some pp' ->
     is_slave (p_state pp) = false -> is_slave (p_state pp') = false) /\ length (i_ports i') = length (i_ports i).
Proof.
  intros H Hk. destruct (on_port_full i n f i' o H) as [(_ & ->)|(pp0 & pp0' & d' & oo & Hn & Hh & ->)].
  - split; [|reflexivity]. intros q pp pp' A B. rewrite A in B. inversion B; subst. auto.
  - cbn [i_ports]. split; [|apply update_nth_length]. intros q pp pp' A B Hs.
    destruct (Nat.eq_dec n q) as [->|Hne].
    + rewrite Hn in A. inversion A; subst pp0. rewrite nth_error_update_same in B by (apply nth_error_Some; rewrite Hn; discriminate).
      inversion B; subst pp0'. destruct (Hk pp _ _ _ Hh) as [Hr|Hr].
      * destruct (p_state pp'); try reflexivity. destruct (p_state pp); try discriminate Hs; discriminate Hr.
      * destruct (p_state pp'); try reflexivity. discriminate Hr.
    + rewrite nth_error_update_other in B by exact Hne. rewrite A in B. inversion B; subst. exact Hs.
Qed.

(** * a receive call *)
Lemma qualified_facts own l h a : fml_qualified own l h a = true ->
  (pi_clock (h_source h) =? pi_clock own) = false /\ (an_steps_removed a <? 255) = true.
Proof.
  unfold fml_qualified. destruct (pi_clock (h_source h) =? pi_clock own); [discriminate|].
  destruct (negb _); [discriminate|]. destruct (Z.leb_spec 255 (an_steps_removed a)); [discriminate|].
  intros _. split; [reflexivity|]. apply Z.ltb_lt. lia.
Qed.

Lemma fml_register_unqualified own ti l h a age : fml_qualified own l h a = false -> fml_register own ti l h a age = l.
Proof. unfold fml_register. intros ->. reflexivity. Qed.

Lemma cutoff_pos pp : -7 <= pc_log_announce (p_config pp) <= 7 ->
  port_ti pp = dur_of_log (pc_log_announce (p_config pp)) / 2 ^ 16 /\
  cutoff_age (port_ti pp) = 4 * dur_of_log (pc_log_announce (p_config pp)) /\ 0 < cutoff_age (port_ti pp).
Proof.
  intros H. destruct (interval_facts _ H) as (_ & _ & Hti & Hc & Hp).
  assert (Hpt : port_ti pp = dur_of_log (pc_log_announce (p_config pp)) / 2 ^ 16) by (unfold port_ti; rewrite Hti; reflexivity).
  rewrite Hpt. split; [reflexivity|]. split; [exact Hc|]. rewrite Hc. lia.
Qed.

Lemma recv_port6 c i n pp pp' d' oo frame (h : hres) l seen now :
  reach_inv c i -> nth_error (i_ports i) n = Some pp -> bok frame ->
  (h = handle_general_receive pp (i_ds i) (port_ti pp) frame \/ exists ts, h = handle_event_receive pp (i_ds i) (port_ti pp) frame ts) ->
  h = Ok (pp', d', oo) -> p_config pp' = p_config pp ->
  cp6 (pc_log_announce (p_config pp)) (dur_of_log (log_bmca c)) now pp l seen ->
  0 < dur_of_log (log_bmca c) ->
  cp6 (pc_log_announce (p_config pp')) (dur_of_log (log_bmca c)) now pp'
      (match arrival_of c (snapshot_of i) n frame now with Some a => a :: l | None => l end)
      (if own_arrival c (snapshot_of i) n frame then now else seen).
Proof.
  intros Hr Hn Hbok Hh H Hcfg Hcp Hstep. rewrite Hcfg.
  assert (Hpt : port_ti pp' = port_ti pp) by (unfold port_ti; rewrite Hcfg; reflexivity).
  destruct Hr as [Hi Hclk Hsp Hacc Hcf].
  assert (Hpi : port_inv pp) by (destruct Hi as (Hports & _); rewrite Forall_forall in Hports; apply Hports; eapply nth_error_In; eauto).
  assert (Hla : -7 <= pc_log_announce (p_config pp) <= 7) by (destruct Hpi as ((Hx & _) & _); exact Hx).
  destruct (cutoff_pos pp Hla) as (_ & _ & Hcpos).
  assert (Hid : p_identity pp = port_id c n).
  { destruct Hi as (_ & _ & Hids & _). rewrite (Hids n pp Hn). unfold port_id. rewrite <- Hclk. reflexivity. }
  assert (Hseen : forall b : bool, (if b then now else seen) = seen \/ (if b then now else seen) = now) by (intros []; auto).
  destruct (recv_fm pp (i_ds i) (port_ti pp) frame pp' d' oo h Hh H) as [[Hf Hm]|(m & a & o2 & Ec & Ed & Edom & Esdo & Eb & Ha)].
  - (* list and multiport age untouched *)
    assert (Hcp' : cp6 (pc_log_announce (p_config pp)) (dur_of_log (log_bmca c)) now pp' l seen).
    { destruct Hcp as (A & B & C & D & E). unfold cp6. rewrite Hf, Hm, Hpt. repeat split; auto; apply E; assumption. }
    destruct (arrival_of c (snapshot_of i) n frame now) as [a0|];
      [exact (proj1 (cp6_mono _ _ _ _ _ _ a0 _ Hcp' ltac:(lia) (Hseen _)))
      |exact (proj2 (cp6_mono _ _ _ _ _ _ (mkArr (mkPI 0 0) 0 0 0) _ Hcp' ltac:(lia) (Hseen _)))].
  - destruct (handle_announce_fm _ _ _ _ _ _ _ _ Ha) as [[Hf Hm]|(Hacc' & Hf & Hm)].
    + assert (Hcp' : cp6 (pc_log_announce (p_config pp)) (dur_of_log (log_bmca c)) now pp' l seen).
      { destruct Hcp as (A & B & C & D & E). unfold cp6. rewrite Hf, Hm, Hpt. repeat split; auto; apply E; assumption. }
      destruct (arrival_of c (snapshot_of i) n frame now) as [a0|];
        [exact (proj1 (cp6_mono _ _ _ _ _ _ a0 _ Hcp' ltac:(lia) (Hseen _)))
        |exact (proj2 (cp6_mono _ _ _ _ _ _ (mkArr (mkPI 0 0) 0 0 0) _ Hcp' ltac:(lia) (Hseen _)))].
    + destruct Hcp as (A & B & C & D & E).
      (* the list *)
      assert (Hlist : fml_dom now (dur_of_log (log_bmca c))
                        (match arrival_of c (snapshot_of i) n frame now with Some a0 => a0 :: l | None => l end) (p_fml pp') /\
                      fml_lt (port_ti pp') (p_fml pp') /\ ids_nodup (p_fml pp')).
      { rewrite Hf, Hpt. split; [|split; [apply fml_register_lt; assumption|apply fml_register_nodup; exact C]].
        destruct (fml_qualified (p_identity pp) (p_fml pp) (m_header m) a) eqn:Eq.
        - destruct (qualified_facts _ _ _ _ Eq) as [Q1 Q2]. apply andb_true_iff in Hacc' as [_ Hacc'].
          assert (Harr : arrival_of c (snapshot_of i) n frame now =
                         Some (mkArr (h_source (m_header m)) (an_steps_removed a) now (h_seq (m_header m)))).
          { unfold arrival_of, decoded. rewrite Ec, Ed, Eb. cbn [negb snapshot_of sn_ds].
            rewrite (port_cfg_of c i n pp (mkReach _ _ Hi Hclk Hsp Hacc Hcf) Hn).
            rewrite Edom, Esdo, Hacc', Q2. rewrite Hid in Q1. cbn [port_id pi_clock] in Q1. rewrite Q1. reflexivity. }
          rewrite Harr. apply fml_register_dom_new; [exact A|reflexivity|reflexivity].
        - rewrite (fml_register_unqualified _ _ _ _ _ _ Eq).
          destruct (arrival_of _ _ _ _ _); [apply fml_dom_cons|]; exact A. }
      destruct Hlist as (L1 & L2 & L3). unfold cp6. split; [exact L1|]. split; [exact L2|]. split; [exact L3|].
      assert (Hle : (if own_arrival c (snapshot_of i) n frame then now else seen) <= now) by (destruct (own_arrival _ _ _ _); lia).
      split; [exact Hle|].
      destruct Hm as [Hm|(Hm & Hclkeq & Hport)].
      * intros age Hage. rewrite Hm in Hage. destruct (E age Hage) as (E1 & E2 & E3).
        destruct (own_arrival _ _ _ _); [rewrite Z.sub_diag; split; [exact E1|split; [lia|exact E3]]|auto].
      * assert (Hown : own_arrival c (snapshot_of i) n frame = true).
        { unfold own_arrival, decoded. rewrite Ec, Ed, Eb. cbn [negb]. rewrite Hid in Hclkeq, Hport. cbn [port_id pi_clock pi_port] in Hclkeq, Hport.
          apply andb_true_iff. split; [apply Z.eqb_eq; symmetry; exact Hclkeq|apply Z.ltb_lt; exact Hport]. }
        rewrite Hown. intros age Hage. rewrite Hm in Hage. inversion Hage; subst age. rewrite Z.sub_diag.
        destruct (interval_facts _ Hla) as (_ & _ & _ & _ & Hp). split; [lia|split; [lia|exact Hp]].
Qed.

(** * the decision of a BMCA run, for one port *)
Lemma fold_min_le_acc0 l : forall acc, fold_left Z.min l acc <= acc.
Proof. induction l as [|z l IHl]; intros acc; cbn [fold_left]; [lia|]. etransitivity; [apply IHl|]. lia. Qed.

Lemma fold_min_le l : forall acc x, In x l -> fold_left Z.min l acc <= x.
Proof.
  induction l as [|y l IH]; intros acc x Hin; [destruct Hin|]. cbn [fold_left]. destruct Hin as [->|Hin].
  - etransitivity; [apply fold_min_le_acc0|]. lia.
  - apply IH. exact Hin.
Qed.
Lemma fold_min_le_acc l : forall acc, fold_left Z.min l acc <= acc.
Proof. induction l as [|z l IHl]; intros acc; cbn [fold_left]; [lia|]. etransitivity; [apply IHl|]. lia. Qed.

Lemma log_bmca_le c n pc : port_cfg c n = Some pc -> log_bmca c <= pc_log_announce pc.
Proof.
  unfold port_cfg, log_bmca. intros H. destruct (nth_error (su_ports (pc_setup c)) n) as [[pc' r]|] eqn:E; [|discriminate].
  inversion H; subst. apply fold_min_le. apply in_map_iff. exists (pc, r). split; [reflexivity|]. eapply nth_error_In; eauto.
Qed.

Lemma recent_exists c p l src now : (1 <= recent_from c p l src now)%nat ->
  exists a, In a l /\ ar_src a = src.
Proof.
  unfold recent_from, count. induction l as [|a l IH]; cbn [filter length]; [lia|].
  destruct (pi_eqb (ar_src a) src && (now - ar_run a <? window_runs c p)) eqn:E.
  - intros _. apply andb_true_iff in E as [E _]. exists a. split; [left; reflexivity|apply pi_eqb_eq; exact E].
  - intros H. destruct (IH H) as (b & Hb & Hs). exists b. split; [right; exact Hb|exact Hs].
Qed.

Lemma best_two c n pp l now stepd fml1 pb :
  fml_dom now stepd l (p_fml pp) -> fml_lt (port_ti pp) (p_fml pp) -> fml_wf (p_identity pp) (p_fml pp) ->
  0 < stepd -> cutoff_age (port_ti pp) = window_runs c n * stepd ->
  bmca_take_best (p_identity pp) (pc_acceptable (p_config pp)) (port_ti pp) (p_fml pp) = Ok (fml1, Some pb) ->
  (2 <= recent_from c n l (h_source (b_header pb)) now)%nat.
Proof.
  intros Hd Hlt Hwf Hs Hcut Htb.
  destruct (erbest_needs_two _ _ _ _ _ _ Htb) as (fm & m & Hin & Hlen & Hm & Hh & _).
  unfold fml_wf in Hwf. rewrite Forall_forall in Hwf. specialize (Hwf fm Hin). unfold fm_wf in Hwf. rewrite Forall_forall in Hwf.
  destruct (Hwf m Hm) as (Hsrc & _). rewrite Hh, Hsrc.
  unfold fml_dom in Hd. rewrite Forall_forall in Hd. specialize (Hd fm Hin (cutoff_age (port_ti pp))).
  unfold fml_lt in Hlt. rewrite Forall_forall in Hlt. specialize (Hlt fm Hin). unfold fm_lt in Hlt. rewrite Forall_forall in Hlt.
  rewrite cntlt_all in Hd.
  - unfold fm_ages in Hd. rewrite map_length in Hd. rewrite Hcut, (recent_count c n l _ now stepd Hs) in Hd. lia.
  - intros x Hx. unfold fm_ages in Hx. apply in_map_iff in Hx. destruct Hx as (m0 & <- & Hm0). apply Hlt. exact Hm0.
Qed.

Lemma code_passive s : (port_state_code s =? 7) = is_passive s.
Proof. destruct s; reflexivity. Qed.

Lemma bmca_port_ok c i i' o n pp l seen now :
  reach_inv c i -> reach_inv c i' -> bmca i = Ok (i', o) -> nth_error (i_ports i) n = Some pp ->
  i_log_bmca i = log_bmca c ->
  cp6 (pc_log_announce (p_config pp)) (dur_of_log (log_bmca c)) now pp l seen ->
  exists pp', nth_error (i_ports i') n = Some pp' /\
    cp6 (pc_log_announce (p_config pp')) (dur_of_log (log_bmca c)) (now + 1) pp' l seen /\
    let parent := parent_id (i_ds i') in
    (if is_slave (p_state pp') then negb (pi_clock parent =? own_clock c) && (2 <=? recent_from c n l parent now)%nat else true)
    && (if is_slave (p_state pp') && (negb (is_slave (p_state pp)) || negb (pi_eqb (parent_id (i_ds i)) parent))
        then (2 <=? recent_from c n l parent now)%nat else true)
    && (if is_passive (p_state pp') && negb (is_passive (p_state pp))
        then any_recent_pair c n l now || (now - seen <=? interval_runs c n) else true) = true.
Proof.
  intros Hr Hr' Hb Hn Hlog (A & B & C & D & E).
  destruct (bmca_port6 i i' o n pp Hb Hn) as (pp' & stepd & fml1 & best & iv & Hn' & Hstep & Htb & Hiv & Hf' & Hcfg' & Hmp' & Hsl & Hpa).
  pose proof (port_cfg_of c i n pp Hr Hn) as Hpc.
  destruct Hr as [Hi Hclk Hsp Hacc Hcf]. destruct Hr' as [Hi' Hclk' Hsp' Hacc' Hcf'].
  assert (Hpi : port_inv pp) by (destruct Hi as (Hports & _); rewrite Forall_forall in Hports; apply Hports; eapply nth_error_In; eauto).
  assert (Hla : -7 <= pc_log_announce (p_config pp) <= 7) by (destruct Hpi as ((Hx & _) & _); exact Hx).
  assert (Hlb : -7 <= log_bmca c <= 7) by (rewrite <- Hlog; destruct Hi as (_ & _ & _ & _ & _ & Hx & _); exact Hx).
  pose proof (log_bmca_le c n _ Hpc) as Hle.
  destruct (interval_facts _ Hla) as (Hiv' & _ & _ & _ & Hlapos).
  destruct (interval_facts _ Hlb) as (_ & Hstep' & _ & _ & Hspos).
  rewrite Hlog, Hstep' in Hstep. inversion Hstep; subst stepd. rewrite Hiv' in Hiv. inversion Hiv; subst iv.
  destruct (cutoff_pos pp Hla) as (_ & Hcut & Hcpos).
  assert (Hwin : cutoff_age (port_ti pp) = window_runs c n * dur_of_log (log_bmca c)).
  { rewrite Hcut. unfold window_runs. rewrite Hpc. rewrite (dur_of_log_ratio _ (log_bmca c)) by lia. lia. }
  assert (Hwf : fml_wf (p_identity pp) (p_fml pp)) by (destruct Hpi as (_ & _ & _ & _ & (Hx & _) & _); exact Hx).
  assert (Hpt : port_ti pp' = port_ti pp) by (unfold port_ti; rewrite Hcfg'; reflexivity).
  exists pp'. split; [exact Hn'|]. split.
  - (* the coupling after ageing *)
    unfold cp6. rewrite Hcfg', Hf', Hpt. split.
    + apply fml_step_age_dom. unfold bmca_take_best in Htb.
      destruct (fml_take_qualified (p_fml pp)) as [l1 taken] eqn:Et.
      destruct (find_best _) as [[b|]|?] eqn:Ef; cbn [obind] in Htb; try discriminate; inversion Htb; subst.
      * apply find_best_in in Ef. apply in_map_iff in Ef. destruct Ef as (m & <- & Hm). cbn [b_header b_ann b_age].
        assert (Hm' : In m (snd (fml_take_qualified (p_fml pp)))) by (rewrite Et; exact Hm).
        unfold fml_take_qualified in Hm'. cbn [snd] in Hm'. apply take_fold_in in Hm'. destruct Hm' as [[]|(x & Hx & Hsx)].
        apply in_map_iff in Hx. destruct Hx as (fm & <- & Hfm).
        replace l1 with (fst (fml_take_qualified (p_fml pp))) by (rewrite Et; reflexivity).
        apply (fml_reregister_dom _ _ _ _ _ _ _ fm m A C Hfm Hsx).
        destruct (fm_take_spec fm m Hsx) as [_ Hin]. unfold fml_wf in Hwf. rewrite Forall_forall in Hwf.
        specialize (Hwf fm Hfm). unfold fm_wf in Hwf. rewrite Forall_forall in Hwf. apply (Hwf m Hin).
      * replace fml1 with (fst (fml_take_qualified (p_fml pp))) by (rewrite Et; reflexivity). apply fml_take_dom. exact A.
    + split; [apply fml_step_age_lt|]. split.
      * apply fml_step_age_nodup. unfold bmca_take_best in Htb.
        destruct (fml_take_qualified (p_fml pp)) as [l1 taken] eqn:Et.
        assert (Hl1 : ids_nodup l1).
        { unfold ids_nodup. replace l1 with (fst (fml_take_qualified (p_fml pp))) by (rewrite Et; reflexivity). rewrite take_ids. exact C. }
        destruct (find_best _) as [[b|]|?]; cbn [obind] in Htb; try discriminate; inversion Htb; subst; [|exact Hl1].
        unfold bmca_reregister. destruct (_ && _); [apply fml_register_nodup|]; exact Hl1.
      * split; [lia|]. intros age Hage. rewrite Hmp' in Hage.
        destruct (p_multiport_disable pp) as [age0|]; [|discriminate Hage].
        destruct (E age0 eq_refl) as (E1 & E2 & E3).
        destruct (age0 + dur_of_log (log_bmca c) <? dur_of_log (pc_log_announce (p_config pp))) eqn:Elt; [|discriminate Hage].
        inversion Hage; subst age. apply Z.ltb_lt in Elt. split; [lia|]. split; [lia|exact Elt].
  - cbv zeta.
    (* a slave port follows a master with two recent Announces *)
    assert (Hslave : is_slave (p_state pp') = true ->
              negb (pi_clock (parent_id (i_ds i')) =? own_clock c) = true /\
              (2 <=? recent_from c n l (parent_id (i_ds i')) now)%nat = true).
    { intros Hs. destruct (Hsl Hs) as (pb & -> & Hrem).
      destruct (p_state pp') as [| | | |st'] eqn:Est; try discriminate Hs.
      pose proof (Hsp' pp' st' (nth_error_In _ _ Hn') Est) as Hpar. rewrite <- Hpar, (Hrem st' eq_refl).
      split.
      - unfold inst_acc in Hacc'. rewrite Forall_forall in Hacc'. destruct (Hacc' pp' (nth_error_In _ _ Hn')) as [_ Hx].
        destruct (Hx st' Est) as [_ Hne]. rewrite (Hrem st' eq_refl) in Hne.
        destruct Hi' as (_ & _ & Hids & _). rewrite (Hids n pp' Hn') in Hne. cbn [pi_clock] in Hne.
        unfold clk_inv in Hclk'. rewrite <- Hclk'. apply negb_true_iff. apply Z.eqb_neq. exact Hne.
      - apply Nat.leb_le. eapply best_two; eauto. }
    apply andb_true_iff. split; [apply andb_true_iff; split|].
    + destruct (is_slave (p_state pp')) eqn:Es; [|reflexivity]. destruct (Hslave eq_refl) as [H1 H2]. rewrite H1, H2. reflexivity.
    + destruct (is_slave (p_state pp')) eqn:Es; [|reflexivity]. destruct (Hslave eq_refl) as [_ H2].
      destruct (_ || _); [exact H2|reflexivity].
    + destruct (is_passive (p_state pp') && negb (is_passive (p_state pp))) eqn:Ep; [|reflexivity].
      apply andb_true_iff in Ep as [Ep1 Ep2]. apply negb_true_iff in Ep2.
      destruct (Hpa Ep1 Ep2) as [Hbest|Hmp].
      * destruct best as [pb|]; [|contradiction Hbest; reflexivity].
        pose proof (best_two c n pp l now _ fml1 pb A B Hwf Hspos Hwin Htb) as H2.
        assert (H1 : (1 <= recent_from c n l (h_source (b_header pb)) now)%nat) by lia.
        destruct (recent_exists c n l _ now H1) as (a0 & Ha0 & Hsrc).
        apply orb_true_iff. left. unfold any_recent_pair. apply existsb_exists. exists a0. split; [exact Ha0|].
        rewrite Hsrc. apply Nat.leb_le. exact H2.
      * apply orb_true_iff. right. destruct (p_multiport_disable pp) as [age0|]; [|contradiction Hmp; reflexivity].
        destruct (E age0 eq_refl) as (E1 & E2 & E3).
        unfold interval_runs. rewrite Hpc. apply Z.leb_le.
        rewrite (dur_of_log_ratio _ (log_bmca c)) in E3 by lia.
        assert (Hpos : 0 < 2 ^ (pc_log_announce (p_config pp) - log_bmca c)) by (apply Z.pow_pos_nonneg; lia).
        nia.
Qed.

(** * one step of the walk *)
Lemma step_cfg i e i' o n pp pp' : inst_inv i -> event_valid e -> step i e = Ok (i', o) ->
  nth_error (i_ports i) n = Some pp -> nth_error (i_ports i') n = Some pp' -> p_config pp' = p_config pp.
Proof.
  intros Hi He Hs Hn Hn'. destruct (step_ok i e Hi He) as (i1 & o1 & Hs1 & _ & Hcf & _). rewrite Hs in Hs1. inversion Hs1; subst i1 o1.
  assert (H1 : nth_error (cfgs_of i') n = Some (p_config pp')) by (unfold cfgs_of; rewrite nth_error_map, Hn'; reflexivity).
  assert (H2 : nth_error (cfgs_of i) n = Some (p_config pp)) by (unfold cfgs_of; rewrite nth_error_map, Hn; reflexivity).
  rewrite Hcf, H2 in H1. inversion H1. reflexivity.
Qed.

Lemma cp6_keep la s now pp pp' l seen :
  cp6 la s now pp l seen -> p_fml pp' = p_fml pp -> p_multiport_disable pp' = p_multiport_disable pp ->
  p_config pp' = p_config pp -> cp6 la s now pp' l seen.
Proof.
  intros (A & B & C & D & E) Hf Hm Hc. unfold cp6. rewrite Hf, Hm.
  assert (Hpt : port_ti pp' = port_ti pp) by (unfold port_ti; rewrite Hc; reflexivity). rewrite Hpt. repeat split; auto; apply E; assumption.
Qed.

Lemma bmca_log i i' o : bmca i = Ok (i', o) -> i_log_bmca i' = i_log_bmca i.
Proof.
  unfold bmca. intros H.
  destruct (bmca_interval_dur _); cbn [obind] in H; [|discriminate]. destruct (negb _); [discriminate|].
  destruct (omap_list calc_local_best _); cbn [obind] in H; [|discriminate].
  destruct (find_best _); cbn [obind] in H; [|discriminate].
  destruct (bmca_decide _ _ _ _) as [[bps1 d1]|?]; cbn [obind] in H; [|discriminate].
  destruct (omap_list _ bps1); cbn [obind] in H; [|discriminate]. inversion H; reflexivity.
Qed.

(** an on_port call that does not touch list and multiport age keeps the invariant *)
Lemma on_port_keep6 c i s n f i' o e :
  reach_inv c i -> inv6 c i s -> event_valid e -> step i e = Ok (i', o) -> on_port i n f = Ok (i', o) ->
  (forall p, keeps_fml p (f p (i_ds i))) -> (forall p, keeps_mp p (f p (i_ds i))) -> inv6 c i' s.
Proof.
  intros Hr (L1 & L2 & L3 & Hall) He Hs Hop Hkf Hkm.
  destruct (on_port_full i n f i' o Hop) as [(_ & ->)|(pp0 & pp0' & d' & oo & Hn & Hh & Hi')];
    [split; [exact L1|split; [exact L2|split; [exact L3|exact Hall]]]|].
  split; [exact L1|]. split; [exact L2|]. split; [subst i'; exact L3|].
  intros q pp' Hq'.
  destruct (Nat.eq_dec n q) as [->|Hne].
  - assert (Hpp' : pp' = pp0').
    { subst i'. cbn [i_ports] in Hq'. rewrite nth_error_update_same in Hq' by (apply nth_error_Some; rewrite Hn; discriminate). inversion Hq'; reflexivity. }
    subst pp'. pose proof (step_cfg i e i' o q pp0 pp0' (ri_inv _ _ Hr) He Hs Hn Hq') as Hc. rewrite Hc.
    eapply cp6_keep; [exact (Hall q pp0 Hn)|eapply Hkf; eauto|eapply Hkm; eauto|exact Hc].
  - subst i'. cbn [i_ports] in Hq'. rewrite nth_error_update_other in Hq' by exact Hne. exact (Hall q pp' Hq').
Qed.

Lemma step_C06_model c i s e i' o :
  reach_inv c i -> inv6 c i s -> event_valid e -> step i e = Ok (i', o) ->
  exists s', step_C06 c s (snapshot_of i) e o (snapshot_of i') = Some s' /\ inv6 c i' s'.
Proof.
  intros Hr Hinv He Hs. pose proof (reach_step c i e i' o Hr He Hs) as Hr'.
  pose proof (ports_len c i Hr) as Hlen. pose proof (ports_len c i' Hr') as Hlen'.
  assert (Hspos : 0 < dur_of_log (log_bmca c)).
  { destruct Hinv as (_ & _ & L3 & _). destruct Hr as [Hi _ _ _ _]. destruct Hi as (_ & _ & _ & _ & _ & Hx & _). rewrite L3 in Hx.
    destruct (interval_facts _ Hx) as (_ & _ & _ & _ & Hp). exact Hp. }
  (* the receive events *)
  assert (Hrecv : forall n frame f,
            (forall pp d, f pp d = handle_general_receive pp d (port_ti pp) frame \/
                          exists ts, f pp d = handle_event_receive pp d (port_ti pp) frame ts) ->
            (forall p, keeps_remote p (f p (i_ds i))) -> bok frame -> on_port i n f = Ok (i', o) ->
            exists s', (let arrs' := match arrival_of c (snapshot_of i) n frame (run_no s) with
                                     | Some a => update_nth n (a :: nth n (arrs s) []) (arrs s)
                                     | None => arrs s
                                     end in
                        let own' := if own_arrival c (snapshot_of i) n frame then update_nth n (run_no s) (own_seen s) else own_seen s in
                        if existsb (fun q => negb (state_of (snapshot_of i) q =? 9) && (state_of (snapshot_of i') q =? 9)) (all_ports c) then None
                        else Some (mkS6 (run_no s) arrs' own')) = Some s' /\ inv6 c i' s').
  { intros n frame f Hf Hk Hbok Hop. cbv zeta.
    destruct (on_port_no_new_slave i n f i' o Hop Hk) as [Hns Hl]. rewrite (no_new_slave_check c i i' Hns Hl).
    eexists. split; [reflexivity|]. destruct Hinv as (L1 & L2 & L3 & Hall).
    split; [cbn [arrs]; destruct (arrival_of _ _ _ _ _); rewrite ?update_nth_length; exact L1|].
    split; [cbn [own_seen]; destruct (own_arrival _ _ _ _); rewrite ?update_nth_length; exact L2|].
    destruct (on_port_full i n f i' o Hop) as [(Hnn & ->)|(pp0 & pp0' & d' & oo & Hn & Hh & Hi')].
    - split; [exact L3|]. intros q pp Hq. cbn [run_no arrs own_seen].
      assert (Hne : n <> q) by (intros ->; rewrite Hnn in Hq; discriminate).
      replace (nth q (match arrival_of c (snapshot_of i) n frame (run_no s) with Some a => update_nth n (a :: nth n (arrs s) []) (arrs s) | None => arrs s end) [])
        with (nth q (arrs s) []) by (destruct (arrival_of _ _ _ _ _); [rewrite nth_update_other by exact Hne|]; reflexivity).
      replace (nth q (if own_arrival c (snapshot_of i) n frame then update_nth n (run_no s) (own_seen s) else own_seen s) (-1000))
        with (nth q (own_seen s) (-1000)) by (destruct (own_arrival _ _ _ _); [rewrite nth_update_other by exact Hne|]; reflexivity).
      exact (Hall q pp Hq).
    - split; [subst i'; exact L3|]. intros q pp' Hq'. cbn [run_no arrs own_seen].
      assert (Hnlt : (n < length (i_ports i))%nat) by (apply nth_error_Some; rewrite Hn; discriminate).
      destruct (Nat.eq_dec n q) as [<-|Hne].
      + assert (Hpp' : pp' = pp0') by (subst i'; cbn [i_ports] in Hq'; rewrite nth_error_update_same in Hq' by exact Hnlt; inversion Hq'; reflexivity).
        subst pp'.
        replace (nth n (match arrival_of c (snapshot_of i) n frame (run_no s) with Some a => update_nth n (a :: nth n (arrs s) []) (arrs s) | None => arrs s end) [])
          with (match arrival_of c (snapshot_of i) n frame (run_no s) with Some a => a :: nth n (arrs s) [] | None => nth n (arrs s) [] end)
          by (destruct (arrival_of _ _ _ _ _); [rewrite nth_update_same by lia|]; reflexivity).
        replace (nth n (if own_arrival c (snapshot_of i) n frame then update_nth n (run_no s) (own_seen s) else own_seen s) (-1000))
          with (if own_arrival c (snapshot_of i) n frame then run_no s else nth n (own_seen s) (-1000))
          by (destruct (own_arrival _ _ _ _); [rewrite nth_update_same by lia|]; reflexivity).
        eapply (recv_port6 c i n pp0 pp0' d' oo frame (f pp0 (i_ds i))); [exact Hr|exact Hn|exact Hbok|apply Hf|exact Hh| |exact (Hall n pp0 Hn)|exact Hspos].
        eapply step_cfg; eauto. apply (ri_inv _ _ Hr).
      + subst i'. cbn [i_ports] in Hq'. rewrite nth_error_update_other in Hq' by exact Hne.
        replace (nth q (match arrival_of c (snapshot_of i) n frame (run_no s) with Some a => update_nth n (a :: nth n (arrs s) []) (arrs s) | None => arrs s end) [])
          with (nth q (arrs s) []) by (destruct (arrival_of _ _ _ _ _); [rewrite nth_update_other by exact Hne|]; reflexivity).
        replace (nth q (if own_arrival c (snapshot_of i) n frame then update_nth n (run_no s) (own_seen s) else own_seen s) (-1000))
          with (nth q (own_seen s) (-1000)) by (destruct (own_arrival _ _ _ _); [rewrite nth_update_other by exact Hne|]; reflexivity).
        exact (Hall q pp' Hq'). }
  (* the other calls on a port *)
  assert (Hoth : forall n f, on_port i n f = Ok (i', o) ->
            (forall p, keeps_remote p (f p (i_ds i))) -> (forall p, keeps_fml p (f p (i_ds i))) -> (forall p, keeps_mp p (f p (i_ds i))) ->
            exists s', (if existsb (fun q => negb (state_of (snapshot_of i) q =? 9) && (state_of (snapshot_of i') q =? 9)) (all_ports c) then None
                        else Some s) = Some s' /\ inv6 c i' s').
  { intros n f Hop Hk Hkf Hkm. destruct (on_port_no_new_slave i n f i' o Hop Hk) as [Hns Hl]. rewrite (no_new_slave_check c i i' Hns Hl).
    exists s. split; [reflexivity|]. exact (on_port_keep6 c i s n f i' o e Hr Hinv He Hs Hop Hkf Hkm). }
  assert (Hsame : i_ports i' = i_ports i -> i_log_bmca i' = i_log_bmca i ->
            exists s', (if existsb (fun q => negb (state_of (snapshot_of i) q =? 9) && (state_of (snapshot_of i') q =? 9)) (all_ports c) then None
                        else Some s) = Some s' /\ inv6 c i' s').
  { intros Hp Hl. rewrite (no_new_slave_check c i i'); [|intros q pp pp' A B; rewrite Hp, A in B; inversion B; auto|rewrite Hp; reflexivity].
    exists s. split; [reflexivity|]. destruct Hinv as (L1 & L2 & L3 & Hall).
    split; [exact L1|]. split; [exact L2|]. split; [rewrite Hl; exact L3|].
    intros q pp Hq. rewrite Hp in Hq. exact (Hall q pp Hq). }
  destruct e; cbn [step event_valid step_C06] in *.
  - destruct He as [Hb _]. apply (Hrecv p frame _ (fun pp d => or_intror (ex_intro _ ts eq_refl))); [intros pp; apply handle_event_receive_remote|exact Hb|exact Hs].
  - apply (Hrecv p frame _ (fun pp d => or_introl eq_refl)); [intros pp; apply handle_general_receive_remote|exact He|exact Hs].
  - apply (Hoth p _ Hs); intros pp; [apply handle_send_timestamp_remote|intros p' d' oo Hx; unfold handle_send_timestamp in Hx; destruct ctx;
      [eapply handle_sync_timestamp_fml|eapply handle_delay_timestamp_fml|eapply handle_pdelay_timestamp_fml|eapply handle_pdelay_response_timestamp_fml]; eauto
      |apply send_timestamp_mp].
  - apply (Hoth p _ Hs); intros pp; [apply send_announce_remote|apply send_announce_fml|apply send_announce_mp].
  - apply (Hoth p _ Hs); intros pp; [apply send_sync_remote|apply send_sync_fml|apply send_sync_mp].
  - apply (Hoth p _ Hs); intros pp; [apply send_delay_request_remote|apply send_delay_request_fml|apply send_delay_request_mp].
  - apply (Hoth p _ Hs); intros pp; [apply receipt_timer_remote|apply receipt_timer_fml|apply receipt_timer_mp].
  - apply (Hoth p _ Hs); intros pp.
    + intros p' d' oo Hx. unfold handle_filter_update_timer, ret in Hx. inversion Hx; subst. left. reflexivity.
    + intros p' d' oo Hx. unfold handle_filter_update_timer, ret in Hx. inversion Hx; reflexivity.
    + intros p' d' oo Hx. unfold handle_filter_update_timer, ret in Hx. inversion Hx; reflexivity.
  - (* BMCA *)
    destruct Hinv as (L1 & L2 & L3 & Hall).
    assert (Hports : forall p, In p (all_ports c) -> exists pp pp',
              nth_error (i_ports i) p = Some pp /\ nth_error (i_ports i') p = Some pp' /\
              cp6 (pc_log_announce (p_config pp')) (dur_of_log (log_bmca c)) (run_no s + 1) pp' (nth p (arrs s) []) (nth p (own_seen s) (-1000)) /\
              (let parent := parent_id (i_ds i') in
               (if is_slave (p_state pp') then negb (pi_clock parent =? own_clock c) && (2 <=? recent_from c p (nth p (arrs s) []) parent (run_no s))%nat else true)
               && (if is_slave (p_state pp') && (negb (is_slave (p_state pp)) || negb (pi_eqb (parent_id (i_ds i)) parent))
                   then (2 <=? recent_from c p (nth p (arrs s) []) parent (run_no s))%nat else true)
               && (if is_passive (p_state pp') && negb (is_passive (p_state pp))
                   then any_recent_pair c p (nth p (arrs s) []) (run_no s) || (run_no s - nth p (own_seen s) (-1000) <=? interval_runs c p) else true) = true)).
    { intros p Hp. unfold all_ports in Hp. apply in_seq in Hp. rewrite <- Hlen in Hp.
      destruct (nth_error (i_ports i) p) as [pp|] eqn:Hn; [|apply nth_error_None in Hn; lia].
      destruct (bmca_port_ok c i i' o p pp _ _ _ Hr Hr' Hs Hn L3 (Hall p pp Hn)) as (pp' & Hn' & Hcp & Hcl).
      exists pp, pp'. split; [reflexivity|]. split; [exact Hn'|]. split; [exact Hcp|exact Hcl]. }
    cbv zeta.
    match goal with |- exists s', (if ?ok then _ else _) = _ /\ _ => assert (Hok : ok = true) end.
    { apply forallb_forall. intros p Hp. destruct (Hports p Hp) as (pp & pp' & Hn & Hn' & _ & Hcl). cbv zeta in Hcl.
      rewrite (MainC09.state_of_snapshot i p pp Hn), (MainC09.state_of_snapshot i' p pp' Hn'), !code_slave, !code_passive.
      exact Hcl. }
    rewrite Hok. eexists. split; [reflexivity|].
    split; [exact L1|]. split; [exact L2|]. split; [rewrite (bmca_log i i' o Hs); exact L3|].
    intros q pp' Hq'. cbn [run_no arrs own_seen].
    assert (Hq : In q (all_ports c)).
    { unfold all_ports. apply in_seq. rewrite <- Hlen'. split; [lia|]. cbn. apply nth_error_Some. rewrite Hq'. discriminate. }
    destruct (Hports q Hq) as (pp & pp2 & Hn & Hn2 & Hcp & _). rewrite Hq' in Hn2. inversion Hn2; subst pp2. exact Hcp.
  - apply Hsame; inversion Hs; reflexivity.
  - apply Hsame; inversion Hs; reflexivity.
  - apply Hsame; inversion Hs; reflexivity.
Qed.

(** * the walk and the initial state *)
Lemma walk_C06_model c es : forall i s,
  reach_inv c i -> inv6 c i s -> Forall event_valid es ->
  walk (step_C06 c) s (snapshot_of i) es (run i es) = true.
Proof.
  induction es as [|e es IH]; intros i s Hr Hinv Hes; cbn [run walk]; [reflexivity|].
  inversion Hes as [|? ? He Hes']; subst.
  destruct (step_ok i e (ri_inv _ _ Hr) He) as (i1 & o1 & Hs & _). rewrite Hs. cbn [walk].
  destruct (step_C06_model c i s e i1 o1 Hr Hinv He Hs) as (s' & Hst & Hinv'). rewrite Hst.
  apply IH; [eapply reach_step; eauto|exact Hinv'|exact Hes'].
Qed.

Lemma add_ports_log ps : forall i acc i' o, add_ports i ps acc = Ok (i', o) ->
  i_log_bmca i' = fold_left Z.min (map (fun x => pc_log_announce (fst x)) ps) (i_log_bmca i).
Proof.
  induction ps as [|[c r] ps IH]; intros i acc i' o H; cbn [add_ports] in H; [inversion H; reflexivity|].
  destruct (add_port i c r) as [[i1 o1]|?] eqn:E; cbn [obind fst snd] in H; [|discriminate].
  rewrite (IH _ _ _ _ H). cbn [map fold_left fst]. f_equal.
  unfold add_port in E. destruct (chk_u _ _ _); cbn [obind] in E; [|discriminate].
  match type of E with context [draw ?x] => destruct (draw x) as [k p1] end.
  destruct (announce_interval_ti _); cbn [obind] in E; [|discriminate]. inversion E; reflexivity.
Qed.

Lemma add_ports_fresh ps : forall i acc i' o,
  Forall (fun p => p_fml p = [] /\ p_multiport_disable p = None) (i_ports i) -> add_ports i ps acc = Ok (i', o) ->
  Forall (fun p => p_fml p = [] /\ p_multiport_disable p = None) (i_ports i').
Proof.
  induction ps as [|[c r] ps IH]; intros i acc i' o Hn H; cbn [add_ports] in H.
  - inversion H; subst. exact Hn.
  - destruct (add_port i c r) as [[i1 o1]|?] eqn:E; cbn [obind fst snd] in H; [|discriminate].
    eapply IH; [|exact H]. unfold add_port in E. destruct (chk_u _ _ _); cbn [obind] in E; [|discriminate].
    match type of E with context [draw ?x] => destruct (draw x) as [k p1] eqn:Ed end.
    destruct (announce_interval_ti _); cbn [obind] in E; [|discriminate]. inversion E; subst. cbn [i_ports].
    apply Forall_app. split; [exact Hn|]. constructor; [|constructor].
    split; [rewrite (draw_fml _ _ _ Ed)|rewrite (draw_mp _ _ _ Ed)]; reflexivity.
Qed.

Definition walk_C06 (c : pcase) : bool :=
  walk (step_C06 c) (mkS6 0 (map (fun _ => []) (all_ports c)) (map (fun _ => -1000) (all_ports c)))
       (init_snap c) (pc_events c) (pc_trace c).

Lemma nth_const_gen {A} (x : A) (l : list nat) n : nth n (map (fun _ => x) l) x = x.
Proof. revert n; induction l as [|y l IH]; intros [|n]; cbn; auto. Qed.

(** the walk conjunct of the C06 oracle accepts the model's own trace, for every
    valid set-up and every valid event list *)
Theorem walk_C06_main s es rel :
  setup_valid s -> Forall event_valid es ->
  exists i o, init s = Ok (i, o) /\ walk_C06 (mkCase s es rel (Some o) (run i es)) = true.
Proof.
  intros Hs Hes. destruct (init_ok s Hs) as (i & o & Hi & _). exists i, o. split; [exact Hi|].
  unfold walk_C06. cbn [pc_events pc_trace]. unfold init_snap. cbn [pc_setup]. rewrite Hi.
  set (c := mkCase s es rel (Some o) (run i es)).
  apply walk_C06_model; [apply reach_init; assumption| |exact Hes].
  unfold inv6. cbn [arrs own_seen run_no]. rewrite !map_length. unfold all_ports. rewrite seq_length.
  split; [reflexivity|]. split; [reflexivity|]. split.
  - unfold init in Hi. rewrite (add_ports_log _ _ _ _ _ Hi). reflexivity.
  - intros n pp Hn. fold (all_ports c). rewrite (nth_const_gen (@nil arrival)), (nth_const_gen (-1000)).
    assert (Hf : Forall (fun p => p_fml p = [] /\ p_multiport_disable p = None) (i_ports i)).
    { unfold init in Hi. eapply add_ports_fresh; [|exact Hi]. constructor. }
    rewrite Forall_forall in Hf. destruct (Hf pp (nth_error_In _ _ Hn)) as [F1 F2].
    unfold cp6. rewrite F1, F2. split; [constructor|]. split; [constructor|]. split; [constructor|]. split; [lia|].
    intros age Hx. discriminate Hx.
Qed.

Lemma ok_C06_walk c : ok_C06 c = true -> walk_C06 c = true.
Proof. unfold ok_C06, walk_C06. intros H. apply andb_true_iff in H. apply H. Qed.
