(** Model of the port state machine: port/mod.rs, port/bmca.rs,
    port/master.rs, port/slave.rs, port/actions.rs, config/port.rs,
    ptp_instance.rs and the message constructors of
    datastructures/messages/mod.rs.  The filter is the harness's recording
    filter (public Filter trait): it forwards every Measurement to the
    observer and answers mean_delay := delay, else peer_delay.

    Every handler returns [outcome (port * inst_ds * list obs)]; [Panic]
    stands for a Rust panic or an arithmetic overflow (debug builds panic,
    release builds wrap silently). *)
From SV Require Export Port.Bmc.

Definition hres := outcome (port * inst_ds * list obs).
Definition ret (p : port) (d : inst_ds) (o : list obs) : hres := Ok (p, d, o).
Definition rd_lock : obs := OLock false 0.
Definition wr_lock : obs := OLock true 0.

(** * Timer durations (exact rational value in ns, floored) *)
Definition pow2_scale (x log : Z) : Z := if 0 <=? log then x * 2 ^ log else x / 2 ^ (- log).
Definition interval_ns (log : Z) : Z := pow2_scale 1000000000 log.
(** Open01 draw from the 52-bit integer k: u = (2k+1) / 2^53 *)
Definition draw (p : port) : Z * port :=
  match p_rng p with
  | [] => (0, p)
  | k :: r => (k, port_with_rng p r)
  end.
Definition announce_duration_ns (c : port_config) (k : Z) : Z :=
  pow2_scale (1000000000 * pc_receipt_timeout c * (2 ^ 53 + 2 * k + 1)) (pc_log_announce c) / 2 ^ 53.
Definition delay_req_duration_ns (log k : Z) : Z :=
  pow2_scale (1000000000 * 2 * (2 * k + 1)) log / 2 ^ 53.

(** * Message constructors *)
Definition base_header (d : default_ds) (src : port_identity) (seq minor : Z) : header :=
  mkHeader (dd_sdo_id d) 2 minor (dd_domain d)
           false false false false false false false false false false false false
           0 src seq 0.
Definition with_two_step (h : header) (b : bool) : header :=
  mkHeader (h_sdo_id h) (h_version_major h) (h_version_minor h) (h_domain h)
           (h_alternate_master h) b (h_unicast h) (h_profile1 h) (h_profile2 h)
           (h_leap61 h) (h_leap59 h) (h_utc_valid h) (h_ptp_timescale h)
           (h_time_traceable h) (h_freq_traceable h) (h_sync_uncertain h)
           (h_correction h) (h_source h) (h_seq h) (h_log_interval h).
Definition with_correction (h : header) (c : Z) : header :=
  mkHeader (h_sdo_id h) (h_version_major h) (h_version_minor h) (h_domain h)
           (h_alternate_master h) (h_two_step h) (h_unicast h) (h_profile1 h) (h_profile2 h)
           (h_leap61 h) (h_leap59 h) (h_utc_valid h) (h_ptp_timescale h)
           (h_time_traceable h) (h_freq_traceable h) (h_sync_uncertain h)
           c (h_source h) (h_seq h) (h_log_interval h).
Definition with_log_interval (h : header) (l : Z) : header :=
  mkHeader (h_sdo_id h) (h_version_major h) (h_version_minor h) (h_domain h)
           (h_alternate_master h) (h_two_step h) (h_unicast h) (h_profile1 h) (h_profile2 h)
           (h_leap61 h) (h_leap59 h) (h_utc_valid h) (h_ptp_timescale h)
           (h_time_traceable h) (h_freq_traceable h) (h_sync_uncertain h)
           (h_correction h) (h_source h) (h_seq h) l.
Definition with_source (h : header) (s : port_identity) : header :=
  mkHeader (h_sdo_id h) (h_version_major h) (h_version_minor h) (h_domain h)
           (h_alternate_master h) (h_two_step h) (h_unicast h) (h_profile1 h) (h_profile2 h)
           (h_leap61 h) (h_leap59 h) (h_utc_valid h) (h_ptp_timescale h)
           (h_time_traceable h) (h_freq_traceable h) (h_sync_uncertain h)
           (h_correction h) s (h_seq h) (h_log_interval h).

Definition site_wire_ts : nat := 401.
Definition site_corr_add : nat := 402.
Definition site_steps_add : nat := 403.
Definition site_path_collect : nat := 404.
Definition site_tlv_assert : nat := 405.
Definition site_slave_only_assert : nat := 406.
Definition site_master_only_assert : nat := 407.
Definition site_bmca_interval : nat := 408.
Definition site_num_ports_assert : nat := 409.

(** Time -> WireTimestamp (secs() is to_num::<u64>, checked) *)
Definition wire_of_time (t : Z) : outcome wire_ts :=
  let! sn := time_to_wire t in Ok (mkTS (fst sn) (snd sn)).
(** WireTimestamp -> Time *)
Definition time_of_wire (w : wire_ts) : outcome Z := time_from_wire (ts_secs w) (ts_nanos w).

Definition msg_sync (d : default_ds) (src : port_identity) (seq minor : Z) : message :=
  mkMsg (with_two_step (base_header d src seq minor) true) (BSync ts_zero) [].
Definition msg_follow_up (d : default_ds) (src : port_identity) (seq t minor : Z) : outcome message :=
  let! w := wire_of_time t in
  Ok (mkMsg (with_correction (base_header d src seq minor) (time_subnano t)) (BFollowUp w) []).
Definition msg_delay_req (d : default_ds) (src : port_identity) (seq minor : Z) : message :=
  mkMsg (with_log_interval (base_header d src seq minor) 127) (BDelayReq ts_zero) [].
Definition msg_delay_resp (req : header) (src : port_identity) (log_min_delay t : Z) : outcome message :=
  (* saturating_add on I48F16 bits (repaired F6) *)
  let corr := Z.max (- 2 ^ 63) (Z.min (2 ^ 63 - 1) (h_correction req + time_subnano t)) in
  let! w := wire_of_time t in
  let h := with_log_interval (with_correction (with_source (with_two_step req false) src) corr) log_min_delay in
  Ok (mkMsg h (BDelayResp w (h_source req)) []).
Definition msg_pdelay_req (d : default_ds) (src : port_identity) (seq minor : Z) : message :=
  mkMsg (base_header d src seq minor) (BPDelayReq ts_zero) [].
Definition msg_pdelay_resp (d : default_ds) (src : port_identity) (req : header) (t minor : Z) : outcome message :=
  let! w := wire_of_time t in
  Ok (mkMsg (with_correction (with_two_step (base_header d src (h_seq req) minor) true) (h_correction req))
            (BPDelayResp w (h_source req)) []).
Definition msg_pdelay_resp_follow_up (d : default_ds) (src requestor : port_identity) (seq t minor : Z)
  : outcome message :=
  let! w := wire_of_time t in
  Ok (mkMsg (base_header d src seq minor) (BPDelayRespFollowUp w requestor) []).

Definition msg_announce (ds : inst_ds) (src : port_identity) (seq minor : Z) : message :=
  let d := ds_default ds in
  let tp := ds_tp ds in
  let b := base_header d src seq minor in
  let h := mkHeader (h_sdo_id b) 2 minor (h_domain b) false false false false false
                    (tp_leap tp =? 1) (tp_leap tp =? 2)
                    (match tp_utc_offset tp with Some _ => true | None => false end)
                    (tp_ptp_timescale tp) (tp_time_traceable tp) (tp_freq_traceable tp) false
                    0 src seq 0 in
  let par := ds_parent ds in
  mkMsg h (BAnnounce (mkAnn ts_zero
                            (match tp_utc_offset tp with Some v => v | None => 0 end)
                            (pd_gm_prio1 par) (pd_gm_quality par) (pd_gm_prio2 par)
                            (pd_gm_identity par) (ds_steps_removed ds) (tp_time_source tp))) [].

(** AnnounceMessage::time_properties *)
Definition ann_time_props (h : header) (a : announce_body) : time_props :=
  mkTP (if h_utc_valid h then Some (an_utc_offset a) else None)
       (if h_leap59 h then 2 else if h_leap61 h then 1 else 0)
       (h_time_traceable h) (h_freq_traceable h) (h_ptp_timescale h) (an_time_source a).

(** serialisation into the 1024-byte packet buffer *)
Definition serialize_packet (m : message) : outcome bytes := encode MAX_DATA_LEN m.

(** * set_forced_port_state *)
Definition set_forced (p : port) (s : port_state) : port * list obs :=
  let old := p_state p in
  (port_with_state p s,
   if is_slave old || is_faulty old || is_faulty s then [OFilterDemobilize] else []).

(** * Measurements (slave.rs) *)
Definition meas_default : measurement := mkMeas 0 None None None None None.

(** the recording filter's answer *)
Definition filter_mean_delay (m : measurement) : option Z :=
  match me_delay m with Some d => Some d | None => me_peer_delay m end.

(** extract_measurement: returns new port, the measurement if any, and the
    observations caused by a recovery from Faulty *)
Definition extract_measurement (p : port) : outcome (port * option measurement * list obs) :=
  match p_peer p with
  | PDMeasuring id (Some responder) (Some req_send) (Some req_recv) (Some resp_send) (Some resp_recv) =>
      let! a := time_diff resp_recv req_send in
      let! b := time_diff resp_send req_recv in
      let! d := dur_sub a b in
      let! half := chk_i site_dur_div 128 (Z.quot d 2) in
      let m := mkMeas resp_recv None None (Some half) None None in
      let p1 := port_with_peer p (PDPost id responder) in
      let '(p2, o) := if is_faulty (p_state p1) then set_forced p1 PListening else (p1, []) in
      Ok (p2, Some m, o)
  | _ =>
      match p_state p with
      | PSlave st =>
          match ss_sync st with
          | MMeasuring _ (Some send) (Some recv) =>
              let! d0 := time_diff recv send in
              let! raw := dur_sub d0 (pc_asymmetry (p_config p)) in
              let! off := match p_mean_delay p with
                          | Some md => let! o := dur_sub raw md in Ok (Some o)
                          | None => Ok None
                          end in
              let m := mkMeas recv off None None (Some raw) None in
              Ok (port_with_state p (PSlave (mkSS (ss_remote st) MEmpty (ss_delay st) (Some raw))),
                  Some m, [])
          | _ =>
              match ss_delay st with
              | MMeasuring _ (Some send) (Some recv) =>
                  let! d0 := time_diff send recv in
                  let! raw := dur_sub d0 (pc_asymmetry (p_config p)) in
                  let! dl := match ss_last_raw_sync st with
                             | Some rs =>
                                 let! x := dur_sub rs raw in
                                 let! h := chk_i site_dur_div 128 (Z.quot x 2) in Ok (Some h)
                             | None => Ok None
                             end in
                  let m := mkMeas send None dl None None (Some raw) in
                  Ok (port_with_state p (PSlave (mkSS (ss_remote st) (ss_sync st) MEmpty (ss_last_raw_sync st))),
                      Some m, [])
              | _ => Ok (p, None, [])
              end
          end
      | _ => Ok (p, None, [])
      end
  end.

(** handle_time_measurement *)
Definition handle_time_measurement (p : port) (d : inst_ds) : hres :=
  let! r := extract_measurement p in
  let '(p1, om, o) := r in
  match om with
  | Some m =>
      let p2 := match filter_mean_delay m with
                | Some md => port_with_mean_delay p1 (Some md)
                | None => p1
                end in
      ret p2 d (o ++ [OFilterMeas m])
  | None => ret p1 d o
  end.

Definition set_slave (p : port) (st : slave_state) : port := port_with_state p (PSlave st).

Definition handle_sync (p : port) (d : inst_ds) (h : header) (origin : wire_ts) (recv_time : Z) : hres :=
  match p_state p with
  | PSlave st =>
      if negb (pi_eqb (ss_remote st) (h_source h)) then ret p d [] else
      let! corrected := time_sub_dur recv_time (ti_to_dur (h_correction h)) in
      if h_two_step h then
        match ss_sync st with
        | MMeasuring id send (Some _) =>
            if id =? h_seq h then ret p d []
            else ret (set_slave p (mkSS (ss_remote st) (MMeasuring (h_seq h) None (Some corrected))
                                        (ss_delay st) (ss_last_raw_sync st))) d []
        | MMeasuring id send None =>
            if id =? h_seq h then
              handle_time_measurement
                (set_slave p (mkSS (ss_remote st) (MMeasuring id send (Some corrected))
                                   (ss_delay st) (ss_last_raw_sync st))) d
            else ret (set_slave p (mkSS (ss_remote st) (MMeasuring (h_seq h) None (Some corrected))
                                        (ss_delay st) (ss_last_raw_sync st))) d []
        | MEmpty =>
            ret (set_slave p (mkSS (ss_remote st) (MMeasuring (h_seq h) None (Some corrected))
                                   (ss_delay st) (ss_last_raw_sync st))) d []
        end
      else
        let fresh :=
          let! send := time_of_wire origin in
          handle_time_measurement
            (set_slave p (mkSS (ss_remote st) (MMeasuring (h_seq h) (Some send) (Some corrected))
                               (ss_delay st) (ss_last_raw_sync st))) d in
        match ss_sync st with
        | MMeasuring id _ _ => if id =? h_seq h then ret p d [] else fresh
        | MEmpty => fresh
        end
  | _ => ret p d []
  end.

Definition handle_follow_up (p : port) (d : inst_ds) (h : header) (precise : wire_ts) : hres :=
  match p_state p with
  | PSlave st =>
      if negb (pi_eqb (ss_remote st) (h_source h)) then ret p d [] else
      let! t0 := time_of_wire precise in
      let! send_time := time_add_dur t0 (ti_to_dur (h_correction h)) in
      let fresh recv :=
        handle_time_measurement
          (set_slave p (mkSS (ss_remote st) (MMeasuring (h_seq h) (Some send_time) recv)
                             (ss_delay st) (ss_last_raw_sync st))) d in
      match ss_sync st with
      | MMeasuring id (Some _) recv => if id =? h_seq h then ret p d [] else fresh None
      | MMeasuring id None recv => if id =? h_seq h then fresh recv else fresh None
      | MEmpty => fresh None
      end
  | _ => ret p d []
  end.

Definition handle_delay_resp (p : port) (d : inst_ds) (h : header) (recv_ts : wire_ts) (requester : port_identity) : hres :=
  match p_state p with
  | PSlave st =>
      if negb (pi_eqb (p_identity p) requester) || negb (pi_eqb (ss_remote st) (h_source h))
      then ret p d [] else
      match ss_delay st with
      | MMeasuring id send None =>
          if id =? h_seq h then
            let! t0 := time_of_wire recv_ts in
            let! rt := time_sub_dur t0 (ti_to_dur (h_correction h)) in
            handle_time_measurement
              (set_slave p (mkSS (ss_remote st) (ss_sync st) (MMeasuring id send (Some rt))
                                 (ss_last_raw_sync st))) d
          else ret p d []
      | _ => ret p d []
      end
  | _ => ret p d []
  end.

Definition handle_delay_timestamp (p : port) (d : inst_ds) (tid ts : Z) : hres :=
  match p_state p with
  | PSlave st =>
      match ss_delay st with
      | MMeasuring id None recv =>
          if id =? tid then
            handle_time_measurement
              (set_slave p (mkSS (ss_remote st) (ss_sync st) (MMeasuring id (Some ts) recv)
                                 (ss_last_raw_sync st))) d
          else ret p d []
      | _ => ret p d []
      end
  | _ => ret p d []
  end.

Definition handle_pdelay_timestamp (p : port) (d : inst_ds) (tid ts : Z) : hres :=
  match p_peer p with
  | PDMeasuring id resp None rr rs rv =>
      if id =? tid then
        handle_time_measurement (port_with_peer p (PDMeasuring id resp (Some ts) rr rs rv)) d
      else ret p d []
  | _ => ret p d []
  end.

(** multiple responders: the contested exchange is dropped ([PDEmpty], repaired F25)
    when it is still being measured *)
Definition go_faulty (p : port) (d : inst_ds) : hres :=
  let '(p1, o) := set_forced p PFaulty in ret p1 d o.

Definition handle_peer_delay_response (p : port) (d : inst_ds) (h : header)
           (req_recv_ts : wire_ts) (requester : port_identity) (recv_time : Z) : hres :=
  if negb (pi_eqb (p_identity p) requester) then ret p d [] else
  match p_peer p with
  | PDPost id responder =>
      if (id =? h_seq h) && negb (pi_eqb responder (h_source h)) then go_faulty p d else ret p d []
  | PDMeasuring id responder req_send req_recv resp_send resp_recv =>
      if negb (id =? h_seq h) then ret p d [] else
      match responder with
      | Some r => if negb (pi_eqb r (h_source h)) then go_faulty (port_with_peer p PDEmpty) d else
          match resp_recv with
          | Some _ => ret p d []
          | None =>
              let! rv := time_sub_dur recv_time (ti_to_dur (h_correction h)) in
              let! rr := time_of_wire req_recv_ts in
              let rs := if h_two_step h then resp_send else Some rr in
              handle_time_measurement
                (port_with_peer p (PDMeasuring id (Some (h_source h)) req_send (Some rr) rs (Some rv))) d
          end
      | None =>
          match resp_recv with
          | Some _ => ret p d []
          | None =>
              let! rv := time_sub_dur recv_time (ti_to_dur (h_correction h)) in
              let! rr := time_of_wire req_recv_ts in
              let rs := if h_two_step h then resp_send else Some rr in
              handle_time_measurement
                (port_with_peer p (PDMeasuring id (Some (h_source h)) req_send (Some rr) rs (Some rv))) d
          end
      end
  | PDEmpty => ret p d []
  end.

Definition handle_peer_delay_follow_up (p : port) (d : inst_ds) (h : header)
           (origin : wire_ts) (requester : port_identity) : hres :=
  if negb (pi_eqb (p_identity p) requester) then ret p d [] else
  match p_peer p with
  | PDPost id responder =>
      if (id =? h_seq h) && negb (pi_eqb responder (h_source h)) then go_faulty p d else ret p d []
  | PDMeasuring id responder req_send req_recv resp_send resp_recv =>
      if negb (id =? h_seq h) then ret p d [] else
      let proceed :=
        match resp_send with
        | Some _ => ret p d []
        | None =>
            let! t0 := time_of_wire origin in
            let! rs := time_add_dur t0 (ti_to_dur (h_correction h)) in
            handle_time_measurement
              (port_with_peer p (PDMeasuring id (Some (h_source h)) req_send req_recv (Some rs) resp_recv)) d
        end in
      match responder with
      | Some r => if negb (pi_eqb r (h_source h)) then go_faulty (port_with_peer p PDEmpty) d else proceed
      | None => proceed
      end
  | PDEmpty => ret p d []
  end.

(** * Master side (master.rs) *)
Definition gen16 (x : Z) : Z := (x + 1) mod 65536.

Definition send_sync (p : port) (d : inst_ds) : hres :=
  if is_master (p_state p) then
    let seq := p_seq_sync p in
    let p1 := port_with_seqs p (p_seq_announce p) (gen16 seq) (p_seq_delay p) (p_seq_pdelay p) in
    let! frame := serialize_packet (msg_sync (ds_default d) (p_identity p) seq (pc_minor (p_config p))) in
    ret p1 d [rd_lock; AResetSyncTimer (interval_ns (pc_log_sync (p_config p)));
              ASendEvent (CtxSync seq) frame false]
  else ret p d [].

Definition handle_sync_timestamp (p : port) (d : inst_ds) (id ts : Z) : hres :=
  if is_master (p_state p) then
    let! m := msg_follow_up (ds_default d) (p_identity p) id ts (pc_minor (p_config p)) in
    let! frame := serialize_packet m in
    ret p d [rd_lock; ASendGeneral frame false]
  else ret p d [].

(** TLV provider = the daemon's TlvForwarder semantics over a scripted queue:
    peek the head; hand it out iff its size <= max_size. *)
Definition fwd_size (f : fwd_tlv) : Z := tlv_wire_size (fw_tlv f).

(** The announce TLV loop.  fuel = length of the queue. Returns the appended
    TLV bytes (in order), the remaining margin and the lock events. *)
Fixpoint announce_tlv_loop (fuel : nat) (queue : list fwd_tlv) (margin : Z) (parent : port_identity)
         (path_enabled : bool) (acc : bytes) (locks : list obs) : outcome (bytes * list obs) :=
  match fuel with
  | O => Ok (acc, locks)
  | S fuel' =>
      match queue with
      | [] => Ok (acc, locks)
      | f :: q' =>
          if fwd_size f <=? margin then
            (* assert!(tlv.size() <= tlv_margin): implied by the provider contract (repaired F4) *)
            let locks' := locks ++ [rd_lock] in
            if negb (pi_eqb parent (fw_sender f)) then
              announce_tlv_loop fuel' q' margin parent path_enabled acc locks'
            else if path_enabled && (tlv_type (fw_tlv f) =? 8) then
              announce_tlv_loop fuel' q' margin parent path_enabled acc locks'
            else
              announce_tlv_loop fuel' q' (margin - fwd_size f) parent path_enabled
                                (acc ++ encode_tlv (fw_tlv f)) locks'
          else Ok (acc, locks)
      end
  end.

Definition PATH_CAPACITY : nat := 128.

Definition send_announce (p : port) (d : inst_ds) (queue : list fwd_tlv) : hres :=
  if is_master (p_state p) then
    let seq := p_seq_announce p in
    let p1 := port_with_seqs p (gen16 seq) (p_seq_sync p) (p_seq_delay p) (p_seq_pdelay p) in
    let m := msg_announce d (p_identity p) seq (pc_minor (p_config p)) in
    let margin0 := MAX_DATA_LEN - wire_size m in
    let '(path_bytes, margin1) :=
      if ds_path_enable d then
        if (length (ds_path d) <? PATH_CAPACITY)%nat then
          let path := ds_path d ++ [dd_clock_identity (ds_default d)] in
          let value := flat_map (be_encode 8) path in
          let size := 4 + blen value in
          if size <? margin0 then (encode_tlv (mkTlv 8 value), margin0 - size) else ([], margin0)
        else ([], margin0)
      else ([], margin0) in
    let! r := announce_tlv_loop (length queue) queue margin1 (pd_parent (ds_parent d))
                                (ds_path_enable d) path_bytes [] in
    let '(suffix, locks) := r in
    let! frame := serialize_packet (mkMsg (m_header m) (m_body m) suffix) in
    ret p1 d ([rd_lock; rd_lock] ++ locks ++
              [AResetAnnounceTimer (interval_ns (pc_log_announce (p_config p)));
               ASendGeneral frame false])
  else ret p d [].

Definition handle_delay_req (p : port) (d : inst_ds) (h : header) (ts : Z) : hres :=
  if is_master (p_state p) then
    let! m := msg_delay_resp h (p_identity p) (dm_interval (pc_delay (p_config p))) ts in
    let! frame := serialize_packet m in
    ret p d [ASendGeneral frame false]
  else ret p d [].

Definition handle_pdelay_req (p : port) (d : inst_ds) (h : header) (ts : Z) : hres :=
  let! m := msg_pdelay_resp (ds_default d) (p_identity p) h ts (pc_minor (p_config p)) in
  let! frame := serialize_packet m in
  ret p d [rd_lock; ASendEvent (CtxPDelayResp (h_seq h) (h_source h)) frame true].

Definition handle_pdelay_response_timestamp (p : port) (d : inst_ds) (id : Z) (requestor : port_identity) (ts : Z) : hres :=
  let! m := msg_pdelay_resp_follow_up (ds_default d) (p_identity p) requestor id ts (pc_minor (p_config p)) in
  let! frame := serialize_packet m in
  ret p d [rd_lock; ASendGeneral frame true].

Definition send_delay_request (p : port) (d : inst_ds) : hres :=
  match pc_delay (p_config p) with
  | P2P log =>
      let seq := p_seq_pdelay p in
      let p1 := port_with_seqs p (p_seq_announce p) (p_seq_sync p) (p_seq_delay p) (gen16 seq) in
      let! frame := serialize_packet (msg_pdelay_req (ds_default d) (p_identity p) seq (pc_minor (p_config p))) in
      let p2 := port_with_peer p1 (PDMeasuring seq None None None None None) in
      let '(k, p3) := draw p2 in
      ret p3 d [rd_lock; AResetDelayRequestTimer (delay_req_duration_ns log k);
                ASendEvent (CtxPDelayReq seq) frame true]
  | E2E log =>
      match p_state p with
      | PSlave st =>
          let seq := p_seq_delay p in
          let p1 := port_with_seqs p (p_seq_announce p) (p_seq_sync p) (gen16 seq) (p_seq_pdelay p) in
          let! frame := serialize_packet (msg_delay_req (ds_default d) (p_identity p) seq (pc_minor (p_config p))) in
          let p2 := set_slave p1 (mkSS (ss_remote st) (ss_sync st) (MMeasuring seq None None) (ss_last_raw_sync st)) in
          let '(k, p3) := draw p2 in
          ret p3 d [rd_lock; AResetDelayRequestTimer (delay_req_duration_ns log k);
                    ASendEvent (CtxDelayReq seq) frame false]
      | _ => ret p d []
      end
  end.

(** * Announce reception (port/bmca.rs handle_announce) *)
Fixpoint chunks8 (fuel : nat) (b : bytes) : list Z :=
  match fuel with
  | O => []
  | S fuel' => if (8 <=? length b)%nat then be_decode (firstn 8 b) :: chunks8 fuel' (skipn 8 b) else []
  end.
Definition path_of_value (v : bytes) : list Z := chunks8 (length v) v.

Fixpoint find_tlv (t : Z) (l : list tlv) : option tlv :=
  match l with
  | [] => None
  | x :: l' => if tlv_type x =? t then Some x else find_tlv t l'
  end.

Definition forward_obs (suffix : bytes) (sender : port_identity) : list obs :=
  map (fun t => AForwardTLV t sender)
      (filter (fun t => tlv_announce_propagate (tlv_type t)) (tlvs_of suffix)).

Definition handle_announce (p : port) (d : inst_ds) (ti : Z) (m : message) (a : announce_body) : hres :=
  let h := m_header m in
  (* S1 data set update while slave of the sender *)
  let! r :=
    (if is_slave (p_state p) && (an_steps_removed a <? 255) then
       if pi_eqb (h_source h) (pd_parent (ds_parent d)) then
         let tlvo := if ds_path_enable d then find_tlv 8 (tlvs_of (m_suffix m)) else None in
         let! steps := chk_u site_steps_add 16 (an_steps_removed a + 1) in
         let par := mkPD (h_source h) (an_gm_identity a) (an_quality a) (an_prio1 a) (an_prio2 a) in
         let tp := ann_time_props h a in
         match tlvo with
         | Some t =>
             let path := path_of_value (tlv_value t) in
             if (PATH_CAPACITY <? length path)%nat then Ok (d, true, [rd_lock; wr_lock])
             else if existsb (fun ci => ci =? dd_clock_identity (ds_default d)) path
             then Ok (d, true, [rd_lock; wr_lock])
             else Ok (ds_with d steps par path tp, false, [rd_lock; wr_lock])
         | None => Ok (ds_with d steps par [] tp, false, [rd_lock; wr_lock])
         end
       else Ok (d, false, [rd_lock])
     else Ok (d, false, [])) in
  let '(d1, loop_detected, locks) := r in
  if loop_detected then ret p d1 locks else
  let '(accepted, fml) := bmca_register (p_identity p) (pc_acceptable (p_config p)) ti (p_fml p) h a in
  if accepted then
    let p1 := port_with_fml p fml in
    let '(p2, o) :=
      (* a faulty port only recovers through a clean peer delay exchange (repaired F26) *)
      if (pi_clock (p_identity p1) =? pi_clock (h_source h))
         && (pi_port (h_source h) <? pi_port (p_identity p1))
         && negb (is_faulty (p_state p1))
      then set_forced (port_with_multiport p1 (Some 0)) PPassive
      else (p1, []) in
    let '(k, p3) := draw p2 in
    ret p3 d1 (locks ++ o ++ [AResetAnnounceReceiptTimer (announce_duration_ns (p_config p) k)]
               ++ forward_obs (m_suffix m) (h_source h))
  else ret p d1 locks.

(** * Timers of mod.rs *)
Definition handle_announce_receipt_timer (p : port) (d : inst_ds) : hres :=
  if is_faulty (p_state p) then
    (* repaired F8: a faulty port stays faulty; the timer is kept running *)
    let '(k, p1) := draw p in
    ret p1 d [AResetAnnounceReceiptTimer (announce_duration_ns (p_config p) k)]
  else
  if dd_slave_only (ds_default d) then
    let '(p1, o) := if is_listening (p_state p) then (p, []) else set_forced p PListening in
    let '(k, p2) := draw p1 in
    ret p2 d ([rd_lock] ++ o ++ [AResetAnnounceReceiptTimer (announce_duration_ns (p_config p) k)])
  else
    let '(p1, o) := if is_master (p_state p) then (p, []) else set_forced p PMaster in
    ret p1 d ([rd_lock] ++ o ++ [AResetAnnounceTimer 0; AResetSyncTimer 0]).

Definition handle_filter_update_timer (p : port) (d : inst_ds) : hres :=
  ret p d [OFilterUpdate].

(** * Frame reception *)
Definition handle_general_internal (p : port) (d : inst_ds) (ti : Z) (m : message) : hres :=
  match m_body m with
  | BAnnounce a => handle_announce p d ti m a
  | BFollowUp t => handle_follow_up p d (m_header m) t
  | BDelayResp t r => handle_delay_resp p d (m_header m) t r
  | BPDelayRespFollowUp t r => handle_peer_delay_follow_up p d (m_header m) t r
  | _ => ret p d []
  end.

Definition parse_and_filter (d : inst_ds) (frame : bytes) : option message * list obs :=
  if negb (is_compatible frame) then (None, []) else
  match decode frame with
  | RErr _ => (None, [])
  | ROk m =>
      if (h_sdo_id (m_header m) =? dd_sdo_id (ds_default d))
         && (h_domain (m_header m) =? dd_domain (ds_default d))
      then (Some m, [rd_lock]) else (None, [rd_lock])
  end.

Definition prepend (o : list obs) (r : hres) : hres :=
  let! x := r in let '(p, d, o') := x in Ok (p, d, o ++ o').

Definition handle_event_receive (p : port) (d : inst_ds) (ti : Z) (frame : bytes) (ts : Z) : hres :=
  match parse_and_filter d frame with
  | (None, o) => ret p d o
  | (Some m, o) =>
      prepend o
        (match m_body m with
         | BSync origin => handle_sync p d (m_header m) origin ts
         | BDelayReq _ => handle_delay_req p d (m_header m) ts
         | BPDelayReq _ => handle_pdelay_req p d (m_header m) ts
         | BPDelayResp t r => handle_peer_delay_response p d (m_header m) t r ts
         | _ => handle_general_internal p d ti m
         end)
  end.

Definition handle_general_receive (p : port) (d : inst_ds) (ti : Z) (frame : bytes) : hres :=
  match parse_and_filter d frame with
  | (None, o) => ret p d o
  | (Some m, o) => prepend o (handle_general_internal p d ti m)
  end.

Definition handle_send_timestamp (p : port) (d : inst_ds) (c : ts_context) (ts : Z) : hres :=
  match c with
  | CtxSync id => handle_sync_timestamp p d id ts
  | CtxDelayReq id => handle_delay_timestamp p d id ts
  | CtxPDelayReq id => handle_pdelay_timestamp p d id ts
  | CtxPDelayResp id r => handle_pdelay_response_timestamp p d id r ts
  end.
