(** Which observations carry frames: "no frame" lemmas for the non-emitting
    handlers and well-formedness of every frame the emitters build. *)
From SV Require Export Port.InvRun.

Definition is_send (x : obs) : bool :=
  match x with ASendEvent _ _ _ | ASendGeneral _ _ => true | _ => false end.
(** [calm sl o]: no frame, no clock call, and sync/delay measurements only if [sl]
    (the port was slave before the call) *)
Definition obs_ok (sl : bool) (x : obs) : bool :=
  match x with
  | ASendEvent _ _ _ | ASendGeneral _ _ | OClockSetProps _ => false
  | OFilterMeas m => match me_raw_sync m, me_raw_delay m with None, None => true | _, _ => sl end
  | _ => true
  end.
Definition calm (sl : bool) (o : list obs) : bool := forallb (obs_ok sl) o.
Definition no_send (o : list obs) : bool := forallb (fun x => negb (is_send x)) o.

Lemma calm_app sl a b : calm sl (a ++ b) = calm sl a && calm sl b.
Proof. unfold calm. apply forallb_app. Qed.
Lemma no_send_app a b : no_send (a ++ b) = no_send a && no_send b.
Proof. unfold no_send. apply forallb_app. Qed.
Lemma calm_no_send sl o : calm sl o = true -> no_send o = true.
Proof.
  unfold calm, no_send. intros H. apply forallb_forall. intros x Hx.
  rewrite forallb_forall in H. specialize (H x Hx). destruct x; try reflexivity; discriminate.
Qed.

Lemma no_send_frames o : no_send o = true -> sent_frames o = [].
Proof.
  unfold no_send, sent_frames. induction o as [|x o IH]; cbn [forallb flat_map]; [reflexivity|].
  intros H. apply andb_true_iff in H as [Hx Ho]. rewrite (IH Ho). destruct x; try reflexivity; discriminate.
Qed.

Lemma set_forced_calm sl p s : calm sl (snd (set_forced p s)) = true.
Proof. unfold set_forced. cbn [snd]. destruct (_ || _); reflexivity. Qed.

(** the measurement extracted: sync / delay measurements only on a slave port *)
Lemma extract_measurement_calm p p' om o :
  extract_measurement p = Ok (p', om, o) ->
  calm (is_slave (p_state p)) o = true /\
  (forall m, om = Some m -> obs_ok (is_slave (p_state p)) (OFilterMeas m) = true).
Proof.
  unfold extract_measurement, set_forced. intros H. crunch H;
    repeat match goal with E : (if ?c then _ else _) = (_, _) |- _ => destruct c; inversion E; subst; clear E end;
    (split; [try reflexivity; match goal with |- context [if ?c then _ else _] => destruct c end; reflexivity|]);
    intros m0 Hm0; inversion Hm0; subst; try reflexivity;
    cbn [obs_ok me_raw_sync me_raw_delay];
    repeat match goal with E : p_state _ = PSlave _ |- _ => rewrite E end; reflexivity.
Qed.

Lemma handle_time_measurement_calm p d p' d' o :
  handle_time_measurement p d = Ok (p', d', o) -> calm (is_slave (p_state p)) o = true.
Proof.
  unfold handle_time_measurement. intros H.
  destruct (extract_measurement p) as [[[p1 om] o1]|?] eqn:E; cbn [obind] in H; [|discriminate].
  destruct (extract_measurement_calm _ _ _ _ E) as [H1 H2].
  destruct om; unfold ret in H; inversion H; subst; [|exact H1].
  rewrite calm_app, H1. cbn [calm forallb andb]. rewrite (H2 _ eq_refl). reflexivity.
Qed.

Ltac htm_close :=
  match goal with Hx : handle_time_measurement ?q _ = Ok _ |- calm _ _ = true =>
    let Hc := fresh "Hc" in
    pose proof (handle_time_measurement_calm _ _ _ _ _ Hx) as Hc;
    cbn [set_slave port_with_state port_with_peer p_state is_slave] in Hc;
    repeat match goal with E : p_state _ = PSlave _ |- _ => rewrite E end;
    cbn [is_slave]; exact Hc
  end.

Lemma go_faulty_calm sl p d p' d' o : go_faulty p d = Ok (p', d', o) -> calm sl o = true.
Proof.
  unfold go_faulty, ret. pose proof (set_forced_calm sl p PFaulty) as Hs. destruct (set_forced p PFaulty) as [p1 o1].
  intros H. inversion H; subst. exact Hs.
Qed.

Ltac ns H :=
  crunch H; try reflexivity; try htm_close;
  try (match goal with Hx : go_faulty _ _ = Ok _ |- _ => exact (go_faulty_calm _ _ _ _ _ _ Hx) end).

Lemma handle_sync_calm p d h w t p' d' o : handle_sync p d h w t = Ok (p', d', o) -> calm (is_slave (p_state p)) o = true.
Proof. unfold handle_sync. intros H. ns H. Qed.
Lemma handle_follow_up_calm p d h w p' d' o : handle_follow_up p d h w = Ok (p', d', o) -> calm (is_slave (p_state p)) o = true.
Proof. unfold handle_follow_up. intros H. ns H. Qed.
Lemma handle_delay_resp_calm p d h w r p' d' o : handle_delay_resp p d h w r = Ok (p', d', o) -> calm (is_slave (p_state p)) o = true.
Proof. unfold handle_delay_resp. intros H. ns H. Qed.
Lemma handle_delay_timestamp_calm p d id t p' d' o : handle_delay_timestamp p d id t = Ok (p', d', o) -> calm (is_slave (p_state p)) o = true.
Proof. unfold handle_delay_timestamp. intros H. ns H. Qed.
Lemma handle_pdelay_timestamp_calm p d id t p' d' o : handle_pdelay_timestamp p d id t = Ok (p', d', o) -> calm (is_slave (p_state p)) o = true.
Proof. unfold handle_pdelay_timestamp. intros H. ns H. Qed.
Lemma handle_peer_delay_response_calm p d h w r t p' d' o :
  handle_peer_delay_response p d h w r t = Ok (p', d', o) -> calm (is_slave (p_state p)) o = true.
Proof. unfold handle_peer_delay_response. intros H. ns H. Qed.
Lemma handle_peer_delay_follow_up_calm p d h w r p' d' o :
  handle_peer_delay_follow_up p d h w r = Ok (p', d', o) -> calm (is_slave (p_state p)) o = true.
Proof. unfold handle_peer_delay_follow_up. cbv zeta. intros H. ns H. Qed.

Lemma forward_obs_calm sl s src : calm sl (forward_obs s src) = true.
Proof. unfold forward_obs, calm. apply forallb_forall. intros x Hx. apply in_map_iff in Hx. destruct Hx as [t [<- _]]. reflexivity. Qed.

Lemma handle_announce_calm sl p d ti m a p' d' o :
  handle_announce p d ti m a = Ok (p', d', o) -> calm sl o = true.
Proof.
  unfold handle_announce. cbv zeta. intros H.
  match type of H with obind ?X _ = _ => destruct X as [[[d1 lp] locks]|?] eqn:Er end; cbn [obind] in H; [|discriminate].
  assert (Hl : calm sl locks = true).
  { crunch Er; reflexivity. }
  destruct lp; [unfold ret in H; inversion H; subst; exact Hl|].
  destruct (bmca_register _ _ _ _ _ _) as [acc fml]. destruct acc; [|unfold ret in H; inversion H; subst; exact Hl].
  match type of H with context [if ?c then set_forced ?x ?y else ?z] =>
    pose proof (set_forced_calm sl x y) as Hs; destruct c end.
  - destruct (set_forced _ _) as [p2 o2]. cbn [snd] in Hs. destruct (draw p2) as [k p3].
    unfold ret in H. inversion H; subst. rewrite !calm_app. rewrite Hl, Hs. cbn [andb]. apply forward_obs_calm.
  - match type of H with context [draw ?x] => destruct (draw x) as [k p3] end.
    unfold ret in H. inversion H; subst. rewrite !calm_app. rewrite Hl. cbn [andb]. apply forward_obs_calm.
Qed.

Lemma receipt_timer_calm sl p d p' d' o : handle_announce_receipt_timer p d = Ok (p', d', o) -> calm sl o = true.
Proof.
  unfold handle_announce_receipt_timer, set_forced. intros H.
  repeat match type of H with
  | context [draw ?x] => destruct (draw x) as [? ?]
  | context [if ?c then _ else _] => destruct c
  end; unfold ret in H; inversion H; subst; try reflexivity;
  repeat match goal with |- context [if ?c then _ else _] => destruct c end; reflexivity.
Qed.

Lemma handle_general_internal_calm p d ti m p' d' o :
  handle_general_internal p d ti m = Ok (p', d', o) -> calm (is_slave (p_state p)) o = true.
Proof.
  unfold handle_general_internal. intros H. destruct (m_body m); try (unfold ret in H; inversion H; reflexivity).
  - eapply handle_follow_up_calm; eauto.
  - eapply handle_delay_resp_calm; eauto.
  - eapply handle_peer_delay_follow_up_calm; eauto.
  - eapply handle_announce_calm; eauto.
Qed.

Lemma parse_calm sl d frame : calm sl (snd (parse_and_filter d frame)) = true.
Proof.
  unfold parse_and_filter. destruct (negb _); [reflexivity|]. destruct (decode frame); [|reflexivity].
  destruct (_ && _); reflexivity.
Qed.

Lemma handle_general_receive_calm p d ti frame p' d' o :
  handle_general_receive p d ti frame = Ok (p', d', o) -> calm (is_slave (p_state p)) o = true.
Proof.
  unfold handle_general_receive. pose proof (parse_calm (is_slave (p_state p)) d frame) as Hp.
  destruct (parse_and_filter d frame) as [[m|] o1]; cbn [snd] in Hp; intros H.
  - unfold prepend in H. destruct (handle_general_internal p d ti m) as [[[p1 d1] o2]|?] eqn:E; cbn [obind] in H; [|discriminate].
    inversion H; subst. rewrite calm_app, Hp. eapply handle_general_internal_calm; eauto.
  - unfold ret in H. inversion H; subst. exact Hp.
Qed.

(** corollaries in terms of frames *)
Lemma handle_general_receive_no_send p d ti frame p' d' o :
  handle_general_receive p d ti frame = Ok (p', d', o) -> no_send o = true.
Proof. intros H. eapply calm_no_send. eapply handle_general_receive_calm; eauto. Qed.
Lemma handle_sync_no_send p d h w t p' d' o : handle_sync p d h w t = Ok (p', d', o) -> no_send o = true.
Proof. intros H. eapply calm_no_send. eapply handle_sync_calm; eauto. Qed.
Lemma handle_delay_timestamp_no_send p d id t p' d' o : handle_delay_timestamp p d id t = Ok (p', d', o) -> no_send o = true.
Proof. intros H. eapply calm_no_send. eapply handle_delay_timestamp_calm; eauto. Qed.
Lemma handle_pdelay_timestamp_no_send p d id t p' d' o : handle_pdelay_timestamp p d id t = Ok (p', d', o) -> no_send o = true.
Proof. intros H. eapply calm_no_send. eapply handle_pdelay_timestamp_calm; eauto. Qed.
Lemma handle_peer_delay_response_no_send p d h w r t p' d' o :
  handle_peer_delay_response p d h w r t = Ok (p', d', o) -> no_send o = true.
Proof. intros H. eapply calm_no_send. eapply handle_peer_delay_response_calm; eauto. Qed.
Lemma receipt_timer_no_send p d p' d' o : handle_announce_receipt_timer p d = Ok (p', d', o) -> no_send o = true.
Proof. intros H. eapply calm_no_send. eapply (receipt_timer_calm true); eauto. Qed.

Lemma general_receive_never_sends p d ti frame p' d' o :
  handle_general_receive p d ti frame = Ok (p', d', o) -> sent_frames o = [].
Proof. intros. apply no_send_frames. eapply handle_general_receive_no_send; eauto. Qed.

Lemma slave_side_never_sends p d p' d' o :
  (forall h w t, handle_sync p d h w t = Ok (p', d', o) -> sent_frames o = []) /\
  (forall id t, handle_delay_timestamp p d id t = Ok (p', d', o) -> sent_frames o = []) /\
  (forall id t, handle_pdelay_timestamp p d id t = Ok (p', d', o) -> sent_frames o = []) /\
  (forall h w r t, handle_peer_delay_response p d h w r t = Ok (p', d', o) -> sent_frames o = []) /\
  (handle_announce_receipt_timer p d = Ok (p', d', o) -> sent_frames o = []).
Proof.
  repeat split; intros; apply no_send_frames;
    eauto using handle_sync_no_send, handle_delay_timestamp_no_send, handle_pdelay_timestamp_no_send,
                handle_peer_delay_response_no_send, receipt_timer_no_send.
Qed.

(** * Every frame the emitters build decodes, and is sent in the right role *)
From SV Require Import Port.OracleC08 Port.OracleC17 Port.LemmasC17 Port.OracleC11 Port.LemmasC11.

(** what is known about one emitted frame: it is the encoding of a well-formed
    message [m] (so the library's own parser returns [m]), built from the port's
    identity and the instance's domain, sent on the channel of its type, within
    the packet buffer, in the right role, and - for an Announce - reflecting the
    data sets *)
(** a counted message carries the current value of its sequence counter *)
Definition seq_fact (p : port) (m : message) : Prop :=
  match body_type (m_body m) with
  | MTSync => h_seq (m_header m) = p_seq_sync p
  | MTDelayReq => h_seq (m_header m) = p_seq_delay p
  | MTPDelayReq => h_seq (m_header m) = p_seq_pdelay p
  | MTAnnounce => h_seq (m_header m) = p_seq_announce p
  | _ => True
  end.

Definition frame_role (p : port) (d : inst_ds) (x : bool * bytes) : Prop :=
  exists m, decode (snd x) = ROk m /\
    (master_role_type (body_type (m_body m)) = true -> is_master (p_state p) = true) /\
    (body_type (m_body m) = MTDelayReq -> is_slave (p_state p) = true) /\
    snd x = encode_raw m /\ h_source (m_header m) = p_identity p /\
    h_domain (m_header m) = dd_domain (ds_default d) /\ h_sdo_id (m_header m) = dd_sdo_id (ds_default d) /\
    wire_size m <= MAX_DATA_LEN /\ fst x = is_event_frame_type (body_type (m_body m)) /\
    announce_reflects d m = true /\ seq_fact p m.
Definition frames_role (p : port) (d : inst_ds) (o : list obs) : Prop := Forall (frame_role p d) (sent_frames o).

Lemma frames_role_none p d o : no_send o = true -> frames_role p d o.
Proof. intros H. unfold frames_role. rewrite (no_send_frames _ H). constructor. Qed.

Lemma serialize_inv m f : serialize_packet m = Ok f -> f = encode_raw m.
Proof. unfold serialize_packet, encode. destruct (_ <? _); intros H; inversion H; reflexivity. Qed.

Lemma wf_suffix_nil : wf_suffix [].
Proof. split; [constructor|reflexivity]. Qed.

Lemma dd_ranges d : dd_wfb d = true -> 0 <= dd_sdo_id d < 4096 /\ 0 <= dd_domain d < 256.
Proof.
  unfold dd_wfb. intros H. apply andb_true_iff in H as [H S]. apply andb_true_iff in H as [_ Dm].
  apply u_ok_iff in S. apply u_ok_iff in Dm. change (2 ^ 12) with 4096 in S. change (2 ^ 8) with 256 in Dm. lia.
Qed.

Lemma port_ranges p : port_wfb p = true ->
  wf_pi (p_identity p) /\ 0 <= p_seq_announce p < 65536 /\ 0 <= p_seq_sync p < 65536 /\
  0 <= p_seq_delay p < 65536 /\ 0 <= p_seq_pdelay p < 65536.
Proof.
  unfold port_wfb. intros H.
  apply andb_true_iff in H as [H S4]. apply andb_true_iff in H as [H S3]. apply andb_true_iff in H as [H S2].
  apply andb_true_iff in H as [H S1]. apply andb_true_iff in H as [H P2]. apply andb_true_iff in H as [C P1].
  apply u_ok_iff in S1, S2, S3, S4, C. change (2 ^ 16) with 65536 in *. change (2 ^ 64) with 18446744073709551616 in C.
  unfold wf_pi. lia.
Qed.

Lemma base_header_wf d src seq minor :
  dd_wfb d = true -> wf_pi src -> 0 <= seq < 65536 -> 0 <= minor < 16 -> wf_header (base_header d src seq minor).
Proof.
  intros Hd Hs Hq Hm. destruct (dd_ranges d Hd). unfold wf_header, base_header.
  cbn [h_sdo_id h_version_major h_version_minor h_domain h_correction h_source h_seq h_log_interval]. repeat split; try lia; apply Hs.
Qed.

Lemma ds_dd_wfb d : ds_inv d -> dd_wfb (ds_default d) = true.
Proof. intros [_ Hw]. unfold ds_wfb in Hw. do 4 (apply andb_true_iff in Hw as [Hw _]). exact Hw. Qed.
Lemma inv_port_ranges p : port_inv p ->
  wf_pi (p_identity p) /\ 0 <= p_seq_announce p < 65536 /\ 0 <= p_seq_sync p < 65536 /\
  0 <= p_seq_delay p < 65536 /\ 0 <= p_seq_pdelay p < 65536.
Proof. intros (_ & _ & _ & _ & _ & _ & H). apply port_ranges. exact H. Qed.
Lemma inv_minor p : port_inv p -> 0 <= pc_minor (p_config p) < 16.
Proof. intros ((_ & _ & _ & _ & _ & H) & _). exact H. Qed.

Lemma role_of_msg p d (m : message) (ev : bool) :
  wf_msg m ->
  (master_role_type (body_type (m_body m)) = true -> is_master (p_state p) = true) ->
  (body_type (m_body m) = MTDelayReq -> is_slave (p_state p) = true) ->
  h_source (m_header m) = p_identity p ->
  h_domain (m_header m) = dd_domain (ds_default d) -> h_sdo_id (m_header m) = dd_sdo_id (ds_default d) ->
  wire_size m <= MAX_DATA_LEN -> ev = is_event_frame_type (body_type (m_body m)) ->
  announce_reflects d m = true -> seq_fact p m ->
  frame_role p d (ev, encode_raw m).
Proof. intros Hw H1 H2 H3 H4 H5 H6 H7 H8 H9. exists m. split; [apply encode_decode; exact Hw|]. repeat split; assumption. Qed.

(** the side facts are all by computation for the fixed-size messages *)
Ltac side_facts :=
  try reflexivity; try exact I;
  try (match goal with |- wire_size _ <= _ => cbv; discriminate end);
  try (match goal with
       | |- body_type _ = MTDelayReq -> _ => let Hx := fresh in intros Hx; cbn in Hx; discriminate Hx
       | |- master_role_type _ = true -> _ => let Hx := fresh in intros Hx; cbn in Hx; discriminate Hx
       end).

Lemma fixed_msg_wf h b : wf_header h -> wf_body b -> (match b with BAnnounce _ => False | _ => True end) ->
  wf_msg (mkMsg h b []).
Proof.
  intros Hh Hb Hn. unfold wf_msg. cbn [m_header m_body m_suffix]. split; [exact Hh|]. split; [exact Hb|].
  split; [apply wf_suffix_nil|]. destruct b; try contradiction; cbv; reflexivity.
Qed.

Lemma wf_ts_zero : wf_ts ts_zero. Proof. unfold wf_ts, ts_zero. cbn. lia. Qed.

Lemma send_sync_role p d p' d' o :
  port_inv p -> ds_inv d -> send_sync p d = Ok (p', d', o) -> frames_role p d o.
Proof.
  intros Hp Hd. unfold send_sync. destruct (is_master (p_state p)) eqn:Em; [|intros H; inversion H; constructor].
  destruct (serialize_packet _) as [f|?] eqn:Ef; cbn [obind]; [|discriminate]. intros H. unfold ret in H. injection H as <- <- <-.
  apply serialize_inv in Ef. subst f. unfold frames_role. cbn [sent_frames flat_map app].
  constructor; [|constructor]. apply role_of_msg; side_facts.
  - apply fixed_msg_wf; [|exact wf_ts_zero|exact I].
    pose proof (base_header_wf (ds_default d) (p_identity p) (p_seq_sync p) (pc_minor (p_config p)) (ds_dd_wfb d Hd)
                  (proj1 (inv_port_ranges p Hp)) ltac:(apply (inv_port_ranges p Hp)) (inv_minor p Hp)) as Hb.
    unfold wf_header in *. cbn in *. exact Hb.
  - intros _. exact Em.
Qed.

Lemma with_two_step_wf h b : wf_header h -> wf_header (with_two_step h b).
Proof. unfold wf_header, with_two_step. cbn. tauto. Qed.
Lemma with_correction_wf h c : wf_header h -> - 9223372036854775808 <= c < 9223372036854775808 -> wf_header (with_correction h c).
Proof. unfold wf_header, with_correction. cbn. tauto. Qed.
Lemma with_log_interval_wf h l : wf_header h -> -128 <= l < 128 -> wf_header (with_log_interval h l).
Proof. unfold wf_header, with_log_interval. cbn. tauto. Qed.
Lemma with_source_wf h s : wf_header h -> wf_pi s -> wf_header (with_source h s).
Proof. unfold wf_header, with_source. cbn. tauto. Qed.

Lemma wire_of_time_wf t w : ts_valid t -> wire_of_time t = Ok w -> wf_ts w.
Proof.
  intros Ht Hw. destruct (wire_of_time_exact t (ts_valid_in_range t Ht)) as (w' & Hw' & Hs & Hn & _).
  rewrite Hw in Hw'. inversion Hw'; subst w'. unfold wf_ts. change (2 ^ 48) with 281474976710656 in Hs.
  unfold NS_PER_S in Hn. lia.
Qed.

Lemma subnano_range t : 0 <= time_subnano t < 65536.
Proof.
  unfold time_subnano, FRAC. pose proof (Z.mod_pos_bound t (2 ^ 32) ltac:(pv; lia)) as H.
  change (2 ^ 32) with (65536 * 2 ^ 16) in H at 2. change (2 ^ 16) with 65536 in *. split.
  - apply Z.div_pos; lia.
  - apply Z.div_lt_upper_bound; lia.
Qed.

Ltac emit_start H Ef :=
  match type of H with obind (serialize_packet ?m) _ = _ =>
    destruct (serialize_packet m) as [f|?] eqn:Ef; cbn [obind] in H; [|discriminate H];
    unfold ret in H; injection H as <- <- <-; apply serialize_inv in Ef; subst f
  end.

Lemma handle_sync_timestamp_role p d id ts p' d' o :
  port_inv p -> ds_inv d -> ts_valid ts -> 0 <= id < 65536 ->
  handle_sync_timestamp p d id ts = Ok (p', d', o) -> frames_role p d o.
Proof.
  intros Hp Hd Hts Hid. unfold handle_sync_timestamp.
  destruct (is_master (p_state p)) eqn:Em; [|intros H; unfold ret in H; injection H as <- <- <-; constructor].
  unfold msg_follow_up. destruct (wire_of_time ts) as [w|?] eqn:Ew; cbn [obind]; [|discriminate].
  intros H. emit_start H Ef. unfold frames_role. cbn [sent_frames flat_map app]. constructor; [|constructor].
  apply role_of_msg; side_facts; [|intros _; exact Em].
  apply fixed_msg_wf; [| |exact I].
  - apply with_correction_wf; [|pose proof (subnano_range ts); lia].
    apply base_header_wf; [apply ds_dd_wfb; exact Hd|apply (inv_port_ranges p Hp)|exact Hid|apply inv_minor; exact Hp].
  - cbn. eapply wire_of_time_wf; eauto.
Qed.

Lemma handle_delay_req_role p d h ts p' d' o :
  port_inv p -> ds_inv d -> wf_header h -> ts_valid ts ->
  h_domain h = dd_domain (ds_default d) -> h_sdo_id h = dd_sdo_id (ds_default d) ->
  handle_delay_req p d h ts = Ok (p', d', o) -> frames_role p d o.
Proof.
  intros Hp Hd Hh Hts Hdom Hsdo. unfold handle_delay_req.
  destruct (is_master (p_state p)) eqn:Em; [|intros H; unfold ret in H; injection H as <- <- <-; constructor].
  unfold msg_delay_resp. destruct (wire_of_time ts) as [w|?] eqn:Ew; cbn [obind]; [|discriminate].
  intros H. emit_start H Ef. unfold frames_role. cbn [sent_frames flat_map app]. constructor; [|constructor].
  apply role_of_msg; side_facts; [|intros _; exact Em|exact Hdom|exact Hsdo].
  apply fixed_msg_wf; [| |exact I].
  - apply with_log_interval_wf.
    + apply with_correction_wf; [|change (2 ^ 63) with 9223372036854775808; lia].
      apply with_source_wf; [apply with_two_step_wf; exact Hh|apply (inv_port_ranges p Hp)].
    + destruct Hp as ((_ & _ & H & _) & _). lia.
  - cbn. split; [eapply wire_of_time_wf; eauto|apply Hh].
Qed.

Lemma handle_pdelay_req_role p d h ts p' d' o :
  port_inv p -> ds_inv d -> wf_header h -> ts_valid ts ->
  handle_pdelay_req p d h ts = Ok (p', d', o) -> frames_role p d o.
Proof.
  intros Hp Hd Hh Hts. unfold handle_pdelay_req, msg_pdelay_resp.
  destruct (wire_of_time ts) as [w|?] eqn:Ew; cbn [obind]; [|discriminate].
  intros H. emit_start H Ef. unfold frames_role. cbn [sent_frames flat_map app]. constructor; [|constructor].
  apply role_of_msg; side_facts.
  apply fixed_msg_wf; [| |exact I].
  - apply with_correction_wf; [|apply Hh]. apply with_two_step_wf.
    apply base_header_wf; [apply ds_dd_wfb; exact Hd|apply (inv_port_ranges p Hp)|apply Hh|apply inv_minor; exact Hp].
  - cbn. split; [eapply wire_of_time_wf; eauto|apply Hh].
Qed.

Lemma handle_pdelay_response_timestamp_role p d id rq ts p' d' o :
  port_inv p -> ds_inv d -> ts_valid ts -> 0 <= id < 65536 -> wf_pi rq ->
  handle_pdelay_response_timestamp p d id rq ts = Ok (p', d', o) -> frames_role p d o.
Proof.
  intros Hp Hd Hts Hid Hrq. unfold handle_pdelay_response_timestamp, msg_pdelay_resp_follow_up.
  destruct (wire_of_time ts) as [w|?] eqn:Ew; cbn [obind]; [|discriminate].
  intros H. emit_start H Ef. unfold frames_role. cbn [sent_frames flat_map app]. constructor; [|constructor].
  apply role_of_msg; side_facts.
  apply fixed_msg_wf; [| |exact I].
  - apply base_header_wf; [apply ds_dd_wfb; exact Hd|apply (inv_port_ranges p Hp)|exact Hid|apply inv_minor; exact Hp].
  - cbn. split; [eapply wire_of_time_wf; eauto|exact Hrq].
Qed.

Lemma send_delay_request_role p d p' d' o :
  port_inv p -> ds_inv d -> send_delay_request p d = Ok (p', d', o) -> frames_role p d o.
Proof.
  intros Hp Hd. unfold send_delay_request. destruct (pc_delay (p_config p)) as [log|log].
  - destruct (p_state p) as [| | | |st] eqn:Est; try (intros H; unfold ret in H; injection H as <- <- <-; constructor).
    destruct (serialize_packet _) as [f|?] eqn:Ef; cbn [obind]; [|discriminate].
    match goal with |- context [draw ?x] => destruct (draw x) as [k p3] end.
    intros H. unfold ret in H. injection H as <- <- <-. apply serialize_inv in Ef. subst f.
    unfold frames_role. cbn [sent_frames flat_map app]. constructor; [|constructor].
    apply role_of_msg; side_facts; [|intros _; rewrite Est; reflexivity].
    apply fixed_msg_wf; [|exact wf_ts_zero|exact I]. apply with_log_interval_wf; [|lia].
    apply base_header_wf; [apply ds_dd_wfb; exact Hd|apply (inv_port_ranges p Hp)|apply (inv_port_ranges p Hp)|apply inv_minor; exact Hp].
  - destruct (serialize_packet _) as [f|?] eqn:Ef; cbn [obind]; [|discriminate].
    match goal with |- context [draw ?x] => destruct (draw x) as [k p3] end.
    intros H. unfold ret in H. injection H as <- <- <-. apply serialize_inv in Ef. subst f.
    unfold frames_role. cbn [sent_frames flat_map app]. constructor; [|constructor].
    apply role_of_msg; side_facts.
    apply fixed_msg_wf; [|exact wf_ts_zero|exact I].
    apply base_header_wf; [apply ds_dd_wfb; exact Hd|apply (inv_port_ranges p Hp)|apply (inv_port_ranges p Hp)|apply inv_minor; exact Hp].
Qed.

(** * Announce: the suffix built by the TLV loop is a list of well-formed TLVs *)
Lemma encode_tlvs_snoc ts t : encode_tlvs (ts ++ [t]) = encode_tlvs ts ++ encode_tlv t.
Proof. unfold encode_tlvs. rewrite map_app, concat_app. cbn [map concat]. rewrite app_nil_r. reflexivity. Qed.

Lemma tlv_loop_wf fuel : forall q margin parent pe ts locks r lk,
  Forall (fun f => tlv_wf (fw_tlv f)) q -> Forall tlv_wf ts ->
  announce_tlv_loop fuel q margin parent pe (encode_tlvs ts) locks = Ok (r, lk) ->
  exists ts', r = encode_tlvs ts' /\ Forall tlv_wf ts'.
Proof.
  induction fuel as [|fuel IH]; intros q margin parent pe ts locks r lk Hq Hts H; cbn [announce_tlv_loop] in H.
  - inversion H; subst. eauto.
  - destruct q as [|f q']; [inversion H; subst; eauto|].
    inversion Hq as [|? ? Hf Hq']; subst.
    destruct (fwd_size f <=? margin); [|inversion H; subst; eauto].
    destruct (negb (pi_eqb parent (fw_sender f))); [eapply IH; eauto|].
    destruct (pe && (tlv_type (fw_tlv f) =? 8)); [eapply IH; eauto|].
    rewrite <- encode_tlvs_snoc in H. eapply IH; [exact Hq'| |exact H].
    apply Forall_app. split; [exact Hts|constructor; [exact Hf|constructor]].
Qed.

Lemma flat_be8_bok l : bok (flat_map (be_encode 8) l).
Proof. induction l as [|x l IH]; cbn [flat_map]; [constructor|apply bok_app; [apply be_encode_bok|exact IH]]. Qed.
Lemma flat_be8_len l : blen (flat_map (be_encode 8) l) = 8 * Z.of_nat (length l).
Proof.
  unfold blen. induction l as [|x l IH]; cbn [flat_map length]; [reflexivity|].
  rewrite app_length, be_encode_length. lia.
Qed.

Lemma path_tlv_wf l : (length l <= 129)%nat -> tlv_wf (mkTlv 8 (flat_map (be_encode 8) l)).
Proof.
  intros Hl. unfold tlv_wf. cbn [tlv_type tlv_value]. rewrite flat_be8_len.
  split; [lia|]. split; [apply flat_be8_bok|]. split; [lia|].
  rewrite Z.mul_comm. replace (Z.of_nat (length l) * 8) with (Z.of_nat (length l) * 4 * 2) by lia. apply Z.mod_mul. lia.
Qed.

Lemma announce_msg_parts ds src seq minor :
  ds_wfb ds = true -> wf_pi src -> 0 <= seq < 65536 -> 0 <= minor < 16 ->
  wf_header (m_header (msg_announce ds src seq minor)) /\ wf_body (m_body (msg_announce ds src seq minor)).
Proof.
  intros Hw Hs Hq Hm. unfold ds_wfb in Hw.
  apply andb_true_iff in Hw as [Hw Htp]. apply andb_true_iff in Hw as [Hw _]. apply andb_true_iff in Hw as [Hw Hpd].
  apply andb_true_iff in Hw as [Hdd Hst].
  destruct (dd_ranges _ Hdd) as [Hsdo Hdom].
  unfold pd_wfb in Hpd. apply andb_true_iff in Hpd as [Hpd P2]. apply andb_true_iff in Hpd as [Hpd P1].
  apply andb_true_iff in Hpd as [Hpd Q]. apply andb_true_iff in Hpd as [_ G].
  unfold tp_wfb in Htp. apply andb_true_iff in Htp as [Htp TS]. apply andb_true_iff in Htp as [Htp L2].
  apply andb_true_iff in Htp as [U L1].
  apply u_ok_iff in Hst, P1, P2, G, TS. change (2 ^ 16) with 65536 in *. change (2 ^ 8) with 256 in *.
  change (2 ^ 64) with 18446744073709551616 in *.
  unfold cq_wfb in Q. apply andb_true_iff in Q as [Q V]. apply andb_true_iff in Q as [Q Ca]. apply andb_true_iff in Q as [Cl Ac].
  apply u_ok_iff in V, Cl, Ac. change (2 ^ 16) with 65536 in *. change (2 ^ 8) with 256 in *.
  unfold msg_announce. cbn [m_header m_body]. split.
  - unfold wf_header, base_header.
    cbn [h_sdo_id h_version_major h_version_minor h_domain h_correction h_source h_seq h_log_interval].
    repeat split; try lia; apply Hs.
  - cbn [wf_body]. unfold wf_ann. cbn [an_origin an_utc_offset an_prio1 an_quality an_prio2 an_gm_identity an_steps_removed an_time_source].
    split; [exact wf_ts_zero|]. split.
    { destruct (tp_utc_offset (ds_tp ds)); lia. }
    split; [lia|]. split; [unfold wf_cq; repeat split; try lia|]. repeat split; lia.
Qed.

Lemma send_announce_role p d q p' d' o :
  port_inv p -> ds_inv d -> Forall (fun f => tlv_wf (fw_tlv f)) q ->
  send_announce p d q = Ok (p', d', o) -> frames_role p d o.
Proof.
  intros Hp Hd Hq. unfold send_announce.
  destruct (is_master (p_state p)) eqn:Em; [|intros H; unfold ret in H; injection H as <- <- <-; constructor].
  set (m := msg_announce d (p_identity p) (p_seq_announce p) (pc_minor (p_config p))).
  (* the path TLV (or nothing) is a list of well-formed TLVs *)
  match goal with |- context [let '(a, b) := ?X in _] =>
    assert (Hpath : exists ts0, fst X = encode_tlvs ts0 /\ Forall tlv_wf ts0); [|destruct X as [pb m1]] end.
  { destruct (ds_path_enable d); [|exists []; split; [reflexivity|constructor]].
    destruct (length (ds_path d) <? PATH_CAPACITY)%nat eqn:Ec; [|exists []; split; [reflexivity|constructor]].
    match goal with |- context [if ?c then _ else _] => destruct c end; [|exists []; split; [reflexivity|constructor]].
    eexists [_]. split; [cbn [fst]; unfold encode_tlvs; cbn [map concat]; rewrite app_nil_r; reflexivity|].
    constructor; [|constructor]. apply path_tlv_wf. rewrite app_length. cbn [length].
    apply Nat.ltb_lt in Ec. unfold PATH_CAPACITY in Ec. lia. }
  cbn [fst] in Hpath. destruct Hpath as (ts0 & -> & Hts0).
  destruct (announce_tlv_loop _ _ _ _ _ _ _) as [[sfx locks]|?] eqn:El; cbn [obind]; [|discriminate].
  destruct (tlv_loop_wf _ _ _ _ _ _ _ _ _ Hq Hts0 El) as (ts' & -> & Hts').
  destruct (serialize_packet _) as [f|?] eqn:Ef; cbn [obind]; [|discriminate].
  intros H. unfold ret in H. injection H as <- <- <-.
  pose proof Ef as Efit. apply serialize_inv in Ef. subst f.
  unfold frames_role.
  assert (Hsf : forall lk a fr, no_send lk = true ->
            sent_frames (rd_lock :: rd_lock :: lk ++ [AResetAnnounceTimer a; ASendGeneral fr false]) = [(false, fr)]).
  { intros lk a fr Hl. change (rd_lock :: rd_lock :: lk ++ [AResetAnnounceTimer a; ASendGeneral fr false]) with ([rd_lock; rd_lock] ++ lk ++ [AResetAnnounceTimer a; ASendGeneral fr false]). unfold sent_frames. rewrite !flat_map_app. fold (sent_frames lk). rewrite (no_send_frames _ Hl). reflexivity. }
  rewrite Hsf.
  2: { pose proof (tlv_loop_locks _ _ _ _ _ _ _ _ _ El (Forall_nil _)) as Hl.
       unfold no_send. apply forallb_forall. intros x Hx. rewrite Forall_forall in Hl. rewrite (Hl x Hx). reflexivity. }
  assert (Hsize : wire_size (mkMsg (m_header m) (m_body m) (encode_tlvs ts')) <= MAX_DATA_LEN).
  { unfold serialize_packet, encode in Efit. destruct (MAX_DATA_LEN <? wire_size _) eqn:E; [discriminate|]. lia. }
  constructor; [|constructor]. apply role_of_msg; side_facts; [|intros _; exact Em|exact Hsize|].
  - destruct (announce_msg_parts d (p_identity p) (p_seq_announce p) (pc_minor (p_config p)) (proj2 Hd)
                (proj1 (inv_port_ranges p Hp)) ltac:(apply (inv_port_ranges p Hp)) (inv_minor p Hp)) as [Hh Hb].
    unfold wf_msg. cbn [m_header m_body m_suffix]. split; [exact Hh|]. split; [exact Hb|].
    split; [split; [apply encode_tlvs_bok; exact Hts'|apply encode_tlvs_accepted; exact Hts']|].
    unfold MAX_DATA_LEN in Hsize. lia.
  - exact (announce_reflects_ds d (p_identity p) (p_seq_announce p) (pc_minor (p_config p))).
Qed.

(** * Every host call on a port: frames by role, measurements by role, no clock call *)
Definition mc_ok (sl : bool) (x : obs) : bool := is_send x || obs_ok sl x.
Definition mcalm (sl : bool) (o : list obs) : bool := forallb (mc_ok sl) o.
Lemma mcalm_app sl a b : mcalm sl (a ++ b) = mcalm sl a && mcalm sl b.
Proof. unfold mcalm. apply forallb_app. Qed.
Lemma calm_mcalm sl o : calm sl o = true -> mcalm sl o = true.
Proof.
  unfold calm, mcalm. intros H. apply forallb_forall. intros x Hx. rewrite forallb_forall in H.
  unfold mc_ok. rewrite (H x Hx). apply orb_true_r.
Qed.

Definition acts_in_role (p : port) (d : inst_ds) (o : list obs) : Prop :=
  frames_role p d o /\ mcalm (is_slave (p_state p)) o = true.

Lemma calm_in_role p d o : calm (is_slave (p_state p)) o = true -> acts_in_role p d o.
Proof. intros H. split; [apply frames_role_none; eapply calm_no_send; exact H|apply calm_mcalm; exact H]. Qed.

Lemma frames_role_app p d a b : frames_role p d a -> frames_role p d b -> frames_role p d (a ++ b).
Proof. unfold frames_role, sent_frames. rewrite flat_map_app. intros Ha Hb. apply Forall_app. split; assumption. Qed.

Lemma send_sync_mc p d p' d' o : send_sync p d = Ok (p', d', o) -> mcalm (is_slave (p_state p)) o = true.
Proof. unfold send_sync. intros H. crunch H; reflexivity. Qed.
Lemma handle_sync_timestamp_mc p d id ts p' d' o : handle_sync_timestamp p d id ts = Ok (p', d', o) -> mcalm (is_slave (p_state p)) o = true.
Proof. unfold handle_sync_timestamp. intros H. crunch H; reflexivity. Qed.
Lemma handle_delay_req_mc p d h ts p' d' o : handle_delay_req p d h ts = Ok (p', d', o) -> mcalm (is_slave (p_state p)) o = true.
Proof. unfold handle_delay_req. intros H. crunch H; reflexivity. Qed.
Lemma handle_pdelay_req_mc p d h ts p' d' o : handle_pdelay_req p d h ts = Ok (p', d', o) -> mcalm (is_slave (p_state p)) o = true.
Proof. unfold handle_pdelay_req. intros H. crunch H; reflexivity. Qed.
Lemma handle_pdelay_response_timestamp_mc p d id rq ts p' d' o :
  handle_pdelay_response_timestamp p d id rq ts = Ok (p', d', o) -> mcalm (is_slave (p_state p)) o = true.
Proof. unfold handle_pdelay_response_timestamp. intros H. crunch H; reflexivity. Qed.
Lemma send_delay_request_mc p d p' d' o : send_delay_request p d = Ok (p', d', o) -> mcalm (is_slave (p_state p)) o = true.
Proof.
  unfold send_delay_request. intros H.
  repeat match type of H with context [draw ?x] => destruct (draw x) as [? ?] end. crunch H; reflexivity.
Qed.
Lemma send_announce_mc p d q p' d' o : send_announce p d q = Ok (p', d', o) -> mcalm (is_slave (p_state p)) o = true.
Proof.
  unfold send_announce. destruct (is_master (p_state p)); [|intros H; unfold ret in H; inversion H; reflexivity].
  match goal with |- context [let '(a, b) := ?X in _] => destruct X as [pb m1] end.
  destruct (announce_tlv_loop _ _ _ _ _ _ _) as [[sfx locks]|?] eqn:El; cbn [obind]; [|discriminate].
  destruct (serialize_packet _) as [f|?]; cbn [obind]; [|discriminate].
  intros H. unfold ret in H. inversion H; subst.
  pose proof (tlv_loop_locks _ _ _ _ _ _ _ _ _ El (Forall_nil _)) as Hl.
  change (rd_lock :: rd_lock :: locks ++ [AResetAnnounceTimer (interval_ns (pc_log_announce (p_config p))); ASendGeneral f false])
    with ([rd_lock; rd_lock] ++ locks ++ [AResetAnnounceTimer (interval_ns (pc_log_announce (p_config p))); ASendGeneral f false]).
  assert (Hm : mcalm (is_slave (p_state p)) locks = true).
  { unfold mcalm. apply forallb_forall. intros x Hx. rewrite Forall_forall in Hl. rewrite (Hl x Hx). reflexivity. }
  rewrite !mcalm_app, Hm. reflexivity.
Qed.

(** the eight calls of [step] on a port *)
Lemma event_receive_in_role p d ti frame ts p' d' o :
  port_inv p -> ds_inv d -> bok frame -> ts_valid ts ->
  handle_event_receive p d ti frame ts = Ok (p', d', o) -> acts_in_role p d o.
Proof.
  intros Hp Hd Hf Hts. unfold handle_event_receive.
  pose proof (parse_calm (is_slave (p_state p)) d frame) as Hpc.
  unfold parse_and_filter in *. destruct (negb (is_compatible frame)).
  { intros H. unfold ret in H. inversion H; subst. apply calm_in_role. reflexivity. }
  destruct (decode frame) as [m|e] eqn:Ed; [|intros H; unfold ret in H; inversion H; subst; apply calm_in_role; reflexivity].
  destruct (decoded_wf frame m Hf Ed) as (Hh & Hb & Hsuf).
  destruct (_ && _) eqn:Edom; [|intros H; unfold ret in H; inversion H; subst; apply calm_in_role; reflexivity].
  apply andb_true_iff in Edom as [Esdo Edom]. apply Z.eqb_eq in Esdo, Edom.
  unfold prepend. intros H.
  match type of H with obind ?X _ = _ => destruct X as [[[p1 d1] o2]|?] eqn:E end; cbn [obind] in H; [|discriminate].
  inversion H; subst.
  assert (Hr : acts_in_role p d o2).
  { destruct (m_body m) eqn:Eb; cbn in Hb.
    - apply calm_in_role. eapply handle_sync_calm; eauto.
    - split; [eapply handle_delay_req_role; eauto|eapply handle_delay_req_mc; eauto].
    - split; [eapply handle_pdelay_req_role; eauto|eapply handle_pdelay_req_mc; eauto].
    - apply calm_in_role. eapply handle_peer_delay_response_calm; eauto.
    - apply calm_in_role. eapply handle_general_internal_calm; eauto.
    - apply calm_in_role. eapply handle_general_internal_calm; eauto.
    - apply calm_in_role. eapply handle_general_internal_calm; eauto.
    - apply calm_in_role. eapply handle_general_internal_calm; eauto.
    - apply calm_in_role. eapply handle_general_internal_calm; eauto.
    - apply calm_in_role. eapply handle_general_internal_calm; eauto. }
  destruct Hr as [Hr1 Hr2]. split.
  - apply (frames_role_app p d [rd_lock] o2); [constructor|exact Hr1].
  - change (rd_lock :: o2) with ([rd_lock] ++ o2). rewrite mcalm_app, Hr2. reflexivity.
Qed.

Lemma send_timestamp_in_role p d c ts p' d' o :
  port_inv p -> ds_inv d -> ts_valid ts -> ctx_valid c ->
  handle_send_timestamp p d c ts = Ok (p', d', o) -> acts_in_role p d o.
Proof.
  intros Hp Hd Hts Hc. unfold handle_send_timestamp. destruct c; cbn [ctx_valid] in Hc; intros H.
  - split; [eapply handle_sync_timestamp_role; eauto|eapply handle_sync_timestamp_mc; eauto].
  - apply calm_in_role. eapply handle_delay_timestamp_calm; eauto.
  - apply calm_in_role. eapply handle_pdelay_timestamp_calm; eauto.
  - destruct Hc. split; [eapply handle_pdelay_response_timestamp_role; eauto|eapply handle_pdelay_response_timestamp_mc; eauto].
Qed.

Lemma announce_timer_in_role p d q p' d' o :
  port_inv p -> ds_inv d -> Forall (fun f => tlv_wf (fw_tlv f)) q ->
  send_announce p d q = Ok (p', d', o) -> acts_in_role p d o.
Proof. intros. split; [eapply send_announce_role; eauto|eapply send_announce_mc; eauto]. Qed.
Lemma sync_timer_in_role p d p' d' o :
  port_inv p -> ds_inv d -> send_sync p d = Ok (p', d', o) -> acts_in_role p d o.
Proof. intros. split; [eapply send_sync_role; eauto|eapply send_sync_mc; eauto]. Qed.
Lemma delay_timer_in_role p d p' d' o :
  port_inv p -> ds_inv d -> send_delay_request p d = Ok (p', d', o) -> acts_in_role p d o.
Proof. intros. split; [eapply send_delay_request_role; eauto|eapply send_delay_request_mc; eauto]. Qed.
