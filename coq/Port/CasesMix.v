(** Pure model-vs-implementation agreement run (no property oracle). *)
From SV Require Export Port.PortCases.
Definition case := pcase.
Definition run_cases := run_cases_gen agree_port (fun _ : pcase => true) (fun _ : pcase => 0).
