(** Model of PtpInstance (ptp_instance.rs) and of the BMCA side of the ports
    (port/bmca.rs: set_recommended_state, step_announce_age), plus the event
    interpreter [step] used by every port-level property. *)
From SV Require Export Port.PortModel.

(** Observations are tagged with the index of the port they belong to
    (-1 for the instance-state lock). *)
Definition tobs := (Z * obs)%type.
Definition tag (i : nat) (o : list obs) : list tobs :=
  map (fun x => match x with OLock _ _ => (-1, x) | _ => (Z.of_nat i, x) end) o.

(** * Instance construction *)
Record instance_config := mkIC {
  ic_clock_identity : Z; ic_prio1 : Z; ic_prio2 : Z; ic_domain : Z; ic_sdo_id : Z;
  ic_slave_only : bool; ic_path_trace : bool; ic_quality : clock_quality
}.

Definition new_instance (c : instance_config) (tp : time_props) : instance :=
  let dd := mkDD (ic_clock_identity c) 0 (ic_quality c) (ic_prio1 c) (ic_prio2 c)
                 (ic_domain c) (ic_slave_only c) (ic_sdo_id c) in
  mkInst (mkDS dd 0 (mkPD (mkPI (ic_clock_identity c) 0) (ic_clock_identity c) (ic_quality c)
                          (ic_prio1 c) (ic_prio2 c)) [] (ic_path_trace c) tp)
         127 [].

(** add_port followed by end_bmca: the new port and its initial actions *)
Definition add_port (i : instance) (c : port_config) (rng : list Z) : outcome (instance * list tobs) :=
  let dd := ds_default (i_ds i) in
  let! n := chk_u site_num_ports_assert 16 (dd_number_ports dd + 1) in
  let dd' := mkDD (dd_clock_identity dd) n (dd_quality dd) (dd_prio1 dd) (dd_prio2 dd)
                  (dd_domain dd) (dd_slave_only dd) (dd_sdo_id dd) in
  let p0 := mkPort c (mkPI (dd_clock_identity dd) n) PListening [] None 0 0 0 0 None PDEmpty rng in
  let '(k, p1) := draw p0 in
  let! _ := announce_interval_ti (pc_log_announce c) in
  Ok (mkInst (ds_with_default (i_ds i) dd') (Z.min (i_log_bmca i) (pc_log_announce c)) (i_ports i ++ [p1]),
      tag (length (i_ports i)) [AResetAnnounceReceiptTimer (announce_duration_ns c k)]).

Definition port_ti (p : port) : Z :=
  match announce_interval_ti (pc_log_announce (p_config p)) with Ok t => t | Panic _ => 0 end.

(** * BMCA *)
(** Duration::from_seconds(2^n): az::<I96F32>() then * 1e9 *)
Definition bmca_interval_dur (log : Z) : outcome Z :=
  if log <? -32 then Ok 0 else
  let! secs := chk_i site_bmca_interval 128 (2 ^ (log + 32)) in
  chk_i site_bmca_interval 128 (secs * 1000000000).

(** per-port scratch of the InBmca lifecycle *)
Record bport := mkBP { bp_port : port; bp_best : option best_msg; bp_pending : list obs; bp_side : list obs }.

Definition calc_local_best (p : port) : outcome bport :=
  let! r := bmca_take_best (p_identity p) (pc_acceptable (p_config p)) (port_ti p) (p_fml p) in
  Ok (mkBP (port_with_fml p (fst r)) (snd r) [] []).

Definition best_for_bmca (b : bport) : option best_msg :=
  if pc_master_only (p_config (bp_port b)) || is_faulty (p_state (bp_port b)) then None else bp_best b.

Definition opt_list {A} (o : option A) : list A := match o with Some x => [x] | None => [] end.

(** set_recommended_port_state *)
Definition set_recommended_port_state (b : bport) (r : recommended) (dd : default_ds) : outcome bport :=
  let p := bp_port b in
  match r with
  | RS1 h a =>
      if pc_master_only (p_config p) then Panic site_master_only_assert else
      let remote := h_source h in
      let update := match p_state p with
                    | PFaulty => false
                    | PListening | PMaster | PPassive => true
                    | PSlave st => negb (pi_eqb (ss_remote st) remote)
                    end in
      if update then
        let '(p1, o) := set_forced p (PSlave (mkSS remote MEmpty MEmpty None)) in
        let '(k, p2) := draw p1 in
        Ok (mkBP p2 (bp_best b)
                 [AResetAnnounceReceiptTimer (announce_duration_ns (p_config p) k); AResetDelayRequestTimer 0]
                 (bp_side b ++ o))
      else Ok b
  | RM1 _ | RM2 _ | RM3 _ _ =>
      if dd_slave_only dd then
        match p_state p with
        | PListening | PFaulty => Ok b
        | _ =>
            let '(p1, o) := set_forced p PListening in
            let '(k, p2) := draw p1 in
            Ok (mkBP p2 (bp_best b) [AResetAnnounceReceiptTimer (announce_duration_ns (p_config p) k)]
                     (bp_side b ++ o))
        end
      else match p_multiport_disable p with
           | Some _ =>
               (* a faulty port stays faulty (repaired F26) *)
               if is_passive (p_state p) || is_faulty (p_state p) then Ok b else
               let '(p1, o) := set_forced p PPassive in
               Ok (mkBP p1 (bp_best b) (bp_pending b) (bp_side b ++ o))
           | None =>
               match p_state p with
               | PMaster | PFaulty => Ok b
               | _ =>
                   let '(p1, o) := set_forced p PMaster in
                   Ok (mkBP p1 (bp_best b) [AResetAnnounceTimer 0; AResetSyncTimer 0] (bp_side b ++ o))
               end
           end
  | RP1 _ _ | RP2 _ _ =>
      match p_state p with
      | PPassive | PFaulty => Ok b
      | _ => let '(p1, o) := set_forced p PPassive in
             Ok (mkBP p1 (bp_best b) (bp_pending b) (bp_side b ++ o))
      end
  end.

(** set_recommended_state: port state first, then the instance data sets *)
Definition set_recommended_state (b : bport) (r : recommended) (d : inst_ds) : outcome (bport * inst_ds) :=
  let! b1 := set_recommended_port_state b r (ds_default d) in
  match r with
  | RM1 dd | RM2 dd =>
      (* debug_assert!(!slave_only || port is not Master)  (repaired F1) *)
      if dd_slave_only (ds_default d) && is_master (p_state (bp_port b1)) then Panic site_slave_only_assert else
      let par := mkPD (mkPI (dd_clock_identity dd) 0) (dd_clock_identity dd) (dd_quality dd)
                      (dd_prio1 dd) (dd_prio2 dd) in
      Ok (b1, ds_with d 0 par [] (mkTP None 0 false false true 160))
  | RM3 _ _ | RP1 _ _ | RP2 _ _ => Ok (b1, d)
  | RS1 h a =>
      if pc_master_only (p_config (bp_port b1)) then Panic site_master_only_assert else
      let! steps := chk_u site_steps_add 16 (an_steps_removed a + 1) in
      let par := mkPD (h_source h) (an_gm_identity a) (an_quality a) (an_prio1 a) (an_prio2 a) in
      let tp := ann_time_props h a in
      Ok (mkBP (bp_port b1) (bp_best b1) (bp_pending b1) (bp_side b1 ++ [OClockSetProps tp]),
          ds_with d steps par (ds_path d) tp)
  end.

(** step_announce_age *)
Definition step_announce_age (step : Z) (p : port) : outcome port :=
  let! iv := dur_from_log_interval (pc_log_announce (p_config p)) in
  let p1 := match p_multiport_disable p with
            | Some age => port_with_multiport p (if age + step <? iv then Some (age + step) else None)
            | None => p
            end in
  Ok (port_with_fml p1 (fml_step_age (port_ti p) step (p_fml p1))).

Fixpoint omap_list {A B} (f : A -> outcome B) (l : list A) : outcome (list B) :=
  match l with
  | [] => Ok []
  | x :: l' => let! y := f x in let! ys := omap_list f l' in Ok (y :: ys)
  end.

Fixpoint bmca_decide (ebest : option best_msg) (d : inst_ds) (todo done : list bport)
  : outcome (list bport * inst_ds) :=
  match todo with
  | [] => Ok (done, d)
  | b :: todo' =>
      let! r := recommended_state (ds_default d) ebest (bp_best b) (p_state (bp_port b)) in
      match r with
      | None => bmca_decide ebest d todo' (done ++ [b])
      | Some rs =>
          let! x := set_recommended_state b rs d in
          bmca_decide ebest (snd x) todo' (done ++ [fst x])
      end
  end.

Fixpoint tag_ports (i : nat) (bs : list bport) (f : bport -> list obs) : list tobs :=
  match bs with
  | [] => []
  | b :: bs' => tag i (f b) ++ tag_ports (S i) bs' f
  end.

Definition bmca (i : instance) : outcome (instance * list tobs) :=
  let d := i_ds i in
  let! step := bmca_interval_dur (i_log_bmca i) in
  if negb (Z.of_nat (length (i_ports i)) =? dd_number_ports (ds_default d)) then Panic site_num_ports_assert else
  let! bps := omap_list calc_local_best (i_ports i) in
  let! ebest := find_best (flat_map (fun b => opt_list (best_for_bmca b)) bps) in
  let! r := bmca_decide ebest d bps [] in
  let '(bps1, d1) := r in
  let! ports := omap_list (fun b => step_announce_age step (bp_port b)) bps1 in
  Ok (mkInst d1 (i_log_bmca i) ports,
      [(-1, wr_lock)] ++ tag_ports 0 bps1 bp_side ++ tag_ports 0 bps1 bp_pending).

(** * Event interpreter *)
Fixpoint update_nth {A} (n : nat) (x : A) (l : list A) : list A :=
  match l, n with
  | [], _ => []
  | _ :: l', O => x :: l'
  | y :: l', S n' => y :: update_nth n' x l'
  end.

Definition on_port (i : instance) (n : nat) (f : port -> inst_ds -> hres) : outcome (instance * list tobs) :=
  match nth_error (i_ports i) n with
  | None => Ok (i, [])
  | Some p =>
      let! r := f p (i_ds i) in
      let '(p', d', o) := r in
      Ok (mkInst d' (i_log_bmca i) (update_nth n p' (i_ports i)), tag n o)
  end.

Definition set_quality (i : instance) (q : clock_quality) : instance :=
  let dd := ds_default (i_ds i) in
  mkInst (ds_with_default (i_ds i)
            (mkDD (dd_clock_identity dd) (dd_number_ports dd) q (dd_prio1 dd) (dd_prio2 dd)
                  (dd_domain dd) (dd_slave_only dd) (dd_sdo_id dd)))
         (i_log_bmca i) (i_ports i).
Definition set_slave_only (i : instance) (b : bool) : instance :=
  let dd := ds_default (i_ds i) in
  mkInst (ds_with_default (i_ds i)
            (mkDD (dd_clock_identity dd) (dd_number_ports dd) (dd_quality dd) (dd_prio1 dd) (dd_prio2 dd)
                  (dd_domain dd) b (dd_sdo_id dd)))
         (i_log_bmca i) (i_ports i).

Definition step (i : instance) (e : event) : outcome (instance * list tobs) :=
  match e with
  | EvRecvEvent n frame ts => on_port i n (fun p d => handle_event_receive p d (port_ti p) frame ts)
  | EvRecvGeneral n frame => on_port i n (fun p d => handle_general_receive p d (port_ti p) frame)
  | EvSendTimestamp n c ts => on_port i n (fun p d => handle_send_timestamp p d c ts)
  | EvAnnounceTimer n q => on_port i n (fun p d => send_announce p d q)
  | EvSyncTimer n => on_port i n send_sync
  | EvDelayReqTimer n => on_port i n send_delay_request
  | EvAnnounceReceiptTimer n => on_port i n handle_announce_receipt_timer
  | EvFilterUpdateTimer n => on_port i n handle_filter_update_timer
  | EvBmca => bmca i
  | EvSetClockQuality q => Ok (set_quality i q, [(-1, wr_lock)])
  | EvSetSlaveOnly b => Ok (set_slave_only i b, [(-1, wr_lock)])
  | EvTick _ => Ok (i, [])
  end.

Definition snapshot_of (i : instance) : snapshot :=
  mkSnap (map (fun p => port_state_code (p_state p)) (i_ports i)) (i_ds i)
         (map (fun p => match pc_delay (p_config p) with
                        | P2P _ => Some (match p_mean_delay p with Some md => dur_to_ti md | None => 0 end)
                        | E2E _ => None
                        end) (i_ports i))
         (map (fun p => (is_slave (p_state p), is_master (p_state p))) (i_ports i)).

Inductive step_result :=
| SROk (o : list tobs) (s : snapshot)
| SRPanic.

(** run: the per-event results up to and including the first panic *)
Fixpoint run (i : instance) (es : list event) : list step_result :=
  match es with
  | [] => []
  | e :: es' =>
      match step i e with
      | Ok (i', o) => SROk o (snapshot_of i') :: run i' es'
      | Panic _ => [SRPanic]
      end
  end.

(** final instance state reached (None after a panic) *)
Fixpoint run_state (i : instance) (es : list event) : option instance :=
  match es with
  | [] => Some i
  | e :: es' => match step i e with Ok (i', _) => run_state i' es' | Panic _ => None end
  end.

(** instance set-up: configuration, time properties, ports with their rng scripts *)
Record setup := mkSetup {
  su_config : instance_config;
  su_tp : time_props;
  su_ports : list (port_config * list Z)
}.

Fixpoint add_ports (i : instance) (ps : list (port_config * list Z)) (acc : list tobs)
  : outcome (instance * list tobs) :=
  match ps with
  | [] => Ok (i, acc)
  | (c, r) :: ps' => let! x := add_port i c r in add_ports (fst x) ps' (acc ++ snd x)
  end.

Definition init (s : setup) : outcome (instance * list tobs) :=
  add_ports (new_instance (su_config s) (su_tp s)) (su_ports s) [].
