(** Observation F27 (not raised, see DESIGN 14.3): the S1 data-set update of
    [handle_announce] is applied whether or not the foreign-master list stores the
    Announce, while a BMCA run re-applies the newest STORED Announce of the
    parent.  When the parent's sequence ids restart (101 -> 5: a reboot), the
    grandmaster clockClass held in parentDS alternates between the new value (7)
    after every Announce and the old one (6) after every BMCA run, until the old
    records have aged out.  Evaluated on the model, which the correspondence
    check ties to the implementation. *)
From SV Require Export Port.Instance.
Local Open Scope Z_scope.

Definition f27_setup : setup :=
  mkSetup (mkIC 5 128 128 0 0 false false (mkCQ 248 254 65535))
          (mkTP None 0 false false false 160)
          [(mkPC None (E2E 0) 0 2 0 false 0 1, [1; 2; 3; 4; 5; 6; 7; 8])].
Definition f27_ann (seq cls : Z) : bytes :=
  encode_raw (mkMsg (mkHeader 0 2 1 0 false false false false false false false false false false false false
                              0 (mkPI 9 1) seq 0)
                    (BAnnounce (mkAnn (mkTS 0 0) 0 100 (mkCQ cls 33 1) 128 9 0 160)) []).
Definition f27_class_after (es : list event) : option Z :=
  match init f27_setup with
  | Ok (i0, _) => match run_state i0 es with
                  | Some i' => Some (cq_class (pd_gm_quality (ds_parent (i_ds i'))))
                  | None => None
                  end
  | Panic _ => None
  end.
Definition f27_pre : list event := [EvRecvGeneral 0 (f27_ann 100 6); EvRecvGeneral 0 (f27_ann 101 6); EvBmca].

Example f27_flipflop :
  f27_class_after f27_pre = Some 6 /\
  f27_class_after (f27_pre ++ [EvRecvGeneral 0 (f27_ann 5 7)]) = Some 7 /\
  f27_class_after (f27_pre ++ [EvRecvGeneral 0 (f27_ann 5 7); EvBmca]) = Some 6 /\
  f27_class_after (f27_pre ++ [EvRecvGeneral 0 (f27_ann 5 7); EvBmca; EvRecvGeneral 0 (f27_ann 6 7)]) = Some 7 /\
  f27_class_after (f27_pre ++ [EvRecvGeneral 0 (f27_ann 5 7); EvBmca; EvRecvGeneral 0 (f27_ann 6 7); EvBmca]) = Some 6.
Proof. vm_compute. repeat split. Qed.
