(** Lemmas for C12 (timers). *)
From SV Require Import Port.OracleC12.

Lemma draw_state p : p_state (snd (draw p)) = p_state p.
Proof. unfold draw. destruct (p_rng p); reflexivity. Qed.

(** * Every transition into a state arms the timers that state relies on *)

(** announce receipt timeout: master with announce and sync timers due at once;
    a slave-only instance listens with the receipt timer re-armed; a faulty
    port keeps its receipt timer running *)
Lemma receipt_timeout_arms p d :
  exists p' o, handle_announce_receipt_timer p d = Ok (p', d, o) /\
    (is_faulty (p_state p) = true ->
       p_state p' = PFaulty /\ exists ns, In (AResetAnnounceReceiptTimer ns) o) /\
    (is_faulty (p_state p) = false -> dd_slave_only (ds_default d) = false ->
       p_state p' = PMaster /\ In (AResetAnnounceTimer 0) o /\ In (AResetSyncTimer 0) o) /\
    (is_faulty (p_state p) = false -> dd_slave_only (ds_default d) = true ->
       p_state p' = PListening /\ exists ns, In (AResetAnnounceReceiptTimer ns) o).
Proof.
  unfold handle_announce_receipt_timer.
  destruct (is_faulty (p_state p)) eqn:Ef.
  - destruct (draw p) as [k p1] eqn:Ed. eexists; eexists; split; [reflexivity|].
    split; [|split; intros; discriminate].
    intros _. split.
    + pose proof (draw_state p) as Hd. rewrite Ed in Hd. cbn [snd] in Hd. rewrite Hd.
      destruct (p_state p); try discriminate; reflexivity.
    + eexists. left. reflexivity.
  - destruct (dd_slave_only (ds_default d)) eqn:Eso.
    + destruct (is_listening (p_state p)) eqn:El.
      * destruct (draw p) as [k p1] eqn:Ed. eexists; eexists; split; [reflexivity|].
        split; [intros; discriminate|]. split; [intros; discriminate|]. intros _ _. split.
        -- pose proof (draw_state p) as Hd. rewrite Ed in Hd. cbn [snd] in Hd. rewrite Hd.
           destruct (p_state p); try discriminate; reflexivity.
        -- eexists. cbn. right. left. reflexivity.
      * destruct (set_forced p PListening) as [p1 o1] eqn:Es.
        destruct (draw p1) as [k p2] eqn:Ed. eexists; eexists; split; [reflexivity|].
        split; [intros; discriminate|]. split; [intros; discriminate|]. intros _ _. split.
        -- pose proof (draw_state p1) as Hd. rewrite Ed in Hd. cbn [snd] in Hd. rewrite Hd.
           unfold set_forced in Es. inversion Es; subst. reflexivity.
        -- eexists. apply in_or_app. right. apply in_or_app. right. left. reflexivity.
    + destruct (is_master (p_state p)) eqn:Em.
      * eexists; eexists; split; [reflexivity|].
        split; [intros; discriminate|]. split; [|intros; discriminate]. intros _ _. split.
        -- destruct (p_state p); try discriminate; reflexivity.
        -- split; cbn; auto.
      * destruct (set_forced p PMaster) as [p1 o1] eqn:Es.
        eexists; eexists; split; [reflexivity|].
        split; [intros; discriminate|]. split; [|intros; discriminate]. intros _ _. split.
        -- unfold set_forced in Es. inversion Es; subst. reflexivity.
        -- split; apply in_or_app; right; apply in_or_app; right; cbn; auto.
Qed.

(** a master port re-arms its sync and announce timers with the configured
    interval every time they fire: the n-th emission happens n intervals after
    the first (no drift in the requested durations) *)
Lemma sync_timer_rearms p d p' d' o :
  send_sync p d = Ok (p', d', o) -> is_master (p_state p) = true ->
  In (AResetSyncTimer (interval_ns (pc_log_sync (p_config p)))) o /\ p_state p' = PMaster.
Proof.
  unfold send_sync. intros H Hm. rewrite Hm in H.
  destruct (serialize_packet _) as [f|?]; cbn [obind] in H; [|discriminate].
  inversion H; subst. split; [cbn; auto|].
  cbn. destruct (p_state p); try discriminate; reflexivity.
Qed.

Lemma announce_timer_rearms p d q p' d' o :
  send_announce p d q = Ok (p', d', o) -> is_master (p_state p) = true ->
  In (AResetAnnounceTimer (interval_ns (pc_log_announce (p_config p)))) o /\ p_state p' = PMaster.
Proof.
  unfold send_announce. intros H Hm. rewrite Hm in H.
  match type of H with context [let '(a, b) := ?X in _] => destruct X as [pb m1] end.
  destruct (announce_tlv_loop _ _ _ _ _ _ _) as [[sfx locks]|?]; cbn [obind] in H; [|discriminate].
  destruct (serialize_packet _) as [f|?]; cbn [obind] in H; [|discriminate].
  inversion H; subst. split.
  - right. right. apply in_or_app. right. left. reflexivity.
  - cbn. destruct (p_state p); try discriminate; reflexivity.
Qed.

(** a slave (E2E) port re-arms the delay request timer with a duration below two intervals *)
Lemma delay_req_timer_rearms p d log st p' d' o :
  pc_delay (p_config p) = E2E log -> p_state p = PSlave st ->
  send_delay_request p d = Ok (p', d', o) ->
  exists ns, In (AResetDelayRequestTimer ns) o.
Proof.
  unfold send_delay_request. intros -> -> H.
  destruct (serialize_packet _) as [f|?]; cbn [obind] in H; [|discriminate].
  match type of H with context [draw ?x] => destruct (draw x) as [k p3] end.
  inversion H; subst. eexists. cbn. right. left. reflexivity.
Qed.

(** BMCA transitions carry their timers: S1 arms receipt + delay request, M* arms
    announce + sync (or receipt for slave-only instances) *)
Lemma bmca_s1_arms b h a dd b' :
  set_recommended_port_state b (RS1 h a) dd = Ok b' ->
  p_state (bp_port b') <> p_state (bp_port b) ->
  (exists ns, bp_pending b' = [AResetAnnounceReceiptTimer ns; AResetDelayRequestTimer 0]).
Proof.
  unfold set_recommended_port_state.
  destruct (pc_master_only (p_config (bp_port b))); [discriminate|].
  match goal with |- context [if ?c then _ else _] => destruct c eqn:Eu end.
  - destruct (set_forced (bp_port b) _) as [p1 o1]. destruct (draw p1) as [k p2].
    intros H _. inversion H; subst. eexists. reflexivity.
  - intros H Hne. inversion H; subst. contradiction.
Qed.

Lemma bmca_m_arms b r dd b' :
  (exists d0, r = RM1 d0 \/ r = RM2 d0) \/ (exists h a, r = RM3 h a) ->
  dd_slave_only dd = false -> p_multiport_disable (bp_port b) = None ->
  set_recommended_port_state b r dd = Ok b' ->
  p_state (bp_port b') <> p_state (bp_port b) ->
  p_state (bp_port b') = PMaster /\ bp_pending b' = [AResetAnnounceTimer 0; AResetSyncTimer 0].
Proof.
  intros Hr Hso Hmp. unfold set_recommended_port_state.
  destruct Hr as [[d0 [-> | ->]] | [h [a ->]]]; rewrite Hso, Hmp;
    (destruct (p_state (bp_port b)) eqn:Es; intros H Hne;
     try (inversion H; subst; contradiction);
     unfold set_forced in H; inversion H; subst; cbn; split; reflexivity).
Qed.

(** * F22: the stuck state exists (known finding) *)
Definition f22_setup : setup :=
  mkSetup (mkIC 5 128 128 0 0 false false (mkCQ 248 254 65535))
          (mkTP None 0 false false false 160)
          [(mkPC None (P2P 0) 0 2 0 false 0 1, [1; 2; 3; 4; 5; 6; 7; 8])].

Definition f22_resp (who seq : Z) : bytes :=
  encode_raw (mkMsg (mkHeader 0 2 1 0 false false false false false false false false false false false false
                              0 (mkPI who 1) seq 0)
                    (BPDelayResp (mkTS 100 0) (mkPI 5 1)) []).

Definition f22_events : list event :=
  [ EvAnnounceReceiptTimer 0;                                   (* timeout: MASTER, receipt timer consumed *)
    EvDelayReqTimer 0;  EvSendTimestamp 0 (CtxPDelayReq 0) (100 * NS_PER_S * FRAC);
    EvRecvEvent 0 (f22_resp 68 0) (101 * NS_PER_S * FRAC);      (* first responder: measurement *)
    EvRecvEvent 0 (f22_resp 69 0) (101 * NS_PER_S * FRAC);      (* second responder: FAULTY *)
    EvAnnounceTimer 0 []; EvSyncTimer 0;                        (* the master timers fire once more and die *)
    EvDelayReqTimer 0;  EvSendTimestamp 0 (CtxPDelayReq 1) (102 * NS_PER_S * FRAC);
    EvRecvEvent 0 (f22_resp 68 1) (103 * NS_PER_S * FRAC);      (* clean exchange: LISTENING *)
    EvBmca; EvBmca; EvBmca; EvBmca; EvBmca; EvBmca; EvBmca; EvBmca; EvBmca; EvBmca ].

Definition self_case (s : setup) (es : list event) : pcase :=
  let c0 := mkCase s es false None [] in
  mkCase s es false (model_init c0) (model_trace c0).

(** after the recovery the port listens, no announce receipt timer is armed,
    and ten silent BMCA runs leave it there *)
Lemma f22_stuck :
  let c := self_case f22_setup f22_events in
  match walk12 c (init12 c) (init_snap c) (pc_events c) (pc_trace c) with
  | Some (s, sn) => sn_states sn = [4] /\ armed s 0 3 = false /\ f22 s = true
  | None => False
  end.
Proof. vm_compute. repeat split; reflexivity. Qed.
