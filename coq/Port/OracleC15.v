(** C15 — Boundary clocks propagate TLVs faithfully and break path-trace loops.
    Library level: the TLV provider is a FIFO whose head is handed out iff it
    fits the remaining room (the semantics of the daemon's TlvForwarder for one
    receiver); the event carries the queue offered to the call. *)
From SV Require Export Port.OracleBase.

Definition ANNOUNCE_BASE : Z := 64.      (* header 34 + announce body 30 *)

(** expected TLV suffix: FIFO prefix that fits, senders other than the parent and
    (with path trace on) PATH_TRACE TLVs consumed but not forwarded *)
Fixpoint expected_fwd (fuel : nat) (q : list fwd_tlv) (room : Z) (parent : port_identity) (path_on : bool)
  : list tlv :=
  match fuel, q with
  | S fuel', f :: q' =>
      let size := 4 + blen (tlv_value (fw_tlv f)) in
      if size <=? room then
        if pi_eqb (fw_sender f) parent && negb (path_on && (tlv_type (fw_tlv f) =? 8))
        then fw_tlv f :: expected_fwd fuel' q' (room - size) parent path_on
        else expected_fwd fuel' q' room parent path_on
      else []
  | _, _ => []
  end.

Definition tlv_list_eqb (a b : list tlv) : bool := list_eqb tlv_eqb a b.

(** the Announce (if any) among the frames a port sent in this call *)
Definition announce_of (o : list obs) : list message :=
  flat_map (fun x => match decoded (snd x) with
                     | Some m => match m_body m with BAnnounce _ => [m] | _ => [] end
                     | None => []
                     end) (sent_frames o).

Definition undecodable_frames (o : list obs) : nat :=
  count (fun x => match decoded (snd x) with Some _ => false | None => true end) (sent_frames o).

Definition step_C15 (c : pcase) (_ : unit) (prev : snapshot) (e : event) (o : list tobs) (sn : snapshot) : option unit :=
  let ds := sn_ds prev in
  let own := dd_clock_identity (ds_default ds) in
  let ok :=
    match e with
    | EvAnnounceTimer p q =>
        let op := obs_of_port o p in
        if state_of prev p =? 6 then
          (* exactly one Announce, decodable, within the maximum size *)
          (undecodable_frames op =? 0)%nat &&
          match announce_of op with
          | [m] =>
              let tl := tlvs_of (m_suffix m) in
              let path_tlv :=
                if ds_path_enable ds then
                  let n := Z.of_nat (length (ds_path ds)) + 1 in
                  if (n <=? 128) && (4 + 8 * n <? MAX_DATA_LEN - ANNOUNCE_BASE)
                  then [mkTlv 8 (flat_map (be_encode 8) (ds_path ds ++ [own]))] else []
                else [] in
              let room := MAX_DATA_LEN - ANNOUNCE_BASE
                          - match path_tlv with [t] => 4 + blen (tlv_value t) | _ => 0 end in
              (wire_size m <=? MAX_DATA_LEN)
              && tlv_list_eqb tl (path_tlv ++ expected_fwd (length q) q room (pd_parent (ds_parent ds))
                                                           (ds_path_enable ds))
          | _ => false
          end
        else (length (sent_frames op) =? 0)%nat
    | EvRecvGeneral p frame | EvRecvEvent p frame _ =>
        let op := obs_of_port o p in
        let fwd := flat_map (fun x => match x with AForwardTLV t s => [(t, s)] | _ => [] end) op in
        match (if is_compatible frame then decoded frame else None) with
        | Some m =>
            match m_body m with
            | BAnnounce a =>
                (* forwarded TLVs: a prefix-closed selection is not allowed: all or none,
                   exactly the propagating ones, unmodified, in order, tagged with the sender *)
                let prop := filter (fun t => tlv_announce_propagate (tlv_type t)) (tlvs_of (m_suffix m)) in
                let all_fwd := list_eqb (fun x y => tlv_eqb (fst x) (fst y) && pi_eqb (snd x) (snd y))
                                        fwd (map (fun t => (t, h_source (m_header m))) prop) in
                let from_parent :=
                  (h_domain (m_header m) =? dd_domain (ds_default ds))
                  && (h_sdo_id (m_header m) =? dd_sdo_id (ds_default ds))
                  && (state_of prev p =? 9)
                  && pi_eqb (h_source (m_header m)) (pd_parent (ds_parent ds))
                  && (an_steps_removed a <? 255) in
                let path_tlv := if ds_path_enable ds
                                then find (fun t => tlv_type t =? 8) (tlvs_of (m_suffix m)) else None in
                let discarded :=
                  match path_tlv with
                  | Some t => existsb (fun ci => ci =? own) (path_of_value (tlv_value t))
                              || (128 <? Z.of_nat (length (path_of_value (tlv_value t))))
                  | None => false
                  end in
                if from_parent then
                  if discarded then ds_eqb (sn_ds sn) ds && (length fwd =? 0)%nat
                  else
                    (* TLVs from the parent must be handed on, and the path is taken over *)
                    all_fwd
                    && (if ds_path_enable ds then
                          match path_tlv with
                          | Some t => list_eqb Z.eqb (ds_path (sn_ds sn)) (path_of_value (tlv_value t))
                          | None => (length (ds_path (sn_ds sn)) =? 0)%nat
                          end
                        else true)
                else (length fwd =? 0)%nat || all_fwd
            | _ => (length fwd =? 0)%nat
            end
        | None => (length fwd =? 0)%nat
        end
    | EvBmca =>
        (* a clock that has just become grandmaster (no slave port, some master port)
           has no parent: the path received from the former parent is forgotten, its
           Announces carry its own identity only (16.2.3) *)
        forallb (fun x => match snd x with AForwardTLV _ _ => false | _ => true end) o
        && (if forallb (fun s => negb (s =? 9)) (sn_states sn) && existsb (fun s => s =? 6) (sn_states sn)
            then (length (ds_path (sn_ds sn)) =? 0)%nat else true)
    | _ => forallb (fun x => match snd x with AForwardTLV _ _ => false | _ => true end) o
    end in
  if ok then Some tt else None.

Definition ok_C15 (c : pcase) : bool :=
  walk (step_C15 c) tt (init_snap c) (pc_events c) (pc_trace c).

(** Known finding F5 (until repaired): an Announce whose last forwarded TLV has
    an empty value is rejected by the library's own parser. *)
Definition last_fwd_empty (c : pcase) : bool :=
  existsb (fun r => match r with
                    | SROk o _ =>
                        existsb (fun x => match snd x with
                                          | ASendGeneral f _ =>
                                              match decoded f with
                                              | None => true
                                              | Some _ => false
                                              end
                                          | _ => false
                                          end) o
                    | SRPanic => false
                    end) (pc_trace c).
Definition kf_C15 (c : pcase) : Z := if last_fwd_empty c then 1 else 0.
Definition case := pcase.
Definition run_cases := run_cases_gen agree_port ok_C15 kf_C15.
