(** Helpers shared by the property oracles over port-level traces.
    Oracles judge OBSERVED traces (normally the implementation's); they are
    written from the property texts and use the model only for the initial
    snapshot and for the wire parser that stands for "the library's own
    parser" (validated against it by C04). *)
From SV Require Export Port.PortCases.

Definition init_snap (c : pcase) : snapshot :=
  match init (pc_setup c) with
  | Ok (i, _) => snapshot_of i
  | Panic _ => mkSnap [] (i_ds (new_instance (su_config (pc_setup c)) (su_tp (pc_setup c)))) [] []
  end.

Definition own_clock (c : pcase) : Z := ic_clock_identity (su_config (pc_setup c)).
Definition port_id (c : pcase) (p : nat) : port_identity := mkPI (own_clock c) (Z.of_nat p + 1).
Definition port_cfg (c : pcase) (p : nat) : option port_config :=
  match nth_error (su_ports (pc_setup c)) p with Some (pc, _) => Some pc | None => None end.
Definition state_of (s : snapshot) (p : nat) : Z := nth p (sn_states s) 0.

(** observations of one call that belong to port [p] *)
Definition obs_of_port (o : list tobs) (p : nat) : list obs :=
  map snd (filter (fun x => fst x =? Z.of_nat p) o).

Definition sent_frames (o : list obs) : list (bool * bytes) :=
  flat_map (fun x => match x with
                     | ASendEvent _ f _ => [(true, f)]
                     | ASendGeneral f _ => [(false, f)]
                     | _ => []
                     end) o.

Definition decoded (f : bytes) : option message :=
  match decode f with ROk m => Some m | RErr _ => None end.

Definition count {A} (f : A -> bool) (l : list A) : nat := length (filter f l).

(** Generic walk over (event, observed result) pairs; the step function sees
    the snapshot before the call.  A panic ends the walk (judged by C03). *)
Section Walk.
  Context {S : Type}.
  Variable f : S -> snapshot -> event -> list tobs -> snapshot -> option S.
  Fixpoint walk (s : S) (prev : snapshot) (es : list event) (rs : list step_result) : bool :=
    match es, rs with
    | e :: es', SROk o sn :: rs' =>
        match f s prev e o sn with
        | Some s' => walk s' sn es' rs'
        | None => false
        end
    | _, SRPanic :: _ => true
    | [], [] => true
    | _, _ => false
    end.
End Walk.

Definition nports (c : pcase) : nat := length (su_ports (pc_setup c)).
Definition all_ports (c : pcase) : list nat := seq 0 (nports c).

(** the port an event is addressed to *)
Definition event_port (e : event) : option nat :=
  match e with
  | EvRecvEvent p _ _ | EvRecvGeneral p _ | EvSendTimestamp p _ _ | EvAnnounceTimer p _
  | EvSyncTimer p | EvDelayReqTimer p | EvAnnounceReceiptTimer p | EvFilterUpdateTimer p => Some p
  | _ => None
  end.

Definition is_event_frame_type (t : msg_type) : bool :=
  match t with MTSync | MTDelayReq | MTPDelayReq | MTPDelayResp => true | _ => false end.
