(** Observations of a BMCA pass: no frame, no measurement; clock properties
    (OClockSetProps) only for the port that is slave afterwards. *)
From SV Require Export Port.Instance.

Ltac crunch H :=
  repeat first
   [ progress (unfold ret in H)
   | match type of H with
     | Ok _ = Ok _ => inversion H; subst; clear H
     | Panic _ = Ok _ => discriminate H
     | obind ?x _ = Ok _ => let E := fresh "E" in destruct x eqn:E; cbn [obind] in H; [|discriminate H]
     | (if ?c then _ else _) = Ok _ => let E := fresh "E" in destruct c eqn:E
     | match ?x with _ => _ end = Ok _ => let E := fresh "E" in destruct x eqn:E
     end ].


Definition is_RS1 (rs : recommended) : bool := match rs with RS1 _ _ => true | _ => false end.

Definition bobs_ok (sl_after : bool) (x : obs) : bool :=
  match x with
  | ASendEvent _ _ _ | ASendGeneral _ _ | OFilterMeas _ => false
  | OClockSetProps _ => sl_after
  | _ => true
  end.
Definition bquiet (b : bport) : Prop :=
  forallb (bobs_ok (is_slave (p_state (bp_port b)))) (bp_side b) = true /\
  forallb (bobs_ok (is_slave (p_state (bp_port b)))) (bp_pending b) = true.

Lemma bobs_weaken sl l : forallb (bobs_ok false) l = true -> forallb (bobs_ok sl) l = true.
Proof.
  intros H. apply forallb_forall. intros x Hx. rewrite forallb_forall in H. specialize (H x Hx).
  destruct x; try exact H. discriminate.
Qed.

Lemma draw_state_eq x z y : draw x = (z, y) -> p_state y = p_state x.
Proof. unfold draw. destruct (p_rng x); intros E; inversion E; reflexivity. Qed.

Lemma set_recommended_port_state_quiet b rs dd b1 :
  bp_side b = [] -> bp_pending b = [] ->
  (is_RS1 rs = true -> is_faulty (p_state (bp_port b)) = false) ->
  set_recommended_port_state b rs dd = Ok b1 ->
  bquiet b1 /\ (is_RS1 rs = true -> is_slave (p_state (bp_port b1)) = true).
Proof.
  intros Hs Hpd Hnf H. unfold set_recommended_port_state, set_forced in H.
  rewrite Hs, Hpd in H. cbn [app] in H.
  destruct rs as [d0|d0|h a|h a|h a|h a]; cbn [is_RS1] in *;
    repeat match type of H with context [draw ?x] => destruct (draw x) as [? ?] eqn:? end;
    crunch H; unfold bquiet; cbn [bp_port bp_side bp_pending app];
    repeat match goal with
    | E : draw ?x = (_, ?y) |- _ => rewrite (draw_state_eq _ _ _ E); clear E
    end;
    rewrite ?Hs, ?Hpd;
    repeat match goal with E : p_state _ = _ |- _ => rewrite E end;
    cbn [port_with_state p_state is_slave is_faulty];
    try (split; [split; reflexivity|first [discriminate|reflexivity]]);
    try (split; [split; repeat match goal with |- context [if ?c then _ else _] => destruct c end; reflexivity
                |first [discriminate|reflexivity]]);
    try (specialize (Hnf eq_refl); match goal with E : p_state _ = PFaulty |- _ => rewrite E in Hnf; discriminate end).
  match goal with E0 : match p_state ?q with _ => _ end = false |- _ =>
    destruct (p_state q) eqn:Est; try discriminate E0; cbn [is_slave is_faulty] in * end.
  - specialize (Hnf eq_refl). discriminate.
  - split; [split; reflexivity|reflexivity].
Qed.

Lemma set_recommended_state_quiet b rs d b' d' :
  bp_side b = [] -> bp_pending b = [] ->
  (is_RS1 rs = true -> is_faulty (p_state (bp_port b)) = false) ->
  set_recommended_state b rs d = Ok (b', d') -> bquiet b'.
Proof.
  intros Hs Hpd Hnf H. unfold set_recommended_state in H.
  destruct (set_recommended_port_state b rs (ds_default d)) as [b1|?] eqn:E1; cbn [obind] in H; [|discriminate].
  destruct (set_recommended_port_state_quiet _ _ _ _ Hs Hpd Hnf E1) as [[Q1 Q2] Hsl].
  destruct rs as [d0|d0|h a|h a|h a|h a]; cbn [is_RS1] in *; crunch H; try (split; assumption).
  unfold bquiet. cbn [bp_port bp_side bp_pending]. rewrite (Hsl eq_refl) in *. split; [|exact Q2].
  rewrite forallb_app, Q1. reflexivity.
Qed.
