(** C09 — Offset and delay measurements use one matching exchange, exactly.
    The oracle recomputes, from the INPUTS of the history alone and in exact
    integer arithmetic (units of 2^-32 ns), the IEEE 1588 values
        raw_sync  = (t2 - c_sync) - (t1 + c_fup) - asymmetry
        raw_delay = t3 - (t4 - c_resp) - asymmetry
    for message pairs with equal sequence id from the selected parent, and
    requires every measurement handed to the filter to be one of them. *)
From SV Require Export Port.OracleBase.

Record sync_rec := mkSR { sr_seq : Z; sr_src : port_identity; sr_two : bool; sr_t2c : Z; sr_origin : Z }.
Record fup_rec := mkFR { fr_seq : Z; fr_src : port_identity; fr_t1c : Z }.
Record dts_rec := mkDT { dt_id : Z; dt_t3 : Z }.
Record drs_rec := mkDR { dr_seq : Z; dr_src : port_identity; dr_t4c : Z }.

Record pstate09 := mkP9 {
  syncs : list sync_rec; fups : list fup_rec; dtss : list dts_rec; drss : list drs_rec;
  last_raw_sync : option Z;        (* raw offset of the last sync measurement of this slave episode *)
  mean_delay9 : option Z           (* last mean delay the recording filter returned *)
}.
Definition p9_empty := mkP9 [] [] [] [] None None.

Definition wts (w : wire_ts) : Z := (ts_secs w * NS_PER_S + ts_nanos w) * FRAC.

(** record the inputs of this event for port p *)
Definition record09 (c : pcase) (prev : snapshot) (p : nat) (e : event) (s : pstate09) : pstate09 :=
  let accept (frame : bytes) : option message :=
    if is_compatible frame then
      match decoded frame with
      | Some m => if (h_domain (m_header m) =? dd_domain (ds_default (sn_ds prev)))
                     && (h_sdo_id (m_header m) =? dd_sdo_id (ds_default (sn_ds prev)))
                  then Some m else None
      | None => None
      end
    else None in
  let general (frame : bytes) : pstate09 :=
      match accept frame with
      | Some m =>
          match m_body m with
          | BFollowUp precise =>
              mkP9 (syncs s)
                   (mkFR (h_seq (m_header m)) (h_source (m_header m))
                         (wts precise + h_correction (m_header m) * 2 ^ 16) :: fups s)
                   (dtss s) (drss s) (last_raw_sync s) (mean_delay9 s)
          | BDelayResp recv requester =>
              if pi_eqb requester (port_id c p) then
                mkP9 (syncs s) (fups s) (dtss s)
                     (mkDR (h_seq (m_header m)) (h_source (m_header m))
                           (wts recv - h_correction (m_header m) * 2 ^ 16) :: drss s)
                     (last_raw_sync s) (mean_delay9 s)
              else s
          | _ => s
          end
      | None => s
      end in
  match e with
  | EvRecvEvent q frame ts =>
      if negb (Nat.eqb p q) then s else
      match accept frame with
      | Some m =>
          match m_body m with
          | BSync origin =>
              mkP9 (mkSR (h_seq (m_header m)) (h_source (m_header m)) (h_two_step (m_header m))
                         (ts - h_correction (m_header m) * 2 ^ 16) (wts origin) :: syncs s)
                   (fups s) (dtss s) (drss s) (last_raw_sync s) (mean_delay9 s)
          | _ => general frame     (* general messages are also processed on the event interface *)
          end
      | None => s
      end
  | EvRecvGeneral q frame => if negb (Nat.eqb p q) then s else general frame
  | EvSendTimestamp q (CtxDelayReq id) ts =>
      if negb (Nat.eqb p q) then s else
      mkP9 (syncs s) (fups s) (mkDT id ts :: dtss s) (drss s) (last_raw_sync s) (mean_delay9 s)
  | _ => s
  end.

(** candidate raw sync offsets for the selected parent *)
Definition sync_candidates (parent : port_identity) (asym : Z) (s : pstate09) : list (Z * Z) :=
  flat_map (fun sy =>
    if negb (pi_eqb (sr_src sy) parent) then [] else
    if sr_two sy then
      flat_map (fun fu =>
        if pi_eqb (fr_src fu) parent && (fr_seq fu =? sr_seq sy)
        then [(sr_t2c sy, sr_t2c sy - fr_t1c fu - asym)] else []) (fups s)
    else [(sr_t2c sy, sr_t2c sy - sr_origin sy - asym)]) (syncs s).

Definition delay_candidates (parent : port_identity) (asym : Z) (s : pstate09) : list (Z * Z) :=
  flat_map (fun dt =>
    flat_map (fun dr =>
      if pi_eqb (dr_src dr) parent && (dr_seq dr =? dt_id dt)
      then [(dt_t3 dt, dt_t3 dt - dr_t4c dr - asym)] else []) (drss s)) (dtss s).

(** all intermediate Time values must be representable (Time is unsigned and
    saturates): measurements computed from a saturated value are outside the
    property's arithmetic domain *)
Definition nonneg_inputs (s : pstate09) : bool :=
  forallb (fun sy => 0 <=? sr_t2c sy) (syncs s) && forallb (fun fu => 0 <=? fr_t1c fu) (fups s)
  && forallb (fun dr => 0 <=? dr_t4c dr) (drss s).

Definition meas_ok (parent : port_identity) (asym : Z) (s : pstate09) (m : measurement) : bool * pstate09 :=
  match me_raw_sync m, me_raw_delay m, me_peer_delay m with
  | Some v, None, None =>
      let ok := negb (nonneg_inputs s) ||
                (existsb (fun c => (fst c =? me_event_time m) && (snd c =? v)) (sync_candidates parent asym s)
                 && opt_z_eqb (me_offset m) (match mean_delay9 s with Some md => Some (v - md) | None => None end)
                 && opt_z_eqb (me_delay m) None) in
      (ok, mkP9 (syncs s) (fups s) (dtss s) (drss s) (Some v) (mean_delay9 s))
  | None, Some v, None =>
      let dl := match last_raw_sync s with Some rs => Some (Z.quot (rs - v) 2) | None => None end in
      let ok := negb (nonneg_inputs s) ||
                (existsb (fun c => (fst c =? me_event_time m) && (snd c =? v)) (delay_candidates parent asym s)
                 && opt_z_eqb (me_delay m) dl && opt_z_eqb (me_offset m) None) in
      (ok, mkP9 (syncs s) (fups s) (dtss s) (drss s) (last_raw_sync s)
                (match dl with Some d => Some d | None => mean_delay9 s end))
  | None, None, Some pd =>
      (* peer delay measurements are judged by C14; they set the mean delay *)
      (true, mkP9 (syncs s) (fups s) (dtss s) (drss s) (last_raw_sync s) (Some pd))
  | _, _, _ => (false, s)
  end.

Fixpoint meas_all (parent : port_identity) (asym : Z) (s : pstate09) (ms : list measurement) : option pstate09 :=
  match ms with
  | [] => Some s
  | m :: ms' => let '(ok, s') := meas_ok parent asym s m in if ok then meas_all parent asym s' ms' else None
  end.

Definition meas_of (o : list obs) : list measurement :=
  flat_map (fun x => match x with OFilterMeas m => [m] | _ => [] end) o.

Definition step_C09 (c : pcase) (st : list pstate09) (prev : snapshot) (e : event) (o : list tobs) (sn : snapshot)
  : option (list pstate09) :=
  let parent := pd_parent (ds_parent (sn_ds prev)) in
  let go (acc : option (list pstate09)) (p : nat) : option (list pstate09) :=
    match acc with
    | None => None
    | Some done =>
        let s0 := nth p st p9_empty in
        let s1 := record09 c prev p e s0 in
        let asym := match port_cfg c p with Some pc => pc_asymmetry pc | None => 0 end in
        let ms := meas_of (obs_of_port o p) in
        (* sync/delay measurements only come from a port that is slave before the call *)
        if negb (state_of prev p =? 9)
           && existsb (fun m => match me_raw_sync m, me_raw_delay m with None, None => false | _, _ => true end) ms
        then None else
        match meas_all parent asym s1 ms with
        | None => None
        | Some s2 =>
            (* a new slave episode (state or parent changed) forgets the exchange history *)
            let changed := negb (state_of prev p =? state_of sn p)
                           || negb (pi_eqb parent (pd_parent (ds_parent (sn_ds sn)))) in
            Some (done ++ [if changed then mkP9 [] [] [] [] None (mean_delay9 s2) else s2])
        end
    end in
  fold_left go (all_ports c) (Some []).

Definition ok_C09 (c : pcase) : bool :=
  walk (step_C09 c) (map (fun _ => p9_empty) (all_ports c)) (init_snap c) (pc_events c) (pc_trace c).

Definition kf_C09 (c : pcase) : Z := 0.
Definition case := pcase.
Definition run_cases := run_cases_gen agree_port ok_C09 kf_C09.
