(** C10 — Master-side messages carry exact timestamps and consistent identifiers. *)
From SV Require Export Port.OracleBase.

Definition seqmap := list (Z * Z * Z).     (* (port, message type code, last sequence id) *)
Fixpoint sm_get (m : seqmap) (p t : Z) : option Z :=
  match m with
  | [] => None
  | (p', t', s) :: m' => if (p =? p') && (t =? t') then Some s else sm_get m' p t
  end.
Definition sm_set (m : seqmap) (p t s : Z) : seqmap := (p, t, s) :: m.

Definition ts_bits (w : wire_ts) : Z := (ts_secs w * NS_PER_S + ts_nanos w) * FRAC.
Definition in_range_ts (t : Z) : bool := (0 <=? t) && (t <? 2 ^ 63 * FRAC).

(** every emitted frame: decodes, own identity, instance domain/sdoId, size,
    and is sent through the channel (event/general) of its message type *)
Definition frame_ok (c : pcase) (ds : inst_ds) (p : nat) (x : bool * bytes) : bool :=
  match decoded (snd x) with
  | None => false
  | Some m =>
      pi_eqb (h_source (m_header m)) (port_id c p)
      && (h_domain (m_header m) =? dd_domain (ds_default ds))
      && (h_sdo_id (m_header m) =? dd_sdo_id (ds_default ds))
      && (blen (snd x) <=? MAX_DATA_LEN)
      && (blen (snd x) =? wire_size m)
      && bool_eqb (is_event_frame_type (body_type (m_body m))) (fst x)
  end.

(** sequence ids of Sync / Delay_Req / Pdelay_Req / Announce increase by one mod 2^16 *)
Definition counted_type (t : msg_type) : bool :=
  match t with MTSync | MTDelayReq | MTPDelayReq | MTAnnounce => true | _ => false end.

Fixpoint seq_check (sm : seqmap) (p : Z) (frames : list (bool * bytes)) : option seqmap :=
  match frames with
  | [] => Some sm
  | x :: fs =>
      match decoded (snd x) with
      | None => None
      | Some m =>
          let t := body_type (m_body m) in
          if counted_type t then
            let code := msg_type_code t in
            let s := h_seq (m_header m) in
            match sm_get sm p code with
            | Some prev => if s =? (prev + 1) mod 65536 then seq_check (sm_set sm p code s) p fs else None
            | None => seq_check (sm_set sm p code s) p fs
            end
          else seq_check sm p fs
      end
  end.

Definition msgs_of_type (t : msg_type) (frames : list (bool * bytes)) : list message :=
  flat_map (fun x => match decoded (snd x) with
                     | Some m => if msg_type_eqb (body_type (m_body m)) t then [m] else []
                     | None => []
                     end) frames.

Definition sat_i64 (v : Z) : Z := Z.max (- 2 ^ 63) (Z.min (2 ^ 63 - 1) v).

(** response expectations for the addressed port; returns false on violation *)
Definition responses_ok (c : pcase) (prev : snapshot) (e : event) (p : nat) (o : list obs) : bool :=
  let frames := sent_frames o in
  let fus := msgs_of_type MTFollowUp frames in
  let drs := msgs_of_type MTDelayResp frames in
  let prs := msgs_of_type MTPDelayResp frames in
  let pfs := msgs_of_type MTPDelayRespFollowUp frames in
  let master := state_of prev p =? 6 in
  let none4 := (length fus =? 0)%nat && (length drs =? 0)%nat && (length prs =? 0)%nat && (length pfs =? 0)%nat in
  match e with
  | EvSendTimestamp _ (CtxSync id) ts =>
      (length drs =? 0)%nat && (length prs =? 0)%nat && (length pfs =? 0)%nat &&
      if master then
        match fus with
        | [m] =>
            (h_seq (m_header m) =? id) &&
            match m_body m with
            | BFollowUp w =>
                if in_range_ts ts then
                  (ts_bits w + h_correction (m_header m) * 2 ^ 16 =? ts - ts mod 2 ^ 16)
                  && (0 <=? h_correction (m_header m)) && (h_correction (m_header m) <? 2 ^ 16)
                else true
            | _ => false
            end
        | _ => false
        end
      else (length fus =? 0)%nat
  | EvSendTimestamp _ (CtxPDelayResp id req) ts =>
      (length fus =? 0)%nat && (length drs =? 0)%nat && (length prs =? 0)%nat &&
      match pfs with
      | [m] =>
          (h_seq (m_header m) =? id) &&
          match m_body m with
          | BPDelayRespFollowUp w r =>
              pi_eqb r req && (if in_range_ts ts then ts_bits w =? ts - ts mod FRAC else true)
          | _ => false
          end
      | _ => false
      end
  | EvRecvEvent _ frame ts =>
      match (if is_compatible frame then decoded frame else None) with
      | Some q =>
          if (h_domain (m_header q) =? dd_domain (ds_default (sn_ds prev)))
             && (h_sdo_id (m_header q) =? dd_sdo_id (ds_default (sn_ds prev))) then
            match m_body q with
            | BDelayReq _ =>
                (length fus =? 0)%nat && (length prs =? 0)%nat && (length pfs =? 0)%nat &&
                if master then
                  match drs with
                  | [m] =>
                      (h_seq (m_header m) =? h_seq (m_header q)) &&
                      match m_body m with
                      | BDelayResp w r =>
                          pi_eqb r (h_source (m_header q)) &&
                          (if in_range_ts ts then
                             let sub := (ts mod FRAC) / 2 ^ 16 in
                             (h_correction (m_header m) =? sat_i64 (h_correction (m_header q) + sub))
                             && (ts_bits w =? ts - ts mod FRAC)
                           else true)
                      | _ => false
                      end
                  | _ => false
                  end
                else (length drs =? 0)%nat
            | BPDelayReq _ =>
                (length fus =? 0)%nat && (length drs =? 0)%nat && (length pfs =? 0)%nat &&
                match prs with
                | [m] =>
                    (h_seq (m_header m) =? h_seq (m_header q)) &&
                    match m_body m with
                    | BPDelayResp w r =>
                        pi_eqb r (h_source (m_header q))
                        && (if in_range_ts ts then ts_bits w =? ts - ts mod FRAC else true)
                        && existsb (fun x => match x with
                                             | ASendEvent (CtxPDelayResp id rq) _ _ =>
                                                 (id =? h_seq (m_header q)) && pi_eqb rq (h_source (m_header q))
                                             | _ => false
                                             end) o
                    | _ => false
                    end
                | _ => false
                end
            | _ => none4
            end
          else none4
      | None => none4
      end
  | _ => none4
  end.

Definition is_send_event (x : obs) : bool := match x with ASendEvent _ _ _ => true | _ => false end.

Definition step_C10 (c : pcase) (sm : seqmap) (prev : snapshot) (e : event) (o : list tobs) (sn : snapshot)
  : option seqmap :=
  let per_port (acc : option seqmap) (p : nat) : option seqmap :=
    match acc with
    | None => None
    | Some sm =>
        let op := obs_of_port o p in
        let frames := sent_frames op in
        if negb (forallb (frame_ok c (sn_ds prev) p) frames) then None else
        if negb (count is_send_event op <=? 1)%nat then None else
        let resp_ok := match event_port e with
                       | Some q => if Nat.eqb p q then responses_ok c prev e p op
                                   else responses_ok c prev EvBmca p op
                       | None => responses_ok c prev EvBmca p op
                       end in
        if negb resp_ok then None else
        seq_check sm (Z.of_nat p) frames
    end in
  fold_left per_port (all_ports c) (Some sm).

Definition ok_C10 (c : pcase) : bool :=
  walk (step_C10 c) [] (init_snap c) (pc_events c) (pc_trace c).

Definition kf_C10 (c : pcase) : Z := 0.
Definition case := pcase.
Definition run_cases := run_cases_gen agree_port ok_C10 kf_C10.
