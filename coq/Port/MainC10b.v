(** C10, whole histories, the complete oracle: besides the frame and sequence
    conjuncts (MainC10.v, SeqMain.v) every call emits at most one event frame
    and the responses (Follow_Up, Delay_Resp, Pdelay_Resp, Pdelay_Resp_Follow_Up)
    carry exactly the timestamps, corrections and identifiers the property asks
    for - so [ok_C10] accepts the model's own trace for every valid set-up and
    every valid event list. *)
From SV Require Export Port.MainC15 Port.SeqMain Port.LemmasC10.

(** * the four response types *)
Definition resp_type (t : msg_type) : bool :=
  match t with MTFollowUp | MTDelayResp | MTPDelayResp | MTPDelayRespFollowUp => true | _ => false end.

Definition none4b (frames : list (bool * bytes)) : bool :=
  (length (msgs_of_type MTFollowUp frames) =? 0)%nat && (length (msgs_of_type MTDelayResp frames) =? 0)%nat
  && (length (msgs_of_type MTPDelayResp frames) =? 0)%nat && (length (msgs_of_type MTPDelayRespFollowUp frames) =? 0)%nat.

Lemma msgs_other frames t :
  (forall x, In x frames -> exists m, decode (snd x) = ROk m /\ msg_type_eqb (body_type (m_body m)) t = false) ->
  msgs_of_type t frames = [].
Proof.
  unfold msgs_of_type. induction frames as [|x l IH]; intros H; [reflexivity|]. cbn [flat_map].
  destruct (H x (or_introl eq_refl)) as (m & Hd & Ht). unfold decoded. rewrite Hd, Ht. cbn [app].
  apply IH. intros y Hy. apply H. right. exact Hy.
Qed.

Lemma none4_of frames :
  (forall x, In x frames -> exists m, decode (snd x) = ROk m /\ resp_type (body_type (m_body m)) = false) ->
  none4b frames = true.
Proof.
  intros H. unfold none4b.
  rewrite !msgs_other; [reflexivity| | | |]; intros x Hx; destruct (H x Hx) as (m & Hd & Ht); exists m; (split; [exact Hd|]);
    destruct (body_type (m_body m)); try reflexivity; discriminate Ht.
Qed.

Lemma none4_nil : none4b [] = true.
Proof. reflexivity. Qed.

Lemma msgs_single t ev m0 : decode (encode_raw m0) = ROk m0 ->
  msgs_of_type t [(ev, encode_raw m0)] = if msg_type_eqb (body_type (m_body m0)) t then [m0] else [].
Proof. intros H. unfold msgs_of_type. cbn [flat_map snd]. unfold decoded. rewrite H. rewrite app_nil_r. reflexivity. Qed.

(** a call whose frames are known by role and are not responses *)
Lemma none4_role p d oo t0 :
  frames_role p d oo -> (sent_frames oo = [] \/ (one_frame oo t0 /\ resp_type t0 = false)) -> none4b (sent_frames oo) = true.
Proof.
  intros Hf [Hn|[(ev & m0 & Hs & Ht) Hr]]; [rewrite Hn; reflexivity|].
  apply none4_of. intros x Hx. unfold frames_role in Hf. rewrite Forall_forall in Hf.
  destruct (Hf x Hx) as (m & Hd & _ & _ & Henc & _). exists m. split; [exact Hd|].
  rewrite Hs in Hx. destruct Hx as [<-|[]]. cbn [snd] in Henc.
  rewrite <- (encode_raw_type _ _ Henc), Ht. exact Hr.
Qed.

(** * the four responses *)
Lemma code_master' s : (port_state_code s =? 6) = is_master s.
Proof. destruct s; reflexivity. Qed.

Ltac four_types Hdec :=
  rewrite !(msgs_single _ _ _ Hdec); cbn [m_body]; simpl (msg_type_eqb _ _); cbn [length Nat.eqb andb].

Lemma sync_ts_resp c prev n pp d id ts pp' d' oo :
  port_inv pp -> ds_inv d -> ts_valid ts -> 0 <= id < 65536 ->
  state_of prev n = port_state_code (p_state pp) ->
  handle_sync_timestamp pp d id ts = Ok (pp', d', oo) ->
  responses_ok c prev (EvSendTimestamp n (CtxSync id) ts) n (filter (fun x => negb (MainC08Role.is_lock x)) oo) = true.
Proof.
  intros Hp Hd Hts Hid Hst H. unfold responses_ok. rewrite sent_frames_filter, Hst, code_master'.
  unfold handle_sync_timestamp in H. destruct (is_master (p_state pp)) eqn:Em;
    [|unfold ret in H; inversion H; subst; reflexivity].
  destruct (follow_up_exact (ds_default d) (p_identity pp) id ts (pc_minor (p_config pp)) (ts_valid_in_range ts Hts)) as (w & Hm & He & Hc).
  rewrite Hm in H. cbn [obind] in H.
  destruct (serialize_packet _) as [f|?] eqn:Ef; cbn [obind] in H; [|discriminate].
  unfold ret in H. injection H as <- <- <-. apply serialize_inv in Ef. subst f.
  cbn [sent_frames flat_map app rd_lock].
  set (m0 := mkMsg (with_correction (base_header (ds_default d) (p_identity pp) id (pc_minor (p_config pp))) (time_subnano ts)) (BFollowUp w) []).
  assert (Hdec : decode (encode_raw m0) = ROk m0).
  { apply encode_decode. apply fixed_msg_wf; [| |exact I].
    - apply with_correction_wf; [|pose proof (subnano_range ts); lia].
      apply base_header_wf; [apply ds_dd_wfb; exact Hd|apply (inv_port_ranges pp Hp)|exact Hid|apply inv_minor; exact Hp].
    - cbn. unfold msg_follow_up in Hm. destruct (wire_of_time ts) as [w'|?] eqn:Ew; cbn [obind] in Hm; [|discriminate].
      inversion Hm; subst w'. eapply wire_of_time_wf; eauto. }
  four_types Hdec.
  cbn [m0 m_header m_body with_correction base_header h_seq h_correction].
  rewrite Z.eqb_refl, (ts_valid_in_range ts Hts), He, Z.eqb_refl. cbn [andb].
  destruct Hc as [C1 C2]. destruct (Z.leb_spec 0 (time_subnano ts)); [|lia]. destruct (Z.ltb_spec (time_subnano ts) (2 ^ 16)); [reflexivity|lia].
Qed.

Lemma pdresp_ts_resp c prev n pp d id rq ts pp' d' oo :
  port_inv pp -> ds_inv d -> ts_valid ts -> 0 <= id < 65536 -> wf_pi rq ->
  handle_pdelay_response_timestamp pp d id rq ts = Ok (pp', d', oo) ->
  responses_ok c prev (EvSendTimestamp n (CtxPDelayResp id rq) ts) n (filter (fun x => negb (MainC08Role.is_lock x)) oo) = true.
Proof.
  intros Hp Hd Hts Hid Hrq H. unfold responses_ok. rewrite sent_frames_filter.
  unfold handle_pdelay_response_timestamp in H.
  destruct (pdelay_resp_follow_up_exact (ds_default d) (p_identity pp) rq id ts (pc_minor (p_config pp)) (ts_valid_in_range ts Hts)) as (w & Hm & He).
  rewrite Hm in H. cbn [obind] in H.
  destruct (serialize_packet _) as [f|?] eqn:Ef; cbn [obind] in H; [|discriminate].
  unfold ret in H. injection H as <- <- <-. apply serialize_inv in Ef. subst f.
  cbn [sent_frames flat_map app rd_lock].
  set (m0 := mkMsg (base_header (ds_default d) (p_identity pp) id (pc_minor (p_config pp))) (BPDelayRespFollowUp w rq) []).
  assert (Hdec : decode (encode_raw m0) = ROk m0).
  { apply encode_decode. apply fixed_msg_wf; [| |exact I].
    - apply base_header_wf; [apply ds_dd_wfb; exact Hd|apply (inv_port_ranges pp Hp)|exact Hid|apply inv_minor; exact Hp].
    - cbn. unfold msg_pdelay_resp_follow_up in Hm. destruct (wire_of_time ts) as [w'|?] eqn:Ew; cbn [obind] in Hm; [|discriminate].
      inversion Hm; subst w'. split; [eapply wire_of_time_wf; eauto|exact Hrq]. }
  four_types Hdec.
  cbn [m0 m_header m_body base_header h_seq].
  rewrite Z.eqb_refl, pi_eqb_refl, (ts_valid_in_range ts Hts), He, Z.eqb_refl. reflexivity.
Qed.

Lemma delay_req_resp pp d h ts pp' d' oo :
  port_inv pp -> ds_inv d -> wf_header h -> ts_valid ts ->
  handle_delay_req pp d h ts = Ok (pp', d', oo) ->
  let frames := sent_frames oo in
  (length (msgs_of_type MTFollowUp frames) =? 0)%nat && (length (msgs_of_type MTPDelayResp frames) =? 0)%nat
  && (length (msgs_of_type MTPDelayRespFollowUp frames) =? 0)%nat &&
  (if is_master (p_state pp) then
     match msgs_of_type MTDelayResp frames with
     | [m] =>
         (h_seq (m_header m) =? h_seq h) &&
         match m_body m with
         | BDelayResp w r =>
             pi_eqb r (h_source h) &&
             (if in_range_ts ts then
                (h_correction (m_header m) =? sat_i64 (h_correction h + (ts mod FRAC) / 2 ^ 16))
                && (ts_bits w =? ts - ts mod FRAC)
              else true)
         | _ => false
         end
     | _ => false
     end
   else (length (msgs_of_type MTDelayResp frames) =? 0)%nat) = true.
Proof.
  intros Hp Hd Hh Hts H. cbv zeta.
  unfold handle_delay_req in H. destruct (is_master (p_state pp)) eqn:Em;
    [|unfold ret in H; inversion H; subst; reflexivity].
  destruct (delay_resp_exact h (p_identity pp) (dm_interval (pc_delay (p_config pp))) ts (ts_valid_in_range ts Hts)) as (w & Hm & He).
  rewrite Hm in H. cbn [obind] in H.
  destruct (serialize_packet _) as [f|?] eqn:Ef; cbn [obind] in H; [|discriminate].
  unfold ret in H. injection H as <- <- <-. apply serialize_inv in Ef. subst f.
  cbn [sent_frames flat_map app].
  set (m0 := mkMsg (with_log_interval (with_correction (with_source (with_two_step h false) (p_identity pp))
                      (sat_i64 (h_correction h + time_subnano ts))) (dm_interval (pc_delay (p_config pp))))
                   (BDelayResp w (h_source h)) []).
  assert (Hdec : decode (encode_raw m0) = ROk m0).
  { apply encode_decode. apply fixed_msg_wf; [| |exact I].
    - apply with_log_interval_wf.
      + apply with_correction_wf; [|unfold sat_i64; change (2 ^ 63) with 9223372036854775808; lia].
        apply with_source_wf; [apply with_two_step_wf; exact Hh|apply (inv_port_ranges pp Hp)].
      + destruct Hp as ((_ & _ & Hx & _) & _). lia.
    - cbn. unfold msg_delay_resp in Hm. destruct (wire_of_time ts) as [w'|?] eqn:Ew; cbn [obind] in Hm; [|discriminate].
      inversion Hm; subst w'. split; [eapply wire_of_time_wf; eauto|apply Hh]. }
  four_types Hdec.
  cbn [m0 m_header m_body with_log_interval with_correction with_source with_two_step h_seq h_correction].
  rewrite Z.eqb_refl, pi_eqb_refl, (ts_valid_in_range ts Hts), He, Z.eqb_refl.
  unfold time_subnano. rewrite Z.eqb_refl. reflexivity.
Qed.

Lemma pdelay_req_resp pp d h ts pp' d' oo :
  port_inv pp -> ds_inv d -> wf_header h -> ts_valid ts ->
  handle_pdelay_req pp d h ts = Ok (pp', d', oo) ->
  let op := filter (fun x => negb (MainC08Role.is_lock x)) oo in
  let frames := sent_frames op in
  (length (msgs_of_type MTFollowUp frames) =? 0)%nat && (length (msgs_of_type MTDelayResp frames) =? 0)%nat
  && (length (msgs_of_type MTPDelayRespFollowUp frames) =? 0)%nat &&
  match msgs_of_type MTPDelayResp frames with
  | [m] =>
      (h_seq (m_header m) =? h_seq h) &&
      match m_body m with
      | BPDelayResp w r =>
          pi_eqb r (h_source h)
          && (if in_range_ts ts then ts_bits w =? ts - ts mod FRAC else true)
          && existsb (fun x => match x with
                               | ASendEvent (CtxPDelayResp id rq) _ _ => (id =? h_seq h) && pi_eqb rq (h_source h)
                               | _ => false
                               end) op
      | _ => false
      end
  | _ => false
  end = true.
Proof.
  intros Hp Hd Hh Hts H. cbv zeta. rewrite sent_frames_filter.
  unfold handle_pdelay_req in H.
  destruct (pdelay_resp_exact (ds_default d) (p_identity pp) h ts (pc_minor (p_config pp)) (ts_valid_in_range ts Hts)) as (w & Hm & He).
  rewrite Hm in H. cbn [obind] in H.
  destruct (serialize_packet _) as [f|?] eqn:Ef; cbn [obind] in H; [|discriminate].
  unfold ret in H. injection H as <- <- <-. apply serialize_inv in Ef. subst f.
  cbn [sent_frames flat_map app rd_lock filter MainC08Role.is_lock negb existsb].
  set (m0 := mkMsg (with_correction (with_two_step (base_header (ds_default d) (p_identity pp) (h_seq h) (pc_minor (p_config pp))) true) (h_correction h))
                   (BPDelayResp w (h_source h)) []).
  assert (Hdec : decode (encode_raw m0) = ROk m0).
  { apply encode_decode. apply fixed_msg_wf; [| |exact I].
    - apply with_correction_wf; [|apply Hh]. apply with_two_step_wf.
      apply base_header_wf; [apply ds_dd_wfb; exact Hd|apply (inv_port_ranges pp Hp)|apply Hh|apply inv_minor; exact Hp].
    - cbn. unfold msg_pdelay_resp in Hm. destruct (wire_of_time ts) as [w'|?] eqn:Ew; cbn [obind] in Hm; [|discriminate].
      inversion Hm; subst w'. split; [eapply wire_of_time_wf; eauto|apply Hh]. }
  four_types Hdec.
  cbn [m0 m_header m_body with_correction with_two_step base_header h_seq].
  rewrite !Z.eqb_refl, !pi_eqb_refl, (ts_valid_in_range ts Hts), He, Z.eqb_refl. reflexivity.
Qed.

(** * at most one frame per port and call *)
Lemma seq_call_le1 p p' oo : seq_call p p' oo -> (length (sent_frames oo) <= 1)%nat.
Proof. intros [[H _]|(x & m & H & _)]; rewrite H; cbn; lia. Qed.

Lemma count_se_le o : (count is_send_event o <= length (sent_frames o))%nat.
Proof.
  unfold count, sent_frames. induction o as [|x o IH]; [cbn; lia|]. cbn [filter flat_map].
  destruct x; cbn [is_send_event app length]; rewrite ?app_length; cbn [length]; lia.
Qed.

Lemma count_se_nolock oo : count is_send_event (filter (fun x => negb (MainC08Role.is_lock x)) oo) = count is_send_event oo.
Proof.
  unfold count. induction oo as [|x o IH]; [reflexivity|]. cbn [filter].
  destruct x; cbn [MainC08Role.is_lock negb filter is_send_event length]; rewrite ?IH; reflexivity.
Qed.

(** * the fold of step_C10 is the sequence fold when the other conjuncts hold *)
Definition resp_sel (c : pcase) (prev : snapshot) (e : event) (p : nat) (op : list obs) : bool :=
  match event_port e with
  | Some q => if Nat.eqb p q then responses_ok c prev e p op else responses_ok c prev EvBmca p op
  | None => responses_ok c prev EvBmca p op
  end.

Lemma step_C10_eq c sm prev e o sn :
  (forall p, In p (all_ports c) ->
     forallb (frame_ok c (sn_ds prev) p) (sent_frames (obs_of_port o p)) = true /\
     (count is_send_event (obs_of_port o p) <=? 1)%nat = true /\
     resp_sel c prev e p (obs_of_port o p) = true) ->
  step_C10 c sm prev e o sn = seq_ports c sm o.
Proof.
  unfold step_C10, seq_ports, resp_sel. generalize (all_ports c). intros l. generalize (Some sm). 
  induction l as [|p l IH]; intros acc H; cbn [fold_left]; [reflexivity|].
  rewrite IH by (intros q Hq; apply H; right; exact Hq).
  f_equal. destruct acc as [sm0|]; [|reflexivity].
  destruct (H p (or_introl eq_refl)) as (H1 & H2 & H3). rewrite H1, H2. cbn [negb].
  destruct (event_port e) as [q|]; [destruct (Nat.eqb p q)|]; rewrite H3; reflexivity.
Qed.

(** * responses of every call on the addressed port *)
Lemma calm_frames sl o : calm sl o = true -> sent_frames o = [].
Proof. intros H. apply no_send_frames. eapply calm_no_send. exact H. Qed.

Lemma sent_frames_lock o : sent_frames (rd_lock :: o) = sent_frames o.
Proof. reflexivity. Qed.

Lemma resp_other c prev e p op :
  match e with
  | EvSendTimestamp _ (CtxSync _) _ | EvSendTimestamp _ (CtxPDelayResp _ _) _ | EvRecvEvent _ _ _ => False
  | _ => True
  end -> responses_ok c prev e p op = none4b (sent_frames op).
Proof. destruct e; try (intros []; fail); try reflexivity. destruct ctx; try (intros []; fail); reflexivity. Qed.

Lemma recv_event_resp c prev n pp d ti frame ts pp' d' oo :
  port_inv pp -> ds_inv d -> bok frame -> ts_valid ts -> sn_ds prev = d ->
  state_of prev n = port_state_code (p_state pp) ->
  handle_event_receive pp d ti frame ts = Ok (pp', d', oo) ->
  responses_ok c prev (EvRecvEvent n frame ts) n (filter (fun x => negb (MainC08Role.is_lock x)) oo) = true.
Proof.
  intros Hp Hd Hbok Hts Hprev Hst H. unfold responses_ok. rewrite Hst, code_master', Hprev.
  fold (none4b (sent_frames (filter (fun x => negb (MainC08Role.is_lock x)) oo))).
  unfold handle_event_receive, parse_and_filter in H. unfold decoded.
  destruct (is_compatible frame); cbn [negb] in H;
    [|unfold ret in H; inversion H; subst; reflexivity].
  destruct (decode frame) as [m|?] eqn:Ed; [|unfold ret in H; inversion H; subst; reflexivity].
  rewrite (andb_comm (h_domain (m_header m) =? _)).
  destruct ((h_sdo_id (m_header m) =? dd_sdo_id (ds_default d)) && (h_domain (m_header m) =? dd_domain (ds_default d)));
    [|unfold ret in H; inversion H; subst; reflexivity].
  destruct (decoded_wf frame m Hbok Ed) as (Hh & Hb & _).
  unfold prepend in H.
  match type of H with obind ?X _ = _ => destruct X as [[[p1 d1] o2]|?] eqn:E end; cbn [obind] in H; [|discriminate].
  inversion H; subst. cbn [app filter MainC08Role.is_lock rd_lock negb].
  assert (Hnone : sent_frames o2 = [] ->
            none4b (sent_frames (filter (fun x => negb (MainC08Role.is_lock x)) o2)) = true).
  { intros Hx. rewrite sent_frames_filter, Hx. reflexivity. }
  destruct (m_body m) eqn:Eb.
  - apply Hnone. eapply calm_frames. eapply handle_sync_calm; eauto.
  - rewrite sent_frames_filter. exact (delay_req_resp pp (sn_ds prev) (m_header m) ts pp' d' o2 Hp Hd Hh Hts E).
  - exact (pdelay_req_resp pp (sn_ds prev) (m_header m) ts pp' d' o2 Hp Hd Hh Hts E).
  - apply Hnone. eapply calm_frames. eapply handle_peer_delay_response_calm; eauto.
  - apply Hnone. eapply calm_frames. eapply handle_general_internal_calm; eauto.
  - apply Hnone. eapply calm_frames. eapply handle_general_internal_calm; eauto.
  - apply Hnone. eapply calm_frames. eapply handle_general_internal_calm; eauto.
  - apply Hnone. eapply calm_frames. eapply handle_general_internal_calm; eauto.
  - apply Hnone. eapply calm_frames. eapply handle_general_internal_calm; eauto.
  - apply Hnone. eapply calm_frames. eapply handle_general_internal_calm; eauto.
Qed.

Lemma send_ts_resp c prev n pp d ctx ts pp' d' oo :
  port_inv pp -> ds_inv d -> ts_valid ts -> ctx_valid ctx ->
  state_of prev n = port_state_code (p_state pp) ->
  handle_send_timestamp pp d ctx ts = Ok (pp', d', oo) ->
  responses_ok c prev (EvSendTimestamp n ctx ts) n (filter (fun x => negb (MainC08Role.is_lock x)) oo) = true.
Proof.
  intros Hp Hd Hts Hc Hst H. unfold handle_send_timestamp in H. destruct ctx; cbn [ctx_valid] in Hc.
  - eapply sync_ts_resp; eauto.
  - rewrite resp_other by exact I. rewrite sent_frames_filter.
    rewrite (calm_frames _ _ (handle_delay_timestamp_calm _ _ _ _ _ _ _ H)). reflexivity.
  - rewrite resp_other by exact I. rewrite sent_frames_filter.
    rewrite (calm_frames _ _ (handle_pdelay_timestamp_calm _ _ _ _ _ _ _ H)). reflexivity.
  - destruct Hc as [Hid Hrq]. eapply pdresp_ts_resp; eauto.
Qed.

(** every call on the addressed port: its responses and at most one frame *)
Lemma port_call_C10 c i n e pp i' o :
  inst_inv i -> event_port e = Some n -> nth_error (i_ports i) n = Some pp -> event_valid e ->
  step i e = Ok (i', o) ->
  responses_ok c (snapshot_of i) e n (obs_of_port o n) = true /\ (length (sent_frames (obs_of_port o n)) <= 1)%nat.
Proof.
  intros Hi Hev Hn He Hs.
  assert (Hpd : port_inv pp /\ ds_inv (i_ds i)).
  { destruct Hi as (Hports & Hds & _). split; [|exact Hds]. rewrite Forall_forall in Hports. apply Hports. eapply nth_error_In; eauto. }
  destruct Hpd as [Hp Hd].
  pose proof (MainC09.state_of_snapshot i n pp Hn) as Hst.
  assert (Hon : forall f, on_port i n f = Ok (i', o) ->
            exists pp' d' oo, f pp (i_ds i) = Ok (pp', d', oo) /\ o = tag n oo).
  { intros f H. unfold on_port in H. rewrite Hn in H.
    destruct (f pp (i_ds i)) as [[[pp' d'] oo]|?]; cbn [obind] in H; [|discriminate].
    inversion H; subst. exists pp', d', oo. split; reflexivity. }
  assert (Hnone : forall pp' oo e0, frames_role pp (i_ds i) oo -> seq_call pp pp' oo ->
            (sent_frames oo = [] \/ exists t0, one_frame oo t0 /\ resp_type t0 = false) ->
            match e0 with
            | EvSendTimestamp _ (CtxSync _) _ | EvSendTimestamp _ (CtxPDelayResp _ _) _ | EvRecvEvent _ _ _ => False
            | _ => True
            end ->
            responses_ok c (snapshot_of i) e0 n (obs_of_port (tag n oo) n) = true /\
            (length (sent_frames (obs_of_port (tag n oo) n)) <= 1)%nat).
  { intros pp' oo e0 Hfr Hsc Hof He0. rewrite obs_of_port_tag_same, sent_frames_filter. split; [|eapply seq_call_le1; eauto].
    rewrite (resp_other _ _ _ _ _ He0), sent_frames_filter.
    destruct Hof as [Hx|(t0 & H1 & H2)]; [rewrite Hx; reflexivity|].
    eapply none4_role; [exact Hfr|right; split; eassumption]. }
  destruct e; cbn [event_port] in Hev; try discriminate Hev; inversion Hev; subst; cbn [step event_valid] in *;
    destruct (Hon _ Hs) as (pp' & d' & oo & Hh & ->).
  - destruct He as [Hb Ht]. rewrite obs_of_port_tag_same, sent_frames_filter. split.
    + eapply recv_event_resp; eauto.
    + eapply seq_call_le1. eapply event_receive_seq_call; eauto.
  - apply (Hnone pp' oo (EvRecvGeneral n frame)); [| |left|exact I].
    + apply frames_role_none. eapply calm_no_send. eapply handle_general_receive_calm; eauto.
    + eapply general_receive_seq_call; eauto.
    + eapply calm_frames. eapply handle_general_receive_calm; eauto.
  - destruct He as [Ht Hc]. rewrite obs_of_port_tag_same, sent_frames_filter. split.
    + eapply send_ts_resp; eauto.
    + eapply seq_call_le1. eapply send_timestamp_seq_call; eauto.
  - apply (Hnone pp' oo (EvAnnounceTimer n queue)); [eapply send_announce_role; eauto|eapply announce_timer_seq_call; eauto| |exact I].
    pose proof (send_announce_one _ _ _ _ _ _ Hh) as Ho. destruct (is_master (p_state pp)); [right; exists MTAnnounce; split; [exact Ho|reflexivity]|left; exact Ho].
  - apply (Hnone pp' oo (EvSyncTimer n)); [eapply send_sync_role; eauto|eapply sync_timer_seq_call; eauto| |exact I].
    pose proof (send_sync_one _ _ _ _ _ Hh) as Ho. destruct (is_master (p_state pp)); [right; exists MTSync; split; [exact Ho|reflexivity]|left; exact Ho].
  - apply (Hnone pp' oo (EvDelayReqTimer n)); [eapply send_delay_request_role; eauto|eapply delay_timer_seq_call; eauto| |exact I].
    pose proof (send_delay_request_one _ _ _ _ _ Hh) as Ho. destruct (pc_delay (p_config pp)).
    + destruct (is_slave (p_state pp)); [right; exists MTDelayReq; split; [exact Ho|reflexivity]|left; exact Ho].
    + right. exists MTPDelayReq. split; [exact Ho|reflexivity].
  - apply (Hnone pp' oo (EvAnnounceReceiptTimer n)); [| |left|exact I].
    + apply frames_role_none. eapply receipt_timer_no_send; eauto.
    + apply seq_call_quiet; [eapply receipt_timer_no_send; eauto|eapply receipt_timer_seqs; eauto].
    + apply no_send_frames. eapply receipt_timer_no_send; eauto.
  - unfold handle_filter_update_timer, ret in Hh. inversion Hh; subst.
    apply (Hnone pp' [OFilterUpdate] (EvFilterUpdateTimer n)); [constructor|left; split; reflexivity|left; reflexivity|exact I].
Qed.

(** * the complete step and the walk *)
Lemma resp_idle c prev p : responses_ok c prev EvBmca p [] = true.
Proof. reflexivity. Qed.

Lemma step_C10_model c i e i' o sm :
  reach_inv c i -> event_valid e -> step i e = Ok (i', o) -> sm_inv sm i ->
  exists sm', step_C10 c sm (snapshot_of i) e o (snapshot_of i') = Some sm' /\ sm_inv sm' i'.
Proof.
  intros Hr He Hs Hinv. pose proof (ports_len c i Hr) as Hlen. destruct Hr as [Hi Hclk Hsp Hacc Hcf].
  destruct (step_seq c i e i' o sm Hi He Hlen Hs Hinv) as (sm' & Hsp' & Hinv').
  exists sm'. split; [|exact Hinv'].
  rewrite step_C10_eq; [exact Hsp'|].
  intros p Hp.
  pose proof (frames_C10_model c i e i' o Hi Hclk Hlen He Hs) as Hfr. unfold frames_C10 in Hfr.
  rewrite forallb_forall in Hfr. split; [exact (Hfr p Hp)|].
  unfold all_ports in Hp. apply in_seq in Hp. rewrite <- Hlen in Hp.
  destruct (nth_error (i_ports i) p) as [pp|] eqn:Hn; [|apply nth_error_None in Hn; lia].
  (* a port the call does not address shows nothing *)
  assert (Hquiet : obs_of_port o p = [] ->
            (count is_send_event (obs_of_port o p) <=? 1)%nat = true /\ responses_ok c (snapshot_of i) EvBmca p (obs_of_port o p) = true).
  { intros ->. split; reflexivity. }
  assert (Hnofr : sent_frames (obs_of_port o p) = [] ->
            (count is_send_event (obs_of_port o p) <=? 1)%nat = true /\ responses_ok c (snapshot_of i) EvBmca p (obs_of_port o p) = true).
  { intros Hx. split.
    - pose proof (count_se_le (obs_of_port o p)) as Hc. rewrite Hx in Hc. cbn [length] in Hc. apply Nat.leb_le. lia.
    - rewrite resp_other by exact I. rewrite Hx. reflexivity. }
  unfold resp_sel. destruct (event_port e) as [n|] eqn:Eev.
  - destruct (Nat.eqb p n) eqn:Epn.
    + apply Nat.eqb_eq in Epn. subst n.
      destruct (port_call_C10 c i p e pp i' o Hi Eev Hn He Hs) as [H1 H2]. split; [|exact H1].
      pose proof (count_se_le (obs_of_port o p)). apply Nat.leb_le. lia.
    + apply Nat.eqb_neq in Epn.
      assert (Hon : forall f, on_port i n f = Ok (i', o) -> obs_of_port o p = []).
      { intros f H. unfold on_port in H. destruct (nth_error (i_ports i) n) as [q|]; [|inversion H; subst; reflexivity].
        destruct (f q (i_ds i)) as [[[q' d'] oo]|?]; cbn [obind] in H; [|discriminate]. inversion H; subst.
        apply obs_of_port_tag_other; auto. }
      apply Hquiet. destruct e; cbn [event_port] in Eev; try discriminate Eev; inversion Eev; subst; cbn [step] in Hs; eapply Hon; exact Hs.
  - destruct e; cbn [event_port] in Eev; try discriminate Eev; cbn [step] in Hs.
    + apply Hnofr. exact (bmca_no_frames i i' o Hi Hs p).
    + inversion Hs; subst. apply Hquiet. unfold obs_of_port. cbn [filter fst]. destruct (-1 =? Z.of_nat p) eqn:E; [lia|reflexivity].
    + inversion Hs; subst. apply Hquiet. unfold obs_of_port. cbn [filter fst]. destruct (-1 =? Z.of_nat p) eqn:E; [lia|reflexivity].
    + inversion Hs; subst. apply Hquiet. reflexivity.
Qed.

Lemma walk_C10_model c es : forall i sm,
  reach_inv c i -> sm_inv sm i -> Forall event_valid es ->
  walk (step_C10 c) sm (snapshot_of i) es (run i es) = true.
Proof.
  induction es as [|e es IH]; intros i sm Hr Hinv Hes; cbn [run walk]; [reflexivity|].
  inversion Hes as [|? ? He Hes']; subst.
  destruct (step_ok i e (ri_inv _ _ Hr) He) as (i1 & o1 & Hs & _). rewrite Hs. cbn [walk].
  destruct (step_C10_model c i e i1 o1 sm Hr He Hs Hinv) as (sm' & Hst & Hinv'). rewrite Hst.
  apply IH; [eapply reach_step; eauto|exact Hinv'|exact Hes'].
Qed.

(** the complete C10 oracle accepts the model's own trace, for every valid
    set-up and every valid event list *)
Theorem ok_C10_model s es rel :
  setup_valid s -> Forall event_valid es ->
  exists i o, init s = Ok (i, o) /\ ok_C10 (mkCase s es rel (Some o) (run i es)) = true.
Proof.
  intros Hs Hes. destruct (init_ok s Hs) as (i & o & Hi & _). exists i, o. split; [exact Hi|].
  unfold ok_C10. cbn [pc_events pc_trace]. unfold init_snap. cbn [pc_setup]. rewrite Hi.
  apply walk_C10_model; [apply reach_init; assumption| |exact Hes].
  intros q p t s0 _ _ Hg. cbn in Hg. discriminate.
Qed.
